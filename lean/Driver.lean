import Driver.Main
