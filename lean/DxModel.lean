import DxModel.Graph
import DxModel.Sched
import DxModel.GraphCheck
import DxModel.Layers.Shuffle
import DxModel.Props.C12
