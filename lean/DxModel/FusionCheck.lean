/-
  FusionCheck.lean — executable checkers (T3) for real fusion groups and `Fused` expressions.
  Definitions only, Mathlib-free.  Soundness: Lemmas/FusionTask.lean, Lemmas/FusionPass.lean.

  `fusedOK dag f`   — the hypothesis of `C14_task`: decidable well-formedness of a (possibly nested)
                      `Fused` node against the plan's node list.
  `groupOKb dag root G` — the conclusion of `C14_group_ok`, decided on a concrete group.
-/
import DxModel.Fusion
namespace Dx.Fusion
open Dx

/-- the ordinary (non-`Fused`) members of a fused node, nested groups flattened, in write order -/
def flat (dag : Dag) : Nat → Node → List Nat
  | 0, _ => []
  | fuel+1, f =>
    match f.members with
    | [] => []
    | r :: tail =>
      (match getNode dag r with
       | some rn => if rn.members ≠ [] then flat dag fuel rn else [r]
       | none => [r]) ++ tail

/-- every name inside a fused node: its members and, recursively, those of a nested first member -/
def inner (dag : Dag) : Nat → Node → List Nat
  | 0, _ => []
  | fuel+1, f =>
    f.members ++
    (match f.members with
     | [] => []
     | r :: _ =>
       match getNode dag r with
       | some rn => if rn.members ≠ [] then inner dag fuel rn else []
       | none => [])

/-- an ordinary blockwise node stored under its own name -/
def plainAt (dag : Dag) (n : Nat) : Bool :=
  match getNode dag n with
  | some nd => nd.blockwise && nd.members.isEmpty && nd.name == n
  | none => false

/-- structure of one nesting level (and, recursively, of a nested first member):
    * `f` is a blockwise node with the `Fused` broadcast rule, `members = r :: tail`;
    * every non-first member is an ordinary blockwise node (nested groups only in first position)
      that does not also occur inside the nested first member;
    * the first member has the partition count of `f` and is ordinary or, recursively, a fused node;
    * members have smaller names than `f` (a `Fused` is created after its members);
    * no dependency of `f` is `f` itself or a name inside `f`. -/
def levelOK (dag : Dag) : Nat → Node → Bool
  | 0, _ => false
  | fuel+1, f =>
    f.blockwise && f.kall &&
    (match f.members with
     | [] => false
     | r :: tail =>
       tail.all (fun t => plainAt dag t && decide (t < f.name)) && decide (r < f.name) &&
       (match getNode dag r with
        | some rn =>
          rn.blockwise && rn.name == r && rn.npart == f.npart &&
            (if rn.members ≠ [] then
               levelOK dag fuel rn && tail.all (fun t => !decide (t ∈ inner dag fuel rn))
             else true)
        | none => false)) &&
    f.deps.all (fun d => !decide (d ∈ inner dag (fuel+1) f) && !decide (d = f.name))

/-- conditions on the flattened members `S` of the outermost node `f`. -/
def membersOK (dag : Dag) (f : Node) (S : List Nat) : Bool :=
  S.all (fun m =>
    plainAt dag m &&
    (match getNode dag m with
     | some mn =>
       -- a member has the partition count of the group or a single partition
       (mn.npart == f.npart || mn.npart == 1) &&
       mn.deps.all (fun d =>
         (match getNode dag d with
          | some dn =>
            dn.name == d &&
            -- the plan is well formed at `m`: an operand is broadcast or has `m`'s partition count
            (bcast mn dn || dn.npart == mn.npart)
          | none => false) &&
         -- references inside the group go to smaller names (acyclic), outside ones are dependencies of `f`
         (if d ∈ S then decide (d < m) else decide (d ∈ f.deps)))
     | none => false))

def nodupB : List Nat → Bool
  | [] => true
  | a :: l => !decide (a ∈ l) && nodupB l

def fusedOK (dag : Dag) (f : Node) : Bool :=
  levelOK dag (f.name + 1) f && membersOK dag f (flat dag (f.name + 1) f)

/-- the unfused member tasks: `Blockwise._task(i)`, `i < npartitions`, for the members `S` only;
    everything else is an input. -/
def memberGraph (dag : Dag) (S : List Nat) : Graph FKey
  | .part n i =>
    if n ∈ S then
      (match getNode dag n with
       | some nd => if i < nd.npart then some (plainTask dag nd i) else none
       | none => none)
    else none
  | _ => none

/-! ### groups -/

/-- decides `GroupOK` (Lemmas/FusionPass.lean) for a concrete group, using the dependents map
    of the first half of `_fusion_pass` -/
def groupOKb (dag : Dag) (root : Nat) (G : List Nat) : Bool :=
  match globalMaps dag root with
  | none => false
  | some m =>
    !G.isEmpty && nodupB G &&
    G.all (fun g => isBw dag g && decide (g ∈ m.seen)) &&
    G.tail.all (fun g =>
      (m.dependents.val g).all (fun c => decide (c ∈ G)) &&
      G.any (fun c => decide (g ∈ depsOf dag c)) &&
      (npartOf dag g == npartOf dag (G.headD 0) ||
        G.any (fun c => decide (g ∈ depsOf dag c) && bcastN dag c g)))

/-- Order condition for nested groups at any position (NOT covered by `C14_task`, which handles nested
    groups in first position only): `Fused._task` copies the placeholder entries of a nested member's
    sub-graph; a dependency of the nested member that is itself a member written *earlier* would have
    its task overwritten by that stale placeholder.  `nestOrderOK` rejects exactly that shape. -/
def nestOrderOK (dag : Dag) (f : Node) : Bool :=
  let rec go (before : List Nat) : List Nat → Bool
    | [] => true
    | m :: rest =>
      (match getNode dag m with
       | some mn => if mn.members ≠ [] then mn.deps.all (fun d => !decide (d ∈ before)) else true
       | none => true) && go (before ++ [m]) rest
  go [] f.members

/-- is every nested group of `f` in first position (the fragment of `C14_task`)? -/
def nestedFirstOnly (dag : Dag) (f : Node) : Bool :=
  f.members.tail.all (fun m => match getNode dag m with | some mn => mn.members.isEmpty | none => true)

/-- a decidable sufficient condition for `PlanOK` (Lemmas/FusionMeasure.lean): the root is a node and
    operands have smaller names than their consumers (post-order numbering) -/
def planOKb (dag : Dag) (root : Nat) : Bool :=
  (getNode dag root).isSome && dag.all (fun nd => nd.deps.all (fun d => decide (d < nd.name)))

end Dx.Fusion
