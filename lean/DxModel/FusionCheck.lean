/-
  FusionCheck.lean — executable checkers (T3) for real fusion groups and `Fused` expressions.
  Definitions only, Mathlib-free.  Soundness: Lemmas/FusionTask.lean, Lemmas/FusionPass.lean.

  `fusedOK dag f`   — the hypothesis of `C14_task`: decidable well-formedness of a `Fused` node (nested
                      groups at any position and depth) against the plan's node list.
  `groupOKb dag root G` — the conclusion of `C14_group_ok`, decided on a concrete group.
-/
import DxModel.Fusion
namespace Dx.Fusion
open Dx

/-- the ordinary (non-`Fused`) members of a fused node, nested groups (at any position) flattened -/
def flat (dag : Dag) : Nat → Node → List Nat
  | 0, _ => []
  | fuel+1, f =>
    f.members.flatMap (fun m =>
      match getNode dag m with
      | some mn => if mn.members ≠ [] then flat dag fuel mn else [m]
      | none => [m])

/-- the names of the nested fused groups of `f`, all levels -/
def nested (dag : Dag) : Nat → Node → List Nat
  | 0, _ => []
  | fuel+1, f =>
    f.members.flatMap (fun m =>
      match getNode dag m with
      | some mn => if mn.members ≠ [] then m :: nested dag fuel mn else []
      | none => [])

/-- every name inside a fused node: its members and, recursively, those of nested groups -/
def inner (dag : Dag) : Nat → Node → List Nat
  | 0, _ => []
  | fuel+1, f =>
    f.members.flatMap (fun m =>
      m :: (match getNode dag m with
            | some mn => if mn.members ≠ [] then inner dag fuel mn else []
            | none => []))

/-- an ordinary blockwise node stored under its own name -/
def plainAt (dag : Dag) (n : Nat) : Bool :=
  match getNode dag n with
  | some nd => nd.blockwise && nd.members.isEmpty && nd.name == n
  | none => false

/-- structure of a fused node `f` with partition count `np`, nested groups at any position:
    * `f` is a blockwise node with the `Fused` broadcast rule and at least one member;
    * every member is a blockwise node stored under its own, smaller, name (a `Fused` is created after
      its members); a nested group has the partition count `np` and is, recursively, well formed;
    * the first member has the partition count `np`;
    * no dependency of `f` is `f` itself or a name inside `f`. -/
def levelOK (dag : Dag) (np : Nat) : Nat → Node → Bool
  | 0, _ => false
  | fuel+1, f =>
    f.blockwise && f.kall && f.npart == np && !f.members.isEmpty &&
    f.members.all (fun m =>
      decide (m < f.name) &&
      (match getNode dag m with
       | some mn =>
         mn.blockwise && mn.name == m &&
           (if mn.members ≠ [] then levelOK dag np fuel mn else true)
       | none => false)) &&
    (match getNode dag (f.members.headD 0) with
     | some rn => rn.npart == np
     | none => false) &&
    f.deps.all (fun d => !decide (d ∈ inner dag (fuel+1) f) && !decide (d = f.name))

/-- conditions on the flattened ordinary members `S` (with `Fs` the nested groups) of the outermost node `f`. -/
def membersOK (dag : Dag) (f : Node) (S Fs : List Nat) : Bool :=
  S.all (fun m =>
    plainAt dag m &&
    (match getNode dag m with
     | some mn =>
       -- a member has the partition count of the group or a single partition
       (mn.npart == f.npart || mn.npart == 1) &&
       mn.deps.all (fun d =>
         (match getNode dag d with
          | some dn =>
            dn.name == d &&
            -- the plan is well formed at `m`: an operand is broadcast or has `m`'s partition count
            (bcast mn dn || dn.npart == mn.npart)
          | none => false) &&
         -- references inside the group go to smaller names (acyclic), outside ones are dependencies of `f`
         (if d ∈ S ∨ d ∈ Fs then decide (d < m) else decide (d ∈ f.deps)))
     | none => false))

def nodupB : List Nat → Bool
  | [] => true
  | a :: l => !decide (a ∈ l) && nodupB l

/-- the hypothesis of `C14_task` -/
def fusedOK (dag : Dag) (f : Node) : Bool :=
  (match getNode dag f.name with | some g => decide (g = f) | none => false) &&
  levelOK dag f.npart (f.name + 1) f &&
  membersOK dag f (flat dag (f.name + 1) f) (nested dag (f.name + 1) f)

/-- the unfused reference: `Blockwise._task(i)`, `i < npartitions`, for the ordinary members `S`; a nested
    group `F ∈ Fs` stands for its first member (`Fused._task`: `graph[F._name] = (exprs[0]._name, index)`);
    everything else is an input. -/
def memberGraph (dag : Dag) (S Fs : List Nat) : Graph FKey
  | .part n i =>
    if n ∈ S then
      (match getNode dag n with
       | some nd => if i < nd.npart then some (plainTask dag nd i) else none
       | none => none)
    else if n ∈ Fs then
      (match getNode dag n with
       | some nd => some (.alias (.part (nd.members.headD 0) i))
       | none => none)
    else none
  | _ => none

/-! ### groups -/

/-- decides `GroupOK` (Lemmas/FusionPass.lean) for a concrete group, using the dependents map
    of the first half of `_fusion_pass` -/
def groupOKb (dag : Dag) (root : Nat) (G : List Nat) : Bool :=
  match globalMaps dag root with
  | none => false
  | some m =>
    !G.isEmpty && nodupB G &&
    G.all (fun g => isBw dag g && decide (g ∈ m.seen)) &&
    G.tail.all (fun g =>
      (m.dependents.val g).all (fun c => decide (c ∈ G)) &&
      G.any (fun c => decide (g ∈ depsOf dag c)) &&
      (npartOf dag g == npartOf dag (G.headD 0) ||
        G.any (fun c => decide (g ∈ depsOf dag c) && bcastN dag c g)))

/-- a decidable sufficient condition for `PlanOK` (Lemmas/FusionMeasure.lean): the root is a node and
    operands have smaller names than their consumers (post-order numbering) -/
def planOKb (dag : Dag) (root : Nat) : Bool :=
  (getNode dag root).isSome && dag.all (fun nd => nd.deps.all (fun d => decide (d < nd.name)))

/-! ### hypotheses of `C14_substitute` (Lemmas/FusionSubst.lean), decidable on a concrete plan -/

def headLt (nd : Node) : Bool :=
  match nd.members with
  | [] => true
  | r :: _ => decide (r < nd.name)

def nameRankedB (dag : Dag) : Bool :=
  dag.all (fun nd => nd.deps.all (fun d => decide (d < nd.name)) && headLt nd)

/-- the first member of every `Fused` node is a node of the plan -/
def membersKnownB (dag : Dag) : Bool :=
  dag.all (fun nd => match nd.members with
    | [] => true
    | r :: _ => (getNode dag r).isSome)

/-- the hypotheses of `C14_substitute` on a concrete plan -/
def substOKb (dag : Dag) (root : Nat) : Bool :=
  nameRankedB dag && membersKnownB dag && (getNode dag root).isSome

end Dx.Fusion
