/-
  DxModel/Cols.lean — column algebra of the projection push-down rules (property C04).

  Transliteration of the code that exists in /repo (dask_expr/_expr.py, io/io.py, _merge.py, _groupby.py,
  _shuffle.py, _reductions.py, _concat.py, _cumulative.py):

    determine_column_projection, plain_column_projection and every `_simplify_up(Projection)` /
    `_simplify_down` rule that moves, splits, squashes or absorbs a column projection.

  Each rule is a pure function of (operator parameters, input schema(s), the parent's request,
  the `_projection_columns` of the live dependents) and returns `none` (the real method returns None)
  or a `Rw`: which projection is put below the operator on each input and whether the parent's own
  projection is re-applied on top.

  The second half defines the (abstract) column semantics the theorems of Props/C04.lean are about.
  Mathlib-free.
-/
namespace Dx.Cols

abbrev Name := String

/-! ### python helpers -/

/-- `a in b` for two python strings: substring test -/
def isInfixL : List Char → List Char → Bool
  | a, [] => a.isEmpty
  | a, (c :: t) => a.isPrefixOf (c :: t) || isInfixL a t

def strInfix (a b : String) : Bool := isInfixL a.toList b.toList

def insertS (x : Name) : List Name → List Name
  | [] => [x]
  | y :: ys => if x < y then x :: y :: ys else if x = y then y :: ys else y :: insertS x ys

/-- `sorted(set(l))` for strings (code-point order) -/
def sortDedup (l : List Name) : List Name := l.foldr insertS []

def insertK (x : Name) : List Name → List Name
  | [] => [x]
  | y :: ys => if x < y then x :: y :: ys else y :: insertK x ys

/-- `sorted(l)` (duplicates kept) -/
def sortKeep (l : List Name) : List Name := l.foldr insertK []

def dedup : List Name → List Name
  | [] => []
  | x :: xs => if xs.contains x then dedup xs else x :: dedup xs

/-- first occurrences, in order: the keys of a python dict built from a list of (key, value) pairs -/
def dedupFirst : List Name → List Name
  | [] => []
  | x :: xs => x :: (dedupFirst xs).filter (fun y => y != x)

/-- labels of `methods.assign(df, k1, v1, k2, v2, …)` (`df[k] = v` for the items of `dict(partition(2, pairs))`): the
    frame's labels, then the new keys in the order of their FIRST occurrence -/
def assignLabels (frame keys : List Name) : List Name := frame ++ (dedupFirst keys).filter (fun k => !frame.contains k)

/-- `set(a) == set(b)` -/
def setEq (a b : List Name) : Bool := a.all (b.contains ·) && b.all (a.contains ·)

/-- `set(a) < set(b)` -/
def strictSub (a b : List Name) : Bool := a.all (b.contains ·) && !(b.all (a.contains ·))

/-- the result of `determine_column_projection`: one scalar label or a list of labels -/
inductive Sel where
  | one (c : Name)
  | many (cs : List Name)
  deriving DecidableEq, Repr

/-- python `c in sel` — a list membership, or a *substring* test when `sel` is one string -/
def Sel.has : Sel → Name → Bool
  | .many cs, c => cs.contains c
  | .one s, c => strInfix c s

/-- `_convert_to_list` -/
def Sel.toList : Sel → List Name
  | .many cs => cs
  | .one c => [c]

/-- python `set(sel)` — the set of characters when `sel` is one string -/
def Sel.setOf : Sel → List Name
  | .many cs => cs
  | .one s => s.toList.map String.singleton

/-- the parent of the operator whose `_simplify_up` runs -/
inductive Parent where
  | list (cs : List Name)      -- Projection(x, [..])
  | scalar (c : Name)          -- Projection(x, 'c')  (a Series when x is a frame)
  | listS (cs : List Name)     -- Projection(s, [..]) over a 1-d `s` (labels of a reduction result): ndim == 1
  | scalarS (c : Name)         -- Projection(s, 'c') over a 1-d `s`: ndim == 0
  | index                      -- Index(x)            (Merge rule only)
  deriving DecidableEq, Repr

/-- `parent.columns` -/
def Parent.cols : Parent → List Name
  | .list cs => cs
  | .scalar c => [c]
  | .listS cs => cs
  | .scalarS c => [c]
  | .index => []

/-- `parent.ndim == 1` (over a frame) -/
def Parent.ndim1 : Parent → Bool
  | .list _ => false
  | .scalarS _ => false
  | _ => true

/-- `parent.operand("columns")` -/
def Parent.operand : Parent → Sel
  | .list cs => .many cs
  | .scalar c => .one c
  | .listS cs => .many cs
  | .scalarS c => .one c
  | .index => .many []

/-- a live dependent: its `_projection_columns` and whether `ndim == 1` -/
structure Dep where
  cols : List Name
  ndim1 : Bool
  deriving DecidableEq, Repr

/-! ### determine_column_projection / plain_column_projection -/

def unionCols (p : Parent) (deps : List Dep) (extra : List Name) : List Name :=
  sortDedup (p.cols ++ deps.flatMap (·.cols) ++ extra)

/-- `determine_column_projection(expr, parent, dependents, additional_columns)`;
    `deps` are the dereferenced live weak references of `dependents[expr._name]` -/
def detProj (p : Parent) (deps : List Dep) (extra : List Name) : Sel :=
  match unionCols p deps extra with
  | [c] => if p.ndim1 && deps.all (·.ndim1) then .one c else .many [c]
  | u => .many u

/-- a rewrite: per input `none` = operand left untouched, `some s` = wrapped in `Projection(·, s)` -/
structure Rw where
  childs : List (Option Sel)
  keep : Bool                          -- the parent's projection is re-applied on top
  keys : Option (List Name) := none    -- surviving parameter keys (Assign keys, AsType dtype keys)
  gone : Bool := false                 -- the operator itself is removed (parent applied to its input)
  drop : Bool := false                 -- ResetIndex: `drop` of the new node
  dropped : List Bool := []            -- Concat: inputs removed from the operator altogether
  deriving DecidableEq, Repr

/-- how a rule sees its parent: every modelled `_simplify_up` branch is guarded by `isinstance(parent, Projection)`
    (Merge: `(Projection, Index)`); a parent of any other class gets no column rewrite -/
inductive ParentClass where
  | proj (p : Parent)
  | other
  deriving DecidableEq, Repr

def onProjection (rule : Parent → Option Rw) : ParentClass → Option Rw
  | .proj p => rule p
  | .other => none

/-- first part of `plain_column_projection`: restrict to the input's columns, in input order -/
def plainSel (frame : List Name) : Sel → Sel
  | .many l => .many (frame.filter (l.contains ·))
  | .one c => if frame.contains c then .one c else .many []

/-- `plain_column_projection(expr, parent, dependents, additional_columns)` -/
def plain (frame : List Name) (p : Parent) (deps : List Dep) (extra : List Name := []) : Option Rw :=
  let cu := plainSel frame (detProj p deps extra)
  if cu = .many frame then none
  else some { childs := [some cu], keep := !(decide (cu = p.operand)) }

/-- `plain_column_projection` for a class with a dict parameter that is keyed by column labels (`Fillna`, `Replace`:
    `_column_keyed_parameters`, since D112): a scalar selection of a frame column does not collapse the input to a
    series — the input keeps the one column as a FRAME and the parent selection is applied again. -/
def plainDict (frame : List Name) (p : Parent) (deps : List Dep) : Option Rw :=
  match plainSel frame (detProj p deps []) with
  | .one c => if [c] = frame then none else some { childs := [some (.many [c])], keep := true }
  | _ => plain frame p deps

/-! ### `_simplify_down` rules -/

inductive Down where
  | none
  | ident                  -- `return self.frame`
  | squash (b : Sel)       -- `return self.frame.frame[b]`
  | assertErr
  deriving DecidableEq, Repr

/-- `Projection._simplify_down`; `inner` = operand of the frame when the frame is itself a Projection -/
def projDown (frameCols : List Name) (sameNdim : Bool) (self : Sel) (inner : Option Sel) : Down :=
  if decide (frameCols = self.toList) && sameNdim then .ident
  else match inner with
    | none => .none
    | some (.one _) => .none
    | some (.many a) =>
      match self with
      | .many b => if b.all (a.contains ·) then .squash self else .assertErr
      | .one c => if a.contains c then .squash self else .assertErr

/-- `Drop._simplify_down` → `Projection(frame, ·)` -/
def dropDown (frame colOp : List Name) : List Name := frame.filter (fun c => !colOp.contains c)

/-- `GroupbyAggregationBase._simplify_down` for a dict `arg` with keys `argKeys` -/
def gbDown (frame byCols argKeys : List Name) : Option (List Name) :=
  let proj := frame.filter (fun c => byCols.contains c || argKeys.contains c)
  if proj = frame then none else some proj

/-! ### `_simplify_up` rules, Projection parent -/

/-- rules of the shape "keep what is requested plus my own key columns, in input order, parent stays":
    groupby_projection (keys = `_by_columns`), SortValues (`by`), SetIndex (`[_other]`), NLargest (`_columns`) -/
def keyed (frame keys : List Name) (p : Parent) (deps : List Dep) : Option Rw :=
  let child := frame.filter ((detProj p deps keys).toList.contains ·)
  if child = frame then none else some { childs := [some (.many child)], keep := true }

/-- `Filter._simplify_up`, Projection branch; `blocked` = the filter-push-down guard of the real code fired -/
def filterRule (blocked : Bool) (frame : List Name) (p : Parent) (deps : List Dep) : Option Rw :=
  if blocked then none else plain frame p deps

/-- `Assign._simplify_up`; `keys` in operand order (duplicates possible after squashing) -/
def assign (frame keys : List Name) (p : Parent) (deps : List Dep) : Option Rw :=
  let columns := (detProj p deps []).toList
  let cols := columns.filter (fun c => !keys.contains c)
  if setEq cols frame then none
  else
    let diff := (dedup keys).filter (fun k => !columns.contains k)
    if diff.length = keys.length then some { childs := [none], keep := true, gone := true }
    else
      let newKeys := if diff.length > 0 then keys.filter (columns.contains ·) else keys
      some { childs := [some (.many (sortKeep (frame.filter (cols.contains ·))))], keep := true, keys := some newKeys }

/-- `RenameFrame._simplify_up` for a dict mapping given in item order -/
def renameBack (frame : List Name) (mapping : List (Name × Name)) (c : Name) : Name :=
  match ((mapping.filter (fun kv => frame.contains kv.1)).reverse).find? (fun kv => kv.2 == c) with
  | some kv => kv.1
  | none => c

def rename (frame : List Name) (mapping : List (Name × Name)) (p : Parent) (deps : List Dep) : Option Rw :=
  let columns := (detProj p deps []).toList.map (renameBack frame mapping)
  let child := frame.filter (columns.contains ·)
  if child = frame then none else some { childs := [some (.many child)], keep := true }

/-- `col[n:]` -/
def slicePrefix (n : Nat) (c : Name) : Name := String.ofList (c.toList.drop n)
/-- `col[: len(col) - n]` (since D38; the former `col[:-n]` was the empty string for `n = 0`) -/
def sliceSuffix (n : Nat) (c : Name) : Name :=
  String.ofList (c.toList.take (c.toList.length - n))

/-- `AddPrefix/AddSuffix._simplify_up`; `n` = length of the prefix / suffix -/
def affix (isSuffix : Bool) (n : Nat) (frame : List Name) (p : Parent) (deps : List Dep) : Option Rw :=
  let columns := (detProj p deps []).toList.map (if isSuffix then sliceSuffix n else slicePrefix n)
  if setEq columns frame then none
  else some { childs := [some (.many (frame.filter (columns.contains ·)))], keep := true }

/-- one operand of `Binop._simplify_up`: projected unless it is not a frame or already has exactly these columns -/
def binopSide (columns : List Name) : Option (List Name) → Option Sel
  | some lc => if lc = columns then none else some (.many columns)
  | none => none

/-- `Binop._simplify_up`; `left/right` = columns of the operand when it is a frame expression (ndim > 1) -/
def binop (selfCols : List Name) (left right : Option (List Name)) (p : Parent) (deps : List Dep) : Option Rw :=
  let columns := selfCols.filter ((detProj p deps []).toList.contains ·)
  if (binopSide columns left).isNone && (binopSide columns right).isNone then none
  else some { childs := [binopSide columns left, binopSide columns right], keep := true }

/-- `AsType._simplify_up`; `dkeys` = keys of a dict `dtypes` (none: one dtype for everything) -/
def astype (frame : List Name) (dkeys : Option (List Name)) (p : Parent) (deps : List Dep) : Option Rw :=
  let sel := detProj p deps []
  let dk := dkeys.map (·.filter (sel.toList.contains ·))
  if dk = some [] then some { childs := [none], keep := true, gone := true }
  else
    let sel' : Sel := match sel with
      | .many l => .many (frame.filter (l.contains ·))
      | .one c => .one c
    if sel' = .many frame then none
    else some { childs := [some sel'], keep := (match sel' with | .many _ => true | .one _ => false), keys := dk }

/-- `DropnaFrame._simplify_up` (Projection parents only) -/
def dropna (frame : List Name) (subset : Option (List Name)) (p : Parent) (deps : List Dep) : Option Rw :=
  match subset with
  | none => none
  | some s =>
    let child := frame.filter (detProj p deps s).has
    if child = frame then none else some { childs := [some (.many child)], keep := true }

/-- `CombineFirst._simplify_up` / `CombineFirstAlign._simplify_up` -/
def combineFirst (frame other : List Name) (p : Parent) (deps : List Dep) : Option Rw :=
  let sel := detProj p deps []
  let fc := frame.filter sel.has
  let oc := other.filter sel.has
  if fc = frame && oc = other then none
  else some { childs := [some (.many fc), some (.many oc)], keep := true }

/-- `OpAlignPartitions._simplify_up` (also MethodOperatorAlign): both operands are projected; `other` = columns of the
    second operand when it is a 2-dim expression -/
def opAlign (frame : List Name) (other : Option (List Name)) (p : Parent) (deps : List Dep) : Option Rw :=
  match other with
  | none => none
  | some oc0 =>
    let columns := (detProj p deps []).toList
    let fc := frame.filter (columns.contains ·)
    let oc := oc0.filter (columns.contains ·)
    if fc = frame && oc = oc0 then none
    else some { childs := [some (.many fc), some (.many oc)], keep := true }

/-- `ResetIndex._simplify_up`, frame input; `indexNamed` = `frame._meta.index.name is not None` -/
def resetIndex (frame : List Name) (drop indexNamed : Bool) (p : Parent) (deps : List Dep) : Option Rw :=
  if !drop && !indexNamed && frame.contains "index" then none
  else match plain frame p deps with
    | none => none
    | some rw => some { rw with drop := if rw.keep then drop else true }

/-- `BlockwiseIO._simplify_up` (classes with `_absorb_projections`): the list becomes the `columns` operand -/
def ioAbsorb (selfCols : List Name) (p : Parent) (deps : List Dep) : Option Rw :=
  let proposed := selfCols.filter ((detProj p deps []).toList.contains ·)
  if setEq proposed selfCols then none
  else some { childs := [some (.many proposed)], keep := !(decide (Sel.many proposed = p.operand)) }

/-- `ShuffleBase._simplify_up` -/
def shuffle (frame pidx : List Name) (p : Parent) (deps : List Dep) : Option Rw :=
  let sel := detProj p deps []
  let np := frame.filter (fun c => pidx.contains c || sel.has c)
  if strictSub np frame then some { childs := [some (.many np)], keep := true } else none

/-- `SetIndexBlockwise._simplify_up` -/
def setIndexBlockwise (frame other : List Name) (p : Parent) (deps : List Dep) : Option Rw :=
  let sel := detProj p deps other
  if sel = .many frame then none
  else some { childs := [some (.many (frame.filter sel.has))], keep := true }

/-- `DropDuplicates._simplify_up` -/
def dropDup (frame : List Name) (subset : Option (List Name)) (p : Parent) (deps : List Dep) : Option Rw :=
  match subset with
  | none => none
  | some s =>
    let sel := detProj p deps s
    if setEq sel.setOf frame then none
    else some { childs := [some (.many (frame.filter sel.has))], keep := true }

/-- `NLargest._simplify_up` -/
def nlargest (frame : List Name) (columns : Option (List Name)) (p : Parent) (deps : List Dep) : Option Rw :=
  match columns with
  | none => plain frame p deps
  | some cs => keyed frame cs p deps

/-- `RollingReduction._simplify_up`; `gb` = `groupby_kwargs["by"]` column names when the rolling is grouped.
    The parent selection is re-applied (since D43); only an ungrouped rolling under a SCALAR selection of one column
    collapses to a series. -/
def rolling (frame : List Name) (gb : Option (List Name)) (p : Parent) (deps : List Dep) : Option Rw :=
  -- `_convert_to_list(columns)` first (since D43): membership, not python's substring test on a scalar selection
  let columns := frame.filter ((detProj p deps (gb.getD [])).toList.contains ·)
  if columns = frame then none
  else if gb.isNone && p.ndim1 then
    match columns with
    | [c] => some { childs := [some (.one c)], keep := false }
    | _ => some { childs := [some (.many columns)], keep := true }
  else some { childs := [some (.many columns)], keep := true }

/-! #### Merge -/

structure MergeP where
  leftOn : List Name
  rightOn : List Name
  ls : String
  rs : String
  deriving DecidableEq, Repr

/-- first loop of `Merge._simplify_up`: over `left.columns`, accumulating (project_left, project_right) -/
def mergeLeftPass (m : MergeP) (R proj : List Name) : List Name → List Name × List Name → List Name × List Name
  | [], acc => acc
  | col :: rest, (pl, pr) =>
    if m.leftOn.contains col || proj.contains col then mergeLeftPass m R proj rest (pl ++ [col], pr)
    else if proj.contains (col ++ m.ls) then
      mergeLeftPass m R proj rest (pl ++ [col], if R.contains col then pr ++ [col] else pr)
    else mergeLeftPass m R proj rest (pl, pr)

/-- second loop: over `right.columns` -/
def mergeRightPass (m : MergeP) (L proj : List Name) : List Name → List Name × List Name → List Name × List Name
  | [], acc => acc
  | col :: rest, (pl, pr) =>
    if pr.contains col then mergeRightPass m L proj rest (pl, pr)
    else if m.rightOn.contains col || proj.contains col then mergeRightPass m L proj rest (pl, pr ++ [col])
    else if proj.contains (col ++ m.rs) then
      mergeRightPass m L proj rest (if L.contains col && !pl.contains col then pl ++ [col] else pl, pr ++ [col])
    else mergeRightPass m L proj rest (pl, pr)

def mergeLists (m : MergeP) (L R proj : List Name) : List Name × List Name :=
  mergeRightPass m L proj R (mergeLeftPass m R proj L ([], []))

/-- `Merge._simplify_up`, Projection / Index branch -/
def merge (m : MergeP) (L R : List Name) (p : Parent) (deps : List Dep) : Option Rw :=
  let proj := (detProj p deps []).toList
  let plr := mergeLists m L R proj
  if strictSub plr.1 L || strictSub plr.2 R then
    some { childs := [some (.many plr.1), some (.many plr.2)], keep := true }
  else none

/-- labels of a merge result (pandas): a column that exists on both sides and is not a join key common to
    both sides gets the side's suffix; a common key appears once (on the left) -/
def commonKey (m : MergeP) (c : Name) : Bool := (m.leftOn.zip m.rightOn).any (fun lr => lr.1 == c && lr.2 == c)

def labelL (m : MergeP) (R : List Name) (c : Name) : Name :=
  if R.contains c && !commonKey m c then c ++ m.ls else c

def labelR (m : MergeP) (L : List Name) (c : Name) : Name :=
  if L.contains c && !commonKey m c then c ++ m.rs else c

def mergeLabels (m : MergeP) (L R : List Name) : List Name :=
  L.map (labelL m R) ++ (R.filter (fun c => !commonKey m c)).map (labelR m L)

/-! #### Concat -/

/-- columns of `pd.concat(frames, axis=0)`: first-seen order of the union (outer) / the first frame's columns
    that all others have (inner); `axis=1`: all columns side by side -/
def concatCols (axis1 inner : Bool) : List (List Name) → List Name
  | [] => []
  | f :: fs =>
    if axis1 then (f :: fs).flatten
    else if inner then f.filter (fun c => fs.all (·.contains c))
    else (f :: fs).flatten.foldl (fun acc c => if acc.contains c then acc else acc ++ [c]) []

/-- `Concat._simplify_up`, one input with columns `f`: is it removed from the new Concat?  Only when columns are
    put side by side (`axis=1`) and it keeps none; when rows are stacked every input stays (it contributes rows). -/
def concatDropped (axis1 : Bool) (columns f : List Name) : Bool :=
  axis1 && (f.filter (columns.contains ·)).isEmpty

/-- the columns an input with columns `f` keeps: the requested ones it has; when rows are stacked (`axis=0`) and it
    has none of them it keeps its first column — it still contributes its rows, as missing values that decide the
    dtypes of the result, so the new Concat's schema has to be derived from a non-empty frame (D85) -/
def concatKeepCols (axis1 : Bool) (columns f : List Name) : List Name :=
  let cf := f.filter (columns.contains ·)
  if !axis1 && cf.isEmpty then f.take 1 else cf

/-- … and the projection put on an input that stays: none when it keeps all its columns -/
def concatChild (axis1 : Bool) (columns f : List Name) : Option Sel :=
  let cf := concatKeepCols axis1 columns f
  if sortKeep cf = sortKeep f then none else some (.many cf)

/-- the inputs `Concat._meta` looks at when it declares the labels: inputs without columns are left out
    ("ignore DataFrame without columns to avoid dtype upcasting") -/
def declaredFrames (fs : List (List Name)) : List (List Name) := fs.filter (fun f => !f.isEmpty)

/-- `Concat.columns` -/
def concatLabels (axis1 inner : Bool) (fs : List (List Name)) : List Name := concatCols axis1 inner (declaredFrames fs)

/-- `Concat._simplify_up` (2-dim inputs) -/
def concat (axis1 inner : Bool) (frames : List (List Name)) (p : Parent) (deps : List Dep) : Option Rw :=
  let columns := (detProj p deps []).toList
  if frames.all (fun f => decide (sortKeep (concatKeepCols axis1 columns f) = sortKeep f)) then none
  else
    let kept := frames.filter (fun f => !concatDropped axis1 columns f)
    let newFrames := kept.map (concatKeepCols axis1 columns)
    -- `result.columns == _convert_to_list(parent.operand("columns"))`: the labels the new Concat declares
    let keep := !(decide (concatLabels axis1 inner newFrames = p.operand.toList) && !p.ndim1)
    some { childs := frames.map (concatChild axis1 columns), keep := keep,
           dropped := frames.map (concatDropped axis1 columns) }

/-! ### Column semantics (what the rules must preserve)

A frame value is a schema plus, per label, a column (`none` = no such column).  The row dimension is
abstract: an operator is described by *which input columns each output column may depend on*; these laws are
fields of structures (hypotheses of the theorems, never axioms). -/

structure Frame (γ : Type) where
  cols : List Name
  val : Name → Option γ

/-- `frame[cs]`: the columns outside `cs` are physically gone -/
def Frame.select {γ : Type} (cs : List Name) (F : Frame γ) : Frame γ :=
  { cols := cs, val := fun c => if cs.contains c then F.val c else none }

/-- An operator over one frame whose effect on the rows is decided by its key columns only and which treats
    every other column uniformly: Elemwise/Blockwise pass-through classes, Filter (predicate is a separate
    operand), dropna/drop_duplicates (subset), sort_values/shuffle/set_index/nlargest (keys), groupby
    aggregations (keys = by, output column c aggregates input column c), cumulative aggregations, astype. -/
structure KeyedOp (γ : Type) where
  keys : List Name
  /-- output labels as a function of the input labels -/
  outCols : List Name → List Name
  op : Frame γ → Frame γ
  /-- what happens to a data column, given the values of the key columns -/
  T : (Name → Option γ) → Name → Option γ → Option γ
  /-- labels that are created by the operator (reset_index: the former index) -/
  fresh : Name → Option γ
  T_keys : ∀ v v' : Name → Option γ, (∀ k, keys.contains k = true → v k = v' k) → T v = T v'
  op_cols : ∀ F, (op F).cols = outCols F.cols
  op_val : ∀ F c, F.cols.contains c = true → (op F).val c = T F.val c (F.val c)
  op_fresh : ∀ F c, F.cols.contains c = false → (op F).val c = fresh c

/-- relabelling operators: rename / add_prefix / add_suffix -/
structure RelabelOp (γ : Type) where
  f : Name → Name
  op : Frame γ → Frame γ
  op_cols : ∀ F, (op F).cols = F.cols.map f
  /-- an output label that has exactly one source column carries that column -/
  op_val : ∀ F c, F.cols.contains c = true → (∀ c', F.cols.contains c' = true → f c' = f c → c' = c) →
    (op F).val (f c) = F.val c

/-- assign: `keys` receive externally computed columns (the value expressions are separate operands that do
    not read the pruned input), every other column is passed through -/
structure AssignOp (γ : Type) where
  op : List (Name × γ) → Frame γ → Frame γ
  op_cols : ∀ kv F, (op kv F).cols = assignLabels F.cols (kv.map (·.1))
  op_key : ∀ kv F k, (kv.map (·.1)).contains k = true →
    (op kv F).val k = (kv.reverse.find? (fun e => e.1 == k)).map (·.2)
  op_other : ∀ kv F c, (kv.map (·.1)).contains c = false → (op kv F).val c = F.val c

/-- column-wise binary operators over two frames with the same labels (Binop, combine_first, where-like) -/
structure BinOp (γ : Type) where
  op : Frame γ → Frame γ → Frame γ
  g : Name → Option γ → Option γ → Option γ
  outCols : List Name → List Name → List Name
  op_cols : ∀ A B, (op A B).cols = outCols A.cols B.cols
  op_val : ∀ A B c, (op A B).val c = g c (if A.cols.contains c then A.val c else none)
                                          (if B.cols.contains c then B.val c else none)

/-- a join: the matching of rows is decided by the key columns of both sides; every output label carries one
    input column of one side, re-indexed by the matching.  The laws speak about joins whose result labels are
    duplicate-free (pandas refuses the others: "Passing 'suffixes' which cause duplicate columns is not allowed");
    without that restriction two input columns with the same result label would have to carry the same data. -/
structure MergeOp (γ : Type) where
  m : MergeP
  op : Frame γ → Frame γ → Frame γ
  TL : (Name → Option γ) → (Name → Option γ) → Option γ → Option γ
  TR : (Name → Option γ) → (Name → Option γ) → Option γ → Option γ
  T_keys : ∀ l l' r r' : Name → Option γ, (∀ k, m.leftOn.contains k = true → l k = l' k) →
    (∀ k, m.rightOn.contains k = true → r k = r' k) → TL l r = TL l' r' ∧ TR l r = TR l' r'
  op_cols : ∀ A B, (op A B).cols = mergeLabels m A.cols B.cols
  op_left : ∀ A B c, (mergeLabels m A.cols B.cols).Nodup → A.cols.contains c = true →
    (op A B).val (labelL m B.cols c) = TL A.val B.val (A.val c)
  op_right : ∀ A B c, (mergeLabels m A.cols B.cols).Nodup → B.cols.contains c = true → commonKey m c = false →
    (op A B).val (labelR m A.cols c) = TR A.val B.val (B.val c)

/-- row-wise concatenation: output column c stacks the blocks of every input (an input without the column
    contributes a block of nulls of its own length, `none`) -/
structure ConcatOp (γ : Type) where
  op : List (Frame γ) → Frame γ
  C : List (Option γ) → Option γ
  op_val : ∀ Fs c, (op Fs).val c = C (Fs.map (fun F => if F.cols.contains c then F.val c else none))

/-- reset_index: data columns pass through unchanged; without `drop` the former index becomes a new first column
    whose label depends on the labels present -/
structure ResetOp (γ : Type) where
  op : Bool → Frame γ → Frame γ
  idx : Option γ
  label : List Name → Name
  op_cols : ∀ d F, (op d F).cols = if d then F.cols else label F.cols :: F.cols
  op_val : ∀ d F c, F.cols.contains c = true → (op d F).val c = F.val c
  op_idx : ∀ F, F.cols.contains (label F.cols) = false → (op false F).val (label F.cols) = idx

/-- the label pandas gives to the former index -/
def resetLabel (indexName : Option Name) (l : List Name) : Name :=
  match indexName with
  | some n => n
  | none => if l.contains "index" then "level_0" else "index"

/-- a source with a `columns` operand (FromPandas, FromMapProjectable, readers): reads exactly those columns -/
structure SourceOp (γ : Type) where
  read : List Name → Frame γ
  data : Name → Option γ
  read_cols : ∀ cs, (read cs).cols = cs
  read_val : ∀ cs c, cs.contains c = true → (read cs).val c = data c

/-- is column `c` cast by `astype(dtypes)`? (`none`: one dtype for every column) -/
def castFlag (dk : Option (List Name)) (c : Name) : Bool :=
  match dk with
  | none => true
  | some l => l.contains c

/-- astype with a dict of dtypes (none: one dtype for every column): a cast per column; pandas refuses a dict key
    that is not a column of the input -/
structure AsTypeOp (γ : Type) where
  op : Option (List Name) → Frame γ → Frame γ
  cast : Bool → Name → Option γ → Option γ
  op_cols : ∀ dk F, (op dk F).cols = F.cols
  op_val : ∀ dk F c, F.cols.contains c = true →
    (op dk F).val c = cast (castFlag dk c) c (F.val c)
  cast_false : ∀ c x, cast false c x = x

/-- drop(columns=…) -/
structure DropOp (γ : Type) where
  op : List Name → Frame γ → Frame γ
  op_cols : ∀ cs F, (op cs F).cols = F.cols.filter (fun c => !cs.contains c)
  op_val : ∀ cs F c, F.cols.contains c = true → cs.contains c = false → (op cs F).val c = F.val c

end Dx.Cols
