/-
  Schema.lean — declared schema vs computed data for the label-level operators (C07).
  A frame is a list of named columns (all of one length); `Op` are the operators whose `_meta` the
  planner derives by hand-written label logic or by running the operation on an empty stand-in.
  `schemaOp` is the declared schema, `evalOp` the operation on data; `labels (evalOp op f) = schemaOp op (labels f)`
  for every frame — in particular for every partition, including empty ones.
-/
namespace Dx.Schema

abbrev Name := String
abbrev Col := List Int
abbrev Frame := List (Name × Col)

def labels (f : Frame) : List Name := f.map Prod.fst

inductive Op where
  | proj (cols : List Name)                 -- df[cols]  (cols ⊆ labels, checked by the caller)
  | rename (m : List (Name × Name))         -- df.rename(columns=m)
  | addPrefix (p : String)
  | addSuffix (s : String)
  | filterRows (keep : Nat → Bool)          -- df[mask]: positional row filter
  | assign (c : Name) (vals : Nat → Int)    -- df.assign(c=…): replaces in place or appends
  | dropCols (cols : List Name)
deriving Inhabited

def renameOne (m : List (Name × Name)) (n : Name) : Name :=
  match m.lookup n with
  | some n' => n'
  | none => n

def schemaOp : Op → List Name → List Name
  | .proj cols, ls => cols.filter (fun c => ls.contains c)
  | .rename m, ls => ls.map (renameOne m)
  | .addPrefix p, ls => ls.map (fun l => p ++ l)
  | .addSuffix s, ls => ls.map (fun l => l ++ s)
  | .filterRows _, ls => ls
  | .assign c _, ls => if ls.contains c then ls else ls ++ [c]
  | .dropCols cols, ls => ls.filter (fun l => !cols.contains l)

def nrows (f : Frame) : Nat := match f with | [] => 0 | (_, c) :: _ => c.length

def filterCol (keep : Nat → Bool) (c : Col) : Col :=
  ((List.range c.length).zip c).filterMap (fun (i, v) => if keep i then some v else none)

def evalOp : Op → Frame → Frame
  | .proj cols, f => cols.filterMap (fun c => (f.lookup c).map (fun col => (c, col)))
  | .rename m, f => f.map (fun (n, c) => (renameOne m n, c))
  | .addPrefix p, f => f.map (fun (n, c) => (p ++ n, c))
  | .addSuffix s, f => f.map (fun (n, c) => (n ++ s, c))
  | .filterRows keep, f => f.map (fun (n, c) => (n, filterCol keep c))
  | .assign c vals, f =>
      let newCol : Col := (List.range (nrows f)).map vals
      if (labels f).contains c then f.map (fun (n, col) => if n = c then (n, newCol) else (n, col))
      else f ++ [(c, newCol)]
  | .dropCols cols, f => f.filter (fun x => !cols.contains x.1)

theorem lookup_isSome_iff (f : Frame) (c : Name) : (f.lookup c).isSome = (labels f).contains c := by
  induction f with
  | nil => rfl
  | cons p t ih =>
    obtain ⟨n, col⟩ := p
    simp only [List.lookup, labels, List.map_cons, List.contains_cons]
    by_cases h : c = n
    · subst h; simp
    · have hb : (c == n) = false := by simp [h]
      rw [hb]
      simpa [labels] using ih

/-- **declared labels = computed labels**, for every operator, every frame (hence every partition) -/
theorem labels_evalOp (op : Op) (f : Frame) : labels (evalOp op f) = schemaOp op (labels f) := by
  cases op with
  | proj cols =>
    simp only [evalOp, schemaOp]
    induction cols with
    | nil => rfl
    | cons c t ih =>
      have hl := lookup_isSome_iff f c
      cases hlk : f.lookup c with
      | none =>
        have hc : (labels f).contains c = false := by rw [← hl, hlk]; rfl
        have h1 : (c :: t).filterMap (fun c => (f.lookup c).map (fun col => (c, col))) =
            t.filterMap (fun c => (f.lookup c).map (fun col => (c, col))) := by
          simp [List.filterMap_cons, hlk]
        have hm : ¬ c ∈ labels f := by simpa using hc
        have h2 : (c :: t).filter (fun c => (labels f).contains c) =
            t.filter (fun c => (labels f).contains c) := by
          simp [List.filter_cons, hm]
        rw [h1, h2]; exact ih
      | some col =>
        have hc : (labels f).contains c = true := by rw [← hl, hlk]; rfl
        have h1 : (c :: t).filterMap (fun c => (f.lookup c).map (fun col => (c, col))) =
            (c, col) :: t.filterMap (fun c => (f.lookup c).map (fun col => (c, col))) := by
          simp [List.filterMap_cons, hlk]
        have hm : c ∈ labels f := by simpa using hc
        have h2 : (c :: t).filter (fun c => (labels f).contains c) =
            c :: t.filter (fun c => (labels f).contains c) := by
          simp [List.filter_cons, hm]
        rw [h1, h2]
        show c :: labels _ = _
        rw [ih]
  | rename m => simp [evalOp, schemaOp, labels, List.map_map, Function.comp_def]
  | addPrefix p => simp [evalOp, schemaOp, labels, List.map_map, Function.comp_def]
  | addSuffix s => simp [evalOp, schemaOp, labels, List.map_map, Function.comp_def]
  | filterRows k => simp [evalOp, schemaOp, labels, List.map_map, Function.comp_def]
  | assign c vals =>
    simp only [evalOp, schemaOp]
    by_cases h : (labels f).contains c
    · simp only [h, if_true]
      simp only [labels, List.map_map]
      apply List.map_congr_left
      intro p _
      obtain ⟨n, col⟩ := p
      by_cases hn : n = c <;> simp [hn]
    · simp only [h]
      simp [labels]
  | dropCols cols =>
    simp only [evalOp, schemaOp]
    induction f with
    | nil => rfl
    | cons p t ih =>
      obtain ⟨n, col⟩ := p
      cases h : cols.contains n with
      | true =>
        have hm : n ∈ cols := by simpa using h
        have h1 : ((n, col) :: t).filter (fun x => !cols.contains x.1) = t.filter (fun x => !cols.contains x.1) := by
          simp [List.filter_cons, hm]
        have h2 : (labels ((n, col) :: t)).filter (fun l => !cols.contains l) = (labels t).filter (fun l => !cols.contains l) := by
          simp [labels, List.filter_cons, hm]
        rw [h1, h2]; exact ih
      | false =>
        have hm : ¬ n ∈ cols := by simpa using h
        have h1 : ((n, col) :: t).filter (fun x => !cols.contains x.1) = (n, col) :: t.filter (fun x => !cols.contains x.1) := by
          simp [List.filter_cons, hm]
        have h2 : (labels ((n, col) :: t)).filter (fun l => !cols.contains l) = n :: (labels t).filter (fun l => !cols.contains l) := by
          simp [labels, List.filter_cons, hm]
        rw [h1, h2]
        show n :: labels _ = _
        rw [ih]

/-- a chain of operators -/
def schemaChain (ops : List Op) (ls : List Name) : List Name := ops.foldl (fun l op => schemaOp op l) ls
def evalChain (ops : List Op) (f : Frame) : Frame := ops.foldl (fun g op => evalOp op g) f

theorem labels_evalChain (ops : List Op) (f : Frame) :
    labels (evalChain ops f) = schemaChain ops (labels f) := by
  induction ops generalizing f with
  | nil => rfl
  | cons op t ih =>
    simp only [evalChain, schemaChain, List.foldl_cons]
    have := ih (evalOp op f)
    simp only [evalChain, schemaChain] at this
    rw [this, labels_evalOp]

end Dx.Schema
