/-
  DxModel/Fragment.lean — a concrete instance of the C01 expression model for a fragment of real classes, with
  a denotation and the rule system the real classes have (property C01, work package P).  Mathlib-free.

  Classes (the class code of `Expr.node`):

      0 SRC      io.FromPandas            operands: the pandas frame (table id + its labels), `columns` (None | list)
      1 PROJ     Projection               `columns`: a list or one scalar label
      2 ELEM     Abs, Neg, Pos, Invert    elementwise unary, pushed through by `plain_column_projection`
      3 BINK     Add/Sub/…/GT/LT/…(x, k)  Binop whose right operand is a python scalar
      4 BIN      Add/…/And/Or(x, y)       Binop of two expressions over the same frame (op 0 = And, 1 = Or)
      5 ASSIGN   Assign                   keys; operands: frame, then one Series expression per key
      6 RENAME   RenameFrame              a dict mapping
      7 FILTER   Filter                   operands: frame, predicate (a boolean Series expression)
      8 MERGE    Merge                    how, left_on, right_on, suffixes (column keys, no index join)
      9 CONCAT   Concat (axis=0)          join = outer | inner

  The non-expression operands are the literal `lit : Nat` of Expr.lean: a sentence (list of words, a word = list of
  naturals: a label is the word of its characters) coded as one natural number (`encS` / `decS`, inverse of each
  other for every sentence).

  Rules (`fragRules`): `_simplify_down` of Projection and Assign, `_simplify_up` of every class above, DEFINED by
  the rule functions of DxModel/Cols.lean (`ioAbsorb`, `plain`, `binop`, `assign`, `rename`, `filterRule`, `merge`,
  `concat`, `projDown`, `detProj` inside them with the dependents' columns) and `Pred.rewriteFilters`, followed by
  the re-assembly the real method does (`type(parent)(type(self)(self.frame[cols], …), *parent.operands[1:])`, the
  parent kept or dropped).  Not in the rule system (the model returns `none` where the real method may fire):
  squashing two consecutive Filters, Filter push-down into a Merge, and the Projection branch of a Filter whose
  frame is a Filter or a Merge (its guard needs `is_filter_pushdown_available`); `_lower`, `_tune_*`, fusion.

  Denotation: `fragP I : PSem (FVal γ)` — partial (an ill-formed expression denotes nothing), over abstract
  columns `γ` and an interpretation `I` of the column-level operations (what pandas does to the rows).
  Definedness is decided on the labels alone (`schOp` / `schemaOf`, tied to the real `columns` / `ndim`): labels
  present and duplicate-free; Binop of two frames only with equal label lists (D39); Merge only with `mergeOK`
  (keys are columns, no key / non-key collision across the sides — D34 —, duplicate-free result labels); a row-wise
  Concat needs an input with columns and, for join="inner", columns in every input (`Concat._meta` leaves inputs
  without columns out when it declares the labels).
-/
import DxModel.Drivers
import DxModel.Lemmas.DriversSem
import DxModel.Cols
import DxModel.Lemmas.ColsRules
import DxModel.Pred
namespace Dx.Frag
open Dx Dx.Cols

/-! ## 1. literals: sentences as natural numbers -/

/-- number of trailing zero bits of `n` (at most `fuel`) -/
def tz : Nat → Nat → Nat
  | 0, _ => 0
  | f + 1, n => if n % 2 = 1 then 0 else 1 + tz f (n / 2)

/-- `[a, b, …] ↦ 2^a · (2 · code [b, …] + 1)`, `[] ↦ 0` -/
def encL : List Nat → Nat
  | [] => 0
  | a :: t => 2 ^ a * (2 * encL t + 1)

def decL : Nat → Nat → List Nat
  | 0, _ => []
  | f + 1, n => if n = 0 then [] else (tz n n) :: decL f (n / 2 ^ (tz n n) / 2)

abbrev Sentence := List (List Nat)

/-- words shifted by one and terminated by 0 -/
def flatW : Sentence → List Nat
  | [] => []
  | w :: ws => w.map (· + 1) ++ 0 :: flatW ws

def splitW : List Nat → Sentence
  | [] => []
  | 0 :: t => [] :: splitW t
  | (a + 1) :: t => match splitW t with
    | [] => [[a]]
    | w :: ws => (a :: w) :: ws

def encS (s : Sentence) : Nat := encL (flatW s)
def decS (n : Nat) : Sentence := splitW (decL n n)

def wName (s : Name) : List Nat := s.toList.map Char.toNat
def nameW (w : List Nat) : Name := String.ofList (w.map Char.ofNat)

/-! ## 2. classes and their non-expression operands -/

/-- operands of FromPandas: which table, the labels of the pandas frame, the `columns` operand -/
structure SrcLit where
  tid : Nat
  full : List Name
  cols : Option (List Name)
deriving DecidableEq, Repr

/-- class + non-expression operands of a node -/
inductive Op where
  | src (l : SrcLit)
  | proj (sel : Sel)
  | elem (op : Nat)
  | bink (op k : Nat)
  | bin (op : Nat)
  | assign (keys : List Name)
  | rename (m : List (Name × Name))
  | filter
  | merge (how : Nat) (m : MergeP)
  | concat (inner : Bool)
  | bad
deriving DecidableEq, Repr

/-- class codes of And / Or among the binary operators -/
def opAnd : Nat := 0
def opOr : Nat := 1

def pairsOf : List Name → List (Name × Name)
  | k :: v :: t => (k, v) :: pairsOf t
  | _ => []

def unpairs : List (Name × Name) → List Name
  | [] => []
  | kv :: t => kv.1 :: kv.2 :: unpairs t

def Op.cls : Op → Nat
  | .src _ => 0
  | .proj _ => 1
  | .elem _ => 2
  | .bink _ _ => 3
  | .bin _ => 4
  | .assign _ => 5
  | .rename _ => 6
  | .filter => 7
  | .merge _ _ => 8
  | .concat _ => 9
  | .bad => 10

def Op.sent : Op → Sentence
  | .src l => [l.tid] :: [l.full.length] :: (l.full.map wName ++
      (match l.cols with
       | none => [[0]]
       | some cs => [1] :: cs.map wName))
  | .proj (.one c) => [[0], wName c]
  | .proj (.many cs) => [1] :: cs.map wName
  | .elem op => [[op]]
  | .bink op k => [[op], [k]]
  | .bin op => [[op]]
  | .assign keys => keys.map wName
  | .rename m => (unpairs m).map wName
  | .filter => []
  | .merge how m => [how] :: [m.leftOn.length] :: [m.rightOn.length] ::
      (m.leftOn.map wName ++ (m.rightOn.map wName ++ [wName m.ls, wName m.rs]))
  | .concat inner => [[if inner then 1 else 0]]
  | .bad => []

def srcOfSent : Sentence → Op
  | [tid] :: [n] :: rest =>
    match rest.drop n with
    | [[0]] => .src ⟨tid, (rest.take n).map nameW, none⟩
    | [1] :: cs => .src ⟨tid, (rest.take n).map nameW, some (cs.map nameW)⟩
    | _ => .bad
  | _ => .bad

def mergeOfSent : Sentence → Op
  | [how] :: [nl] :: [nr] :: rest =>
    match (rest.drop nl).drop nr with
    | [ls, rs] => .merge how ⟨(rest.take nl).map nameW, ((rest.drop nl).take nr).map nameW, nameW ls, nameW rs⟩
    | _ => .bad
  | _ => .bad

def opOfSent (c : Nat) (s : Sentence) : Op :=
  match c with
  | 0 => srcOfSent s
  | 1 => match s with
    | [[0], w] => .proj (.one (nameW w))
    | [1] :: ws => .proj (.many (ws.map nameW))
    | _ => .bad
  | 2 => match s with
    | [[op]] => .elem op
    | _ => .bad
  | 3 => match s with
    | [[op], [k]] => .bink op k
    | _ => .bad
  | 4 => match s with
    | [[op]] => .bin op
    | _ => .bad
  | 5 => .assign (s.map nameW)
  | 6 => .rename (pairsOf (s.map nameW))
  | 7 => .filter
  | 8 => mergeOfSent s
  | 9 => match s with
    | [[0]] => .concat false
    | [[1]] => .concat true
    | _ => .bad
  | _ => .bad

/-- `type(e)` and the non-expression operands of a node -/
def opOf (c l : Nat) : Op := opOfSent c (decS l)

def Op.lit (o : Op) : Nat := encS o.sent

/-- `cls(*operands)` -/
def mk (o : Op) (args : List Expr) : Expr := .node o.cls o.lit args

end Dx.Frag

namespace Dx.Expr
/-- the class view of a node -/
def op (e : Expr) : Dx.Frag.Op := Dx.Frag.opOf e.cls e.lit
end Dx.Expr

namespace Dx.Frag
open Dx Dx.Cols

/-! ## 3. values and the interpretation of the column-level operations -/

/-- labels and `ndim == 1` -/
structure Schema where
  cols : List Name
  ser : Bool
deriving DecidableEq, Repr

/-- a frame, or a Series (`ser`: one column, labelled by the name of the Series) -/
structure FVal (γ : Type) where
  fr : Frame γ
  ser : Bool

def FVal.sch {γ : Type} (v : FVal γ) : Schema := ⟨v.fr.cols, v.ser⟩

/-- what pandas does to the rows, column by column.  `γ` = a column, `ι` = a row position. -/
structure Interp (γ ι : Type) where
  /-- the data of source table `t` -/
  data : Nat → Name → Option γ
  /-- the column a Series expression contributes when it has none -/
  nul : γ
  /-- `abs`, `-x`, … by operator code -/
  un : Nat → γ → γ
  /-- `x <op> k` for a python scalar `k` -/
  bink : Nat → Nat → γ → γ
  /-- `x <op> y`; op 0 = `&`, 1 = `|` -/
  bin : Nat → γ → γ → γ
  /-- `x[m]`: the rows of `x` at which the boolean column `m` holds -/
  mask : γ → γ → γ
  /-- a left / right column in the result of a join: decided by how, the key columns of both sides, the column -/
  joinL : Nat → List (Option γ) → List (Option γ) → γ → γ
  joinR : Nat → List (Option γ) → List (Option γ) → γ → γ
  /-- stacking the blocks of one label (`none`: that input has no such column) -/
  stack : List (Option γ) → Option γ
  /-- truth value of a boolean column at a row -/
  bit : γ → ι → Bool

variable {γ ι : Type}

def subsetB (a b : List Name) : Bool := a.all (b.contains ·)

/-- labels of `assign(df, k1, v1, …)`: the frame's, then the new keys in first-occurrence order -/
def assignCols (keys frame : List Name) : List Name := assignLabels frame keys

def Schema.name (s : Schema) : Name := s.cols.headD ""

/-- decidable form of `KeysDoNotCollide` + what `pd.merge` itself asks for -/
def mergeOK (m : MergeP) (L R : List Name) : Bool :=
  subsetB m.leftOn L && subsetB m.rightOn R &&
  m.leftOn.all (fun c => !R.contains c || commonKey m c) &&
  m.rightOn.all (fun c => !L.contains c || commonKey m c) &&
  decide (mergeLabels m L R).Nodup

/-- labels / ndim of a node from those of its operands; `none`: not a well-formed expression of the fragment -/
def schOp : Op → List Schema → Option Schema
  | .src l, [] =>
    let cols := l.cols.getD l.full
    if decide l.full.Nodup && decide cols.Nodup && subsetB cols l.full then some ⟨cols, false⟩ else none
  | .proj (.many cs), [s] =>
    if !s.ser && decide cs.Nodup && subsetB cs s.cols then some ⟨cs, false⟩ else none
  | .proj (.one c), [s] => if !s.ser && s.cols.contains c then some ⟨[c], true⟩ else none
  | .elem _, [s] => some s
  | .bink _ _, [s] => some s
  | .bin _, [a, b] =>
    if a.ser && b.ser then some ⟨[if a.name = b.name then a.name else ""], true⟩
    else if !a.ser && !b.ser && decide (a.cols = b.cols) then some ⟨a.cols, false⟩
    else none
  | .assign keys, s :: vs =>
    if !s.ser && vs.all (·.ser) && keys.length == vs.length then
      some ⟨assignCols keys s.cols, false⟩
    else none
  | .rename m, [s] =>
    if !s.ser && decide (m.map (·.1)).Nodup && decide (s.cols.map (renameFwd m)).Nodup then
      some ⟨s.cols.map (renameFwd m), false⟩
    else none
  | .filter, [s, p] => if p.ser then some s else none
  | .merge how m, [a, b] =>
    if !a.ser && !b.ser && decide (how < 4) && mergeOK m a.cols b.cols then some ⟨mergeLabels m a.cols b.cols, false⟩
    else none
  | .concat inner, s :: ss =>
    -- `Concat._meta` leaves inputs without columns out when it declares the labels; with join="inner" that is not
    -- the intersection any more: such a query is outside the fragment
    if (s :: ss).all (fun x => !x.ser) && (!inner || (s :: ss).all (fun x => !x.cols.isEmpty)) &&
        (s :: ss).any (fun x => !x.cols.isEmpty) then
      some ⟨concatCols false inner ((s :: ss).map (·.cols)), false⟩
    else none
  | _, _ => none

/-- the column of a Series value -/
def FVal.col (I : Interp γ ι) (v : FVal γ) : γ := (v.fr.val (v.fr.cols.headD "")).getD I.nul

/-- an elementwise operation: every column on its own -/
def mapFrame (f : γ → γ) (F : Frame γ) : Frame γ :=
  ⟨F.cols, fun c => if F.cols.contains c then (F.val c).map f else none⟩

def srcFrame (I : Interp γ ι) (l : SrcLit) (cs : List Name) : Frame γ :=
  ⟨cs, fun c => if cs.contains c then I.data l.tid c else none⟩

def bin2 (g : γ → γ → γ) : Option γ → Option γ → Option γ
  | some x, some y => some (g x y)
  | _, _ => none

/-- two frames with the same labels, column by column -/
def binFrame (g : γ → γ → γ) (A B : Frame γ) : Frame γ :=
  ⟨A.cols, fun c => bin2 g (if A.cols.contains c then A.val c else none) (if B.cols.contains c then B.val c else none)⟩

/-- two Series -/
def serFrame (name : Name) (x : γ) : Frame γ := ⟨[name], fun c => if [name].contains c then some x else none⟩

def assignFrame (kv : List (Name × γ)) (F : Frame γ) : Frame γ :=
  ⟨assignCols (kv.map (·.1)) F.cols, fun c =>
    if (assignCols (kv.map (·.1)) F.cols).contains c then
      (if (kv.map (·.1)).contains c then (kv.reverse.find? (fun e => e.1 == c)).map (·.2) else F.val c)
    else none⟩

def renameFrame (m : List (Name × Name)) (F : Frame γ) : Frame γ :=
  ⟨F.cols.map (renameFwd m), fun c' => match F.cols.find? (fun c => renameFwd m c == c') with
    | some c => F.val c
    | none => none⟩

def mergeFrame (I : Interp γ ι) (how : Nat) (m : MergeP) (A B : Frame γ) : Frame γ :=
  ⟨mergeLabels m A.cols B.cols, fun l =>
    match A.cols.find? (fun c => labelL m B.cols c == l) with
    | some c => (A.val c).map (I.joinL how (m.leftOn.map A.val) (m.rightOn.map B.val))
    | none => match (B.cols.filter (fun c => !commonKey m c)).find? (fun c => labelR m A.cols c == l) with
      | some c => (B.val c).map (I.joinR how (m.leftOn.map A.val) (m.rightOn.map B.val))
      | none => none⟩

/-- the stacked column of label `c`, whether or not it is a label of the result -/
def concatRaw (I : Interp γ ι) (cols : List Name) (Fs : List (Frame γ)) : Frame γ :=
  ⟨cols, fun c => I.stack (Fs.map (fun F => if F.cols.contains c then F.val c else none))⟩

def concatFrame (I : Interp γ ι) (inner : Bool) (Fs : List (Frame γ)) : Frame γ :=
  (concatRaw I (concatCols false inner (Fs.map (·.cols))) Fs).select (concatCols false inner (Fs.map (·.cols)))

/-- the frame a node computes from the values of its operands (used when `schOp` accepts the node) -/
def frameOp (I : Interp γ ι) : Op → List (FVal γ) → Frame γ
  | .src l, _ => srcFrame I l (l.cols.getD l.full)
  | .proj sel, [F] => F.fr.select sel.toList
  | .elem op, [F] => mapFrame (I.un op) F.fr
  | .bink op k, [F] => mapFrame (I.bink op k) F.fr
  | .bin op, [A, B] =>
    if A.ser then serFrame (if A.sch.name = B.sch.name then A.sch.name else "") (I.bin op (A.col I) (B.col I))
    else binFrame (I.bin op) A.fr B.fr
  | .assign keys, F :: vs => assignFrame (keys.zip (vs.map (FVal.col I))) F.fr
  | .rename m, [F] => renameFrame m F.fr
  | .filter, [F, P] => mapFrame (I.mask (P.col I)) F.fr
  | .merge how m, [A, B] => mergeFrame I how m A.fr B.fr
  | .concat inner, Fs => concatFrame I inner (Fs.map (·.fr))
  | _, _ => ⟨[], fun _ => none⟩

/-- value of a node: defined exactly when its labels are (`schOp`); the labels are those of `schOp`, the columns
    those of `frameOp` (the selection only normalises: no column outside the labels) -/
def semOp (I : Interp γ ι) (o : Op) (vs : List (FVal γ)) : Option (FVal γ) :=
  match schOp o (vs.map FVal.sch) with
  | some s => some ⟨(frameOp I o vs).select s.cols, s.ser⟩
  | none => none

theorem forall2_eq {α : Type} {vs ws : List α} (h : Forall2 Eq vs ws) : vs = ws := by
  induction h with
  | nil => rfl
  | cons h _ ih => rw [h, ih]

/-- **the denotation of the fragment**: partial, values compared by equality -/
def fragP (I : Interp γ ι) : PSem (FVal γ) where
  psem := fun c l vs => semOp I (opOf c l) vs
  eqv := Eq
  refl := fun _ => rfl
  symm := Eq.symm
  trans := Eq.trans
  congr := by
    intro c l vs ws v h hv
    rw [forall2_eq h]
    exact ⟨v, hv, rfl⟩

/-- the same on labels only: `expr.columns`, `expr.ndim` -/
def schP : PSem Schema where
  psem := fun c l ss => schOp (opOf c l) ss
  eqv := Eq
  refl := fun _ => rfl
  symm := Eq.symm
  trans := Eq.trans
  congr := by
    intro c l vs ws v h hv
    rw [forall2_eq h]
    exact ⟨v, hv, rfl⟩

/-- `(e.columns, e.ndim == 1)`; `none` for an ill-formed expression (the real property raises) -/
def schemaOf (e : Expr) : Option Schema := denoteP schP e

/-! ## 4. the rules -/

/-- `_projection_columns` and `ndim == 1` of one dependent -/
def depOf (q : Expr) : Dep :=
  match schemaOf q with
  | some s => ⟨s.cols, s.ser⟩
  | none => ⟨[], false⟩

/-- what `determine_column_projection` reads from `dependents[c._name]` -/
def depsOf (d : Deps) (c : Expr) : List Dep := (d.of c).map depOf

def parentOf : Sel → Parent
  | .many cs => .list cs
  | .one c => .scalar c

/-- `isinstance(parent, Projection)` with `c` as its frame: the `columns` operand -/
def projOver (p c : Expr) : Option Sel :=
  match p.op, p.args with
  | .proj sel, [x] => if x == c then some sel else none
  | _, _ => none

/-- `x[s]` -/
def proj (s : Sel) (x : Expr) : Expr := mk (.proj s) [x]

/-- the parent's projection re-applied, or dropped -/
def reproj (keep : Bool) (sel : Sel) (e : Expr) : Expr := if keep then proj sel e else e

/-- an operand wrapped into a projection, or left untouched -/
def selOpt (o : Option Sel) (x : Expr) : Expr :=
  match o with
  | some s => proj s x
  | none => x

mutual
/-- `e.substitute(old, new)` -/
def subst (old new : Expr) : Expr → Expr
  | .node c l as => if Expr.node c l as == old then new else .node c l (substL old new as)
def substL (old new : Expr) : List Expr → List Expr
  | [] => []
  | a :: t => subst old new a :: substL old new t
end

mutual
/-- the predicate tree `rewrite_filters` sees: `And` / `Or` nodes, everything else is a component -/
def toT : Expr → Pred.T Expr
  | .node c l as =>
    match opOf c l, toTs as with
    | .bin 0, [a, b] => .and a b
    | .bin 1, [a, b] => .or a b
    | _, _ => .atom (.node c l as)
def toTs : List Expr → List (Pred.T Expr)
  | [] => []
  | a :: t => toT a :: toTs t
end

def ofT : Pred.T Expr → Expr
  | .atom e => e
  | .and a b => mk (.bin opAnd) [ofT a, ofT b]
  | .or a b => mk (.bin opOr) [ofT a, ofT b]
  | .not a => ofT a

/-- `isinstance(predicate, Or)` and `rewrite_filters(predicate)._name != predicate._name` -/
def orRewrite (q : Expr) : Option Expr :=
  match q.op with
  | .bin 1 =>
    let t := toT q
    let r := Pred.rewriteFilters t
    if r != t then some (ofT r) else none
  | _ => none

/-- BlockwiseIO._simplify_up (FromPandas: `_absorb_projections`) -/
def upSrc (l : SrcLit) (c p : Expr) (d : Deps) : Option Expr :=
  match projOver p c, schemaOf c with
  | some sel, some s =>
    if s.ser then none
    else match ioAbsorb s.cols (parentOf sel) (depsOf d c) with
      | some rw => match rw.childs with
        | [some (.many proposed)] => some (reproj rw.keep sel (mk (.src { l with cols := some proposed }) []))
        | _ => none
      | none => none
  | _, _ => none

/-- Blockwise._simplify_up with `_projection_passthrough`, Unaryop._simplify_up: `plain_column_projection` -/
def upElem (op : Nat) (x c p : Expr) (d : Deps) : Option Expr :=
  match projOver p c, schemaOf x with
  | some sel, some sx =>
    if sx.ser then none
    else match plain sx.cols (parentOf sel) (depsOf d c) with
      | some rw => match rw.childs with
        | [some cu] => some (reproj rw.keep sel (mk (.elem op) [proj cu x]))
        | _ => none
      | none => none
  | _, _ => none

/-- Binop._simplify_up, right operand a python scalar -/
def upBinK (op k : Nat) (x c p : Expr) (d : Deps) : Option Expr :=
  match projOver p c, schemaOf x with
  | some sel, some sx =>
    if sx.ser then none
    else match binop sx.cols (some sx.cols) none (parentOf sel) (depsOf d c) with
      | some rw => match rw.childs with
        | [l, _] => some (proj sel (mk (.bink op k) [selOpt l x]))
        | _ => none
      | none => none
  | _, _ => none

/-- Binop._simplify_up, two expression operands -/
def upBin (op : Nat) (a b c p : Expr) (d : Deps) : Option Expr :=
  match projOver p c, schemaOf a, schemaOf b, schemaOf c with
  | some sel, some sa, some sb, some sc =>
    if sc.ser then none
    else match binop sc.cols (if sa.ser then none else some sa.cols) (if sb.ser then none else some sb.cols)
        (parentOf sel) (depsOf d c) with
      | some rw => match rw.childs with
        | [l, r] => some (proj sel (mk (.bin op) [selOpt l a, selOpt r b]))
        | _ => none
      | none => none
  | _, _, _, _ => none

/-- Assign._simplify_up -/
def upAssign (keys : List Name) (x : Expr) (vals : List Expr) (c p : Expr) (d : Deps) : Option Expr :=
  match projOver p c, schemaOf x with
  | some sel, some sx =>
    match assign sx.cols keys (parentOf sel) (depsOf d c) with
    | some rw =>
      if rw.gone then some (proj sel x)
      else match rw.childs, rw.keys with
        | [some cs], some newKeys =>
          let kv := (keys.zip vals).filter (fun e => newKeys.contains e.1)
          some (proj sel (mk (.assign (kv.map (·.1))) (proj cs x :: kv.map (·.2))))
        | _, _ => none
    | none => none
  | _, _ => none

/-- RenameFrame._simplify_up (dict mapping) -/
def upRename (m : List (Name × Name)) (x c p : Expr) (d : Deps) : Option Expr :=
  match projOver p c, schemaOf x with
  | some sel, some sx =>
    match rename sx.cols m (parentOf sel) (depsOf d c) with
    | some rw => match rw.childs with
      | [some cs] => some (proj sel (mk (.rename m) [proj cs x]))
      | _ => none
    | none => none
  | _, _ => none

/-- the frame of a Filter is a class with `_filter_passthrough` (Filter) or its own
    `_filter_passthrough_available` (Merge): the guard of the Projection branch may hold — outside the fragment -/
def passesFilters (x : Expr) : Bool :=
  match x.op with
  | .filter => true
  | .merge _ _ => true
  | _ => false

/-- Filter._simplify_up, Projection branch (the guard `self.frame._filter_passthrough_available` is false for
    every frame class of the fragment but Filter and Merge) -/
def upFilterProj (x q c p : Expr) (d : Deps) : Option Expr :=
  match projOver p c, schemaOf x with
  | some sel, some sx =>
    if passesFilters x then none
    else match filterRule false sx.cols (parentOf sel) (depsOf d c) with
      | some rw => match rw.childs with
        | [some cu] => some (reproj rw.keep sel (mk .filter [proj cu x, q]))
        | _ => none
      | none => none
  | _, _ => none

/-- Filter._simplify_up: OR factoring (any parent), then the Projection branch -/
def upFilter (x q c p : Expr) (d : Deps) : Option Expr :=
  match orRewrite q with
  | some q' => some (subst c (mk .filter [x, q']) p)
  | none => upFilterProj x q c p d

/-- Merge._simplify_up, Projection branch -/
def upMerge (how : Nat) (m : MergeP) (a b c p : Expr) (d : Deps) : Option Expr :=
  match projOver p c, schemaOf a, schemaOf b with
  | some sel, some sa, some sb =>
    match merge m sa.cols sb.cols (parentOf sel) (depsOf d c) with
    | some rw => match rw.childs with
      | [some pl, some pr] => some (proj sel (mk (.merge how m) [proj pl a, proj pr b]))
      | _ => none
    | none => none
  | _, _, _ => none

def allSchemas : List Expr → Option (List Schema)
  | [] => some []
  | x :: t => match schemaOf x, allSchemas t with
    | some s, some ss => some (s :: ss)
    | _, _ => none

def zipSel : List (Option Sel) → List Expr → List Expr
  | o :: os, x :: xs => selOpt o x :: zipSel os xs
  | _, _ => []

/-- Concat._simplify_up (axis=0, frames) -/
def upConcat (inner : Bool) (xs : List Expr) (c p : Expr) (d : Deps) : Option Expr :=
  match projOver p c, allSchemas xs with
  | some sel, some ss =>
    if ss.any (·.ser) then none
    else match concat false inner (ss.map (·.cols)) (parentOf sel) (depsOf d c) with
      | some rw => some (reproj rw.keep sel (mk (.concat inner) (zipSel rw.childs xs)))
      | none => none
  | _, _ => none

/-- `child._simplify_up(parent, dependents)` -/
def fragUp (c p : Expr) (d : Deps) : Option Expr :=
  match c.op, c.args with
  | .src l, [] => upSrc l c p d
  | .elem op, [x] => upElem op x c p d
  | .bink op k, [x] => upBinK op k x c p d
  | .bin op, [a, b] => upBin op a b c p d
  | .assign keys, x :: vals => upAssign keys x vals c p d
  | .rename m, [x] => upRename m x c p d
  | .filter, [x, q] => upFilter x q c p d
  | .merge how m, [a, b] => upMerge how m a b c p d
  | .concat inner, xs => upConcat inner xs c p d
  | _, _ => none

/-- Projection._simplify_down -/
def downProj (sel : Sel) (x e : Expr) : Option Expr :=
  match schemaOf x, schemaOf e with
  | some sx, some se =>
    let inner := match x.op, x.args with
      | .proj a, [_] => some a
      | _, _ => none
    match projDown sx.cols (se.ser == sx.ser) sel inner with
    | .ident => some x
    | .squash b => match x.args with
      | [y] => some (proj b y)
      | _ => none
    | _ => none
  | _, _ => none

def colsOfAll : List Expr → List Name
  | [] => []
  | v :: t => (match schemaOf v with | some s => s.cols | none => []) ++ colsOfAll t

/-- Assign._simplify_down: nested Assigns become one, unless a value reads a column the inner one creates -/
def downAssign (keys : List Name) (x : Expr) (vals : List Expr) : Option Expr :=
  match x.op, x.args with
  | .assign keys0, x0 :: vals0 =>
    if (colsOfAll vals).any (keys0.contains ·) then none
    else some (mk (.assign (keys0 ++ keys)) (x0 :: (vals0 ++ vals)))
  | _, _ => none

/-- `e._simplify_down()` -/
def fragDown (e : Expr) : Option Expr :=
  match e.op, e.args with
  | .proj sel, [x] => downProj sel x e
  | .assign keys, x :: vals => downAssign keys x vals
  | _, _ => none

/-- **the rule system of the fragment** (logical simplification only) -/
def fragRules : Rules where
  down := fragDown
  up := fragUp
  tuneDown := fun _ => none
  tuneUp := fun _ _ => none
  lower := fun _ => none
  fuse := id

/-! ## 5. a concrete interpretation: columns are lists of integers (for the examples; booleans are 0 / 1) -/

def padZip (f : Int → Int → Int) : List Int → List Int → List Int
  | [], bs => bs.map (f 0)
  | a :: as, [] => f a 0 :: padZip f as []
  | a :: as, b :: bs => f a b :: padZip f as bs

def b2i (b : Bool) : Int := if b then 1 else 0

def maskL : Nat → List Int → List Int → List Int
  | _, _, [] => []
  | i, m, x :: xs => if m.getD i 0 != 0 then x :: maskL (i + 1) m xs else maskL (i + 1) m xs

/-- rows of an inner join on the first key column: positions (i, j) with equal keys -/
def joinPairs (l r : List Int) : List (Nat × Nat) :=
  (List.range l.length).flatMap (fun i => ((List.range r.length).filter (fun j => l.getD i 0 == r.getD j 0)).map (fun j => (i, j)))

def firstKey (ks : List (Option (List Int))) : List Int :=
  match ks with
  | some k :: _ => k
  | _ => []

/-- integer columns; `un 0` = abs, `un 1` = neg; `bink 0 k` = `+k`, `bink 1 k` = `> k`, `bink 2 k` = `< k`;
    `bin 0` = and, `bin 1` = or, `bin 2` = `+`; joins are inner joins on the first key; a missing column stacks as
    nothing -/
def listI (tables : Nat → Name → Option (List Int)) : Interp (List Int) Nat where
  data := tables
  nul := []
  un := fun op x => match op with
    | 0 => x.map (fun v => if v < 0 then -v else v)
    | _ => x.map (fun v => -v)
  bink := fun op k x => match op with
    | 0 => x.map (· + k)
    | 1 => x.map (fun v => b2i (decide (v > (k : Int))))
    | _ => x.map (fun v => b2i (decide (v < (k : Int))))
  bin := fun op x y => match op with
    | 0 => padZip (fun a b => b2i (a != 0 && b != 0)) x y
    | 1 => padZip (fun a b => b2i (a != 0 || b != 0)) x y
    | _ => padZip (· + ·) x y
  mask := fun m x => maskL 0 m x
  joinL := fun _ lk rk x => (joinPairs (firstKey lk) (firstKey rk)).map (fun ij => x.getD ij.1 0)
  joinR := fun _ lk rk x => (joinPairs (firstKey lk) (firstKey rk)).map (fun ij => x.getD ij.2 0)
  stack := fun blocks => if blocks.all Option.isNone then none else some (blocks.flatMap (fun b => b.getD []))
  bit := fun m i => m.getD i 0 != 0

end Dx.Frag
