/-
  Names.lean — expression trees and their Merkle names (`Expr._name`, dask_expr/_core.py, and the
  per-class overrides in _expr.py, _reductions.py, io/io.py, io/parquet.py, io/_delayed.py).

  Mathlib-free (the driver executable links against this file).

  What the code does (as it is in /repo):

      Expr._name      = funcname(type(self)).lower() + "-" + _tokenize_deterministic(*self.operands)
      Blockwise._name = funcname(self.operation)      + "-" + _tokenize_deterministic(*self.operands)   # class name only if operation is None
      MapPartitions / FromMap / FromGraph / CustomReduction / FromDelayed / TreeReduce / Fused / FusedIO:
                        <prefix computed from operands> + "-" + _tokenize_deterministic(*self.operands)
      ReadParquet._name = "read_parquet-" + _tokenize_deterministic(funcname(type(self)), self.checksum, *self.operands[:-1])
      _DelayedExpr._name = self.obj.key

  and `normalize_expression` (dask_expr/_expr.py) tokenizes a nested expression *as the string*
  `expr._name`, so that an operand which is an expression and an operand which is a literal string
  equal to that expression's name are indistinguishable.

  Model: `token` (md5 of the normalized operand list) and `nameCode` (a name, read as a literal) are
  abstract; collision freedom of `token` is hypothesis A1 of the theorems, never an axiom.
-/
namespace Dx.Names

/- `L` is the type of literals (normalized non-expression operands), `τ` the type of tokens; the
   theorems hold for every choice, the driver and the non-vacuity examples use the free instance below. -/

mutual
/-- an expression: class number and operand list -/
inductive E (L : Type) where
  | node (cls : Nat) (ops : List (Operand L))
/-- an operand: a literal (identified by its normalized form), a nested expression, or a
    list/tuple/dict operand whose items may again be expressions (`Fused.exprs`, by-lists, …) -/
inductive Operand (L : Type) where
  | lit (t : L)
  | sub (e : E L)
  | seq (l : List (Operand L))
end

/-- what `normalize_token` hands to md5 for one operand -/
inductive Canon (L : Type) where
  | lit (t : L)
  | seq (l : List (Canon L))

structure Name (τ : Type) where
  pfx : Nat
  tok : τ
deriving DecidableEq, Repr

/-- The shape of one class's `_name` (one row of Generated/NameRules.lean). -/
structure Rule where
  /-- `some p`: the prefix is the fixed string number `p` (class name, name of a static `operation`,
      a literal); `none`: computed from operand values (label, token, function name, names of
      fused sub-expressions, …) -/
  pfxConst : Option Nat
  /-- the class name is tokenized together with the operands -/
  clsInTok : Bool
  /-- something that is not an operand is tokenized (ReadParquet: the dataset checksum) -/
  extra : Bool
  /-- operand positions that are not tokenized -/
  dropped : List Nat
  /-- `len(_parameters)` -/
  nparams : Nat
  /-- the class reads operands beyond `_parameters` -/
  variadic : Bool
deriving Repr, DecidableEq

/-- default rule of `Expr._name` for a class with prefix string `p` -/
def Rule.default (p nparams : Nat) (variadic : Bool := false) : Rule :=
  { pfxConst := some p, clsInTok := false, extra := false, dropped := [], nparams := nparams, variadic := variadic }

/-- the parameters of the naming scheme -/
structure Scheme (L τ : Type) where
  rules : Nat → Rule
  /-- md5 of the normalized list -/
  token : List (Canon L) → τ
  /-- the literal (a string) under which a nested expression's name is tokenized -/
  nameCode : Name τ → L
  /-- the literal (a string) `funcname(type(self))` of a class -/
  clsCode : Nat → L
  /-- prefix of a class whose prefix is computed from operand values -/
  dynPfx : Nat → List (Canon L) → Nat
  /-- the non-operand token input (dataset checksum) -/
  extraTok : Nat → List (Canon L) → Canon L

/-- operands at positions not in `d` (positions counted from `i`) -/
def keepIdx {L : Type} (d : List Nat) : Nat → List (Canon L) → List (Canon L)
  | _, [] => []
  | i, x :: xs => if d.contains i then keepIdx d (i + 1) xs else x :: keepIdx d (i + 1) xs

/-- the list handed to `_tokenize_deterministic` -/
def tokenInput {L : Type} (r : Rule) (c : L) (extraTok : Canon L) (cs : List (Canon L)) : List (Canon L) :=
  (if r.clsInTok then [Canon.lit c] else []) ++ (if r.extra then [extraTok] else []) ++ keepIdx r.dropped 0 cs

def prefixOf {L τ : Type} (S : Scheme L τ) (c : Nat) (cs : List (Canon L)) : Nat :=
  match (S.rules c).pfxConst with
  | some p => p
  | none => S.dynPfx c cs

mutual
def nameOf {L τ : Type} (S : Scheme L τ) : E L → Name τ
  | .node c ops =>
      { pfx := prefixOf S c (canonOps S ops),
        tok := S.token (tokenInput (S.rules c) (S.clsCode c) (S.extraTok c (canonOps S ops)) (canonOps S ops)) }
/-- `normalize_token(operand)`: literals as they are, expressions as their name -/
def canon {L τ : Type} (S : Scheme L τ) : Operand L → Canon L
  | .lit t => .lit t
  | .sub e => .lit (S.nameCode (nameOf S e))
  | .seq l => .seq (canonOps S l)
def canonOps {L τ : Type} (S : Scheme L τ) : List (Operand L) → List (Canon L)
  | [] => []
  | o :: os => canon S o :: canonOps S os
end

/-! ### when are two classes kept apart by their rules -/

/-- operand counts the class can have -/
def arityOK (r : Rule) (n : Nat) : Bool := if r.variadic then r.nparams ≤ n else n == r.nparams

def arityDisjoint (r₁ r₂ : Rule) : Bool :=
  match r₁.variadic, r₂.variadic with
  | false, false => r₁.nparams != r₂.nparams
  | false, true => r₁.nparams < r₂.nparams
  | true, false => r₂.nparams < r₁.nparams
  | true, true => false

/-- the token input is exactly the operand list -/
def plain (r : Rule) : Bool := !r.clsInTok && !r.extra && r.dropped.isEmpty

/-- the token covers every operand -/
def ownComplete (r : Rule) : Bool := r.dropped.isEmpty

def constPfxDiffer (r₁ r₂ : Rule) : Bool :=
  match r₁.pfxConst, r₂.pfxConst with
  | some p, some q => p != q
  | _, _ => false

/-- two *different* classes can never produce the same name -/
def separated (r₁ r₂ : Rule) : Bool :=
  constPfxDiffer r₁ r₂
    || (r₁.clsInTok && r₂.clsInTok)
    || (plain r₁ && plain r₂ && arityDisjoint r₁ r₂)

/-! ### admissible trees -/

mutual
/-- every node's class is `good`, has an operand count its class can have, and no literal operand
    is (the code of) a name -/
def AdmE {L τ : Type} (S : Scheme L τ) (good : Nat → Prop) : E L → Prop
  | .node c ops => good c ∧ arityOK (S.rules c) ops.length = true ∧ AdmOps S good ops
def AdmO {L τ : Type} (S : Scheme L τ) (good : Nat → Prop) : Operand L → Prop
  | .lit t => ∀ n, t ≠ S.nameCode n
  | .sub e => AdmE S good e
  | .seq l => AdmOps S good l
def AdmOps {L τ : Type} (S : Scheme L τ) (good : Nat → Prop) : List (Operand L) → Prop
  | [] => True
  | o :: os => AdmO S good o ∧ AdmOps S good os
end

/-- `NameRuleComplete` for a set of classes: each tokenizes all its operands and any two are separated -/
def NameRuleComplete {L τ : Type} (S : Scheme L τ) (good : Nat → Prop) : Prop :=
  (∀ c, good c → ownComplete (S.rules c) = true) ∧
  (∀ c₁ c₂, good c₁ → good c₂ → c₁ ≠ c₂ → separated (S.rules c₁) (S.rules c₂) = true)

/-! ### table rows (Generated/NameRules.lean) -/

structure Row where
  id : Nat
  cls : String            -- module-qualified class name
  pfx : String            -- the constant prefix string ("" when computed)
  provider : String       -- the class whose `_name` is inherited
  probed : Bool           -- the rule was confirmed by behavioural probing of a live instance
  rule : Rule
deriving Repr

/-- the row of class `c` -/
def findRow (rows : List Row) (c : Nat) : Option Row := rows.find? (fun r => r.id == c)

/-- the rule table as a function of the class id -/
def ruleOf (rows : List Row) (c : Nat) : Rule :=
  match findRow rows c with
  | some r => r.rule
  | none => Rule.default 0 0

/-! executable size of trees (used by the driver only) -/
mutual
def sizeE {L : Type} : E L → Nat
  | .node _ ops => 1 + sizeOps ops
def sizeO {L : Type} : Operand L → Nat
  | .lit _ => 1
  | .sub e => sizeE e
  | .seq l => 1 + sizeOps l
def sizeOps {L : Type} : List (Operand L) → Nat
  | [] => 0
  | o :: os => sizeO o + sizeOps os
end

/-! ### the free instance: tokens are the token inputs themselves, a name read as a literal is a literal of its own kind -/

inductive FreeLit where
  | base (n : Nat)                                   -- an ordinary literal
  | cls (c : Nat)                                    -- a class name
  | name (pfx : Nat) (tok : List (Canon FreeLit))    -- the name of an expression

abbrev FreeTok := List (Canon FreeLit)

def freeScheme (rules : Nat → Rule) : Scheme FreeLit FreeTok :=
  { rules := rules, token := id, nameCode := fun n => .name n.pfx n.tok, clsCode := .cls,
    dynPfx := fun _ _ => 0, extraTok := fun _ _ => .seq [] }

end Dx.Names
