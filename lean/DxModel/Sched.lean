/-
  Sched.lean — executing a graph in an explicit order / with several workers.
  Model of an external scheduler (dask.get, threaded get): a store of finished keys;
  a task is evaluated from the store.  Mathlib-free.
-/
import DxModel.Graph
namespace Dx

abbrev Store (κ : Type) := List (κ × V)

def Store.get {κ} [DecidableEq κ] (s : Store κ) (inp : κ → Option V) (k : κ) : V :=
  match s.lookup k with
  | some v => v
  | none => inpVal inp k

/-- Sequential execution of the keys in `order` (keys the graph does not define are skipped). -/
def execOrder {κ} [DecidableEq κ] (I : Interp) (g : Graph κ) (inp : κ → Option V) :
    List κ → Store κ → Store κ
  | [], s => s
  | k :: ks, s => match g k with
      | some t => execOrder I g inp ks ((k, evalTsk I (s.get inp) t) :: s)
      | none => execOrder I g inp ks s

/-- `order` respects dependencies w.r.t. the already finished keys `done`. -/
def Topo {κ} (g : Graph κ) : List κ → List κ → Prop
  | _, [] => True
  | done, k :: ks =>
      (∀ t, g k = some t → ∀ d ∈ t.refs, (g d).isSome → d ∈ done) ∧ k ∉ done ∧ Topo g (k :: done) ks

/-- The canonical value of a key: the evaluator with just enough fuel. -/
def val {κ} (I : Interp) (g : Graph κ) (inp : κ → Option V) (rank : κ → Nat) (k : κ) : V :=
  run I g inp (rank k + 1) k

/-- Store invariant: exactly the finished keys are stored, each defined in `g`, each with its canonical value. -/
def StoreOK {κ} [DecidableEq κ] (I : Interp) (g : Graph κ) (inp : κ → Option V) (rank : κ → Nat)
    (done : List κ) (s : Store κ) : Prop :=
  (∀ k, k ∈ done → s.lookup k = some (val I g inp rank k)) ∧
  (∀ k, k ∉ done → s.lookup k = none) ∧
  (∀ k, k ∈ done → (g k).isSome)

theorem eval_from_store {κ} [DecidableEq κ] (I : Interp) (g : Graph κ) (inp : κ → Option V)
    (rank : κ → Nat) (hr : Ranked g rank) (done : List κ) (s : Store κ)
    (hs : StoreOK I g inp rank done s) (k : κ) (t : Tsk κ) (hg : g k = some t)
    (hdeps : ∀ d ∈ t.refs, (g d).isSome → d ∈ done) :
    evalTsk I (s.get inp) t = val I g inp rank k := by
  unfold val
  simp only [run, hg]
  apply evalTsk_congr
  intro d hd
  cases hgd : g d with
  | none =>
    have hnd : d ∉ done := by
      intro hmem
      have := hs.2.2 d hmem
      simp [hgd] at this
    simp [Store.get, hs.2.1 d hnd, run_undefined I g inp d hgd]
  | some td =>
    have hmem := hdeps d hd (by simp [hgd])
    have hlt := hr k t hg d hd (by simp [hgd])
    simp only [Store.get, hs.1 d hmem, val]
    exact (run_stable I g inp rank hr (rank d + 1) d (by omega) (rank k) (by omega)).symm

theorem execOrder_ok {κ} [DecidableEq κ] (I : Interp) (g : Graph κ) (inp : κ → Option V)
    (rank : κ → Nat) (hr : Ranked g rank) :
    ∀ (order done : List κ) (s : Store κ), StoreOK I g inp rank done s → Topo g done order →
      (∀ k ∈ order, (g k).isSome) →
      StoreOK I g inp rank (order.reverse ++ done) (execOrder I g inp order s) := by
  intro order
  induction order with
  | nil => intro done s hs _ _; simpa [execOrder] using hs
  | cons k ks ih =>
    intro done s hs ht hdef
    obtain ⟨hdeps, hnot, hrest⟩ := ht
    have hk := hdef k (by simp)
    cases hg : g k with
    | none => simp [hg] at hk
    | some t =>
      simp only [execOrder, hg]
      have hv := eval_from_store I g inp rank hr done s hs k t hg (hdeps t hg)
      have hs' : StoreOK I g inp rank (k :: done) ((k, evalTsk I (s.get inp) t) :: s) := by
        refine ⟨?_, ?_, ?_⟩
        · intro k' hk'
          by_cases he : k' = k
          · subst he; simp [List.lookup, hv]
          · have : k' ∈ done := by simpa [he] using hk'
            simp only [List.lookup]
            have hb : (k' == k) = false := by simp [he]
            rw [hb]; exact hs.1 k' this
        · intro k' hk'
          have hne : k' ≠ k := by intro h; apply hk'; simp [h]
          have hnd : k' ∉ done := by intro h; apply hk'; simp [h]
          simp only [List.lookup]
          have hb : (k' == k) = false := by simp [hne]
          rw [hb]; exact hs.2.1 k' hnd
        · intro k' hk'
          by_cases he : k' = k
          · subst he; simp [hg]
          · exact hs.2.2 k' (by simpa [he] using hk')
      have := ih (k :: done) _ hs' hrest (fun k' hk' => hdef k' (by simp [hk']))
      simpa [List.reverse_cons, List.append_assoc] using this

/-- **Confluence.** Any dependency-respecting order of the graph's keys stores, for every key,
    the canonical value — hence any two such orders agree on every key. -/
theorem execOrder_val {κ} [DecidableEq κ] (I : Interp) (g : Graph κ) (inp : κ → Option V)
    (rank : κ → Nat) (hr : Ranked g rank) (order : List κ) (ht : Topo g [] order)
    (hdef : ∀ k ∈ order, (g k).isSome) (k : κ) (hk : k ∈ order) :
    (execOrder I g inp order []).lookup k = some (val I g inp rank k) := by
  have h0 : StoreOK I g inp rank [] ([] : Store κ) := by
    refine ⟨?_, ?_, ?_⟩
    · intro k h; cases h
    · intro k _; rfl
    · intro k h; cases h
  have := execOrder_ok I g inp rank hr order [] [] h0 ht hdef
  exact this.1 k (by simpa using hk)

theorem confluence {κ} [DecidableEq κ] (I : Interp) (g : Graph κ) (inp : κ → Option V)
    (rank : κ → Nat) (hr : Ranked g rank) (o₁ o₂ : List κ)
    (h₁ : Topo g [] o₁) (h₂ : Topo g [] o₂)
    (d₁ : ∀ k ∈ o₁, (g k).isSome) (d₂ : ∀ k ∈ o₂, (g k).isSome)
    (k : κ) (hk₁ : k ∈ o₁) (hk₂ : k ∈ o₂) :
    (execOrder I g inp o₁ []).lookup k = (execOrder I g inp o₂ []).lookup k := by
  rw [execOrder_val I g inp rank hr o₁ h₁ d₁ k hk₁, execOrder_val I g inp rank hr o₂ h₂ d₂ k hk₂]

/-! ### Several workers: start / finish events -/

inductive Ev (κ : Type) where
  | start (k : κ)      -- a worker picks the task up and reads its arguments from the store
  | finish (k : κ)     -- the worker publishes the result
deriving Repr

/-- State of a multi-worker run: published results and in-flight tasks with the value each
    worker computed from the arguments it read when it started. -/
structure ParState (κ : Type) where
  store : Store κ
  running : List (κ × V)

def parStep {κ} [DecidableEq κ] (I : Interp) (g : Graph κ) (inp : κ → Option V)
    (st : ParState κ) : Ev κ → ParState κ
  | .start k => match g k with
      | some t => { st with running := (k, evalTsk I (st.store.get inp) t) :: st.running }
      | none => st
  | .finish k => match st.running.lookup k with
      | some v => { store := (k, v) :: st.store, running := st.running.filter (fun p => p.1 != k) }
      | none => st

/-- A schedule is legal when a task starts only after all its in-graph dependencies were
    published, starts at most once, and finishes only after it started. -/
def LegalPar {κ} (g : Graph κ) : List κ → List κ → List (Ev κ) → Prop
  | _, _, [] => True
  | done, started, .start k :: es =>
      (∀ t, g k = some t → ∀ d ∈ t.refs, (g d).isSome → d ∈ done) ∧ k ∉ started ∧ (g k).isSome ∧
      LegalPar g done (k :: started) es
  | done, started, .finish k :: es =>
      k ∈ started ∧ k ∉ done ∧ LegalPar g (k :: done) started es

def ParOK {κ} [DecidableEq κ] (I : Interp) (g : Graph κ) (inp : κ → Option V) (rank : κ → Nat)
    (done started : List κ) (st : ParState κ) : Prop :=
  StoreOK I g inp rank done st.store ∧
  (∀ k, k ∈ started → k ∉ done → st.running.lookup k = some (val I g inp rank k)) ∧
  (∀ k, k ∈ done → k ∈ started) ∧
  (∀ k, k ∈ started → (g k).isSome)

theorem lookup_filter_ne {κ} [DecidableEq κ] (l : List (κ × V)) (k k' : κ) (h : k' ≠ k) :
    (l.filter (fun p => p.1 != k)).lookup k' = l.lookup k' := by
  induction l with
  | nil => rfl
  | cons p t ih =>
    obtain ⟨a, v⟩ := p
    by_cases ha : a = k
    · subst ha
      have hb : (k' == a) = false := by simp [h]
      simp [List.filter, List.lookup, hb, ih]
    · have hf : ((a, v).1 != k) = true := by simp [ha]
      simp only [List.filter, hf, List.lookup]
      cases hka : (k' == a) <;> simp [ih]

/-- **Any number of workers.** Every legal start/finish schedule publishes canonical values only. -/
theorem par_ok {κ} [DecidableEq κ] (I : Interp) (g : Graph κ) (inp : κ → Option V)
    (rank : κ → Nat) (hr : Ranked g rank) :
    ∀ (es : List (Ev κ)) (done started : List κ) (st : ParState κ),
      ParOK I g inp rank done started st → LegalPar g done started es →
      ∃ done' started', ParOK I g inp rank done' started' (es.foldl (parStep I g inp) st) ∧
        (∀ k, k ∈ done → k ∈ done') ∧
        (∀ k, (Ev.finish k) ∈ es → k ∈ done') := by
  intro es
  induction es with
  | nil => intro done started st h _; exact ⟨done, started, h, fun _ h => h, by intro k hk; cases hk⟩
  | cons e es ih =>
    intro done started st hok hl
    cases e with
    | start k =>
      obtain ⟨hdeps, hns, hdef, hrest⟩ := hl
      cases hg : g k with
      | none => simp [hg] at hdef
      | some t =>
        have hv := eval_from_store I g inp rank hr done st.store hok.1 k t hg (hdeps t hg)
        have hok' : ParOK I g inp rank done (k :: started)
            { st with running := (k, evalTsk I (st.store.get inp) t) :: st.running } := by
          refine ⟨hok.1, ?_, ?_, ?_⟩
          · intro k' hk' hnd
            by_cases he : k' = k
            · subst he; simp [List.lookup, hv]
            · have hb : (k' == k) = false := by simp [he]
              simp only [List.lookup, hb]
              exact hok.2.1 k' (by simpa [he] using hk') hnd
          · intro k' hk'; simp [hok.2.2.1 k' hk']
          · intro k' hk'
            by_cases he : k' = k
            · subst he; simp [hg]
            · exact hok.2.2.2 k' (by simpa [he] using hk')
        obtain ⟨d', s', h1, h2, h3⟩ := ih done (k :: started) _ hok' hrest
        refine ⟨d', s', ?_, h2, ?_⟩
        · simpa [List.foldl, parStep, hg] using h1
        · intro k' hk'
          simp only [List.mem_cons] at hk'
          cases hk' with
          | inl h => cases h
          | inr h => exact h3 k' h
    | finish k =>
      obtain ⟨hst, hnd, hrest⟩ := hl
      have hrun := hok.2.1 k hst hnd
      have hok' : ParOK I g inp rank (k :: done) started
          { store := (k, val I g inp rank k) :: st.store,
            running := st.running.filter (fun p => p.1 != k) } := by
        refine ⟨⟨?_, ?_, ?_⟩, ?_, ?_, hok.2.2.2⟩
        · intro k' hk'
          by_cases he : k' = k
          · subst he; simp [List.lookup]
          · have hb : (k' == k) = false := by simp [he]
            simp only [List.lookup, hb]
            exact hok.1.1 k' (by simpa [he] using hk')
        · intro k' hk'
          have hne : k' ≠ k := by intro h; apply hk'; simp [h]
          have hb : (k' == k) = false := by simp [hne]
          simp only [List.lookup, hb]
          exact hok.1.2.1 k' (by intro h; apply hk'; simp [h])
        · intro k' hk'
          by_cases he : k' = k
          · subst he; exact hok.2.2.2 k' hst
          · exact hok.1.2.2 k' (by simpa [he] using hk')
        · intro k' hk' hnd'
          have hne : k' ≠ k := by intro h; apply hnd'; simp [h]
          rw [lookup_filter_ne _ _ _ hne]
          exact hok.2.1 k' hk' (by intro h; apply hnd'; simp [h])
        · intro k' hk'
          by_cases he : k' = k
          · subst he; exact hst
          · exact hok.2.2.1 k' (by simpa [he] using hk')
      obtain ⟨d', s', h1, h2, h3⟩ := ih (k :: done) started _ hok' hrest
      refine ⟨d', s', ?_, ?_, ?_⟩
      · simpa [List.foldl, parStep, hrun] using h1
      · intro k' hk'; exact h2 k' (by simp [hk'])
      · intro k' hk'
        simp only [List.mem_cons] at hk'
        cases hk' with
        | inl h => cases h; exact h2 k (by simp)
        | inr h => exact h3 k' h

end Dx
