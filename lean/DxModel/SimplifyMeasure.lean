/-
  SimplifyMeasure.lean — the SIMPLIFY stage as a rewrite system on expression trees, and the measure
  that every modelled rule shape strictly decreases (property C19, work package N).

  What is modelled is the *shape* of what the `_simplify_up` / `_simplify_down` methods of /repo
  produce (dask_expr/_expr.py, _merge.py, _concat.py, _shuffle.py, _reductions.py, _groupby.py,
  io/io.py, io/parquet.py), not their column arithmetic (that is Dx.Cols / Dx.Pred):

    (a) a projection moves below an operator            Cols.Rw: per input a (narrower) Projection or
        (`plain_column_projection`, Merge, Assign, …)   nothing, inputs/keys dropped, parent kept or not
    (b) a filter moves below an operator                Filter pushdown (`_filter_simplification`,
                                                        Merge sides), predicate substituted
    (c) stacked nodes are squashed                      Projection/Projection, Filter/Filter,
                                                        Assign/Assign, Rename, Repartition, Head/Head, …
    (d) a node is removed / absorbed                    identity projection, IO `columns`, `_partitions`,
                                                        parquet filters, Len/Lengths through elemwise
    (e) Head / Tail / Partitions move below blockwise operators

  A tree node carries only its kind and the number of columns of its result (`w`, the only datum
  the termination argument needs: a pushed projection is *narrower* than the input it is put on).

  Measure: the lexicographic quadruple  msr t = (potF t, flow t, potP t, potB t)
    potF  Σ over Filter nodes of the number of operator nodes below them (frame side)   "filters sink"
    flow  Σ over operator/Filter nodes of (own width) + (width+1 of every input)          "less data flows"
    potP  Σ over Projection nodes of the number of nodes below them                        "projections sink"
    potB  Σ over Head/Tail/Partitions/Len nodes of the number of nodes below them          "selections sink"
  Definitions only, Mathlib-free.  The theorems are in Lemmas/SimplifyMeasure.lean and Props/C19.lean.
-/
namespace Dx.SM

/-- expression trees, abstracted to node kind + number of columns.
    `op`    any other operator (also IO leaves: no kids)
    `proj`  Projection / Index
    `filt`  Filter (frame, predicate)
    `blind` Head, Tail, Partitions, Len, Lengths (one expression operand; their own input width does
            not matter to them: they pass through projections) -/
inductive Tr where
  | op (w : Nat) (kids : List Tr)
  | proj (w : Nat) (x : Tr)
  | filt (w : Nat) (x p : Tr)
  | blind (w : Nat) (x : Tr)
deriving Repr, Inhabited

namespace Tr

/-- number of columns of the node's result (`len(expr.columns)`) -/
def w : Tr → Nat
  | op w _ => w
  | proj w _ => w
  | filt w _ _ => w
  | blind w _ => w

mutual
def beq : Tr → Tr → Bool
  | op w ks, op w' ks' => w == w' && beqL ks ks'
  | proj w x, proj w' x' => w == w' && beq x x'
  | filt w x p, filt w' x' p' => w == w' && beq x x' && beq p p'
  | blind w x, blind w' x' => w == w' && beq x x'
  | _, _ => false
def beqL : List Tr → List Tr → Bool
  | [], [] => true
  | a :: t, a' :: t' => beq a a' && beqL t t'
  | _, _ => false
end

mutual
theorem beq_eq_true : ∀ a b : Tr, beq a b = true → a = b
  | op w ks, op w' ks', h => by
    simp only [beq, Bool.and_eq_true, beq_iff_eq] at h
    rw [h.1, beqL_eq_true ks ks' h.2]
  | proj w x, proj w' x', h => by
    simp only [beq, Bool.and_eq_true, beq_iff_eq] at h
    rw [h.1, beq_eq_true x x' h.2]
  | filt w x p, filt w' x' p', h => by
    simp only [beq, Bool.and_eq_true, beq_iff_eq] at h
    rw [h.1.1, beq_eq_true x x' h.1.2, beq_eq_true p p' h.2]
  | blind w x, blind w' x', h => by
    simp only [beq, Bool.and_eq_true, beq_iff_eq] at h
    rw [h.1, beq_eq_true x x' h.2]
  | op _ _, proj _ _, h => by simp [beq] at h
  | op _ _, filt _ _ _, h => by simp [beq] at h
  | op _ _, blind _ _, h => by simp [beq] at h
  | proj _ _, op _ _, h => by simp [beq] at h
  | proj _ _, filt _ _ _, h => by simp [beq] at h
  | proj _ _, blind _ _, h => by simp [beq] at h
  | filt _ _ _, op _ _, h => by simp [beq] at h
  | filt _ _ _, proj _ _, h => by simp [beq] at h
  | filt _ _ _, blind _ _, h => by simp [beq] at h
  | blind _ _, op _ _, h => by simp [beq] at h
  | blind _ _, proj _ _, h => by simp [beq] at h
  | blind _ _, filt _ _ _, h => by simp [beq] at h
theorem beqL_eq_true : ∀ a b : List Tr, beqL a b = true → a = b
  | [], [], _ => rfl
  | a :: t, a' :: t', h => by
    simp only [beqL, Bool.and_eq_true] at h
    rw [beq_eq_true a a' h.1, beqL_eq_true t t' h.2]
  | [], _ :: _, h => by simp [beqL] at h
  | _ :: _, [], h => by simp [beqL] at h
end

mutual
theorem beq_refl : ∀ a : Tr, beq a a = true
  | op w ks => by simp [beq, beqL_refl ks]
  | proj w x => by simp [beq, beq_refl x]
  | filt w x p => by simp [beq, beq_refl x, beq_refl p]
  | blind w x => by simp [beq, beq_refl x]
theorem beqL_refl : ∀ a : List Tr, beqL a a = true
  | [] => rfl
  | a :: t => by simp [beqL, beq_refl a, beqL_refl t]
end

/-- structural equality is decidable ("same `_name`", C08) -/
instance : DecidableEq Tr := fun a b =>
  if h : beq a b = true then isTrue (beq_eq_true a b h)
  else isFalse (fun e => h (e ▸ beq_refl a))

end Tr

open Tr

/-! ### the components of the measure -/

mutual
/-- operator nodes of the tree; Projection, Filter and Head-like nodes are transparent (they are the
    nodes that move), a Filter's predicate is not counted -/
def fs : Tr → Nat
  | .op _ ks => 1 + fsL ks
  | .proj _ x => fs x
  | .filt _ x _ => fs x
  | .blind _ x => fs x
def fsL : List Tr → Nat
  | [] => 0
  | k :: ks => fs k + fsL ks
end

mutual
/-- nodes of the tree, Head-like nodes not counted (they are pushed into several inputs at once) -/
def cnt : Tr → Nat
  | .op _ ks => 1 + cntL ks
  | .proj _ x => 1 + cnt x
  | .filt _ x p => 1 + cnt x + cnt p
  | .blind _ x => cnt x
def cntL : List Tr → Nat
  | [] => 0
  | k :: ks => cnt k + cntL ks
end

mutual
/-- potential of the filters: for every Filter node the operator nodes of its frame operand -/
def potF : Tr → Nat
  | .op _ ks => potFL ks
  | .proj _ x => potF x
  | .filt _ x p => fs x + potF x + potF p
  | .blind _ x => potF x
def potFL : List Tr → Nat
  | [] => 0
  | k :: ks => potF k + potFL ks
end

mutual
/-- column flow: every operator pays its own width and `width + 1` for each input, a Filter pays for its
    frame and its predicate; Projections and Head-like nodes pay nothing -/
def flow : Tr → Nat
  | .op w ks => w + flowL ks
  | .proj _ x => flow x
  | .filt _ x p => (x.w + 1) + (p.w + 1) + flow x + flow p
  | .blind _ x => flow x
def flowL : List Tr → Nat
  | [] => 0
  | k :: ks => (k.w + 1) + flow k + flowL ks
end

mutual
/-- potential of the projections: for every Projection node the nodes below it -/
def potP : Tr → Nat
  | .op _ ks => potPL ks
  | .proj _ x => cnt x + potP x
  | .filt _ x p => potP x + potP p
  | .blind _ x => potP x
def potPL : List Tr → Nat
  | [] => 0
  | k :: ks => potP k + potPL ks
end

mutual
/-- potential of the Head-like nodes: for every such node the nodes below it -/
def potB : Tr → Nat
  | .op _ ks => potBL ks
  | .proj _ x => potB x
  | .filt _ x p => potB x + potB p
  | .blind _ x => cnt x + potB x
def potBL : List Tr → Nat
  | [] => 0
  | k :: ks => potB k + potBL ks
end

/-- the measure -/
def msr (t : Tr) : Nat × Nat × Nat × Nat := (potF t, flow t, potP t, potB t)

/-- lexicographic order on the quadruples (`a` is smaller than `b`) -/
def ltQ (a b : Nat × Nat × Nat × Nat) : Bool :=
  a.1 < b.1 || (a.1 == b.1 && (a.2.1 < b.2.1 || (a.2.1 == b.2.1 &&
    (a.2.2.1 < b.2.2.1 || (a.2.2.1 == b.2.2.1 && a.2.2.2 < b.2.2.2)))))

/-- the order the theorems are about: `Prod.Lex` of `<` four times -/
def LtQ : Nat × Nat × Nat × Nat → Nat × Nat × Nat × Nat → Prop :=
  Prod.Lex (· < ·) (Prod.Lex (· < ·) (Prod.Lex (· < ·) (· < ·)))

/-! ### list relations used by the rule shapes -/

/-- (a) what a projection pushdown does to the inputs of an operator: an input is left alone, wrapped
    in a Projection that is not wider than the input, or dropped (Assign keys, `FromScalars`, Concat
    axis=1).  The flag says whether something really got smaller (a strictly narrower Projection or a
    dropped input) — without it the real rules return `None` ("don't add unnecessary Projections"). -/
inductive Nar : Bool → List Tr → List Tr → Prop
  | nil : Nar false [] []
  | same {b ks ks'} (k : Tr) : Nar b ks ks' → Nar b (k :: ks) (k :: ks')
  | wrapEq {b ks ks'} (k : Tr) (d : Nat) : d ≤ k.w → Nar b ks ks' → Nar b (k :: ks) (.proj d k :: ks')
  | wrap {b ks ks'} (k : Tr) (d : Nat) : d < k.w → Nar b ks ks' → Nar true (k :: ks) (.proj d k :: ks')
  | drop {b ks ks'} (k : Tr) : Nar b ks ks' → Nar true (k :: ks) ks'

/-- at most one input wrapped in a Projection of at most its width (a Series selected by its name) -/
inductive Wrap1 : List Tr → List Tr → Prop
  | refl (ks : List Tr) : Wrap1 ks ks
  | here (k : Tr) (d : Nat) (ks : List Tr) : d ≤ k.w → Wrap1 (k :: ks) (.proj d k :: ks)
  | there {ks ks'} (k : Tr) : Wrap1 ks ks' → Wrap1 (k :: ks) (k :: ks')

/-- (e) Head / Tail / Partitions pushed into the non-broadcast inputs of a blockwise operator -/
inductive BPush : List Tr → List Tr → Prop
  | nil : BPush [] []
  | same {ks ks'} (k : Tr) : BPush ks ks' → BPush (k :: ks) (k :: ks')
  | push {ks ks'} (k : Tr) (wk : Nat) : wk ≤ k.w → BPush ks ks' → BPush (k :: ks) (.blind wk k :: ks')

/-- (b) the predicate of a filter that crosses the operator `o` into its input `x`:
    `predicate.substitute(o, x)`, `substitute(Projection(o, name), x)` (ToFrame, ResetIndex of a Series),
    `substitute(Projection(o, name), Index(x))` (ResetIndex), at any number of places (also none:
    AsType keeps the predicate on the cast frame); everything else is rebuilt as it was (widths of rebuilt
    nodes may change).  Lists of operands are related by peeling (`opNil` / `opCons`). -/
inductive PSub (o x : Tr) : Tr → Tr → Prop
  | refl (t : Tr) : PSub o x t t
  | self : PSub o x o x
  | projSelf (c : Nat) : PSub o x (.proj c o) x
  | projProj (c c' : Nat) : PSub o x (.proj c o) (.proj c' x)
  | proj {t t'} (c c' : Nat) : PSub o x t t' → PSub o x (.proj c t) (.proj c' t')
  | filt {a a' p p'} (w w' : Nat) : PSub o x a a' → PSub o x p p' → PSub o x (.filt w a p) (.filt w' a' p')
  | blind {t t'} (w w' : Nat) : PSub o x t t' → PSub o x (.blind w t) (.blind w' t')
  | opNil (w w' : Nat) : PSub o x (.op w []) (.op w' [])
  | opCons {k k' ks ks'} (w w' : Nat) : PSub o x k k' → PSub o x (.op w ks) (.op w' ks') →
      PSub o x (.op w (k :: ks)) (.op w' (k' :: ks'))

/-- (b) the inputs of the operator `o` after a Filter with predicate `p` crossed it: `c` inputs got their own
    Filter (Merge: one side, or both sides when the predicate only reads the join keys); `s` is the filter
    potential of the `c` substituted copies of the predicate -/
inductive FPush (o p : Tr) : Nat → Nat → List Tr → List Tr → Prop
  | nil : FPush o p 0 0 [] []
  | same {c s ks ks'} (k : Tr) : FPush o p c s ks ks' → FPush o p c s (k :: ks) (k :: ks')
  | push {c s ks ks'} (k : Tr) (wk : Nat) (pk : Tr) : wk ≤ k.w → PSub o k p pk → FPush o p c s ks ks' →
      FPush o p (c + 1) (s + potF pk) (k :: ks) (.filt wk k pk :: ks')

/-- an operand that did or did not receive a Head-like node -/
def MaybeBlind (t t' : Tr) : Prop := t' = t ∨ ∃ wb, wb ≤ t.w ∧ t' = .blind wb t

/-! ### the rewrite relation: one rule firing somewhere in the tree -/

inductive Step : Tr → Tr → Prop
  /- (a) projections move down -/
  /-- an operator puts (narrower) Projections on its inputs / drops inputs; its parent is untouched.
      `Projection(Op(x))` → `Projection(Op'(x[cols]))` (`keep = true` of Cols.Rw) is this shape below a `proj`;
      `GroupbyAggregation._simplify_down` is this shape without a Projection parent -/
  | narrow {w w' ks ks'} : Nar true ks ks' → w' ≤ w → Step (.op w ks) (.op w' ks')
  /-- … and the parent Projection is dropped (`keep = false`) -/
  | projThrough {c w w' ks ks'} : Nar true ks ks' → w' ≤ c → w' ≤ w → Step (.proj c (.op w ks)) (.op w' ks')
  /-- a Projection that does not narrow (a Series selected by its name, a Projection absorbed by the operator:
      IO `columns`, `ResetIndex(drop=True)`) sinks below the operator or vanishes in it -/
  | projSink {c w w' ks ks'} : Wrap1 ks ks' → w' ≤ c → w' ≤ w → Step (.proj c (.op w ks)) (.op w' ks')
  /-- an IO node reads fewer columns (parent Projection kept: this shape below a `proj`) -/
  | leafNarrow {w w'} : w' < w → Step (.op w []) (.op w' [])
  /-- `Filter._simplify_up(Projection)`: the frame of the Filter is narrowed, the predicate operand is not touched -/
  | projFilterKeep {w w' d x p} : d < x.w → w' ≤ w → Step (.filt w x p) (.filt w' (.proj d x) p)
  | projFilter {c w w' d x p} : d ≤ x.w → w' ≤ c → Step (.proj c (.filt w x p)) (.filt w' (.proj d x) p)
  /- (c), (d) squashing and removal -/
  | projSquash {c d x} : Step (.proj c (.proj d x)) (.proj c x)
  | projId {c x} : x.w ≤ c → Step (.proj c x) x
  /-- an operator absorbs an operand that is an operator (Assign/Assign, RenameFrame, Repartition; a Shuffle
      below a reduction is dropped): the operand's inputs (or some of them) take its place -/
  | opSquash {w1 w1' w2 pre post ks2 ks2'} : List.Sublist ks2' ks2 → w1' ≤ w1 →
      Step (.op w1 (pre ++ .op w2 ks2 :: post)) (.op w1' (pre ++ ks2' ++ post))
  /-- an operator is replaced by one of its operands (Assign/AsType with nothing left to do,
      `Repartition(Head(x), 1)` → `Head(x)`) -/
  | unwrap {w ks k} : k ∈ ks → k.w ≤ w → Step (.op w ks) k
  /- (b) filters move down -/
  /-- `Filter(Op(xs), p)` → `Op(…, Filter(x, p[Op(xs) := x]), …)`.  With one copy of the predicate nothing else is asked;
      with two (both join inputs) the copies together must not carry more filter potential than the predicate did
      (true when the predicate's own Filter nodes all sit inside the substituted operator, e.g. any predicate built
      from the joined frame; without this the potential of nested filters could be doubled) -/
  | filtPush {w wo wo' ks ks' p c s} : FPush (.op wo ks) p c s ks ks' → 0 < c → (c ≤ 1 ∨ s ≤ potF p) → wo' ≤ w →
      Step (.filt w (.op wo ks) p) (.op wo' ks')
  /-- Filter/Filter: `self.frame[self.predicate & parent.predicate.substitute(self, self.frame)]` -/
  | filtSquash {w w' w2 wa x p q q'} : PSub (.filt w2 x p) x q q' → w' ≤ w →
      Step (.filt w (.filt w2 x p) q) (.filt w' x (.op wa [p, q']))
  /-- parquet: the predicate becomes the reader's `filters` operand -/
  | filtAbsorb {w wo wo' p} : wo' ≤ w → Step (.filt w (.op wo []) p) (.op wo' [])
  /- (e) Head / Tail / Partitions / Len / Lengths -/
  /-- also with no input receiving the node: `Partitions` absorbed by `_partitions`, `Head(SortValues)` → `NFirst`,
      `Len(IO)` → `Literal` -/
  | blindPush {w wo wo' ks ks'} : BPush ks ks' → wo' ≤ w → wo' ≤ wo → Step (.blind w (.op wo ks)) (.op wo' ks')
  | blindProj {w c c' wb x} : c' ≤ w → Step (.blind w (.proj c x)) (.proj c' (.blind wb x))
  | blindFilt {w wf wf' x x' p p'} : MaybeBlind x x' → MaybeBlind p p' → wf' ≤ w →
      Step (.blind w (.filt wf x p)) (.filt wf' x' p')
  | blindSquash {w w' w2 x} : w' ≤ w → Step (.blind w (.blind w2 x)) (.blind w' x)
  /-- `Len(Elemwise(x, …))` → `Len(x)`, `Lengths` likewise, `Len(Shuffle(x))` → `Len(x)` -/
  | lenPassOp {w w' wo ks k} : k ∈ ks → w' ≤ w → Step (.blind w (.op wo ks)) (.blind w' k)
  | lenPassProj {w w' c x} : w' ≤ w → Step (.blind w (.proj c x)) (.blind w' x)
  /- the rule fires anywhere in the tree -/
  | opKid {w pre post t t'} : Step t t' → Step (.op w (pre ++ t :: post)) (.op w (pre ++ t' :: post))
  | projKid {c t t'} : Step t t' → Step (.proj c t) (.proj c t')
  | filtFrame {w p t t'} : Step t t' → Step (.filt w t p) (.filt w t' p)
  | filtPred {w x t t'} : Step t t' → Step (.filt w x t) (.filt w x t')
  | blindKid {w t t'} : Step t t' → Step (.blind w t) (.blind w t')

/-- what every step does to the components (the induction invariant of the termination proof):
    the result is not wider, has no more operator nodes, and the measure decreases lexicographically —
    with `cnt` not growing once the first two components are unchanged (it feeds `potP`/`potB` of the context) -/
structure Good (t t' : Tr) : Prop where
  w_le : t'.w ≤ t.w
  fs_le : fs t' ≤ fs t
  dec : potF t' < potF t ∨ (potF t' ≤ potF t ∧ flow t' < flow t) ∨
        (potF t' ≤ potF t ∧ flow t' ≤ flow t ∧ cnt t' ≤ cnt t ∧
          (potP t' < potP t ∨ (potP t' ≤ potP t ∧ potB t' < potB t)))


/-! ### executable recogniser of the rule shapes (what the driver answers for a traced firing)

  `stepB before after = true → Step before after` is proven (Lemmas/SimplifyMeasure.lean); the recogniser is
  greedy (not complete): the rule is looked for at the root and below exactly one changed operand. -/

/-- `Nar`: `some b` when related with strictness flag `b` -/
def narB : List Tr → List Tr → Option Bool
  | [], [] => some false
  | [], _ :: _ => none
  | _ :: ks, [] => (narB ks []).map (fun _ => true)
  | k :: ks, k' :: rest =>
    if k' = k then narB ks rest
    else match k' with
      | .proj d y =>
        if y = k ∧ d ≤ k.w then (narB ks rest).map (fun b => b || decide (d < k.w))
        else (narB ks (k' :: rest)).map (fun _ => true)
      | _ => (narB ks (k' :: rest)).map (fun _ => true)

def wrap1B : List Tr → List Tr → Bool
  | [], [] => true
  | k :: ks, k' :: ks' =>
    if k' = k then wrap1B ks ks'
    else match k' with
      | .proj d y => decide (y = k ∧ d ≤ k.w ∧ ks' = ks)
      | _ => false
  | _, _ => false

def bpushB : List Tr → List Tr → Bool
  | [], [] => true
  | k :: ks, k' :: ks' =>
    (decide (k' = k) || (match k' with
      | .blind wk y => decide (y = k ∧ wk ≤ k.w)
      | _ => false)) && bpushB ks ks'
  | _, _ => false

/-- is `t` a Projection of `o` -/
def isProjOf (o : Tr) : Tr → Bool
  | .proj _ y => decide (y = o)
  | _ => false

mutual
def psubB (o x : Tr) : Tr → Tr → Bool
  | t, t' =>
    decide (t = t') || decide (t = o ∧ t' = x) || (isProjOf o t && (decide (t' = x) || isProjOf x t')) ||
    (match t, t' with
      | .op _ ks, .op _ ks' => psubLB o x ks ks'
      | .proj _ a, .proj _ a' => psubB o x a a'
      | .filt _ a p, .filt _ a' p' => psubB o x a a' && psubB o x p p'
      | .blind _ a, .blind _ a' => psubB o x a a'
      | _, _ => false)
def psubLB (o x : Tr) : List Tr → List Tr → Bool
  | [], [] => true
  | k :: ks, k' :: ks' => psubB o x k k' && psubLB o x ks ks'
  | _, _ => false
end

/-- `FPush`: number of inputs that received the filter, filter potential of their predicates -/
def fpushB (o p : Tr) : List Tr → List Tr → Option (Nat × Nat)
  | [], [] => some (0, 0)
  | k :: ks, k' :: ks' =>
    if k' = k then fpushB o p ks ks'
    else match k' with
      | .filt wk y pk =>
        if y = k ∧ wk ≤ k.w ∧ psubB o k p pk = true then
          (fpushB o p ks ks').map (fun (cs : Nat × Nat) => (cs.1 + 1, cs.2 + potF pk))
        else none
      | _ => none
  | _, _ => none

def maybeBlindB (t t' : Tr) : Bool :=
  decide (t' = t) || (match t' with
    | .blind wb y => decide (y = t ∧ wb ≤ t.w)
    | _ => false)

/-- `opSquash` at some position of the operand list -/
def squashAt : List Tr → List Tr → Bool
  | [], _ => false
  | k :: post, l' =>
    (match k with
      | .op _ ks2 =>
        decide (post.length ≤ l'.length ∧ l'.drop (l'.length - post.length) = post) &&
        (l'.take (l'.length - post.length)).isSublist ks2
      | _ => false) ||
    (match l' with
      | k' :: rest' => decide (k' = k) && squashAt post rest'
      | [] => false)

/-- names of the rule shapes -/
inductive Rule where
  | narrow | projThrough | projSink | leafNarrow | projFilterKeep | projFilter | projSquash | projId
  | opSquash | unwrap | filtPush | filtSquash | filtAbsorb | blindPush | blindProj | blindFilt
  | blindSquash | lenPass
deriving DecidableEq, Repr

/-- the rule shape that rewrites `t` to `t'` at the root, if one does -/
def rootRule (t t' : Tr) : Option Rule :=
  match t, t' with
  | .op w ks, .op w' ks' =>
    if narB ks ks' = some true ∧ w' ≤ w then some .narrow
    else if ks = [] ∧ ks' = [] ∧ w' < w then some .leafNarrow
    else if w' ≤ w ∧ squashAt ks ks' = true then some .opSquash
    else if t' ∈ ks ∧ w' ≤ w then some .unwrap
    else none
  | .op w ks, _ => if t' ∈ ks ∧ t'.w ≤ w then some .unwrap else none
  | .proj c (.op w ks), .op w' ks' =>
    if narB ks ks' = some true ∧ w' ≤ c ∧ w' ≤ w then some .projThrough
    else if wrap1B ks ks' = true ∧ w' ≤ c ∧ w' ≤ w then some .projSink
    else if t' = .op w ks ∧ w ≤ c then some .projId
    else none
  | .proj c (.filt w x p), .filt w' (.proj d x') p' =>
    if x' = x ∧ p' = p ∧ d ≤ x.w ∧ w' ≤ c then some .projFilter
    else if t' = .filt w x p ∧ w ≤ c then some .projId
    else none
  | .proj c (.proj d x), .proj c' x' =>
    if c' = c ∧ x' = x then some .projSquash
    else if t' = .proj d x ∧ d ≤ c then some .projId
    else none
  | .proj c x, _ => if t' = x ∧ x.w ≤ c then some .projId else none
  | .filt w (.op wo ks) p, .op wo' ks' =>
    match fpushB (.op wo ks) p ks ks' with
    | some (n, s) => if 0 < n ∧ (n ≤ 1 ∨ s ≤ potF p) ∧ wo' ≤ w then some .filtPush
                else if ks = [] ∧ ks' = [] ∧ wo' ≤ w then some .filtAbsorb else none
    | none => none
  | .filt w (.filt w2 x p) q, .filt w' x' (.op _ [p', q']) =>
    if x' = x ∧ p' = p ∧ psubB (.filt w2 x p) x q q' = true ∧ w' ≤ w then some .filtSquash else none
  | .filt w x p, .filt w' (.proj d x') p' =>
    if x' = x ∧ p' = p ∧ d < x.w ∧ w' ≤ w then some .projFilterKeep else none
  | .blind w (.op wo ks), .op wo' ks' =>
    if bpushB ks ks' = true ∧ wo' ≤ w ∧ wo' ≤ wo then some .blindPush else none
  | .blind w (.op _ ks), .blind w' k => if k ∈ ks ∧ w' ≤ w then some .lenPass else none
  | .blind w (.proj _ x), .proj c' (.blind _ x') => if x' = x ∧ c' ≤ w then some .blindProj else none
  | .blind w (.proj _ x), .blind w' x' => if x' = x ∧ w' ≤ w then some .lenPass else none
  | .blind w (.filt _ x p), .filt wf' x' p' =>
    if maybeBlindB x x' = true ∧ maybeBlindB p p' = true ∧ wf' ≤ w then some .blindFilt else none
  | .blind w (.blind _ x), .blind w' x' => if x' = x ∧ w' ≤ w then some .blindSquash else none
  | _, _ => none

mutual
/-- a rule shape at the root, or below exactly one changed operand of an unchanged node -/
def stepB : Tr → Tr → Bool
  | t, t' =>
    (rootRule t t').isSome ||
    (match t, t' with
      | .op w ks, .op w' ks' => decide (w = w') && stepLB ks ks'
      | .proj c x, .proj c' x' => decide (c = c') && stepB x x'
      | .filt w x p, .filt w' x' p' =>
        decide (w = w') && ((decide (p = p') && stepB x x') || (decide (x = x') && stepB p p'))
      | .blind w x, .blind w' x' => decide (w = w') && stepB x x'
      | _, _ => false)
def stepLB : List Tr → List Tr → Bool
  | k :: ks, k' :: ks' => if k = k' then stepLB ks ks' else stepB k k' && decide (ks = ks')
  | _, _ => false
end

/-- (informational, not a rule shape) an operator wraps inputs in Projections none of which is narrower than
    the input, at the root or one level below: a redundant firing — `Projection._simplify_down` removes the
    Projection again (identity) or squashes it into the one below -/
def noopInsertB (t t' : Tr) : Bool :=
  match t, t' with
  | .op w ks, .op w' ks' => decide (w = w') && decide (ks ≠ ks') && narB ks ks' == some false
  | .proj c (.op w ks), .proj c' (.op w' ks') =>
    decide (c = c' ∧ w = w') && decide (ks ≠ ks') && narB ks ks' == some false
  | _, _ => false

mutual
/-- the rule that fired and how deep below the root (informational: the driver reports it) -/
def stepWhy : Tr → Tr → Option (Rule × Nat)
  | t, t' =>
    match rootRule t t' with
    | some r => some (r, 0)
    | none =>
      (match t, t' with
        | .op w ks, .op w' ks' => if w = w' then stepWhyL ks ks' else none
        | .proj c x, .proj c' x' => if c = c' then stepWhy x x' else none
        | .filt w x p, .filt w' x' p' =>
          if w = w' then (if p = p' then stepWhy x x' else if x = x' then stepWhy p p' else none) else none
        | .blind w x, .blind w' x' => if w = w' then stepWhy x x' else none
        | _, _ => none).map (fun (rd : Rule × Nat) => (rd.1, rd.2 + 1))
def stepWhyL : List Tr → List Tr → Option (Rule × Nat)
  | k :: ks, k' :: ks' => if k = k' then stepWhyL ks ks' else if ks = ks' then stepWhy k k' else none
  | _, _ => none
end

end Dx.SM
