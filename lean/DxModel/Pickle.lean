/-
  Pickle.lean — serialization of expressions: `Expr.__reduce__` (dask_expr/_core.py),
  `FrameBase.__reduce__` (_collection.py), `_BackendData.__reduce__` (_util.py).

  Mathlib-free (the driver executable links against this file).

      Expr.__reduce__         = (type(self), tuple(self.operands))      # pickle recurses into operands
      FrameBase.__reduce__    = (new_collection, (self._expr,))
      _BackendData.__reduce__ = (type(self), (self._data,))              # the `_division_info` LRU is NOT shipped

  so the receiving process rebuilds every node by calling its class on the rebuilt operands
  (through `Expr.__new__`, i.e. through that process's `_instances` table) and every `_BackendData`
  wrapper with an *empty* cache.  Everything else a process knows about an expression
  (`divisions_lru`, `mem_usages_lru`, parquet plan/statistics caches, cached properties) stays behind.
-/
import DxModel.Names
import DxModel.Cache
namespace Dx.Pickle
open Dx.Names

mutual
/-- expressions as they live in a process: like `Names.E`, plus the per-object cache of source frames -/
inductive PE where
  | node (cls : Nat) (ops : List POp)
inductive POp where
  | lit (t : Nat)
  | sub (e : PE)
  | seq (l : List POp)
  /-- `_BackendData(data)` together with the current contents of its `_division_info` LRU -/
  | backend (data : Nat) (cache : List (Nat × Nat))
end

/-- the pickle stream (what `__reduce__` returns, recursively) -/
inductive Pk where
  | lit (t : Nat)
  | seq (l : List Pk)
  | call (cls : Nat) (args : List Pk)      -- `(type(self), tuple(self.operands))`
  | backendCall (data : Nat)               -- `(_BackendData, (self._data,))`
  | coll (e : Pk)                          -- `(new_collection, (expr,))`

mutual
def reduce : PE → Pk
  | .node c ops => .call c (reduceOps ops)
def reduceO : POp → Pk
  | .lit t => .lit t
  | .sub e => reduce e
  | .seq l => .seq (reduceOps l)
  | .backend d _ => .backendCall d
def reduceOps : List POp → List Pk
  | [] => []
  | o :: os => reduceO o :: reduceOps os
end

/-- `FrameBase.__reduce__` -/
def reduceColl (e : PE) : Pk := .coll (reduce e)

mutual
/-- unpickling in a fresh process -/
def reconstruct : Pk → POp
  | .lit t => .lit t
  | .seq l => .seq (reconstructs l)
  | .call c args => .sub (.node c (reconstructs args))
  | .backendCall d => .backend d []
  | .coll e => reconstruct e
def reconstructs : List Pk → List POp
  | [] => []
  | p :: ps => reconstruct p :: reconstructs ps
end

mutual
/-- the same expression with every per-object cache emptied -/
def cold : PE → PE
  | .node c ops => .node c (coldOps ops)
def coldO : POp → POp
  | .lit t => .lit t
  | .sub e => .sub (cold e)
  | .seq l => .seq (coldOps l)
  | .backend d _ => .backend d []
def coldOps : List POp → List POp
  | [] => []
  | o :: os => coldO o :: coldOps os
end

mutual
/-- the tree that names see: a `_BackendData` wrapper is tokenized as its data
    (`normalize_data_wrapper` returns `data._token`) -/
def toE : PE → E Nat
  | .node c ops => .node c (toOps ops)
def toO : POp → Operand Nat
  | .lit t => .lit t
  | .sub e => .sub (toE e)
  | .seq l => .seq (toOps l)
  | .backend d _ => .lit d
def toOps : List POp → List (Operand Nat)
  | [] => []
  | o :: os => toO o :: toOps os
end

end Dx.Pickle
