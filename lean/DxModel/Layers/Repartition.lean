/-
  Layers/Repartition.lean — transliteration of dask_expr/_repartition.py:
    RepartitionToFewer (_partitions_boundaries is a parameter, _layer, _divisions),
    _clean_new_division_boundaries, RepartitionToMore (_nsplits, _layer),
    RepartitionDivisions._layer (the boundary-slicing loop, both phases, every guard),
    RepartitionSize._layer (nsplits / boundaries are parameters), Repartition._lower dispatch.
  Definitions only, Mathlib-free.

  NOT modelled (float / pandas logic; their results enter as parameters and are checked against the
  theorems' hypotheses by the harness, "T3"):
    * `int(new_partition_index * npartitions_ratio)`       (RepartitionToFewer._partitions_boundaries)
    * `np.interp` interpolation of divisions               (Repartition._lower, new_partitions > npartitions, known numeric divisions)
    * memory-usage measurement and `iter_chunks`           (RepartitionSize._nsplits/_partition_boundaries)
    * `pd.date_range` arithmetic                           (RepartitionFreq._divisions)
-/
import DxModel.Graph
namespace Dx.Repartition
open Dx

/-- Keys of the repartition layers. -/
inductive Key where
  | dep (i : Nat)      -- (frame._name, i)
  | out (j : Nat)      -- (self._name, j)
  | split (i : Nat)    -- ("split-"+self._name, i) (ToMore) / ("split-"+tokenize(df,nsplits), i) (Size)
  | piece (k : Nat)    -- ("repartition-split-"+token, k) (Divisions) / ("repartition-split-{size}-"+tokenize(df), j) (Size)
deriving DecidableEq, Repr

/-- inputs of the layer: the partitions of the frame being repartitioned -/
def inputs (parts : Nat → List Row) : Key → Option V
  | .dep i => some (.frame (parts i))
  | _ => none

/-- Python exceptions the planner code can raise (plus the two totality artefacts of the model). -/
inductive PErr where
  | value       -- ValueError (the guards of RepartitionDivisions._layer, Repartition._lower)
  | index       -- IndexError: list index out of range
  | key         -- KeyError: d[(out1, k - 1)] with no piece emitted
  | notImpl     -- NotImplementedError
  | fuel        -- model artefact: loop fuel exhausted (never happens: fuel = |a|+|b|+1, see `planner`)
  | badInput    -- model artefact: `frame.divisions` shorter than 2 (no expression has such divisions)
deriving DecidableEq, Repr

/-! ### `_clean_new_division_boundaries` -/

def cleanBoundaries (bs : List Nat) (n : Nat) : Except PErr (List Nat) :=
  match bs with
  | [] => .error .index                                 -- new_partitions_boundaries[0]
  | b0 :: _ =>
    let bs1 := if b0 > 0 then 0 :: bs else bs           -- .insert(0, 0)
    match bs1.getLast? with
    | some l => if l < n then .ok (bs1.dropLast ++ [n]) else .ok bs1     -- [-1] = frame_npartitions
    | none => .error .index

/-! ### RepartitionToFewer -/

/-- `_layer`: `{(name, i): (_concat, [(frame, j) for j in range(start, end)]) for i, (start, end) in enumerate(zip(bs, bs[1:]))}` -/
def fewerTask (bs : List Nat) : Graph Key
  | .out i => match bs[i]?, bs[i+1]? with
      | some s, some e => some (.concat ((List.range' s (e - s)).map Key.dep) false)
      | _, _ => none
  | _ => none

def fewerKeys (bs : List Nat) : List Key := (List.range (bs.length - 1)).map Key.out

/-- `_divisions`: `tuple(self.frame.divisions[i] for i in boundaries)`; `none` = IndexError -/
def fewerDivisions (din : List Int) : List Nat → Option (List Int)
  | [] => some []
  | i :: t => match din[i]?, fewerDivisions din t with
      | some d, some r => some (d :: r)
      | _, _ => none

def mono : List Nat → Bool
  | a :: b :: t => decide (a ≤ b) && mono (b :: t)
  | _ => true

def strictMono : List Nat → Bool
  | a :: b :: t => decide (a < b) && strictMono (b :: t)
  | _ => true

/-- hypothesis of `C13_fewer` about the (float-computed) boundary list: starts at 0, ends at `nin`, monotone -/
def boundariesOK (bs : List Nat) (nin : Nat) : Bool :=
  bs.head? == some 0 && bs.getLast? == some nin && mono bs

/-- what output `j` of a boundary-merging layer must contain -/
def fewerSem (bs : List Nat) (parts : Nat → List Row) (j : Nat) : List Row :=
  match bs[j]?, bs[j+1]? with
  | some s, some e => (List.range' s (e - s)).flatMap parts
  | _, _ => []

/-! ### RepartitionToMore -/

/-- `_nsplits`: `div, mod = divmod(new, n); [div]*n; nsplits[-1] += mod`
    (`n = 0`: ZeroDivisionError in the code; no frame has 0 partitions — rendered as IndexError-free `[]`
    would hide it, so the model returns an error) -/
def nsplits (nout nin : Nat) : Except PErr (List Nat) :=
  if nin = 0 then .error .badInput
  else .ok (List.replicate (nin - 1) (nout / nin) ++ [nout / nin + nout % nin])

/-- position of output `j` in the running enumeration `for i, k in enumerate(nsplits): … j += 1`:
    `(i, jj, k)` = input partition, piece number, number of pieces of that input -/
def locate : List Nat → Nat → Nat → Option (Nat × Nat × Nat)
  | [], _, _ => none
  | k :: ks, i, j => if j < k then some (i, j, k) else locate ks (i+1) (j - k)

def moreTask (ns : List Nat) : Graph Key
  | .out j => match locate ns 0 j with
      | some (i, jj, k) => if k = 1 then some (.alias (.dep i)) else some (.pieceOf (.split i) jj)
      | none => none
  | .split i => match ns[i]? with
      | some k => if k = 1 then none else some (.splitEvenly (.dep i) k)
      | none => none
  | _ => none

/-- keys in dict insertion order -/
def moreKeysFrom : List Nat → Nat → Nat → List Key
  | [], _, _ => []
  | k :: ks, i, j =>
    (if k = 1 then [Key.out j] else Key.split i :: (List.range k).map (fun jj => Key.out (j + jj)))
      ++ moreKeysFrom ks (i+1) (j + k)

def moreKeys (ns : List Nat) : List Key := moreKeysFrom ns 0 0

/-- piece `jj` of `split_evenly(rows, k)` -/
def evenPiece (rows : List Row) (k jj : Nat) : List Row :=
  (rows.drop (rows.length * jj / k)).take (rows.length * (jj+1) / k - rows.length * jj / k)

/-- what output `j` of the splitting layer must contain (`i0` = number of the first input of `ns`) -/
def moreSemFrom (ns : List Nat) (i0 : Nat) (parts : Nat → List Row) (j : Nat) : List Row :=
  match locate ns i0 j with
  | some (i, jj, k) => evenPiece (parts i) k jj
  | none => []

def moreSem (ns : List Nat) (parts : Nat → List Row) (j : Nat) : List Row := moreSemFrom ns 0 parts j

def sum : List Nat → Nat
  | [] => 0
  | k :: ks => k + sum ks

/-! ### RepartitionSize._layer (nsplits and boundaries are parameters) -/

def anySplit (ns : List Nat) : Bool := ns.any (fun k => decide (k > 1))

def sizeTask (ns bs : List Nat) : Graph Key
  | .out i => match bs[i]?, bs[i+1]? with
      | some s, some e =>
          some (.concat ((List.range' s (e - s)).map (if anySplit ns then Key.piece else Key.dep)) false)
      | _, _ => none
  | .piece j => if anySplit ns then
        (match locate ns 0 j with
          | some (i, jj, k) => if k = 1 then some (.alias (.dep i)) else some (.pieceOf (.split i) jj)
          | none => none)
      else none
  | .split i => if anySplit ns then
        (match ns[i]? with
          | some k => if k = 1 then none else some (.splitEvenly (.dep i) k)
          | none => none)
      else none
  | _ => none

def sizeKeysFrom : List Nat → Nat → Nat → List Key
  | [], _, _ => []
  | k :: ks, i, j =>
    (if k = 1 then [Key.piece j] else Key.split i :: (List.range k).map (fun jj => Key.piece (j + jj)))
      ++ sizeKeysFrom ks (i+1) (j + k)

def sizeKeys (ns bs : List Nat) : List Key :=
  (if anySplit ns then sizeKeysFrom ns 0 0 else []) ++ (List.range (bs.length - 1)).map Key.out

/-- the partitions the final concat of RepartitionSize reads -/
def sizeMid (ns : List Nat) (parts : Nat → List Row) : Nat → List Row :=
  if anySplit ns then moreSem ns parts else parts

/-! ### RepartitionDivisions._layer -/

/-- `(methods.boundary_slice, (name, i), lo, hi, incl)` -/
structure Slice where
  i : Nat
  lo : Int
  hi : Int
  incl : Bool
deriving DecidableEq, Repr

/-- the dict `d` at the end of `_layer`: `pieces[k]` = `d[(out1, k)]`, `outs[j]` = the list `tmp` behind
    `d[(out2, j)]` (0 entries: dummy slice, 1: alias, more: `methods.concat`) -/
structure DivState where
  pieces : List Slice
  outs : List (List Nat)
  a0 : Int
deriving Repr

/-- `_is_single_last_div`: `len(x) >= 2 and x[-1] == x[-2]` -/
def isSingleLastDiv (x : List Int) : Bool :=
  match x.reverse with
  | l :: l2 :: _ => l == l2
  | _ => false

/-- `(x[-2], x[-1])` -/
def last2 (x : List Int) : Option (Int × Int) :=
  match x.reverse with
  | l :: l2 :: _ => some (l2, l)
  | _ => none

/-- loop state of the first `while` (`k` is `pieces.length`, `len(c) = k + 1`) -/
structure P1 where
  i : Nat
  j : Nat
  low : Int
  c : List Int
  pieces : List Slice
deriving Repr

/-- `len(a) == i + 1 or a[i] < a[i + 1]` (given `i < len(a)`, `ai = a[i]`) -/
def advJ (a : List Int) (i : Nat) (ai : Int) : Bool :=
  match a[i + 1]? with
  | none => true
  | some an => decide (ai < an)

/-- `while i < len(a) and j < len(b): …` — the loop exits exactly when one of the two look-ups fails -/
def phase1 (a b : List Int) : Nat → P1 → Except PErr P1
  | 0, _ => .error .fuel
  | fuel+1, s =>
    match a[s.i]?, b[s.j]? with
    | some ai, some bj =>
      if ai < bj then
        phase1 a b fuel { i := s.i + 1, j := s.j, low := ai, c := s.c ++ [ai],
                          pieces := s.pieces ++ [⟨s.i - 1, s.low, ai, false⟩] }
      else if ai > bj then
        phase1 a b fuel { i := s.i, j := s.j + 1, low := bj, c := s.c ++ [bj],
                          pieces := s.pieces ++ [⟨s.i - 1, s.low, bj, false⟩] }
      else
        -- `if len(a) == i + 1 or a[i] < a[i + 1]: j += 1`
        phase1 a b fuel { i := s.i + 1, j := if advJ a s.i ai = true then s.j + 1 else s.j, low := bj, c := s.c ++ [bj],
                          pieces := s.pieces ++ [⟨s.i - 1, s.low, bj, false⟩] }
    | _, _ => .ok s

/-- `for _j in range(j, len(b)): d[(out1,k)] = (boundary_slice, (name, len(a)-2), low, b[_j], False); low = b[_j]; c.append(low); k += 1` -/
def tailFor (m : Nat) : List Int → Int → List Int → List Slice → List Int × List Slice
  | [], _, c, pieces => (c, pieces)
  | bj :: rest, low, c, pieces => tailFor m rest bj (c ++ [bj]) (pieces ++ [⟨m, low, bj, false⟩])

/-- `d[(out1, k - 1)] = d[(out1, k - 1)][:-1] + (True,)` -/
def setLastIncl (pieces : List Slice) : Except PErr (List Slice) :=
  match pieces.getLast? with
  | none => .error .key
  | some p => .ok (pieces.dropLast ++ [{ p with incl := true }])

/-- `while c[i] < b[j]: tmp.append((out1, i)); i += 1` -/
def inner1 (c : List Int) (bj : Int) : Nat → Nat → List Nat → Except PErr (Nat × List Nat)
  | 0, _, _ => .error .fuel
  | f+1, i, tmp =>
    match c[i]? with
    | none => .error .index
    | some ci => if ci < bj then inner1 c bj f (i+1) (tmp ++ [i]) else .ok (i, tmp)

/-- `while last_elem and c[i] == b[-1] and (b[-1] != b[-2] or j == len(b) - 1) and i < k: …`
    (called only when `last_elem`; `cond` is the third conjunct) -/
def inner2 (c : List Int) (bn : Int) (cond : Bool) (k : Nat) : Nat → Nat → List Nat → Except PErr (Nat × List Nat)
  | 0, _, _ => .error .fuel
  | f+1, i, tmp =>
    match c[i]? with
    | none => .error .index
    | some ci =>
      if ci == bn && cond && decide (i < k) then inner2 c bn cond k f (i+1) (tmp ++ [i]) else .ok (i, tmp)

/-- second `while j < len(b)` (recursion over `b[j:]`).  The `raise ValueError("check for duplicate
    partitions…")` inside the `else` branch of the code is unreachable (`len(tmp) >= 2` there). -/
def phase2 (c : List Int) (k : Nat) (lastElem : Bool) (bp bn : Int) (blen : Nat) :
    List Int → Nat → Nat → List (List Nat) → Except PErr (List (List Nat))
  | [], _, _, outs => .ok outs
  | bj :: rest, j, i, outs =>
    match inner1 c bj (c.length + 1) i [] with
    | .error e => .error e
    | .ok (i1, tmp1) =>
      match (if lastElem then inner2 c bn (bn != bp || j == blen - 1) k (k + 1) i1 tmp1 else .ok (i1, tmp1)) with
      | .error e => .error e
      | .ok (i2, tmp2) => phase2 c k lastElem bp bn blen rest (j+1) i2 (outs ++ [tmp2])

/-- the guards at the top of `_layer` -/
def guardFails (force : Bool) (a0 an b0 bn : Int) : Bool :=
  if force then decide (a0 < b0) || decide (an > bn) else (a0 != b0) || (an != bn)

def planner (a b : List Int) (force : Bool) : Except PErr DivState :=
  if b.length < 2 then .error .value else            -- "New division must be longer than 2 elements"
  if a.length < 2 then .error .badInput else
  match a.head?, a.getLast?, b.head?, last2 b with
  | some a0, some an, some b0, some (bp, bn) =>
    if guardFails force a0 an b0 bn then .error .value else
    match phase1 a b (a.length + b.length + 1) ⟨1, 1, a0, [a0], []⟩ with
    | .error e => .error e
    | .ok s1 =>
      let cp : List Int × List Slice :=
        if decide (an < bn) || bn == bp then
          tailFor (a.length - 2) (b.drop s1.j) s1.low s1.c s1.pieces
        else
          -- `if last_elem and i < len(a): d[(out1,k)] = (boundary_slice,(name,i-1),a[i],a[i],False); k += 1`
          let pieces := if isSingleLastDiv a then
              (match a[s1.i]? with
                | some ai => s1.pieces ++ [⟨s1.i - 1, ai, ai, false⟩]
                | none => s1.pieces)
            else s1.pieces
          (s1.c ++ [an], pieces)
      match setLastIncl cp.2 with
      | .error e => .error e
      | .ok pieces =>
        match phase2 cp.1 pieces.length (isSingleLastDiv cp.1) bp bn b.length (b.drop 1) 1 0 [] with
        | .error e => .error e
        | .ok outs => .ok { pieces := pieces, outs := outs, a0 := a0 }
  | _, _, _, _ => .error .badInput

def divTask (st : DivState) : Graph Key
  | .piece k => match st.pieces[k]? with
      | some s => some (.boundarySlice (.dep s.i) s.lo s.hi s.incl)
      | none => none
  | .out j => match st.outs[j]? with
      | some [] => some (.boundarySlice (.dep 0) st.a0 st.a0 false)     -- dummy slice: empty frame
      | some [k] => some (.alias (.piece k))
      | some tmp => some (.concat (tmp.map Key.piece) false)
      | none => none
  | _ => none

def divKeys (st : DivState) : List Key :=
  (List.range st.pieces.length).map Key.piece ++ (List.range st.outs.length).map Key.out

/-! #### the emitted plan and its validator -/

/-- an output partition = concatenation of boundary slices of input partitions -/
abbrev Plan := List (List Slice)

def planOf (st : DivState) : Plan :=
  st.outs.map (fun tmp => if tmp.isEmpty then [⟨0, st.a0, st.a0, false⟩] else tmp.filterMap (fun k => st.pieces[k]?))

/-- every piece an output refers to exists -/
def closedOK (st : DivState) : Bool :=
  st.outs.all (fun tmp => tmp.all (fun k => decide (k < st.pieces.length)))

def runSlice (parts : Nat → List Row) (s : Slice) : List Row :=
  boundarySliceSpec (parts s.i) s.lo s.hi s.incl

def runOut (parts : Nat → List Row) (ss : List Slice) : List Row := ss.flatMap (runSlice parts)

def runPlan (plan : Plan) (parts : Nat → List Row) (j : Nat) : List Row :=
  match plan[j]? with
  | some ss => runOut parts ss
  | none => []

def isSorted : List Int → Bool
  | a :: b :: t => decide (a ≤ b) && isSorted (b :: t)
  | _ => true

def isStrictSorted : List Int → Bool
  | a :: b :: t => decide (a < b) && isStrictSorted (b :: t)
  | _ => true

/-- The effective interval of a slice on *doubled* coordinates: a row with index `x` is selected iff
    `l ≤ 2x < h`.  An inclusive right end `hi` is the exclusive end `2·hi + 1` (this encoding is valid
    for every ordered index domain, not only integers: nothing between `hi` and `hi+1` is used).
    The slice is intersected with the range input partition `i` may hold according to `a`
    (`[a[i], a[i+1])`, the last partition right-inclusive). -/
def effIv (a : List Int) (s : Slice) : Option (Int × Int) :=
  match a[s.i]?, a[s.i + 1]? with
  | some lo, some hi =>
      some (max (2 * s.lo) (2 * lo),
            min (2 * s.hi + (if s.incl then 1 else 0)) (2 * hi + (if s.i + 2 = a.length then 1 else 0)))
  | _, _ => none

/-- the non-empty effective intervals, in plan order, form a gap-free chain `cur → result` -/
def chain (a : List Int) : Int → List Slice → Option Int
  | cur, [] => some cur
  | cur, s :: t => match effIv a s with
      | none => none
      | some (l, h) => if l < h then (if l = cur then chain a h t else none) else chain a cur t

def withinB (a : List Int) (lo hi : Int) (ss : List Slice) : Bool :=
  ss.all (fun s => match effIv a s with
    | some (l, h) => !(decide (l < h)) || (decide (lo ≤ l) && decide (h ≤ hi))
    | none => false)

def boundsOK (a b : List Int) : Nat → Plan → Bool
  | _, [] => true
  | j, ss :: t =>
    (match b[j]?, b[j+1]? with
      | some lo, some hi => withinB a (2 * lo) (2 * hi + (if j + 2 = b.length then 1 else 0)) ss
      | _, _ => false) && boundsOK a b (j+1) t

/-- Executable validator of an emitted plan (soundness: `C13_div_validator`). -/
def planOK (a b : List Int) (plan : Plan) : Bool :=
  isSorted b && decide (plan.length + 1 = b.length) &&
  (match a.head?, a.getLast? with
    | some a0, some an => chain a (2 * a0) plan.flatten == some (2 * an + 1)
    | _, _ => false) &&
  boundsOK a b 0 plan

/-- precondition under which the planner is expected to succeed (`Covered`) -/
def covered (a b : List Int) (force : Bool) : Bool :=
  match a.head?, a.getLast?, b.head?, b.getLast? with
  | some a0, some an, some b0, some bn => decide (b.length ≥ 2) && !(guardFails force a0 an b0 bn)
  | _, _, _, _ => false

/-! ### Repartition._lower — which class is chosen -/

inductive Decision where
  | toFewer | identity | toMore | divisionsInterp | divisions | size
deriving DecidableEq, Repr

/-- `newPartitions`: operand (already resolved if callable); `newDivisions`: operand; `frameDivs`: `none` =
    unknown divisions (`frame.divisions[0] is None`); `numericOrDatetime`: dtype test on the divisions;
    `hasSize`: `partition_size is not None`. -/
def lowerDecision (newPartitions : Option Nat) (nin : Nat) (frameDivs : Option (List Int))
    (numericOrDatetime : Bool) (newDivisions : Option (List Int)) (hasSize : Bool) : Except PErr Decision :=
  match newPartitions with
  | some np =>
    if np < nin then .ok .toFewer
    else if np = nin then .ok .identity
    else if frameDivs.isSome && numericOrDatetime then .ok .divisionsInterp
    else .ok .toMore
  | none =>
    match newDivisions with
    | some (d :: ds) =>                                   -- `elif self.new_divisions:` (truthy = non-empty)
      match frameDivs with
      | some fd => if fd = d :: ds then .ok .identity else .ok .divisions
      | none => .error .value                             -- "Cannot repartition on divisions with unknown divisions"
    | _ => if hasSize then .ok .size else .error .notImpl

end Dx.Repartition
