/-
  Layers/Partitions.lean — transliteration of (dask_expr/_expr.py, io/io.py, as the code is NOW):

    _divisions_of_selection(full_divisions, partitions)          → `selDivisions`
    Partitions._task / _divisions / _simplify_down               → `partitionsTask`, `partitionsPush`
    PartitionsFiltered._task = _filtered_task(_partitions[i])    → `filteredTask`
    FromPandas._filtered_task / _get_lengths (locations)         → `fpRows`, `fpLengths`
    FromArray._divisions / _filtered_task                        → `faDivisions`, `faIdx`, `faData`, `faRows`
    FusedIO._fusion_buckets / _divisions / _task                 → `buckets`, `fusedDivisions`, `fusedRows`
    BroadcastJoin._layer output keys                             → `bjoinOutKeys`

  Definitions only, Mathlib-free.
-/
import DxModel.Graph
import DxModel.Layers.Repartition
namespace Dx.Parts
open Dx

/-! ### `_divisions_of_selection` -/

/-- `not any(b <= a for a, b in zip(partitions, partitions[1:]))` -/
def strictAsc : List Nat → Bool
  | a :: b :: t => decide (a < b) && strictAsc (b :: t)
  | _ => true

inductive SelErr where
  | unbound      -- UnboundLocalError: `part` is not bound after a loop over the empty selection
  | index        -- IndexError: tuple index out of range
deriving DecidableEq, Repr

/-- `_divisions_of_selection` on KNOWN full divisions: `.ok none` = `(None,) * (len(partitions)+1)`.
    (`[full[p] for p in partitions] + [full[part + 1]]`; `Repartition.fewerDivisions` is the indexing loop) -/
def selDivisions (full : List Int) (P : List Nat) : Except SelErr (Option (List Int)) :=
  if strictAsc P = false then .ok none
  else match P.getLast? with
    | none => .error .unbound
    | some last =>
      match Repartition.fewerDivisions full P, full[last + 1]? with
      | some los, some hi => .ok (some (los ++ [hi]))
      | _, _ => .error .index

/-! ### `Partitions._task`: `(self.frame._name, self.partitions[index])` -/

inductive Key where
  | dep (i : Nat)           -- (frame._name, i)
  | src (tag i : Nat)       -- anything a source task reads (a file, a delayed key, an iterable element …)
  | out (j : Nat)           -- (self._name, j)
deriving DecidableEq, Repr

def partitionsTask (P : List Nat) : Graph Key
  | .out j => match P[j]? with
      | some p => some (.alias (.dep p))
      | none => none
  | _ => none

def outKeys (P : List Nat) : List Key := (List.range P.length).map Key.out

def inputs (parts : Nat → List Row) : Key → Option V
  | .dep i => some (.frame (parts i))
  | _ => none

/-- partition `j` of the selection -/
def sel (P : List Nat) (parts : Nat → List Row) (j : Nat) : List Row :=
  match P[j]? with
  | some p => parts p
  | none => []

/-! ### `PartitionsFiltered._task(index) = self._filtered_task(self._partitions[index])`
    `ft i` is the source's `_filtered_task(i)`; the default `Expr._layer` emits one task per `range(npartitions)`
    with `npartitions = len(_partitions)`. -/

def filteredTask (ft : Nat → Tsk Key) (P : List Nat) : Graph Key
  | .out j => match P[j]? with
      | some p => some (ft p)
      | none => none
  | _ => none

/-- a source task only reads source inputs (never another output of the same layer) -/
def LeafTasks (ft : Nat → Tsk Key) : Prop := ∀ i, ∀ d ∈ (ft i).refs, ∀ j, d ≠ Key.out j

/-! ### `Partitions._simplify_down` on a Blockwise frame: which operands are wrapped in `Partitions(op, P)`
       Partitions(op, self.partitions) if (isinstance(op, Expr) and not self.frame._broadcast_dep(op)) else op -/

structure Operand where
  isExpr : Bool
  np : Nat          -- op.npartitions
  ndim : Nat        -- op.ndim
deriving DecidableEq, Repr

/-- `Blockwise._broadcast_dep`: `dep.npartitions == 1 and dep.ndim < self.ndim`
    (`anyNdim`: MapPartitions / BlockwiseMerge override: `dep.npartitions == 1`) -/
def broadcastDep (selfNdim : Nat) (anyNdim : Bool) (o : Operand) : Bool :=
  o.np == 1 && (anyNdim || decide (o.ndim < selfNdim))

def partitionsPush (selfNdim : Nat) (anyNdim : Bool) (ops : List Operand) : List Bool :=
  ops.map (fun o => o.isExpr && !broadcastDep selfNdim anyNdim o)

/-- `Partitions._simplify_down`, the class guard in front of `partitionsPush`: the selection is pushed below a
    Blockwise frame unless the frame is one of the structural exceptions (`BlockwiseIO`, `Fused`,
    `SetIndexBlockwise`: they handle or forbid selections themselves) or its tasks depend on the NUMBER of the
    partition they compute — `MapOverlap` (reads neighbours, D82), `Sample` / `Split` (random state per partition
    number) and `MapPartitions` with a `partition_info` argument (D105). -/
def partitionsPushAllowed (structural numberDependent : Bool) : Bool :=
  !(structural || numberDependent)

inductive PartsRule where
  | wrap      -- the operands are wrapped in `Partitions(·, P)` (see `partitionsPush`)
  | absorb    -- a `PartitionsFiltered` frame takes the selection into its `_partitions` operand (`composeSel`)
  | none      -- the `Partitions` node stays
deriving DecidableEq, Repr

/-- the branches of `Partitions._simplify_down` for a Blockwise frame, in the order of the code -/
def partitionsRule (structural numberDependent filtered : Bool) : PartsRule :=
  if partitionsPushAllowed structural numberDependent then .wrap
  else if filtered then .absorb
  else .none

/-- a blockwise operation whose task may look at the partition number: output `j` of the operation applied to a
    frame with partitions `parts` -/
def numberedOut (f : Nat → List Row → List Row) (parts : List (List Row)) (j : Nat) : List Row :=
  f j (parts.getD j [])

/-- the selected frame `Partitions(frame, P)` -/
def selectParts (parts : List (List Row)) (P : List Nat) : List (List Row) :=
  P.map (fun p => parts.getD p [])

/-! ### per-partition arguments looked up by POSITION (`BlockwiseDep.iterable[i]`: the bin edges and the closed
    side of `ResampleAggregation`).  `Partitions._simplify_down` selects them together with the frame:
        BlockwiseDep([op.iterable[p] for p in self.partitions])
    (before the fix "a partition selection pushed below a resample aggregation also selects its per-partition
    bin edges" they were passed on unchanged). -/

/-- output `j` of a blockwise operation that receives the `j`-th entry of a per-partition argument list -/
def depOut (g : Nat → List Row → List Row) (args : List Nat) (parts : List (List Row)) (j : Nat) : List Row :=
  g (args.getD j 0) (parts.getD j [])

/-- `[op.iterable[p] for p in self.partitions]`; `none` = IndexError -/
def selectArgs (args : List Nat) : List Nat → Option (List Nat)
  | [] => some []
  | p :: t => match args[p]?, selectArgs args t with
      | some a, some r => some (a :: r)
      | _, _ => none

/-- composition with a `PartitionsFiltered` frame:
    `[frame._partitions[p] for p in self.partitions] if frame._partitions else self.partitions`
    (`frame._partitions` is `range(npartitions)` when unfiltered, so both branches index) -/
def pick (Q : List Nat) : List Nat → Option (List Nat)
  | [] => some []
  | p :: t => match Q[p]?, pick Q t with
      | some q, some r => some (q :: r)
      | _, _ => none                -- IndexError

def composeSel (inner : Option (List Nat)) (P : List Nat) : Option (List Nat) :=
  match inner with
  | none => some P
  | some [] => some P            -- `if self.frame._partitions:` is falsy for an empty list
  | some Q => pick Q P

/-! ### FromPandas -/

/-- `_filtered_task(i)`: `frame.iloc[locations[i] : locations[i+1]]` -/
def fpRows (rows : List Row) (locs : List Nat) (i : Nat) : List Row :=
  match locs[i]?, locs[i+1]? with
  | some a, some b => (rows.drop a).take (b - a)
  | _, _ => []

/-- `[offset - locations[i] for i, offset in enumerate(locations[1:])]` -/
def allLengths (locs : List Nat) : List Nat :=
  (List.range (locs.length - 1)).map (fun i => locs.getD (i+1) 0 - locs.getD i 0)

/-- `_get_lengths` (as fixed by D62): all lengths when unfiltered, else `[lengths[i] for i in self._partitions]`
    (`none` = IndexError) -/
def fpLengths (locs : List Nat) (P : Option (List Nat)) : Option (List Nat) :=
  match P with
  | none => some (allLengths locs)
  | some p => pick (allLengths locs) p

/-- the lengths of the partitions the filtered source really has -/
def fpTrueLengths (locs : List Nat) (P : Option (List Nat)) : List Nat :=
  (match P with
    | none => List.range (locs.length - 1)
    | some p => p).map (fun i => locs.getD (i+1) 0 - locs.getD i 0)

/-- hypothesis about `sorted_division_locations` (legacy dask, not modelled; T3-checked on its real output):
    locations start at 0, end at `len`, are monotone; `divs[i]` is the index value at `locs[i]`
    (last: the last index value) and no index value straddles a cut. -/
def locsOK (idx : List Int) (divs : List Int) (locs : List Nat) : Bool :=
  decide (divs.length = locs.length) && decide (2 ≤ locs.length) &&
  Repartition.boundariesOK locs idx.length &&
  (List.range (locs.length - 1)).all (fun i =>
    match locs[i]?, locs[i+1]?, divs[i]?, divs[i+1]? with
    | some a, some b, some lo, some hi =>
        ((idx.drop a).take (b - a)).all (fun v => decide (lo ≤ v) && (decide (v < hi) || (decide (i + 2 = locs.length) && decide (v = hi))))
    | _, _, _, _ => false) &&
  Repartition.isSorted divs && Repartition.isSorted idx

/-! ### FromArray -/

/-- `range(0, len, cs)` -/
def pyRange (len cs : Nat) : List Nat := (List.range ((len + cs - 1) / cs)).map (fun q => q * cs)

/-- `_divisions`: `tuple(range(0, len(frame), chunksize)) + (len(frame) - 1,)` -/
def faDivisions (len cs : Nat) : List Int := (pyRange len cs).map Int.ofNat ++ [(len : Int) - 1]

/-- `idx` of `_filtered_task(index)`: `range(d[index], d[index+1] (+1 if index == len(d) - 2))` with the
    UNFILTERED divisions `d`; `none` = IndexError -/
def faIdx (len cs i : Nat) : Option (List Int) :=
  let d := faDivisions len cs
  match d[i]?, d[i+1]? with
  | some lo, some hi =>
      let stop := if i + 2 = d.length then hi + 1 else hi
      some ((List.range (stop - lo).toNat).map (fun (t : Nat) => lo + (t : Int)))
  | _, _ => none

/-- positions of `frame[index*cs : (index+1)*cs]` -/
def faData (len cs i : Nat) : List Nat := (List.range len).drop (i * cs) |>.take cs

/-- rows of output partition `i`: position `p` of the array carries index label `idx` (pandas raises when
    the two lengths differ: `none`) -/
def faRows (len cs i : Nat) : Option (List Row) :=
  match faIdx len cs i with
  | some ix => if ix.length = (faData len cs i).length then
      some ((ix.zip (faData len cs i)).map (fun (x, p) => { idx := x, tgt := 0, pay := p }))
    else none
  | none => none

/-! ### FusedIO -/

/-- `[partitions[i : i + step] for i in range(0, npartitions, step)]` -/
def buckets (P : List Nat) (step : Nat) : List (List Nat) :=
  (pyRange P.length step).map (fun s => (P.drop s).take step)

/-- `_divisions` on KNOWN source divisions (as fixed by D5):
    `[divisions[b[0]] for b in buckets] + [divisions[buckets[-1][-1] + 1]]`; `none` = IndexError -/
def bucketHeads (full : List Int) : List (List Nat) → Option (List Int)
  | [] => some []
  | b :: t => match b.head?, bucketHeads full t with
      | some h, some r => (match full[h]? with
          | some v => some (v :: r)
          | none => none)
      | _, _ => none

def fusedDivisions (full : List Int) (P : List Nat) (step : Nat) : Option (List Int) :=
  let bs := buckets P step
  match bs.getLast? with
  | none => none
  | some lb =>
    match lb.getLast? with
    | none => none
    | some last =>
      match bucketHeads full bs, full[last + 1]? with
      | some los, some hi => some (los ++ [hi])
      | _, _ => none

/-- `FusedIO._divisions` as the code is now (D71): a reordered or repeated selection reports unknown divisions
    (`some none`), an ascending one the bucket bounds; `none` = IndexError -/
def fusedDivisionsGuarded (full : List Int) (P : List Nat) (step : Nat) : Option (Option (List Int)) :=
  if strictAsc P then (fusedDivisions full P step).map some else some none

/-- `_task(index)`: `(methods.concat, [expr._filtered_task(i) for i in bucket])` -/
def fusedRows (P : List Nat) (step : Nat) (parts : Nat → List Row) (j : Nat) : List Row :=
  match (buckets P step)[j]? with
  | some b => b.flatMap parts
  | none => []

/-- boundaries of the buckets as positions in `P` -/
def bucketBounds (n step : Nat) : List Nat := pyRange n step ++ [n]

/-! ### BroadcastJoin._layer: `for part_out in self._partitions: … dsk[(self._name, part_out)] = …`
    — the output keys carry the ORIGINAL partition numbers, while `__dask_keys__` asks for
    `(self._name, i) for i in range(npartitions)` with `npartitions = len(_partitions)`. -/
def bjoinOutKeys (P : List Nat) : List Nat := P
def requestedKeys (P : List Nat) : List Nat := List.range P.length

end Dx.Parts
