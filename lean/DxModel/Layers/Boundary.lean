/-
  Layers/Boundary.lean — the materialization boundaries of /repo as they exist NOW (C17).  Definitions only,
  Mathlib-free.  Transliterated code:

    io/io.py        FromGraph._layer / _divisions / npartitions / __dask_keys__          → `FromGraph`
    _collection.py  FrameBase.persist + __dask_postpersist__ + dask.base.persist          → `persistedLayer`, `persist`
                    FrameBase.to_delayed  (= to_legacy_dataframe().to_delayed(og))        → `toDelayed`  (+ `cull`)
                    to_legacy_dataframe / from_legacy_dataframe                           → `legacyRoundtrip`
    _expr.py        _DelayedExpr._layer (key renaming `key ↦ (key, 0)`)                   → `delayedExprLayer`
    io/_delayed.py  from_delayed (validation), FromDelayed._divisions / _filtered_task    → `fromDelayed`, `FromDelayed.*`
    _core.py        Expr.__dask_graph__ (walk with `seen`, `toolz.merge`)                 → `walkDeps`, `mergeLayers`
    dask            dataframe.utils.check_meta (decision only; trusted stand-in, T4)      → `metaMatches`, `checkMeta`

  Key structure.  `κ` is the key type of the graph that is cut (the real keys `(name, i)`, `(name-internal, …)`).
  * FromGraph: the imported keys keep their names, partition `i` of the new collection is `(self._name, i)`
    — `κ ⊕ Nat` (`Cut.fromGraphLayer`).
  * from_delayed: a Delayed made by `to_delayed` has the *tuple* `(name, i)` as its key; `_DelayedExpr._layer`
    copies the Delayed's whole graph, adds `((name, i), 0)` with the task of `(name, i)` and pops `(name, i)`;
    `FromDelayed._filtered_task(i)` reads `((name, i), 0)` — `BKey κ`.
-/
import DxModel.Cut
import DxModel.Layers.Partitions
namespace Dx
namespace Boundary

/-- a divisions tuple as passed around by the boundary constructs: `none` = `None` -/
abbrev Divs := List (Option Int)

/-- `(None,) * (n + 1)` -/
def unknownDivs (n : Nat) : Divs := List.replicate (n + 1) none

/-! ### `dask.optimization.cull` / `HighLevelGraph.cull` (what the legacy `optimize` does to a one-layer graph) -/

/-- the sub-graph of the kept keys -/
def cull {κ} (G : Graph κ) (keep : κ → Bool) : Graph κ := fun k => if keep k then G k else none

/-- what the theorems need of the kept set: it contains the requested keys and is closed under references
    (the real `cull` computes the least such set) -/
structure CullOK {κ} (G : Graph κ) (keep : κ → Bool) (roots : List κ) : Prop where
  roots_kept : ∀ k ∈ roots, keep k = true
  closed : ∀ k t, keep k = true → G k = some t → ∀ r ∈ t.refs, keep r = true

/-! executable `cull` over a finite listing `key ↦ referenced keys` (driver side) and a checker for `CullOK` -/

def refsOf (l : List (Nat × List Nat)) (k : Nat) : List Nat :=
  match l.lookup k with
  | some rs => rs
  | none => []

/-- one round of `cull`'s work list: add the references of everything reached so far -/
def reachStep (l : List (Nat × List Nat)) (s : List Nat) : List Nat :=
  s ++ (s.flatMap (refsOf l)).filter (fun r => !s.contains r)

def reachIter (l : List (Nat × List Nat)) : Nat → List Nat → List Nat
  | 0, s => s
  | n+1, s => reachIter l n (reachStep l s)

/-- keys reachable from `roots` (only keys of the listing count: a reference to a missing key is a literal) -/
def reachable (l : List (Nat × List Nat)) (roots : List Nat) : List Nat :=
  (reachIter l l.length roots).filter (fun k => (l.lookup k).isSome)

/-- the graph of a listing: every task is opaque, `apply <own id> <refs>` -/
def listingGraph (l : List (Nat × List Nat)) : Graph Nat := fun k =>
  match l.lookup k with
  | some rs => some (.apply k rs)
  | none => none

/-- Bool checker for `CullOK (listingGraph l) (kept.contains ·) roots` -/
def cullCheck (l : List (Nat × List Nat)) (kept roots : List Nat) : Bool :=
  roots.all (fun k => kept.contains k) &&
  kept.all (fun k => (refsOf l k).all (fun r => kept.contains r))

/-! ### FromGraph (io/io.py) -/

/-- operands `layer`, `divisions`, `keys` (`_meta`, `name_prefix` carry no graph structure) -/
structure FromGraph (κ : Type) where
  layer : Graph κ
  divisions : Divs
  keys : List κ

namespace FromGraph
variable {κ : Type}
/-- `Expr.npartitions`: `len(self.divisions) - 1` (FromGraph has no `npartitions` parameter) -/
def npartitions (e : FromGraph κ) : Nat := e.divisions.length - 1
/-- `Expr.__dask_keys__`: `[(self._name, i) for i in range(self.npartitions)]` -/
def daskKeys (e : FromGraph κ) : List (κ ⊕ Nat) := (List.range e.npartitions).map Sum.inr
/-- `_layer`: `dsk = dict(layer); for part, k in enumerate(keys): dsk[(self._name, part)] = k` -/
def graph (e : FromGraph κ) : Graph (κ ⊕ Nat) := fromGraphLayer e.layer e.keys
/-- keys of `_layer()` given a listing of the imported layer's keys -/
def layerKeys (e : FromGraph κ) (imported : List κ) : List (κ ⊕ Nat) :=
  imported.map Sum.inl ++ (List.range e.keys.length).map Sum.inr
end FromGraph

/-! ### persist (`_collection.py: persist, __dask_postpersist__`; `dask.base.persist`) -/

/-- a computed partition embedded in a graph as a literal -/
def litOf {κ} : V → Option (Tsk κ)
  | .frame rows => some (.const rows)
  | _ => none

/-- `d = dict(zip(keys, results)); {k: d[k] for k in keys}` with `keys = state.__dask_keys__()`
    (`out i` = `(state._name, i)`, `res i` = the scheduler's result for it; later duplicates win in `dict(zip …)`) -/
def persistedLayer {κ} [DecidableEq κ] (out : Nat → κ) (n : Nat) (res : Nat → V) : Graph κ := fun k =>
  match (List.range n).reverse.find? (fun i => out i == k) with
  | some i => litOf (res i)
  | none => none

/-- `rebuild(dsk, state._meta, state.divisions, state.__dask_keys__(), key_split(state._name))` = `from_graph(…)`:
    `n = state.npartitions`, `divs = state.divisions` -/
def persist {κ} [DecidableEq κ] (out : Nat → κ) (n : Nat) (divs : Divs) (res : Nat → V) : FromGraph κ :=
  { layer := persistedLayer out n res, divisions := divs, keys := (List.range n).map out }

/-! ### to_delayed (`_collection.py: to_delayed` → legacy `_Frame.to_delayed`) -/

/-- `Delayed(key, graph, layer=…)` -/
structure Delayed (κ : Type) where
  key : κ
  graph : Graph κ

/-- `keys = [(name, i) for i in range(npartitions)]`; `graph = G` (the graph of `self.optimize()`, wrapped as a
    one-layer HighLevelGraph); `optimize_graph=True` replaces it by `optimize(graph, keys)` = `cull` (low-level
    fusion is off by default); every Delayed carries the *whole* graph -/
def toDelayed {κ} (G : Graph κ) (out : Nat → κ) (n : Nat) (optimizeGraph : Bool) (keep : κ → Bool) :
    List (Delayed κ) :=
  let g := if optimizeGraph then cull G keep else G
  (List.range n).map (fun i => { key := out i, graph := g })

/-! ### from_delayed, FromDelayed, _DelayedExpr -/

inductive BKey (κ : Type) where
  | orig (k : κ)          -- a key of a Delayed's graph, unchanged
  | wrap (k : κ)          -- `(k, 0)`: `_DelayedExpr._layer`'s new name for the Delayed's own key `k`
  | out (i : Nat)         -- `(self._name, i)` of the FromDelayed expression
deriving DecidableEq, Repr

/-- `_DelayedExpr._layer`: `dc = obj.dask.to_dict().copy(); dc[(obj.key, 0)] = dc[obj.key]; dc.pop(obj.key)`
    (`dc[obj.key]` raises KeyError when the Delayed's key is not in its graph: `wrap` is then undefined) -/
def delayedExprLayer {κ} [DecidableEq κ] (d : Delayed κ) : Graph (BKey κ)
  | .orig k => if k = d.key then none else (d.graph k).map (fun t => t.mapKeys BKey.orig)
  | .wrap k => if k = d.key then (d.graph d.key).map (fun t => t.mapKeys BKey.orig) else none
  | .out _ => none

/-- `divisions` argument of `from_delayed` -/
inductive DivArg where
  | none
  | sorted
  | given (d : Divs)
deriving DecidableEq, Repr

inductive FDErr where
  | noDelayed        -- TypeError("Must supply at least one delayed object")
  | sorted           -- NotImplementedError
  | divLen           -- ValueError("divisions should be a tuple of len(dfs) + 1")
deriving DecidableEq, Repr

/-- operands `user_divisions`, `verify_meta`, `_partitions`, `*dfs` (`meta`, `prefix` carry no graph structure) -/
structure FromDelayed (κ : Type) where
  dfs : List (Delayed κ)
  userDivisions : Option Divs
  verifyMeta : Bool
  partitions : Option (List Nat)

/-- `from_delayed(dfs, meta, divisions, prefix, verify_meta)` — the checks in the order of the code -/
def fromDelayed {κ} (dfs : List (Delayed κ)) (divisions : DivArg) (verify : Bool) : Except FDErr (FromDelayed κ) :=
  if dfs.length = 0 then .error .noDelayed
  else match divisions with
    | .sorted => .error .sorted
    | .given d =>
        if d.length ≠ dfs.length + 1 then .error .divLen
        else .ok { dfs := dfs, userDivisions := some d, verifyMeta := verify, partitions := Option.none }
    | .none => .ok { dfs := dfs, userDivisions := Option.none, verifyMeta := verify, partitions := Option.none }

/-- codes of the two callables `FromDelayed._filtered_task` emits -/
def identityCode : Nat := 0
def checkMetaCode : Nat := 1
def wrapCode (verify : Bool) : Nat := if verify then checkMetaCode else identityCode

/-- `_divisions_of_selection(full_divisions, partitions)` on a tuple that may hold `None`s -/
def selDivs (full : Divs) (P : List Nat) : Except Parts.SelErr Divs :=
  if Parts.strictAsc P = false then .ok (unknownDivs P.length)
  else match P.getLast? with
    | none => .error .unbound
    | some last =>
      match P.mapM (fun p => full[p]?), full[last + 1]? with
      | some los, some hi => .ok (los ++ [hi])
      | _, _ => .error .index

namespace FromDelayed
variable {κ : Type}
/-- `_divisions`: `user_divisions` if given, else `(None,) * (len(self.dfs) + 1)` -/
def fullDivisions (e : FromDelayed κ) : Divs :=
  match e.userDivisions with
  | some d => d
  | none => unknownDivs e.dfs.length
/-- `PartitionsFiltered._partitions`: the operand, else `range(self.npartitions)` with `npartitions = len(divisions) - 1` -/
def sel (e : FromDelayed κ) : List Nat :=
  match e.partitions with
  | some P => P
  | none => List.range (e.fullDivisions.length - 1)
/-- `PartitionsFiltered.npartitions` -/
def npartitions (e : FromDelayed κ) : Nat := e.sel.length
/-- `PartitionsFiltered.divisions` -/
def divisions (e : FromDelayed κ) : Except Parts.SelErr Divs :=
  match e.partitions with
  | none => .ok e.fullDivisions
  | some P => selDivs e.fullDivisions P
def daskKeys (e : FromDelayed κ) : List (BKey κ) := (List.range e.npartitions).map BKey.out
/-- `Expr._layer` + `PartitionsFiltered._task` + `_filtered_task`:
    `(self._name, i) ↦ (partial(check_meta, meta=…) | identity, (self.dfs[_partitions[i]]._name, 0))`
    (`self.dfs[p]` out of range raises IndexError: the key is then undefined) -/
def ownLayer (e : FromDelayed κ) : Graph (BKey κ)
  | .out i => match e.sel[i]? with
      | some p => match e.dfs[p]? with
          | some d => some (.apply (wrapCode e.verifyMeta) [.wrap d.key])
          | none => none
      | none => none
  | _ => none
end FromDelayed

/-- `toolz.merge(layers)`: a later layer overwrites an earlier one -/
def mergeLayers {κ} : List (Graph κ) → Graph κ
  | [] => fun _ => none
  | l :: ls => fun k => match mergeLayers ls k with
      | some t => some t
      | none => l k

/-- the part of `Expr.__dask_graph__`'s walk below the root: dependencies are popped from the stack and skipped
    when their `_name` (= the Delayed's key) was seen before -/
def walkDeps {κ} [DecidableEq κ] : List (Delayed κ) → List κ → List (Delayed κ)
  | [], _ => []
  | d :: t, seen => if seen.contains d.key then walkDeps t seen else d :: walkDeps t (d.key :: seen)

/-- `Expr.__dask_graph__` of a FromDelayed expression: own layer first, then the layers of `dependencies()`
    (= `dfs`) in stack order (last pushed first), merged -/
def FromDelayed.graph {κ} [DecidableEq κ] (e : FromDelayed κ) : Graph (BKey κ) :=
  mergeLayers (e.ownLayer :: (walkDeps e.dfs.reverse []).map delayedExprLayer)

/-- inputs of the re-imported graph: whatever the original graph read from outside -/
def liftB {κ} (inp : κ → Option V) : BKey κ → Option V
  | .orig k => inp k
  | _ => none

/-! ### legacy round trip (`to_legacy_dataframe` then `from_legacy_dataframe`) -/

/-- `to_legacy_dataframe`: `new_dd_object(df.dask, df._name, df._meta, df.divisions)` with `df = self.optimize()`;
    `from_legacy_dataframe(ddf, optimize)`: `from_graph(optimize(ddf.dask, keys) if optimize else ddf.dask, ddf._meta,
    ddf.divisions, ddf.__dask_keys__(), key_split(ddf._name))`; the legacy `npartitions` is `len(divisions) - 1`,
    the legacy `optimize` of a one-layer graph is `cull` -/
def legacyRoundtrip {κ} (G : Graph κ) (out : Nat → κ) (divs : Divs) (optimize : Bool) (keep : κ → Bool) :
    FromGraph κ :=
  { layer := if optimize then cull G keep else G, divisions := divs,
    keys := (List.range (divs.length - 1)).map out }

/-! ### verify_meta: `dask.dataframe.utils.check_meta` (decision), a trusted stand-in validated by T4 -/

inductive DType where
  | num (id : Nat)                 -- dtype.kind in "ifu" (compare equal under `numeric_equal=True`)
  | other (id : Nat)               -- any other non-categorical dtype, equal iff the same dtype
  | cat (cats : Option Nat)        -- CategoricalDtype; `none` = has UNKNOWN_CATEGORIES
deriving DecidableEq, Repr

/-- `equal_dtypes(a, b)`; a missing column (`"-"` after `fillna`) is `none` -/
def equalDtypes : Option DType → Option DType → Bool
  | some (.cat a), some (.cat b) => match a, b with
      | some x, some y => x == y
      | _, _ => true
  | some (.cat _), _ => false
  | _, some (.cat _) => false
  | some (.num _), some (.num _) => true
  | some a, some b => a == b
  | _, _ => false

/-- schema of a partition / of `meta`: container class (0 DataFrame, 1 Series, 2 Index) and the labelled dtypes
    (one entry for a Series / Index) -/
structure Sch where
  kind : Nat
  cols : List (String × DType)
deriving DecidableEq, Repr

/-- `check_meta` passes `x` through iff: same class; DataFrame — every column of the union of both label sets has
    `equal_dtypes`, and the label sequences are equal (`check_matching_columns`); Series / Index — `equal_dtypes`
    of the dtype (names and the index are not looked at) -/
def metaMatches (mt x : Sch) : Bool :=
  if x.kind ≠ mt.kind then false
  else if mt.kind = 0 then
    (x.cols.map Prod.fst ++ mt.cols.map Prod.fst).all (fun c => equalDtypes (x.cols.lookup c) (mt.cols.lookup c))
      && (x.cols.map Prod.fst == mt.cols.map Prod.fst)
  else match x.cols, mt.cols with
    | [(_, a)], [(_, b)] => equalDtypes (some a) (some b)
    | _, _ => false

inductive MetaErr where
  | mismatch                       -- ValueError("Metadata mismatch found in `from_delayed` …")
deriving DecidableEq, Repr

/-- `check_meta(x, meta, funcname="from_delayed")` on a value `v` whose schema is `x` -/
def checkMeta {α} (mt x : Sch) (v : α) : Except MetaErr α :=
  if metaMatches mt x then .ok v else .error .mismatch

/-- the same at the level of graph values: `ok v` = "the schema of `v` matches the `meta` operand" -/
def checkMetaSpec (ok : V → Bool) (v : V) : V := if ok v then v else .err

/-- value of a `FromDelayed` output task given the value of the Delayed it reads -/
def wrapSpec (ok : V → Bool) (verify : Bool) (v : V) : V := if verify then checkMetaSpec ok v else v

/-- what the theorems assume of the interpretation of the two callables -/
structure BoundaryInterp (I : Interp) (ok : V → Bool) : Prop where
  identity : ∀ v, I identityCode [v] = v
  check : ∀ v, I checkMetaCode [v] = checkMetaSpec ok v

/-- the interpretation used in examples: `identity`, `check_meta`, everything else ill-typed -/
def stdInterp (ok : V → Bool) : Interp := fun f args =>
  match f, args with
  | 0, [v] => v
  | 1, [v] => checkMetaSpec ok v
  | _, _ => .err

/-! ### a query stacked on a collection: the upper graph names partition `i` of its dependency `Sum.inr i` -/

/-- how a reference of the upper graph is resolved -/
def stackRef {lam υ : Type} (o : Nat → lam) : υ ⊕ Nat → lam ⊕ υ
  | .inl u' => Sum.inr u'
  | .inr i => Sum.inl (o i)

/-- the whole graph: layer `L` of the collection (keys `Sum.inl`), upper graph `U` whose own keys are `Sum.inl u`
    and whose references `Sum.inr i` are resolved to the collection's `i`-th output key `o i`
    (what `Expr.__dask_graph__` produces when the upper expressions are built on a collection named `o`) -/
def stack {lam υ : Type} (L : Graph lam) (o : Nat → lam) (U : Graph (υ ⊕ Nat)) : Graph (lam ⊕ υ)
  | .inl k => (L k).map (fun t => t.mapKeys Sum.inl)
  | .inr u => (U (.inl u)).map (fun t => t.mapKeys (stackRef o))

/-- the two halves of `stack`: `stack L o U = gunion (stackLower L) (stackUpper o U)` (`toolz.merge`) -/
def stackLower {lam υ : Type} (L : Graph lam) : Graph (lam ⊕ υ)
  | .inl k => (L k).map (fun t => t.mapKeys Sum.inl)
  | .inr _ => none

def stackUpper {lam υ : Type} (o : Nat → lam) (U : Graph (υ ⊕ Nat)) : Graph (lam ⊕ υ)
  | .inl _ => none
  | .inr u => (U (.inl u)).map (fun t => t.mapKeys (stackRef o))

def stackInp {lam υ : Type} (inp : lam → Option V) : lam ⊕ υ → Option V
  | .inl k => inp k
  | .inr _ => none

end Boundary
end Dx
