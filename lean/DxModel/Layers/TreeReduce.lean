/-
  Layers/TreeReduce.lean — transliteration of `TreeReduce.split_every` and `TreeReduce._layer`
  (dask_expr/_reductions.py).  Definitions only, Mathlib-free.

      j = 1; d = {}; keys = self.frame.__dask_keys__(); split_every = self.split_every
      while split_every is not False and len(keys) > split_every:
          new_keys = []
          for i, batch in enumerate(toolz.partition_all(split_every or len(keys), keys)):
              d[self._name, j, i] = (self.combine, batch)        # or (apply, self.combine, [batch], combine_kwargs)
              new_keys.append((self._name, j, i))
          j += 1; keys = new_keys
      d[self._name, 0] = (apply, self.aggregate, [keys], self.aggregate_kwargs)

  The `while` loop is not structurally recursive, so the model loop takes a bound on the number of
  iterations (`fuel`, instantiated with `n` = number of input keys).  `Lemmas/TreeReduce.lean` proves
  that for `split_every ≥ 2` the bound is never reached (the loop exits through its own condition), and
  that for `split_every = 1` an iteration makes no progress (which is why the property rejects it).
-/
import DxModel.Graph
namespace Dx.Tree
open Dx

inductive Key where
  | dep (i : Nat)            -- (frame._name, i)
  | node (j i : Nat)         -- (self._name, j, i)
  | out                      -- (self._name, 0)
deriving DecidableEq, Repr

/-- the `split_every` operand as the user may pass it -/
inductive SE where
  | dflt                     -- None
  | off                      -- False
  | int (k : Int)            -- an int (Python's `True` is the int 1)
deriving DecidableEq, Repr

/-- `TreeReduce.split_every` (cached property): `none` = ValueError, `some none` = False, `some (some k)` -/
def splitEveryProp : SE → Option (Option Nat)
  | .dflt => some (some 8)
  | .off => some none
  | .int k => if k ≥ 2 then some (some k.toNat) else none

structure Params where
  n : Nat                    -- len(frame.__dask_keys__())
  splitEvery : Option Nat    -- value of the `split_every` property: none = False
  kwargs : Bool              -- bool(self.combine_kwargs): selects the task form of the combine step
deriving Repr

/-- function codes of the uninterpreted callables (`Tsk.apply`) -/
def combFn (p : Params) : Nat := if p.kwargs then 2 else 0     -- combine(batch) / apply(combine, [batch], kwargs)
def aggFn : Nat := 1                                            -- apply(aggregate, [keys], aggregate_kwargs)

/-- number of batches `toolz.partition_all(k, seq)` yields for `len(seq) = m` -/
def nchunks (k m : Nat) : Nat := (m + k - 1) / k

/-- `list(toolz.partition_all(k, l))`: consecutive slices `l[i*k:(i+1)*k]` (T4-checked) -/
def chunks {α} (k : Nat) (l : List α) : List (List α) :=
  (List.range (nchunks k l.length)).map (fun i => (l.drop (i * k)).take k)

/-- the aggregate task emitted after the loop -/
def final (keys : List Key) : Key → Option (Tsk Key)
  | .out => some (.apply aggFn keys)
  | _ => none

/-- The level loop as a key-indexed function.  State: iteration bound, `j`, `keys`. -/
def graphLoop (p : Params) (k : Nat) : Nat → Nat → List Key → Graph Key
  | 0, _, keys, q => final keys q                -- bound exhausted (unreachable for k ≥ 2 with bound ≥ len keys)
  | f+1, j, keys, q =>
    if keys.length > k then
      let newKeys := (List.range (nchunks k keys.length)).map (Key.node j)
      match q with
      | .node j' i =>
        if j' = j then
          (if i < nchunks k keys.length then some (.apply (combFn p) ((keys.drop (i * k)).take k)) else none)
        else graphLoop p k f (j+1) newKeys q
      | q => graphLoop p k f (j+1) newKeys q
    else final keys q

/-- the same loop producing the dict entries in insertion order (compared with the real dict, T2) -/
def dictLoop (p : Params) (k : Nat) : Nat → Nat → List Key → List (Key × Tsk Key)
  | 0, _, keys => [(.out, .apply aggFn keys)]
  | f+1, j, keys =>
    if keys.length > k then
      (List.range (nchunks k keys.length)).map
          (fun i => (Key.node j i, Tsk.apply (combFn p) ((keys.drop (i * k)).take k)))
        ++ dictLoop p k f (j+1) ((List.range (nchunks k keys.length)).map (Key.node j))
    else [(.out, .apply aggFn keys)]

def depKeys (n : Nat) : List Key := (List.range n).map Key.dep

/-- `TreeReduce._layer` as a graph function -/
def layer (p : Params) : Graph Key :=
  match p.splitEvery with
  | none => final (depKeys p.n)
  | some k => graphLoop p k p.n 1 (depKeys p.n)

/-- `TreeReduce._layer` as the dict it returns -/
def dict (p : Params) : List (Key × Tsk Key) :=
  match p.splitEvery with
  | none => [(.out, .apply aggFn (depKeys p.n))]
  | some k => dictLoop p k p.n 1 (depKeys p.n)

/-- inputs of the layer: the chunk results (`frame` is the Chunk blockwise stage) -/
def inputs (vals : Nat → V) : Key → Option V
  | .dep i => some (vals i)
  | _ => none

/-! ### value-level semantics of the loop, for an arbitrary type of partial results -/

/-- the values of the final `keys` list: each iteration replaces the current list of partial
    results by the combined batches -/
def treeVal {α} (comb : List α → α) (k : Nat) : Nat → List α → List α
  | 0, xs => xs
  | f+1, xs => if xs.length > k then treeVal comb k f ((chunks k xs).map comb) else xs

/-- what the layer computes from the chunk results `xs` -/
def treeEval {α β} (comb : List α → α) (agg : List α → β) (se : Option Nat) (xs : List α) : β :=
  match se with
  | none => agg xs
  | some k => agg (treeVal comb k xs.length xs)

/-- sizes of the successive `keys` lists (level 0 first) -/
def sizes (k : Nat) : Nat → Nat → List Nat
  | 0, m => [m]
  | f+1, m => if m > k then m :: sizes k f (nchunks k m) else [m]

end Dx.Tree
