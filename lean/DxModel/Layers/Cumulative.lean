/-
  Layers/Cumulative.lean — transliteration of `CumulativeFinalize._layer`, `_cum_aggregate_apply` and
  `TakeLast.operation` (dask_expr/_cumulative.py, as of the fix commits 7fd4a29 / 64a8a9c).
  Definitions only, Mathlib-free.

      dsk[(name, 0)] = (frame._name, 0)
      for i in range(1, frame.npartitions):
          if i == 1: dsk[(inter, i)] = (previous_partitions._name, i - 1)
          else:      dsk[(inter, i)] = (_cum_aggregate_apply, aggregator, (inter, i - 1), (previous_partitions._name, i - 1), skipna)
          dsk[(name, i)] = (_cum_aggregate_apply, aggregator, (frame._name, i), (inter, i), skipna)

  `frame` is the CumulativeBlockwise stage (the cumulative operation applied to each partition),
  `previous_partitions` the TakeLast stage (last row of each of those, `None` for an empty partition).

  Value model: a row carries one payload `pay`; the cumulative operation is a binary `op` on payloads
  (`+`, `*`, `max`, `min`).  A carried value ("last row so far") is a one-row frame; `None` is `V.unit`.
  NOT modelled: nulls inside a partition (`skipna`, the `where`/column patching of
  `_cum_aggregate_apply` for all-null carries, D20) — conformance-tested on real frames with nulls (T4)
  and covered by the end-to-end search.
-/
import DxModel.Graph
namespace Dx.Cum
open Dx

inductive Key where
  | dep (i : Nat)            -- (frame._name, i)                 cumulative op of partition i
  | prev (i : Nat)           -- (previous_partitions._name, i)   TakeLast of that
  | inter (i : Nat)          -- (self._name + "-intermediate", i)
  | out (i : Nat)            -- (self._name, i)
deriving DecidableEq, Repr

/-- `_cum_aggregate_apply(aggregator, x, y, skipna)` -/
def aggFn : Nat := 0

/-- `CumulativeFinalize._layer` for `frame.npartitions = n` -/
def layer (n : Nat) : Graph Key
  | .out 0 => some (.alias (.dep 0))
  | .out (i+1) => if i + 1 < n then some (.apply aggFn [.dep (i+1), .inter (i+1)]) else none
  | .inter 0 => none
  | .inter 1 => if 1 < n then some (.alias (.prev 0)) else none
  | .inter (i+2) => if i + 2 < n then some (.apply aggFn [.inter (i+1), .prev (i+1)]) else none
  | _ => none

/-- keys in dict insertion order -/
def keys (n : Nat) : List Key :=
  Key.out 0 :: (List.range (n - 1)).flatMap (fun i => [Key.inter (i+1), Key.out (i+1)])

/-! ### the helpers (T4-checked on null-free integer frames) -/

/-- `aggregate(x, y)` of `methods.cum{sum,prod,max,min}_aggregate` with `y` a one-row carry:
    every row of `x` is combined with the carry (`x + y`, `x * y`, `x.where(x > y, y)`, …) -/
def aggRows (op : Nat → Nat → Nat) (x : List Row) (c : Row) : List Row :=
  x.map (fun r => { r with pay := op r.pay c.pay })

/-- `_cum_aggregate_apply(aggregate, x, y)`:
      if y is None: return x
      if x is None: return y
      return aggregate(x, y)
    An operand that is neither `None` nor (for `y`) a one-row carry is outside the model: `err`
    (before the fix `y` could be the *empty* frame TakeLast returned for an empty partition). -/
def cumAggregateApply (op : Nat → Nat → Nat) : V → V → V
  | x, .unit => x
  | .unit, y => y
  | .frame x, .frame [c] => .frame (aggRows op x c)
  | _, _ => .err

def interp (op : Nat → Nat → Nat) : Interp
  | 0, [x, y] => cumAggregateApply op x y
  | _, _ => .err

/-- running accumulation with an optional start value (`none` = nothing accumulated so far) -/
def scanFrom (op : Nat → Nat → Nat) : Option Nat → List Row → List Row
  | _, [] => []
  | none, r :: t => r :: scanFrom op (some r.pay) t
  | some a, r :: t => { r with pay := op a r.pay } :: scanFrom op (some (op a r.pay)) t

/-- the accumulated value after a list of rows -/
def acc (op : Nat → Nat → Nat) : Option Nat → List Row → Option Nat
  | a, [] => a
  | none, r :: t => acc op (some r.pay) t
  | some a, r :: t => acc op (some (op a r.pay)) t

/-- pandas `cumsum` / `cumprod` / `cummax` / `cummin` on a null-free frame: the specification -/
def cum (op : Nat → Nat → Nat) (rows : List Row) : List Row := scanFrom op none rows

/-- `TakeLast.operation`: `None` for an empty partition, else `a.tail(1).squeeze()` -/
def takeLast : List Row → V
  | [] => .unit
  | r :: t => .frame [(r :: t).getLast (List.cons_ne_nil r t)]

/-- `TakeLast.operation` before fix 7fd4a29: the empty tail of an empty partition -/
def takeLastPreFix : List Row → V
  | [] => .frame []
  | r :: t => .frame [(r :: t).getLast (List.cons_ne_nil r t)]

/-- inputs of the layer for input partitions `parts` -/
def inputs (op : Nat → Nat → Nat) (parts : Nat → List Row) : Key → Option V
  | .dep i => some (.frame (cum op (parts i)))
  | .prev i => some (takeLast (cum op (parts i)))
  | _ => none

def inputsPreFix (op : Nat → Nat → Nat) (parts : Nat → List Row) : Key → Option V
  | .dep i => some (.frame (cum op (parts i)))
  | .prev i => some (takeLastPreFix (cum op (parts i)))
  | _ => none

/-- all rows of the partitions before `i` -/
def before (parts : Nat → List Row) (i : Nat) : List Row := (List.range i).flatMap parts

end Dx.Cum
