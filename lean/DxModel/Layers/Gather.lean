/-
  Layers/Gather.lean — transliteration of the "one task per input partition, then one task over all of them"
  layers of /repo.  Definitions only, Mathlib-free.

  _expr.py      Lengths._layer
                    name = "part-" + self._name
                    dsk = {(name, i): (len, (self.frame._name, i)) for i in range(self.frame.npartitions)}
                    dsk[(self._name, 0)] = (tuple, list(dsk.keys()))
  _quantile.py  SeriesQuantileTdigest._layer / SeriesQuantileDask._layer
                    for i in range(self.frame.npartitions):
                        dsk[("chunk-" + self._name, i)] = (_tdigest_chunk, (getattr, (self.frame._name, i), "values"))
                                                         | (_percentile, (self.frame._name, i), calc_qs)
                    dsk[(self._name, 0)] = self._finalizer((…, sorted(dsk), …))

  _groupby.py   GroupByCumulativeFinalizer._layer (the groupby twin of CumulativeFinalize; dependencies are
                `frame`, `cum_raw`, `cum_last` at positions `dF`, `dR`, `dL` of `dependencies()`)
                    dsk = {(self._name, 0): (self.cum_raw._name, 0)}
                    name_cum = "cum-last" + self._name
                    for i in range(1, self.frame.npartitions):
                        if i == 1: dsk[(name_cum, i)] = (self.cum_last._name, i - 1)
                        else:      dsk[(name_cum, i)] = (_cum_agg_filled, (name_cum, i - 1), (self.cum_last._name, i - 1), …)
                        dsk[(self._name, i)] = (_cum_agg_aligned, (self.frame._name, i), (name_cum, i), …)
-/
import DxModel.Graph
namespace Dx.Gather
open Dx

inductive Key where
  | dep (i : Nat)            -- (frame._name, i)
  | aux (i : Nat)            -- ("part-" + self._name, i) / ("chunk-" + self._name, i)
  | out                      -- (self._name, 0)
deriving DecidableEq, Repr

/-- function codes: 0 the per-partition task (`len`, `_tdigest_chunk ∘ values`, `_percentile`),
    1 the task over all of them (`tuple`, the finalizer of the merged percentiles) -/
def chunkFn : Nat := 0
def aggFn : Nat := 1

def layer (n : Nat) : Graph Key
  | .aux i => if i < n then some (.apply chunkFn [.dep i]) else none
  | .out => some (.apply aggFn ((List.range n).map Key.aux))
  | .dep _ => none

/-- keys in dict insertion order -/
def keys (n : Nat) : List Key := (List.range n).map Key.aux ++ [Key.out]

end Dx.Gather

namespace Dx.CumG
open Dx

inductive Key where
  | dep (d i : Nat)          -- (dependencies()[d]._name, i)
  | inter (i : Nat)          -- ("cum-last" + self._name, i)
  | out (i : Nat)            -- (self._name, i)
deriving DecidableEq, Repr

structure Params where
  n : Nat                    -- self.frame.npartitions
  dF : Nat                   -- position of `frame` among the dependencies
  dR : Nat                   -- … of `cum_raw`
  dL : Nat                   -- … of `cum_last`
deriving Repr

/-- 0 = `_cum_agg_filled`, 1 = `_cum_agg_aligned` -/
def fillFn : Nat := 0
def alignFn : Nat := 1

def layer (p : Params) : Graph Key
  | .out 0 => some (.alias (.dep p.dR 0))
  | .out (i+1) => if i + 1 < p.n then some (.apply alignFn [.dep p.dF (i+1), .inter (i+1)]) else none
  | .inter 0 => none
  | .inter 1 => if 1 < p.n then some (.alias (.dep p.dL 0)) else none
  | .inter (i+2) => if i + 2 < p.n then some (.apply fillFn [.inter (i+1), .dep p.dL (i+1)]) else none
  | .dep _ _ => none

/-- keys in dict insertion order -/
def keys (p : Params) : List Key :=
  Key.out 0 :: (List.range (p.n - 1)).flatMap (fun i => [Key.inter (i+1), Key.out (i+1)])

end Dx.CumG
