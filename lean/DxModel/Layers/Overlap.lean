/-
  Layers/Overlap.lean — transliteration of `CreateOverlappingPartitions._layer` for integer
  `before` / `after`, `_combined_parts`, and of the `MapPartitions(overlapped, _overlap_chunk, …)`
  stage with dask's `overlap_chunk` (dask_expr/_expr.py: MapOverlap._lower).  Definitions only.

      prevs, nexts = [], []
      if self.before:
          prevs.append(None)
          for i in range(npartitions - 1):
              dsk[("overlap-prepend-" + self._name, i)] = (M.tail, (frame, i), before); prevs.append(that key)
      else: prevs.extend([None] * npartitions)
      if self.after:
          for i in range(1, npartitions):
              dsk[("overlap-append-" + self._name, i)] = (M.head, (frame, i), after); nexts.append(that key)
          nexts.append(None)
      else: nexts.extend([None] * npartitions)
      for i, (prev, next) in enumerate(zip(prevs, nexts)):
          dsk[(self._name, i)] = (_combined_parts, prev, (frame, i), next, self.before, self.after)

  NOT modelled: timedelta windows (`_tail_timedelta` / `_head_timedelta`), `expansion` ≠ 1 in
  `overlap_chunk` (functions that change the number of rows).
-/
import DxModel.Graph
namespace Dx.Overlap
open Dx

inductive Key where
  | dep (i : Nat)            -- (frame._name, i)
  | prep (i : Nat)           -- ("overlap-prepend-" + self._name, i)
  | app (i : Nat)            -- ("overlap-append-" + self._name, i)
  | out (i : Nat)            -- (self._name, i)                      CombinedOutput
  | res (i : Nat)            -- the MapPartitions(_overlap_chunk) task over partition i
deriving DecidableEq, Repr

structure Params where
  n : Nat                    -- frame.npartitions
  before : Nat
  after : Nat
deriving Repr

/-! function codes; the literal arguments of the real tasks are the fields of `Params`:
      0  M.tail(x, before)       1  M.head(x, after)
      2  _combined_parts(None, cur, None, before, after)     3  _combined_parts(None, cur, next, …)
      4  _combined_parts(prev, cur, None, …)                 5  _combined_parts(prev, cur, next, …)
      6  _overlap_chunk(x, func, before, after)  -/
def tailFn : Nat := 0
def headFn : Nat := 1
def combFn (hasPrev hasNext : Bool) : Nat := 2 + (if hasPrev then 2 else 0) + (if hasNext then 1 else 0)
def chunkFn : Nat := 6

/-- `prevs[i]` -/
def prevKey (p : Params) (i : Nat) : Option Key :=
  if p.before ≠ 0 then (match i with | 0 => none | i+1 => some (.prep i)) else none

/-- `nexts[i]` -/
def nextKey (p : Params) (i : Nat) : Option Key :=
  if p.after ≠ 0 then (if i + 1 < p.n then some (.app (i+1)) else none) else none

def lenPrevs (p : Params) : Nat := if p.before ≠ 0 then 1 + (p.n - 1) else p.n
def lenNexts (p : Params) : Nat := if p.after ≠ 0 then (p.n - 1) + 1 else p.n

def optKey : Option Key → List Key
  | none => []
  | some k => [k]

/-- `CreateOverlappingPartitions._layer`, plus the `_overlap_chunk` stage (`res`) -/
def layer (p : Params) : Graph Key
  | .prep i => if p.before ≠ 0 ∧ i + 1 < p.n then some (.apply tailFn [.dep i]) else none
  | .app i => if p.after ≠ 0 ∧ 1 ≤ i ∧ i < p.n then some (.apply headFn [.dep i]) else none
  | .out i =>
    if i < lenPrevs p ∧ i < lenNexts p then
      some (.apply (combFn (prevKey p i).isSome (nextKey p i).isSome)
        (optKey (prevKey p i) ++ [.dep i] ++ optKey (nextKey p i)))
    else none
  | .res i => if i < p.n then some (.apply chunkFn [.out i]) else none
  | .dep _ => none

/-- keys of `CreateOverlappingPartitions._layer` in dict insertion order -/
def keys (p : Params) : List Key :=
  (if p.before ≠ 0 then (List.range (p.n - 1)).map Key.prep else []) ++
  (if p.after ≠ 0 then (List.range (p.n - 1)).map (fun i => Key.app (i+1)) else []) ++
  (List.range (min (lenPrevs p) (lenNexts p))).map Key.out

/-! ### helper specifications (T4-checked) -/

/-- `M.tail(df, n)`: the last `n` rows -/
def tailN (n : Nat) (l : List Row) : List Row := (l.reverse.take n).reverse

/-- `_combined_parts(prev, cur, next, before, after)` for integer windows.
    `none` = the explicit `NotImplementedError("Partition size is less than overlapping window size…")`.
    The `CombinedOutput((combined, len(prev) or None, len(next) or None))` is represented by the triple
    `(prev, cur, next)` with `None` ↦ `[]` (`combined = prev ++ cur ++ next`; a length is `None` exactly
    when that piece is empty). -/
def combinedParts (before after : Nat) (prev : Option (List Row)) (cur : List Row) (next : Option (List Row)) :
    Option (List Row × List Row × List Row) :=
  match prev with
  | some pr =>
    if pr.length ≠ before then none else
    (match next with
     | some nx => if nx.length ≠ after then none else some (pr, cur, nx)
     | none => some (pr, cur, []))
  | none =>
    (match next with
     | some nx => if nx.length ≠ after then none else some ([], cur, nx)
     | none => some ([], cur, []))

def combV : Option (List Row × List Row × List Row) → V
  | none => .err
  | some (pr, cur, nx) => .pieces [pr, cur, nx]

/-- `overlap_chunk(func, before, after, combined_output)` for a row-count preserving `func`
    (`expansion = 1`):
      out = func(combined)
      if prev_part_length is None: before = None
      if next_part_length is None: return out.iloc[before:]
      return out.iloc[before:-after] -/
def overlapChunk (func : List Row → List Row) (before after : Nat) (pr cur nx : List Row) : List Row :=
  let out := func (pr ++ cur ++ nx)
  let b := if pr.length = 0 then 0 else before
  if nx.length = 0 then out.drop b else (out.take (out.length - after)).drop b

def interp (p : Params) (func : List Row → List Row) : Interp
  | 0, [.frame r] => .frame (tailN p.before r)
  | 1, [.frame r] => .frame (r.take p.after)
  | 2, [.frame cur] => combV (combinedParts p.before p.after none cur none)
  | 3, [.frame cur, .frame nx] => combV (combinedParts p.before p.after none cur (some nx))
  | 4, [.frame pr, .frame cur] => combV (combinedParts p.before p.after (some pr) cur none)
  | 5, [.frame pr, .frame cur, .frame nx] => combV (combinedParts p.before p.after (some pr) cur (some nx))
  | 6, [.pieces [pr, cur, nx]] => .frame (overlapChunk func p.before p.after pr cur nx)
  | _, _ => .err

def inputs (parts : Nat → List Row) : Key → Option V
  | .dep i => some (.frame (parts i))
  | _ => none

/-! ### the specification: a windowed operation on the whole frame -/

/-- A windowed row operation: the output row at a position depends on the row, the (up to) `b`
    rows before it (most recent first) and the (up to) `a` rows after it.
    `rpre` = rows before the current list, reversed; `post` = rows after the current list. -/
def winAux (g : List Row → Row → List Row → Row) (b a : Nat) : List Row → List Row → List Row → List Row
  | _, [], _ => []
  | rpre, r :: t, post => g (rpre.take b) r ((t ++ post).take a) :: winAux g b a (r :: rpre) t post

/-- `shift(k)`, `diff(k)`, `rolling(k+1).f()`, `ffill(limit=k)`, … on a whole frame -/
def win (g : List Row → Row → List Row → Row) (b a : Nat) (l : List Row) : List Row := winAux g b a [] l []

/-- the guard under which the partitioned algorithm answers: every partition that has a successor
    has at least `before` rows, every partition that has a predecessor at least `after` rows -/
def guardOK (p : Params) (parts : Nat → List Row) : Prop :=
  (p.before ≠ 0 → ∀ i, i + 1 < p.n → p.before ≤ (parts i).length) ∧
  (p.after ≠ 0 → ∀ i, 1 ≤ i → i < p.n → p.after ≤ (parts i).length)

def beforeRows (parts : Nat → List Row) (i : Nat) : List Row := (List.range i).flatMap parts
def afterRows (parts : Nat → List Row) (n i : Nat) : List Row := ((List.range n).drop (i+1)).flatMap parts

end Dx.Overlap
