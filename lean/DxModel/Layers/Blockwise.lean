/-
  Layers/Blockwise.lean — transliteration of `Blockwise._task`, `_blockwise_arg`, `_broadcast_dep`
  and the default `Expr._layer` (dask_expr/_expr.py, _core.py).  Definitions only, Mathlib-free.

      def _broadcast_dep(self, dep): return dep.npartitions == 1 and dep.ndim < self.ndim
      def _blockwise_arg(self, arg, i):
          if isinstance(arg, Expr): return (arg._name, 0) if self._broadcast_dep(arg) else (arg._name, i)
          else: return arg
      def _task(self, index):
          args = [self._blockwise_arg(op, index) for op in self._args]
          return (apply, self.operation, args, self._kwargs) if self._kwargs else (self.operation,) + tuple(args)
      def _layer(self): return {(self._name, i): self._task(i) for i in range(self.npartitions)}

  `MapPartitions` / `Fused` override `_broadcast_dep` to `dep.npartitions == 1` (flag `anyNdim`).
-/
import DxModel.Graph
namespace Dx.Blockwise
open Dx

inductive Key where
  | dep (d i : Nat)          -- (dependency d's _name, i)
  | out (i : Nat)            -- (self._name, i)
deriving DecidableEq, Repr

/-- an entry of `self._args` -/
inductive Arg where
  | expr (d : Nat) (npartitions ndim : Nat)   -- an `Expr` operand: index of its name among the dependencies
  | lit (text : String)                        -- anything else: embedded in the task as a literal
deriving DecidableEq, Repr

structure Params where
  n : Nat                    -- self.npartitions
  ndim : Nat                 -- self.ndim
  anyNdim : Bool             -- MapPartitions / Fused: broadcast every single-partition dependency
  args : List Arg
deriving Repr

/-- the operation (uninterpreted) -/
def opFn : Nat := 0

/-- `_broadcast_dep` -/
def broadcastDep (p : Params) (npartitions ndim : Nat) : Bool :=
  npartitions == 1 && (p.anyNdim || decide (ndim < p.ndim))

/-- `_blockwise_arg` for `Expr` operands (literals are not keys) -/
def argKey (p : Params) (i : Nat) : Arg → Option Key
  | .expr d np nd => some (.dep d (if broadcastDep p np nd then 0 else i))
  | .lit _ => none

def layer (p : Params) : Graph Key
  | .out i => if i < p.n then some (.apply opFn (p.args.filterMap (argKey p i))) else none
  | .dep _ _ => none

def keys (p : Params) : List Key := (List.range p.n).map Key.out

def inputs (vals : Nat → Nat → V) : Key → Option V
  | .dep d i => some (vals d i)
  | _ => none

/-- value of an `Expr` operand at output partition `i` -/
def argVal (p : Params) (vals : Nat → Nat → V) (i : Nat) : Arg → Option V
  | .expr d np nd => some (vals d (if broadcastDep p np nd then 0 else i))
  | .lit _ => none

/-- the argument vector with the partitioned operands replaced by the row lists `xs d` and the
    broadcast operands by their single value `bvals d` -/
def argVec (p : Params) (bvals : Nat → V) (xs : Nat → List Row) : Arg → Option V
  | .expr d np nd => some (if broadcastDep p np nd then bvals d else .frame (xs d))
  | .lit _ => none

/-- what `Blockwise._divisions` asserts: every non-broadcast dependency is partitioned like `self` -/
def WF (p : Params) : Prop :=
  ∀ d np nd, Arg.expr d np nd ∈ p.args → broadcastDep p np nd = false → np = p.n

end Dx.Blockwise
