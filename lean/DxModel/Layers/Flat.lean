/-
  Layers/Flat.lean — the hand-written `_layer()` / `_task()` generators of /repo whose graph is FLAT: one task per
  output partition `(self._name, j)`, reading only output partitions of dependencies (no internal keys).
  Every generator is transliterated as a function from its parameters to the list of entries
  `ents[j]` = what `dsk[(self._name, j)]` is.  Definitions only, Mathlib-free.

  _concat.py     StackPartition._layer (as of fix 8dd1ee6: a partition passes through unchanged only if
                 check_meta passes AND index names / series name are the declared ones — the per-frame
                 outcome `match` is a parameter)                                → `stackEnts`
                 StackPartitionInterleaved._layer                                → `interleavedEnts`
  _expr.py       Partitions._task                                                → `partitionsEnts`
                 PartitionsFiltered._task = _filtered_task(_partitions[index])   → `filteredEnts`  (leaf sources:
                     FromPandas, FromArray, FromMap, FromMapProjectable, ReadCSV, ReadParquetFSSpec,
                     ReadParquetPyarrowFS, Timeseries — their `_filtered_task` refers to no key)
                 Literal._task                                                   → `filteredEnts [0]`
                 ResolveOverlappingDivisions._layer (keys and references; the nesting of
                     drop_overlap / get_overlap inside one task is not represented)  → `resolveEnts`
  io/io.py       FusedIO._task / FusedParquetIO._task over `_fusion_buckets`     → `fusedEnts`
                 FromScalars._layer                                              → `scalarsEnts`
  io/_delayed.py FromDelayed._filtered_task (dependencies() = dfs)               → `fromDelayedEnts`
  io/parquet.py  ToParquetBarrier._layer                                         → `barrierEnts`
  _indexing.py   LocElement / LocList / LocSlice._layer (`_get_partitions` results are parameters)
                                                                                 → `locElementEnts`, `locListEnts`, `locSliceEnts`
-/
import DxModel.Graph
import DxModel.Layers.Partitions
namespace Dx.Flat
open Dx

inductive Key where
  | dep (d i : Nat)          -- (dependencies()[d]._name, i)
  | out (j : Nat)            -- (self._name, j)
deriving DecidableEq, Repr

/-- what `dsk[(self._name, j)]` is -/
inductive Ent where
  | alias (d i : Nat)                          -- the bare key `(dep_d._name, i)`
  | fn (f : Nat) (refs : List (Nat × Nat))     -- a call whose key arguments are `refs`, in order
  | lit (src : List Nat)                       -- a task without key arguments: reads source partitions `src`
deriving DecidableEq, Repr

def refKeys (refs : List (Nat × Nat)) : List Key := refs.map (fun r => Key.dep r.1 r.2)

def Ent.task : Ent → Tsk Key
  | .alias d i => .alias (.dep d i)
  | .fn f refs => .apply f (refKeys refs)
  | .lit _ => .const []

def Ent.refs : Ent → List (Nat × Nat)
  | .alias d i => [(d, i)]
  | .fn _ refs => refs
  | .lit _ => []

/-- the layer: `{(self._name, j): ents[j]}` -/
def layer (ents : List Ent) : Graph Key
  | .out j => match ents[j]? with
      | some e => some e.task
      | none => none
  | .dep _ _ => none

def keys (ents : List Ent) : List Key := (List.range ents.length).map Key.out

/-- every referenced partition exists: `depN[d]` = npartitions of dependency `d` -/
def RefsOK (ents : List Ent) (depN : List Nat) : Prop :=
  ∀ e ∈ ents, ∀ r ∈ e.refs, ∃ nd, depN[r.1]? = some nd ∧ r.2 < nd

def refsOKb (ents : List Ent) (depN : List Nat) : Bool :=
  ents.all (fun e => e.refs.all (fun r => match depN[r.1]? with
    | some nd => decide (r.2 < nd)
    | none => false))

/-! ### function codes (the literal arguments of the real calls are parameters of the classes)
      0  methods.concat([meta, (df, i)], axis, join, False, True, **kwargs)     StackPartition, no pass-through
      1  methods.concat([(df, i) for df in dfs], axis, join, False, True, …)    StackPartitionInterleaved
      2  methods.loc(part, slice(iindexer…), cindexer)   single partition / list element
      3  methods.loc(part, slice(start, None), cindexer)  first partition of a slice
      4  methods.loc(part, slice(None, None), cindexer)   inner partition of a slice (cindexer given)
      5  methods.loc(part, slice(None, stop), cindexer)   last partition of a slice
      6  check_meta / identity on a Delayed                FromDelayed
      7  write_metadata / (lambda x: None) over all parts  ToParquetBarrier
      8  type(meta)([(s, 0) for s in scalars], names, …)  FromScalars
      9  drop_overlap / methods.concat of get_overlap      ResolveOverlappingDivisions (flattened)            -/

/-! ### StackPartition -/

/-- `for i in range(df.npartitions): dsk[(name, ctr)] = (df._name, i) if match else (apply, methods.concat, …)` -/
def stackFrame (d np : Nat) (mat : Bool) : List Ent :=
  (List.range np).map (fun i => if mat then Ent.alias d i else Ent.fn 0 [(d, i)])

/-- `for df in self._frames: …` (`d` = position of the frame; a missing flag counts as "no match") -/
def stackFrom : Nat → List Nat → List Bool → List Ent
  | _, [], _ => []
  | d, np :: nps, mat => stackFrame d np (mat.headD false) ++ stackFrom (d + 1) nps mat.tail

def stackEnts (nps : List Nat) (mat : List Bool) : List Ent := stackFrom 0 nps mat

def total : List Nat → Nat
  | [] => 0
  | k :: ks => k + total ks

/-! ### StackPartitionInterleaved: `for i in range(self.npartitions): concat([(df._name, i) for df in dfs])`,
    `self.npartitions = frames[0].npartitions` (`_divisions = frames[0].divisions`) -/
def interleavedEnts (nps : List Nat) : List Ent :=
  (List.range (nps.headD 0)).map (fun i => Ent.fn 1 ((List.range nps.length).map (fun d => (d, i))))

/-! ### Partitions / PartitionsFiltered sources / FusedIO / FromDelayed -/

def partitionsEnts (P : List Nat) : List Ent := P.map (fun p => Ent.alias 0 p)

def filteredEnts (P : List Nat) : List Ent := P.map (fun p => Ent.lit [p])

/-- `_task(index) = (methods.concat, [expr._filtered_task(i) for i in self._fusion_buckets[index]])` -/
def fusedEnts (P : List Nat) (step : Nat) : List Ent := (Parts.buckets P step).map Ent.lit

/-- `_filtered_task(index) = (check_meta | identity, (self.dfs[index]._name, 0))`, `dependencies() = self.dfs` -/
def fromDelayedEnts (P : List Nat) : List Ent := P.map (fun p => Ent.fn 6 [(p, 0)])

/-! ### single-output gathers -/

/-- `{(name, 0): (f, self.frame.__dask_keys__())}` -/
def barrierEnts (n : Nat) : List Ent := [Ent.fn 7 ((List.range n).map (fun i => (0, i)))]

/-- `{(name, 0): (type(meta), [(s._name, 0) for s in self._scalars], …)}` -/
def scalarsEnts (m : Nat) : List Ent := [Ent.fn 8 ((List.range m).map (fun d => (d, 0)))]

/-! ### `_indexing.py` -/

def locElementEnts (part : Nat) : List Ent := [Ent.fn 2 [(0, part)]]

/-- `parts = sorted(_get_partitions(frame, iindexer).items())`; an empty indexer gives `{(name, 0): meta}` -/
def locListEnts (parts : List Nat) : List Ent :=
  if parts.isEmpty then [Ent.lit []] else parts.map (fun p => Ent.fn 2 [(0, p)])

/-- `cnone` = `self.cindexer is None` -/
def locSliceEnts (start stop : Nat) (cnone : Bool) : List Ent :=
  if stop = start then [Ent.fn 2 [(0, start)]]
  else
    Ent.fn 3 [(0, start)] ::
      ((List.range (stop - start - 1)).map (fun t =>
        if cnone then Ent.alias 0 (start + (t + 1)) else Ent.fn 4 [(0, start + (t + 1))]) ++
       [Ent.fn 5 [(0, stop)]])

/-! ### ResolveOverlappingDivisions (keys and references only)
    `ne` = non_empties, `ov i` = `i in overlap`, `eqNext i` = `divisions[i] == divisions[i+1]`.
    State of the loop `for i in overlap`: the pending `frames` (their key references) and the entries so far. -/

def setEnt (ents : List Ent) (j : Nat) (e : Ent) : List Ent := ents.set j e

/-- wrap entry `j` in `drop_overlap(·, divisions[i])`: the references stay, the entry becomes a call -/
def wrapDrop (ents : List Ent) (j : Nat) : List Ent :=
  match ents[j]? with
  | some e => ents.set j (Ent.fn 9 e.refs)
  | none => ents

def resolveLoop (ne : List Nat) (ov eqNext : Nat → Bool) : List Nat → List (Nat × Nat) → List Ent → List Ent
  | [], _, ents => ents
  | i :: rest, frames, ents =>
    let frames1 := frames ++ [(0, ne.getD (i - 1) 0)]
    let ents1 := wrapDrop ents (i - 1)
    if eqNext i && ov (i + 1) then resolveLoop ne ov eqNext rest frames1 ents1
    else resolveLoop ne ov eqNext rest [] (ents1.set i (Ent.fn 9 (frames1 ++ [(0, ne.getD i 0)])))

/-- `overlapIdx` = the list `overlap` (ascending) -/
def resolveEnts (ne : List Nat) (overlapIdx : List Nat) (eqNext : Nat → Bool) : List Ent :=
  if ne.isEmpty then [Ent.alias 0 0]
  else resolveLoop ne (fun i => overlapIdx.contains i) eqNext overlapIdx [] (ne.map (fun p => Ent.alias 0 p))

end Dx.Flat
