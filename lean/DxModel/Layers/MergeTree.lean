/-
  Layers/MergeTree.lean — transliteration of `RepartitionQuantiles._layer` (dask_expr/_quantiles.py) together with
  dask's `create_merge_tree` (dask/dataframe/partitionquantiles.py).  Definitions only, Mathlib-free.

      keys = self.frame.__dask_keys__()
      dtype_dsk       = {(name, 0, 0): (dtype_info, keys[0])}
      percentiles_dsk = {(name, 1, i): (percentiles_summary, key, …) for i, key in enumerate(keys)}
      merge_dsk = create_merge_tree(merge_and_compress_summaries, sorted(percentiles_dsk), name, 2)
      if not merge_dsk: merge_dsk = {(name, 2, 0): (merge_and_compress_summaries, [list(percentiles_dsk)[0]])}
      merged_key = max(merge_dsk)
      last_dsk = {(name, 0): (pd.Series, (process_val_weights, merged_key, npartitions, (name, 0, 0)), qs, None, name)}

      def create_merge_tree(func, keys, token, level):
          prev_width = len(keys); prev_keys = iter(keys); rv = {}
          while prev_width > 1:
              width = tree_width(prev_width); groups = tree_groups(prev_width, width)
              keys = [(token, level, i) for i in range(width)]
              for num, key in zip(groups, keys): rv[key] = (func, list(take(num, prev_keys)))
              prev_width = width; prev_keys = iter(keys); level += 1
          return rv

  NOT modelled: `tree_width` (float logarithms) and `tree_groups` (Bresenham): the list of group sizes of every level,
  `levels`, is a parameter; the hypothesis the layer needs of it is `levelsOK` (checked on the real values, T3).
  Model level `l` is the real level `l + 2`.
-/
import DxModel.Graph
namespace Dx.RQ
open Dx

inductive Key where
  | dep (i : Nat)            -- (frame._name, i)
  | dtype                    -- (name, 0, 0)
  | summ (i : Nat)           -- (name, 1, i)
  | node (l i : Nat)         -- (name, l + 2, i)
  | out                      -- (name, 0)
deriving DecidableEq, Repr

structure Params where
  n : Nat                    -- self.frame.npartitions
  levels : List (List Nat)   -- group sizes of every level of the merge tree (empty when n ≤ 1)
deriving Repr

def dtypeFn : Nat := 0
def summFn : Nat := 1
def mergeFn : Nat := 2
def finalFn : Nat := 3

/-- `(start, count)` of every group: `take(num, prev_keys)` consumes the previous keys consecutively -/
def spansFrom : Nat → List Nat → List (Nat × Nat)
  | _, [] => []
  | s, c :: t => (s, c) :: spansFrom (s + c) t

def spans (gs : List Nat) : List (Nat × Nat) := spansFrom 0 gs

/-- the keys a level merges: the summaries below level 0, else the nodes of the previous level -/
def prevKey (l i : Nat) : Key :=
  match l with
  | 0 => .summ i
  | l + 1 => .node l i

def total : List Nat → Nat
  | [] => 0
  | k :: ks => k + total ks

/-- `max(merge_dsk)`: the last node of the last level -/
def mergedKey (p : Params) : Key :=
  match p.levels.getLast? with
  | none => .node 0 0
  | some gs => .node (p.levels.length - 1) (gs.length - 1)

def layer (p : Params) : Graph Key
  | .dtype => some (.apply dtypeFn [.dep 0])
  | .summ i => if i < p.n then some (.apply summFn [.dep i]) else none
  | .node l i =>
    if p.levels.isEmpty then
      (if l = 0 ∧ i = 0 then some (.apply mergeFn [.summ 0]) else none)
    else match p.levels[l]? with
      | some gs => match (spans gs)[i]? with
          | some (s, c) => some (.apply mergeFn ((List.range' s c).map (prevKey l)))
          | none => none
      | none => none
  | .out => some (.apply finalFn [mergedKey p, .dtype])
  | .dep _ => none

/-- keys in dict order: `{**dtype_dsk, **percentiles_dsk, **merge_dsk, **last_dsk}` -/
def keys (p : Params) : List Key :=
  [Key.dtype] ++ (List.range p.n).map Key.summ ++
  (if p.levels.isEmpty then [Key.node 0 0]
   else ((List.range p.levels.length).zip p.levels).flatMap (fun (l, gs) => (List.range gs.length).map (Key.node l))) ++
  [Key.out]

/-- what the layer needs of the (float-computed) tree shape: a level never asks for more keys than the level below
    has, and no level is empty -/
def levelsOKFrom : Nat → List (List Nat) → Bool
  | _, [] => true
  | w, gs :: t => decide (total gs ≤ w) && decide (1 ≤ gs.length) && levelsOKFrom gs.length t

def levelsOK (p : Params) : Bool := decide (1 ≤ p.n) && levelsOKFrom p.n p.levels

end Dx.RQ
