/-
  Layers/LayerChecks.lean — executable checkers of the hypotheses under which the repartition layers are
  well formed (`LayerWF`, Lemmas/LayerRepartition.lean).  The harness runs them through the driver on the REAL
  float-computed parameters (T3); their soundness is `C09_layer_repartition_*`.  Definitions only, Mathlib-free.
-/
import DxModel.Layers.Repartition
namespace Dx.Repartition

/-- no boundary exceeds the number of input partitions (RepartitionToFewer) -/
def fewerBoundsOK (bs : List Nat) (nin : Nat) : Bool := bs.all (fun x => decide (x ≤ nin))

/-- the boundaries count the pieces (when some partition is split) or the input partitions (RepartitionSize) -/
def sizeBoundsOK (ns bs : List Nat) : Bool :=
  bs.all (fun x => decide (x ≤ (if anySplit ns then sum ns else ns.length)))

/-- decidable well-formedness of an emitted RepartitionDivisions plan: outputs refer to existing pieces, pieces to
    existing input partitions, and the dummy slice of an empty output to partition 0 -/
def divStateOK (st : DivState) (nin : Nat) : Bool :=
  closedOK st && st.pieces.all (fun s => decide (s.i < nin)) && decide (1 ≤ nin)

end Dx.Repartition
