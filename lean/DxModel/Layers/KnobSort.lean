/-
  Layers/KnobSort.lean — the sort / set_index pipeline after the divisions have been chosen
  (dask_expr/_shuffle.py: SortValues._lower, SetPartition._lower):

      partitions = set_partitions_pre(key column, divisions, ascending)      -- _SetPartitionsPreSetIndex
      shuffled   = Shuffle(assign(_partitions=partitions), "_partitions", npartitions_out = len(divisions) - 1)
      result     = map_partitions(sort, shuffled)                            -- SortValuesBlockwise / SortIndexBlockwise

  The divisions (sampled quantiles, `npartitions`, `upsample`) are an INPUT of the model: the theorems
  quantify over them.  Rows carry their sort key in `Row.idx` (integer keys, no nulls).
  Definitions only, Mathlib-free.
-/
import DxModel.Graph
namespace Dx.KS
open Dx

/-- `divisions.searchsorted(x, side="right")` on a sorted `divisions`: the number of entries `≤ x` -/
def searchsortedRight (d : List Int) (x : Int) : Nat := (d.filter (fun b => decide (b ≤ x))).length

/-- `dask.dataframe.shuffle.set_partitions_pre` for one non-null key:
    ```
    partitions = divisions.searchsorted(s, side="right") - 1                        (ascending)
    partitions = len(divisions) - divisions.searchsorted(s, side="right") - 1       (descending)
    partitions[(partitions < 0) | (partitions >= len(divisions) - 1)] = len(divisions) - 2 if ascending else 0
    ``` -/
def setPartitionsPre (d : List Int) (asc : Bool) (x : Int) : Nat :=
  let c : Int := searchsortedRight d x
  let n : Int := d.length
  let p : Int := if asc then c - 1 else n - c - 1
  if p < 0 ∨ p ≥ n - 1 then (if asc then (n - 2).toNat else 0) else p.toNat

/-- the order the result has to be in -/
def before (asc : Bool) (a b : Row) : Prop := if asc then a.idx ≤ b.idx else b.idx ≤ a.idx

instance (asc : Bool) (a b : Row) : Decidable (before asc a b) := by
  unfold before; cases asc <;> exact inferInstance

/-- output partition `o` before sorting: what `Shuffle(…, "_partitions", nout)` delivers (C12: the rows
    whose `_partitions` value is `o`, in input order for the simple/tasks shuffle) -/
def assigned (d : List Int) (asc : Bool) (o : Nat) (l : List Row) : List Row :=
  l.filter (fun r => setPartitionsPre d asc r.idx == o)

/-- the whole pipeline on the concatenated input, `srt` being the per-partition sort -/
def sortPlan (srt : List Row → List Row) (d : List Int) (asc : Bool) (l : List Row) : List Row :=
  (List.range (d.length - 1)).flatMap (fun o => srt (assigned d asc o l))

def leB (asc : Bool) (a b : Row) : Bool := if asc then decide (a.idx ≤ b.idx) else decide (b.idx ≤ a.idx)

def insertBy (asc : Bool) (a : Row) : List Row → List Row
  | [] => [a]
  | b :: t => if leB asc a b then a :: b :: t else b :: insertBy asc a t

/-- a concrete stable per-partition sort (`sort_values(kind="stable")`): insertion sort -/
def stableSort (asc : Bool) (l : List Row) : List Row := l.foldr (insertBy asc) []

def sortedInts : List Int → Bool
  | [] => true
  | [_] => true
  | a :: b :: t => decide (a ≤ b) && sortedInts (b :: t)

/-- Hypothesis about the divisions vector the quantile sampling hands to the pipeline (checked on the
    real `_calculate_divisions` output by a T3 family): ascending, at least one output partition, and
    the first division is not above any key. -/
def divsOK (d : List Int) (keys : List Int) : Bool :=
  decide (2 ≤ d.length) && sortedInts d &&
    (match d with
     | [] => false
     | d0 :: _ => keys.all (fun k => decide (d0 ≤ k)))

/-! ### the presorted fast path (`_calculate_divisions` → `SortValues._lower` / `SetIndex._lower`) -/

/-- `x.tolist() == x.sort_values(ascending=asc).tolist()` -/
def sortedIn (asc : Bool) (l : List Int) : Bool := if asc then sortedInts l else sortedInts (l.map (fun x => -x))

/-- `(maxes2 < mins2).all()`: ascending `maxes[i] < mins[i+1]`, descending `maxes[i+1] < mins[i]`
    (entries are `(min, max)` of consecutive input partitions) -/
def adjOK (asc : Bool) : List (Int × Int) → Bool
  | [] => true
  | [_] => true
  | b :: n :: t => (if asc then decide (b.2 < n.1) else decide (n.2 < b.1)) && adjOK asc (n :: t)

/-- the `presorted` flag computed from the per-partition minima and maxima (no all-null partition) -/
def presorted (asc : Bool) (bounds : List (Int × Int)) : Bool :=
  sortedIn asc (bounds.map (·.1)) && sortedIn asc (bounds.map (·.2)) && adjOK asc bounds

/-- the fast path: no shuffle, every input partition is sorted in place -/
def presortedPlan (srt : List Row → List Row) (parts : List (List Row)) : List Row := parts.flatMap srt

end Dx.KS
