/-
  Layers/GroupJoin.lean — row-list specifications of the consumers of a shuffle:
  per-partition group aggregation / groupby-apply (`ShuffleReduce`, `GroupByApply` after
  `Shuffle`) and the partition-wise `merge_chunk` of a hash join (`BlockwiseMerge`).
  Pure functions on row lists, Mathlib-free.
-/
import DxModel.Graph
namespace Dx.GJ
open Dx

/-- distinct values in order of first appearance (the group order of `groupby(sort=False)`) -/
def keysOf {κ} [DecidableEq κ] : List κ → List κ
  | [] => []
  | k :: t => k :: (keysOf t).filter (fun x => x != k)

/-- `frame.groupby(key).apply(f)` / a group-wise aggregation: `f` sees the key and the rows of one
    group (in frame order) and returns the result rows of that group -/
def groupApply {κ β} [DecidableEq κ] (key : Row → κ) (f : κ → List Row → List β) (l : List Row) : List β :=
  (keysOf (l.map key)).flatMap (fun k => f k (l.filter (fun r => key r == k)))

/-- inner join on key equality (`merge_chunk(how="inner")` on null-free keys) -/
def joinInner {κ} [DecidableEq κ] (keyL keyR : Row → κ) (L R : List Row) : List (Row × Row) :=
  L.flatMap (fun l => (R.filter (fun r => keyR r == keyL l)).map (fun r => (l, r)))

/-- the result rows of one left row given its matches: kept once with no partner when unmatched -/
def padLeft (l : Row) : List Row → List (Row × Option Row)
  | [] => [(l, none)]
  | m :: ms => (m :: ms).map (fun r => (l, some r))

/-- left join -/
def joinLeft {κ} [DecidableEq κ] (keyL keyR : Row → κ) (L R : List Row) : List (Row × Option Row) :=
  L.flatMap (fun l => padLeft l (R.filter (fun r => keyR r == keyL l)))

end Dx.GJ
