/-
  Layers/Divisions.lean — transliteration of the remaining `_divisions()` and row-count rules of C06
  (as the code is NOW):

    Concat._divisions (axis = 0)                      → `concatDivisions`
    toolz.unique(toolz.merge_sorted(…))               → `mergeUniqueAll` (indexed Merge, interleaved Concat)
    Len._simplify_down / Size / Lengths               → `lenRule`, `sizeRule`, `lengthsRule`
    ReadParquetFSSpec._get_lengths (+ _update_length_statistics), ReadParquetPyarrowFS._get_lengths
                                                      → `pqLengths`, `pqLengthsArrow`
  Definitions only, Mathlib-free.
-/
import DxModel.Graph
import DxModel.Layers.Partitions
namespace Dx.Divs
open Dx

/-! ### `unique(merge_sorted(a, b, …))` -/

/-- toolz `_merge_sorted_binary`: `if val2 < val1: yield val2 else: yield val1` -/
def merge2 : List Int → List Int → List Int
  | [], b => b
  | a, [] => a
  | x :: a, y :: b => if y < x then y :: merge2 (x :: a) b else x :: merge2 a (y :: b)
termination_by a b => a.length + b.length

/-- toolz `unique`: `seen = set(); for item in seq: if item not in seen: seen.add(item); yield item` -/
def uniq : List Int → List Int → List Int
  | [], _ => []
  | x :: t, seen => if seen.contains x then uniq t seen else x :: uniq t (x :: seen)

def mergeAll : List (List Int) → List Int
  | [] => []
  | d :: ds => merge2 d (mergeAll ds)

def mergeUniqueAll (ds : List (List Int)) : List Int := uniq (mergeAll ds) []

/-- `if len(divisions) == 1: divisions = (divisions[0], divisions[0])` -/
def fixSingle : List Int → List Int
  | [v] => [v, v]
  | l => l

/-! ### Concat._divisions, axis = 0, all input divisions known -/

/-- `all(dfs[i].divisions[-1] < dfs[i+1].divisions[0] for i in range(len(dfs)-1))` -/
def monotonic : List (List Int) → Bool
  | a :: b :: t => (match a.getLast?, b.head? with
      | some x, some y => decide (x < y)
      | _, _ => false) && monotonic (b :: t)
  | _ => true

/-- `for df in dfs[:-1]: divisions += df.divisions[:-1]; divisions += dfs[-1].divisions` -/
def stackDivisions : List (List Int) → List Int
  | [] => []
  | [d] => d
  | d :: ds => d.dropLast ++ stackDivisions ds

/-- `none` = `[None] * (sum(npartitions) + 1)` -/
def concatDivisions (ds : List (List Int)) (interleave : Bool) : Option (List Int) :=
  if monotonic ds then some (stackDivisions ds)
  else if interleave then some (fixSingle (mergeUniqueAll ds))
  else none

/-- partitions of the stacked frame (`StackPartition`): frame 0's partitions, then frame 1's, … -/
def stackParts (n₁ : Nat) (p₁ p₂ : Nat → List Row) (i : Nat) : List Row :=
  if i < n₁ then p₁ i else p₂ (i - n₁)

/-! ### Len / Size / Lengths -/

inductive LenAction where
  | childOfIndex            -- Len(self.frame.frame)
  | dep (i : Nat)           -- Len(child), child = max(frame.dependencies(), key=npartitions) (first maximum)
  | keep                    -- IO: `return self` (the source answers through its own `_simplify_up`)
  | sumOfDeps               -- Concat(axis=0): sum(Len(obj) for obj in frame.dependencies())
  | index                   -- Len(self.frame.index)
  | none
  | valueError              -- max() of an empty sequence
deriving DecidableEq, Repr

/-- position of the first maximum (Python's `max` returns the first maximal element) -/
def argmaxFirst : List Nat → Option Nat
  | [] => Option.none
  | x :: t => match argmaxFirst t with
      | Option.none => some 0
      | some i => if t.getD i 0 > x then some (i + 1) else some 0

/-- `Len._simplify_down`; `cls` ∈ {"Index", "IO", "Concat", other}; `lp` = frame._is_length_preserving,
    `childlp` = frame.frame._is_length_preserving (for Index frames), `deps` = npartitions of the dependencies -/
def lenRule (cls : String) (lp childlp : Bool) (deps : List Nat) (concatAxis0 : Bool) (ndim ncols : Nat)
    (sel childsel : Bool := false) : LenAction :=
  -- `sel` / `childsel`: the frame (the frame below an Index) is a PartitionsFiltered node that computes a SELECTION of
  -- its partitions — it has another length than its input, whatever `_is_length_preserving` says (D108)
  if cls = "Index" ∧ childlp ∧ ¬ childsel then .childOfIndex
  else if lp ∧ cls ≠ "Index" ∧ ¬ sel then (match argmaxFirst deps with
    | some i => .dep i
    | Option.none => .valueError)
  else if cls = "IO" then .keep
  else if cls = "Concat" ∧ concatAxis0 then .sumOfDeps
  else if ndim = 2 ∧ ncols > 0 then .index
  else .none

def rLenAction : LenAction → String
  | .childOfIndex => "childOfIndex"
  | .dep i => s!"dep:{i}"
  | .keep => "keep"
  | .sumOfDeps => "sumOfDeps"
  | .index => "index"
  | .none => "none"
  | .valueError => "ERR ValueError"

/-- `Size._simplify_down`: `len(columns) * Len(frame)` for frames whose number of columns is not 1 (also 0, D75),
    else `Len(frame)` -/
def sizeRule (isFrame : Bool) (ncols : Nat) : Nat × Unit :=
  (if isFrame && decide (ncols ≠ 1) then ncols else 1, ())

/-- `Lengths._simplify_down`: through Elemwise to the first dependency with the most partitions -/
def lengthsRule (isElemwise : Bool) (deps : List Nat) : Option Nat :=
  if isElemwise then argmaxFirst deps else Option.none

/-- keep the entries whose POSITION is in `P` (`… for i, x in enumerate(xs) if not filtered or i in P`) -/
def keepAt (xs : List Nat) (P : Option (List Nat)) : List Nat :=
  match P with
  | Option.none => xs
  | some p => ((List.range xs.length).filter (fun i => p.contains i)).map (fun i => xs.getD i 0)

/-- `sorted(set(P))` -/
def sortedSet (P : List Nat) : List Nat := (List.range (P.foldl max 0 + 1)).filter (fun i => P.contains i)

/-- `[d[i] for i in P]` for the dict `d = dict(zip(keys, vals))`; `none` = KeyError -/
def lookupAll (keys vals : List Nat) : List Nat → Option (List Nat)
  | [] => some []
  | i :: t => match (keys.zip vals).lookup i, lookupAll keys vals t with
      | some v, some r => some (v :: r)
      | _, _ => Option.none

/-- `ReadParquetFSSpec._get_lengths` (as fixed by D63) after `_update_length_statistics` on a plan that carries
    statistics: the cached statistics hold one entry per DISTINCT selected partition in dataset order
    (`keepAt`); they are mapped back to the order of the selection through `dict(zip(sorted(set(P)), cached))` -/
def pqLengths (stats : List Nat) (P : Option (List Nat)) : Option (List Nat) :=
  match P with
  | Option.none => some stats
  | some p => lookupAll (sortedSet p) (keepAt stats P) p

/-- `ReadParquetPyarrowFS._get_lengths` (D63): `[lengths[i] for i in self._partitions]` on the file lengths in
    fragment order; `none` = IndexError -/
def pqLengthsArrow (stats : List Nat) (P : Option (List Nat)) : Option (List Nat) :=
  match P with
  | Option.none => some stats
  | some p => Parts.pick stats p

/-- the lengths the filtered reader's partitions really have -/
def trueLengths (stats : List Nat) (P : Option (List Nat)) : List Nat :=
  match P with
  | Option.none => stats
  | some p => p.map (fun i => stats.getD i 0)

/-! ### length categories of the `_is_length_preserving` flag table -/

inductive LenCat where
  | rowLocal         -- one output row per input row (Elemwise family)
  | reorder          -- a permutation of the rows (shuffles, sorts, set_index)
  | partitionOnly    -- identity on the concatenation (repartition)
  | unclassified
deriving DecidableEq, Repr

structure LenFlag where
  name : String
  flag : Bool
  cat : LenCat
deriving Repr

def rowCountPreserving : LenCat → Bool
  | .rowLocal => true
  | .reorder => true
  | .partitionOnly => true
  | .unclassified => false

end Dx.Divs
