/-
  Layers/MergeAsof.lean — transliteration of `MergeAsofIndexed._layer` with `prefix_reduction` / `suffix_reduction`
  (dask_expr/_merge_asof.py).  Definitions only, Mathlib-free.

      def prefix_reduction(f, ddf, identity, name):           # suffix_reduction: the variants marked (S)
          n = ddf.npartitions;  N = 1;  while N < n: N *= 2
          for i in range(n):    dsk[(name, i, 1, 0)] = f((ddf._name, i), identity)          # (S) (ddf._name, n - 1 - i)
          for i in range(n, N): dsk[(name, i, 1, 0)] = identity
          d = 1
          while d < N:                                                                         # up-sweep
              for i in range(0, N, 2 * d):
                  dsk[(name, i + 2*d - 1, 2*d, 0)] = f((name, i + d - 1, d, 0), (name, i + 2*d - 1, d, 0))   # (S) swapped
              d *= 2
          dsk[(name, N - 1, N, 1)] = identity
          while d > 1:                                                                         # down-sweep
              d //= 2
              for i in range(0, N, 2 * d):
                  dsk[(name, i + d - 1, d, 1)]     = (name, i + 2*d - 1, 2*d, 1)
                  dsk[(name, i + 2*d - 1, d, 1)] = f((name, i + 2*d - 1, 2*d, 1), (name, i + d - 1, d, 0))   # (S) swapped
          for i in range(n): dsk[(name, i)] = f((name, i, 1, 1), identity)                   # (S) (name, n - 1 - i, 1, 1)

  The keys `(name, pos, d, phase)` all have `d = 2^e` and `pos = (k + 1) * 2^e - 1`: the model names them by the level
  `e` and the block number `k` (`up e k`, `down e k`); the drivers render them back to `(pos, d, phase)`, so the exact
  graph equality with the real dict validates this closed form of the loops for every `n` it is run on.

      MergeAsofIndexed._layer:
          tails = compute_tails(right, "prefix-reduction-" + name)   if direction in (backward, nearest)
          heads = compute_heads(right, "suffix_reduction-" + name)   if direction in (forward, nearest)
          for i, J in enumerate(pair_partitions(left.divisions, right.divisions)):
              frames = [merge_asof_padded(boundary_slice((left, i), lo, hi), (right, j), (tails, j)|None, (heads, j)|None)
                        for j, lo, hi in J]
              dsk[(name, i)] = (methods.concat, frames)

  NOT modelled: dask's `pair_partitions` (which right partitions meet left partition `i`): its result is the
  parameter `pairs`, the hypothesis is that every named partition exists and that there is one entry per left
  partition (T3).
-/
import DxModel.Graph
import DxModel.Plan
namespace Dx.Scan
open Dx

inductive Key where
  | src (i : Nat)            -- (ddf._name, i)
  | up (e k : Nat)           -- (name, (k+1)*2^e - 1, 2^e, 0)
  | down (e k : Nat)         -- (name, (k+1)*2^e - 1, 2^e, 1)
  | res (i : Nat)            -- (name, i)
deriving DecidableEq, Repr

structure Params where
  n : Nat                    -- ddf.npartitions
  L : Nat                    -- N = 2^L
  rev : Bool                 -- suffix_reduction
deriving Repr

/-- `N = 1; while N < n: N *= 2` as the exponent (fuel = n suffices) -/
def log2ceil (n : Nat) : Nat := (List.range (n + 1)).find? (fun l => decide (n ≤ 2 ^ l)) |>.getD n

/-- 0 = `f(partition, identity)` (leaf), 1 = `f(a, b)`, 2 = `f(down, identity)` (result) -/
def leafFn : Nat := 0
def combFn : Nat := 1
def finFn : Nat := 2

def ordered (rev : Bool) (a b : Key) : List Key := if rev then [b, a] else [a, b]

def layer (p : Params) : Graph Key
  | .up 0 k =>
    if k < 2 ^ p.L then
      (if k < p.n then some (.apply leafFn [.src (if p.rev then p.n - 1 - k else k)]) else some (.const []))
    else none
  | .up (e+1) k =>
    if e + 1 ≤ p.L ∧ k < 2 ^ (p.L - (e+1)) then some (.apply combFn (ordered p.rev (.up e (2*k)) (.up e (2*k+1))))
    else none
  | .down e k =>
    if e = p.L then (if k = 0 then some (.const []) else none)
    else if e < p.L ∧ k < 2 ^ (p.L - e) then
      (if k % 2 = 1 then some (.apply combFn (ordered p.rev (.down (e+1) (k/2)) (.up e (k-1))))
       else some (.alias (.down (e+1) (k/2))))
    else none
  | .res i => if i < p.n then some (.apply finFn [.down 0 (if p.rev then p.n - 1 - i else i)]) else none
  | .src _ => none

/-- the dict listing -/
def keys (p : Params) : List Key :=
  (List.range (2 ^ p.L)).map (Key.up 0) ++
  (List.range p.L).flatMap (fun e => (List.range (2 ^ (p.L - (e+1)))).map (Key.up (e+1))) ++
  [Key.down p.L 0] ++
  (List.range p.L).flatMap (fun e => (List.range (2 ^ (p.L - e))).map (Key.down e)) ++
  (List.range p.n).map Key.res

def rank (p : Params) : Key → Nat
  | .src _ => 0
  | .up e _ => e + 1
  | .down e _ => (p.L + 2) + (p.L - e)
  | .res _ => 2 * p.L + 3

end Dx.Scan

namespace Dx.Asof
open Dx

inductive Key where
  | l (i : Nat)              -- (left._name, i)
  | r (j : Nat)              -- (right._name, j)
  | t (k : Scan.Key)         -- a key of the prefix reduction ("prefix-reduction-" + name); never `src`
  | h (k : Scan.Key)         -- a key of the suffix reduction ("suffix_reduction-" + name); never `src`
  | out (i : Nat)            -- (name, i)
deriving DecidableEq, Repr

structure Params where
  nl : Nat                   -- left.npartitions
  m : Nat                    -- right.npartitions
  L : Nat                    -- 2^L = N of both reductions
  tails : Bool               -- direction in (backward, nearest)
  heads : Bool               -- direction in (forward, nearest)
  pairs : List (List Nat)    -- the right partitions `j` of every entry of pair_partitions(...)
deriving Repr

def tp (p : Params) : Scan.Params := { n := p.m, L := p.L, rev := false }
def hp (p : Params) : Scan.Params := { n := p.m, L := p.L, rev := true }

def embT : Scan.Key → Key
  | .src j => .r j
  | k => .t k

def embH : Scan.Key → Key
  | .src j => .r j
  | k => .h k

/-- `merge_asof_padded(boundary_slice((left, i), …), (right, j), tail, head)` per pair, all inside one concat task -/
def mergeFn : Nat := 3

def frameRefs (p : Params) (i j : Nat) : List Key :=
  [.l i, .r j] ++ (if p.tails then [.t (.res j)] else []) ++ (if p.heads then [.h (.res j)] else [])

def layer (p : Params) : Graph Key
  | .t (.src _) => none
  | .t k => if p.tails then (Scan.layer (tp p) k).map (fun t => t.mapKeys embT) else none
  | .h (.src _) => none
  | .h k => if p.heads then (Scan.layer (hp p) k).map (fun t => t.mapKeys embH) else none
  | .out i => match p.pairs[i]? with
      | some J => some (.apply mergeFn (J.flatMap (frameRefs p i)))
      | none => none
  | _ => none

def notSrc : Scan.Key → Bool
  | .src _ => false
  | _ => true

def keys (p : Params) : List Key :=
  (if p.tails then ((Scan.keys (tp p)).filter notSrc).map Key.t else []) ++
  (if p.heads then ((Scan.keys (hp p)).filter notSrc).map Key.h else []) ++
  (List.range p.pairs.length).map Key.out

/-- hypothesis on dask's `pair_partitions` (T3) and on `N`: one entry per left partition, every named right
    partition exists, `N = 2^L ≥ m` -/
def paramsOK (p : Params) : Bool :=
  decide (p.pairs.length = p.nl) && p.pairs.all (fun J => J.all (fun j => decide (j < p.m))) && decide (p.m ≤ 2 ^ p.L)

end Dx.Asof
