/-
  Layers/Shuffle.lean — transliteration of SimpleShuffle._layer, TaskShuffle._layer and
  DiskShuffle._layer (dask_expr/_shuffle.py).  Definitions only, Mathlib-free.
-/
import DxModel.Graph
namespace Dx.Shuffle
open Dx

/-- `tuple(digit(i, j, k) for j in range(stages))` -/
def digits (k stages i : Nat) : List Nat := (List.range stages).map (fun j => i / k ^ j % k)

/-- `inp_part_map[tup]`: position of a digit tuple in `inputs` = Σ d_j k^j -/
def num (k : Nat) : List Nat → Nat
  | [] => 0
  | d :: ds => d + k * num k ds

/-- Which name a key lives under: `self._name` or `"stage-s-" + self._name`. -/
inductive SName where
  | self
  | stage (s : Nat)
deriving DecidableEq, Repr

inductive Key where
  | dep (i : Nat)                                -- (frame._name, i)
  | out (n : SName) (j : Nat)                    -- (name, j)
  | ssplit (o i : Nat)                           -- simple: ("split-"+self, part_out, part_in)
  | sgroup (i : Nat)                             -- simple: ("group-"+self, part_in)
  | split (n : SName) (idx : Nat) (inp : List Nat)   -- ("split-"+name, idx, inp)
  | group (n : SName) (inp : List Nat)           -- ("group-"+name, inp)
  | empty (n : SName) (inp : List Nat)           -- ("group-"+name, inp, "empty")
  | rgroup (n : SName) (i : Nat)                 -- ("repartition-group-"+name, i)
  | partd                                        -- ("zpartd-"+uuid,)
  | dwrite (i : Nat)                             -- ("shuffle-partition-"+uuid, i)
  | barrier                                      -- ("barrier-"+uuid,)
deriving DecidableEq, Repr

structure Params where
  nin : Nat                 -- frame.npartitions
  nout : Nat                -- npartitions_out
  parts : List Nat          -- self._partitions
  filtered : Bool           -- self._filtered
  ignoreIndex : Bool
  maxBranch : Nat           -- options.max_branch or 32
  stages : Nat              -- int(ceil(log(nin)/log(max_branch)))            (float; checked by T3)
  nsplits : Nat             -- int(ceil(nin ** (1/stages))) if stages > 1 else nin
deriving Repr

/-! ### SimpleShuffle._layer -/

def simpleTask (p : Params) : Graph Key
  | .out .self j => if h : j < p.parts.length then
      some (.concat ((List.range p.nin).map (fun i => Key.ssplit p.parts[j] i)) p.ignoreIndex) else none
  | .ssplit o i => if o ∈ p.parts ∧ i < p.nin then some (.getitem (.sgroup i) o) else none
  | .sgroup i => if i < p.nin ∧ p.parts ≠ [] then
      some (.shuffleGroup (.dep i) (if p.filtered then some p.parts else none) 0 p.nout p.nout p.nout) else none
  | _ => none

/-- keys in dict insertion order (duplicates possible when `parts` repeats an entry; the
    real dict then overwrites with an identical task) -/
def simpleKeys (p : Params) : List Key :=
  ((List.range p.parts.length).zip p.parts).flatMap (fun (j, o) =>
    Key.out .self j :: (List.range p.nin).flatMap (fun i => [Key.ssplit o i, Key.sgroup i]))

/-- what every output partition must contain -/
def sem (p : Params) (inputs : Nat → List Row) (o : Nat) : List Row :=
  (List.range p.nin).flatMap (fun i => (inputs i).filter (fun r => r.tgt == o))

/-! ### TaskShuffle._layer (staged) -/

def isStaged (p : Params) : Bool := !(p.parts.length ≤ p.maxBranch || p.nin ≤ p.maxBranch)

def ninputs (p : Params) : Nat := p.nsplits ^ p.stages

/-- is `s` the last stage *and* npartitions == npartitions_input -/
def lastEq (p : Params) (s : Nat) : Bool := s + 1 == p.stages && p.nout == p.nin

def stageName (p : Params) (s : Nat) : SName := if lastEq p s then .self else .stage s

def partsOut (p : Params) (s : Nat) : List Nat := if lastEq p s then p.parts else List.range (ninputs p)

/-- the `_filter` handed to `_shuffle_group` at stage `s`.
    (the selected final partitions are translated to the digits of the stage; before the
    `fix:` commit recorded in known_findings.json as D6 the final numbers were passed) -/
def stageFilter (p : Params) (s : Nat) : Option (List Nat) :=
  if lastEq p s && p.filtered then some (p.parts.map (fun q => (digits p.nsplits p.stages q).getD s 0)) else none

/-- the stage a name belongs to, if it is one of this layer's names -/
def stageOf (p : Params) : SName → Option Nat
  | .self => if p.stages ≥ 1 ∧ lastEq p (p.stages - 1) then some (p.stages - 1) else none
  | .stage s => if s < p.stages ∧ !lastEq p s then some s else none

def validTuple (p : Params) (inp : List Nat) : Bool :=
  inp.length == p.stages && inp.all (fun d => d < p.nsplits)

/-- some requested output partition of stage `s` pulls from input tuple `inp` -/
def requested (p : Params) (s : Nat) (inp : List Nat) : Bool :=
  (partsOut p s).any (fun q => (List.range p.nsplits).any (fun i => (digits p.nsplits p.stages q).set s i == inp))

def stagedTask (p : Params) : Graph Key
  | .out n j =>
    match stageOf p n with
    | some s =>
      if h : j < (partsOut p s).length then
        let o := digits p.nsplits p.stages (partsOut p s)[j]
        some (.concat ((List.range p.nsplits).map (fun i => Key.split n (o.getD s 0) (o.set s i))) p.ignoreIndex)
      else none
    | none =>
      -- npartitions != npartitions_input: final regrouping
      if n = .self ∧ p.nout ≠ p.nin then
        if h : j < p.parts.length then
          some (.shuffleGroupGet (.rgroup (.stage (p.stages - 1)) (p.parts[j] % p.nin)) p.parts[j])
        else none
      else none
  | .split n idx inp =>
    match stageOf p n with
    | some s =>
      if (partsOut p s).any (fun q =>
            let o := digits p.nsplits p.stages q
            o.getD s 0 == idx && (List.range p.nsplits).any (fun i => o.set s i == inp))
      then some (.getitem (.group n inp) idx) else none
    | none => none
  | .group n inp =>
    match stageOf p n with
    | some s =>
      if requested p s inp then
        let part := num p.nsplits inp
        let inputKey : Key :=
          if s = 0 then (if part < p.nin then .dep part else .empty n inp)
          else .out (stageName p (s - 1)) part
        some (.shuffleGroup inputKey (stageFilter p s) s p.nsplits p.nin p.nout)
      else none
    | none => none
  | .empty n inp =>
    match stageOf p n with
    | some s => if s = 0 ∧ requested p s inp ∧ ¬ num p.nsplits inp < p.nin then some (.const []) else none
    | none => none
  | .rgroup n i =>
    if p.nout ≠ p.nin ∧ p.stages ≥ 1 ∧ n = .stage (p.stages - 1) ∧ i < p.nin then
      some (.shuffleGroup2 (.out n i) p.nout) else none
  | _ => none

def stagedKeys (p : Params) : List Key :=
  (List.range p.stages).flatMap (fun s =>
    let n := stageName p s
    ((List.range (partsOut p s).length).zip (partsOut p s)).flatMap (fun (j, q) =>
      let o := digits p.nsplits p.stages q
      Key.out n j :: (List.range p.nsplits).flatMap (fun i =>
        let inp := o.set s i
        [Key.split n (o.getD s 0) inp, Key.group n inp] ++
          (if s = 0 ∧ ¬ num p.nsplits inp < p.nin then [Key.empty n inp] else []))))
  ++ (if p.nout ≠ p.nin then
        (List.range p.nin).map (fun i => Key.rgroup (.stage (p.stages - 1)) i) ++
        (List.range p.parts.length).map (fun j => Key.out .self j)
      else [])

def taskTask (p : Params) : Graph Key := if isStaged p then stagedTask p else simpleTask p
def taskKeys (p : Params) : List Key := if isStaged p then stagedKeys p else simpleKeys p

/-! ### DiskShuffle._layer -/

def diskTask (p : Params) : Graph Key
  | .partd => some (.const [])            -- the partd file object (opaque)
  | .dwrite i => if i < p.nin then some (.diskWrite (.dep i) p.parts) else none
  | .barrier => some (.barrier ((List.range p.nin).map Key.dwrite))
  | .out .self j => if h : j < p.parts.length then
      some (.collect ((List.range p.nin).map Key.dep) p.parts[j] .barrier) else none
  | _ => none

def diskKeys (p : Params) : List Key :=
  [Key.partd] ++ (List.range p.nin).map Key.dwrite ++ [Key.barrier] ++
  (List.range p.parts.length).map (fun j => Key.out .self j)

/-- hypothesis of the staged-shuffle theorem about the float stage arithmetic (T3-checked) -/
def stageArithOK (nin stages nsplits : Nat) : Bool :=
  decide (1 ≤ stages) && decide (2 ≤ nsplits) && decide (nin ≤ nsplits ^ stages)

/-- inputs of the layer: the partitions of the frame being shuffled -/
def inputs (parts : Nat → List Row) : Key → Option V
  | .dep i => some (.frame (parts i))
  | _ => none

end Dx.Shuffle
