/-
  Layers/KnobJoin.lean — the physical join plans `Merge._lower` chooses between
  (dask_expr/_merge.py), Mathlib-free, definitions only.

    * `joinSpec`        the pandas meaning of `merge(how=…)` on whole frames (multiset of row pairs)
    * `hashPlan`        both sides hash-shuffled on the key to `n` partitions, `merge_chunk` partition-wise
                        (RearrangeByColumn ×2 + BlockwiseMerge; HashJoinP2P computes the same partitions)
    * `bcastPlan`       `BroadcastJoin`: every partition of the other side is merged with every partition of
                        the broadcast side; for `how != "inner"` the broadcast side has been hash-shuffled
                        (`RearrangeByColumn(npartitions_out = its own npartitions)`) and the other side's
                        partition is split with `_split_partition_like_shuffle`
    * `layer`/`keys`    transliteration of `BroadcastJoin._layer`
    * `lowerPlan`       transliteration of the decisions of `Merge._lower` / `is_broadcast_join` /
                        `_is_single_partition_broadcast` / `broadcast_side` / `_bcast_left/_right`; the
                        outcome of the float test `n_low < log2(n_high) * bias` is an INPUT (`thr`)
    * `allowed`         the `how × broadcast side` combinations for which replicating a side is sound
-/
import DxModel.Layers.GroupJoin
namespace Dx.KJ
open Dx GJ

inductive How where
  | inner | left | right | outer | leftsemi
deriving DecidableEq, Repr

inductive Side where
  | left | right
deriving DecidableEq, Repr

/-- a joined row: the left row and the right row it was matched with (`none` = padded with nulls) -/
abbrev JRow := Option Row × Option Row

/-- right rows without a partner on the left (the extra rows of an outer join) -/
def antiRight {κ} [DecidableEq κ] (kL kR : Row → κ) (L R : List Row) : List Row :=
  R.filter (fun r => !(L.any (fun l => kL l == kR r)))

/-- `how="leftsemi"`: the left rows that have at least one partner, each once -/
def semiLeft {κ} [DecidableEq κ] (kL kR : Row → κ) (L R : List Row) : List Row :=
  L.filter (fun l => R.any (fun r => kR r == kL l))

/-- the meaning of `left.merge(right, how=…)` on whole frames (keys without nulls) -/
def joinSpec {κ} [DecidableEq κ] (how : How) (kL kR : Row → κ) (L R : List Row) : List JRow :=
  match how with
  | .inner => (joinInner kL kR L R).map (fun p => (some p.1, some p.2))
  | .left => (joinLeft kL kR L R).map (fun p => (some p.1, p.2))
  | .right => (joinLeft kR kL R L).map (fun p => (p.2, some p.1))
  | .outer => (joinLeft kL kR L R).map (fun p => (some p.1, p.2)) ++
      (antiRight kL kR L R).map (fun r => (none, some r))
  | .leftsemi => (semiLeft kL kR L R).map (fun l => (some l, none))

/-- all rows of a partitioned frame -/
abbrev catRows (n : Nat) (rows : Nat → List Row) : List Row := (List.range n).flatMap rows

/-- rows of a frame whose (hash of the) key falls into bucket `o` of `m` -/
def bucket {κ} (h : κ → Nat) (key : Row → κ) (m o : Nat) (l : List Row) : List Row :=
  l.filter (fun r => h (key r) % m == o)

/-- Hash join: output partition `o` is `merge_chunk` of bucket `o` of both sides. -/
def hashPlan {κ} [DecidableEq κ] (how : How) (kL kR : Row → κ) (h : κ → Nat) (n : Nat)
    (L R : List Row) : List JRow :=
  (List.range n).flatMap (fun o => joinSpec how kL kR (bucket h kL n o L) (bucket h kR n o R))

/-- `merge_chunk` of one partition (piece) of the other side with one partition of the broadcast side,
    arguments in left/right order (`_merge_args.reverse()` when the left side is broadcast). -/
def mergePiece {κ} [DecidableEq κ] (how : How) (side : Side) (kL kR : Row → κ)
    (other bc : List Row) : List JRow :=
  match side with
  | .right => joinSpec how kL kR other bc
  | .left => joinSpec how kL kR bc other

/-- key function of the non-broadcast side / of the broadcast side -/
def otherKey {κ} (side : Side) (kL kR : Row → κ) : Row → κ := match side with | .right => kL | .left => kR
def bcastKey {κ} (side : Side) (kL kR : Row → κ) : Row → κ := match side with | .right => kR | .left => kL

/-- `BroadcastJoin`: output partition `i` for the other side's partition `oth`, the broadcast side
    given by its `m` partitions `bc j`.  `how = inner`: `oth` is merged with every `bc j`;
    otherwise `oth` is split into `m` hash buckets and bucket `j` is merged with `bc j`. -/
def bcastPart {κ} [DecidableEq κ] (how : How) (side : Side) (kL kR : Row → κ) (h : κ → Nat) (m : Nat)
    (bc : Nat → List Row) (oth : List Row) : List JRow :=
  (List.range m).flatMap (fun j =>
    mergePiece how side kL kR
      (if how = .inner then oth else bucket h (otherKey side kL kR) m j oth) (bc j))

def bcastPlan {κ} [DecidableEq κ] (how : How) (side : Side) (kL kR : Row → κ) (h : κ → Nat)
    (nother m : Nat) (other bc : Nat → List Row) : List JRow :=
  (List.range nother).flatMap (fun i => bcastPart how side kL kR h m bc (other i))

/-- Which side may be replicated for which `how`: every row of the OTHER side meets all its partners
    in one place, so rows of the other side may be padded/kept, rows of the replicated side may not. -/
def allowed : How → Side → Bool
  | .inner, _ => true
  | .left, .right => true
  | .right, .left => true
  | .leftsemi, .right => true
  | _, _ => false

/-! ### BroadcastJoin._layer -/

inductive Key where
  | other (i : Nat)            -- (other, part_out)
  | bc (j : Nat)               -- (bcast_name, j)
  | split (i : Nat)            -- ("split-"+name, part_out)
  | inter (i j : Nat)          -- ("inter-"+name, part_out, j)
  | out (i : Nat)              -- (name, part_out)
deriving DecidableEq, Repr

structure Params where
  how : How
  side : Side               -- self.broadcast_side
  parts : List Nat          -- self._partitions
  bsize : Nat               -- npartitions of the broadcast side
deriving Repr

/-- codes of the callables: 0 = `_split_partition_like_shuffle(·, other_on, bcast_size)`,
    1 = `merge_chunk(other, bcast)` / reversed, `2 + j` = `merge_chunk(getitem(split, j), bcast)` / reversed -/
def splitFn : Nat := 0
def mergeFn : Nat := 1
def mergeGetFn (j : Nat) : Nat := 2 + j

/-- NB the output keys are `(name, part_out)` — numbered by the *selected partition numbers*
    (see the open C11 finding about `_partitions` selections of a BroadcastJoin). -/
def layer (p : Params) : Graph Key
  | .split i => if i ∈ p.parts ∧ p.how ≠ .inner then some (.apply splitFn [.other i]) else none
  | .inter i j => if i ∈ p.parts ∧ j < p.bsize then
      (if p.how ≠ .inner then
        some (.apply (mergeGetFn j) (if p.side = .left then [.bc j, .split i] else [.split i, .bc j]))
       else some (.apply mergeFn (if p.side = .left then [.bc j, .other i] else [.other i, .bc j])))
      else none
  | .out i => if i ∈ p.parts then some (.concat ((List.range p.bsize).map (fun j => Key.inter i j)) false) else none
  | _ => none

def keys (p : Params) : List Key :=
  p.parts.flatMap (fun i =>
    (if p.how ≠ .inner then [Key.split i] else []) ++
    (List.range p.bsize).map (fun j => Key.inter i j) ++ [Key.out i])

def inputs (other bc : Nat → List Row) : Key → Option V
  | .other i => some (.frame (other i))
  | .bc j => some (.frame (bc j))
  | _ => none

/-- Interpretation of the callables of the layer.  Joined rows become frame rows through `mk`
    (the column-wise concatenation `merge_chunk` performs). -/
def interp {κ} [DecidableEq κ] (p : Params) (kL kR : Row → κ) (h : κ → Nat) (mk : JRow → Row) : Interp :=
  fun f vs =>
    match f, vs with
    | 0, [.frame rows] =>
        .pieces ((List.range p.bsize).map (fun j => bucket h (otherKey p.side kL kR) p.bsize j rows))
    | 1, [.frame a, .frame b] => .frame ((joinSpec p.how kL kR a b).map mk)
    | c + 2, [x, y] =>
        (match p.side, x, y with
         | .right, .pieces ps, .frame b =>
             (match nthPiece ps c with
              | .frame a => .frame ((joinSpec p.how kL kR a b).map mk)
              | _ => .err)
         | .left, .frame a, .pieces ps =>
             (match nthPiece ps c with
              | .frame b => .frame ((joinSpec p.how kL kR a b).map mk)
              | _ => .err)
         | _, _, _ => .err)
    | _, _ => .err

/-! ### Merge._lower: which plan -/

/-- the `broadcast` knob -/
inductive Bcast where
  | none | yes | no | bias     -- None | True | False | a float
deriving DecidableEq, Repr

/-- the shuffle method after `get_specified_shuffle` / `get_default_shuffle_method` -/
inductive Method where
  | tasks | p2p | disk
deriving DecidableEq, Repr

structure LowerIn where
  how : How
  nl : Nat                   -- left.npartitions
  nr : Nat                   -- right.npartitions
  bcast : Bcast
  method : Method
  hint : Option Nat          -- the `npartitions=` argument (operand `_npartitions`)
  thr : Bool                 -- outcome of `n_low < math.log2(n_high) * broadcast_bias`
deriving Repr

inductive Plan where
  /-- BlockwiseMerge of the unshuffled inputs (single-partition side is a broadcast dependency) -/
  | single
  /-- BroadcastJoin: broadcast side, npartitions of the other side after the optional Repartition,
      npartitions of the broadcast side, whether the broadcast side was hash-shuffled first -/
  | broadcast (side : Side) (nother bsize : Nat) (shuffled : Bool)
  /-- hash join into `n` partitions (`p2p` = HashJoinP2P, otherwise two RearrangeByColumn + BlockwiseMerge) -/
  | hash (n : Nat) (p2p : Bool)
deriving DecidableEq, Repr

/-- `Merge.broadcast_side` -/
def broadcastSide (x : LowerIn) : Side := if x.nl < x.nr then .left else .right

def howName : How → Side → Bool      -- `self.how != broadcast_side` compares strings
  | .left, .left => true
  | .right, .right => true
  | _, _ => false

/-- `Merge._is_single_partition_broadcast` -/
def isSingle (x : LowerIn) : Bool :=
  Nat.max x.nl x.nr == 1
  || (x.nl == 1 && (x.how == .right || x.how == .inner))
  || (x.nr == 1 && (x.how == .left || x.how == .inner || x.how == .leftsemi))

/-- `Merge.is_broadcast_join` -/
def isBroadcast (x : LowerIn) : Bool :=
  (x.method == .tasks || x.method == .p2p)
  && (x.how == .inner || x.how == .left || x.how == .right || x.how == .leftsemi)
  && !(howName x.how (broadcastSide x))
  && !(x.how == .leftsemi && broadcastSide x == .left)     -- `fix:` 14bac10 (D87)
  && x.bcast != .no
  && (x.bcast == .yes || x.thr)

/-- `Merge._npartitions` -/
def npartitions (x : LowerIn) : Nat :=
  match x.hint with
  | some n => n
  | none => Nat.max x.nl x.nr

/-- `Merge._lower` for a merge on columns (not the fully-indexed path) -/
def lowerPlan (x : LowerIn) : Plan :=
  if isSingle x then .single
  else if isBroadcast x then
    let side := broadcastSide x
    -- `_bcast_left` / `_bcast_right`: with a hint the other side is repartitioned to it
    let nother := match x.hint, side with
      | some n, _ => n
      | none, .right => x.nl
      | none, .left => x.nr
    let bsize := match side with | .right => x.nr | .left => x.nl
    .broadcast side nother bsize (x.how != .inner)
  else .hash (npartitions x) (x.method == .p2p)

/-- a plan is legal for `how` when the replicated side may be replicated -/
def planLegal (how : How) (nl nr : Nat) : Plan → Bool
  | .single => (nl == 1 && nr == 1) || (nl == 1 && allowed how .left) || (nr == 1 && allowed how .right)
  | .broadcast side _ _ shuffled => allowed how side && (shuffled || how == .inner)
  | .hash n _ => decide (1 ≤ n)

end Dx.KJ
