/-
  Layers/KnobReduce.lean — the two lowerings of `ApplyConcatApply` (dask_expr/_reductions.py) for
  group-wise reductions (groupby aggregations, unique, drop_duplicates, value_counts), on the
  partial results ("chunks", one frame per input partition, rows keyed by the group key):

    * `treePlan`     `split_out == 1` (and not `sort`): `TreeReduce` — the final `aggregate` sees the
                     concatenation of all chunks and aggregates it group-wise
    * `shufflePlan`  `ShuffleReduce._lower`: the chunks are hash-shuffled on `split_by` into
                     `shuffle_npartitions = max(chunked.npartitions // split_every, split_out)` partitions,
                     every partition is aggregated group-wise (`Aggregate`, blockwise), and the result is
                     repartitioned to `split_out` partitions if that is fewer (a `Repartition` keeps the
                     concatenation, C13)
  Definitions only, Mathlib-free.
-/
import DxModel.Layers.GroupJoin
namespace Dx.KR
open Dx GJ

/-- `shuffle_npartitions` of `ShuffleReduce._lower` (`split_every = 0` stands for "falsy": the code then
    uses `chunked.npartitions`) -/
def shuffleNpartitions (nin splitEvery splitOut : Nat) : Nat :=
  Nat.max (nin / (if splitEvery = 0 then nin else splitEvery)) splitOut

def treePlan {κ β} [DecidableEq κ] (key : Row → κ) (agg : κ → List Row → List β) (chunks : List Row) : List β :=
  groupApply key agg chunks

def shufflePlan {κ β} [DecidableEq κ] (key : Row → κ) (agg : κ → List Row → List β) (h : κ → Nat) (n : Nat)
    (chunks : List Row) : List β :=
  (List.range n).flatMap (fun o => groupApply key agg (chunks.filter (fun r => h (key r) % n == o)))

/-- `AssignPartitioningIndex`: the `_partitions` column is `hash(key) % npartitions` -/
def assignTgt {κ} (key : Row → κ) (h : κ → Nat) (n : Nat) (r : Row) : Row := { r with tgt := h (key r) % n }

/-- the projection after the shuffle drops the `_partitions` column -/
def dropTgt (r : Row) : Row := { r with tgt := 0 }

end Dx.KR
