/-
  Layers/Head.lean — transliteration of Head / Tail (dask_expr/_expr.py, as the code is NOW):

    Head._partitions, Head._lower          → `headPartitions`, `lowerHead`, `headTask`
    Head._divisions, BlockwiseHead._divisions
    Head._simplify_down (Elemwise / nested Head)   → `headPush`, `headNested`
    Tail._lower / _simplify_down                   → `tailTask`, `tailPush`, `tailNested`
    BlockwiseHead/BlockwiseTail._task              → `apply (headFn n safe) [frame key]`, `apply (tailFn n) […]`

  `M.head` / `safe_head` / `M.tail` are uninterpreted task functions; what the theorems assume of their
  interpretation is `HeadInterp` (validated by the T4 family `helper_specs`).  Definitions only, Mathlib-free.
-/
import DxModel.Graph
import DxModel.Layers.Partitions
namespace Dx.Head
open Dx Dx.Parts

inductive HErr where
  | value        -- ValueError: only {np} partitions, head received {k}
deriving DecidableEq, Repr

/-- `Head._partitions`: `list(range(frame.npartitions))[: npartitions]` when `npartitions > -1`, else all -/
def headPartitions (np : Nat) (k : Int) : List Nat :=
  if k > -1 then (List.range np).take k.toNat else List.range np

/-- the expression `Head._lower` returns -/
structure HeadPlan where
  parts : List Nat            -- Partitions(frame, parts)
  k : Int                     -- the `npartitions` operand handed to the first BlockwiseHead
  safe1 : Bool                -- BlockwiseHead(Partitions(…), n, k, safe1)
  second : Option Bool        -- some safe2: BlockwiseHead(Repartition(·, new_partitions=1), n, 1, safe2)
deriving DecidableEq, Repr

def lowerHead (np : Nat) (k : Int) : Except HErr HeadPlan :=
  if k > (np : Int) then .error .value
  else .ok { parts := headPartitions np k
             k := k
             safe1 := k == 1 && np != 1
             second := if k != 1 then some (k != (np : Int) && k != -1) else none }

/-- `Head._divisions`: `(d[0], d[-1])` when `npartitions <= -1`, else `(d[0], d[npartitions])`
    (Python indexing: `d[0]` with `npartitions = 0` … negative operands below -1 index from the end) -/
def headDivisions (d : List Int) (k : Int) : Option (List Int) :=
  match d[0]?, (if k ≤ -1 then d.getLast? else d[k.toNat]?) with
  | some lo, some hi => some [lo, hi]
  | _, _ => none

/-- `Tail._divisions`: `d[-2:]` -/
def tailDivisions (d : List Int) : List Int := d.drop (d.length - 2)

/-! ### task functions -/

/-- code of `M.head` (safe = false) / `safe_head` (safe = true) with argument `n` -/
def headFn (n : Nat) (safe : Bool) : Nat := 4 * n + (if safe then 2 else 0)
/-- code of `M.tail` with argument `n` -/
def tailFn (n : Nat) : Nat := 4 * n + 1

/-- what the theorems assume of the interpretation of the head / tail task functions:
    `safe_head` differs from `M.head` only by a warning -/
structure HeadInterp (I : Interp) : Prop where
  head : ∀ n safe rows, I (headFn n safe) [.frame rows] = .frame (rows.take n)
  tail : ∀ n rows, I (tailFn n) [.frame rows] = .frame (rows.drop (rows.length - n))

/-- an interpretation satisfying `HeadInterp` (non-vacuity) -/
def I0 : Interp := fun f args =>
  match args with
  | [.frame rows] => if f % 4 == 1 then .frame (rows.drop (rows.length - f / 4)) else .frame (rows.take (f / 4))
  | _ => .err

/-! ### the lowered head graph (before any further simplification)

    sel j   = Partitions(frame, parts)                 (alias)
    bh j    = BlockwiseHead(sel, n, k, safe1)          (head of every selected partition)
    rep     = RepartitionToFewer(bh, new_partitions=1) (concat; `Repartition._lower` returns its frame
                                                        unchanged when it already has one partition)
    out     = BlockwiseHead(rep, n, 1, safe2) -/

inductive Key where
  | dep (i : Nat)
  | sel (j : Nat)
  | bh (j : Nat)
  | rep
  | out
deriving DecidableEq, Repr

def headTask (pl : HeadPlan) (n : Nat) : Graph Key
  | .sel j => match pl.parts[j]? with
      | some p => some (.alias (.dep p))
      | none => none
  | .bh j => if j < pl.parts.length then some (.apply (headFn n pl.safe1) [.sel j]) else none
  | .rep => if pl.second.isSome ∧ pl.parts.length ≠ 1 then
      some (.concat ((List.range pl.parts.length).map Key.bh) false) else none
  | .out => match pl.second with
      | some safe2 => some (.apply (headFn n safe2) [if pl.parts.length = 1 then .bh 0 else .rep])
      | none => none
  | .dep _ => none

/-- the key of the single output partition -/
def outKey (pl : HeadPlan) : Key := if pl.second.isSome then .out else .bh 0

def headKeys (pl : HeadPlan) : List Key :=
  (List.range pl.parts.length).map Key.sel ++ (List.range pl.parts.length).map Key.bh ++
  (if pl.second.isSome ∧ pl.parts.length ≠ 1 then [Key.rep] else []) ++
  (if pl.second.isSome then [Key.out] else [])

def inputs (parts : Nat → List Row) : Key → Option V
  | .dep i => some (.frame (parts i))
  | _ => none

/-- `Tail._lower`: `BlockwiseTail(Partitions(frame, [frame.npartitions - 1]), n)` -/
def tailTask (np n : Nat) : Graph Key
  | .sel 0 => some (.alias (.dep (np - 1)))
  | .bh 0 => some (.apply (tailFn n) [.sel 0])
  | _ => none

def tailKeys : List Key := [.sel 0, .bh 0]

/-! ### `_simplify_down` rules -/

/-- `_has_ambiguous_operand(expr)` (D64): `expr.npartitions == 1 and any(isinstance(op, Expr) and
    0 < op.ndim < expr.ndim for op in expr.operands)` -/
def ambiguous (selfNdim selfNp : Nat) (ops : List Operand) : Bool :=
  selfNp == 1 && ops.any (fun o => o.isExpr && decide (0 < o.ndim) && decide (o.ndim < selfNdim))

/-- `Head._simplify_down` on an Elemwise frame: no rewrite (`none`) when an operand is ambiguous; otherwise
    operand `o` becomes `Head(o, n, k)` with `k` the `npartitions` OPERAND of the head, unless it is not an
    Expr or the frame broadcasts it -/
def headPush (selfNdim selfNp : Nat) (ops : List Operand) (n : Nat) (k : Int) : Option (List (Option (Nat × Int))) :=
  if ambiguous selfNdim selfNp ops then none
  else some (ops.map (fun o => if o.isExpr && !broadcastDep selfNdim false o then some (n, k) else none))

/-- nested heads: `Head(self.frame.frame, min(self.n, self.frame.n), self.frame.operand("npartitions"))` -/
def headNested (nOuter : Nat) (_kOuter : Int) (nInner : Nat) (kInner : Int) : Nat × Int :=
  (min nOuter nInner, kInner)

/-- `Tail._simplify_down` on an Elemwise frame (as fixed by D64): the same guard and the same operands as Head -/
def tailPush (selfNdim selfNp : Nat) (ops : List Operand) (n : Nat) : Option (List (Option Nat)) :=
  if ambiguous selfNdim selfNp ops then none
  else some (ops.map (fun o => if o.isExpr && !broadcastDep selfNdim false o then some n else none))

def tailNested (nOuter nInner : Nat) : Nat := min nOuter nInner

end Dx.Head
