/-
  LayerOK.lean — what a hand-written `_layer()` must satisfy (DESIGN §6 C09: `LayerOK`), stated over the
  layer's OWN key type, and the bridge to `Plan.LayerOK` (layers of a whole plan, `C09_merge_*`).

  A layer model is a graph function over a layer-specific key inductive (Layers/*.lean).  `LSpec` adds the
  classification of those keys that the property talks about:

    depOf k  = some (d, i)   the key is `(dependencies()[d]._name, i)` — owned by ANOTHER expression
    outIdx k = some i        the key is `(self._name, i)`            — what `__dask_keys__` asks for
    everything else          an internal key; its name embeds `self._name` (or a token of all operands)
                             — tied by the renderers of the drivers (`…@self:…`) in the exact graph equality

  `LayerWF L depN` (`depN[d]` = npartitions of the d-th dependency):
    (i)   outputs   every `(self._name, i)`, `i < npartitions`, is defined, and NO other `(self._name, i)` is
    (ii)  closed    a referenced key is a key of this layer, or partition `i < depN[d]` of dependency `d`
    (iii) own       the layer defines no key of another expression (keys unique to the owner)
    (iv)  ranked    a bounded rank strictly decreases along references inside the layer (acyclic)
  Definitions and proofs, Mathlib-free.
-/
import DxModel.Plan
namespace Dx

structure LSpec (κ : Type) where
  task : Graph κ
  nout : Nat                          -- self.npartitions
  out : Nat → κ                       -- (self._name, i)
  outIdx : κ → Option Nat
  depOf : κ → Option (Nat × Nat)
  rank : κ → Nat
  bound : Nat

structure LayerWF {κ} (L : LSpec κ) (depN : List Nat) : Prop where
  out_idx : ∀ i, i < L.nout → L.outIdx (L.out i) = some i
  outs_defined : ∀ i, i < L.nout → (L.task (L.out i)).isSome
  outs_exact : ∀ k i, (L.task k).isSome → L.outIdx k = some i → i < L.nout ∧ k = L.out i
  own : ∀ k, (L.task k).isSome → L.depOf k = none
  closed : ∀ k t, L.task k = some t → ∀ r ∈ t.refs,
      (L.task r).isSome ∨ (∃ d i nd, L.depOf r = some (d, i) ∧ depN[d]? = some nd ∧ i < nd)
  ranked : ∀ k t, L.task k = some t → ∀ r ∈ t.refs, (L.task r).isSome → L.rank r < L.rank k
  bounded : ∀ k, (L.task k).isSome → L.rank k ≤ L.bound

/-- the dict listing of the layer (what T2 compares with the real `_layer()`) is exactly the domain of `task` -/
def Listed {κ} (L : LSpec κ) (keys : List κ) : Prop := ∀ k, (L.task k).isSome ↔ k ∈ keys

namespace LSpec
variable {κ : Type}

/-- the keys every task of the layer reads from outside: closedness relative to them -/
def extInputs (L : LSpec κ) (depN : List Nat) (vals : Nat → Nat → V) : κ → Option V := fun k =>
  match L.depOf k with
  | some (d, i) => (match depN[d]? with
      | some nd => if i < nd then some (vals d i) else none
      | none => none)
  | none => none

/-- translate a key of the layer into a plan-level reference -/
def refMap (L : LSpec κ) (r : κ) : LRef κ :=
  match L.depOf r with
  | some (d, i) => .dep d i
  | none => .loc r

def toPLayer (L : LSpec κ) : PLayer κ :=
  { task := fun k => (L.task k).map (fun t => t.mapKeys L.refMap)
    nout := L.nout, out := L.out, rank := L.rank, bound := L.bound }

theorem toPLayer_isSome (L : LSpec κ) (k : κ) : (L.toPLayer.task k).isSome = (L.task k).isSome := by
  simp [toPLayer]

theorem refMap_loc (L : LSpec κ) (r k' : κ) (h : L.refMap r = .loc k') : r = k' ∧ L.depOf r = none := by
  unfold refMap at h
  cases hd : L.depOf r with
  | none => rw [hd] at h; simp only [LRef.loc.injEq] at h; exact ⟨h, rfl⟩
  | some p => obtain ⟨d, i⟩ := p; rw [hd] at h; cases h

end LSpec

/-- `LayerWF` is the classical pair (closed over the dependencies' outputs, ranked) of Graph.lean -/
theorem LayerWF.closed_ranked {κ} {L : LSpec κ} {depN : List Nat} (h : LayerWF L depN) (vals : Nat → Nat → V) :
    Closed L.task (L.extInputs depN vals) ∧ Ranked L.task L.rank := by
  refine ⟨?_, h.ranked⟩
  intro k t hk r hr
  rcases h.closed k t hk r hr with hs | ⟨d, i, nd, hd, hn, hi⟩
  · exact Or.inl hs
  · right; simp [LSpec.extInputs, hd, hn, hi]

/-- **bridge**: a well-formed layer model is a `LayerOK` node of every plan that supplies its dependencies -/
theorem LayerWF.toLayerOK {κ} {L : LSpec κ} {depN : List Nat} (h : LayerWF L depN)
    (P : Plan κ) (n : Nat) (deps : List Nat)
    (hdeps : ∀ (d nd : Nat), depN[d]? = some nd →
      ∃ (m : Nat) (M : PNode κ), deps[d]? = some m ∧ m < n ∧ P[m]? = some M ∧ nd ≤ M.layer.nout) :
    LayerOK P n ⟨L.toPLayer, deps⟩ where
  outs_defined := by
    intro i hi
    show (L.toPLayer.task (L.out i)).isSome
    rw [LSpec.toPLayer_isSome]; exact h.outs_defined i hi
  closed := by
    intro k t hk r hr
    simp only [LSpec.toPLayer] at hk
    cases ht0 : L.task k with
    | none => simp [ht0] at hk
    | some t0 =>
      simp only [ht0, Option.map_some, Option.some.injEq] at hk
      subst hk
      rw [Tsk.refs_mapKeys] at hr
      obtain ⟨r0, hr0, rfl⟩ := List.mem_map.mp hr
      cases hd : L.depOf r0 with
      | none =>
        left
        refine ⟨r0, by simp [LSpec.refMap, hd], ?_⟩
        rcases h.closed k t0 ht0 r0 hr0 with hs | ⟨d, i, nd, hd', _, _⟩
        · show (L.toPLayer.task r0).isSome
          rw [LSpec.toPLayer_isSome]; exact hs
        · rw [hd] at hd'; cases hd'
      | some p =>
        obtain ⟨d, i⟩ := p
        right
        rcases h.closed k t0 ht0 r0 hr0 with hs | ⟨d', i', nd, hd', hn, hi⟩
        · have := h.own r0 hs; rw [hd] at this; cases this
        · rw [hd] at hd'
          simp only [Option.some.injEq, Prod.mk.injEq] at hd'
          obtain ⟨rfl, rfl⟩ := hd'
          obtain ⟨m, M, hm, hlt, hM, hle⟩ := hdeps d nd hn
          exact ⟨d, i, m, M, by simp [LSpec.refMap, hd], hm, hlt, hM, by omega⟩
  ranked := by
    intro k t hk k' hk' hdef
    simp only [LSpec.toPLayer] at hk
    cases ht0 : L.task k with
    | none => simp [ht0] at hk
    | some t0 =>
      simp only [ht0, Option.map_some, Option.some.injEq] at hk
      subst hk
      rw [Tsk.refs_mapKeys] at hk'
      obtain ⟨r0, hr0, hmap⟩ := List.mem_map.mp hk'
      obtain ⟨rfl, _⟩ := L.refMap_loc r0 k' hmap
      have hdef' : (L.task r0).isSome := by
        have : (L.toPLayer.task r0).isSome := hdef
        rwa [LSpec.toPLayer_isSome] at this
      exact h.ranked k t0 ht0 r0 hr0 hdef'
  bounded := by
    intro k hk
    have : (L.toPLayer.task k).isSome := hk
    rw [LSpec.toPLayer_isSome] at this
    exact h.bounded k this

/-! ### a whole plan described by layer models -/

/-- a node of a plan: the layer model of the expression and the plan indices of its dependencies -/
structure MNode (κ : Type) where
  spec : LSpec κ
  deps : List Nat

def MNode.toPNode {κ} (N : MNode κ) : PNode κ := ⟨N.spec.toPLayer, N.deps⟩

/-- npartitions of the dependencies of a node, read off the plan -/
def depNOf {κ} (nodes : List (MNode κ)) (deps : List Nat) : List Nat :=
  deps.map (fun m => match nodes[m]? with
    | some M => M.spec.nout
    | none => 0)

/-- every node's dependencies precede it, and its layer is well formed for THEIR partition counts -/
def ModelPlanOK {κ} (nodes : List (MNode κ)) : Prop :=
  ∀ (n : Nat) (N : MNode κ), nodes[n]? = some N → (∀ m ∈ N.deps, m < n) ∧ LayerWF N.spec (depNOf nodes N.deps)

theorem modelPlan_planOK {κ} (nodes : List (MNode κ)) (h : ModelPlanOK nodes) :
    PlanOK (nodes.map MNode.toPNode) := by
  intro n PN hn
  rw [List.getElem?_map] at hn
  cases hN : nodes[n]? with
  | none => simp [hN] at hn
  | some N =>
    simp only [hN, Option.map_some, Option.some.injEq] at hn
    subst hn
    obtain ⟨hlt, hwf⟩ := h n N hN
    apply hwf.toLayerOK
    intro d nd hd
    simp only [depNOf, List.getElem?_map] at hd
    cases hm : N.deps[d]? with
    | none => simp [hm] at hd
    | some m =>
      simp only [hm, Option.map_some, Option.some.injEq] at hd
      have hmn : m < n := hlt m (List.mem_of_getElem? hm)
      have hnl : n < nodes.length := by
        have := List.getElem?_eq_some_iff.mp hN; exact this.1
      have hml : m < nodes.length := by omega
      have hM : nodes[m]? = some nodes[m] := List.getElem?_eq_getElem hml
      refine ⟨m, nodes[m].toPNode, rfl, hmn, ?_, ?_⟩
      · rw [List.getElem?_map, hM]; rfl
      · rw [hM] at hd
        simp only at hd
        subst hd
        exact Nat.le_refl _

end Dx
