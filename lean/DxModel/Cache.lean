/-
  Cache.lean — the planner's process-global state: `LRU` (dask_expr/_util.py), the
  get-or-compute access pattern of `_get_divisions` / `_get_mem_usages` / `_division_info`,
  the assert-on-miss read of `_SetIndexPost._divisions`, and the weak singleton table
  `Expr._instances` (`Expr.__new__`, dask_expr/_core.py).

  Mathlib-free (the driver executable links against this file).

  `LRU` transliterates the class as it is in /repo:

      class LRU(UserDict):                       # self.data = OrderedDict()
          def __getitem__(self, key):
              value = super().__getitem__(key)   # KeyError on a miss, nothing moved
              self.data.move_to_end(key)
              return value
          def __setitem__(self, key, value):
              if len(self) >= self.maxsize:      # also when `key` is already present
                  self.data.popitem(last=False)  # KeyError when the dict is empty (maxsize = 0)
              super().__setitem__(key, value)    # overwrite keeps the old position

  The state is the list of `(key, value)` pairs in OrderedDict order (head = oldest).
-/
namespace Dx.Cache

variable {κ ν : Type} [DecidableEq κ]

/-- OrderedDict contents, oldest first. -/
abbrev LRU (κ ν : Type) := List (κ × ν)

/-- `key in cache` (UserDict.__contains__ → `key in self.data`; does not touch the order) -/
def has (c : LRU κ ν) (k : κ) : Bool := c.any (fun p => p.1 == k)

/-- `self.data[key]` -/
def find : LRU κ ν → κ → Option ν
  | [], _ => none
  | (k', v) :: t, k => if k' = k then some v else find t k

/-- remove the entry of `k` (used by `move_to_end`) -/
def erase : LRU κ ν → κ → LRU κ ν
  | [], _ => []
  | (k', v) :: t, k => if k' = k then t else (k', v) :: erase t k

/-- `LRU.__getitem__`: a miss raises `KeyError` and leaves the state alone; a hit moves the entry to the end. -/
def get (c : LRU κ ν) (k : κ) : Option ν × LRU κ ν :=
  match find c k with
  | none => (none, c)
  | some v => (some v, erase c k ++ [(k, v)])

/-- `dict.__setitem__` on an OrderedDict: overwrite in place, else append. -/
def put : LRU κ ν → κ → ν → LRU κ ν
  | [], k, v => [(k, v)]
  | (k', v') :: t, k, v => if k' = k then (k, v) :: t else (k', v') :: put t k v

/-- `LRU.__setitem__`; `none` = the `KeyError` of `popitem` on an empty dict (only possible when `cap = 0`). -/
def set (cap : Nat) (c : LRU κ ν) (k : κ) (v : ν) : Option (LRU κ ν) :=
  if cap ≤ c.length then
    match c with
    | [] => none
    | _ :: rest => some (put rest k v)
  else some (put c k v)

/-! ### operation sequences -/

inductive Op (κ ν : Type) where
  | get (k : κ)
  | set (k : κ) (v : ν)
  | has (k : κ)
  | len
deriving Repr

/-- what the caller observes -/
inductive Obs (ν : Type) where
  | hit (v : ν)       -- `cache[k]` returned v
  | miss              -- `cache[k]` raised KeyError
  | ok                -- `cache[k] = v` returned
  | err               -- `cache[k] = v` raised (popitem on empty dict)
  | bool (b : Bool)   -- `k in cache`
  | nat (n : Nat)     -- `len(cache)`
deriving Repr, DecidableEq

def step (cap : Nat) (c : LRU κ ν) : Op κ ν → Obs ν × LRU κ ν
  | .get k => match get c k with
      | (some v, c') => (.hit v, c')
      | (none, c') => (.miss, c')
  | .set k v => match set cap c k v with
      | some c' => (.ok, c')
      | none => (.err, c)
  | .has k => (.bool (has c k), c)
  | .len => (.nat c.length, c)

/-- run a history; returns the observations (in order) and the final state -/
def runOps (cap : Nat) : LRU κ ν → List (Op κ ν) → List (Obs ν) × LRU κ ν
  | c, [] => ([], c)
  | c, op :: rest =>
      let r := step cap c op
      let rr := runOps cap r.2 rest
      (r.1 :: rr.1, rr.2)

/-- final state only -/
def finalState (cap : Nat) (c : LRU κ ν) (ops : List (Op κ ν)) : LRU κ ν := (runOps cap c ops).2

/-! ### the memoisation patterns

  pattern A (`_get_divisions`, `_get_mem_usages`):
      if key in cache: return cache[key]
      result = compute(key); cache[key] = result; return result
  pattern B (`FromPandas._divisions_and_locations`, `FromPandasDivisions._divisions_and_locations`):
      if key not in cache: cache[key] = compute(key)
      return cache[key]
  `compute` may raise (`f k = none`); then nothing is written.
  Result `none` = an exception escaped (compute failed, or LRU raised).
-/

def getOrComputeA (cap : Nat) (f : κ → Option ν) (c : LRU κ ν) (k : κ) : Option ν × LRU κ ν :=
  if has c k then get c k
  else match f k with
    | none => (none, c)
    | some v => match set cap c k v with
        | none => (none, c)
        | some c' => (some v, c')

def getOrComputeB (cap : Nat) (f : κ → Option ν) (c : LRU κ ν) (k : κ) : Option ν × LRU κ ν :=
  if has c k then get c k
  else match f k with
    | none => (none, c)
    | some v => match set cap c k v with
        | none => (none, c)
        | some c' => get c' k

/-- the read of `_SetIndexPost._divisions`: `assert key in divisions_lru; return divisions_lru[key]` -/
def assertHit (c : LRU κ ν) (k : κ) : Option ν × LRU κ ν :=
  if has c k then get c k else (none, c)

/-! ### `Expr._instances`: weak table name → live object

  `Expr.__new__` builds a candidate object, computes its `_name`, and returns the object already
  stored under that name if there is one, else stores and returns the candidate.  Entries vanish
  whenever the garbage collector finds the object unreferenced; the model lets *any* subset vanish
  at *any* step.  Objects are pairs `(uid, content)`; `uid` is the object identity (allocation number). -/

structure Obj (α : Type) where
  uid : Nat
  val : α
deriving Repr, DecidableEq

abbrev Tbl (η α : Type) := List (η × Obj α)

def tfind {η α : Type} [DecidableEq η] : Tbl η α → η → Option (Obj α)
  | [], _ => none
  | (n', o) :: t, n => if n' = n then some o else tfind t n

/-- `Expr.__new__(cls, *operands)`; `fresh` is the identity the candidate object would get.
    Returns the object handed to the caller and the new table. -/
def tnew {η α : Type} [DecidableEq η] (name : α → η) (t : Tbl η α) (fresh : Nat) (x : α) : Obj α × Tbl η α :=
  match tfind t (name x) with
  | some o => (o, t)
  | none => (⟨fresh, x⟩, t ++ [(name x, ⟨fresh, x⟩)])

/-- a garbage collection: exactly the entries with `keep name = true` survive -/
def tgc {η α : Type} (keep : η → Bool) (t : Tbl η α) : Tbl η α := t.filter (fun p => keep p.1)

inductive TOp (η α : Type) where
  | new (x : α)
  | gc (keep : η → Bool)

/-- run a history of constructions and collections; returns the objects handed out by every `new` -/
def trun {η α : Type} [DecidableEq η] (name : α → η) : Tbl η α → Nat → List (TOp η α) → List (Obj α) × Tbl η α
  | t, _, [] => ([], t)
  | t, n, .new x :: rest =>
      let r := tnew name t n x
      let rr := trun name r.2 (n + 1) rest
      (r.1 :: rr.1, rr.2)
  | t, n, .gc keep :: rest => trun name (tgc keep t) n rest

/-! ### observables that read process-global state

  How a method (`_meta`, `_divisions`, `_layer`, …) obtains a value `f key` that is also memoised in
  a process-global cache: -/
inductive Discipline where
  | pure          -- computed from operands only
  | recompute     -- `if key in cache: return cache[key]; v = compute(); cache[key] = v; return v`
  | assertHit     -- `assert key in cache; return cache[key]`
deriving DecidableEq, Repr

def observe {κ ν : Type} [DecidableEq κ] (d : Discipline) (cap : Nat) (f : κ → Option ν)
    (c : LRU κ ν) (k : κ) : Option ν × LRU κ ν :=
  match d with
  | .pure => (f k, c)
  | .recompute => getOrComputeA cap f c k
  | .assertHit => assertHit c k

/-- one row of Generated/CacheSites.lean: function `func` touches cache `cache` -/
structure Site where
  cache : String        -- the global object
  func : String         -- module:qualified function name
  reads : Bool          -- `cache[key]` is evaluated
  writes : Bool         -- `cache[key] = …`, `.clear()`, `.pop()`
  guarded : Bool        -- every read is protected by a membership test whose miss branch computes and stores
  asserts : Bool        -- a miss is an `assert` failure
  unreachable : Bool    -- the unguarded read sits behind `if self.operand(X) is not None: return …` and every constructor call passes X
  observable : Bool     -- `func` is (called from) `_meta` / `_divisions` / `_layer` / `npartitions` of an expression class
  key : String          -- source text of the key expression(s)
  uncovered : List String  -- inputs of the memoised computation (parameters, self.x) the key does not mention
deriving Repr, DecidableEq

end Dx.Cache
