/-
  Parquet.lean — the pure planner logic around parquet reads that is specific to C18
  (the predicate / DNF / null semantics part lives in Pred.lean, shared with C03):
    * `FusedIO._fusion_buckets`  — `[partitions[i : i + step] for i in range(0, npartitions, step)]`
    * `FusedIO._divisions`       — bucket heads + the division after the last bucket (after fix D5)
    * the overwrite guard of `to_parquet` — `(read.rstrip("/") + "/").startswith(write.rstrip("/") + "/")`
      at the level of path components.
  Mathlib-free.
-/
namespace Dx.Parquet

/-- `[l[i : i + step] for i in range(0, len l, step)]` (fuel = len l suffices for step ≥ 1) -/
def chunks {α} (step : Nat) : Nat → List α → List (List α)
  | 0, _ => []
  | _, [] => []
  | fuel+1, l => l.take step :: chunks step fuel (l.drop step)

def fusionBuckets {α} (step : Nat) (parts : List α) : List (List α) := chunks step parts.length parts

/-- divisions of the fused read: `divisions[b[0]]` for every bucket, then `divisions[last + 1]` -/
def fusedDivisions (divs : List Int) (buckets : List (List Nat)) : List Int :=
  buckets.map (fun b => divs.getD (b.headD 0) 0) ++
    [divs.getD ((buckets.getLastD []).getLastD 0 + 1) 0]

/-- overwrite guard on path components (empty trailing components removed = `rstrip("/")`) -/
def guardRefuses (readComps writeComps : List String) : Bool := writeComps.isPrefixOf readComps

theorem chunks_flatten {α} (step : Nat) (hs : 0 < step) :
    ∀ (fuel : Nat) (l : List α), l.length ≤ fuel → (chunks step fuel l).flatten = l := by
  intro fuel
  induction fuel with
  | zero => intro l h; have : l = [] := List.eq_nil_of_length_eq_zero (by omega); subst this; rfl
  | succ n ih =>
    intro l h
    cases l with
    | nil => rfl
    | cons a t =>
      simp only [chunks, List.flatten_cons]
      rw [ih ((a :: t).drop step) (by
        have hl : (a :: t).length = t.length + 1 := rfl
        rw [List.length_drop]; omega)]
      exact List.take_append_drop step (a :: t)

theorem chunks_nonempty {α} (step : Nat) (hs : 0 < step) :
    ∀ (fuel : Nat) (l : List α), ∀ b ∈ chunks step fuel l, b ≠ [] ∧ b.length ≤ step := by
  intro fuel
  induction fuel with
  | zero => intro l b hb; simp [chunks] at hb
  | succ n ih =>
    intro l b hb
    cases l with
    | nil => simp [chunks] at hb
    | cons a t =>
      simp only [chunks, List.mem_cons] at hb
      cases hb with
      | inl h =>
        subst h
        constructor
        · cases step with
          | zero => omega
          | succ s => simp
        · simp [List.length_take]; omega
      | inr h => exact ih _ b h

end Dx.Parquet
