/-
  DxModel/MetaPush.lean — projection push-down applied to expression trees (property C07, "optimization never
  changes the declared schema").

  The column rules themselves are the ones of `Dx.Cols` (transliterated from every `_simplify_up(Projection)` of
  /repo and tied to the code by C04's correspondence families): each returns, per input, the projection to put
  below the operator and whether the parent's own projection is re-applied.  `pushdown` builds the rewritten
  tree exactly as the real rules build the rewritten expression:

      type(parent)(type(self)(frame[columns], *operands[1:]), parent.operand("columns"))

  Mathlib-free.
-/
import DxModel.Meta
namespace Dx.Meta
open Dx.Cols (Parent Dep Rw Sel)

/-- `expr.columns` of a frame expression -/
def frameLabels : Sch → List Name
  | .frame cols _ => labels cols
  | _ => []

/-- `frame._meta.index.name is not None` -/
def indexNamed : Sch → Bool
  | .frame _ [(some _, _)] => true
  | .series _ _ [(some _, _)] => true
  | _ => false

/-- `frame[sel]` -/
def wrap (t : Tree) : Option Sel → Tree
  | none => t
  | some (.many cs) => .un (.getCols cs) {} t
  | some (.one c) => .un (.getCol c) {} t

/-- the parent of the rules: a column projection -/
def parentOf : UOp → Option Parent
  | .getCols cs => some (.list cs)
  | .getCol c => some (.scalar c)
  | _ => none

def child0 (rw : Rw) : Option Sel := rw.childs.headD none
def child1 (rw : Rw) : Option Sel := (rw.childs.drop 1).headD none

/-- inputs of the new Concat: the ones that are not removed, each wrapped in its projection -/
def concatInputs : List Tree → List (Option Sel) → List Bool → List Tree
  | t :: ts, s :: ss, d :: ds => if d then concatInputs ts ss ds else wrap t s :: concatInputs ts ss ds
  | _, _, _ => []

/-- the columns a list selection `g[[…]]` makes the chunk functions read from the input frame (D96) -/
def sliceCols : Slice → List Name
  | .many cs => cs
  | _ => []

/-- one application of the `_simplify_up` rule of the operator below a column projection; `deps`: the further live
    dependents of that operator (their `_projection_columns`) -/
def pushdown (deps : List Dep) : Tree → Option Tree
  | .un pop prt node =>
    match parentOf pop with
    | none => none
    | some p =>
      let reapply (keep : Bool) (t : Tree) : Tree := if keep then .un pop prt t else t
      match node with
      | .src _ => none
      | .un op rt t =>
        let F := frameLabels (declT t)
        (match op with
         | .keep =>           -- Filter (predicate elsewhere), pass-through Blockwise, cumulative …: plain_column_projection
           (Dx.Cols.plain F p deps).map (fun rw => reapply rw.keep (.un .keep rt (wrap t (child0 rw))))
         | .rename m =>
           (Dx.Cols.rename F m p deps).map (fun rw => reapply rw.keep (.un (.rename m) rt (wrap t (child0 rw))))
         | .addPrefix pre =>
           (Dx.Cols.affix false pre.length F p deps).map (fun rw => reapply rw.keep (.un (.addPrefix pre) rt (wrap t (child0 rw))))
         | .addSuffix suf =>
           (Dx.Cols.affix true suf.length F p deps).map (fun rw => reapply rw.keep (.un (.addSuffix suf) rt (wrap t (child0 rw))))
         | .setIndex c d =>   -- SetIndex._simplify_up: additional_columns=[_other]
           (Dx.Cols.keyed F [c] p deps).map (fun rw => reapply rw.keep (.un (.setIndex c d) rt (wrap t (child0 rw))))
         | .gbAgg keys sl f =>  -- groupby_projection: additional_columns=_by_columns (+ a list `_slice`)
           (Dx.Cols.keyed F (keys ++ sliceCols sl) p deps).map (fun rw => reapply rw.keep (.un (.gbAgg keys sl f) rt (wrap t (child0 rw))))
         | .resetIndex d =>
           (Dx.Cols.resetIndex F d (indexNamed (declT t)) p deps).map
             (fun rw => reapply rw.keep (.un (.resetIndex rw.drop) rt (wrap t (child0 rw))))
         | _ => none)
      | .assign c t v =>
        (Dx.Cols.assign (frameLabels (declT t)) [c] p deps).map (fun rw =>
          if rw.gone then .un pop prt t
          else reapply rw.keep (.assign c (wrap t (child0 rw)) v))
      | .merge m rt l r =>
        (Dx.Cols.merge m.cp (frameLabels (declT l)) (frameLabels (declT r)) p deps).map (fun rw =>
          reapply rw.keep (.merge m rt (wrap l (child0 rw)) (wrap r (child1 rw))))
      | .concat a i rt ts =>
        (Dx.Cols.concat a i ((declTs ts).map frameLabels) p deps).map (fun rw =>
          reapply rw.keep (.concat a i rt (concatInputs ts rw.childs rw.dropped)))
  | _ => none

end Dx.Meta
