/-
  ParquetStats.lean — the statistics logic of `dask_expr/io/parquet.py` (C18), transliterated over integer
  index keys.  Mathlib-free.

  arrow reader (`ReadParquetPyarrowFS`)
    * `_extract_stats`                     (1716-1760)  → `extractFile`     (only: a column chunk without a statistics
                                                                             object makes `col["statistics"][name]` raise)
    * `_agg_dicts` with `min` / `max` / `sum` (1763-1776) → `pyFold`, `aggFile`
    * `_aggregate_statistics_to_file`      (1795-1820)  → `aggregateToFile`
    * `_divisions_from_statistics`         (1683-1713, as fixed by D91 / fdf6fb1) → `divisionsFromStatistics`, `divLoop`
    * `_division_from_stats`               (936-949)    → `divisionFromStats`
    * `_fragment_sort_index`, `_divisions`, `fragments`, `fragments_unsorted` (957-1001) → `sortIndex`, `divisionsOut`, `fragments`
    * `_get_lengths`                       (850-859)    → `arrowGetLengths`
  fsspec reader (`ReadParquetFSSpec`)
    * `_align_statistics`                  (1374-1390)  → `alignStatistics`
    * `sorted_columns` (dask.dataframe.io.parquet.core 1281-1324, called by `_calculate_divisions`), restricted to the
      single index column                               → `sortedColumns`
    * `_calculate_divisions`               (1410-1427)  → `calculateDivisions`
    * `_plan` (the part after `_construct_collection_plan`, no filters, no row-group aggregation) (1283-1319) → `plan`
    * `_get_lengths` / `_update_length_statistics` (1321-1354) → `fsspecGetLengths`
  `ReadParquet._simplify_up` for `Lengths` / `Len` (617-625) → `lengthsPushdown`, `lenPushdown`.

  Conventions: a function that can raise returns `Res` (`raised` = the Python code raises TypeError / KeyError /
  IndexError / AssertionError there); indexing a list with a list of positions is `pick` (`none` = IndexError).
  A statistic carries min and max together (`Option (Int × Int)`): parquet's `has_min_max` is one flag.
-/
namespace Dx.PqStats

inductive Res (α : Type) where
  | ok : α → Res α
  | raised : Res α
deriving Repr, DecidableEq

/-- `[l[i] for i in idx]` / numpy fancy indexing; `none` = IndexError -/
def pick {α} (l : List α) : List Nat → Option (List α)
  | [] => some []
  | i :: t =>
    match l[i]?, pick l t with
    | some x, some r => some (x :: r)
    | _, _ => none

/-! ### arrow reader: raw statistics → file statistics -/

/-- index-column chunk of one row group as found in `fragment.metadata.to_dict()`:
    `stats = none`              — no statistics object (`col["statistics"] is None`);
    `stats = some none`         — a statistics object with `has_min_max = False` (min = max = None);
    `stats = some (some (a,b))` — min a, max b. -/
structure RawRG where
  stats : Option (Option (Int × Int))
  rows : Nat
deriving Repr, DecidableEq

structure RawFile where
  numRows : Nat          -- the file-level `num_rows` entry
  rgs : List RawRG
deriving Repr, DecidableEq

/-- a row group after `_extract_stats` -/
structure RG where
  mm : Option (Int × Int)
  rows : Nat
deriving Repr, DecidableEq

structure ExtFile where
  numRows : Nat
  rgs : List RG
deriving Repr, DecidableEq

def extractRGs : List RawRG → Res (List RG)
  | [] => .ok []
  | g :: t =>
    match g.stats, extractRGs t with
    | some mm, .ok r => .ok (⟨mm, g.rows⟩ :: r)
    | _, _ => .raised            -- `col["statistics"][name]`: 'NoneType' object is not subscriptable

def extractFile (f : RawFile) : Res ExtFile :=
  match extractRGs f.rgs with
  | .ok r => .ok ⟨f.numRows, r⟩
  | .raised => .raised

def extractAll : List RawFile → Res (List ExtFile)
  | [] => .ok []
  | f :: t =>
    match extractFile f, extractAll t with
    | .ok x, .ok r => .ok (x :: r)
    | _, _ => .raised

def allSome : List (Option Int) → Option (List Int)
  | [] => some []
  | some a :: t =>
    (match allSome t with
     | some r => some (a :: r)
     | none => none)
  | none :: _ => none

/-- Python `min(vs)` / `max(vs)` (`f` = `min` / `max` on two integers) over values that may be `None`:
    a single value is returned as it is, several values are compared (`None < x` raises TypeError) -/
def pyFold (f : Int → Int → Int) : List (Option Int) → Res (Option Int)
  | [] => .raised                 -- min([]): ValueError (never reached: `_agg_dicts` makes a key only for ≥ 1 value)
  | [x] => .ok x
  | x :: y :: t =>
    match allSome (x :: y :: t) with
    | some (a :: r) => .ok (some (r.foldl f a))
    | _ => .raised

/-- statistics of one file after `_aggregate_statistics_to_file`:
    `col = none` — the file has no row group, `_agg_dicts([])` is `{}` and there is no `"columns"` entry;
    `col = some none` — min = max = None. -/
structure AggFile where
  numRows : Nat
  col : Option (Option (Int × Int))
deriving Repr, DecidableEq

def aggFile (f : ExtFile) : Res AggFile :=
  match f.rgs with
  | [] => .ok ⟨f.numRows, none⟩
  | g :: t =>
    match pyFold min ((g :: t).map (fun r => r.mm.map (·.1))), pyFold max ((g :: t).map (fun r => r.mm.map (·.2))) with
    | .ok (some a), .ok (some b) => .ok ⟨((g :: t).map (·.rows)).sum, some (some (a, b))⟩
    | .ok none, .ok none => .ok ⟨((g :: t).map (·.rows)).sum, some none⟩
    | _, _ => .raised

def aggregateToFile : List ExtFile → Res (List AggFile)
  | [] => .ok []
  | f :: t =>
    match aggFile f, aggregateToFile t with
    | .ok x, .ok r => .ok (x :: r)
    | _, _ => .raised

/-- `raw_statistics` followed by `aggregated_statistics` -/
def aggregatedStatistics (fs : List RawFile) : Res (List AggFile) :=
  match extractAll fs with
  | .ok e => aggregateToFile e
  | .raised => .raised

/-! ### arrow reader: `_divisions_from_statistics` -/

/-- tuple comparison `(a1, a2) <= (b1, b2)` -/
def lexLe (a b : Int × Int) : Bool := decide (a.1 < b.1) || (decide (a.1 = b.1) && decide (a.2 ≤ b.2))

/-- `minmax.argsort()` together with `minmax[argsort]`: the (min, max) tuples paired with their position, sorted by
    the tuple.  (pandas sorts with numpy's quicksort, which is stable only below 17 elements; the model sorts
    stably — files with identical (min, max) may come in another order in the code, which changes neither the
    divisions nor any theorem below: they hold for every sorting permutation, see `Lemmas/ParquetStats.lean`.) -/
def argsortPairs (mm : List (Int × Int)) : List ((Int × Int) × Nat) :=
  mm.zipIdx.mergeSort (fun a b => lexLe a.1 b.1)

/-- the loop of `_divisions_from_statistics` (after fix D91, commit fdf6fb1)

        for file_min, file_max in sorted_minmax:
            if last_max is not None and file_min < last_max:
                return (None,) * (n + 1), None          # the index ranges of two files overlap
            divisions.append(file_min)
            last_max = file_max

    `none` = overlap found; otherwise the appended mins and the final `last_max` -/
def divLoop : Option Int → List (Int × Int) → Option (List Int × Option Int)
  | last, [] => some ([], last)
  | last, (mn, mx) :: t =>
    if (match last with
        | some l => decide (mn < l)
        | none => false) then none
    else
      match divLoop (some mx) t with
      | some (ds, l) => some (mn :: ds, l)
      | none => none

/-- the divisions of files read in the order `S`: every min, then the last max (specification form of the
    successful loop followed by `divisions.append(last_max)`, see `divLoop_eq` in Lemmas/ParquetStats.lean) -/
def divsOf (S : List (Int × Int)) : List Int :=
  S.map (·.1) ++ (match S.getLast? with
    | some l => [l.2]
    | none => [])

/-- what a reader reports: divisions with the order in which the files are read, or unknown divisions
    (`(None,) * (npartitions + 1)`) with the sort index the code returns next to them, or an exception -/
inductive DivOut where
  | known (divs : List Int) (order : List Nat)
  | unknown (npartitions : Nat) (order : Option (List Nat))
  | raised
deriving Repr, DecidableEq

/-- `file_stats["columns"][col_ix]["statistics"]` of every file; `none` = KeyError (a file without `"columns"`) -/
def colsOf : List AggFile → Option (List (Option (Int × Int)))
  | [] => some []
  | f :: t =>
    match f.col, colsOf t with
    | some c, some r => some (c :: r)
    | _, _ => none

def allPresent : List (Option (Int × Int)) → Option (List (Int × Int))
  | [] => some []
  | some a :: t =>
    (match allPresent t with
     | some r => some (a :: r)
     | none => none)
  | none :: _ => none

/-- `(min, max)` of every file when every file has both (`colsOf` then `allPresent`) -/
def completeStats (agg : List AggFile) : Option (List (Int × Int)) :=
  match colsOf agg with
  | some cs => allPresent cs
  | none => none

/-- the body of `_divisions_from_statistics` once `minmax` is a list of number pairs -/
def divisionsOfMinMax (mm : List (Int × Int)) : DivOut :=
  let srt := argsortPairs mm
  match divLoop none (srt.map (·.1)) with
  | none => .unknown mm.length none                        -- overlapping ranges
  | some (ds, some l) => .known (ds ++ [l]) (srt.map (·.2))
  | some (_, none) => .unknown 0 (some (srt.map (·.2)))    -- no file at all: `(None,)` (not reachable: `[]` raises before)

/-- `_divisions_from_statistics(aggregated_stats, index_name)` when the index column is found in the statistics
    (otherwise the function raises ValueError before looking at any number) -/
def divisionsFromStatistics (agg : List AggFile) : DivOut :=
  match agg with
  | [] => .raised                                     -- `aggregated_stats[0]`: IndexError
  | _ :: _ =>
    match colsOf agg with
    | none => .raised                                 -- KeyError 'columns'
    | some cs =>
      match allPresent cs with
      | some mm => divisionsOfMinMax mm
      | none =>
        -- tuples (None, None): equal tuples sort without comparing their members; comparing one of them with a
        -- tuple of numbers raises TypeError
        if cs.all (fun c => c.isNone) then .unknown agg.length (some (List.range agg.length)) else .raised

/-- `ReadParquetPyarrowFS._division_from_stats` (`self.index` is the `Index` expression, never `None`) -/
def divisionFromStats (calcDiv : Bool) (nfragments : Nat) (agg : Res (List AggFile)) : DivOut :=
  if calcDiv then
    (match agg with
     | .ok a => divisionsFromStatistics a
     | .raised => .raised)
  else .unknown nfragments none

/-- `_fragment_sort_index` -/
def sortIndex : DivOut → Option (List Nat)
  | .known _ o => some o
  | .unknown _ o => o
  | .raised => none

/-- `fragments`: `fragments_unsorted[sort_index]` when there is a sort index -/
def fragments {α} (out : DivOut) (unsorted : List α) : Option (List α) :=
  match sortIndex out with
  | some σ => pick unsorted σ
  | none => some unsorted

/-- `ReadParquetPyarrowFS._get_lengths` (`sel` = the `_partitions` operand, `none` when not filtered);
    `ok none` = no metadata answer (the reader has filters) -/
def arrowGetLengths (hasFilters : Bool) (agg : List AggFile) (sortIdx : Option (List Nat)) (sel : Option (List Nat)) :
    Res (Option (List Nat)) :=
  if hasFilters then .ok none else
  let lengths := agg.map (·.numRows)
  let sorted := (match sortIdx with
    | some σ => pick lengths σ
    | none => some lengths)
  match sorted with
  | none => .raised
  | some l =>
    match sel with
    | none => .ok (some l)
    | some P =>
      match pick l P with
      | some r => .ok (some r)
      | none => .raised

/-! ### fsspec reader -/

/-- the index column entry of one part's statistics as `_construct_collection_plan` delivers it:
    `noName`   — `{"null_count": k}` ("dangerous" statistics: min == max with nulls; no name, no min/max);
    `nameOnly` — `{"name": …}` (no statistics for the column chunk);
    `mm v`     — `{"name", "min", "max", "null_count"}` with min = max = None when `v = none`. -/
inductive FCol where
  | noName
  | nameOnly
  | mm (v : Option (Int × Int))
deriving Repr, DecidableEq

structure FStat where
  numRows : Nat
  col : FCol
deriving Repr, DecidableEq

def FCol.hasMinMax : FCol → Bool
  | .mm _ => true
  | _ => false

/-- `_align_statistics(parts, statistics)` -/
def alignStatistics {α} (parts : List α) (stats : List FStat) : List α × List FStat :=
  let stats := if !stats.isEmpty && parts.length != stats.length then [] else stats
  if stats.isEmpty then (parts, stats)
  else
    let z := (parts.zip stats).filter (fun p => decide (p.2.numRows > 0))
    (z.map (·.1), z.map (·.2))

/-- loop of `sorted_columns` after the first part: `divs` so far, `mx` the max of the last accepted part;
    `none` = `success = False` -/
def scLoop (divs : List Int) (mx : Int) : List FStat → Option (List Int × Int)
  | [] => some (divs, mx)
  | c :: t =>
    match c.col with
    | .mm (some (mn, mx')) => if mn ≥ mx then scLoop (divs ++ [mn]) mx' t else none
    | _ => none

def isSortedInts : List Int → Bool
  | a :: b :: t => decide (a ≤ b) && isSortedInts (b :: t)
  | _ => true

/-- `sorted_columns(statistics, columns=[index])` for the index column: `ok (some d)` = the column is reported as
    sorted with divisions `d`, `ok none` = not reported -/
def sortedColumns (stats : List FStat) : Res (Option (List Int)) :=
  match stats with
  | [] => .ok none
  | first :: rest =>
    match first.col with
    | .noName => .raised                                        -- `c["name"]`: KeyError
    | .nameOnly => .ok none
    | .mm v =>
      if !(rest.all (fun s => s.col.hasMinMax)) then .ok none   -- `"min" in s["columns"][i] and "max" in …`
      else
        match v with
        | none =>
          -- success = False, max = None; the loop still looks at the next part
          (match rest with
           | ⟨_, .mm (some _)⟩ :: _ => .raised                  -- `c["min"] >= None`: TypeError
           | _ => .ok none)
        | some (mn, mx) =>
          match scLoop [mn] mx rest with
          | none => .ok none
          | some (divs, mx') =>
            let d := divs ++ [mx']
            if isSortedInts d then .ok (some d) else .raised   -- `assert divisions == sorted(divisions)`

/-- `_calculate_divisions(statistics, dataset_info, npartitions)`: `gather` = `dataset_info["gather_statistics"]`,
    `calcDiv` = `calculate_divisions is not False`, `singleIndex` = the index is exactly one column -/
def calculateDivisions (stats : List FStat) (gather calcDiv singleIndex : Bool) (npartitions : Nat) : DivOut :=
  if !stats.isEmpty && gather && calcDiv && singleIndex then
    match sortedColumns stats with
    | .raised => .raised
    | .ok (some d) => if d.isEmpty then .unknown npartitions none else .known d (List.range npartitions)
    | .ok none => .unknown npartitions none
  else .unknown npartitions none

structure Plan (α : Type) where
  empty : Bool
  parts : List α
  stats : List FStat
  divisions : DivOut

/-- `ReadParquetFSSpec._plan` after `_construct_collection_plan` returned `(parts, stats)` (no filters; the
    row-group aggregation of `_aggregate_row_groups` is the identity unless parts are split by row group) -/
def plan {α} (parts : List α) (stats : List FStat) (gather calcDiv singleIndex : Bool) : Plan α :=
  let ps := alignStatistics parts stats
  match calculateDivisions ps.2 gather calcDiv singleIndex ps.1.length with
  | .unknown 0 _ => ⟨true, [], ps.2, .unknown 1 none⟩          -- `len(divisions) < 2`: one partition holding the meta
  | d => ⟨false, ps.1, ps.2, d⟩

/-- `sorted(set(P))` for partition numbers -/
def sortedSet (P : List Nat) : List Nat := (List.range (P.foldl max 0 + 1)).filter (fun i => P.contains i)

/-- `_update_length_statistics` on plan statistics: `num-rows` of the parts `i` with `not filtered or i in _partitions` -/
def lengthStatistics (rows : List Nat) (sel : Option (List Nat)) : List Nat :=
  rows.zipIdx.filterMap (fun p =>
    match sel with
    | none => some p.1
    | some P => if P.contains p.2 then some p.1 else none)

def lookupAll (tbl : List (Nat × Nat)) : List Nat → Option (List Nat)
  | [] => some []
  | i :: t =>
    match tbl.lookup i, lookupAll tbl t with
    | some x, some r => some (x :: r)
    | _, _ => none

/-- `ReadParquetFSSpec._get_lengths` when the plan has statistics (`rows` = their `num-rows`) -/
def fsspecGetLengths (hasFilters : Bool) (rows : List Nat) (sel : Option (List Nat)) : Res (Option (List Nat)) :=
  if hasFilters then .ok none else
  let st := lengthStatistics rows sel
  match sel with
  | none => .ok (some st)
  | some P =>
    match lookupAll ((sortedSet P).zip st) P with     -- `by_partition[i]`: KeyError
    | some r => .ok (some r)
    | none => .raised

/-- `ReadParquet._simplify_up(Lengths)`: `Literal(_lengths)` when `_lengths` is truthy -/
def lengthsPushdown (l : Res (Option (List Nat))) : Res (Option (List Nat)) :=
  match l with
  | .ok (some []) => .ok none
  | x => x

/-- `ReadParquet._simplify_up(Len)`: `Literal(sum(_lengths))` -/
def lenPushdown (l : Res (Option (List Nat))) : Res (Option Nat) :=
  match lengthsPushdown l with
  | .ok (some r) => .ok (some r.sum)
  | .ok none => .ok none
  | .raised => .raised

/-! ### specification vocabulary (what "truthful" means; used by `Props/C18.lean`) -/

/-- the (non-null) index values of file `i` lie within that file's statistics `[min, max]` -/
def Within (S : List (Int × Int)) (files : List (List Int)) : Prop :=
  S.length = files.length ∧
    ∀ (i : Nat) (s : Int × Int) (f : List Int), S[i]? = some s → files[i]? = some f → ∀ v ∈ f, s.1 ≤ v ∧ v ≤ s.2

/-- divisions `d` are truthful for the partitions `parts` in the sense of C06 (`DivInv` without the row order
    inside a partition): sorted, one more than partitions, partition `i` within `[d i, d (i+1))`, last one closed -/
structure Truthful (d : List Int) (parts : List (List Int)) : Prop where
  len : d.length = parts.length + 1
  sorted : d.Pairwise (· ≤ ·)
  bounds : ∀ (i : Nat) (lo hi : Int) (p : List Int), d[i]? = some lo → d[i+1]? = some hi → parts[i]? = some p → ∀ v ∈ p,
    lo ≤ v ∧ (v < hi ∨ (i + 2 = d.length ∧ v = hi))

/-- the weaker reading with closed intervals `[d i, d (i+1)]` for every partition -/
structure TruthfulClosed (d : List Int) (parts : List (List Int)) : Prop where
  len : d.length = parts.length + 1
  sorted : d.Pairwise (· ≤ ·)
  bounds : ∀ (i : Nat) (lo hi : Int) (p : List Int), d[i]? = some lo → d[i+1]? = some hi → parts[i]? = some p → ∀ v ∈ p, lo ≤ v ∧ v ≤ hi

/-- the concatenated partitions are sorted by index across partition borders -/
def SortedAcross (parts : List (List Int)) : Prop :=
  ∀ (i j : Nat) (p q : List Int), i < j → parts[i]? = some p → parts[j]? = some q → ∀ v ∈ p, ∀ w ∈ q, v ≤ w

/-- `(min, max)` of the parts of an fsspec plan when every part has numbers -/
def mmOf : List FStat → Option (List (Int × Int))
  | [] => some []
  | s :: t =>
    match s.col, mmOf t with
    | .mm (some v), some r => some (v :: r)
    | _, _ => none

end Dx.PqStats
