/-
  Plan.lean — assembling the task graph of a whole plan from the layers of its expressions
  (model of `Expr.__dask_graph__`: walk the DAG, `toolz.merge` the layers).

  A plan is a list of nodes in topological numbering; node `n` owns a layer whose tasks refer
  either to keys of the same layer (`LRef.loc`) or to an output partition of one of the node's
  dependencies (`LRef.dep d i` = partition `i` of the `d`-th dependency).  Global keys are pairs
  `(node, local key)`: *that every real key embeds the name of the expression that owns it* is
  exactly what makes `toolz.merge` unambiguous; it is the assumption this representation encodes and
  the T2 graph-equality checks establish it for every modelled layer (owner tag `@self`).
-/
import DxModel.Graph
namespace Dx

namespace Tsk
/-- rename the keys of a task -/
def mapKeys {κ κ'} (f : κ → κ') : Tsk κ → Tsk κ'
  | .alias k => .alias (f k)
  | .const r => .const r
  | .concat ks ii => .concat (ks.map f) ii
  | .getitem k i => .getitem (f k) i
  | .shuffleGroup k fl s n m q => .shuffleGroup (f k) fl s n m q
  | .shuffleGroup2 k n => .shuffleGroup2 (f k) n
  | .shuffleGroupGet k i => .shuffleGroupGet (f k) i
  | .boundarySlice k lo hi incl => .boundarySlice (f k) lo hi incl
  | .splitEvenly k n => .splitEvenly (f k) n
  | .pieceOf k i => .pieceOf (f k) i
  | .diskWrite k fl => .diskWrite (f k) fl
  | .barrier ks => .barrier (ks.map f)
  | .collect ks p b => .collect (ks.map f) p (f b)
  | .apply g args => .apply g (args.map f)

theorem refs_mapKeys {κ κ'} (f : κ → κ') (t : Tsk κ) : (t.mapKeys f).refs = t.refs.map f := by
  cases t <;> simp [mapKeys, refs]
end Tsk

inductive LRef (κ : Type) where
  | loc (k : κ)
  | dep (d i : Nat)
deriving DecidableEq, Repr

structure PLayer (κ : Type) where
  task : κ → Option (Tsk (LRef κ))
  nout : Nat                 -- npartitions of the expression
  out : Nat → κ              -- local key of output partition i  (the real key is (name, i))
  rank : κ → Nat             -- local rank (decreasing along local references)
  bound : Nat                -- bound of the local ranks of defined keys

structure PNode (κ : Type) where
  layer : PLayer κ
  deps : List Nat            -- indices of the dependencies in the plan (all smaller than the node's own)

abbrev Plan (κ : Type) := List (PNode κ)

/-- What a layer must satisfy (DESIGN §6 C09: `LayerOK`). -/
structure LayerOK {κ} (P : Plan κ) (n : Nat) (N : PNode κ) : Prop where
  /-- (i) every reported output key is defined -/
  outs_defined : ∀ i, i < N.layer.nout → (N.layer.task (N.layer.out i)).isSome
  /-- (ii) every referenced key is a defined local key or an existing output of a dependency -/
  closed : ∀ k t, N.layer.task k = some t → ∀ r ∈ t.refs,
      (∃ k', r = .loc k' ∧ (N.layer.task k').isSome) ∨
      (∃ d i m M, r = .dep d i ∧ N.deps[d]? = some m ∧ m < n ∧ P[m]? = some M ∧ i < M.layer.nout)
  /-- (iv) local references strictly decrease the local rank, which is bounded -/
  ranked : ∀ k t, N.layer.task k = some t → ∀ k', LRef.loc k' ∈ t.refs →
      (N.layer.task k').isSome → N.layer.rank k' < N.layer.rank k
  bounded : ∀ k, (N.layer.task k).isSome → N.layer.rank k ≤ N.layer.bound

def PlanOK {κ} (P : Plan κ) : Prop := ∀ n N, P[n]? = some N → LayerOK P n N

/-- translate a layer-local reference of node `N` into a global key -/
def resolve {κ} [Inhabited κ] (P : Plan κ) (n : Nat) (N : PNode κ) : LRef κ → Nat × κ
  | .loc k => (n, k)
  | .dep d i => match N.deps[d]? with
      | some m => match P[m]? with
          | some M => (m, M.layer.out i)
          | none => (m, default)
      | none => (n, default)   -- unreachable for PlanOK plans

/-- the merged graph (`toolz.merge` of all layers) over global keys -/
def merged {κ} [Inhabited κ] (P : Plan κ) : Graph (Nat × κ)
  | (n, k) => match P[n]? with
      | some N => (N.layer.task k).map (fun t => t.mapKeys (resolve P n N))
      | none => none

def maxBound {κ} : Plan κ → Nat
  | [] => 0
  | N :: t => max N.layer.bound (maxBound t)

theorem bound_le_max {κ} (P : Plan κ) (n : Nat) (N : PNode κ) (h : P[n]? = some N) :
    N.layer.bound ≤ maxBound P := by
  induction P generalizing n with
  | nil => simp at h
  | cons M t ih =>
    cases n with
    | zero => simp at h; subst h; simp [maxBound]; omega
    | succ n =>
      have := ih n (by simpa using h)
      simp [maxBound]; omega

/-- lexicographic rank (node, local rank) packed into a natural number -/
def globalRank {κ} (P : Plan κ) : Nat × κ → Nat
  | (n, k) => match P[n]? with
      | some N => n * (maxBound P + 1) + N.layer.rank k
      | none => 0

theorem merged_some {κ} [Inhabited κ] (P : Plan κ) (n : Nat) (k : κ) (t : Tsk (Nat × κ))
    (h : merged P (n, k) = some t) :
    ∃ N t0, P[n]? = some N ∧ N.layer.task k = some t0 ∧ t = t0.mapKeys (resolve P n N) := by
  simp only [merged] at h
  cases hN : P[n]? with
  | none => simp [hN] at h
  | some N =>
    simp only [hN] at h
    cases ht : N.layer.task k with
    | none => simp [ht] at h
    | some t0 => simp [ht] at h; exact ⟨N, t0, rfl, ht, h.symm⟩

/-- **C09, closure**: in a plan whose layers are all `LayerOK`, every key referenced by a task of the
    merged graph is defined in the merged graph (no external inputs are needed at all). -/
theorem merged_closed {κ} [Inhabited κ] (P : Plan κ) (hP : PlanOK P) :
    Closed (merged P) (fun _ => none) := by
  intro gk t hg d hd
  obtain ⟨n, k⟩ := gk
  obtain ⟨N, t0, hN, ht0, rfl⟩ := merged_some P n k t hg
  rw [Tsk.refs_mapKeys] at hd
  obtain ⟨r, hr, rfl⟩ := List.mem_map.mp hd
  left
  have ok := hP n N hN
  rcases ok.closed k t0 ht0 r hr with ⟨k', rfl, hk'⟩ | ⟨dd, i, m, M, rfl, hm, _, hM, hi⟩
  · simp only [resolve, merged, hN]
    cases h' : N.layer.task k' with
    | none => simp [h'] at hk'
    | some _ => simp
  · simp only [resolve, hm, hM, merged]
    have okM := hP m M hM
    have := okM.outs_defined i hi
    cases h' : M.layer.task (M.layer.out i) with
    | none => simp [h'] at this
    | some _ => simp

/-- **C09, acyclicity**: the lexicographic rank strictly decreases along every reference. -/
theorem merged_ranked {κ} [Inhabited κ] (P : Plan κ) (hP : PlanOK P) :
    Ranked (merged P) (globalRank P) := by
  intro gk t hg d hd hdef
  obtain ⟨n, k⟩ := gk
  obtain ⟨N, t0, hN, ht0, rfl⟩ := merged_some P n k t hg
  rw [Tsk.refs_mapKeys] at hd
  obtain ⟨r, hr, rfl⟩ := List.mem_map.mp hd
  have ok := hP n N hN
  have hb := ok.bounded k (by simp [ht0])
  have hNb := bound_le_max P n N hN
  rcases ok.closed k t0 ht0 r hr with ⟨k', rfl, hk'⟩ | ⟨dd, i, m, M, rfl, hm, hlt, hM, hi⟩
  · have := ok.ranked k t0 ht0 k' hr hk'
    simp only [resolve, globalRank, hN]
    omega
  · simp only [resolve, hm, hM, globalRank, hN]
    have okM := hP m M hM
    have hbM := okM.bounded (M.layer.out i) (okM.outs_defined i hi)
    have hMb := bound_le_max P m M hM
    have h1 : m * (maxBound P + 1) + M.layer.rank (M.layer.out i) < (m + 1) * (maxBound P + 1) := by
      rw [Nat.add_mul]; omega
    have h2 : (m + 1) * (maxBound P + 1) ≤ n * (maxBound P + 1) := Nat.mul_le_mul_right _ (by omega)
    omega

/-- **C09, outputs**: every reported output key `(name, i)`, `i < npartitions`, of every node is defined. -/
theorem merged_outputs {κ} [Inhabited κ] (P : Plan κ) (hP : PlanOK P) (n : Nat) (N : PNode κ)
    (hN : P[n]? = some N) (i : Nat) (hi : i < N.layer.nout) :
    (merged P (n, N.layer.out i)).isSome := by
  have := (hP n N hN).outs_defined i hi
  simp only [merged, hN]
  cases h' : N.layer.task (N.layer.out i) with
  | none => simp [h'] at this
  | some _ => simp

end Dx
