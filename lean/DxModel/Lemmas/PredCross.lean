/-
  Lemmas/PredCross.lean — a filter crossing an operator, by semantic category of the operator.
  The category laws are hypotheses (structures), never axioms: each theorem holds for every
  interpretation of the operator that satisfies its category's law.
-/
import DxModel.Pred
namespace Dx.Pred

/-- the operator acts row by row: `op rows = rows.map f` (Elemwise family) -/
structure RowLocalLaw {ρ σ : Type} (op : List ρ → List σ) (f : ρ → σ) : Prop where
  map : ∀ rows, op rows = rows.map f

/-- the predicate, read on the operator's output, has the value the substituted predicate has on its input -/
structure ValuePreserving {ρ σ : Type} (f : ρ → σ) (predOut : σ → Bool) (predIn : ρ → Bool) : Prop where
  agree : ∀ r, predOut (f r) = predIn r

/-- the operator permutes the rows (shuffle, sort) -/
structure ReorderLaw {ρ : Type} (op : List ρ → List ρ) : Prop where
  perm : ∀ rows, (op rows).Perm rows

/-- the operator only re-cuts partitions -/
structure PartitionOnlyLaw {ρ : Type} (op : List (List ρ) → List (List ρ)) : Prop where
  concat : ∀ parts, (op parts).flatten = parts.flatten

/-- the operator keeps a row-locally decided subset -/
structure RowSelectLaw {ρ : Type} (op : List ρ → List ρ) (s : ρ → Bool) : Prop where
  sel : ∀ rows, op rows = rows.filter s

theorem cross_rowlocal {ρ σ : Type} (op : List ρ → List σ) (f : ρ → σ) (predOut : σ → Bool) (predIn : ρ → Bool)
    (h1 : RowLocalLaw op f) (h2 : ValuePreserving f predOut predIn) (rows : List ρ) :
    (op rows).filter predOut = op (rows.filter predIn) := by
  rw [h1.map, h1.map, List.filter_map]
  congr 1
  apply List.filter_congr
  intro r _
  exact h2.agree r

theorem cross_reorder {ρ : Type} (op : List ρ → List ρ) (h : ReorderLaw op) (p : ρ → Bool) (rows : List ρ) :
    ((op rows).filter p).Perm (op (rows.filter p)) :=
  ((h.perm rows).filter p).trans (h.perm (rows.filter p)).symm

theorem filter_flatten' {ρ : Type} (p : ρ → Bool) (parts : List (List ρ)) :
    (parts.map (List.filter p)).flatten = parts.flatten.filter p := by
  induction parts with
  | nil => rfl
  | cons a t ih => rw [List.map_cons, List.flatten_cons, List.flatten_cons, List.filter_append, ih]

theorem cross_partition_only {ρ : Type} (op : List (List ρ) → List (List ρ)) (h : PartitionOnlyLaw op)
    (p : ρ → Bool) (parts : List (List ρ)) :
    ((op parts).map (List.filter p)).flatten = (op (parts.map (List.filter p))).flatten := by
  rw [filter_flatten', h.concat, h.concat, filter_flatten']

theorem cross_rowselect {ρ : Type} (op : List ρ → List ρ) (s : ρ → Bool) (h : RowSelectLaw op s)
    (p : ρ → Bool) (rows : List ρ) : (op rows).filter p = op (rows.filter p) := by
  rw [h.sel, h.sel, List.filter_filter, List.filter_filter]
  apply List.filter_congr
  intro r _
  exact Bool.and_comm _ _

end Dx.Pred
