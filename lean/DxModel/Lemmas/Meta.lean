/-
  Lemmas/Meta.lean — helper lemmas for Props/C07.lean: the per-partition task pipelines of DxModel/Meta.lean
  compute the declared schema (reductions, groupby aggregations, value_counts, set_index, merge).
-/
import DxModel.Meta
namespace Dx.Meta

/-! ### kinds -/

theorem Kind.join_idem (a : Kind) : Kind.join a a = a := by cases a <;> rfl
theorem Kind.join_comm (a b : Kind) : Kind.join a b = Kind.join b a := by cases a <;> cases b <;> rfl
theorem Kind.join_assoc (a b c : Kind) : Kind.join (Kind.join a b) c = Kind.join a (Kind.join b c) := by
  cases a <;> cases b <;> cases c <;> rfl
theorem Kind.na_idem (a : Kind) : a.na.na = a.na := by cases a <;> rfl
theorem Kind.promotes_refl (a : Kind) : Kind.promotes a a := Or.inl rfl
theorem Kind.promotes_na (a : Kind) : Kind.promotes a a.na := by cases a <;> decide

/-! ### `_concat` of equal schemas, iteration -/

/-- what `_concat` makes of equal inputs -/
def squash : Sch → Sch
  | .scalar k => .series none k rangeIdx
  | s => s

theorem all_beq_replicate (n : Nat) (s : Sch) : (List.replicate n s).all (· == s) = true := by
  induction n with
  | zero => rfl
  | succ n ih => simp [List.replicate_succ, ih]

theorem uConcat_reps (n : Nat) (s : Sch) : uConcat (reps n s) = squash s := by
  unfold reps uConcat
  rw [List.replicate_succ]
  simp only [all_beq_replicate, if_true]
  cases s <;> rfl

theorem uConcat_single (s : Sch) : uConcat [s] = squash s := uConcat_reps 0 s

theorem iter_fixed (f : Sch → Sch) (x : Sch) (h : f x = x) : ∀ n, iter f n x = x := by
  intro n
  induction n with
  | zero => rfl
  | succ n ih => rw [iter, h, ih]

/-- a tree reduction whose `combine` leaves the chunk result unchanged computes `aggregate` of one chunk -/
theorem treeReduce_fixed (chunk : Sch → Sch) (combine aggregate : List Sch → Sch) (rt : Rt) (s : Sch)
    (hc : ∀ b, combine (reps b (chunk s)) = chunk s)
    (ha : ∀ n, aggregate (reps n (chunk s)) = aggregate [chunk s]) :
    treeReduce chunk combine aggregate rt s = acaMeta chunk combine aggregate s := by
  unfold treeReduce acaMeta
  rw [iter_fixed _ _ (hc rt.batch), ha]
  have := hc 0
  unfold reps at this
  simp only [Nat.zero_add, List.replicate_one] at this
  rw [this]

/-! ### aggregation kinds -/

/-- the kinds `f` can produce -/
def closed : Agg → Kind → Bool
  | .sum, .int => true
  | .sum, .float => true
  | .sum, .obj => true
  | .sum, _ => false
  | .count, .int => true
  | .count, _ => false
  | .size, .int => true
  | .size, _ => false
  | .any, .bool => true
  | .any, _ => false
  | .all, .bool => true
  | .all, _ => false
  | .mean, .float => true
  | .mean, .dt => true
  | .mean, _ => false
  | _, _ => true

theorem closed_of_aggKind {f : Agg} {k k' : Kind} (h : aggKind f k = some k') : closed f k' = true := by
  cases f <;> cases k <;> simp [aggKind] at h <;> subst h <;> rfl

theorem closed_join {f : Agg} (hf : f ≠ .mean) {a b : Kind} (ha : closed f a = true) (hb : closed f b = true) :
    closed f (Kind.join a b) = true := by
  cases f <;> cases a <;> cases b <;> simp_all [closed, Kind.join]

/-- re-aggregating a kind that `f` produced (with the second-stage function) does not change it -/
theorem stable_red {f : Agg} (hf : f ≠ .mean) {k : Kind} (h : closed f k = true) :
    aggKind (redSecond f) k = some k := by
  cases f <;> cases k <;> simp_all [closed, redSecond, aggKind]

theorem stable_gb {f : Agg} (hf : f ≠ .mean) {k : Kind} (h : closed f k = true) :
    aggKind (gbSecond f) k = some k := by
  cases f <;> cases k <;> simp_all [closed, gbSecond, aggKind]

theorem allSome_map_some (l : List Kind) : allSome (l.map some) = some l := by
  induction l with
  | nil => rfl
  | cons a t ih => simp [allSome, ih]

theorem allSome_replicate (n : Nat) (k : Kind) : allSome (List.replicate n (some k)) = some (List.replicate n k) := by
  induction n with
  | zero => rfl
  | succ n ih => simp [List.replicate_succ, allSome, ih]

theorem foldl_join_replicate (n : Nat) (k : Kind) : (List.replicate n k).foldl Kind.join k = k := by
  induction n with
  | zero => rfl
  | succ n ih => rw [List.replicate_succ, List.foldl_cons, Kind.join_idem, ih]

theorem joinKinds_replicate (n : Nat) (k : Kind) : joinKinds (List.replicate (n + 1) k) = some k := by
  rw [List.replicate_succ]
  simp only [joinKinds, foldl_join_replicate]

/-! ### frame / series reductions -/

theorem allSome_closed {f : Agg} : ∀ {ks l : List Kind}, allSome (ks.map (aggKind f)) = some l → ∀ k, k ∈ l → closed f k = true
  | [], l, h, k, hk => by simp [allSome] at h; subst h; cases hk
  | a :: t, l, h, k, hk => by
    simp only [List.map_cons] at h
    cases ha : aggKind f a with
    | none => rw [ha] at h; simp [allSome] at h
    | some a' =>
      rw [ha] at h
      simp only [allSome] at h
      cases ht : allSome (t.map (aggKind f)) with
      | none => rw [ht] at h; simp at h
      | some l' =>
        rw [ht] at h
        simp only [Option.map_some, Option.some.injEq] at h
        subst h
        rcases List.mem_cons.mp hk with rfl | hk'
        · exact closed_of_aggKind ha
        · exact allSome_closed ht k hk'

theorem foldl_join_closed {f : Agg} (hf : f ≠ .mean) : ∀ (l : List Kind) (a : Kind), closed f a = true →
    (∀ k, k ∈ l → closed f k = true) → closed f (l.foldl Kind.join a) = true
  | [], a, ha, _ => ha
  | b :: t, a, ha, h => by
    rw [List.foldl_cons]
    exact foldl_join_closed hf t _ (closed_join hf ha (h b (by simp))) (fun k hk => h k (by simp [hk]))

/-- the kind of `df.f()` over at least one column is one that `f` produces -/
theorem redKind_closed {f : Agg} (hf : f ≠ .mean) {ks : List Kind} {K : Kind} (hne : ks ≠ [])
    (h : redKind f ks = some K) : closed f K = true := by
  unfold redKind at h
  cases hl : allSome (ks.map (aggKind f)) with
  | none => rw [hl] at h; cases h
  | some l =>
    rw [hl] at h
    cases l with
    | nil =>
      cases ks with
      | nil => exact absurd rfl hne
      | cons a t =>
        simp only [List.map_cons] at hl
        cases ha : aggKind f a with
        | none => rw [ha] at hl; simp [allSome] at hl
        | some a' =>
          rw [ha] at hl
          simp only [allSome] at hl
          cases ht : allSome (t.map (aggKind f)) with
          | none => rw [ht] at hl; simp at hl
          | some l' => rw [ht] at hl; simp at hl
    | cons a t =>
      simp only [joinKinds, Option.some.injEq] at h
      rw [← h]
      exact foldl_join_closed hf t a (allSome_closed hl a (by simp)) (fun k hk => allSome_closed hl k (by simp [hk]))

theorem kinds_uniform (names : List Name) (K : Kind) :
    (names.map (fun n => (n, K))).map (·.2) = List.replicate names.length K := by
  induction names with
  | nil => rfl
  | cons a t ih => simp [List.replicate_succ, ih]

theorem redKind_replicate {g : Agg} {K : Kind} (h : aggKind g K = some K) (n : Nat) :
    redKind g (List.replicate (n + 1) K) = some K := by
  unfold redKind
  rw [List.map_replicate, h, allSome_replicate]
  simp only [List.replicate_succ]
  rw [← List.replicate_succ, joinKinds_replicate]

/-- a frame whose columns all have a kind that `g` leaves alone is left alone by `redStep g` (up to the index) -/
theorem redStep_uniform {g : Agg} {K : Kind} (names : List Name) (idx : List Lvl)
    (h : names ≠ [] → aggKind g K = some K) :
    redStep g (.frame (names.map (fun n => (n, K))) idx) = .frame (names.map (fun n => (n, K))) rangeIdx := by
  unfold redStep
  simp only
  rw [kinds_uniform]
  cases names with
  | nil => simp [redKind, allSome]
  | cons a t =>
    simp only [List.length_cons]
    rw [redKind_replicate (h (by simp))]
    simp [List.map_map, Function.comp_def]

theorem redFinal_uniform {g : Agg} {K : Kind} (a : Name) (t : List Name) (idx : List Lvl)
    (h : aggKind g K = some K) :
    redFinal g (.frame ((a :: t).map (fun n => (n, K))) idx) = .series none K [(none, .obj)] := by
  unfold redFinal
  simp only
  rw [kinds_uniform]
  simp only [List.length_cons]
  rw [redKind_replicate h]

theorem closed_count {k : Kind} (h : closed .count k = true) : k = .int := by
  cases k <;> simp_all [closed]

theorem cols_as_names (cols : List Col) (K : Kind) :
    cols.map (fun c => (c.1, K)) = (labels cols).map (fun n => (n, K)) := by
  simp [labels, List.map_map, Function.comp_def]

theorem redStep_frame_some {f : Agg} {cols : List Col} {idx : List Lvl} {K : Kind}
    (h : redKind f (cols.map (·.2)) = some K) :
    redStep f (.frame cols idx) = .frame ((labels cols).map (fun n => (n, K))) rangeIdx := by
  simp only [redStep, h, cols_as_names]

theorem redStep_frame_none {f : Agg} {cols : List Col} {idx : List Lvl}
    (h : redKind f (cols.map (·.2)) = none) : redStep f (.frame cols idx) = .bad := by
  simp only [redStep, h]

theorem redStep_series_some {f : Agg} {n : Option Name} {k k' : Kind} {idx : List Lvl}
    (h : aggKind f k = some k') : redStep f (.series n k idx) = .scalar k' := by
  simp only [redStep, h]

theorem redStep_series_none {f : Agg} {n : Option Name} {k : Kind} {idx : List Lvl}
    (h : aggKind f k = none) : redStep f (.series n k idx) = .bad := by
  simp only [redStep, h]

theorem labels_ne_nil {cols : List Col} (h : labels cols ≠ []) : cols.map (·.2) ≠ [] := by
  cases cols with
  | nil => exact absurd rfl h
  | cons a t => simp

theorem redCombine_fixed (f : Agg) (hf : f ≠ .mean) (s : Sch) (b : Nat) :
    redCombine f (reps b (redChunk f s)) = redChunk f s := by
  unfold redCombine redChunk
  rw [uConcat_reps]
  cases s with
  | frame cols idx =>
    cases hK : redKind f (cols.map (·.2)) with
    | none => rw [redStep_frame_none hK]; rfl
    | some K =>
      rw [redStep_frame_some hK]
      have hcl : labels cols ≠ [] → closed f K = true := fun hne => redKind_closed hf (labels_ne_nil hne) hK
      simp only [squash]
      rw [redStep_uniform (labels cols) rangeIdx (fun hne => stable_red hf (hcl hne))]
      unfold castCount
      by_cases hfc : f = .count
      · simp only [hfc, if_true]
        cases hl : labels cols with
        | nil => rfl
        | cons a t =>
          have hK' : K = .int := closed_count (hfc ▸ hcl (by rw [hl]; simp))
          subst hK'
          simp [List.map_map, Function.comp_def]
      · simp [hfc]
  | series n k idx =>
    cases hk : aggKind f k with
    | none => rw [redStep_series_none hk]; rfl
    | some k' =>
      rw [redStep_series_some hk]
      have hcl := closed_of_aggKind hk
      simp only [squash]
      rw [redStep_series_some (stable_red hf hcl)]
      unfold castCount
      by_cases hfc : f = .count
      · simp only [hfc, if_true]
        have hk' : k' = .int := closed_count (hfc ▸ hcl)
        rw [hk']
      · simp [hfc]
  | index l => rfl
  | scalar k => rfl
  | bad => rfl

theorem redAggregate_reps (f : Agg) (x : Sch) (n : Nat) : redAggregate f (reps n x) = redAggregate f [x] := by
  unfold redAggregate
  rw [uConcat_reps, uConcat_single]

/-- every reduction but `mean`: any tree shape computes what `_meta` declares -/
theorem taskReduce_eq (f : Agg) (hf : f ≠ .mean) (rt : Rt) (s : Sch) : taskReduce f rt s = declReduce f s := by
  unfold taskReduce declReduce
  by_cases hr : isReduction f = true
  · simp only [hr, Bool.not_true, Bool.false_eq_true, if_false, hf]
    exact treeReduce_fixed _ _ _ rt s (redCombine_fixed f hf s) (redAggregate_reps f _)
  · simp [hr]

/-! #### mean = sum / count on numeric columns -/

theorem acaRed_eq (f : Agg) (hf : f ≠ .mean) (s : Sch) :
    acaMeta (redChunk f) (redCombine f) (redAggregate f) s =
      castCount f (redFinal (redSecond f) (squash (redStep f s))) := by
  unfold acaMeta
  have h := redCombine_fixed f hf s 0
  unfold reps at h
  simp only [Nat.zero_add, List.replicate_one] at h
  rw [h]
  unfold redAggregate redChunk
  rw [uConcat_single]

def sumK : Kind → Kind
  | .bool => .int
  | k => k

theorem allSome_numeric_sum : ∀ (ks : List Kind), ks.all isNumeric = true →
    allSome (ks.map (aggKind .sum)) = some (ks.map sumK)
  | [], _ => rfl
  | k :: t, h => by
    simp only [List.all_cons, Bool.and_eq_true] at h
    simp only [List.map_cons]
    have hk : aggKind .sum k = some (sumK k) := by cases k <;> simp_all [isNumeric, aggKind, sumK]
    rw [hk]
    simp only [allSome, allSome_numeric_sum t h.2, Option.map_some]

theorem allSome_numeric_mean : ∀ (ks : List Kind), ks.all isNumeric = true →
    allSome (ks.map (aggKind .mean)) = some (List.replicate ks.length .float)
  | [], _ => rfl
  | k :: t, h => by
    simp only [List.all_cons, Bool.and_eq_true] at h
    simp only [List.map_cons, List.length_cons, List.replicate_succ]
    have hk : aggKind .mean k = some .float := by cases k <;> simp_all [isNumeric, aggKind]
    rw [hk]
    simp only [allSome, allSome_numeric_mean t h.2, Option.map_some]

theorem allSome_count : ∀ (ks : List Kind), allSome (ks.map (aggKind .count)) = some (List.replicate ks.length .int)
  | [] => rfl
  | k :: t => by
    simp only [List.map_cons, List.length_cons, List.replicate_succ]
    have hk : aggKind .count k = some .int := by cases k <;> rfl
    rw [hk]
    simp only [allSome, allSome_count t, Option.map_some]

def intOrFloat (k : Kind) : Prop := k = .int ∨ k = .float

theorem foldl_join_intOrFloat : ∀ (l : List Kind) (a : Kind), intOrFloat a → (∀ k, k ∈ l → intOrFloat k) →
    intOrFloat (l.foldl Kind.join a)
  | [], a, ha, _ => ha
  | b :: t, a, ha, h => by
    rw [List.foldl_cons]
    apply foldl_join_intOrFloat t _ _ (fun k hk => h k (by simp [hk]))
    rcases ha with rfl | rfl <;> rcases h b (by simp) with hb | hb <;> subst hb <;> simp [intOrFloat, Kind.join]

theorem sumK_intOrFloat {k : Kind} (h : isNumeric k = true) : intOrFloat (sumK k) := by
  cases k <;> simp_all [isNumeric, sumK, intOrFloat]

theorem redKind_mean_numeric (ks : List Kind) (h : ks.all isNumeric = true) : redKind .mean ks = some .float := by
  unfold redKind
  rw [allSome_numeric_mean ks h]
  cases ks with
  | nil => rfl
  | cons a t =>
    simp only [List.length_cons, List.replicate_succ]
    rw [← List.replicate_succ, joinKinds_replicate]

theorem redKind_count (ks : List Kind) : redKind .count ks = some .int := by
  unfold redKind
  rw [allSome_count ks]
  cases ks with
  | nil => rfl
  | cons a t =>
    simp only [List.length_cons, List.replicate_succ]
    rw [← List.replicate_succ, joinKinds_replicate]

theorem redKind_sum_numeric (ks : List Kind) (h : ks.all isNumeric = true) :
    ∃ K, redKind .sum ks = some K ∧ intOrFloat K := by
  unfold redKind
  rw [allSome_numeric_sum ks h]
  cases ks with
  | nil => exact ⟨.float, rfl, Or.inr rfl⟩
  | cons a t =>
    simp only [List.all_cons, Bool.and_eq_true] at h
    refine ⟨_, rfl, ?_⟩
    apply foldl_join_intOrFloat _ _ (sumK_intOrFloat h.1)
    intro k hk
    obtain ⟨k0, hk0, rfl⟩ := List.mem_map.mp hk
    exact sumK_intOrFloat (List.all_eq_true.mp h.2 k0 hk0)

theorem redFinal_names {g : Agg} {K : Kind} (names : List Name) (idx : List Lvl) (h : aggKind g K = some K) :
    redFinal g (.frame (names.map (fun n => (n, K))) idx) =
      .series none (if names = [] then emptyKind g else K) [(none, .obj)] := by
  cases names with
  | nil => simp [redFinal, redKind, allSome]
  | cons a t => rw [redFinal_uniform a t idx h]; simp

theorem taskReduce_mean (rt : Rt) (s : Sch) (hg : allNumeric s = true) :
    taskReduce .mean rt s = declReduce .mean s := by
  have hs : Agg.sum ≠ Agg.mean := by decide
  have hc : Agg.count ≠ Agg.mean := by decide
  unfold taskReduce declReduce
  simp only [isReduction, Bool.not_true, Bool.false_eq_true, if_false, if_true]
  rw [treeReduce_fixed _ _ _ rt s (redCombine_fixed .sum hs s) (redAggregate_reps .sum _),
      treeReduce_fixed _ _ _ rt s (redCombine_fixed .count hc s) (redAggregate_reps .count _),
      acaRed_eq .sum hs, acaRed_eq .count hc]
  cases s with
  | frame cols idx =>
    have hnum : (cols.map (·.2)).all isNumeric = true := by
      simpa [allNumeric, List.all_map, Function.comp_def] using hg
    obtain ⟨K, hK, hKif⟩ := redKind_sum_numeric _ hnum
    rw [redStep_frame_some hK, redStep_frame_some (redKind_count _)]
    have hm : redFinal .mean (.frame cols idx) = .series none .float [(none, .obj)] := by
      simp only [redFinal, redKind_mean_numeric _ hnum]
    rw [hm]
    simp only [squash, redSecond]
    have hKs : aggKind .sum K = some K := by rcases hKif with rfl | rfl <;> rfl
    rw [redFinal_names (labels cols) rangeIdx hKs, redFinal_names (labels cols) rangeIdx (show aggKind .sum .int = some .int from rfl)]
    by_cases hl : labels cols = []
    · simp [hl, castCount, emptyKind, pDiv, divKind]
    · simp only [hl, if_false, castCount]
      rcases hKif with rfl | rfl <;> simp [pDiv, divKind]
  | series n k idx =>
    have hk : isNumeric k = true := by simpa [allNumeric] using hg
    cases k <;> first | rfl | simp [isNumeric] at hk
  | index l => rfl
  | scalar k => rfl
  | bad => rfl

/-- every reduction, under its guard -/
theorem taskReduce_sound (f : Agg) (rt : Rt) (s : Sch) (hg : guardReduce f s = true) :
    taskReduce f rt s = declReduce f s := by
  by_cases hf : f = .mean
  · subst hf
    exact taskReduce_mean rt s (by simpa [guardReduce] using hg)
  · exact taskReduce_eq f hf rt s

/-! ### groupby aggregations -/

theorem aggCols_closed {f : Agg} : ∀ {cs r : List Col}, aggCols f cs = some r → ∀ c, c ∈ r → closed f c.2 = true
  | [], r, h, c, hc => by simp [aggCols] at h; subst h; cases hc
  | a :: t, r, h, c, hc => by
    simp only [aggCols] at h
    cases ha : aggKind f a.2 with
    | none => rw [ha] at h; simp at h
    | some k =>
      cases ht : aggCols f t with
      | none => rw [ha, ht] at h; simp at h
      | some r' =>
        rw [ha, ht] at h
        simp only [Option.some.injEq] at h
        subst h
        rcases List.mem_cons.mp hc with rfl | hc'
        · exact closed_of_aggKind ha
        · exact aggCols_closed ht c hc'

theorem aggCols_stable {g : Agg} : ∀ (r : List Col), (∀ c, c ∈ r → aggKind g c.2 = some c.2) → aggCols g r = some r
  | [], _ => rfl
  | a :: t, h => by
    simp only [aggCols, h a (by simp), aggCols_stable t (fun c hc => h c (by simp [hc]))]

/-- what a groupby chunk looks like -/
inductive GbImage (f : Agg) : Sch → Prop where
  | bad : GbImage f .bad
  | frame (r : List Col) (lv : List Lvl) (h : ∀ c, c ∈ r → closed f c.2 = true) : GbImage f (.frame r lv)
  | series (n : Option Name) (k : Kind) (lv : List Lvl) (h : closed f k = true) : GbImage f (.series n k lv)

theorem pGroupby_image (keys : List Name) (sl : Slice) (f : Agg) (s : Sch) : GbImage f (pGroupby keys sl f s) := by
  cases s with
  | frame cols idx =>
    simp only [pGroupby]
    by_cases hk : keys.isEmpty = true
    · rw [if_pos hk]; exact .bad
    · rw [if_neg hk]
      cases hl : keyLevels cols keys with
      | none => exact .bad
      | some lv =>
        simp only
        by_cases hsz : f = .size
        · subst hsz
          rw [if_pos rfl]
          cases sl with
          | all => exact .series _ _ _ rfl
          | many cs => exact .series _ _ _ rfl
          | one c =>
            simp only
            by_cases hc : (labels cols).contains c = true
            · rw [if_pos hc]; exact .series _ _ _ rfl
            · rw [if_neg hc]; exact .bad
        · rw [if_neg hsz]
          cases sl with
          | all =>
            simp only
            cases hr : aggCols f (cols.filter (fun c => !keys.contains c.1)) with
            | none => exact .bad
            | some r => exact .frame _ _ (aggCols_closed hr)
          | many cs =>
            simp only
            cases hs : selectCols cols cs with
            | none => exact .bad
            | some sel =>
              simp only
              cases hr : aggCols f sel with
              | none => exact .bad
              | some r => exact .frame _ _ (aggCols_closed hr)
          | one c =>
            simp only
            cases hc : cols.lookup c with
            | none => exact .bad
            | some k =>
              simp only
              cases hk' : aggKind f k with
              | none => exact .bad
              | some k' => exact .series _ _ _ (closed_of_aggKind hk')
  | series n k idx => exact .bad
  | index l => exact .bad
  | scalar k => exact .bad
  | bad => exact .bad

theorem gbLevel_fixed {f : Agg} (hf : f ≠ .mean) {x : Sch} (h : GbImage f x) :
    pGroupLevel (gbSecond f) (squash x) = x := by
  cases h with
  | bad => rfl
  | frame r lv h =>
    simp only [squash, pGroupLevel]
    rw [aggCols_stable r (fun c hc => stable_gb hf (h c hc))]
  | series n k lv h =>
    simp only [squash, pGroupLevel]
    rw [stable_gb hf h]

theorem gbAggregate_reps (f : Agg) (x : Sch) (n : Nat) : gbAggregate f (reps n x) = gbAggregate f [x] := by
  unfold gbAggregate
  rw [uConcat_reps, uConcat_single]

/-! #### groupby mean -/

theorem aggCols_append {g : Agg} {a b ra rb : List Col} (ha : aggCols g a = some ra) (hb : aggCols g b = some rb) :
    aggCols g (a ++ b) = some (ra ++ rb) := by
  induction a generalizing ra with
  | nil => simp [aggCols] at ha; subst ha; simpa using hb
  | cons x t ih =>
    simp only [aggCols] at ha
    cases hx : aggKind g x.2 with
    | none => rw [hx] at ha; simp at ha
    | some k =>
      cases ht : aggCols g t with
      | none => rw [hx, ht] at ha; simp at ha
      | some r' =>
        rw [hx, ht] at ha
        simp only [Option.some.injEq] at ha
        subst ha
        simp only [List.cons_append, aggCols, hx, ih ht]

theorem meanChunk_image (keys : List Name) (s : Sch) :
    meanChunk keys s = .bad ∨ ∃ r lv, meanChunk keys s = .frame r lv ∧ aggCols .sum r = some r := by
  cases s with
  | frame cols idx =>
    simp only [meanChunk]
    by_cases hk : keys.isEmpty = true
    · rw [if_pos hk]; exact Or.inl rfl
    · rw [if_neg hk]
      cases hl : keyLevels cols keys with
      | none => exact Or.inl rfl
      | some lv =>
        simp only
        cases hx : aggCols .sum ((cols.filter (fun c => !keys.contains c.1)).filter (fun c => isNumeric c.2)) with
        | none => exact Or.inl rfl
        | some x =>
          refine Or.inr ⟨_, lv, rfl, ?_⟩
          have h1 : aggCols .sum x = some x :=
            aggCols_stable x (fun c hc => stable_red (f := .sum) (by decide) (aggCols_closed hx c hc))
          have h2 : ∀ (l : List Col), aggCols .sum (l.map (fun c => (c.1 ++ "-count", Kind.int))) =
              some (l.map (fun c => (c.1 ++ "-count", Kind.int))) := by
            intro l
            apply aggCols_stable
            intro c hc
            obtain ⟨c0, _, rfl⟩ := List.mem_map.mp hc
            rfl
          exact aggCols_append h1 (h2 _)
  | series n k idx => exact Or.inl rfl
  | index l => exact Or.inl rfl
  | scalar k => exact Or.inl rfl
  | bad => exact Or.inl rfl

theorem meanChunk_fixed (keys : List Name) (s : Sch) (b : Nat) :
    meanCombine (reps b (meanChunk keys s)) = meanChunk keys s := by
  unfold meanCombine
  rw [uConcat_reps]
  rcases meanChunk_image keys s with h | ⟨r, lv, h, hr⟩
  · rw [h]; rfl
  · rw [h]
    simp only [squash, pGroupLevel, hr]

theorem meanAgg_reps (x : Sch) (n : Nat) : meanAgg (reps n x) = meanAgg [x] := by
  unfold meanAgg
  rw [uConcat_reps, uConcat_single]

/-- groupby aggregations over column keys: any tree shape computes what `_meta` declares -/
theorem taskGroupby_eq (keys : List Name) (sl : Slice) (f : Agg) (rt : Rt) (s : Sch) :
    taskGroupby keys sl f rt s = declGroupby keys sl f s := by
  unfold taskGroupby declGroupby
  by_cases hg : isGroupAgg f = true
  · simp only [hg, Bool.not_true, Bool.false_eq_true, if_false]
    by_cases hf : f = .mean
    · simp only [hf, if_true]
      exact treeReduce_fixed _ _ _ rt s (meanChunk_fixed keys s) (meanAgg_reps _)
    · simp only [hf, if_false]
      apply treeReduce_fixed _ _ _ rt s _ (gbAggregate_reps f _)
      intro b
      unfold gbAggregate gbChunk
      rw [uConcat_reps]
      exact gbLevel_fixed hf (pGroupby_image keys sl f s)
  · simp [hg]

/-! ### value_counts -/

theorem taskValueCounts_eq (nz : Bool) (rt : Rt) (s : Sch) :
    treeReduce vcChunk vcCombine (vcAggregate nz) rt s = pValueCounts nz s := by
  have hc : ∀ b, vcCombine (reps b (vcChunk s)) = vcChunk s := by
    intro b
    unfold vcCombine
    rw [uConcat_reps]
    cases s <;> rfl
  have ha : ∀ n, vcAggregate nz (reps n (vcChunk s)) = vcAggregate nz [vcChunk s] := by
    intro n
    unfold vcAggregate
    rw [uConcat_reps, uConcat_single]
  rw [treeReduce_fixed _ _ _ rt s hc ha]
  unfold acaMeta
  have h0 := hc 0
  unfold reps at h0
  simp only [Nat.zero_add, List.replicate_one] at h0
  rw [h0]
  unfold vcAggregate
  rw [uConcat_single]
  cases s <;> cases nz <;> rfl

/-! ### column selection of all columns, shuffles -/

theorem lookup_append_left {cols extra : List Col} {c : Name} {k : Kind} (h : cols.lookup c = some k) :
    (cols ++ extra).lookup c = some k := by
  induction cols with
  | nil => simp at h
  | cons a t ih =>
    obtain ⟨an, ak⟩ := a
    simp only [List.cons_append, List.lookup_cons] at h ⊢
    cases hb : (c == an) with
    | true => rw [hb] at h; exact h
    | false => rw [hb] at h; exact ih h

theorem lookup_of_mem_nodup : ∀ {cols : List Col}, (labels cols).Nodup → ∀ c, c ∈ cols → cols.lookup c.1 = some c.2
  | [], _, c, hc => by cases hc
  | (an, ak) :: t, hn, c, hc => by
    simp only [labels, List.map_cons, List.nodup_cons] at hn
    rcases List.mem_cons.mp hc with rfl | hc'
    · simp
    · have hne : c.1 ≠ an := by
        intro he
        apply hn.1
        rw [← he]
        exact List.mem_map.mpr ⟨c, hc', rfl⟩
      simp only [List.lookup_cons]
      have : (c.1 == an) = false := by simpa using hne
      rw [this]
      exact lookup_of_mem_nodup hn.2 c hc'

theorem selectCols_of_lookup (C : List Col) : ∀ (sub : List Col), (∀ c, c ∈ sub → C.lookup c.1 = some c.2) →
    selectCols C (labels sub) = some sub
  | [], _ => rfl
  | a :: t, h => by
    simp only [labels, List.map_cons, selectCols]
    rw [h a (by simp)]
    have := selectCols_of_lookup C t (fun c hc => h c (by simp [hc]))
    simp only [labels] at this
    rw [this]

/-- `df[list(df.columns)]` with duplicate-free labels is `df` -/
theorem pGetCols_self (cols extra : List Col) (idx : List Lvl) (hn : (labels cols).Nodup) :
    pGetCols (labels cols) (.frame (cols ++ extra) idx) = .frame cols idx := by
  simp only [pGetCols]
  rw [selectCols_of_lookup (cols ++ extra) cols (fun c hc => lookup_append_left (lookup_of_mem_nodup hn c hc))]

theorem filter_ne_self (l : List Name) (x : Name) (h : l.contains x = false) : l.filter (· != x) = l := by
  induction l with
  | nil => rfl
  | cons a t ih =>
    simp only [List.contains_cons, Bool.or_eq_false_iff] at h
    have hax : (a != x) = true := by
      have : (x == a) = false := h.1
      simp only [bne_iff_ne, ne_eq]
      intro he
      rw [he] at this
      simp at this
    rw [List.filter_cons, hax, if_pos rfl, ih h.2]

/-- `RearrangeByColumn` / the shuffle of `SetPartition`: assign `_partitions`, shuffle, project it away -/
theorem shuffled_frame (cols : List Col) (idx : List Lvl) (h : shuffleSafe (.frame cols idx) = true) :
    shuffled (.frame cols idx) = .frame cols idx := by
  simp only [shuffleSafe, hasLabel, nodupLabels, Bool.and_eq_true, Bool.not_eq_true', decide_eq_true_eq] at h
  unfold shuffled pAssign valueKind setKind
  simp only [h.1, Bool.false_eq_true, if_false]
  have hl : labels (cols ++ [("_partitions", Kind.int)]) = labels cols ++ ["_partitions"] := by simp [labels]
  rw [hl, List.filter_append, filter_ne_self _ _ h.1]
  simp only [bne_self_eq_false, Bool.false_eq_true, not_false_eq_true, List.filter_cons_of_neg, List.filter_nil,
    List.append_nil]
  exact pGetCols_self cols _ idx h.2

theorem shuffled_nonframe (s : Sch) (h : ∀ cols idx, s ≠ .frame cols idx) : shuffled s = .bad := by
  cases s with
  | frame cols idx => exact absurd rfl (h cols idx)
  | series n k idx => rfl
  | index l => rfl
  | scalar k => rfl
  | bad => rfl

theorem taskSetIndex_eq (c : Name) (d : Bool) (rt : Rt) (m s : Sch) (hg : guardU (.setIndex c d) rt s = true) :
    taskU (.setIndex c d) rt m s = declU (.setIndex c d) s := by
  unfold taskU declU
  by_cases hp : rt.path = 0
  · simp [hp]
  · simp only [hp, if_false]
    simp only [guardU, hp, decide_false, Bool.false_or] at hg
    cases s with
    | frame cols idx =>
      have := shuffled_frame cols idx hg
      unfold shuffled at this
      simp only [shuffleSafe, hasLabel, nodupLabels, Bool.and_eq_true, Bool.not_eq_true', decide_eq_true_eq] at hg
      simp only [pAssign, valueKind, setKind, hg.1, Bool.false_eq_true, if_false] at this ⊢
      rw [this]
    | series n k idx => rfl
    | index l => rfl
    | scalar k => rfl
    | bad => rfl

/-! ### merge -/

theorem pMerge_nonframe_left (m : Dx.Cols.MergeP) (l r : Sch) (h : ∀ cols idx, l ≠ .frame cols idx) : pMerge m l r = .bad := by
  cases l with
  | frame cols idx => exact absurd rfl (h cols idx)
  | series n k idx => rfl
  | index lv => rfl
  | scalar k => rfl
  | bad => rfl

theorem pMerge_nonframe_right (m : Dx.Cols.MergeP) (l r : Sch) (h : ∀ cols idx, r ≠ .frame cols idx) : pMerge m l r = .bad := by
  cases l with
  | frame cols idx =>
    cases r with
    | frame cols idx => exact absurd rfl (h cols idx)
    | series n k idx => rfl
    | index lv => rfl
    | scalar k => rfl
    | bad => rfl
  | series n k idx => rfl
  | index lv => rfl
  | scalar k => rfl
  | bad => rfl

theorem pMerge_shuffled_left (m : Dx.Cols.MergeP) (l r : Sch) (h : shuffleSafe l = true) :
    pMerge m (shuffled l) r = pMerge m l r := by
  cases l with
  | frame cols idx => rw [shuffled_frame cols idx h]
  | series n k idx => rfl
  | index lv => rfl
  | scalar k => rfl
  | bad => rfl

theorem pMerge_shuffled_right (m : Dx.Cols.MergeP) (l r : Sch) (h : shuffleSafe r = true) :
    pMerge m l (shuffled r) = pMerge m l r := by
  cases r with
  | frame cols idx => rw [shuffled_frame cols idx h]
  | series n k idx =>
    rw [pMerge_nonframe_right m l _ (by intro c i; simp [shuffled, pAssign]),
        pMerge_nonframe_right m l _ (by intro c i h; cases h)]
  | index lv =>
    rw [pMerge_nonframe_right m l _ (by intro c i; simp [shuffled, pAssign]),
        pMerge_nonframe_right m l _ (by intro c i h; cases h)]
  | scalar k =>
    rw [pMerge_nonframe_right m l _ (by intro c i; simp [shuffled, pAssign]),
        pMerge_nonframe_right m l _ (by intro c i h; cases h)]
  | bad =>
    rw [pMerge_nonframe_right m l _ (by intro c i; simp [shuffled, pAssign]),
        pMerge_nonframe_right m l _ (by intro c i h; cases h)]

/-- the result of a merge is a frame with duplicate-free labels, or an error -/
theorem pMerge_cases (m : Dx.Cols.MergeP) (l r : Sch) :
    pMerge m l r = .bad ∨ ∃ out, pMerge m l r = .frame out rangeIdx ∧ (labels out).Nodup := by
  cases l with
  | frame L li =>
    cases r with
    | frame R ri =>
      simp only [pMerge]
      by_cases h1 : (m.leftOn.isEmpty || m.leftOn.length != m.rightOn.length) = true
      · rw [if_pos h1]; exact Or.inl rfl
      · rw [if_neg h1]
        by_cases h2 : (!(m.leftOn.all ((labels L).contains ·) && m.rightOn.all ((labels R).contains ·))) = true
        · rw [if_pos h2]; exact Or.inl rfl
        · rw [if_neg h2]
          by_cases h3 : decide (labels (mergeCols m L R)).Nodup = true
          · simp only [h3, if_true]
            exact Or.inr ⟨_, rfl, by simpa using h3⟩
          · simp only [h3]
            exact Or.inl rfl
    | series n k idx => exact Or.inl rfl
    | index lv => exact Or.inl rfl
    | scalar k => exact Or.inl rfl
    | bad => exact Or.inl rfl
  | series n k idx => exact Or.inl rfl
  | index lv => exact Or.inl rfl
  | scalar k => exact Or.inl rfl
  | bad => exact Or.inl rfl

theorem taskMerge_eq (m : MergeP) (rt : Rt) (l r : Sch) (hg : guardMerge rt l r = true) :
    taskMerge m rt (declMerge m l r) l r = declMerge m l r := by
  unfold taskMerge declMerge
  have hout : pMerge m.cp (if rt.path = 0 then l else shuffled l) (if rt.path = 0 then r else shuffled r) =
      pMerge m.cp l r := by
    by_cases hp : rt.path = 0
    · simp [hp]
    · simp only [hp, if_false]
      simp only [guardMerge, hp, decide_false, Bool.false_or, Bool.and_eq_true] at hg
      rw [pMerge_shuffled_left _ _ _ hg.1, pMerge_shuffled_right _ _ _ hg.2]
  simp only [hout]
  cases rt.emptyLhs with
  | false => rfl
  | true =>
    simp only [if_true]
    rcases pMerge_cases m.cp l r with hb | ⟨out, ho, hn⟩
    · rw [hb]
    · rw [ho]
      simp only
      have := pGetCols_self out [] rangeIdx hn
      simpa using this

end Dx.Meta
