/-
  Lemmas/FusionLoop.lean — the substitution lemma lifted through the outer `while True` of
  `optimize_blockwise_fusion`: the plan returned by the whole loop computes, at its root, the value the
  original plan computes at its root (reference semantics `refGraph`).

  Needed for the lift: the plan after a pass is again ranked (`ranked_pass`: the new `Fused` node ranks
  just above `group[0]`, everything else doubles) and its `Fused` nodes still name members of the plan.
-/
import DxModel.Lemmas.FusionSubst
namespace Dx.Fusion
open Dx

/-- the first member of every `Fused` node is a node of the plan -/
def MembersKnown (dag : Dag) : Prop :=
  ∀ x nd, getNode dag x = some nd → ∀ m rs, nd.members = m :: rs → (getNode dag m).isSome = true

theorem exists_max_rank (ρ : Nat → Nat) : ∀ (l : List Nat), l ≠ [] → ∃ g ∈ l, ∀ g' ∈ l, ρ g' ≤ ρ g := by
  intro l
  induction l with
  | nil => intro h; exact absurd rfl h
  | cons a t ih =>
    intro _
    by_cases ht : t = []
    · subst ht
      exact ⟨a, by simp, by intro g' hg'; simp at hg'; subst hg'; exact Nat.le_refl _⟩
    · obtain ⟨g, hg, hmax⟩ := ih ht
      by_cases hag : ρ g ≤ ρ a
      · refine ⟨a, by simp, ?_⟩
        intro g' hg'
        rcases List.mem_cons.mp hg' with rfl | h
        · exact Nat.le_refl _
        · exact Nat.le_trans (hmax g' h) hag
      · refine ⟨g, List.mem_cons_of_mem _ hg, ?_⟩
        intro g' hg'
        rcases List.mem_cons.mp hg' with rfl | h
        · omega
        · exact hmax g' h

theorem rank_dep_lt {dag : Dag} {ρ : Nat → Nat} (hr : RankedBy dag ρ) {c d : Nat} (hd : d ∈ depsOf dag c) :
    ρ d < ρ c := by
  unfold depsOf at hd
  cases hg : getNode dag c with
  | none => simp [hg] at hd
  | some nd =>
    simp only [hg] at hd
    exact (hr c nd hg).1 d hd

/-- no member of a group outranks its first member (every other member has a parent inside the group) -/
theorem rank_members {dag : Dag} {root : Nat} {G : List Nat} {ρ : Nat → Nat} (hr : RankedBy dag ρ)
    (hok : GroupOK dag root G) : ∀ g ∈ G, ρ g ≤ ρ (G.headD 0) := by
  obtain ⟨gm, hgm, hmax⟩ := exists_max_rank ρ G hok.nonempty
  have hhead : gm = G.headD 0 := by
    apply Classical.byContradiction
    intro hne
    obtain ⟨c, hc, hdep⟩ := hok.parent gm (mem_tail_of_ne_head hgm hne)
    have h1 := rank_dep_lt hr hdep
    have h2 := hmax c hc
    omega
  intro g hg
  rw [← hhead]
  exact hmax g hg

/-- rank of the plan after a pass -/
def rankAfter (ρ : Nat → Nat) (old fr : Nat) : Nat → Nat :=
  fun x => if x = fr then 2 * ρ old + 1 else 2 * ρ x

theorem isSome_of_isBw {dag : Dag} {g : Nat} (h : isBw dag g = true) : (getNode dag g).isSome = true := by
  unfold isBw at h
  cases hg : getNode dag g with
  | none => simp [hg] at h
  | some nd => rfl

theorem lt_fresh_of_isSome {dag : Dag} {g : Nat} (h : (getNode dag g).isSome = true) : g < freshName dag := by
  cases hg : getNode dag g with
  | none => simp [hg] at h
  | some nd => exact name_lt_fresh hg

theorem ranked_pass {dag : Dag} {root : Nat} {G : List Nat} {ρ : Nat → Nat} (hr : RankedBy dag ρ)
    (hmk : MembersKnown dag) (hok : GroupOK dag root G) :
    RankedBy (substitute dag (G.headD 0) (fusedNode dag G).name ++ [fusedNode dag G])
        (rankAfter ρ (G.headD 0) (freshName dag)) ∧
      MembersKnown (substitute dag (G.headD 0) (fusedNode dag G).name ++ [fusedNode dag G]) := by
  have hname : (fusedNode dag G).name = freshName dag := rfl
  have hfr : getNode dag (fusedNode dag G).name = none := getNode_fresh dag
  have hget := getNode_subst_append dag (G.headD 0) (fusedNode dag G) hfr
  have hold_node : (getNode dag (G.headD 0)).isSome = true :=
    isSome_of_isBw (hok.blockwise _ (head_mem_of_ne hok.nonempty))
  have hold_lt : G.headD 0 < freshName dag := lt_fresh_of_isSome hold_node
  refine ⟨?_, ?_⟩
  · intro x nd hg
    rw [hget x] at hg
    by_cases hx : x = (fusedNode dag G).name
    · simp only [hx, if_true, Option.some.injEq] at hg
      subst hg
      rw [hx, hname]
      refine ⟨?_, ?_⟩
      · intro d hd
        have hd' : d ∈ groupDeps dag G := hd
        obtain ⟨g, hgG, hdg, _⟩ := mem_groupDeps hd'
        have h1 := rank_dep_lt hr hdg
        have h2 := rank_members hr hok g hgG
        have hdlt := dep_lt_fresh hdg
        unfold rankAfter
        have hdne : d ≠ freshName dag := by omega
        simp only [hdne, if_false, if_true]
        omega
      · intro r rs hrs
        have hrs' : G = r :: rs := hrs
        have hr0 : G.headD 0 = r := by rw [hrs']; rfl
        unfold rankAfter
        have hrne : r ≠ freshName dag := by rw [← hr0]; omega
        simp only [hrne, if_false, if_true]
        rw [hr0]
        omega
    · simp only [hx, if_false] at hg
      cases hgx : getNode dag x with
      | none => simp [hgx] at hg
      | some nd0 =>
        simp only [hgx, Option.map_some, Option.some.injEq] at hg
        subst hg
        obtain ⟨hdeps, hmem⟩ := hr x nd0 hgx
        have hx' : x ≠ freshName dag := hx
        refine ⟨?_, ?_⟩
        · intro d hd
          simp only [List.mem_map] at hd
          obtain ⟨d0, hd0, rfl⟩ := hd
          have h1 := hdeps d0 hd0
          have hd0lt : d0 < freshName dag := by
            apply dep_lt_fresh (x := x)
            unfold depsOf; rw [hgx]; exact hd0
          unfold rankAfter sub
          by_cases hdo : d0 = G.headD 0
          · simp only [hdo, if_true, hname, hx', if_false]
            rw [hdo] at h1
            omega
          · have hd0ne : d0 ≠ freshName dag := by omega
            simp only [hdo, if_false, hd0ne, hx']
            omega
        · intro r rs hrs
          have hrs' : nd0.members = r :: rs := hrs
          have h1 := hmem r rs hrs'
          have hrlt := lt_fresh_of_isSome (hmk x nd0 hgx r rs hrs')
          unfold rankAfter
          have hrne : r ≠ freshName dag := by omega
          simp only [hrne, if_false, hx']
          omega
  · intro x nd hg m rs hm
    rw [hget x] at hg
    rw [hget m]
    by_cases hx : x = (fusedNode dag G).name
    · simp only [hx, if_true, Option.some.injEq] at hg
      subst hg
      have hm' : G = m :: rs := hm
      have hm0 : G.headD 0 = m := by rw [hm']; rfl
      have hmne : m ≠ (fusedNode dag G).name := by rw [hname, ← hm0]; omega
      simp only [hmne, if_false]
      rw [← hm0]
      cases hgo : getNode dag (G.headD 0) with
      | none => rw [hgo] at hold_node; cases hold_node
      | some _ => rfl
    · simp only [hx, if_false] at hg
      cases hgx : getNode dag x with
      | none => simp [hgx] at hg
      | some nd0 =>
        simp only [hgx, Option.map_some, Option.some.injEq] at hg
        subst hg
        have hm' : nd0.members = m :: rs := hm
        have hk := hmk x nd0 hgx m rs hm'
        have hmlt := lt_fresh_of_isSome hk
        have hmne : m ≠ (fusedNode dag G).name := by rw [hname]; omega
        simp only [hmne, if_false]
        cases hgm : getNode dag m with
        | none => rw [hgm] at hk; cases hk
        | some _ => rfl

/-- `refGraph` of a ranked plan is a ranked graph: values do not depend on the fuel once it is large -/
def keyRank (ρ : Nat → Nat) : FKey → Nat
  | .part x _ => ρ x
  | _ => 0

theorem refGraph_ranked {dag : Dag} {ρ : Nat → Nat} (hr : RankedBy dag ρ) : Ranked (refGraph dag) (keyRank ρ) := by
  intro k t hk d hd _
  cases k with
  | top n => simp [refGraph] at hk
  | ph j => simp [refGraph] at hk
  | part x i =>
    simp only [refGraph] at hk
    cases hg : getNode dag x with
    | none => simp [hg] at hk
    | some nd =>
      simp only [hg] at hk
      obtain ⟨hdeps, hmem⟩ := hr x nd hg
      by_cases hb : nd.blockwise = true
      · simp only [hb, if_true] at hk
        cases hm : nd.members with
        | nil =>
          simp only [hm] at hk
          by_cases hi : i < nd.npart
          · simp only [hi, if_true, Option.some.injEq] at hk
            subst hk
            simp only [plainTask, Tsk.refs, List.mem_map] at hd
            obtain ⟨d0, hd0, rfl⟩ := hd
            have : ∃ j, argKey dag nd i d0 = .part d0 j := by
              unfold argKey; cases getNode dag d0 <;> exact ⟨_, rfl⟩
            obtain ⟨j, hj⟩ := this
            rw [hj]
            exact hdeps d0 hd0
          · simp [hi] at hk
        | cons r rs =>
          simp only [hm, Option.some.injEq] at hk
          subst hk
          simp only [Tsk.refs, List.mem_singleton] at hd
          subst hd
          exact hmem r rs hm
      · simp [hb] at hk

theorem fusionPass_none_group (ord : Nat → List Nat → List Nat) (dag : Dag) (root : Nat) (r : PassResult)
    (h : fusionPass ord dag root = some r) (hg : r.group = none) : r.dag = dag ∧ r.root = root := by
  unfold fusionPass at h
  cases hm : globalMaps dag root with
  | none => simp [hm] at h
  | some m =>
    simp only [hm] at h
    cases hf : findGroup dag m ord (walkFuel dag) (loopFuel dag) (rootsOf dag m).reverse with
    | none => simp [hf] at h
    | some o =>
      cases o with
      | none =>
        simp only [hf, Option.some.injEq] at h
        subst h
        exact ⟨rfl, rfl⟩
      | some s =>
        simp only [hf, Option.some.injEq] at h
        subst h
        simp at hg

/-- one pass, with the invariants the next pass needs -/
theorem pass_step (I : Interp) (ord : Nat → List Nat → List Nat) (hord : OrdOK ord) (dag : Dag) (root : Nat)
    (r : PassResult) (G : List Nat) (h : fusionPass ord dag root = some r) (hg : r.group = some G)
    (hplan : PlanOK dag root) (ρ : Nat → Nat) (hr : RankedBy dag ρ) (hmk : MembersKnown dag)
    (inp : FKey → Option V) :
    PlanOK r.dag r.root ∧ (∃ ρ', RankedBy r.dag ρ') ∧ MembersKnown r.dag ∧
    (∀ i N N', ρ root < N → 2 * ρ root + 3 ≤ N' →
        run I (refGraph r.dag) inp N' (.part r.root i) = run I (refGraph dag) inp N (.part root i)) := by
  obtain ⟨hok, _⟩ := fusionPass_groupOK ord hord dag root r G h hg
  obtain ⟨_, hplan'⟩ := pass_decreases ord hord dag root hplan r G h hg
  obtain ⟨_, _, _, _, _, h1, h2⟩ := fusionPass_some ord dag root r G h hg
  obtain ⟨hr', hmk'⟩ := ranked_pass hr hmk hok
  have hmem' : ∀ x nd, getNode dag x = some nd → ∀ m rs, nd.members = m :: rs → m ≠ freshName dag := by
    intro x nd hx m rs hm hfr
    have := hmk x nd hx m rs hm
    rw [hfr, getNode_fresh] at this
    cases this
  have hf := fusedNode_for dag G hok.nonempty hmem'
  have hrootne : root ≠ (fusedNode dag G).name := by
    intro hh
    have : getNode dag root = none := by rw [hh]; exact getNode_fresh dag
    have hn := hplan.root_node
    rw [this] at hn; cases hn
  refine ⟨hplan', ⟨_, by rw [h1]; exact hr'⟩, by rw [h1]; exact hmk', ?_⟩
  intro i N N' hN hN'
  rw [h1, h2]
  exact subst_root_value I dag (G.headD 0) (fusedNode dag G) hf ρ hr inp root hrootne i N N' hN hN'

/-- **The whole loop.**  Whatever `optimize_blockwise_fusion` returns computes at its root what the
    original plan computes at its root, for all sufficiently large fuels on both sides. -/
theorem fuseLoop_values (I : Interp) (ord : Nat → List Nat → List Nat) (hord : OrdOK ord)
    (inp : FKey → Option V) :
    ∀ (fuel : Nat) (dag : Dag) (root n : Nat) (dag' : Dag) (root' n' : Nat),
      fuseLoop ord fuel dag root n = some (dag', root', n') →
      PlanOK dag root → (∃ ρ, RankedBy dag ρ) → MembersKnown dag →
      ∀ i, ∃ B B', ∀ N N', B ≤ N → B' ≤ N' →
        run I (refGraph dag') inp N' (.part root' i) = run I (refGraph dag) inp N (.part root i) := by
  intro fuel
  induction fuel with
  | zero => intro dag root n dag' root' n' h; simp [fuseLoop] at h
  | succ fuel ih =>
    intro dag root n dag' root' n' h hplan hrk hmk i
    obtain ⟨ρ, hr⟩ := hrk
    simp only [fuseLoop] at h
    cases hp : fusionPass ord dag root with
    | none => simp [hp] at h
    | some r =>
      simp only [hp] at h
      cases hg : r.group with
      | none =>
        simp only [hg, Option.some.injEq, Prod.mk.injEq] at h
        obtain ⟨hd, hro, _⟩ := h
        obtain ⟨e1, e2⟩ := fusionPass_none_group ord dag root r hp hg
        rw [← hd, ← hro, e1, e2]
        refine ⟨ρ root + 1, ρ root + 1, ?_⟩
        intro N N' hN hN'
        have hst := run_stable I (refGraph dag) inp (keyRank ρ) (refGraph_ranked hr) (ρ root + 1) (.part root i)
          (by simp [keyRank])
        rw [hst N' hN', hst N hN]
      | some G =>
        simp only [hg] at h
        obtain ⟨hplan1, hrk1, hmk1, hval⟩ := pass_step I ord hord dag root r G hp hg hplan ρ hr hmk inp
        by_cases hdone : r.done = true
        · simp only [hdone, if_true, Option.some.injEq, Prod.mk.injEq] at h
          obtain ⟨hd, hro, _⟩ := h
          rw [← hd, ← hro]
          exact ⟨ρ root + 1, 2 * ρ root + 3, fun N N' hN hN' => hval i N N' (by omega) hN'⟩
        · simp only [hdone] at h
          obtain ⟨B1, B1', hrec⟩ := ih r.dag r.root (n + 1) dag' root' n' h hplan1 hrk1 hmk1 i
          refine ⟨ρ root + 1, B1', ?_⟩
          intro N N' hN hN'
          have hmid := hval i N (max B1 (2 * ρ root + 3)) (by omega) (by omega)
          rw [hrec (max B1 (2 * ρ root + 3)) N' (by omega) hN', hmid]

end Dx.Fusion
