/-
  Lemmas/MetaConcat.lean — Concat: every output partition (passed through, or re-indexed against the declared meta by
  `methods.concat([meta, part])`) carries the declared schema.
-/
import DxModel.Meta
import DxModel.Lemmas.Meta
namespace Dx.Meta

/-! ### index levels: `mergeLvl` is associative, commutative, idempotent -/

theorem mergeLvl_idem (a : Lvl) : mergeLvl a a = a := by
  obtain ⟨n, k⟩ := a
  simp [mergeLvl, Kind.join_idem]

theorem mergeLvl_comm (a b : Lvl) : mergeLvl a b = mergeLvl b a := by
  obtain ⟨n, k⟩ := a
  obtain ⟨n', k'⟩ := b
  simp only [mergeLvl, Kind.join_comm k k']
  by_cases h : n = n'
  · subst h; rfl
  · have h' : ¬ n' = n := fun e => h e.symm
    simp [h, h']

theorem mergeLvl_assoc (a b c : Lvl) : mergeLvl (mergeLvl a b) c = mergeLvl a (mergeLvl b c) := by
  obtain ⟨n, k⟩ := a
  obtain ⟨n', k'⟩ := b
  obtain ⟨n'', k''⟩ := c
  simp only [mergeLvl, Kind.join_assoc]
  congr 1
  by_cases h1 : n = n'
  · subst h1
    by_cases h2 : n = n''
    · subst h2; simp
    · simp only [beq_self_eq_true, if_true, h2, beq_iff_eq, if_false]
      cases n <;> simp
  · by_cases h2 : n' = n''
    · subst h2; simp [h1]
    · simp only [beq_iff_eq, h1, if_false, h2]
      cases n'' <;> cases n <;> simp

abbrev Z (a b : List Lvl) : List Lvl := List.zipWith mergeLvl a b

theorem Z_idem : ∀ (a : List Lvl), Z a a = a
  | [] => rfl
  | x :: t => by simp [Z, mergeLvl_idem]

theorem Z_comm : ∀ (a b : List Lvl), Z a b = Z b a
  | [], [] => rfl
  | [], _ :: _ => rfl
  | _ :: _, [] => rfl
  | x :: t, y :: u => by
    simp only [Z, List.zipWith_cons_cons, mergeLvl_comm x y]
    congr 1
    exact Z_comm t u

theorem Z_assoc : ∀ (a b c : List Lvl), Z (Z a b) c = Z a (Z b c)
  | [], _, _ => by simp [Z]
  | _ :: _, [], _ => by simp [Z]
  | _ :: _, _ :: _, [] => by simp [Z]
  | x :: t, y :: u, z :: v => by
    simp only [Z, List.zipWith_cons_cons, mergeLvl_assoc]
    congr 1
    exact Z_assoc t u v

/-- absorption survives further folding -/
theorem foldl_absorb : ∀ (t : List (List Lvl)) (x p : List Lvl), Z x p = x → Z (t.foldl Z x) p = t.foldl Z x
  | [], _, _, h => h
  | c :: t, x, p, h => by
    rw [List.foldl_cons]
    apply foldl_absorb t
    rw [Z_assoc, Z_comm c p, ← Z_assoc, h]

/-- the common index absorbs the index of every input -/
theorem commonIdx_absorb : ∀ (i : List Lvl) (is : List (List Lvl)) (p : List Lvl), p ∈ i :: is →
    Z (commonIdx (i :: is)) p = commonIdx (i :: is)
  | i, [], p, hp => by
    have : p = i := by simpa using hp
    subst this
    exact Z_idem p
  | i, b :: t, p, hp => by
    show Z ((b :: t).foldl Z i) p = (b :: t).foldl Z i
    rw [List.foldl_cons]
    rcases List.mem_cons.mp hp with rfl | hp'
    · apply foldl_absorb
      rw [Z_comm p b, Z_assoc, Z_idem]
    · rcases List.mem_cons.mp hp' with rfl | hp''
      · apply foldl_absorb
        rw [Z_assoc, Z_idem]
      · exact commonIdx_absorb (Z i b) t p (List.mem_cons_of_mem _ hp'')

theorem commonIdx_pair (a b : List Lvl) : commonIdx [a, b] = Z a b := rfl

theorem eq_of_fst_snd : ∀ (a b : List Lvl), lvlNames a = lvlNames b → lvlKinds a = lvlKinds b → a = b
  | [], [], _, _ => rfl
  | [], _ :: _, h, _ => by simp [lvlNames] at h
  | _ :: _, [], h, _ => by simp [lvlNames] at h
  | (n, k) :: t, (n', k') :: u, h1, h2 => by
    simp only [lvlNames, List.map_cons, List.cons.injEq] at h1
    simp only [lvlKinds, List.map_cons, List.cons.injEq] at h2
    rw [h1.1, h2.1, eq_of_fst_snd t u h1.2 h2.2]

/-! ### series names -/

theorem seriesName_some {names : List (Option Name)} {x : Name} (h : seriesName names = some x) :
    ∀ n, n ∈ names → n = some x := by
  cases names with
  | nil => simp [seriesName] at h
  | cons a t =>
    simp only [seriesName] at h
    by_cases hall : t.all (· == a) = true
    · rw [if_pos hall] at h
      subst h
      intro n hn
      rcases List.mem_cons.mp hn with rfl | hn'
      · rfl
      · have := List.all_eq_true.mp hall n hn'
        simpa using this
    · rw [if_neg hall] at h; cases h

theorem seriesName_pair (mn pn : Option Name) (names : List (Option Name)) (hm : mn = seriesName names) (hp : pn ∈ names) :
    seriesName [mn, pn] = mn := by
  simp only [seriesName, List.all_cons, List.all_nil, Bool.and_true]
  cases hmn : mn with
  | none => simp
  | some x =>
    have := seriesName_some (hm ▸ hmn) pn hp
    rw [this]
    simp

/-! ### columns -/

theorem labels_castTo (m pc : List Col) : labels (castTo m pc) = labels pc := by
  unfold castTo labels
  rw [List.map_map]
  apply List.map_congr_left
  intro c _
  simp only [Function.comp]
  cases m.lookup c.1 <;> rfl

theorem lookup_none_iff : ∀ (cols : List Col) (c : Name), cols.lookup c = none ↔ c ∉ labels cols
  | [], c => by simp [labels]
  | (n, k) :: t, c => by
    simp only [List.lookup_cons, labels, List.map_cons, List.mem_cons, not_or]
    cases hb : (c == n) with
    | true =>
      have : c = n := by simpa using hb
      simp [this]
    | false =>
      have : c ≠ n := by simpa using hb
      simp only [this, not_false_eq_true, true_and]
      exact lookup_none_iff t c

theorem lookup_some_mem {cols : List Col} {c : Name} {k : Kind} (h : cols.lookup c = some k) : c ∈ labels cols := by
  by_cases hm : c ∈ labels cols
  · exact hm
  · rw [(lookup_none_iff cols c).mpr hm] at h; cases h

/-- looking a label up in the cast partition: present exactly when the partition has it, with the declared kind when
    the declaration has the label -/
theorem lookup_castTo (m : List Col) : ∀ (pc : List Col) (c : Name),
    (castTo m pc).lookup c = (pc.lookup c).map (fun k => match m.lookup c with | some k' => k' | none => k)
  | [], c => rfl
  | (n, k) :: t, c => by
    simp only [castTo, List.map_cons, List.lookup_cons]
    have hfst : (match m.lookup n with | some k' => (n, k') | none => (n, k)).1 = n := by
      cases m.lookup n <;> rfl
    cases hb : (c == n) with
    | true =>
      have hcn : c = n := by simpa using hb
      subst hcn
      cases hm : m.lookup c with
      | none => simp
      | some k' => simp
    | false =>
      have ih := lookup_castTo m t c
      simp only [castTo] at ih
      cases hm : m.lookup n with
      | none => simp only [List.lookup_cons, hb, Option.map]; exact ih
      | some k' => simp only [List.lookup_cons, hb, Option.map]; exact ih

theorem castTo_eq_of_labels (m : List Col) (hn : (labels m).Nodup) : ∀ (pc : List Col), labels pc = labels m → castTo m pc = m := by
  intro pc hl
  -- pointwise: the i-th entries agree
  apply List.ext_getElem?
  intro i
  have hlen : pc.length = m.length := by
    have := congrArg List.length hl
    simpa [labels] using this
  unfold castTo
  rw [List.getElem?_map]
  cases hp : pc[i]? with
  | none =>
    have : m[i]? = none := by
      rw [List.getElem?_eq_none_iff] at hp ⊢
      omega
    rw [this]; rfl
  | some c =>
    have hi : i < pc.length := by
      by_cases h : i < pc.length
      · exact h
      · rw [List.getElem?_eq_none_iff.mpr (by omega)] at hp; cases hp
    have hi' : i < m.length := by omega
    have hmi : m[i]? = some m[i] := List.getElem?_eq_getElem hi'
    have hci : c = pc[i] := by
      rw [List.getElem?_eq_getElem hi] at hp
      exact (Option.some.inj hp).symm
    have hlab : c.1 = (m[i]).1 := by
      have h1 : (labels pc)[i]? = (labels m)[i]? := by rw [hl]
      simp only [labels, List.getElem?_map, hp, hmi, Option.map_some, Option.some.injEq] at h1
      exact h1
    have hlk : m.lookup c.1 = some (m[i]).2 := by
      rw [hlab]
      exact lookup_of_mem_nodup hn m[i] (List.getElem_mem hi')
    simp only [Option.map_some, hlk, hmi, Option.some.injEq]
    rw [hlab]

/-- first-seen union: a column that some input lacks has a kind that is closed under `na` -/
theorem unionCols_na {frames : List (List Col)} {c : Col} (hc : c ∈ unionCols frames) {f : List Col}
    (hf : f ∈ frames) (hl : c.1 ∉ labels f) : c.2.na = c.2 := by
  unfold unionCols at hc
  obtain ⟨n, _, rfl⟩ := List.mem_map.mp hc
  have hall : frames.all (fun f => (labels f).contains n) = false := by
    apply Bool.eq_false_iff.mpr
    intro h
    have := List.all_eq_true.mp h f hf
    simp only [List.contains_iff_mem] at this
    exact hl this
  simp only [hall, Bool.false_eq_true, if_false, Kind.na_idem]

theorem interCols_has {f : List Col} {fs : List (List Col)} {c : Col} (hc : c ∈ interCols (f :: fs)) :
    c.1 ∈ labels f ∧ ∀ g, g ∈ fs → c.1 ∈ labels g := by
  unfold interCols at hc
  obtain ⟨c0, hc0, rfl⟩ := List.mem_map.mp hc
  rw [List.mem_filter] at hc0
  refine ⟨List.mem_map.mpr ⟨c0, hc0.1, rfl⟩, ?_⟩
  intro g hg
  have := List.all_eq_true.mp hc0.2 g hg
  simpa using this

/-- a declared column that this input lacks is filled with missing values, and its declared kind already says so -/
theorem rowCols_na (inner : Bool) {cs : List (List Col)} {c : Col} (hc : c ∈ rowCols inner cs) {pc : List Col}
    (hp : pc ∈ cs) (hl : pc.lookup c.1 = none) : c.2.na = c.2 := by
  have hnl : c.1 ∉ labels pc := (lookup_none_iff pc c.1).mp hl
  cases cs with
  | nil => cases hp
  | cons f fs =>
    simp only [rowCols] at hc
    by_cases hid : fs.all (fun g => labels g == labels f) = true
    · rw [if_pos hid] at hc
      obtain ⟨c0, hc0, rfl⟩ := List.mem_map.mp hc
      have hcf : c0.1 ∈ labels f := List.mem_map.mpr ⟨c0, hc0, rfl⟩
      exfalso
      apply hnl
      rcases List.mem_cons.mp hp with rfl | hp'
      · exact hcf
      · have := List.all_eq_true.mp hid pc hp'
        have : labels pc = labels f := by simpa using this
        rw [this]; exact hcf
    · rw [if_neg hid] at hc
      cases inner with
      | true =>
        simp only [if_true] at hc
        obtain ⟨h1, h2⟩ := interCols_has hc
        exfalso
        apply hnl
        rcases List.mem_cons.mp hp with rfl | hp'
        · exact h1
        · exact h2 pc hp'
      | false =>
        simp only [Bool.false_eq_true, if_false] at hc
        exact unionCols_na hc hp hnl

/-- re-indexing the cast partition against the declared columns gives the declared columns -/
theorem stack_cols (m pc : List Col) (hn : (labels m).Nodup)
    (hna : ∀ c, c ∈ m → pc.lookup c.1 = none → c.2.na = c.2) :
    m.map (fun c => (c.1, fillKind c.2 ((castTo m pc).lookup c.1))) = m := by
  have : ∀ c, c ∈ m → (c.1, fillKind c.2 ((castTo m pc).lookup c.1)) = c := by
    intro c hc
    rw [lookup_castTo, lookup_of_mem_nodup hn c hc]
    cases hp : pc.lookup c.1 with
    | none => simp only [Option.map_none, fillKind]; rw [hna c hc hp]
    | some k => simp only [Option.map_some, fillKind, Kind.join_idem]
  calc m.map _ = m.map id := List.map_congr_left this
    _ = m := List.map_id m

/-! ### which input a partition comes from -/

theorem frameParts_mem : ∀ {ss : List Sch} {fr : List (List Col × List Lvl)}, frameParts ss = some fr →
    ∀ s, s ∈ ss → ∃ pc pi, s = .frame pc pi ∧ (pc, pi) ∈ fr
  | [], _, _, s, hs => by cases hs
  | .frame c i :: t, fr, h, s, hs => by
    simp only [frameParts] at h
    cases ht : frameParts t with
    | none => rw [ht] at h; cases h
    | some fr' =>
      rw [ht] at h
      simp only [Option.map_some, Option.some.injEq] at h
      subst h
      rcases List.mem_cons.mp hs with rfl | hs'
      · exact ⟨c, i, rfl, by simp⟩
      · obtain ⟨pc, pi, he, hm⟩ := frameParts_mem ht s hs'
        exact ⟨pc, pi, he, List.mem_cons_of_mem _ hm⟩
  | .series _ _ _ :: _, _, h, _, _ => by simp [frameParts] at h
  | .index _ :: _, _, h, _, _ => by simp [frameParts] at h
  | .scalar _ :: _, _, h, _, _ => by simp [frameParts] at h
  | .bad :: _, _, h, _, _ => by simp [frameParts] at h

theorem seriesParts_mem : ∀ {ss : List Sch} {sr : List (Option Name × Kind × List Lvl)}, seriesParts ss = some sr →
    ∀ s, s ∈ ss → ∃ pn pk pi, s = .series pn pk pi ∧ (pn, pk, pi) ∈ sr
  | [], _, _, s, hs => by cases hs
  | .series n k i :: t, sr, h, s, hs => by
    simp only [seriesParts] at h
    cases ht : seriesParts t with
    | none => rw [ht] at h; cases h
    | some sr' =>
      rw [ht] at h
      simp only [Option.map_some, Option.some.injEq] at h
      subst h
      rcases List.mem_cons.mp hs with rfl | hs'
      · exact ⟨n, k, i, rfl, by simp⟩
      · obtain ⟨pn, pk, pi, he, hm⟩ := seriesParts_mem ht s hs'
        exact ⟨pn, pk, pi, he, List.mem_cons_of_mem _ hm⟩
  | .frame _ _ :: _, _, h, _, _ => by simp [seriesParts] at h
  | .index _ :: _, _, h, _, _ => by simp [seriesParts] at h
  | .scalar _ :: _, _, h, _, _ => by simp [seriesParts] at h
  | .bad :: _, _, h, _, _ => by simp [seriesParts] at h

theorem commonIdx_absorb_mem (idxs : List (List Lvl)) (p : List Lvl) (hp : p ∈ idxs) :
    commonIdx [commonIdx idxs, p] = commonIdx idxs := by
  cases idxs with
  | nil => cases hp
  | cons i is => rw [commonIdx_pair]; exact commonIdx_absorb i is p hp

theorem filter_all_self {α : Type} (l : List α) (p : α → Bool) (h : l.all p = true) : l.filter p = l := by
  apply List.filter_eq_self.mpr
  intro a ha
  exact List.all_eq_true.mp h a ha

/-- one output partition of a row-wise concat: the declared schema -/
theorem stack_one (inner : Bool) (ss : List Sch) (s : Sch) (hs : s ∈ ss)
    (hnd : nodupLabels (pConcatRows inner ss) = true)
    (hk : idxKindsOk (pConcatRows inner ss) s = true) :
    (let part := castPart (pConcatRows inner ss) s
     if checkMeta part (pConcatRows inner ss) then part else pStack (pConcatRows inner ss) part) =
      pConcatRows inner ss := by
  have hne : ss.isEmpty = false := by
    cases ss with
    | nil => cases hs
    | cons a t => rfl
  unfold pConcatRows at hnd hk ⊢
  simp only [hne, Bool.false_eq_true, if_false] at hnd hk ⊢
  cases hfp : frameParts ss with
  | some fr =>
    simp only [hfp] at hnd hk ⊢
    obtain ⟨pc, pi, rfl, hmem⟩ := frameParts_mem hfp s hs
    have hpc : pc ∈ fr.map (·.1) := List.mem_map.mpr ⟨_, hmem, rfl⟩
    have hpi : pi ∈ fr.map (·.2) := List.mem_map.mpr ⟨_, hmem, rfl⟩
    have hn : (labels (rowCols inner (fr.map (·.1)))).Nodup := by simpa [nodupLabels] using hnd
    simp only [castPart, checkMeta, labels_castTo]
    by_cases hchk : (labels pc == labels (rowCols inner (fr.map (·.1))) &&
        lvlNames pi == lvlNames (commonIdx (fr.map (·.2)))) = true
    · rw [if_pos hchk]
      simp only [Bool.and_eq_true, beq_iff_eq] at hchk
      have hkk : lvlKinds (commonIdx (fr.map (·.2))) = lvlKinds pi := by simpa [idxKindsOk] using hk
      rw [castTo_eq_of_labels _ hn pc hchk.1, eq_of_fst_snd pi _ hchk.2 hkk.symm]
    · rw [if_neg hchk]
      simp only [pStack]
      rw [stack_cols _ pc hn (fun c hc hl => rowCols_na inner hc hpc hl), commonIdx_absorb_mem _ pi hpi]
  | none =>
    clear hnd
    simp only [hfp] at hk ⊢
    generalize hsp : seriesParts ss = osr at hk ⊢
    cases osr with
    | some sr =>
      simp only at hk ⊢
      obtain ⟨pn, pk, pi, rfl, hmem⟩ := seriesParts_mem hsp s hs
      have hpn : pn ∈ sr.map (·.1) := List.mem_map.mpr ⟨_, hmem, rfl⟩
      have hpi : pi ∈ sr.map (·.2.2) := List.mem_map.mpr ⟨_, hmem, rfl⟩
      simp only [castPart]
      by_cases hchk : checkMeta (.series pn (joinOr (sr.map (·.2.1))) pi)
          (.series (seriesName (sr.map (·.1))) (joinOr (sr.map (·.2.1))) (commonIdx (sr.map (·.2.2)))) = true
      · simp only [hchk, if_true]
        simp only [checkMeta, Bool.and_eq_true, beq_iff_eq] at hchk
        have hkk : lvlKinds (commonIdx (sr.map (·.2.2))) = lvlKinds pi := by simpa [idxKindsOk] using hk
        rw [hchk.1, eq_of_fst_snd pi _ hchk.2 hkk.symm]
      · simp only [hchk, Bool.false_eq_true, if_false]
        simp only [pStack]
        rw [seriesName_pair _ pn _ rfl hpn, commonIdx_absorb_mem _ pi hpi, Kind.join_idem]
    | none =>
      simp only
      cases s <;> rfl

/-! ### D99: the index names all inputs agree on are the names pandas gives (when no RangeIndex stand-in interferes) -/

theorem lvlNames_Z : ∀ (a b : List Lvl), lvlNames (Z a b) = List.zipWith meetName (lvlNames a) (lvlNames b)
  | [], _ => by simp [Z, lvlNames]
  | _ :: _, [] => by simp [Z, lvlNames]
  | (n, k) :: t, (n', k') :: u => by
    have ih := lvlNames_Z t u
    simp only [lvlNames, Z] at ih
    simp only [Z, lvlNames, List.zipWith_cons_cons, List.map_cons, mergeLvl, meetName, ih]

theorem lvlNames_foldl : ∀ (is : List (List Lvl)) (i : List Lvl),
    lvlNames (is.foldl Z i) = (is.map lvlNames).foldl (List.zipWith meetName) (lvlNames i)
  | [], _ => rfl
  | b :: t, i => by
    rw [List.foldl_cons, List.map_cons, List.foldl_cons, lvlNames_foldl t (Z i b), lvlNames_Z]

theorem lvlNames_commonIdx (i : List Lvl) (is : List (List Lvl)) :
    lvlNames (commonIdx (i :: is)) = commonNames ((i :: is).map lvlNames) := by
  show lvlNames (is.foldl Z i) = _
  rw [lvlNames_foldl]
  rfl

theorem setNames_self : ∀ (idx : List Lvl), setNames idx (lvlNames idx) = idx
  | [] => rfl
  | (n, k) :: t => by
    have ih := setNames_self t
    simp only [setNames, lvlNames] at ih
    simp only [setNames, lvlNames, List.map_cons, List.zipWith_cons_cons, ih]

theorem allIdx_frames : ∀ {ss : List Sch} {fr : List (List Col × List Lvl)}, frameParts ss = some fr →
    allIdx ss = some (fr.map (·.2))
  | [], _, h => by simp [frameParts] at h; subst h; rfl
  | .frame c i :: t, fr, h => by
    simp only [frameParts] at h
    cases ht : frameParts t with
    | none => rw [ht] at h; cases h
    | some fr' =>
      rw [ht] at h
      simp only [Option.map_some, Option.some.injEq] at h
      subst h
      simp only [allIdx, idxOf, allIdx_frames ht, List.map_cons]
  | .series _ _ _ :: _, _, h => by simp [frameParts] at h
  | .index _ :: _, _, h => by simp [frameParts] at h
  | .scalar _ :: _, _, h => by simp [frameParts] at h
  | .bad :: _, _, h => by simp [frameParts] at h

theorem allIdx_series : ∀ {ss : List Sch} {sr : List (Option Name × Kind × List Lvl)}, seriesParts ss = some sr →
    allIdx ss = some (sr.map (·.2.2))
  | [], _, h => by simp [seriesParts] at h; subst h; rfl
  | .series n k i :: t, sr, h => by
    simp only [seriesParts] at h
    cases ht : seriesParts t with
    | none => rw [ht] at h; cases h
    | some sr' =>
      rw [ht] at h
      simp only [Option.map_some, Option.some.injEq] at h
      subst h
      simp only [allIdx, idxOf, allIdx_series ht, List.map_cons]
  | .frame _ _ :: _, _, h => by simp [seriesParts] at h
  | .index _ :: _, _, h => by simp [seriesParts] at h
  | .scalar _ :: _, _, h => by simp [seriesParts] at h
  | .bad :: _, _, h => by simp [seriesParts] at h

theorem setNames_commonIdx (idxs : List (List Lvl)) (hne : idxs ≠ []) :
    setNames (commonIdx idxs) (commonNames (idxs.map lvlNames)) = commonIdx idxs := by
  cases idxs with
  | nil => exact absurd rfl hne
  | cons i is => rw [← lvlNames_commonIdx, setNames_self]

/-- with every input taking part in the declaration, the override changes nothing -/
theorem overrideNames_id (inner : Bool) (ss : List Sch) : overrideNames (pConcatRows inner ss) ss = pConcatRows inner ss := by
  cases hss : ss with
  | nil => rfl
  | cons s0 t =>
    rw [← hss]
    have hne : ss.isEmpty = false := by rw [hss]; rfl
    unfold pConcatRows
    simp only [hne, Bool.false_eq_true, if_false]
    cases hfp : frameParts ss with
    | some fr =>
      simp only [overrideNames, allIdx_frames hfp]
      have hfr : fr.map (·.2) ≠ [] := by
        intro h0
        have hfr0 : fr = [] := by simpa using h0
        subst hfr0
        rw [hss] at hfp
        cases s0 <;> simp [frameParts] at hfp
      split
      · rw [setNames_commonIdx _ hfr]
      · rfl
    | none =>
      simp only
      cases hsp : seriesParts ss with
      | some sr =>
        simp only [overrideNames, allIdx_series hsp]
        have hsr : sr.map (·.2.2) ≠ [] := by
          intro h0
          have hsr0 : sr = [] := by simpa using h0
          subst hsr0
          rw [hss] at hsp
          cases s0 <;> simp [seriesParts] at hsp
        split
        · rw [setNames_commonIdx _ hsr]
        · rfl
      | none =>
        simp only [overrideNames]
        cases allIdx ss <;> rfl

/-- `Concat`: every output partition carries the declared schema -/
theorem taskConcat_eq (a i : Bool) (rt : Rt) (ss : List Sch) (hg : guardConcat a (declConcat a i ss) ss = true) :
    taskConcat a i rt (declConcat a i ss) ss = declConcat a i ss := by
  unfold guardConcat at hg
  cases a with
  | true =>
    simp only [if_true] at hg
    unfold taskConcat declConcat
    simp only [if_true, filter_all_self ss hasColumns hg]
  | false =>
    simp only [Bool.false_eq_true, if_false, Bool.and_eq_true] at hg
    obtain ⟨hnd, hall⟩ := hg
    have hcols : ss.all hasColumns = true := by
      apply List.all_eq_true.mpr
      intro s hs
      have := List.all_eq_true.mp hall s hs
      simp only [Bool.and_eq_true] at this
      exact this.1
    have hdecl : declConcat false i ss = pConcatRows i ss := by
      unfold declConcat
      simp only [Bool.false_eq_true, if_false, filter_all_self ss hasColumns hcols, overrideNames_id]
    rw [hdecl] at hnd hall ⊢
    unfold taskConcat
    simp only [Bool.false_eq_true, if_false]
    cases hss : ss with
    | nil => rfl
    | cons s0 t =>
      rw [← hss]
      have hlen : 0 < ss.length := by rw [hss]; simp
      have hidx : rt.which % ss.length < ss.length := Nat.mod_lt _ hlen
      rw [List.getElem?_eq_getElem hidx]
      simp only
      have hmem : ss[rt.which % ss.length] ∈ ss := List.getElem_mem hidx
      have hk := List.all_eq_true.mp hall _ hmem
      simp only [Bool.and_eq_true] at hk
      exact stack_one i ss _ hmem hnd hk.2

end Dx.Meta
