/-
  Lemmas/FragCode.lean — the literal code of DxModel/Fragment.lean is invertible: `opOf o.cls o.lit = o` for every
  class/operand view `o`, hence `(mk o args).op = o`.
-/
import DxModel.Fragment
namespace Dx.Frag
open Dx Dx.Cols

/-! ### lists of naturals -/

theorem tz_pow (m : Nat) (hm : m % 2 = 1) : ∀ a f, a ≤ f → tz f (2 ^ a * m) = a
  | 0, 0, _ => rfl
  | 0, f + 1, _ => by simp [tz, hm]
  | a + 1, 0, h => by omega
  | a + 1, f + 1, h => by
    have e : 2 ^ (a + 1) * m = 2 * (2 ^ a * m) := by rw [Nat.pow_succ]; ac_rfl
    have h1 : (2 ^ (a + 1) * m) % 2 = 0 := by rw [e]; omega
    have h2 : (2 ^ (a + 1) * m) / 2 = 2 ^ a * m := by rw [e]; omega
    simp only [tz, h1, h2]
    rw [tz_pow m hm a f (by omega)]
    simp; omega

theorem decL_encL : ∀ (l : List Nat) (f : Nat), encL l ≤ f → decL f (encL l) = l
  | [], 0, _ => rfl
  | [], f + 1, _ => by simp [decL, encL]
  | a :: t, 0, h => by
    exfalso
    have : 0 < 2 ^ a := Nat.two_pow_pos a
    simp only [encL] at h
    have : 0 < 2 ^ a * (2 * encL t + 1) := Nat.mul_pos this (by omega)
    omega
  | a :: t, f + 1, h => by
    have hp : 0 < 2 ^ a := Nat.two_pow_pos a
    have hpos : 0 < 2 ^ a * (2 * encL t + 1) := Nat.mul_pos hp (by omega)
    have hne : encL (a :: t) ≠ 0 := by simp only [encL]; omega
    have hodd : (2 * encL t + 1) % 2 = 1 := by omega
    have hge : a ≤ encL (a :: t) := by
      simp only [encL]
      have : a < 2 ^ a := Nat.lt_two_pow_self
      have : 2 ^ a ≤ 2 ^ a * (2 * encL t + 1) := Nat.le_mul_of_pos_right _ (by omega)
      omega
    have htz : tz (encL (a :: t)) (encL (a :: t)) = a := by
      simp only [encL] at hge ⊢
      exact tz_pow _ hodd a _ hge
    have hdiv : encL (a :: t) / 2 ^ a / 2 = encL t := by
      simp only [encL]
      rw [Nat.mul_div_cancel_left _ hp]
      omega
    have hle : encL t ≤ f := by
      have : encL (a :: t) ≥ 2 * encL t + 1 := by
        simp only [encL]
        exact Nat.le_mul_of_pos_left _ hp
      omega
    simp only [decL, hne, if_false, htz, hdiv]
    rw [decL_encL t f hle]

/-! ### sentences -/

theorem splitW_word (w : List Nat) (rest : List Nat) :
    splitW (w.map (· + 1) ++ 0 :: rest) = w :: splitW rest := by
  induction w with
  | nil => rfl
  | cons a t ih => simp only [List.map_cons, List.cons_append, splitW, ih]

theorem splitW_flatW : ∀ s : Sentence, splitW (flatW s) = s
  | [] => rfl
  | w :: ws => by rw [flatW, splitW_word, splitW_flatW ws]

theorem decS_encS (s : Sentence) : decS (encS s) = s := by
  unfold decS encS
  rw [decL_encL _ _ (Nat.le_refl _), splitW_flatW]

theorem nameW_wName (s : Name) : nameW (wName s) = s := by
  unfold nameW wName
  rw [List.map_map]
  have : (Char.ofNat ∘ Char.toNat) = id := by
    funext c; simp
  rw [this, List.map_id]
  simp

theorem names_rt (l : List Name) : (l.map wName).map nameW = l := by
  rw [List.map_map]
  have : (nameW ∘ wName) = id := by
    funext c; exact nameW_wName c
  rw [this, List.map_id]

theorem pairsOf_unpairs : ∀ m : List (Name × Name), pairsOf (unpairs m) = m
  | [] => rfl
  | kv :: t => by simp only [unpairs, pairsOf, pairsOf_unpairs t]

/-! ### classes -/

theorem srcOfSent_sent (l : SrcLit) : srcOfSent (Op.src l).sent = .src l := by
  obtain ⟨tid, full, cols⟩ := l
  cases cols with
  | none =>
    simp only [Op.sent, srcOfSent]
    rw [List.drop_left' (by simp), List.take_left' (by simp)]
    simp only [names_rt]
  | some cs =>
    simp only [Op.sent, srcOfSent]
    rw [List.drop_left' (by simp), List.take_left' (by simp)]
    simp only [names_rt]

theorem mergeOfSent_sent (how : Nat) (m : MergeP) : mergeOfSent (Op.merge how m).sent = .merge how m := by
  obtain ⟨lo, ro, ls, rs⟩ := m
  simp only [Op.sent, mergeOfSent]
  have h1 : (lo.map wName ++ (ro.map wName ++ [wName ls, wName rs])).take lo.length = lo.map wName := by
    rw [List.take_left' (by simp)]
  have h2 : (lo.map wName ++ (ro.map wName ++ [wName ls, wName rs])).drop lo.length
      = ro.map wName ++ [wName ls, wName rs] := by
    rw [List.drop_left' (by simp)]
  have h3 : (ro.map wName ++ [wName ls, wName rs]).take ro.length = ro.map wName := by
    rw [List.take_left' (by simp)]
  have h4 : (ro.map wName ++ [wName ls, wName rs]).drop ro.length = [wName ls, wName rs] := by
    rw [List.drop_left' (by simp)]
  rw [h2, h4, h1, h3]
  simp only [names_rt, nameW_wName]

theorem opOfSent_sent (o : Op) : opOfSent o.cls o.sent = o := by
  cases o with
  | src l => exact srcOfSent_sent l
  | proj sel =>
    cases sel with
    | one c => simp only [Op.cls, Op.sent, opOfSent, nameW_wName]
    | many cs => simp only [Op.cls, Op.sent, opOfSent, names_rt]
  | elem op => rfl
  | bink op k => rfl
  | bin op => rfl
  | assign keys => simp only [Op.cls, Op.sent, opOfSent, names_rt]
  | rename m => simp only [Op.cls, Op.sent, opOfSent, names_rt, pairsOf_unpairs]
  | filter => rfl
  | merge how m => exact mergeOfSent_sent how m
  | concat inner => cases inner <;> rfl
  | bad => rfl

/-- the code of a node determines its class and non-expression operands -/
theorem opOf_code (o : Op) : opOf o.cls o.lit = o := by
  unfold opOf Op.lit
  rw [decS_encS, opOfSent_sent]

@[simp] theorem mk_op (o : Op) (args : List Expr) : (mk o args).op = o := opOf_code o
@[simp] theorem mk_args (o : Op) (args : List Expr) : (mk o args).args = args := rfl
@[simp] theorem proj_op (s : Sel) (x : Expr) : (proj s x).op = .proj s := mk_op _ _
@[simp] theorem proj_args (s : Sel) (x : Expr) : (proj s x).args = [x] := rfl

end Dx.Frag
