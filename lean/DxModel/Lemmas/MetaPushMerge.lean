/-
  Lemmas/MetaPushMerge.lean — `Merge._simplify_up(Projection)` keeps the declared schema of the projection
  (labels with their suffixes, kinds, fresh index), under the hypothesis C04 needs as well: a join key that also names
  a column of the other side is a key common to both sides.
-/
import DxModel.Lemmas.MetaPush
import DxModel.Lemmas.ColsMerge
namespace Dx.Meta
open Dx.Cols (Parent Dep Rw Sel Adequate mergeLists mergeLabels labelL labelR commonKey KeysDoNotCollide mA mB mG mH)

/-! ### every kept column keeps its collision partner -/

theorem merge_left_partner (m : Dx.Cols.MergeP) (L R proj : List Name) (hR : R.Nodup)
    (hkey : ∀ c, c ∈ m.leftOn → c ∈ R → commonKey m c = true) {c : Name}
    (hc : c ∈ (mergeLists m L R proj).1) (hcol : (R.contains c && !commonKey m c) = true) :
    c ∈ (mergeLists m L R proj).2 := by
  simp only [Bool.and_eq_true, Bool.not_eq_true'] at hcol
  have hcR : c ∈ R := List.contains_iff_mem.mp hcol.1
  rw [Dx.Cols.mergeLists_eq m L R proj hR] at hc ⊢
  rcases List.mem_append.mp hc with h | h
  · obtain ⟨hcL, hA⟩ := List.mem_filter.mp h
    by_cases hB : mB m R proj c = true
    · exact List.mem_append_left _ (List.mem_filter.mpr ⟨hcL, hB⟩)
    · have hfirst : (m.leftOn.contains c || proj.contains c) = true := by
        by_cases hf : (m.leftOn.contains c || proj.contains c) = true
        · exact hf
        · exfalso
          apply hB
          have hf' : (m.leftOn.contains c || proj.contains c) = false := by simpa using hf
          simp only [mA, Bool.or_eq_true] at hA
          have hls : proj.contains (c ++ m.ls) = true := by
            rcases hA with (h1 | h1) | h1
            · rw [Bool.or_eq_false_iff] at hf'; rw [hf'.1] at h1; cases h1
            · rw [Bool.or_eq_false_iff] at hf'; rw [hf'.2] at h1; cases h1
            · exact h1
          simp only [mB, hf', hls, hcol.1, Bool.not_false, Bool.and_self]
      rcases Bool.or_eq_true _ _ |>.mp hfirst with hk | hp
      · have := hkey c (List.contains_iff_mem.mp hk) hcR
        rw [hcol.2] at this; cases this
      · have := Dx.Cols.merge_right_of_proj m L R proj hR hcR hp
        rw [Dx.Cols.mergeLists_eq m L R proj hR] at this
        exact this
  · obtain ⟨_, hG⟩ := List.mem_filter.mp h
    by_cases hin : (L.filter (mB m R proj)).contains c = true
    · exact List.mem_append_left _ (List.contains_iff_mem.mp hin)
    · apply List.mem_append_right
      rw [List.mem_filter]
      refine ⟨hcR, ?_⟩
      have hin' : (L.filter (mB m R proj)).contains c = false := by simpa using hin
      simp only [mG, Bool.and_eq_true] at hG
      simp only [mH, hin', hG.1.1.2, Bool.not_false, Bool.or_true, Bool.and_self]

theorem merge_right_partner (m : Dx.Cols.MergeP) (L R proj : List Name) (hR : R.Nodup)
    (hkey : ∀ c, c ∈ m.rightOn → c ∈ L → commonKey m c = true) {c : Name}
    (hc : c ∈ (mergeLists m L R proj).2) (hcol : (L.contains c && !commonKey m c) = true) :
    c ∈ (mergeLists m L R proj).1 := by
  simp only [Bool.and_eq_true, Bool.not_eq_true'] at hcol
  have hcL : c ∈ L := List.contains_iff_mem.mp hcol.1
  rw [Dx.Cols.mergeLists_eq m L R proj hR] at hc ⊢
  rcases List.mem_append.mp hc with h | h
  · obtain ⟨_, hB⟩ := List.mem_filter.mp h
    exact List.mem_append_left _ (List.mem_filter.mpr ⟨hcL, Dx.Cols.mB_imp_mA m R proj hB⟩)
  · obtain ⟨hcR, hH⟩ := List.mem_filter.mp h
    by_cases hA : mA m proj c = true
    · exact List.mem_append_left _ (List.mem_filter.mpr ⟨hcL, hA⟩)
    · apply List.mem_append_right
      rw [List.mem_filter]
      refine ⟨hcR, ?_⟩
      have hA' : mA m proj c = false := by simpa using hA
      have hpl : (L.filter (mA m proj)).contains c = false := Dx.Cols.filter_contains_false hA'
      simp only [mA, Bool.or_eq_false_iff] at hA'
      simp only [mH, Bool.and_eq_true, Bool.or_eq_true] at hH
      have hro : m.rightOn.contains c = false := by
        by_cases hh : m.rightOn.contains c = true
        · have := hkey c (List.contains_iff_mem.mp hh) hcL
          rw [hcol.2] at this; cases this
        · simpa using hh
      have hrs : proj.contains (c ++ m.rs) = true := by
        rcases hH.2 with (h1 | h1) | h1
        · rw [hro] at h1; cases h1
        · rw [hA'.1.2] at h1; cases h1
        · exact h1
      simp only [mG, hH.1, hro, hA'.1.2, hrs, hcol.1, hpl, Bool.not_false, Bool.or_self, Bool.and_self]

/-! ### labels of `mergeCols` -/

theorem labels_mergeCols (m : Dx.Cols.MergeP) (A B : List Col) :
    labels (mergeCols m A B) = mergeLabels m (labels A) (labels B) := by
  unfold mergeCols mergeLabels labels
  simp only [List.map_append, List.map_map, Function.comp_def]
  congr 1
  induction B with
  | nil => rfl
  | cons b t ih =>
    by_cases hb : commonKey m b.1 = true
    · simp only [List.filter_cons, List.map_cons, hb, Bool.not_true, Bool.false_eq_true, if_false]
      exact ih
    · have hb' : commonKey m b.1 = false := by simpa using hb
      simp only [List.filter_cons, List.map_cons, hb', Bool.not_false, if_true, List.cons.injEq, true_and]
      exact ih

theorem inj_of_nodup_map {α β : Type} [DecidableEq β] (f : α → β) : ∀ (l : List α), (l.map f).Nodup →
    ∀ a, a ∈ l → ∀ b, b ∈ l → f a = f b → a = b
  | [], _, a, ha, _, _, _ => by cases ha
  | x :: t, h, a, ha, b, hb, hab => by
    simp only [List.map_cons, List.nodup_cons] at h
    rcases List.mem_cons.mp ha with rfl | ha'
    · rcases List.mem_cons.mp hb with rfl | hb'
      · rfl
      · exfalso; apply h.1; rw [hab]; exact List.mem_map.mpr ⟨b, hb', rfl⟩
    · rcases List.mem_cons.mp hb with rfl | hb'
      · exfalso; apply h.1; rw [← hab]; exact List.mem_map.mpr ⟨a, ha', rfl⟩
      · exact inj_of_nodup_map f t h.2 a ha' b hb' hab

theorem nodup_map_of_inj {α β : Type} (f : α → β) : ∀ (l : List α), l.Nodup →
    (∀ a, a ∈ l → ∀ b, b ∈ l → f a = f b → a = b) → (l.map f).Nodup
  | [], _, _ => List.nodup_nil
  | x :: t, h, hinj => by
    simp only [List.nodup_cons] at h
    simp only [List.map_cons, List.nodup_cons]
    refine ⟨?_, nodup_map_of_inj f t h.2 (fun a ha b hb => hinj a (by simp [ha]) b (by simp [hb]))⟩
    intro hx
    obtain ⟨y, hy, hfy⟩ := List.mem_map.mp hx
    have := hinj y (by simp [hy]) x (by simp) hfy
    subst this
    exact h.1 hy

/-- sub-lists (as sets) of both halves of a duplicate-free labelling are labelled duplicate-free -/
theorem nodup_sub_map_append {f g : Name → Name} {A' B' A B : List Name}
    (h : (A'.map f ++ B'.map g).Nodup) (hA : A.Nodup) (hAs : ∀ a, a ∈ A → a ∈ A') (hB : B.Nodup) (hBs : ∀ b, b ∈ B → b ∈ B') :
    (A.map f ++ B.map g).Nodup := by
  rw [List.nodup_append] at h ⊢
  obtain ⟨h1, h2, h3⟩ := h
  refine ⟨?_, ?_, ?_⟩
  · exact nodup_map_of_inj f A hA (fun a ha b hb => inj_of_nodup_map f A' h1 a (hAs a ha) b (hAs b hb))
  · exact nodup_map_of_inj g B hB (fun a ha b hb => inj_of_nodup_map g B' h2 a (hBs a ha) b (hBs b hb))
  · intro x hx y hy
    obtain ⟨a, ha, rfl⟩ := List.mem_map.mp hx
    obtain ⟨b, hb, rfl⟩ := List.mem_map.mp hy
    exact h3 _ (List.mem_map.mpr ⟨a, hAs a ha, rfl⟩) _ (List.mem_map.mpr ⟨b, hBs b hb, rfl⟩)

/-- the parent finds every label it asks for -/
theorem parent_lookup_some {pop : UOp} {p : Parent} (hp : parentOf pop = some p) (rc : List Col) (ri : List Lvl)
    (hok : declU pop (.frame rc ri) ≠ .bad) : ∀ y, y ∈ p.cols → ∃ k, rc.lookup y = some k := by
  cases pop with
  | getCols cs =>
    simp only [parentOf, Option.some.injEq] at hp
    subst hp
    simp only [declU, pGetCols] at hok
    intro y hy
    simp only [Parent.cols] at hy
    cases hl : rc.lookup y with
    | some k => exact ⟨k, rfl⟩
    | none =>
      exfalso
      apply hok
      have : selectCols rc cs = none := by
        clear hok
        induction cs with
        | nil => cases hy
        | cons c t ih =>
          simp only [selectCols]
          rcases List.mem_cons.mp hy with rfl | hy'
          · rw [hl]
          · rw [ih hy']
            cases rc.lookup c <;> rfl
      rw [this]
  | getCol c =>
    simp only [parentOf, Option.some.injEq] at hp
    subst hp
    simp only [declU, pGetCol] at hok
    intro y hy
    have : y = c := by simpa [Parent.cols] using hy
    subst this
    cases hl : rc.lookup y with
    | some k => exact ⟨k, rfl⟩
    | none => rw [hl] at hok; exact absurd rfl hok
  | _ => simp [parentOf] at hp

theorem push_merge (deps : List Dep) (pop : UOp) (prt rt : Rt) (m : MergeP) (l r t' : Tree) (p : Parent)
    (hp : parentOf pop = some p) (L : List Col) (li : List Lvl) (R : List Col) (ri : List Lvl)
    (hL : declT l = .frame L li) (hR : declT r = .frame R ri)
    (hLn : (labels L).Nodup) (hRn : (labels R).Nodup)
    (hkeys : KeysDoNotCollide m.cp (labels L) (labels R))
    (hok : declT (.un pop prt (.merge m rt l r)) ≠ .bad)
    (h : pushdown deps (.un pop prt (.merge m rt l r)) = some t') :
    declT t' = declT (.un pop prt (.merge m rt l r)) := by
  simp only [pushdown, hp, hL, hR, frameLabels] at h
  cases hm : Dx.Cols.merge m.cp (labels L) (labels R) p deps with
  | none => rw [hm] at h; cases h
  | some rw =>
    rw [hm] at h
    simp only [Option.map_some, Option.some.injEq] at h
    subst h
    have hrw := Dx.Cols.merge_spec hm
    subst hrw
    simp only [child0, child1, List.headD_cons, List.drop_succ_cons, List.drop_zero, if_true]
    -- abbreviations
    generalize hproj : (Dx.Cols.detProj p deps []).toList = proj
    have hpl_sub := Dx.Cols.merge_left_sub m.cp (labels L) (labels R) proj hRn
    have hpr_sub := Dx.Cols.merge_right_sub m.cp (labels L) (labels R) proj hRn
    have hpl_nd := Dx.Cols.merge_left_nodup m.cp (labels L) (labels R) proj hLn hRn
    have hpr_nd := Dx.Cols.merge_right_nodup m.cp (labels L) (labels R) proj hLn hRn
    generalize hpl : (mergeLists m.cp (labels L) (labels R) proj).1 = pl at *
    generalize hpr : (mergeLists m.cp (labels L) (labels R) proj).2 = pr at *
    obtain ⟨subL, hsL⟩ := selectCols_some_of_sub L pl hpl_sub
    obtain ⟨subR, hsR⟩ := selectCols_some_of_sub R pr hpr_sub
    simp only [declT, declMerge] at hok ⊢
    rw [declT_wrap_many l pl L li hL, declT_wrap_many r pr R ri hR, hL, hR] at *
    simp only [pGetCols, hsL, hsR]
    -- the original merge is a frame
    have hout : ∃ out, pMerge m.cp (.frame L li) (.frame R ri) = .frame out rangeIdx := by
      rcases pMerge_cases m.cp (.frame L li) (.frame R ri) with hb | ⟨out, ho, _⟩
      · exfalso; apply hok; rw [hb]; exact declU_parent_bad hp
      · exact ⟨out, ho⟩
    obtain ⟨out, ho⟩ := hout
    have ho' := ho
    simp only [pMerge] at ho'
    by_cases c1 : (m.cp.leftOn.isEmpty || m.cp.leftOn.length != m.cp.rightOn.length) = true
    · rw [if_pos c1] at ho'; cases ho'
    · rw [if_neg c1] at ho'
      by_cases c2 : (!(m.cp.leftOn.all ((labels L).contains ·) && m.cp.rightOn.all ((labels R).contains ·))) = true
      · rw [if_pos c2] at ho'; cases ho'
      · rw [if_neg c2] at ho'
        by_cases c3 : decide (labels (mergeCols m.cp L R)).Nodup = true
        · simp only [c3, if_true, Sch.frame.injEq, and_true] at ho'
          have hnd : (labels (mergeCols m.cp L R)).Nodup := by simpa using c3
          -- labelling of the pruned sides coincides with the original labelling
          have hlabL : ∀ c, c ∈ pl → labelL m.cp pr c = labelL m.cp (labels R) c := by
            intro c hc
            apply Dx.Cols.labelL_pruned m.cp (labels R) pr c hpr_sub
            intro hcol
            have := merge_left_partner m.cp (labels L) (labels R) proj hRn hkeys.1 (c := c) (by rw [hpl]; exact hc) hcol
            rw [hpr] at this; exact this
          have hlabR : ∀ c, c ∈ pr → labelR m.cp pl c = labelR m.cp (labels L) c := by
            intro c hc
            apply Dx.Cols.labelR_pruned m.cp (labels L) pl c hpl_sub
            intro hcol
            have := merge_right_partner m.cp (labels L) (labels R) proj hRn hkeys.2 (c := c) (by rw [hpr]; exact hc) hcol
            rw [hpl] at this; exact this
          have hlsL : labels subL = pl := selectCols_labels hsL
          have hlsR : labels subR = pr := selectCols_labels hsR
          -- the pruned merge has duplicate-free labels
          have hnd' : (labels (mergeCols m.cp subL subR)).Nodup := by
            rw [labels_mergeCols, hlsL, hlsR]
            rw [labels_mergeCols] at hnd
            unfold mergeLabels at hnd ⊢
            have e1 : pl.map (labelL m.cp pr) = pl.map (labelL m.cp (labels R)) := List.map_congr_left hlabL
            have e2 : (pr.filter (fun c => !commonKey m.cp c)).map (labelR m.cp pl) =
                (pr.filter (fun c => !commonKey m.cp c)).map (labelR m.cp (labels L)) :=
              List.map_congr_left (fun c hc => hlabR c (List.mem_filter.mp hc).1)
            rw [e1, e2]
            exact nodup_sub_map_append hnd hpl_nd hpl_sub (List.Nodup.sublist List.filter_sublist hpr_nd)
              (fun b hb => List.mem_filter.mpr ⟨hpr_sub b (List.mem_filter.mp hb).1, (List.mem_filter.mp hb).2⟩)
          -- keys are still there
          have c2' : (!(m.cp.leftOn.all ((labels subL).contains ·) && m.cp.rightOn.all ((labels subR).contains ·))) = false := by
            have c2f : (m.cp.leftOn.all ((labels L).contains ·) && m.cp.rightOn.all ((labels R).contains ·)) = true := by
              simpa using c2
            simp only [Bool.and_eq_true, List.all_eq_true] at c2f
            simp only [Bool.not_eq_false', Bool.and_eq_true, List.all_eq_true, hlsL, hlsR]
            constructor
            · intro k hk
              apply List.contains_iff_mem.mpr
              have := Dx.Cols.merge_left_keys m.cp (labels L) (labels R) proj hRn hk (List.contains_iff_mem.mp (c2f.1 k hk))
              rw [hpl] at this; exact this
            · intro k hk
              apply List.contains_iff_mem.mpr
              have := Dx.Cols.merge_right_keys m.cp (labels L) (labels R) proj hRn hk (List.contains_iff_mem.mp (c2f.2 k hk))
              rw [hpr] at this; exact this
          have hnew : pMerge m.cp (.frame subL li) (.frame subR ri) = .frame (mergeCols m.cp subL subR) rangeIdx := by
            simp only [pMerge]
            rw [if_neg c1, c2']
            simp only [Bool.false_eq_true, if_false, decide_eq_true hnd', if_true]
          rw [hnew, ho]
          rw [ho] at hok
          apply proj_congr hp
          intro y hy
          obtain ⟨k, hk⟩ := parent_lookup_some hp out rangeIdx hok y hy
          rw [hk]
          have hyproj : proj.contains y = true := by
            rw [← hproj]
            exact Dx.Cols.detProj_contains.mpr (Dx.Cols.parent_mem_union hy)
          have hmem : (y, k) ∈ mergeCols m.cp L R := by rw [ho']; exact lookup_mem hk
          have hgoal : (y, k) ∈ mergeCols m.cp subL subR := by
            unfold mergeCols at hmem ⊢
            rcases List.mem_append.mp hmem with hm1 | hm1
            · obtain ⟨c, hc, hce⟩ := List.mem_map.mp hm1
              simp only [Prod.mk.injEq] at hce
              have hcl : c.1 ∈ labels L := List.mem_map.mpr ⟨c, hc, rfl⟩
              have hsrc := Dx.Cols.merge_left_source m.cp (labels L) (labels R) proj hRn hkeys.1 hcl (by rw [hce.1]; exact hyproj)
              rw [hpl] at hsrc
              have hin : (c.1, c.2) ∈ subL := by
                apply lookup_mem
                rw [selectCols_lookup hsL, if_pos (List.contains_iff_mem.mpr hsrc.1)]
                exact lookup_of_mem_nodup hLn c hc
              apply List.mem_append_left
              apply List.mem_map.mpr
              refine ⟨(c.1, c.2), hin, ?_⟩
              simp only [Prod.mk.injEq]
              rw [hlsR, hlabL c.1 hsrc.1]
              exact hce
            · obtain ⟨c, hc, hce⟩ := List.mem_map.mp hm1
              simp only [Prod.mk.injEq] at hce
              obtain ⟨hcR, hck⟩ := List.mem_filter.mp hc
              have hcl : c.1 ∈ labels R := List.mem_map.mpr ⟨c, hcR, rfl⟩
              have hsrc := Dx.Cols.merge_right_source m.cp (labels L) (labels R) proj hRn hkeys.2 hcl (by rw [hce.1]; exact hyproj)
              rw [hpr] at hsrc
              have hin : (c.1, c.2) ∈ subR := by
                apply lookup_mem
                rw [selectCols_lookup hsR, if_pos (List.contains_iff_mem.mpr hsrc.1)]
                exact lookup_of_mem_nodup hRn c hcR
              apply List.mem_append_right
              apply List.mem_map.mpr
              refine ⟨(c.1, c.2), List.mem_filter.mpr ⟨hin, hck⟩, ?_⟩
              simp only [Prod.mk.injEq]
              rw [hlsL, hlabR c.1 hsrc.1]
              exact hce
          exact lookup_of_mem_nodup hnd' (y, k) hgoal
        · simp only [c3] at ho'
          cases ho'

end Dx.Meta
