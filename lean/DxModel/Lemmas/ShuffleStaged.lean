/-
  Lemmas/ShuffleStaged.lean — `run (stagedTask p)` computes the stage recursion `runStages` of
  ShuffleStagedSem.lean, stage by stage; final regrouping when `nout ≠ nin`.
-/
import DxModel.Lemmas.ShuffleStagedSem
namespace Dx
open Shuffle

theorem stageOf_stageName (p : Params) (t : Nat) (ht : t < p.stages) :
    stageOf p (stageName p t) = some t := by
  unfold stageName
  cases h : lastEq p t with
  | true =>
    have h' := h
    simp only [lastEq, Bool.and_eq_true, beq_iff_eq] at h'
    have e : p.stages - 1 = t := by omega
    have h1 : 1 ≤ p.stages := by omega
    simp [stageOf, e, h, h1]
  | false =>
    simp [stageOf, ht, h]

/-- the key a `group` task of stage `t` reads -/
def inputKey (p : Params) (t : Nat) (inp : List Nat) : Key :=
  if t = 0 then (if num p.nsplits inp < p.nin then .dep (num p.nsplits inp) else .empty (stageName p t) inp)
  else .out (stageName p (t - 1)) (num p.nsplits inp)

theorem requested_of (p : Params) (t q i : Nat) (hq : q ∈ partsOut p t) (hi : i < p.nsplits) :
    requested p t ((digits p.nsplits p.stages q).set t i) = true := by
  simp only [requested, List.any_eq_true, List.mem_range, beq_iff_eq]
  exact ⟨q, hq, i, hi, rfl⟩

theorem staged_group_def (p : Params) (t : Nat) (ht : t < p.stages) (inp : List Nat)
    (hreq : requested p t inp = true) :
    stagedTask p (.group (stageName p t) inp) =
      some (.shuffleGroup (inputKey p t inp) (stageFilter p t) t p.nsplits p.nin p.nout) := by
  simp only [stagedTask, stageOf_stageName p t ht, hreq, if_true, inputKey]

theorem staged_empty_def (p : Params) (ht : 0 < p.stages) (inp : List Nat)
    (hreq : requested p 0 inp = true) (hn : ¬ num p.nsplits inp < p.nin) :
    stagedTask p (.empty (stageName p 0) inp) = some (.const []) := by
  simp only [stagedTask, stageOf_stageName p 0 ht, hreq, hn, not_false_eq_true, and_self, if_true]

theorem staged_split_def (p : Params) (t : Nat) (ht : t < p.stages) (q i : Nat)
    (hq : q ∈ partsOut p t) (hi : i < p.nsplits) :
    stagedTask p (.split (stageName p t) ((digits p.nsplits p.stages q).getD t 0)
        ((digits p.nsplits p.stages q).set t i)) =
      some (.getitem (.group (stageName p t) ((digits p.nsplits p.stages q).set t i))
        ((digits p.nsplits p.stages q).getD t 0)) := by
  have hc : ((partsOut p t).any (fun q' =>
      (digits p.nsplits p.stages q').getD t 0 == (digits p.nsplits p.stages q).getD t 0 &&
      (List.range p.nsplits).any (fun i' => (digits p.nsplits p.stages q').set t i' ==
        (digits p.nsplits p.stages q).set t i))) = true := by
    simp only [List.any_eq_true, List.mem_range, beq_iff_eq, Bool.and_eq_true]
    exact ⟨q, hq, rfl, i, hi, rfl⟩
  simp only [stagedTask, stageOf_stageName p t ht, hc, if_true]

theorem staged_out_def (p : Params) (t : Nat) (ht : t < p.stages) (j : Nat)
    (hj : j < (partsOut p t).length) :
    stagedTask p (.out (stageName p t) j) =
      some (.concat ((List.range p.nsplits).map (fun i =>
        Key.split (stageName p t) ((digits p.nsplits p.stages (partsOut p t)[j]).getD t 0)
          ((digits p.nsplits p.stages (partsOut p t)[j]).set t i))) p.ignoreIndex) := by
  simp only [stagedTask, stageOf_stageName p t ht, hj, dite_true]

theorem stageFilter_mem (p : Params) (t q : Nat) (hq : q ∈ partsOut p t) :
    ∀ l, stageFilter p t = some l → (digits p.nsplits p.stages q).getD t 0 ∈ l := by
  intro l hl
  unfold stageFilter at hl
  cases h : lastEq p t with
  | false => simp [h] at hl
  | true =>
    cases hf : p.filtered with
    | false => simp [h, hf] at hl
    | true =>
      simp only [h, hf, Bool.and_self, if_true, Option.some.injEq] at hl
      subst hl
      simp only [partsOut, h, if_true] at hq
      exact List.mem_map.mpr ⟨q, hq, rfl⟩

/-- one stage of the layer = one `stageStep` -/
theorem run_stage_step (I : Interp) (p : Params) (rows : Nat → List Row) (t : Nat) (ht : t < p.stages)
    (hk : 0 < p.nsplits) (j : Nat) (hj : j < (partsOut p t).length)
    (cur : List Nat → List Row) (fuel : Nat)
    (hprev : ∀ i, i < p.nsplits →
      run I (stagedTask p) (inputs rows) fuel
          (inputKey p t ((digits p.nsplits p.stages (partsOut p t)[j]).set t i)) =
        .frame (cur ((digits p.nsplits p.stages (partsOut p t)[j]).set t i))) :
    run I (stagedTask p) (inputs rows) (fuel+3) (.out (stageName p t) j) =
      .frame (stageStep p.nsplits (sdig p) t cur (digits p.nsplits p.stages (partsOut p t)[j])) := by
  have hq : (partsOut p t)[j] ∈ partsOut p t := List.getElem_mem hj
  rw [run_defined I _ _ (fuel+2) _ _ (staged_out_def p t ht j hj)]
  simp only [evalTsk, List.map_map]
  unfold stageStep
  apply concatV_map_frames
  intro i hi
  have hi' : i < p.nsplits := List.mem_range.mp hi
  simp only [Function.comp]
  rw [run_defined I _ _ (fuel+1) _ _ (staged_split_def p t ht _ i hq hi')]
  simp only [evalTsk]
  rw [run_defined I _ _ fuel _ _ (staged_group_def p t ht _ (requested_of p t _ i hq hi'))]
  simp only [evalTsk, hprev i hi']
  rw [lookup_spec _ _ _ _ _ _ _ (stageFilter_mem p t _ hq)]
  · rfl
  · rw [digits_getD _ _ _ _ ht]; exact Nat.mod_lt _ hk

/-! ### all stages -/

theorem lastEq_of_lt (p : Params) (t : Nat) (h : t + 1 < p.stages) : lastEq p t = false := by
  have : ¬ (t + 1 = p.stages) := by omega
  simp [lastEq, this]

theorem stageName_nonlast (p : Params) (t : Nat) (h : lastEq p t = false) : stageName p t = .stage t := by
  simp [stageName, h]

theorem partsOut_length_nonlast (p : Params) (t : Nat) (h : lastEq p t = false) :
    (partsOut p t).length = ninputs p := by
  simp [partsOut, h]

theorem partsOut_getElem_nonlast (p : Params) (t : Nat) (h : lastEq p t = false) (j : Nat)
    (hj : j < (partsOut p t).length) : (partsOut p t)[j] = j := by
  simp [partsOut, h]

theorem partsOut_last (p : Params) (t : Nat) (h : lastEq p t = true) : partsOut p t = p.parts := by
  simp [partsOut, h]

theorem stageName_last (p : Params) (t : Nat) (h : lastEq p t = true) : stageName p t = .self := by
  simp [stageName, h]

theorem set_digits_valid (k s q t i : Nat) (hk : 0 < k) (hi : i < k) :
    ((digits k s q).set t i).length = s ∧ ∀ x ∈ (digits k s q).set t i, x < k := by
  refine ⟨?_, ?_⟩
  · rw [List.length_set, digits_length]
  · exact set_valid k _ t i hi (digits_lt k s q hk)

/-- the value read by a `group` task of stage `t`: a real input or an `empty` key at stage 0,
    the output of the previous stage otherwise -/
theorem run_inputKey (I : Interp) (p : Params) (rows : Nat → List Row) (t : Nat) (ht : t < p.stages)
    (hk : 0 < p.nsplits) (q i : Nat) (hq : q ∈ partsOut p t) (hi : i < p.nsplits) (fuel : Nat)
    (hfuel : 1 ≤ fuel)
    (IH : ∀ t', t = t' + 1 → ∀ q', q' < ninputs p →
      run I (stagedTask p) (inputs rows) fuel (.out (.stage t') q') =
        .frame (runStages p.nsplits (sdig p) (cur0 p rows) (t'+1) (digits p.nsplits p.stages q'))) :
    run I (stagedTask p) (inputs rows) fuel (inputKey p t ((digits p.nsplits p.stages q).set t i)) =
      .frame (runStages p.nsplits (sdig p) (cur0 p rows) t ((digits p.nsplits p.stages q).set t i)) := by
  cases t with
  | zero =>
    simp only [inputKey, if_true, runStages, cur0]
    by_cases hn : num p.nsplits ((digits p.nsplits p.stages q).set 0 i) < p.nin
    · rw [if_pos hn, if_pos hn]
      exact run_dep I (stagedTask p) (fun _ => rfl) rows fuel _
    · rw [if_neg hn, if_neg hn]
      obtain ⟨f, rfl⟩ : ∃ f, fuel = f + 1 := ⟨fuel - 1, by omega⟩
      rw [run_defined I _ _ f _ _ (staged_empty_def p ht _ (requested_of p 0 q i hq hi) hn)]
      rfl
  | succ t' =>
    obtain ⟨hlen, hval⟩ := set_digits_valid p.nsplits p.stages q (t'+1) i hk hi
    have hne : ¬ (t' + 1 = 0) := by omega
    simp only [inputKey, hne, if_false, Nat.add_sub_cancel]
    rw [stageName_nonlast p t' (lastEq_of_lt p t' ht)]
    rw [IH t' rfl _ (num_lt p.nsplits _ p.stages hlen hval)]
    rw [digits_num p.nsplits hk _ p.stages hlen hval]

/-- every stage of the layer computes the stage recursion over digit tuples -/
theorem run_stage (I : Interp) (p : Params) (rows : Nat → List Row) (hk : 0 < p.nsplits) :
    ∀ t, t < p.stages → ∀ j (hj : j < (partsOut p t).length), ∀ fuel, 3 * t + 4 ≤ fuel →
      run I (stagedTask p) (inputs rows) fuel (.out (stageName p t) j) =
        .frame (runStages p.nsplits (sdig p) (cur0 p rows) (t+1)
          (digits p.nsplits p.stages (partsOut p t)[j])) := by
  intro t
  induction t with
  | zero =>
    intro ht j hj fuel hfuel
    obtain ⟨f, rfl⟩ : ∃ f, fuel = f + 3 := ⟨fuel - 3, by omega⟩
    simp only [runStages]
    apply run_stage_step I p rows 0 ht hk j hj
    intro i hi
    exact run_inputKey I p rows 0 ht hk _ i (List.getElem_mem hj) hi f (by omega)
      (fun t' h => by omega)
  | succ t ih =>
    intro ht j hj fuel hfuel
    obtain ⟨f, rfl⟩ : ∃ f, fuel = f + 3 := ⟨fuel - 3, by omega⟩
    have hnl : lastEq p t = false := lastEq_of_lt p t ht
    rw [runStages]
    apply run_stage_step I p rows (t+1) ht hk j hj
    intro i hi
    apply run_inputKey I p rows (t+1) ht hk _ i (List.getElem_mem hj) hi f (by omega)
    intro t' ht' q' hq'
    have e : t' = t := by omega
    subst e
    have hj' : q' < (partsOut p t').length := by rw [partsOut_length_nonlast p t' hnl]; exact hq'
    have := ih (by omega) q' hj' f (by omega)
    rw [partsOut_getElem_nonlast p t' hnl q' hj', stageName_nonlast p t' hnl] at this
    exact this

/-- `nout = nin`: the last stage writes the self-named outputs -/
theorem run_staged_eq (I : Interp) (p : Params) (rows : Nat → List Row) (hk : 0 < p.nsplits)
    (hs : 1 ≤ p.stages) (heq : p.nout = p.nin) (j : Nat) (hj : j < p.parts.length)
    (fuel : Nat) (hfuel : 3 * p.stages + 1 ≤ fuel) :
    run I (stagedTask p) (inputs rows) fuel (.out .self j) =
      .frame (runStages p.nsplits (sdig p) (cur0 p rows) p.stages (digits p.nsplits p.stages p.parts[j])) := by
  have hl : lastEq p (p.stages - 1) = true := by
    have : p.stages - 1 + 1 = p.stages := by omega
    simp [lastEq, this, heq]
  have hpo := partsOut_last p _ hl
  have hj' : j < (partsOut p (p.stages - 1)).length := by rw [hpo]; exact hj
  have := run_stage I p rows hk (p.stages - 1) (by omega) j hj' fuel (by omega)
  have e : p.stages - 1 + 1 = p.stages := by omega
  have hg : (partsOut p (p.stages - 1))[j] = p.parts[j] := by simp [hpo]
  rw [stageName_last p _ hl, e, hg] at this
  exact this

/-- `nout ≠ nin`: all stages are named `stage-s`, the outputs regroup partition `o % nin` -/
theorem run_staged_ne (I : Interp) (p : Params) (rows : Nat → List Row) (hk : 0 < p.nsplits)
    (hs : 1 ≤ p.stages) (hne : p.nout ≠ p.nin) (hnin : 0 < p.nin) (hle : p.nin ≤ p.nsplits ^ p.stages)
    (j : Nat) (hj : j < p.parts.length) (fuel : Nat) (hfuel : 3 * p.stages + 3 ≤ fuel) :
    run I (stagedTask p) (inputs rows) fuel (.out .self j) =
      .frame ((runStages p.nsplits (sdig p) (cur0 p rows) p.stages
        (digits p.nsplits p.stages (p.parts[j] % p.nin))).filter (fun r => r.tgt == p.parts[j])) := by
  have hl : ∀ t, lastEq p t = false := by
    intro t; simp [lastEq, hne]
  obtain ⟨f, rfl⟩ : ∃ f, fuel = f + 2 := ⟨fuel - 2, by omega⟩
  have hso : stageOf p .self = none := by simp [stageOf, hl]
  have hmod : p.parts[j] % p.nin < p.nin := Nat.mod_lt _ hnin
  have hout : stagedTask p (.out .self j) =
      some (.shuffleGroupGet (.rgroup (.stage (p.stages - 1)) (p.parts[j] % p.nin)) p.parts[j]) := by
    simp only [stagedTask, hso, ne_eq, hne, not_false_eq_true, and_self, if_true, hj, dite_true]
  have hrg : stagedTask p (.rgroup (.stage (p.stages - 1)) (p.parts[j] % p.nin)) =
      some (.shuffleGroup2 (.out (.stage (p.stages - 1)) (p.parts[j] % p.nin)) p.nout) := by
    simp only [stagedTask, ne_eq, hne, not_false_eq_true, hs, hmod, and_self, if_true]
  rw [run_defined I _ _ (f+1) _ _ hout]
  simp only [evalTsk]
  rw [run_defined I _ _ f _ _ hrg]
  simp only [evalTsk]
  have hnl := hl (p.stages - 1)
  have hj' : p.parts[j] % p.nin < (partsOut p (p.stages - 1)).length := by
    rw [partsOut_length_nonlast p _ hnl]; exact Nat.lt_of_lt_of_le hmod hle
  have := run_stage I p rows hk (p.stages - 1) (by omega) _ hj' f (by omega)
  have e : p.stages - 1 + 1 = p.stages := by omega
  rw [partsOut_getElem_nonlast p _ hnl _ hj', stageName_nonlast p _ hnl, e] at this
  rw [this]
  rfl

end Dx
