/-
  Lemmas/LayerMergeAsof.lean — `LayerWF` of `MergeAsofIndexed._layer` (Layers/MergeAsof.lean): the Blelloch
  up and down sweep of `prefix_reduction` / `suffix_reduction` is closed and ranked for every `n ≤ 2^L`, and so is the
  merge layer on top of it for every result of `pair_partitions` accepted by `paramsOK`.
-/
import DxModel.LayerOK
import DxModel.Layers.MergeAsof
namespace Dx
namespace Scan

theorem pow_split (L e : Nat) (h : e < L) : 2 ^ (L - e) = 2 * 2 ^ (L - (e + 1)) := by
  have : L - e = (L - (e + 1)) + 1 := by omega
  rw [this, Nat.pow_succ]; omega

theorem pow_pos' (a : Nat) : 0 < 2 ^ a := Nat.pow_pos (by decide)

theorem up_isSome (p : Params) (e k : Nat) : (layer p (.up e k)).isSome ↔ e ≤ p.L ∧ k < 2 ^ (p.L - e) := by
  cases e with
  | zero =>
    simp only [layer, Nat.sub_zero, Nat.zero_le, true_and]
    split
    · rename_i h; split <;> simp [h]
    · rename_i h; simp [h]
  | succ e =>
    simp only [layer]
    split
    · rename_i h; simp [h]
    · rename_i h
      simp only [Option.isSome_none, Bool.false_eq_true, false_iff]
      exact h

theorem down_isSome (p : Params) (e k : Nat) :
    (layer p (.down e k)).isSome ↔ (e = p.L ∧ k = 0) ∨ (e < p.L ∧ k < 2 ^ (p.L - e)) := by
  simp only [layer]
  split
  · rename_i he
    split
    · rename_i hk; simp [he, hk]
    · rename_i hk; simp [he, hk]
  · rename_i he
    split
    · rename_i h
      split <;> simp [h, he]
    · rename_i h
      simp only [Option.isSome_none, Bool.false_eq_true, false_iff]
      rintro (⟨h1, _⟩ | h2)
      · exact he h1
      · exact h h2

theorem res_isSome (p : Params) (i : Nat) : (layer p (.res i)).isSome ↔ i < p.n := by
  simp only [layer]; split <;> simp_all

theorem mem_ordered (rev : Bool) (a b r : Key) (h : r ∈ ordered rev a b) : r = a ∨ r = b := by
  cases rev <;> simp [ordered] at h
  · exact h
  · exact h.symm

/-- closed: every reference is a defined key of the reduction or an existing partition of the frame -/
theorem scan_closed (p : Params) (hn : p.n ≤ 2 ^ p.L) (k : Key) (t : Tsk Key) (hk : layer p k = some t) :
    ∀ r ∈ t.refs, (layer p r).isSome ∨ ∃ j, r = .src j ∧ j < p.n := by
  intro r hr
  cases k with
  | src i => simp [layer] at hk
  | res i =>
    simp only [layer] at hk
    split at hk
    · rename_i hi
      cases hk
      simp only [Tsk.refs, List.mem_singleton] at hr
      subst hr
      left
      rw [down_isSome]
      have hidx : (if p.rev then p.n - 1 - i else i) < p.n := by split <;> omega
      by_cases hL : p.L = 0
      · left
        refine ⟨hL.symm, ?_⟩
        rw [hL] at hn
        simp at hn
        omega
      · right
        exact ⟨by omega, by simp only [Nat.sub_zero]; omega⟩
    · cases hk
  | up e kk =>
    cases e with
    | zero =>
      simp only [layer] at hk
      split at hk
      · split at hk
        · rename_i hlt
          cases hk
          simp only [Tsk.refs, List.mem_singleton] at hr
          subst hr
          right
          exact ⟨_, rfl, by split <;> omega⟩
        · cases hk; simp [Tsk.refs] at hr
      · cases hk
    | succ e =>
      simp only [layer] at hk
      split at hk
      · rename_i h
        cases hk
        simp only [Tsk.refs] at hr
        have hs := pow_split p.L e (by omega)
        left
        rcases mem_ordered _ _ _ _ hr with rfl | rfl
        · rw [up_isSome]; exact ⟨by omega, by omega⟩
        · rw [up_isSome]; exact ⟨by omega, by omega⟩
      · cases hk
  | down e kk =>
    simp only [layer] at hk
    split at hk
    · split at hk
      · cases hk; simp [Tsk.refs] at hr
      · cases hk
    · rename_i hne
      split at hk
      · rename_i h
        have hs := pow_split p.L e h.1
        have hparent : (layer p (.down (e + 1) (kk / 2))).isSome := by
          rw [down_isSome]
          by_cases hl : e + 1 = p.L
          · left
            refine ⟨hl, ?_⟩
            have : p.L - (e + 1) = 0 := by omega
            rw [this] at hs
            simp at hs
            omega
          · right
            exact ⟨by omega, by omega⟩
        split at hk
        · rename_i hodd
          cases hk
          simp only [Tsk.refs] at hr
          left
          rcases mem_ordered _ _ _ _ hr with rfl | rfl
          · exact hparent
          · rw [up_isSome]; exact ⟨by omega, by omega⟩
        · cases hk
          simp only [Tsk.refs, List.mem_singleton] at hr
          subst hr
          left; exact hparent
      · cases hk

theorem scan_ranked (p : Params) (k : Key) (t : Tsk Key) (hk : layer p k = some t) :
    ∀ r ∈ t.refs, rank p r < rank p k := by
  intro r hr
  cases k with
  | src i => simp [layer] at hk
  | res i =>
    simp only [layer] at hk
    split at hk
    · cases hk
      simp only [Tsk.refs, List.mem_singleton] at hr
      subst hr
      simp only [rank]; omega
    · cases hk
  | up e kk =>
    cases e with
    | zero =>
      simp only [layer] at hk
      split at hk
      · split at hk
        · cases hk
          simp only [Tsk.refs, List.mem_singleton] at hr
          subst hr; simp [rank]
        · cases hk; simp [Tsk.refs] at hr
      · cases hk
    | succ e =>
      simp only [layer] at hk
      split at hk
      · cases hk
        simp only [Tsk.refs] at hr
        rcases mem_ordered _ _ _ _ hr with rfl | rfl <;> simp [rank]
      · cases hk
  | down e kk =>
    simp only [layer] at hk
    split at hk
    · split at hk
      · cases hk; simp [Tsk.refs] at hr
      · cases hk
    · split at hk
      · rename_i h
        split at hk
        · cases hk
          simp only [Tsk.refs] at hr
          rcases mem_ordered _ _ _ _ hr with rfl | rfl <;> simp only [rank] <;> omega
        · cases hk
          simp only [Tsk.refs, List.mem_singleton] at hr
          subst hr
          simp only [rank]; omega
      · cases hk

theorem scan_bounded (p : Params) (k : Key) (h : (layer p k).isSome) : rank p k ≤ 2 * p.L + 3 := by
  cases k with
  | src i => simp [rank]
  | res i => simp [rank]
  | up e kk => have := (up_isSome p e kk).mp h; simp only [rank]; omega
  | down e kk => simp only [rank]; omega

end Scan

namespace Asof

def spec (p : Params) : LSpec Key :=
  { task := layer p
    nout := p.nl
    out := Key.out
    outIdx := fun k => match k with | .out i => some i | _ => none
    depOf := fun k => match k with | .l i => some (0, i) | .r j => some (1, j) | _ => none
    rank := fun k => match k with
      | .l _ => 0 | .r _ => 0 | .t k => Scan.rank (tp p) k | .h k => Scan.rank (hp p) k | .out _ => 2 * p.L + 4
    bound := 2 * p.L + 4 }

theorem layer_t_eq (p : Params) (k : Scan.Key) (hns : notSrc k = true) :
    layer p (.t k) = if p.tails then (Scan.layer (tp p) k).map (fun t => t.mapKeys embT) else none := by
  cases k <;> simp [layer, notSrc] at hns ⊢

theorem layer_h_eq (p : Params) (k : Scan.Key) (hns : notSrc k = true) :
    layer p (.h k) = if p.heads then (Scan.layer (hp p) k).map (fun t => t.mapKeys embH) else none := by
  cases k <;> simp [layer, notSrc] at hns ⊢

theorem scan_some_notSrc (q : Scan.Params) (k : Scan.Key) (h : (Scan.layer q k).isSome) : notSrc k = true := by
  cases k <;> simp [Scan.layer, notSrc] at h ⊢

theorem embT_of_notSrc (k : Scan.Key) (h : notSrc k = true) : embT k = .t k := by
  cases k <;> simp [embT, notSrc] at h ⊢

theorem embH_of_notSrc (k : Scan.Key) (h : notSrc k = true) : embH k = .h k := by
  cases k <;> simp [embH, notSrc] at h ⊢

theorem mem_frameRefs (p : Params) (i j : Nat) (r : Key) (h : r ∈ frameRefs p i j) :
    r = .l i ∨ r = .r j ∨ (p.tails = true ∧ r = .t (.res j)) ∨ (p.heads = true ∧ r = .h (.res j)) := by
  simp only [frameRefs, List.mem_append, List.mem_cons, List.mem_nil_iff, or_false] at h
  rcases h with ((h | h) | h) | h
  · exact Or.inl h
  · exact Or.inr (Or.inl h)
  · split at h
    · rename_i ht; simp only [List.mem_singleton] at h; exact Or.inr (Or.inr (Or.inl ⟨ht, h⟩))
    · cases h
  · split at h
    · rename_i hh; simp only [List.mem_singleton] at h; exact Or.inr (Or.inr (Or.inr ⟨hh, h⟩))
    · cases h

theorem asof_wf (p : Params) (hok : paramsOK p = true) : LayerWF (spec p) [p.nl, p.m] := by
  simp only [paramsOK, Bool.and_eq_true, decide_eq_true_eq, List.all_eq_true] at hok
  obtain ⟨⟨hlen, hJ⟩, hN⟩ := hok
  have out_some : ∀ i, (layer p (.out i)).isSome ↔ i < p.nl := by
    intro i
    simp only [layer]
    constructor
    · intro h
      cases hp : p.pairs[i]? with
      | none => simp [hp] at h
      | some J => rw [← hlen]; exact (List.getElem?_eq_some_iff.mp hp).1
    · intro h
      rw [List.getElem?_eq_getElem (by omega)]; rfl
  exact {
    out_idx := by intro i _; rfl
    outs_defined := by intro i hi; exact (out_some i).mpr hi
    outs_exact := by
      intro k i hk hidx
      cases k <;> simp [spec] at hidx
      subst hidx
      exact ⟨(out_some _).mp hk, rfl⟩
    own := by intro k hk; cases k <;> simp [spec, layer] at hk ⊢
    closed := by
      intro k t hk r hr
      cases k with
      | l i => simp [spec, layer] at hk
      | r j => simp [spec, layer] at hk
      | t sk =>
        have hns : notSrc sk = true := by
          cases sk <;> simp [spec, layer, notSrc] at hk ⊢
        rw [show (spec p).task = layer p from rfl, layer_t_eq p sk hns] at hk
        split at hk
        · rename_i htl
          cases h0 : Scan.layer (tp p) sk with
          | none => simp [h0] at hk
          | some t0 =>
            simp only [h0, Option.map_some, Option.some.injEq] at hk
            subst hk
            rw [Tsk.refs_mapKeys] at hr
            obtain ⟨r0, hr0, rfl⟩ := List.mem_map.mp hr
            rcases Scan.scan_closed (tp p) hN sk t0 h0 r0 hr0 with h1 | ⟨j, rfl, hj⟩
            · left
              have hn0 := scan_some_notSrc (tp p) r0 h1
              rw [embT_of_notSrc r0 hn0]
              show (layer p (.t r0)).isSome
              rw [layer_t_eq p r0 hn0, if_pos htl]
              simpa using h1
            · right
              exact ⟨1, j, p.m, rfl, rfl, hj⟩
        · cases hk
      | h sk =>
        have hns : notSrc sk = true := by
          cases sk <;> simp [spec, layer, notSrc] at hk ⊢
        rw [show (spec p).task = layer p from rfl, layer_h_eq p sk hns] at hk
        split at hk
        · rename_i hhd
          cases h0 : Scan.layer (hp p) sk with
          | none => simp [h0] at hk
          | some t0 =>
            simp only [h0, Option.map_some, Option.some.injEq] at hk
            subst hk
            rw [Tsk.refs_mapKeys] at hr
            obtain ⟨r0, hr0, rfl⟩ := List.mem_map.mp hr
            rcases Scan.scan_closed (hp p) hN sk t0 h0 r0 hr0 with h1 | ⟨j, rfl, hj⟩
            · left
              have hn0 := scan_some_notSrc (hp p) r0 h1
              rw [embH_of_notSrc r0 hn0]
              show (layer p (.h r0)).isSome
              rw [layer_h_eq p r0 hn0, if_pos hhd]
              simpa using h1
            · right
              exact ⟨1, j, p.m, rfl, rfl, hj⟩
        · cases hk
      | out i =>
        simp only [spec, layer] at hk
        cases hpi : p.pairs[i]? with
        | none => simp [hpi] at hk
        | some J =>
          have hi : i < p.nl := by rw [← hlen]; exact (List.getElem?_eq_some_iff.mp hpi).1
          simp only [hpi, Option.some.injEq] at hk
          subst hk
          simp only [Tsk.refs, List.mem_flatMap] at hr
          obtain ⟨j, hjJ, hrj⟩ := hr
          have hjm : j < p.m := hJ J (List.mem_of_getElem? hpi) j hjJ
          rcases mem_frameRefs p i j r hrj with rfl | rfl | ⟨ht, rfl⟩ | ⟨hh, rfl⟩
          · right; exact ⟨0, i, p.nl, rfl, rfl, hi⟩
          · right; exact ⟨1, j, p.m, rfl, rfl, hjm⟩
          · left
            show (layer p (.t (.res j))).isSome
            rw [layer_t_eq p _ rfl, if_pos ht]
            have := (Scan.res_isSome (tp p) j).mpr hjm
            simpa using this
          · left
            show (layer p (.h (.res j))).isSome
            rw [layer_h_eq p _ rfl, if_pos hh]
            have := (Scan.res_isSome (hp p) j).mpr hjm
            simpa using this
    ranked := by
      intro k t hk r hr _
      cases k with
      | l i => simp [spec, layer] at hk
      | r j => simp [spec, layer] at hk
      | t sk =>
        have hns : notSrc sk = true := by
          cases sk <;> simp [spec, layer, notSrc] at hk ⊢
        rw [show (spec p).task = layer p from rfl, layer_t_eq p sk hns] at hk
        split at hk
        · cases h0 : Scan.layer (tp p) sk with
          | none => simp [h0] at hk
          | some t0 =>
            simp only [h0, Option.map_some, Option.some.injEq] at hk
            subst hk
            rw [Tsk.refs_mapKeys] at hr
            obtain ⟨r0, hr0, rfl⟩ := List.mem_map.mp hr
            have := Scan.scan_ranked (tp p) sk t0 h0 r0 hr0
            cases r0 <;> simpa [spec, embT, Scan.rank] using this
        · cases hk
      | h sk =>
        have hns : notSrc sk = true := by
          cases sk <;> simp [spec, layer, notSrc] at hk ⊢
        rw [show (spec p).task = layer p from rfl, layer_h_eq p sk hns] at hk
        split at hk
        · cases h0 : Scan.layer (hp p) sk with
          | none => simp [h0] at hk
          | some t0 =>
            simp only [h0, Option.map_some, Option.some.injEq] at hk
            subst hk
            rw [Tsk.refs_mapKeys] at hr
            obtain ⟨r0, hr0, rfl⟩ := List.mem_map.mp hr
            have := Scan.scan_ranked (hp p) sk t0 h0 r0 hr0
            cases r0 <;> simpa [spec, embH, Scan.rank] using this
        · cases hk
      | out i =>
        simp only [spec, layer] at hk
        cases hpi : p.pairs[i]? with
        | none => simp [hpi] at hk
        | some J =>
          simp only [hpi, Option.some.injEq] at hk
          subst hk
          simp only [Tsk.refs, List.mem_flatMap] at hr
          obtain ⟨j, _, hrj⟩ := hr
          rcases mem_frameRefs p i j r hrj with rfl | rfl | ⟨_, rfl⟩ | ⟨_, rfl⟩
          · simp [spec]
          · simp [spec]
          · simp only [spec, Scan.rank, tp]; omega
          · simp only [spec, Scan.rank, hp]; omega
    bounded := by
      intro k hk
      cases k with
      | l i => simp [spec]
      | r j => simp [spec]
      | out i => simp [spec]
      | t sk =>
        have hns : notSrc sk = true := by
          cases sk <;> simp [spec, layer, notSrc] at hk ⊢
        rw [show (spec p).task = layer p from rfl, layer_t_eq p sk hns] at hk
        split at hk
        · have h1 : (Scan.layer (tp p) sk).isSome := by simpa using hk
          have := Scan.scan_bounded (tp p) sk h1
          simp only [spec, tp] at this ⊢; omega
        · cases hk
      | h sk =>
        have hns : notSrc sk = true := by
          cases sk <;> simp [spec, layer, notSrc] at hk ⊢
        rw [show (spec p).task = layer p from rfl, layer_h_eq p sk hns] at hk
        split at hk
        · have h1 : (Scan.layer (hp p) sk).isSome := by simpa using hk
          have := Scan.scan_bounded (hp p) sk h1
          simp only [spec, hp] at this ⊢; omega
        · cases hk }

end Asof
end Dx
