/-
  Lemmas/ShuffleExamples.lean — concrete instances used by the non-vacuity `example`s of Props/C12.lean.
-/
import DxModel.Layers.Shuffle
namespace Dx
open Shuffle

namespace C12Ex
/-- 3-stage shuffle, `nin = nout = 5`, fan-out 2, `_partitions = [2,3,4]` (filtered; defect D6's shape) -/
def pEq : Params :=
  { nin := 5, nout := 5, parts := [2, 3, 4], filtered := true, ignoreIndex := false,
    maxBranch := 2, stages := 3, nsplits := 2 }
/-- 2-stage shuffle with final regrouping, `nin = 3`, `nout = 7`, `_partitions = [6,0,4]` -/
def pNe : Params :=
  { nin := 3, nout := 7, parts := [6, 0, 4], filtered := true, ignoreIndex := true,
    maxBranch := 2, stages := 2, nsplits := 2 }
/-- unfiltered versions (`_partitions = range nout`) -/
def pEqAll : Params := { pEq with parts := List.range 5, filtered := false }
def pNeAll : Params := { pNe with parts := List.range 7, filtered := false }
/-- three rows per input partition, targets spread over `0 .. n-1` -/
def rowsMod (n : Nat) (i : Nat) : List Row :=
  [⟨i, i % n, 0⟩, ⟨i + 10, (2 * i + 1) % n, 1⟩, ⟨i + 20, (i * i + 3) % n, 2⟩]
theorem rowsMod_lt (n : Nat) (hn : 0 < n) : ∀ i, ∀ r ∈ rowsMod n i, r.tgt < n := by
  intro i r hr
  simp only [rowsMod, List.mem_cons, List.not_mem_nil, or_false] at hr
  rcases hr with rfl | rfl | rfl <;> exact Nat.mod_lt _ hn
def I0 : Interp := fun _ _ => .err
end C12Ex

end Dx
