/-
  Lemmas/Knobs.lean — helper lemmas for Props/C10.lean (join plans, sort pipeline, split_out).
  Core Lean only.
-/
import DxModel.Layers.KnobJoin
import DxModel.Layers.KnobSort
import DxModel.Layers.KnobReduce
import DxModel.Lemmas.GroupJoin
namespace Dx
open GJ KJ

/-! ## list / permutation facts -/

theorem flatMap_append_perm' {α β} (l : List α) (f g : α → List β) :
    (l.flatMap (fun a => f a ++ g a)).Perm (l.flatMap f ++ l.flatMap g) := by
  induction l with
  | nil => exact List.Perm.refl _
  | cons a t ih =>
    simp only [List.flatMap_cons]
    refine (List.Perm.append_left _ ih).trans ?_
    rw [List.append_assoc, List.append_assoc]
    exact List.Perm.append_left _ (List.perm_append_comm_assoc _ _ _)

/-- exchanging two nested loops permutes the result -/
theorem flatMap_swap_perm {α β γ} (l₁ : List α) (l₂ : List β) (f : α → β → List γ) :
    (l₁.flatMap (fun a => l₂.flatMap (fun b => f a b))).Perm
      (l₂.flatMap (fun b => l₁.flatMap (fun a => f a b))) := by
  induction l₁ with
  | nil =>
    simp only [List.flatMap_nil]
    rw [flatMap_nil' l₂ _ (fun _ _ => rfl)]
  | cons a t ih =>
    simp only [List.flatMap_cons]
    exact (List.Perm.append_left _ ih).trans (flatMap_append_perm' l₂ _ _).symm

theorem any_congr' {α} (l : List α) (p q : α → Bool) (h : ∀ a ∈ l, p a = q a) : l.any p = l.any q := by
  induction l with
  | nil => rfl
  | cons a t ih =>
    simp only [List.any_cons]
    rw [h a (by simp), ih (fun b hb => h b (by simp [hb]))]

theorem perm_any_eq {α} {l₁ l₂ : List α} (h : l₁.Perm l₂) (p : α → Bool) : l₁.any p = l₂.any p := by
  cases h₁ : l₁.any p with
  | true =>
    obtain ⟨x, hx, hp⟩ := List.any_eq_true.mp h₁
    exact (List.any_eq_true.mpr ⟨x, h.mem_iff.mp hx, hp⟩).symm
  | false =>
    cases h₂ : l₂.any p with
    | false => rfl
    | true =>
      obtain ⟨x, hx, hp⟩ := List.any_eq_true.mp h₂
      rw [List.any_eq_true.mpr ⟨x, h.mem_iff.mpr hx, hp⟩] at h₁
      exact h₁.symm

/-! ## joins: permutation congruence, additivity, key-consistent split -/

theorem padLeft_perm (l : Row) {m₁ m₂ : List Row} (h : m₁.Perm m₂) : (padLeft l m₁).Perm (padLeft l m₂) := by
  cases m₁ with
  | nil => rw [← h.nil_eq]
  | cons a t =>
    cases m₂ with
    | nil => exact absurd h.symm.nil_eq (by simp)
    | cons b u =>
      show ((a :: t).map (fun r => (l, some r))).Perm ((b :: u).map (fun r => (l, some r)))
      exact h.map _

theorem joinLeft_perm_right {κ} [DecidableEq κ] (kL kR : Row → κ) (L : List Row) {R R' : List Row}
    (h : R.Perm R') : (joinLeft kL kR L R).Perm (joinLeft kL kR L R') := by
  unfold joinLeft
  exact perm_flatMap_congr L _ _ (fun l _ => padLeft_perm l (h.filter _))

theorem semiLeft_perm_right {κ} [DecidableEq κ] (kL kR : Row → κ) (L : List Row) {R R' : List Row}
    (h : R.Perm R') : semiLeft kL kR L R = semiLeft kL kR L R' := by
  unfold semiLeft
  apply List.filter_congr
  intro l _
  exact perm_any_eq h _

theorem joinInner_perm_right {κ} [DecidableEq κ] (kL kR : Row → κ) (L : List Row) {R R' : List Row}
    (h : R.Perm R') : (joinInner kL kR L R).Perm (joinInner kL kR L R') := by
  unfold joinInner
  exact perm_flatMap_congr L _ _ (fun l _ => (h.filter _).map _)

/-- the left argument of every join is additive over concatenation of partitions -/
theorem joinInner_concat_left {κ} [DecidableEq κ] (kL kR : Row → κ) (n : Nat) (L : Nat → List Row) (R : List Row) :
    (List.range n).flatMap (fun i => joinInner kL kR (L i) R) = joinInner kL kR (catRows n L) R := by
  unfold joinInner catRows
  rw [List.flatMap_assoc]

theorem joinLeft_concat_left {κ} [DecidableEq κ] (kL kR : Row → κ) (n : Nat) (L : Nat → List Row) (R : List Row) :
    (List.range n).flatMap (fun i => joinLeft kL kR (L i) R) = joinLeft kL kR (catRows n L) R := by
  unfold joinLeft catRows
  rw [List.flatMap_assoc]

theorem semiLeft_concat_left {κ} [DecidableEq κ] (kL kR : Row → κ) (n : Nat) (L : Nat → List Row) (R : List Row) :
    (List.range n).flatMap (fun i => semiLeft kL kR (L i) R) = semiLeft kL kR (catRows n L) R := by
  unfold semiLeft catRows
  rw [List.filter_flatMap]

/-- the right argument of an inner join is additive up to the order of the result -/
theorem joinInner_concat_right {κ} [DecidableEq κ] (kL kR : Row → κ) (n : Nat) (L : List Row) (R : Nat → List Row) :
    ((List.range n).flatMap (fun j => joinInner kL kR L (R j))).Perm (joinInner kL kR L (catRows n R)) := by
  unfold joinInner catRows
  refine (flatMap_swap_perm (List.range n) L _).trans (List.Perm.of_eq ?_)
  apply flatMap_congr'
  intro l _
  rw [List.filter_flatMap, List.map_flatMap]

/-- right rows without a partner: split consistently by a function of the key -/
theorem antiRight_split {κ} [DecidableEq κ] (kL kR : Row → κ) (tgt : κ → Nat) (n : Nat)
    (hn : ∀ k, tgt k < n) (L R : List Row) :
    ((List.range n).flatMap (fun o =>
        antiRight kL kR (L.filter (fun l => tgt (kL l) == o)) (R.filter (fun r => tgt (kR r) == o)))).Perm
      (antiRight kL kR L R) := by
  have h1 : (List.range n).flatMap (fun o =>
        antiRight kL kR (L.filter (fun l => tgt (kL l) == o)) (R.filter (fun r => tgt (kR r) == o))) =
      (List.range n).flatMap (fun o => (antiRight kL kR L R).filter (fun r => tgt (kR r) == o)) := by
    apply flatMap_congr'
    intro o _
    unfold antiRight
    rw [List.filter_filter, List.filter_filter]
    apply List.filter_congr
    intro r _
    by_cases hr : tgt (kR r) = o
    · simp only [hr, beq_self_eq_true, Bool.and_true, Bool.true_and, List.any_filter]
      congr 1
      apply any_congr'
      intro l _
      by_cases hm : kL l = kR r
      · simp [hm, hr]
      · simp [hm]
    · have hb : (tgt (kR r) == o) = false := beq_eq_false_iff_ne.mpr hr
      rw [hb]; simp
  rw [h1]
  exact split_perm _ (fun r => tgt (kR r)) n (fun r _ => hn _)

theorem semiLeft_split {κ} [DecidableEq κ] (kL kR : Row → κ) (tgt : κ → Nat) (n : Nat)
    (hn : ∀ k, tgt k < n) (L R : List Row) :
    ((List.range n).flatMap (fun o =>
        semiLeft kL kR (L.filter (fun l => tgt (kL l) == o)) (R.filter (fun r => tgt (kR r) == o)))).Perm
      (semiLeft kL kR L R) := by
  have h1 : (List.range n).flatMap (fun o =>
        semiLeft kL kR (L.filter (fun l => tgt (kL l) == o)) (R.filter (fun r => tgt (kR r) == o))) =
      (List.range n).flatMap (fun o => (semiLeft kL kR L R).filter (fun l => tgt (kL l) == o)) := by
    apply flatMap_congr'
    intro o _
    unfold semiLeft
    rw [List.filter_filter, List.filter_filter]
    apply List.filter_congr
    intro l _
    by_cases hl : tgt (kL l) = o
    · simp only [hl, beq_self_eq_true, Bool.and_true, Bool.true_and, List.any_filter]
      apply any_congr'
      intro r _
      by_cases hm : kR r = kL l
      · simp [hm, hl]
      · simp [hm]
    · have hb : (tgt (kL l) == o) = false := beq_eq_false_iff_ne.mpr hl
      rw [hb]; simp
  rw [h1]
  exact split_perm _ (fun l => tgt (kL l)) n (fun l _ => hn _)

/-- Every join kind commutes with a split of both sides by one function of the key. -/
theorem joinSpec_split {κ} [DecidableEq κ] (how : How) (kL kR : Row → κ) (tgt : κ → Nat) (n : Nat)
    (hn : ∀ k, tgt k < n) (L R : List Row) :
    ((List.range n).flatMap (fun o =>
        joinSpec how kL kR (L.filter (fun l => tgt (kL l) == o)) (R.filter (fun r => tgt (kR r) == o)))).Perm
      (joinSpec how kL kR L R) := by
  cases how with
  | inner =>
    simp only [joinSpec]
    rw [← List.map_flatMap]
    exact (joinInner_split kL kR tgt n hn L R).map _
  | left =>
    simp only [joinSpec]
    rw [← List.map_flatMap]
    exact (joinLeft_split kL kR tgt n hn L R).map _
  | right =>
    simp only [joinSpec]
    rw [← List.map_flatMap]
    exact (joinLeft_split kR kL tgt n hn R L).map _
  | outer =>
    simp only [joinSpec]
    refine (flatMap_append_perm' _ _ _).trans ?_
    rw [← List.map_flatMap, ← List.map_flatMap]
    exact List.Perm.append ((joinLeft_split kL kR tgt n hn L R).map _) ((antiRight_split kL kR tgt n hn L R).map _)
  | leftsemi =>
    simp only [joinSpec]
    rw [← List.map_flatMap]
    exact (semiLeft_split kL kR tgt n hn L R).map _

theorem max_eq_one (nl nr : Nat) (hl : 1 ≤ nl) (hr : 1 ≤ nr) : (Nat.max nl nr == 1) = (nl == 1 && nr == 1) := by
  have : Nat.max nl nr = 1 ↔ (nl = 1 ∧ nr = 1) := by
    simp only [Nat.max_def]; split <;> omega
  by_cases h : nl = 1 ∧ nr = 1
  · simp [h.1, h.2]
  · have h' : ¬ Nat.max nl nr = 1 := fun e => h (this.mp e)
    rw [beq_eq_false_iff_ne.mpr h']
    by_cases h1 : nl = 1 <;> by_cases h2 : nr = 1 <;> simp [h1, h2] ; exact h ⟨h1, h2⟩

/-! ## the broadcast plan -/

theorem bucket_one {κ} (h : κ → Nat) (key : Row → κ) (l : List Row) : bucket h key 1 0 l = l := by
  unfold bucket
  apply List.filter_eq_self.mpr
  intro r _
  simp [Nat.mod_one]

/-- replicating the broadcast side: merging every partition of the other side with the whole
    broadcast side gives the join of the whole frames — for the allowed `how × side` pairs -/
theorem mergePiece_concat_other {κ} [DecidableEq κ] (how : How) (side : Side) (hallow : allowed how side = true)
    (kL kR : Row → κ) (n : Nat) (other : Nat → List Row) (B : List Row) :
    ((List.range n).flatMap (fun i => mergePiece how side kL kR (other i) B)).Perm
      (mergePiece how side kL kR (catRows n other) B) := by
  cases how <;> cases side <;> simp only [allowed, Bool.false_eq_true] at hallow <;>
    simp only [mergePiece, joinSpec] <;> rw [← List.map_flatMap]
  · exact (joinInner_concat_right kL kR n B other).map _
  · rw [joinInner_concat_left]
  · rw [joinLeft_concat_left]
  · rw [joinLeft_concat_left]
  · rw [semiLeft_concat_left]

/-- one output partition of a BroadcastJoin is the join of that partition of the other side with the
    whole broadcast side.  `inner`: the broadcast side in any partitioning; otherwise its partition `j`
    holds (a permutation of) hash bucket `j`, which is what the preceding RearrangeByColumn establishes. -/
theorem bcastPart_spec {κ} [DecidableEq κ] (how : How) (side : Side) (hallow : allowed how side = true)
    (kL kR : Row → κ) (h : κ → Nat) (m : Nat) (hm : 0 < m) (bc : Nat → List Row) (B : List Row)
    (hB : if how = .inner then B = catRows m bc
          else ∀ j, j < m → (bc j).Perm (bucket h (bcastKey side kL kR) m j B))
    (oth : List Row) :
    (bcastPart how side kL kR h m bc oth).Perm (mergePiece how side kL kR oth B) := by
  have hmod : ∀ k, h k % m < m := fun k => Nat.mod_lt _ hm
  cases how <;> cases side <;> simp only [allowed, Bool.false_eq_true] at hallow
  · -- inner, left side broadcast
    simp only [if_true] at hB
    subst hB
    simp only [bcastPart, mergePiece, joinSpec, if_true]
    rw [← List.map_flatMap, joinInner_concat_left]
  · -- inner, right side broadcast
    simp only [if_true] at hB
    subst hB
    simp only [bcastPart, mergePiece, joinSpec, if_true]
    rw [← List.map_flatMap]
    exact (joinInner_concat_right kL kR m oth bc).map _
  · -- left join, right side broadcast
    simp only [reduceCtorEq, if_false, bcastKey] at hB
    simp only [bcastPart, mergePiece, reduceCtorEq, if_false, otherKey]
    refine List.Perm.trans ?_ (joinSpec_split .left kL kR (fun k => h k % m) m hmod oth B)
    apply perm_flatMap_congr
    intro j hj
    simp only [joinSpec]
    exact (joinLeft_perm_right kL kR _ (hB j (List.mem_range.mp hj))).map _
  · -- right join, left side broadcast
    simp only [reduceCtorEq, if_false, bcastKey] at hB
    simp only [bcastPart, mergePiece, reduceCtorEq, if_false, otherKey]
    refine List.Perm.trans ?_ (joinSpec_split .right kL kR (fun k => h k % m) m hmod B oth)
    apply perm_flatMap_congr
    intro j hj
    simp only [joinSpec]
    exact (joinLeft_perm_right kR kL _ (hB j (List.mem_range.mp hj))).map _
  · -- leftsemi, right side broadcast
    simp only [reduceCtorEq, if_false, bcastKey] at hB
    simp only [bcastPart, mergePiece, reduceCtorEq, if_false, otherKey]
    refine List.Perm.trans (List.Perm.of_eq ?_) (joinSpec_split .leftsemi kL kR (fun k => h k % m) m hmod oth B)
    apply flatMap_congr'
    intro j hj
    simp only [joinSpec]
    rw [semiLeft_perm_right kL kR _ (hB j (List.mem_range.mp hj))]
    rfl

theorem bcastPlan_spec {κ} [DecidableEq κ] (how : How) (side : Side) (hallow : allowed how side = true)
    (kL kR : Row → κ) (h : κ → Nat) (nother m : Nat) (hm : 0 < m) (other bc : Nat → List Row) (B : List Row)
    (hB : if how = .inner then B = catRows m bc
          else ∀ j, j < m → (bc j).Perm (bucket h (bcastKey side kL kR) m j B)) :
    (bcastPlan how side kL kR h nother m other bc).Perm
      (mergePiece how side kL kR (catRows nother other) B) := by
  unfold bcastPlan
  exact (perm_flatMap_congr _ _ _ (fun i _ => bcastPart_spec how side hallow kL kR h m hm bc B hB (other i))).trans
    (mergePiece_concat_other how side hallow kL kR nother other B)

/-! ## BroadcastJoin._layer: run = sem -/

theorem nthPiece_eq (ps : List (List Row)) (j : Nat) :
    nthPiece ps j = (match ps[j]? with | some q => V.frame q | none => V.err) := by
  induction ps generalizing j with
  | nil => rfl
  | cons a t ih =>
    cases j with
    | zero => rfl
    | succ j => simp only [nthPiece, List.getElem?_cons_succ]; exact ih j

theorem nthPiece_map_range (f : Nat → List Row) (n j : Nat) (hj : j < n) :
    nthPiece ((List.range n).map f) j = .frame (f j) := by
  rw [nthPiece_eq]
  simp [hj]

section BJ
variable {κ : Type} [DecidableEq κ]

theorem bj_run_inter (p : Params) (kL kR : Row → κ) (h : κ → Nat) (mk : JRow → Row)
    (other bc : Nat → List Row) (i j : Nat) (hi : i ∈ p.parts) (hj : j < p.bsize) (F : Nat) :
    run (interp p kL kR h mk) (layer p) (inputs other bc) (F + 2) (.inter i j) =
      .frame ((mergePiece p.how p.side kL kR
        (if p.how = .inner then other i else bucket h (otherKey p.side kL kR) p.bsize j (other i)) (bc j)).map mk) := by
  have hother : ∀ n, run (interp p kL kR h mk) (layer p) (inputs other bc) n (.other i) = .frame (other i) :=
    fun n => run_undefined _ _ _ _ rfl n
  have hbc : ∀ n, run (interp p kL kR h mk) (layer p) (inputs other bc) n (.bc j) = .frame (bc j) :=
    fun n => run_undefined _ _ _ _ rfl n
  by_cases hin : p.how = .inner
  · have hl : layer p (.inter i j) =
        some (.apply mergeFn (if p.side = .left then [.bc j, .other i] else [.other i, .bc j])) := by
      simp [layer, hi, hj, hin]
    rw [run_defined _ _ _ _ _ _ hl]
    cases hs : p.side with
    | left => simp [evalTsk, hother, hbc, interp, mergeFn, mergePiece, hin]
    | right => simp [evalTsk, hother, hbc, interp, mergeFn, mergePiece, hin]
  · have hl : layer p (.inter i j) =
        some (.apply (mergeGetFn j) (if p.side = .left then [.bc j, .split i] else [.split i, .bc j])) := by
      simp [layer, hi, hj, hin]
    have hsl : layer p (.split i) = some (.apply splitFn [.other i]) := by simp [layer, hi, hin]
    have hsplit : run (interp p kL kR h mk) (layer p) (inputs other bc) (F + 1) (.split i) =
        .pieces ((List.range p.bsize).map (fun j => bucket h (otherKey p.side kL kR) p.bsize j (other i))) := by
      rw [run_defined _ _ _ _ _ _ hsl]
      simp [evalTsk, hother, interp, splitFn]
    rw [run_defined _ _ _ _ _ _ hl]
    cases hs : p.side with
    | left =>
      simp only [evalTsk, if_true, List.map_cons, List.map_nil, hbc, hsplit, interp, mergeGetFn, hs]
      rw [Nat.add_comm 2 j]
      simp only [nthPiece_map_range _ _ _ hj, mergePiece, hin, if_false]
    | right =>
      simp only [evalTsk, reduceCtorEq, if_false, List.map_cons, List.map_nil, hbc, hsplit, interp, mergeGetFn, hs]
      rw [Nat.add_comm 2 j]
      simp only [nthPiece_map_range _ _ _ hj, mergePiece, hin, if_false]

/-- task `(name, i)` of `BroadcastJoin._layer` evaluates to `bcastPart` of partition `i` of the other side -/
theorem bj_run_out (p : Params) (kL kR : Row → κ) (h : κ → Nat) (mk : JRow → Row)
    (other bc : Nat → List Row) (i : Nat) (hi : i ∈ p.parts) (F : Nat) (hF : 3 ≤ F) :
    run (interp p kL kR h mk) (layer p) (inputs other bc) F (.out i) =
      .frame ((bcastPart p.how p.side kL kR h p.bsize bc (other i)).map mk) := by
  obtain ⟨F', rfl⟩ : ∃ F', F = F' + 3 := ⟨F - 3, by omega⟩
  have hl : layer p (.out i) = some (.concat ((List.range p.bsize).map (fun j => Key.inter i j)) false) := by
    simp [layer, hi]
  rw [run_defined _ _ _ _ _ _ hl]
  simp only [evalTsk, List.map_map]
  show concatV ((List.range p.bsize).map
    (fun j => run (interp p kL kR h mk) (layer p) (inputs other bc) (F' + 2) (Key.inter i j))) = _
  rw [concatV_map_frames (List.range p.bsize) _
    (fun j => (mergePiece p.how p.side kL kR
        (if p.how = .inner then other i else bucket h (otherKey p.side kL kR) p.bsize j (other i)) (bc j)).map mk)
    (fun j hj => bj_run_inter p kL kR h mk other bc i j hi (List.mem_range.mp hj) F')]
  rw [bcastPart, List.map_flatMap]

theorem bj_closed (p : Params) (other bc : Nat → List Row) : Closed (layer p) (inputs other bc) := by
  intro k t hk d hd
  cases k with
  | other i => simp [layer] at hk
  | bc j => simp [layer] at hk
  | split i =>
    simp only [layer] at hk
    split at hk
    · cases hk
      simp only [Tsk.refs, List.mem_singleton] at hd
      subst hd; right; rfl
    · cases hk
  | inter i j =>
    simp only [layer] at hk
    split at hk
    · rename_i hij
      split at hk
      · rename_i hin
        cases hk
        simp only [Tsk.refs] at hd
        have : d = .bc j ∨ d = .split i := by
          split at hd <;> simp only [List.mem_cons, List.not_mem_nil, or_false] at hd
          · exact hd
          · exact hd.symm
        rcases this with rfl | rfl
        · right; rfl
        · left; simp [layer, hij.1, hin]
      · cases hk
        simp only [Tsk.refs] at hd
        have : d = .bc j ∨ d = .other i := by
          split at hd <;> simp only [List.mem_cons, List.not_mem_nil, or_false] at hd
          · exact hd
          · exact hd.symm
        rcases this with rfl | rfl <;> (right; rfl)
    · cases hk
  | out i =>
    simp only [layer] at hk
    split at hk
    · rename_i hi
      cases hk
      simp only [Tsk.refs, List.mem_map, List.mem_range] at hd
      obtain ⟨j, hj, rfl⟩ := hd
      left
      by_cases hin : p.how = .inner <;> simp [layer, hi, hj, hin]
    · cases hk

def bjRank : Key → Nat
  | .other _ => 0
  | .bc _ => 0
  | .split _ => 1
  | .inter _ _ => 2
  | .out _ => 3

theorem bj_ranked (p : Params) : Ranked (layer p) bjRank := by
  intro k t hk d hd hdef
  cases k with
  | other i => simp [layer] at hk
  | bc j => simp [layer] at hk
  | split i =>
    simp only [layer] at hk
    split at hk
    · cases hk
      simp only [Tsk.refs, List.mem_singleton] at hd
      subst hd; simp [layer] at hdef
    · cases hk
  | inter i j =>
    cases d with
    | other _ => simp [bjRank]
    | bc _ => simp [bjRank]
    | split _ => simp [bjRank]
    | inter a b =>
      simp only [layer] at hk
      split at hk
      · split at hk <;> cases hk <;> simp only [Tsk.refs] at hd <;> split at hd <;> simp at hd
      · cases hk
    | out a =>
      simp only [layer] at hk
      split at hk
      · split at hk <;> cases hk <;> simp only [Tsk.refs] at hd <;> split at hd <;> simp at hd
      · cases hk
  | out i =>
    simp only [layer] at hk
    split at hk
    · cases hk
      simp only [Tsk.refs, List.mem_map, List.mem_range] at hd
      obtain ⟨j, _, rfl⟩ := hd
      simp [bjRank]
    · cases hk

end BJ

/-! ## sort / set_index: partition assignment by divisions -/
section SortSec
open KS

theorem searchsortedRight_mono (d : List Int) {x y : Int} (hxy : x ≤ y) :
    searchsortedRight d x ≤ searchsortedRight d y := by
  unfold searchsortedRight
  induction d with
  | nil => exact Nat.le_refl _
  | cons b t ih =>
    simp only [List.filter_cons]
    by_cases hb : b ≤ x
    · have hb' : b ≤ y := Int.le_trans hb hxy
      simp only [hb, hb', decide_true, if_true, List.length_cons]
      omega
    · simp only [hb, decide_false, Bool.false_eq_true, if_false]
      by_cases hb' : b ≤ y
      · simp only [hb', decide_true, if_true, List.length_cons]; omega
      · simp only [hb', decide_false, Bool.false_eq_true, if_false]; exact ih

theorem searchsortedRight_le (d : List Int) (x : Int) : searchsortedRight d x ≤ d.length :=
  List.length_filter_le _ _

theorem searchsortedRight_pos (d : List Int) (x : Int) (h : ∃ b ∈ d, b ≤ x) : 1 ≤ searchsortedRight d x := by
  obtain ⟨b, hb, hbx⟩ := h
  exact List.length_pos_of_mem (List.mem_filter.mpr ⟨hb, by simpa using hbx⟩)

/-- every key is assigned one of the `len(divisions) - 1` output partitions — for ANY divisions -/
theorem setPartitionsPre_lt (d : List Int) (asc : Bool) (x : Int) (hd : 2 ≤ d.length) :
    setPartitionsPre d asc x < d.length - 1 := by
  have hle := searchsortedRight_le d x
  simp only [setPartitionsPre]
  cases asc <;> simp only [Bool.false_eq_true, if_false, if_true] <;> split <;> omega

/-- ascending: the assignment is monotone on keys not below every division -/
theorem setPartitionsPre_mono_asc (d : List Int) {x y : Int} (hd : 2 ≤ d.length) (hxy : x ≤ y)
    (hx : ∃ b ∈ d, b ≤ x) : setPartitionsPre d true x ≤ setPartitionsPre d true y := by
  have hm := searchsortedRight_mono d hxy
  have hx1 := searchsortedRight_pos d x hx
  have hly := searchsortedRight_le d y
  simp only [setPartitionsPre, if_true]
  split <;> split <;> omega

/-- descending: antitone -/
theorem setPartitionsPre_anti_desc (d : List Int) {x y : Int} (_hd : 2 ≤ d.length) (hxy : x ≤ y)
    (hx : ∃ b ∈ d, b ≤ x) : setPartitionsPre d false y ≤ setPartitionsPre d false x := by
  have hm := searchsortedRight_mono d hxy
  have hx1 := searchsortedRight_pos d x hx
  have hly := searchsortedRight_le d y
  simp only [setPartitionsPre, Bool.false_eq_true, if_false]
  split <;> split <;> omega

/-- a row assigned a lower partition number comes first in the requested order -/
theorem setPartitionsPre_order (d : List Int) (asc : Bool) (hd : 2 ≤ d.length) (a b : Row)
    (ha : ∃ c ∈ d, c ≤ a.idx) (hb : ∃ c ∈ d, c ≤ b.idx)
    (hlt : setPartitionsPre d asc a.idx < setPartitionsPre d asc b.idx) : before asc a b := by
  cases asc with
  | true =>
    show a.idx ≤ b.idx
    by_cases h : a.idx ≤ b.idx
    · exact h
    · have := setPartitionsPre_mono_asc d hd (x := b.idx) (y := a.idx) (by omega) hb
      omega
  | false =>
    show b.idx ≤ a.idx
    by_cases h : b.idx ≤ a.idx
    · exact h
    · have := setPartitionsPre_anti_desc d hd (x := a.idx) (y := b.idx) (by omega) ha
      omega

/-- the pipeline loses and duplicates nothing, whatever the divisions -/
theorem sortPlan_perm (srt : List Row → List Row) (hperm : ∀ l, (srt l).Perm l) (d : List Int) (asc : Bool)
    (hd : 2 ≤ d.length) (l : List Row) : (sortPlan srt d asc l).Perm l := by
  unfold sortPlan
  refine (perm_flatMap_congr _ _ _ (fun o _ => hperm _)).trans ?_
  exact split_perm l (fun r => setPartitionsPre d asc r.idx) (d.length - 1)
    (fun r _ => setPartitionsPre_lt d asc r.idx hd)

theorem sortPlan_sorted (srt : List Row → List Row) (hperm : ∀ l, (srt l).Perm l) (d : List Int) (asc : Bool)
    (hsorted : ∀ l, (srt l).Pairwise (before asc)) (hd : 2 ≤ d.length) (l : List Row)
    (hcov : ∀ r ∈ l, ∃ c ∈ d, c ≤ r.idx) : (sortPlan srt d asc l).Pairwise (before asc) := by
  unfold sortPlan
  rw [List.pairwise_flatMap]
  refine ⟨fun o _ => hsorted _, ?_⟩
  refine List.Pairwise.imp ?_ (List.pairwise_lt_range (n := d.length - 1))
  intro o₁ o₂ hlt x hx y hy
  have hx' := List.mem_filter.mp ((hperm _).mem_iff.mp hx)
  have hy' := List.mem_filter.mp ((hperm _).mem_iff.mp hy)
  have e₁ : setPartitionsPre d asc x.idx = o₁ := by simpa using hx'.2
  have e₂ : setPartitionsPre d asc y.idx = o₂ := by simpa using hy'.2
  exact setPartitionsPre_order d asc hd x y (hcov x hx'.1) (hcov y hy'.1) (by omega)

/-- two lists in the requested order that are permutations of each other have the same key sequence -/
theorem sorted_perm_keys_eq (asc : Bool) {l₁ l₂ : List Row} (hp : l₁.Perm l₂)
    (h₁ : l₁.Pairwise (before asc)) (h₂ : l₂.Pairwise (before asc)) :
    l₁.map (·.idx) = l₂.map (·.idx) := by
  have conv : ∀ l : List Row, l.Pairwise (before asc) →
      (l.map (·.idx)).Pairwise (fun a b : Int => if asc then a ≤ b else b ≤ a) := by
    intro l hl
    rw [List.pairwise_map]
    refine hl.imp ?_
    intro a b hab
    cases asc <;> exact hab
  refine List.Perm.eq_of_pairwise (le := fun a b : Int => if asc then a ≤ b else b ≤ a) ?_
    (conv l₁ h₁) (conv l₂ h₂) (hp.map _)
  intro a b _ _ hab hba
  cases asc <;> simp only [Bool.false_eq_true, if_false, if_true] at hab hba <;> omega

theorem leB_iff (asc : Bool) (a b : Row) : leB asc a b = true ↔ before asc a b := by
  cases asc <;> simp [leB, before]

theorem insertBy_perm (asc : Bool) (a : Row) (l : List Row) : (insertBy asc a l).Perm (a :: l) := by
  induction l with
  | nil => exact List.Perm.refl _
  | cons b t ih =>
    simp only [insertBy]
    split
    · exact List.Perm.refl _
    · exact (List.Perm.cons b ih).trans (List.Perm.swap a b t)

theorem before_total (asc : Bool) (a b : Row) : before asc a b ∨ before asc b a := by
  cases asc <;> simp only [before, Bool.false_eq_true, if_false, if_true] <;> omega

theorem before_trans (asc : Bool) {a b c : Row} (h₁ : before asc a b) (h₂ : before asc b c) : before asc a c := by
  cases asc <;> simp only [before, Bool.false_eq_true, if_false, if_true] at * <;> omega

theorem insertBy_sorted (asc : Bool) (a : Row) (l : List Row) (hl : l.Pairwise (before asc)) :
    (insertBy asc a l).Pairwise (before asc) := by
  induction l with
  | nil => simp [insertBy]
  | cons b t ih =>
    simp only [insertBy]
    have hb := List.pairwise_cons.mp hl
    split
    · rename_i hab
      have hab' := (leB_iff asc a b).mp hab
      refine List.pairwise_cons.mpr ⟨?_, hl⟩
      intro c hc
      rcases List.mem_cons.mp hc with rfl | hc
      · exact hab'
      · exact before_trans asc hab' (hb.1 c hc)
    · rename_i hab
      have hba : before asc b a := by
        rcases before_total asc a b with h | h
        · exact absurd ((leB_iff asc a b).mpr h) hab
        · exact h
      refine List.pairwise_cons.mpr ⟨?_, ih hb.2⟩
      intro c hc
      rcases List.mem_cons.mp ((insertBy_perm asc a t).mem_iff.mp hc) with rfl | hc
      · exact hba
      · exact hb.1 c hc

theorem stableSort_perm (asc : Bool) (l : List Row) : (stableSort asc l).Perm l := by
  induction l with
  | nil => exact List.Perm.refl _
  | cons a t ih => exact (insertBy_perm asc a _).trans (List.Perm.cons a ih)

theorem stableSort_sorted (asc : Bool) (l : List Row) : (stableSort asc l).Pairwise (before asc) := by
  induction l with
  | nil => exact List.Pairwise.nil
  | cons a t ih => exact insertBy_sorted asc a _ ih

theorem sortedInts_pairwise : ∀ d : List Int, sortedInts d = true → d.Pairwise (· ≤ ·)
  | [], _ => List.Pairwise.nil
  | [_], _ => by simp
  | a :: b :: t, h => by
    simp only [sortedInts, Bool.and_eq_true, decide_eq_true_eq] at h
    have ih := sortedInts_pairwise (b :: t) h.2
    rw [List.pairwise_cons]
    refine ⟨?_, ih⟩
    intro c hc
    rcases List.mem_cons.mp hc with rfl | hc
    · exact h.1
    · exact Int.le_trans h.1 (List.rel_of_pairwise_cons ih hc)

theorem sortedInts_tail (a : Int) (t : List Int) (h : sortedInts (a :: t) = true) : sortedInts t = true := by
  cases t with
  | nil => rfl
  | cons b u => simp only [sortedInts, Bool.and_eq_true] at h; exact h.2

theorem sortedIn_tail (asc : Bool) (a : Int) (t : List Int) (h : sortedIn asc (a :: t) = true) : sortedIn asc t = true := by
  cases asc
  · simp only [sortedIn, Bool.false_eq_true, if_false, List.map_cons] at h ⊢
    exact sortedInts_tail _ _ h
  · simp only [sortedIn, if_true] at h ⊢
    exact sortedInts_tail _ _ h

/-- head of an ascending (descending) list bounds every later entry -/
theorem sortedIn_head (asc : Bool) (a : Int) (t : List Int) (h : sortedIn asc (a :: t) = true) :
    ∀ c ∈ t, if asc then a ≤ c else c ≤ a := by
  cases asc
  · simp only [sortedIn, Bool.false_eq_true, if_false, List.map_cons] at h ⊢
    intro c hc
    have := List.rel_of_pairwise_cons (sortedInts_pairwise _ h) (List.mem_map_of_mem (f := fun x : Int => -x) hc)
    omega
  · simp only [sortedIn, if_true] at h ⊢
    exact fun c hc => List.rel_of_pairwise_cons (sortedInts_pairwise _ h) hc

/-- the guard the code checks implies that ALL pairs of partitions (not only neighbours) are
    separated in the requested order -/
theorem presorted_nonoverlap (asc : Bool) : ∀ bs : List (Int × Int), presorted asc bs = true →
    bs.Pairwise (fun b₁ b₂ => if asc then b₁.2 < b₂.1 else b₂.2 < b₁.1)
  | [], _ => List.Pairwise.nil
  | [_], _ => by simp
  | b :: n :: t, h => by
    simp only [presorted, Bool.and_eq_true, List.map_cons] at h
    obtain ⟨⟨hmin, hmax⟩, hadj⟩ := h
    simp only [adjOK, Bool.and_eq_true] at hadj
    have ih := presorted_nonoverlap asc (n :: t) (by
      simp only [presorted, Bool.and_eq_true, List.map_cons]
      exact ⟨⟨sortedIn_tail asc _ _ hmin, sortedIn_tail asc _ _ hmax⟩, hadj.2⟩)
    refine List.pairwise_cons.mpr ⟨?_, ih⟩
    intro c hc
    have hmin' := sortedIn_head asc n.1 (t.map (·.1)) (sortedIn_tail asc _ _ hmin)
    have hmax' := sortedIn_head asc n.2 (t.map (·.2)) (sortedIn_tail asc _ _ hmax)
    cases asc
    · simp only [Bool.false_eq_true, if_false, decide_eq_true_eq] at hadj hmax' ⊢
      rcases List.mem_cons.mp hc with rfl | hc
      · exact hadj.1
      · have := hmax' c.2 (List.mem_map_of_mem (f := fun q : Int × Int => q.2) hc)
        omega
    · simp only [if_true, decide_eq_true_eq] at hadj hmin' ⊢
      rcases List.mem_cons.mp hc with rfl | hc
      · exact hadj.1
      · have := hmin' c.1 (List.mem_map_of_mem (f := fun q : Int × Int => q.1) hc)
        omega

end SortSec

/-! ## split_out: group-wise aggregation after a hash split -/
section Reduce
open KR

theorem keysOf_map_filter {κ} [DecidableEq κ] (key : Row → κ) (g : Row → Row) (hg : ∀ r, key (g r) = key r)
    (l : List Row) : (l.map g).map key = l.map key := by
  rw [List.map_map]
  apply List.map_congr_left
  intro r _
  exact hg r

/-- a key-preserving row-wise map commutes with the group-wise aggregation -/
theorem groupApply_map {κ β} [DecidableEq κ] (key : Row → κ) (f : κ → List Row → List β) (g : Row → Row)
    (hg : ∀ r, key (g r) = key r) (l : List Row) :
    groupApply key f (l.map g) = groupApply key (fun k rows => f k (rows.map g)) l := by
  unfold groupApply
  rw [keysOf_map_filter key g hg]
  apply flatMap_congr'
  intro k _
  rw [List.filter_map]
  congr 2
  apply List.filter_congr
  intro r _
  simp [hg r]

theorem shufflePlan_perm_tree {κ β} [DecidableEq κ] (key : Row → κ) (agg : κ → List Row → List β)
    (h : κ → Nat) (n : Nat) (hn : 0 < n) (chunks : List Row) :
    (shufflePlan key agg h n chunks).Perm (treePlan key agg chunks) :=
  groupApply_split key agg (fun k => h k % n) n (fun _ => Nat.mod_lt _ hn) chunks

theorem shufflePlan_one {κ β} [DecidableEq κ] (key : Row → κ) (agg : κ → List Row → List β)
    (h : κ → Nat) (chunks : List Row) : shufflePlan key agg h 1 chunks = treePlan key agg chunks := by
  unfold shufflePlan treePlan
  simp only [List.range_one, List.flatMap_cons, List.flatMap_nil, List.append_nil]
  congr 1
  apply List.filter_eq_self.mpr
  intro r _
  simp [Nat.mod_one]

end Reduce

end Dx
