/-
  Lemmas/Drivers.lean — soundness of the rewrite drivers for every rule system, every tree, every
  dependents map, every cache content and every amount of fuel.

  All statements are of the form "the returned expression may replace the input" (`Ref S out e`)
  for an arbitrary preorder semantics `S`; C01.lean instantiates them with a congruence and with the
  definedness refinement.
-/
import DxModel.Lemmas.DriversSem
namespace Dx

variable {V : Type}

theorem firstFire_some {up : Expr → Option Expr} {p : Expr} :
    ∀ {cs : List Expr} {c o : Expr}, firstFire up p cs = some (c, o) → up c = some o
  | [], _, _, h => by simp [firstFire] at h
  | c' :: t, c, o, h => by
    unfold firstFire at h
    split at h
    · next o' ho' =>
      split at h
      · simp only [Option.some.injEq, Prod.mk.injEq] at h
        obtain ⟨h1, h2⟩ := h
        subst h1; subst h2
        exact ho'
      · exact firstFire_some h
    · exact firstFire_some h

theorem lookup_mem {β : Type} : ∀ (l : List (Expr × β)) (k : Expr) (v : β),
    l.lookup k = some v → (k, v) ∈ l
  | [], _, _, h => by simp [List.lookup] at h
  | (a, b) :: t, k, v, h => by
    simp only [List.lookup] at h
    split at h
    · next heq =>
      have hk : k = a := by simpa using heq
      simp only [Option.some.injEq] at h
      subst hk; subst h
      exact List.mem_cons_self
    · exact List.mem_cons_of_mem _ (lookup_mem t k v h)

/-! ### collect_dependents -/

/-- every entry of the map is a real (operand, consumer) pair -/
def DepsTruthful (d : Deps) : Prop := ∀ c p, (c, p) ∈ d → c ∈ p.args

theorem collectLoop_truthful : ∀ n stack seen d, DepsTruthful d → DepsTruthful (collectLoop n stack seen d) := by
  intro n
  induction n with
  | zero => intro _ _ d h; exact h
  | succ n ih =>
    intro stack seen d h
    cases stack with
    | nil => exact h
    | cons node stack =>
      unfold collectLoop
      split
      · exact ih _ _ _ h
      · apply ih
        intro c p hm
        rcases List.mem_append.mp hm with hm | hm
        · exact h c p hm
        · obtain ⟨dep, hdep, heq⟩ := List.mem_map.mp hm
          cases heq
          exact hdep

/-! ### rewrite -/

theorem rewriteWith_sound (S : Sem V) (dn : Expr → Option Expr) (up : Expr → Expr → Option Expr)
    (hdn : ∀ e o, dn e = some o → Ref S o e) (hup : ∀ c p o, up c p = some o → Ref S o p) :
    ∀ n e, Ref S (rewriteWith dn up n e).expr e := by
  intro n
  induction n with
  | zero => intro e; exact Ref.refl S e
  | succ n ih =>
    intro e
    unfold rewriteWith
    have h1 : Ref S ((dn e).getD e) e := by
      cases hd : dn e with
      | none => exact Ref.refl S e
      | some o => exact hdn e o hd
    simp only
    split
    · exact Ref.trans (ih _) h1
    · split
      · next c o hf => exact Ref.trans (ih o) (hup c e o (firstFire_some (up := fun c => up c e) hf))
      · split
        · exact Ref.refl S e
        · split
          · refine Ref.trans (ih _) ?_
            apply Ref.rebuild' S e
            rw [List.map_map]
            exact forall2_map_ref S _ _ (fun a => ih a)
          · exact Ref.refl S e

/-! ### simplify_once -/

theorem simplifyArgs_trace_mono (recur : Expr → SState → Expr × SState) (parent : Expr)
    (h : ∀ a s f, f ∈ s.trace → f ∈ (recur a s).2.trace) :
    ∀ as s f, f ∈ s.trace → f ∈ (simplifyArgs recur parent as s).2.trace
  | [], _, _, hf => hf
  | a :: t, s, f, hf => by
    unfold simplifyArgs
    exact simplifyArgs_trace_mono recur parent h t _ f (h a _ f hf)

theorem simplifyOnce_trace_mono (R : Rules) :
    ∀ n e s f, f ∈ s.trace → f ∈ (simplifyOnce R n e s).2.trace := by
  intro n
  induction n with
  | zero => intro e s f hf; exact hf
  | succ n ih =>
    intro e s f hf
    unfold simplifyOnce
    split
    · exact hf
    · simp only
      apply simplifyArgs_trace_mono _ _ ih
      simp only
      split
      · exact List.mem_append_left _ hf
      · exact hf

theorem CacheSound.cons (S : Sem V) {c : Cache} {k v : Expr} (h : CacheSound S c) (hv : Ref S v k) :
    CacheSound S ((k, v) :: c) := by
  intro k' v' hm
  cases hm with
  | head => exact hv
  | tail _ hm => exact h k' v' hm

theorem CacheSound.nil (S : Sem V) : CacheSound S [] := fun _ _ h => by cases h

theorem simplifyArgs_sound (S : Sem V) (P : Expr → Expr → Deps → Prop)
    (recur : Expr → SState → Expr × SState) (parent : Expr)
    (hmono : ∀ a s f, f ∈ s.trace → f ∈ (recur a s).2.trace)
    (hrec : ∀ a s, TraceGood P (recur a s).2.trace → CacheSound S s.cache →
              Ref S (recur a s).1 a ∧ CacheSound S (recur a s).2.cache) :
    ∀ as s, TraceGood P (simplifyArgs recur parent as s).2.trace → CacheSound S s.cache →
      Forall2 (Ref S) (simplifyArgs recur parent as s).1 as ∧
      CacheSound S (simplifyArgs recur parent as s).2.cache
  | [], s, _, hc => ⟨.nil, hc⟩
  | a :: t, s, ht, hc => by
    unfold simplifyArgs at ht ⊢
    simp only at ht ⊢
    have hhead := hrec a { s with deps := s.deps ++ [(a, parent)] }
      (fun f hf => ht f (simplifyArgs_trace_mono recur parent hmono t _ f hf)) hc
    have htail := simplifyArgs_sound S P recur parent hmono hrec t _ ht
      (CacheSound.cons S hhead.2 hhead.1)
    exact ⟨.cons hhead.1 htail.1, htail.2⟩

theorem simplifyOnce_sound (S : Sem V) (R : Rules) (P : Expr → Expr → Deps → Prop)
    (hR : RulesSoundUnder S R P) :
    ∀ n e s, TraceGood P (simplifyOnce R n e s).2.trace → CacheSound S s.cache →
      Ref S (simplifyOnce R n e s).1 e ∧ CacheSound S (simplifyOnce R n e s).2.cache := by
  intro n
  induction n with
  | zero => intro e s _ hc; exact ⟨Ref.refl S e, hc⟩
  | succ n ih =>
    intro e s ht hc
    unfold simplifyOnce at ht ⊢
    cases hl : List.lookup e s.cache with
    | some r => exact ⟨hc e r (lookup_mem _ _ _ hl), hc⟩
    | none =>
      rw [hl] at ht
      simp only at ht ⊢
      -- down, once
      have h1 : Ref S (if ((R.down e).getD e != e) = true then (R.down e).getD e else e) e := by
        split
        · cases hd : R.down e with
          | none => exact Ref.refl S e
          | some o => exact hR.down_ok e o hd
        · exact Ref.refl S e
      generalize (if ((R.down e).getD e != e) = true then (R.down e).getD e else e) = e1 at h1 ht ⊢
      -- children of e2 (shared by both branches of the up loop)
      have hchildren : ∀ (e2 : Expr) (s' : SState),
          TraceGood P (simplifyArgs (simplifyOnce R n) e2 e2.args s').2.trace → CacheSound S s'.cache →
          Ref S (if ((simplifyArgs (simplifyOnce R n) e2 e2.args s').1 != e2.args) = true
                  then .node e2.cls e2.lit (simplifyArgs (simplifyOnce R n) e2 e2.args s').1 else e2) e2 ∧
          CacheSound S (simplifyArgs (simplifyOnce R n) e2 e2.args s').2.cache := by
        intro e2 s' ht' hc'
        have hargs := simplifyArgs_sound S P (simplifyOnce R n) e2 (simplifyOnce_trace_mono R n) ih
          e2.args s' ht' hc'
        refine ⟨?_, hargs.2⟩
        split
        · exact Ref.rebuild' S e2 hargs.1
        · exact Ref.refl S e2
      -- up, first firing child
      cases hf : firstFire (fun c => R.up c e1 s.deps) e1 e1.args with
      | none =>
        rw [hf] at ht
        simp only at ht ⊢
        have h := hchildren e1 _ ht hc
        exact ⟨Ref.trans h.1 h1, h.2⟩
      | some co =>
        obtain ⟨c, o⟩ := co
        rw [hf] at ht
        simp only at ht ⊢
        have h := hchildren o _ ht hc
        have hm : (⟨c, e1, s.deps, o⟩ : Firing) ∈
            (simplifyArgs (simplifyOnce R n) o o.args
              { s with trace := s.trace ++ [⟨c, e1, s.deps, o⟩] }).2.trace :=
          simplifyArgs_trace_mono _ _ (simplifyOnce_trace_mono R n) _ _ _
            (List.mem_append_right _ List.mem_cons_self)
        have h2 : Ref S o e1 :=
          hR.up_ok c e1 s.deps o (ht _ hm) (firstFire_some (up := fun c => R.up c e1 s.deps) hf)
        exact ⟨Ref.trans h.1 (Ref.trans h2 h1), h.2⟩

/-! ### simplify -/

theorem simplifyLoop_trace_mono (R : Rules) (m : Nat) :
    ∀ n e seen tr f, f ∈ tr → f ∈ (simplifyLoop R m n e seen tr).2 := by
  intro n
  induction n with
  | zero => intro e seen tr f hf; exact hf
  | succ n ih =>
    intro e seen tr f hf
    have h0 : f ∈ (simplifyOnce R m e ⟨collectDependents e, [], tr, false⟩).2.trace :=
      simplifyOnce_trace_mono R m e _ f hf
    unfold simplifyLoop
    simp only
    split
    · exact h0
    · split
      · exact h0
      · split
        · exact h0
        · exact ih _ _ _ f h0

theorem simplifyLoop_sound (S : Sem V) (R : Rules) (P : Expr → Expr → Deps → Prop)
    (hR : RulesSoundUnder S R P) (m : Nat) :
    ∀ n e seen tr, TraceGood P (simplifyLoop R m n e seen tr).2 →
      Ref S (simplifyLoop R m n e seen tr).1.expr e := by
  intro n
  induction n with
  | zero => intro e seen tr _; exact Ref.refl S e
  | succ n ih =>
    intro e seen tr ht
    unfold simplifyLoop at ht ⊢
    simp only at ht ⊢
    split
    · exact Ref.refl S e
    · split
      · exact Ref.refl S e
      · split
        · exact Ref.refl S e
        · next h1 h2 h3 =>
          rw [if_neg h1, if_neg h2, if_neg h3] at ht
          have hgood : TraceGood P (simplifyOnce R m e ⟨collectDependents e, [], tr, false⟩).2.trace :=
            fun f hf => ht f (simplifyLoop_trace_mono R m n _ _ _ f hf)
          have h := (simplifyOnce_sound S R P hR m e _ hgood (CacheSound.nil S)).1
          exact Ref.trans (ih _ _ _ ht) h

theorem simplifyT_trace_mono (R : Rules) (fuel : Nat) (e : Expr) (tr : List Firing) (f : Firing)
    (hf : f ∈ tr) : f ∈ (simplifyT R fuel e tr).2 :=
  simplifyLoop_trace_mono R fuel fuel e [] tr f hf

theorem simplifyT_sound (S : Sem V) (R : Rules) (P : Expr → Expr → Deps → Prop)
    (hR : RulesSoundUnder S R P) (fuel : Nat) (e : Expr) (tr : List Firing)
    (ht : TraceGood P (simplifyT R fuel e tr).2) : Ref S (simplifyT R fuel e tr).1.expr e :=
  simplifyLoop_sound S R P hR fuel fuel e [] tr ht

/-! ### lowering -/

theorem lowerOnce_sound (S : Sem V) (R : Rules) (hl : ∀ e o, R.lower e = some o → Ref S o e) :
    ∀ n e, Ref S (lowerOnce R n e).expr e := by
  intro n
  induction n with
  | zero => intro e; exact Ref.refl S e
  | succ n ih =>
    intro e
    unfold lowerOnce
    have h1 : Ref S ((R.lower e).getD e) e := by
      cases hd : R.lower e with
      | none => exact Ref.refl S e
      | some o => exact hl e o hd
    simp only
    generalize (R.lower e).getD e = out at h1 ⊢
    split
    · exact Ref.refl S e
    · simp only
      split
      · refine Ref.trans ?_ h1
        apply Ref.rebuild' S out
        rw [List.map_map]
        exact forall2_map_ref S _ _ (fun a => ih a)
      · exact h1

theorem lowerLoop_sound (S : Sem V) (R : Rules) (hl : ∀ e o, R.lower e = some o → Ref S o e) (m : Nat) :
    ∀ n e, Ref S (lowerLoop R m n e).expr e := by
  intro n
  induction n with
  | zero => intro e; exact Ref.refl S e
  | succ n ih =>
    intro e
    unfold lowerLoop
    simp only
    split
    · exact Ref.refl S e
    · split
      · exact Ref.refl S e
      · exact Ref.trans (ih _) (lowerOnce_sound S R hl m e)

/-! ### the pipeline -/

theorem optimizeUntilT_sound (S : Sem V) (R : Rules) (P : Expr → Expr → Deps → Prop)
    (hR : RulesSoundUnder S R P) (fuel : Nat) (stage : Stage) (e : Expr)
    (ht : TraceGood P (optimizeUntilT R fuel stage e).2) :
    Ref S (optimizeUntilT R fuel stage e).1.expr e := by
  have hrw : ∀ x, Ref S (rewrite R fuel x).expr x :=
    rewriteWith_sound S _ _ hR.tuneDown_ok hR.tuneUp_ok fuel
  have hlow : ∀ x, Ref S (lowerCompletely R fuel x).expr x :=
    lowerLoop_sound S R hR.lower_ok fuel fuel
  unfold optimizeUntilT at ht ⊢
  by_cases h0 : stage = .logical
  · rw [if_pos h0]; exact Ref.refl S e
  rw [if_neg h0] at ht ⊢
  simp only at ht ⊢
  split
  · next h => rw [if_pos h] at ht; exact simplifyT_sound S R P hR fuel e [] ht
  next h1 =>
  rw [if_neg h1] at ht
  split
  · next h2 =>
    rw [if_pos h2] at ht
    exact Ref.trans (hrw _) (simplifyT_sound S R P hR fuel e [] ht)
  next h2 =>
  rw [if_neg h2] at ht
  split
  · next h3 =>
    rw [if_pos h3] at ht
    exact Ref.trans (hlow _) (Ref.trans (hrw _) (simplifyT_sound S R P hR fuel e [] ht))
  next h3 =>
  rw [if_neg h3] at ht
  -- the first simplify's trace is a prefix of the final one
  have hfinal : TraceGood P (simplifyT R fuel
      (lowerCompletely R fuel (rewrite R fuel (simplifyT R fuel e []).1.expr).expr).expr
      (simplifyT R fuel e []).2).2 := by
    split at ht
    · exact ht
    · exact ht
  have hfirst : TraceGood P (simplifyT R fuel e []).2 :=
    fun f hf => hfinal f (simplifyT_trace_mono R fuel _ _ f hf)
  have h123 := Ref.trans (hlow _) (Ref.trans (hrw _) (simplifyT_sound S R P hR fuel e [] hfirst))
  have h4 := Ref.trans (simplifyT_sound S R P hR fuel _ _ hfinal) h123
  split
  · exact h4
  · exact Ref.trans (hR.fuse_ok _) h4

end Dx
