/-
  Lemmas/SortedHead.lean — `Head(SortValues(f))` → `NFirst(f)`:
  the first `n` rows of the sorted frame are the first `n` rows of the sorted concatenation of the
  per-partition `n`-firsts (tree reduction with chunk = aggregate = "sort, take n").

  `le` is a total, transitive, antisymmetric order on rows (ties between different rows are not ordered
  by the real sort either: pandas' default `sort_values` is not stable).  Under such an order every
  sorting function returns the same list (`sort_unique`), so the statements hold for pandas' sort as well
  as for `List.mergeSort`.
-/
namespace Dx.SortedHead
open List

variable {α : Type}

structure TotalOrder (le : α → α → Bool) : Prop where
  trans : ∀ a b c, le a b = true → le b c = true → le a c = true
  total : ∀ a b, (le a b || le b a) = true
  antisymm : ∀ a b, le a b = true → le b a = true → a = b

/-- the first `n` rows in sorted order -/
def topN (le : α → α → Bool) (n : Nat) (l : List α) : List α := (l.mergeSort le).take n

theorem sorted_sort {le : α → α → Bool} (h : TotalOrder le) (l : List α) :
    (l.mergeSort le).Pairwise (fun a b => le a b = true) :=
  pairwise_mergeSort h.trans h.total l

/-- two sorted permutations of each other are equal -/
theorem sorted_perm_eq {le : α → α → Bool} (h : TotalOrder le) {l₁ l₂ : List α}
    (h₁ : l₁.Pairwise (fun a b => le a b = true)) (h₂ : l₂.Pairwise (fun a b => le a b = true))
    (hp : l₁.Perm l₂) : l₁ = l₂ :=
  Perm.eq_of_pairwise (le := fun a b => le a b = true) (fun a b _ _ => h.antisymm a b) h₁ h₂ hp

/-- any function returning a sorted permutation is `mergeSort` -/
theorem sort_unique {le : α → α → Bool} (h : TotalOrder le) (sort' : List α → List α)
    (hs : ∀ l, (sort' l).Pairwise (fun a b => le a b = true) ∧ (sort' l).Perm l) (l : List α) :
    sort' l = l.mergeSort le :=
  sorted_perm_eq h (hs l).1 (sorted_sort h l) ((hs l).2.trans (mergeSort_perm l le).symm)

theorem sort_perm_eq {le : α → α → Bool} (h : TotalOrder le) {l₁ l₂ : List α} (hp : l₁.Perm l₂) :
    l₁.mergeSort le = l₂.mergeSort le :=
  sorted_perm_eq h (sorted_sort h l₁) (sorted_sort h l₂)
    ((mergeSort_perm l₁ le).trans (hp.trans (mergeSort_perm l₂ le).symm))

theorem sort_append_eq_merge {le : α → α → Bool} (h : TotalOrder le) (a b : List α) :
    (a ++ b).mergeSort le = merge (a.mergeSort le) (b.mergeSort le) le := by
  apply sorted_perm_eq h (sorted_sort h _)
    (pairwise_merge h.trans h.total _ _ (sorted_sort h a) (sorted_sort h b))
  refine (mergeSort_perm _ le).trans (Perm.trans ?_ (merge_perm_append (le := le)).symm)
  exact ((mergeSort_perm a le).append (mergeSort_perm b le)).symm

/-- only the first `n` elements of the left operand matter for the first `n` elements of a merge -/
theorem take_merge_take (le : α → α → Bool) : ∀ (n m : Nat) (U V : List α), n ≤ m →
    (merge (U.take m) V le).take n = (merge U V le).take n := by
  intro n
  induction n with
  | zero => intro m U V _; simp
  | succ n ih =>
    intro m U V hm
    obtain ⟨m', rfl⟩ : ∃ m', m = m' + 1 := ⟨m - 1, by omega⟩
    induction V generalizing U with
    | nil =>
      simp only [merge_right]
      rw [List.take_take]
      congr 1
      omega
    | cons v V' ihV =>
      cases U with
      | nil => simp
      | cons u U' =>
        rw [List.take_succ_cons, cons_merge_cons, cons_merge_cons]
        by_cases huv : le u v = true
        · simp only [huv, if_true, List.take_succ_cons]
          rw [ih m' U' (v :: V') (by omega)]
        · simp only [huv, Bool.false_eq_true, if_false, List.take_succ_cons]
          have := ih (m' + 1) (u :: U') V' (by omega)
          rw [List.take_succ_cons] at this
          rw [this]

/-- **Lemma A**: replacing a prefix operand by its own `n`-firsts does not change the `n`-firsts -/
theorem topN_append_left {le : α → α → Bool} (h : TotalOrder le) (n : Nat) (a b : List α) :
    topN le n (a ++ b) = topN le n (topN le n a ++ b) := by
  unfold topN
  rw [sort_append_eq_merge h a b, ← take_merge_take le n n _ _ (Nat.le_refl n)]
  congr 1
  symm
  have hs : ((a.mergeSort le).take n).Pairwise (fun a b => le a b = true) :=
    (sorted_sort h a).sublist (List.take_sublist _ _)
  apply sorted_perm_eq h (sorted_sort h _) (pairwise_merge h.trans h.total _ _ hs (sorted_sort h b))
  refine (mergeSort_perm _ le).trans (Perm.trans ?_ (merge_perm_append (le := le)).symm)
  exact (Perm.refl _).append (mergeSort_perm b le).symm

theorem topN_perm {le : α → α → Bool} (h : TotalOrder le) (n : Nat) {l₁ l₂ : List α} (hp : l₁.Perm l₂) :
    topN le n l₁ = topN le n l₂ := by
  unfold topN; rw [sort_perm_eq h hp]

/-- generalised statement (with rows `extra` carried along) proved by induction over the partitions -/
theorem topN_flatten_aux {le : α → α → Bool} (h : TotalOrder le) (n : Nat) : ∀ (parts : List (List α)) (extra : List α),
    topN le n (parts.flatten ++ extra) = topN le n (parts.flatMap (topN le n) ++ extra) := by
  intro parts
  induction parts with
  | nil => intro extra; rfl
  | cons p ps ih =>
    intro extra
    rw [List.flatten_cons, List.append_assoc, topN_append_left h n p]
    have e1 : (topN le n p ++ (ps.flatten ++ extra)).Perm (ps.flatten ++ (extra ++ topN le n p)) := by
      rw [← List.append_assoc ps.flatten]
      exact List.perm_append_comm
    rw [topN_perm h n e1, ih (extra ++ topN le n p)]
    apply topN_perm h n
    rw [List.flatMap_cons, List.append_assoc, ← List.append_assoc (ps.flatMap _)]
    exact List.perm_append_comm

/-- **Sorted head**: `take n (sort rows) = take n (sort (flatMap (take n ∘ sort) parts))` -/
theorem topN_flatten {le : α → α → Bool} (h : TotalOrder le) (n : Nat) (parts : List (List α)) :
    topN le n parts.flatten = topN le n (parts.flatMap (topN le n)) := by
  have := topN_flatten_aux h n parts []
  simpa using this

/-- tree reduction: the aggregate of aggregates is the aggregate (combine step of `NFirst`) -/
theorem topN_idem {le : α → α → Bool} (h : TotalOrder le) (n : Nat) (l : List α) :
    topN le n (topN le n l) = topN le n l := by
  have := topN_append_left h n l []
  simpa using this.symm

theorem natLe_total : TotalOrder (fun (a b : Nat) => decide (a ≤ b)) :=
  ⟨fun a b c h1 h2 => by simp at *; omega, fun a b => by simp; omega, fun a b h1 h2 => by simp at *; omega⟩

end Dx.SortedHead
