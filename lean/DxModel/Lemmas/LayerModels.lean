/-
  Lemmas/LayerModels.lean — `LayerWF` (LayerOK.lean) of the layer models that have internal keys:
  Gather (Lengths, SeriesQuantile*), CumG (GroupByCumulativeFinalizer), Blockwise, CumulativeFinalize,
  CreateOverlappingPartitions, TreeReduce, BroadcastJoin, Simple/Task/DiskShuffle.
  For the models whose `Closed`/`Ranked` are already proven (Lemmas/{Blockwise,Cumulative,Overlap,TreeReduce,
  Knobs,ShuffleWF}.lean) only what `LayerWF` adds is proven here: references into a dependency stay below its
  partition count, the layer defines exactly the output keys `(name, i)`, `i < npartitions`, and no key of a
  dependency.
-/
import DxModel.LayerOK
import DxModel.Layers.Gather
import DxModel.Lemmas.Blockwise
import DxModel.Lemmas.Cumulative
import DxModel.Lemmas.Overlap
import DxModel.Lemmas.TreeReduce
import DxModel.Lemmas.Knobs
import DxModel.Lemmas.ShuffleWF
namespace Dx

/-- from the classical pair `Closed` (over inputs that are dependency keys) / `Ranked` to `LayerWF`:
    what remains is the bound on references into dependencies and the bookkeeping of output keys -/
theorem LayerWF.ofClosedRanked {κ} {L : LSpec κ} {depN : List Nat} (inp : κ → Option V)
    (hinp : ∀ k, (inp k).isSome → (L.depOf k).isSome)
    (hc : Closed L.task inp)
    (hb : ∀ k t, L.task k = some t → ∀ r ∈ t.refs, ∀ d i, L.depOf r = some (d, i) →
        ∃ nd, depN[d]? = some nd ∧ i < nd)
    (hr : Ranked L.task L.rank)
    (out_idx : ∀ i, i < L.nout → L.outIdx (L.out i) = some i)
    (outs_defined : ∀ i, i < L.nout → (L.task (L.out i)).isSome)
    (outs_exact : ∀ k i, (L.task k).isSome → L.outIdx k = some i → i < L.nout ∧ k = L.out i)
    (own : ∀ k, (L.task k).isSome → L.depOf k = none)
    (bounded : ∀ k, (L.task k).isSome → L.rank k ≤ L.bound) : LayerWF L depN where
  out_idx := out_idx
  outs_defined := outs_defined
  outs_exact := outs_exact
  own := own
  closed := by
    intro k t hk r hr'
    rcases hc k t hk r hr' with h | h
    · exact Or.inl h
    · right
      have := hinp r h
      cases hd : L.depOf r with
      | none => simp [hd] at this
      | some p =>
        obtain ⟨d, i⟩ := p
        obtain ⟨nd, h1, h2⟩ := hb k t hk r hr' d i hd
        exact ⟨d, i, nd, rfl, h1, h2⟩
  ranked := hr
  bounded := bounded

/-! ### Gather: Lengths, SeriesQuantileTdigest, SeriesQuantileDask -/
namespace Gather

def spec (n : Nat) : LSpec Key :=
  { task := layer n
    nout := 1
    out := fun _ => .out
    outIdx := fun k => match k with | .out => some 0 | _ => none
    depOf := fun k => match k with | .dep i => some (0, i) | _ => none
    rank := fun k => match k with | .dep _ => 0 | .aux _ => 1 | .out => 2
    bound := 2 }

theorem gather_wf (n : Nat) : LayerWF (spec n) [n] where
  out_idx := by
    intro i hi
    have : i = 0 := by simp only [spec] at hi; omega
    subst this; rfl
  outs_defined := by intro i _; simp [spec, layer]
  outs_exact := by
    intro k i hk hidx
    cases k <;> simp [spec] at hidx
    subst hidx
    exact ⟨by simp [spec], rfl⟩
  own := by intro k hk; cases k <;> simp [spec, layer] at hk ⊢
  closed := by
    intro k t hk r hr
    cases k with
    | dep i => simp [spec, layer] at hk
    | aux i =>
      simp only [spec, layer] at hk
      split at hk
      · rename_i hi
        cases hk
        simp only [Tsk.refs, List.mem_singleton] at hr
        subst hr
        right; exact ⟨0, i, n, rfl, rfl, hi⟩
      · cases hk
    | out =>
      simp only [spec, layer, Option.some.injEq] at hk
      subst hk
      simp only [Tsk.refs, List.mem_map, List.mem_range] at hr
      obtain ⟨i, hi, rfl⟩ := hr
      left; simp [spec, layer, hi]
  ranked := by
    intro k t hk r hr _
    cases k with
    | dep i => simp [spec, layer] at hk
    | aux i =>
      simp only [spec, layer] at hk
      split at hk
      · cases hk
        simp only [Tsk.refs, List.mem_singleton] at hr
        subst hr; simp [spec]
      · cases hk
    | out =>
      simp only [spec, layer, Option.some.injEq] at hk
      subst hk
      simp only [Tsk.refs, List.mem_map, List.mem_range] at hr
      obtain ⟨i, _, rfl⟩ := hr
      simp [spec]
  bounded := by intro k _; cases k <;> simp [spec]

theorem gather_listed (n : Nat) : Listed (spec n) (keys n) := by
  intro k
  cases k with
  | dep i => simp [spec, layer, keys]
  | aux i => simp [spec, layer, keys]
  | out => simp [spec, layer, keys]

end Gather

/-! ### CumG: GroupByCumulativeFinalizer -/
namespace CumG

def spec (p : Params) : LSpec Key :=
  { task := layer p
    nout := p.n
    out := Key.out
    outIdx := fun k => match k with | .out i => some i | _ => none
    depOf := fun k => match k with | .dep d i => some (d, i) | _ => none
    rank := fun k => match k with | .dep _ _ => 0 | .inter i => i | .out i => i + 1
    bound := p.n + 1 }

/-- what the layer needs of its dependencies: `frame` has `n` partitions, `cum_raw` at least one,
    `cum_last` at least `n - 1` -/
def DepsOK (p : Params) (depN : List Nat) : Prop :=
  (∃ nF, depN[p.dF]? = some nF ∧ p.n ≤ nF) ∧ (∃ nR, depN[p.dR]? = some nR ∧ 1 ≤ nR) ∧
  (∃ nL, depN[p.dL]? = some nL ∧ p.n ≤ nL + 1)

theorem layer_isSome_out (p : Params) (hn : 1 ≤ p.n) (i : Nat) : (layer p (.out i)).isSome ↔ i < p.n := by
  cases i with
  | zero => simp [layer]; omega
  | succ i => simp only [layer]; split <;> simp_all

theorem layer_isSome_inter (p : Params) (i : Nat) : (layer p (.inter i)).isSome ↔ 1 ≤ i ∧ i < p.n := by
  cases i with
  | zero => simp [layer]
  | succ i =>
    cases i with
    | zero => simp only [layer]; split <;> simp_all
    | succ i => simp only [layer]; split <;> simp_all

theorem cumg_wf (p : Params) (depN : List Nat) (hn : 1 ≤ p.n) (hd : DepsOK p depN) : LayerWF (spec p) depN where
  out_idx := by intro i _; rfl
  outs_defined := by intro i hi; exact (layer_isSome_out p hn i).mpr hi
  outs_exact := by
    intro k i hk hidx
    cases k <;> simp [spec] at hidx
    subst hidx
    exact ⟨(layer_isSome_out p hn _).mp hk, rfl⟩
  own := by intro k hk; cases k <;> simp [spec, layer] at hk ⊢
  closed := by
    obtain ⟨⟨nF, hF1, hF2⟩, ⟨nR, hR1, hR2⟩, ⟨nL, hL1, hL2⟩⟩ := hd
    intro k t hk r hr
    cases k with
    | dep d i => simp [spec, layer] at hk
    | out i =>
      cases i with
      | zero =>
        simp only [spec, layer, Option.some.injEq] at hk
        subst hk
        simp only [Tsk.refs, List.mem_singleton] at hr
        subst hr
        right; exact ⟨p.dR, 0, nR, rfl, hR1, by omega⟩
      | succ i =>
        simp only [spec, layer] at hk
        split at hk
        · rename_i hi
          cases hk
          simp only [Tsk.refs, List.mem_cons, List.mem_nil_iff, or_false] at hr
          rcases hr with rfl | rfl
          · right; exact ⟨p.dF, i + 1, nF, rfl, hF1, by omega⟩
          · left; exact (layer_isSome_inter p (i+1)).mpr ⟨by omega, hi⟩
        · cases hk
    | inter i =>
      cases i with
      | zero => simp [spec, layer] at hk
      | succ i =>
        cases i with
        | zero =>
          simp only [spec, layer] at hk
          split at hk
          · cases hk
            simp only [Tsk.refs, List.mem_singleton] at hr
            subst hr
            right; exact ⟨p.dL, 0, nL, rfl, hL1, by omega⟩
          · cases hk
        | succ i =>
          simp only [spec, layer] at hk
          split at hk
          · rename_i hi
            cases hk
            simp only [Tsk.refs, List.mem_cons, List.mem_nil_iff, or_false] at hr
            rcases hr with rfl | rfl
            · left; exact (layer_isSome_inter p (i+1)).mpr ⟨by omega, by omega⟩
            · right; exact ⟨p.dL, i + 1, nL, rfl, hL1, by omega⟩
          · cases hk
  ranked := by
    intro k t hk r hr _
    cases k with
    | dep d i => simp [spec, layer] at hk
    | out i =>
      cases i with
      | zero =>
        simp only [spec, layer, Option.some.injEq] at hk
        subst hk
        simp only [Tsk.refs, List.mem_singleton] at hr
        subst hr; simp [spec]
      | succ i =>
        simp only [spec, layer] at hk
        split at hk
        · cases hk
          simp only [Tsk.refs, List.mem_cons, List.mem_nil_iff, or_false] at hr
          rcases hr with rfl | rfl <;> simp [spec]
        · cases hk
    | inter i =>
      cases i with
      | zero => simp [spec, layer] at hk
      | succ i =>
        cases i with
        | zero =>
          simp only [spec, layer] at hk
          split at hk
          · cases hk
            simp only [Tsk.refs, List.mem_singleton] at hr
            subst hr; simp [spec]
          · cases hk
        | succ i =>
          simp only [spec, layer] at hk
          split at hk
          · cases hk
            simp only [Tsk.refs, List.mem_cons, List.mem_nil_iff, or_false] at hr
            rcases hr with rfl | rfl <;> simp [spec]
          · cases hk
  bounded := by
    intro k hk
    cases k with
    | dep d i => simp [spec, layer] at hk
    | out i => have := (layer_isSome_out p hn i).mp hk; simp only [spec]; omega
    | inter i => have := (layer_isSome_inter p i).mp hk; simp only [spec]; omega

end CumG

/-! ### Blockwise (`Blockwise._task` / `_blockwise_arg` / `_broadcast_dep`, the default `Expr._layer`) -/
namespace Blockwise

def spec (p : Params) : LSpec Key :=
  { task := layer p
    nout := p.n
    out := Key.out
    outIdx := fun k => match k with | .out i => some i | _ => none
    depOf := fun k => match k with | .dep d i => some (d, i) | _ => none
    rank := bwRank
    bound := 1 }

/-- the partition count an operand carries is the one of the dependency it names -/
def ArgsOK (p : Params) (depN : List Nat) : Prop :=
  ∀ d np nd, Arg.expr d np nd ∈ p.args → depN[d]? = some np

/-- under what `Blockwise._divisions` asserts (`WF`: a non-broadcast dependency is partitioned like `self`) -/
theorem bw_wf (p : Params) (depN : List Nat) (hwf : WF p) (ha : ArgsOK p depN) : LayerWF (spec p) depN := by
  refine LayerWF.ofClosedRanked (inputs (fun _ _ => .unit)) ?_ (bw_closed p _) ?_ (bw_ranked p) ?_ ?_ ?_ ?_ ?_
  · intro k hk; cases k <;> simp [inputs, spec] at hk ⊢
  · intro k t hk r hr d i hd
    cases k with
    | dep _ _ => cases hk
    | out j =>
      simp only [spec, layer] at hk
      split at hk
      · rename_i hj
        cases hk
        simp only [Tsk.refs, List.mem_filterMap] at hr
        obtain ⟨a, hmem, hak⟩ := hr
        cases a with
        | lit s => cases hak
        | expr d' np nd =>
          simp only [argKey, Option.some.injEq] at hak
          subst hak
          simp only [spec, Option.some.injEq, Prod.mk.injEq] at hd
          obtain ⟨rfl, rfl⟩ := hd
          refine ⟨np, ha d' np nd hmem, ?_⟩
          cases hb : broadcastDep p np nd with
          | true =>
            simp only [broadcastDep, Bool.and_eq_true, beq_iff_eq] at hb
            simp only [if_true]; omega
          | false =>
            have := hwf d' np nd hmem hb
            simp only [Bool.false_eq_true, if_false]; omega
      · cases hk
  · intro i _; rfl
  · intro i hi; have hi' : i < p.n := hi; simp [spec, layer, hi']
  · intro k i hk hidx
    cases k <;> simp [spec] at hidx
    subst hidx
    simp only [spec, layer] at hk
    split at hk
    · rename_i h; exact ⟨h, rfl⟩
    · cases hk
  · intro k hk; cases k <;> simp [spec, layer] at hk ⊢
  · intro k _; cases k <;> simp [spec, bwRank]

end Blockwise

/-! ### CumulativeFinalize -/
namespace Cum

def spec (n : Nat) : LSpec Key :=
  { task := layer n
    nout := n
    out := Key.out
    outIdx := fun k => match k with | .out i => some i | _ => none
    depOf := fun k => match k with | .dep i => some (0, i) | .prev i => some (1, i) | _ => none
    rank := cumRank
    bound := n + 1 }

theorem cum_isSome_out (n : Nat) (hn : 1 ≤ n) (i : Nat) : (layer n (.out i)).isSome ↔ i < n := by
  cases i with
  | zero => simp [layer]; omega
  | succ i => simp only [layer]; split <;> simp_all

theorem cum_isSome_inter (n : Nat) (i : Nat) : (layer n (.inter i)).isSome ↔ 1 ≤ i ∧ i < n := by
  cases i with
  | zero => simp [layer]
  | succ i =>
    cases i with
    | zero => simp only [layer]; split <;> simp_all
    | succ i => simp only [layer]; split <;> simp_all

/-- `frame` (the CumulativeBlockwise stage) and `previous_partitions` (TakeLast) both have `n` partitions -/
theorem cum_wf (n : Nat) (hn : 1 ≤ n) : LayerWF (spec n) [n, n] := by
  refine LayerWF.ofClosedRanked (inputs (· + ·) (fun _ => [])) ?_ (cum_closed _ n _) ?_ (cum_ranked n) ?_ ?_ ?_ ?_ ?_
  · intro k hk; cases k <;> simp [inputs, spec] at hk ⊢
  · intro k t hk r hr d i hd
    cases k with
    | dep _ => cases hk
    | prev _ => cases hk
    | out j =>
      cases j with
      | zero =>
        simp only [spec, layer, Option.some.injEq] at hk
        subst hk
        simp only [Tsk.refs, List.mem_singleton] at hr
        subst hr
        simp only [spec, Option.some.injEq, Prod.mk.injEq] at hd
        obtain ⟨rfl, rfl⟩ := hd
        exact ⟨n, rfl, by omega⟩
      | succ j =>
        simp only [spec, layer] at hk
        split at hk
        · rename_i hj
          cases hk
          simp only [Tsk.refs, List.mem_cons, List.mem_nil_iff, or_false] at hr
          rcases hr with rfl | rfl
          · simp only [spec, Option.some.injEq, Prod.mk.injEq] at hd
            obtain ⟨rfl, rfl⟩ := hd
            exact ⟨n, rfl, hj⟩
          · simp [spec] at hd
        · cases hk
    | inter j =>
      cases j with
      | zero => cases hk
      | succ j =>
        cases j with
        | zero =>
          simp only [spec, layer] at hk
          split at hk
          · cases hk
            simp only [Tsk.refs, List.mem_singleton] at hr
            subst hr
            simp only [spec, Option.some.injEq, Prod.mk.injEq] at hd
            obtain ⟨rfl, rfl⟩ := hd
            exact ⟨n, rfl, by omega⟩
          · cases hk
        | succ j =>
          simp only [spec, layer] at hk
          split at hk
          · rename_i hj
            cases hk
            simp only [Tsk.refs, List.mem_cons, List.mem_nil_iff, or_false] at hr
            rcases hr with rfl | rfl
            · simp [spec] at hd
            · simp only [spec, Option.some.injEq, Prod.mk.injEq] at hd
              obtain ⟨rfl, rfl⟩ := hd
              exact ⟨n, rfl, by omega⟩
          · cases hk
  · intro i _; rfl
  · intro i hi; exact (cum_isSome_out n hn i).mpr hi
  · intro k i hk hidx
    cases k <;> simp [spec] at hidx
    subst hidx
    exact ⟨(cum_isSome_out n hn _).mp hk, rfl⟩
  · intro k hk; cases k <;> simp [spec, layer] at hk ⊢
  · intro k hk
    cases k with
    | dep _ => simp [spec, layer] at hk
    | prev _ => simp [spec, layer] at hk
    | out i => have := (cum_isSome_out n hn i).mp hk; simp only [spec, cumRank]; omega
    | inter i => have := (cum_isSome_inter n i).mp hk; simp only [spec, cumRank]; omega

end Cum

/-! ### restriction of a closed, ranked graph to the keys below a rank -/

def belowRank {κ} (g : Graph κ) (rank : κ → Nat) (b : Nat) : Graph κ := fun k => if rank k ≤ b then g k else none

theorem belowRank_closed {κ} {g : Graph κ} {inp : κ → Option V} {rank : κ → Nat} (b : Nat)
    (hc : Closed g inp) (hr : Ranked g rank) : Closed (belowRank g rank b) inp := by
  intro k t hk r hrr
  simp only [belowRank] at hk
  split at hk
  · rename_i hle
    rcases hc k t hk r hrr with h | h
    · left
      have := hr k t hk r hrr h
      simp only [belowRank]
      rw [if_pos (by omega)]; exact h
    · exact Or.inr h
  · cases hk

theorem belowRank_ranked {κ} {g : Graph κ} {rank : κ → Nat} (b : Nat) (hr : Ranked g rank) :
    Ranked (belowRank g rank b) rank := by
  intro k t hk r hrr hdef
  simp only [belowRank] at hk hdef
  split at hk
  · split at hdef
    · exact hr k t hk r hrr hdef
    · cases hdef
  · cases hk

/-! ### CreateOverlappingPartitions (integer windows).  `Overlap.layer` also carries the `_overlap_chunk`
    stage (`res`, rank 3) of the MapPartitions expression above it; the layer of the expression itself is the
    part of rank ≤ 2. -/
namespace Overlap

def ownLayer (p : Params) : Graph Key := belowRank (layer p) ovRank 2

def spec (p : Params) : LSpec Key :=
  { task := ownLayer p
    nout := p.n
    out := Key.out
    outIdx := fun k => match k with | .out i => some i | _ => none
    depOf := fun k => match k with | .dep i => some (0, i) | _ => none
    rank := ovRank
    bound := 2 }

theorem ownLayer_out (p : Params) (i : Nat) : ownLayer p (.out i) = layer p (.out i) := by
  simp [ownLayer, belowRank, ovRank]

theorem ownLayer_prep (p : Params) (i : Nat) : ownLayer p (.prep i) = layer p (.prep i) := by
  simp [ownLayer, belowRank, ovRank]

theorem ownLayer_app (p : Params) (i : Nat) : ownLayer p (.app i) = layer p (.app i) := by
  simp [ownLayer, belowRank, ovRank]

theorem ov_wf (p : Params) (hn : 1 ≤ p.n) : LayerWF (spec p) [p.n] := by
  refine LayerWF.ofClosedRanked (inputs (fun _ => [])) ?_ (belowRank_closed 2 (ov_closed p _) (ov_ranked p)) ?_
    (belowRank_ranked 2 (ov_ranked p)) ?_ ?_ ?_ ?_ ?_
  · intro k hk; cases k <;> simp [inputs, spec] at hk ⊢
  · intro k t hk r hr d i hd
    cases r <;> simp [spec] at hd
    obtain ⟨rfl, rfl⟩ := hd
    refine ⟨p.n, rfl, ?_⟩
    cases k with
    | dep j => simp [spec, ownLayer, belowRank, layer] at hk
    | res j => simp [spec, ownLayer, belowRank, ovRank] at hk
    | prep j =>
      rw [show (spec p).task = ownLayer p from rfl, ownLayer_prep] at hk
      simp only [layer] at hk
      split at hk
      · rename_i h; cases hk
        simp only [Tsk.refs, List.mem_singleton, Key.dep.injEq] at hr
        omega
      · cases hk
    | app j =>
      rw [show (spec p).task = ownLayer p from rfl, ownLayer_app] at hk
      simp only [layer] at hk
      split at hk
      · rename_i h; cases hk
        simp only [Tsk.refs, List.mem_singleton, Key.dep.injEq] at hr
        omega
      · cases hk
    | out j =>
      rw [show (spec p).task = ownLayer p from rfl, ownLayer_out] at hk
      simp only [layer] at hk
      split at hk
      · rename_i h
        rw [lenPrevs_eq p hn] at h
        cases hk
        simp only [Tsk.refs, List.mem_append, List.mem_singleton, mem_optKey] at hr
        rcases hr with (hr | hr) | hr
        · unfold prevKey at hr
          split at hr
          · cases j <;> simp at hr
          · cases hr
        · cases hr; exact h.1
        · unfold nextKey at hr
          split at hr
          · split at hr <;> simp at hr
          · cases hr
      · cases hk
  · intro i _; rfl
  · intro i hi
    have hi' : i < p.n := hi
    show (ownLayer p (.out i)).isSome
    rw [ownLayer_out]
    simp [layer, lenPrevs_eq p hn, lenNexts_eq p hn, hi']
  · intro k i hk hidx
    cases k <;> simp [spec] at hidx
    subst hidx
    rw [show (spec p).task = ownLayer p from rfl, ownLayer_out] at hk
    simp only [layer] at hk
    split at hk
    · rename_i h; rw [lenPrevs_eq p hn] at h; exact ⟨h.1, rfl⟩
    · cases hk
  · intro k hk; cases k <;> simp [spec, ownLayer, belowRank, layer] at hk ⊢
  · intro k hk
    simp only [spec, ownLayer, belowRank] at hk ⊢
    split at hk
    · assumption
    · cases hk

end Overlap

/-! ### TreeReduce -/
namespace Tree

def spec (p : Params) : LSpec Key :=
  { task := layer p
    nout := 1
    out := fun _ => .out
    outIdx := fun k => match k with | .out => some 0 | _ => none
    depOf := fun k => match k with | .dep i => some (0, i) | _ => none
    rank := treeRank p.n
    bound := p.n + 1 }

/-- the chunk results of the first `n` partitions only -/
def boundedInputs (n : Nat) : Key → Option V
  | .dep i => if i < n then some .unit else none
  | _ => none

/-- `tree_closed` over inputs that exist: no reference to a partition `≥ n` of the frame -/
theorem tree_closed_bounded (p : Params) : Closed (layer p) (boundedInputs p.n) := by
  intro q t h d hd
  have hdeps : ∀ d ∈ depKeys p.n, ((layer p) d).isSome ∨ ((boundedInputs p.n) d).isSome := by
    intro d hd
    simp only [depKeys, List.mem_map, List.mem_range] at hd
    obtain ⟨i, hi, rfl⟩ := hd
    right; simp [boundedInputs, hi]
  cases hse : p.splitEvery with
  | none =>
    simp only [layer, hse] at h
    cases q <;> simp [final] at h
    subst h
    exact hdeps d hd
  | some k =>
    refine loop_closed p k (boundedInputs p.n) (layer p) p.n 1 (depKeys p.n) ?_ hdeps q t ?_ d hd
    · intro q _; simp only [layer, hse]
    · simpa only [layer, hse] using h

theorem layer_out_isSome (p : Params) : (layer p .out).isSome := by
  have key : ∀ f j keys, (graphLoop p (p.splitEvery.getD 0) f j keys .out).isSome := by
    intro f
    induction f with
    | zero => intro j keys; simp [graphLoop, final]
    | succ f ih =>
      intro j keys
      simp only [graphLoop]
      split
      · exact ih _ _
      · simp [final]
  unfold layer
  cases hse : p.splitEvery with
  | none => simp [final]
  | some k => simpa [hse] using key p.n 1 (depKeys p.n)

theorem rank_le (p : Params) (q : Key) (h : (layer p q).isSome) :
    treeRank p.n q ≤ p.n + 1 := by
  cases q with
  | dep i => simp [treeRank]
  | out => simp [treeRank]
  | node j i =>
    -- a node of level j is referenced (transitively) by `.out`, whose rank is n + 1; it suffices that some task
    -- refers to it — but simpler: levels are numbered from 1 and the loop runs at most n times
    have key : ∀ f j0 keys, (graphLoop p (p.splitEvery.getD 0) f j0 keys (.node j i)).isSome → j < j0 + f := by
      intro f
      induction f with
      | zero => intro j0 keys h; simp [graphLoop, final] at h
      | succ f ih =>
        intro j0 keys h
        simp only [graphLoop] at h
        split at h
        · split at h
          · rename_i hj; omega
          · have := ih _ _ h; omega
        · simp [final] at h
    unfold layer at h
    cases hs : p.splitEvery with
    | none => simp [hs, final] at h
    | some k =>
      have := key p.n 1 (depKeys p.n) (by simpa [hs] using h)
      simp only [treeRank]; omega

theorem tree_wf (p : Params) : LayerWF (spec p) [p.n] := by
  refine LayerWF.ofClosedRanked (boundedInputs p.n) ?_ (tree_closed_bounded p) ?_ (tree_ranked p) ?_ ?_ ?_ ?_ ?_
  · intro k hk; cases k <;> simp [boundedInputs, spec] at hk ⊢
  · intro k t hk r hr d i hd
    cases r <;> simp [spec] at hd
    obtain ⟨rfl, rfl⟩ := hd
    rename_i j
    refine ⟨p.n, rfl, ?_⟩
    rcases tree_closed_bounded p k t hk (.dep j) hr with h | h
    · rw [layer_dep_none] at h; cases h
    · simp only [boundedInputs] at h
      split at h
      · assumption
      · cases h
  · intro i hi
    have : i = 0 := by simp only [spec] at hi; omega
    subst this; rfl
  · intro i _; exact layer_out_isSome p
  · intro k i _ hidx
    cases k <;> simp [spec] at hidx
    subst hidx
    exact ⟨by simp [spec], rfl⟩
  · intro k hk
    cases k with
    | dep i => rw [show (spec p).task = layer p from rfl, layer_dep_none] at hk; cases hk
    | node _ _ => rfl
    | out => rfl
  · intro k hk; exact rank_le p k hk

end Tree

/-! ### BroadcastJoin.  The output keys are `(name, part_out)` for `part_out in self._partitions`, while
    `__dask_keys__` asks for `(name, i)`, `i < len(_partitions)`: the layer defines exactly its output keys only
    for the unfiltered expression (`parts = range n`) — see `bj_filtered_counterexample` (finding D66). -/
namespace KJ

def otherDep (p : Params) : Nat := if p.side = .left then 1 else 0
def bcDep (p : Params) : Nat := if p.side = .left then 0 else 1

def spec (p : Params) : LSpec Key :=
  { task := layer p
    nout := p.parts.length
    out := Key.out
    outIdx := fun k => match k with | .out i => some i | _ => none
    depOf := fun k => match k with | .other i => some (otherDep p, i) | .bc j => some (bcDep p, j) | _ => none
    rank := bjRank
    bound := 3 }

/-- `dependencies() = [left, right]` -/
def depN (p : Params) (nother : Nat) : List Nat := if p.side = .left then [p.bsize, nother] else [nother, p.bsize]

theorem depN_other (p : Params) (nother : Nat) : (depN p nother)[otherDep p]? = some nother := by
  unfold depN otherDep; split <;> simp

theorem depN_bc (p : Params) (nother : Nat) : (depN p nother)[bcDep p]? = some p.bsize := by
  unfold depN bcDep; split <;> simp

theorem bj_wf (p : Params) (n : Nat) (hP : p.parts = List.range n) : LayerWF (spec p) (depN p n) := by
  have hmem : ∀ i, i ∈ p.parts ↔ i < n := by intro i; rw [hP]; exact List.mem_range
  have hlen : p.parts.length = n := by rw [hP]; simp
  refine LayerWF.ofClosedRanked (inputs (fun _ => []) (fun _ => [])) ?_ (bj_closed p _ _) ?_ (bj_ranked p) ?_ ?_ ?_ ?_ ?_
  · intro k hk; cases k <;> simp [inputs, spec] at hk ⊢
  · intro k t hk r hr d i hd
    cases k with
    | other _ => simp [spec, layer] at hk
    | bc _ => simp [spec, layer] at hk
    | split a =>
      simp only [spec, layer] at hk
      split at hk
      · rename_i h
        cases hk
        simp only [Tsk.refs, List.mem_singleton] at hr
        subst hr
        simp only [spec, Option.some.injEq, Prod.mk.injEq] at hd
        obtain ⟨rfl, rfl⟩ := hd
        exact ⟨n, depN_other p n, (hmem _).mp h.1⟩
      · cases hk
    | inter a j =>
      simp only [spec, layer] at hk
      split at hk
      · rename_i h
        have hr' : r = .bc j ∨ r = .split a ∨ r = .other a := by
          split at hk <;> cases hk <;> simp only [Tsk.refs] at hr <;> split at hr <;>
            simp only [List.mem_cons, List.not_mem_nil, or_false] at hr <;> rcases hr with rfl | rfl <;> simp
        rcases hr' with rfl | rfl | rfl
        · simp only [spec, Option.some.injEq, Prod.mk.injEq] at hd
          obtain ⟨rfl, rfl⟩ := hd
          exact ⟨p.bsize, depN_bc p n, h.2⟩
        · simp [spec] at hd
        · simp only [spec, Option.some.injEq, Prod.mk.injEq] at hd
          obtain ⟨rfl, rfl⟩ := hd
          exact ⟨n, depN_other p n, (hmem _).mp h.1⟩
      · cases hk
    | out a =>
      simp only [spec, layer] at hk
      split at hk
      · cases hk
        simp only [Tsk.refs, List.mem_map, List.mem_range] at hr
        obtain ⟨j, _, rfl⟩ := hr
        simp [spec] at hd
      · cases hk
  · intro i _; rfl
  · intro i hi
    have : i ∈ p.parts := (hmem i).mpr (by rw [← hlen]; exact hi)
    simp [spec, layer, this]
  · intro k i hk hidx
    cases k <;> simp [spec] at hidx
    subst hidx
    simp only [spec, layer] at hk
    split at hk
    · rename_i h; exact ⟨by show _ < p.parts.length; rw [hlen]; exact (hmem _).mp h, rfl⟩
    · cases hk
  · intro k hk; cases k <;> simp [spec, layer] at hk ⊢
  · intro k _; cases k <;> simp [spec, bjRank]

/-- D66: with the selection `_partitions = [2]` the requested key `(name, 0)` is not defined by the layer -/
theorem bj_filtered_counterexample :
    (layer { how := .inner, side := .right, parts := [2], bsize := 1 } (.out 0)).isSome = false := by decide

end KJ

/-! ### SimpleShuffle, DiskShuffle, staged TaskShuffle -/
namespace Shuffle

def outIdx : Key → Option Nat
  | .out .self j => some j
  | _ => none

def depOf : Key → Option (Nat × Nat)
  | .dep i => some (0, i)
  | _ => none

def simpleSpec (p : Params) : LSpec Key :=
  { task := simpleTask p, nout := p.parts.length, out := Key.out .self, outIdx := outIdx, depOf := depOf
    rank := simpleRank, bound := 2 }

theorem inputs_isSome (rows : Nat → List Row) (k : Key) (h : (inputs rows k).isSome) : (depOf k).isSome := by
  cases k <;> simp [inputs, depOf] at h ⊢

theorem simple_wf (p : Params) : LayerWF (simpleSpec p) [p.nin] := by
  refine LayerWF.ofClosedRanked (inputs (fun _ => [])) (inputs_isSome _) (simple_closed p _) ?_ (simple_ranked p)
    ?_ ?_ ?_ ?_ ?_
  · intro k t hk r hr d i hd
    cases r <;> simp [simpleSpec, depOf] at hd
    obtain ⟨rfl, rfl⟩ := hd
    refine ⟨p.nin, rfl, ?_⟩
    cases k with
    | out n j =>
      cases n with
      | self =>
        simp only [simpleSpec, simpleTask] at hk
        split at hk
        · cases hk; simp [Tsk.refs] at hr
        · cases hk
      | stage s => simp [simpleSpec, simpleTask] at hk
    | ssplit o a =>
      simp only [simpleSpec, simpleTask] at hk
      split at hk
      · cases hk; simp [Tsk.refs] at hr
      · cases hk
    | sgroup a =>
      simp only [simpleSpec, simpleTask] at hk
      split at hk
      · rename_i h; cases hk
        simp only [Tsk.refs, List.mem_singleton, Key.dep.injEq] at hr
        omega
      · cases hk
    | _ => simp [simpleSpec, simpleTask] at hk
  · intro i _; rfl
  · intro i hi
    have hi' : i < p.parts.length := hi
    simp [simpleSpec, simpleTask, hi']
  · intro k i hk hidx
    cases k <;> simp [simpleSpec, outIdx] at hidx
    rename_i n j
    cases n <;> simp at hidx
    subst hidx
    simp only [simpleSpec, simpleTask] at hk
    split at hk
    · rename_i h; exact ⟨h, rfl⟩
    · cases hk
  · intro k hk; cases k <;> simp [simpleSpec, simpleTask, depOf] at hk ⊢
  · intro k _; cases k <;> simp [simpleSpec, simpleRank]

def diskSpec (p : Params) : LSpec Key :=
  { task := diskTask p, nout := p.parts.length, out := Key.out .self, outIdx := outIdx, depOf := depOf
    rank := diskRank, bound := 3 }

theorem disk_wf (p : Params) : LayerWF (diskSpec p) [p.nin] := by
  refine LayerWF.ofClosedRanked (inputs (fun _ => [])) (inputs_isSome _) (disk_closed p _) ?_ (disk_ranked p)
    ?_ ?_ ?_ ?_ ?_
  · intro k t hk r hr d i hd
    cases r <;> simp [diskSpec, depOf] at hd
    obtain ⟨rfl, rfl⟩ := hd
    refine ⟨p.nin, rfl, ?_⟩
    cases k with
    | out n j =>
      cases n with
      | self =>
        simp only [diskSpec, diskTask] at hk
        split at hk
        · cases hk
          simp only [Tsk.refs, List.mem_cons, List.mem_map, List.mem_range, Key.dep.injEq, reduceCtorEq, false_or] at hr
          obtain ⟨a, ha, rfl⟩ := hr; exact ha
        · cases hk
      | stage s => simp [diskSpec, diskTask] at hk
    | dwrite a =>
      simp only [diskSpec, diskTask] at hk
      split at hk
      · rename_i h; cases hk
        simp only [Tsk.refs, List.mem_singleton, Key.dep.injEq] at hr
        omega
      · cases hk
    | barrier =>
      simp only [diskSpec, diskTask, Option.some.injEq] at hk
      subst hk
      simp [Tsk.refs] at hr
    | partd =>
      simp only [diskSpec, diskTask, Option.some.injEq] at hk
      subst hk
      simp [Tsk.refs] at hr
    | _ => simp [diskSpec, diskTask] at hk
  · intro i _; rfl
  · intro i hi
    have hi' : i < p.parts.length := hi
    simp [diskSpec, diskTask, hi']
  · intro k i hk hidx
    cases k <;> simp [diskSpec, outIdx] at hidx
    rename_i n j
    cases n <;> simp at hidx
    subst hidx
    simp only [diskSpec, diskTask] at hk
    split at hk
    · rename_i h; exact ⟨h, rfl⟩
    · cases hk
  · intro k hk; cases k <;> simp [diskSpec, diskTask, depOf] at hk ⊢
  · intro k _; cases k <;> simp [diskSpec, diskRank]


theorem staged_dep_bound (p : Params) (k : Key) (t : Tsk Key) (hk : stagedTask p k = some t) (i : Nat)
    (hr : Key.dep i ∈ t.refs) : i < p.nin := by
  cases k with
  | out n j =>
    simp only [stagedTask] at hk
    split at hk
    · split at hk
      · cases hk; simp [Tsk.refs] at hr
      · cases hk
    · split at hk
      · split at hk
        · cases hk; simp [Tsk.refs] at hr
        · cases hk
      · cases hk
  | split n idx inp =>
    simp only [stagedTask] at hk
    split at hk
    · split at hk
      · cases hk; simp [Tsk.refs] at hr
      · cases hk
    · cases hk
  | group n inp =>
    simp only [stagedTask] at hk
    split at hk
    · split at hk
      · cases hk
        simp only [Tsk.refs, List.mem_singleton] at hr
        split at hr
        · split at hr
          · rename_i h; cases hr; exact h
          · cases hr
        · cases hr
      · cases hk
    · cases hk
  | empty n inp =>
    simp only [stagedTask] at hk
    split at hk
    · split at hk
      · cases hk; simp [Tsk.refs] at hr
      · cases hk
    · cases hk
  | rgroup n a =>
    simp only [stagedTask] at hk
    split at hk
    · cases hk; simp [Tsk.refs] at hr
    · cases hk
  | _ => simp [stagedTask] at hk

def stagedSpec (p : Params) : LSpec Key :=
  { task := stagedTask p, nout := p.parts.length, out := Key.out .self, outIdx := outIdx, depOf := depOf
    rank := stagedRank p, bound := 4 * p.stages + 6 }

theorem staged_out_self (p : Params) (hst : 1 ≤ p.stages) (j : Nat) :
    (stagedTask p (.out .self j)).isSome ↔ j < p.parts.length := by
  simp only [stagedTask]
  cases hs : stageOf p .self with
  | some s =>
    simp only [stageOf] at hs
    split at hs
    · rename_i hc
      cases hs
      have hl : lastEq p (p.stages - 1) = true := hc.2
      simp only [partsOut, hl, if_true]
      split <;> simp_all
    · cases hs
  | none =>
    simp only [stageOf] at hs
    split at hs
    · cases hs
    · rename_i hc
      have hne : p.nout ≠ p.nin := by
        intro heq
        apply hc
        refine ⟨hst, ?_⟩
        simp only [lastEq, Bool.and_eq_true, beq_iff_eq]
        exact ⟨by omega, heq⟩
      simp only [hne, ne_eq, not_false_eq_true, and_self, if_true]
      split <;> simp_all

theorem stagedRank_le (p : Params) (k : Key) (h : (stagedTask p k).isSome) : stagedRank p k ≤ 4 * p.stages + 6 := by
  cases k with
  | out n j =>
    simp only [stagedRank]
    cases hs : stageOf p n with
    | some s => have := (stageOf_some p n s hs).2; simp only; omega
    | none => simp
  | split n idx inp =>
    simp only [stagedTask] at h
    cases hs : stageOf p n with
    | some s => have := (stageOf_some p n s hs).2; simp only [stagedRank, hs, Option.getD_some]; omega
    | none => simp [hs] at h
  | group n inp =>
    simp only [stagedTask] at h
    cases hs : stageOf p n with
    | some s => have := (stageOf_some p n s hs).2; simp only [stagedRank, hs, Option.getD_some]; omega
    | none => simp [hs] at h
  | empty n inp => simp only [stagedRank]; omega
  | rgroup n a => simp only [stagedRank]; omega
  | _ => simp [stagedRank]

/-- under the (T3-checked) hypothesis on the float stage arithmetic -/
theorem staged_wf (p : Params) (harith : stageArithOK p.nin p.stages p.nsplits = true) (hnin : 0 < p.nin) :
    LayerWF (stagedSpec p) [p.nin] := by
  have hst : 1 ≤ p.stages := by
    simp only [stageArithOK, Bool.and_eq_true, decide_eq_true_eq] at harith
    exact harith.1.1
  refine LayerWF.ofClosedRanked (inputs (fun _ => [])) (inputs_isSome _) (staged_closed p _ harith hnin) ?_
    (staged_ranked p) ?_ ?_ ?_ ?_ ?_
  · intro k t hk r hr d i hd
    cases r <;> simp [stagedSpec, depOf] at hd
    obtain ⟨rfl, rfl⟩ := hd
    exact ⟨p.nin, rfl, staged_dep_bound p k t hk _ hr⟩
  · intro i _; rfl
  · intro i hi; exact (staged_out_self p hst i).mpr hi
  · intro k i hk hidx
    cases k <;> simp [stagedSpec, outIdx] at hidx
    rename_i n j
    cases n <;> simp at hidx
    subst hidx
    exact ⟨(staged_out_self p hst _).mp hk, rfl⟩
  · intro k hk; cases k <;> simp [stagedSpec, stagedTask, depOf] at hk ⊢
  · intro k hk; exact stagedRank_le p k hk

end Shuffle
end Dx
