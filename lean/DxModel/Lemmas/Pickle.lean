/-
  Lemmas/Pickle.lean — reduce/reconstruct round trip by structural induction (incl. nested lists).
-/
import DxModel.Pickle
import DxModel.Lemmas.Cache
namespace Dx.Pickle
open Dx.Names

mutual
theorem roundtripE : ∀ e : PE, reconstruct (reduce e) = .sub (cold e)
  | .node c ops => by simp only [reduce, reconstruct, cold, roundtripOps ops]
theorem roundtripO : ∀ o : POp, reconstruct (reduceO o) = coldO o
  | .lit t => by simp only [reduceO, reconstruct, coldO]
  | .sub e => by simp only [reduceO, coldO, roundtripE e]
  | .seq l => by simp only [reduceO, reconstruct, coldO, roundtripOps l]
  | .backend d c => by simp only [reduceO, reconstruct, coldO]
theorem roundtripOps : ∀ l : List POp, reconstructs (reduceOps l) = coldOps l
  | [] => by simp only [reduceOps, reconstructs, coldOps]
  | o :: os => by simp only [reduceOps, reconstructs, coldOps, roundtripO o, roundtripOps os]
end

mutual
theorem toE_cold : ∀ e : PE, toE (cold e) = toE e
  | .node c ops => by simp only [cold, toE, toOps_cold ops]
theorem toO_cold : ∀ o : POp, toO (coldO o) = toO o
  | .lit t => by simp only [coldO]
  | .sub e => by simp only [coldO, toO, toE_cold e]
  | .seq l => by simp only [coldO, toO, toOps_cold l]
  | .backend d c => by simp only [coldO, toO]
theorem toOps_cold : ∀ l : List POp, toOps (coldOps l) = toOps l
  | [] => by simp only [coldOps]
  | o :: os => by simp only [coldOps, toOps, toO_cold o, toOps_cold os]
end

mutual
/-- no `_BackendData` wrapper below has a warm cache -/
def ColdE : PE → Prop
  | .node _ ops => ColdOps ops
def ColdO : POp → Prop
  | .lit _ => True
  | .sub e => ColdE e
  | .seq l => ColdOps l
  | .backend _ c => c = []
def ColdOps : List POp → Prop
  | [] => True
  | o :: os => ColdO o ∧ ColdOps os
end

mutual
theorem cold_idE : ∀ e : PE, ColdE e → cold e = e
  | .node c ops, h => by simp only [ColdE] at h; simp only [cold, cold_idOps ops h]
theorem cold_idO : ∀ o : POp, ColdO o → coldO o = o
  | .lit t, _ => by simp only [coldO]
  | .sub e, h => by simp only [ColdO] at h; simp only [coldO, cold_idE e h]
  | .seq l, h => by simp only [ColdO] at h; simp only [coldO, cold_idOps l h]
  | .backend d c, h => by simp only [ColdO] at h; simp only [coldO, h]
theorem cold_idOps : ∀ l : List POp, ColdOps l → coldOps l = l
  | [], _ => by simp only [coldOps]
  | o :: os, h => by simp only [ColdOps] at h; simp only [coldOps, cold_idO o h.1, cold_idOps os h.2]
end

end Dx.Pickle
