/-
  Lemmas/ParquetStats.lean — helper lemmas for the statistics part of C18 (model: DxModel/ParquetStats.lean).
    1. `divsOf` (min of every file in order, then the last max): length, sortedness, bounds
    2. `pick` (positional indexing) and permutations
    3. `argsortPairs` is a sorting permutation; the monotonicity test after it never fails
    4. `sortedColumns` (fsspec): what a reported divisions list implies about the statistics
    5. lengths: arrow / fsspec `_get_lengths`, fused buckets
-/
import DxModel.ParquetStats
import DxModel.Parquet
namespace Dx.PqStats

/-! ### 1. divisions built from a list of (min, max) in reading order -/

/-- adjacent entries are related by `R` -/
def Adj (R : (Int × Int) → (Int × Int) → Prop) : List (Int × Int) → Prop
  | a :: b :: t => R a b ∧ Adj R (b :: t)
  | _ => True

theorem adj_of_pairwise {R : (Int × Int) → (Int × Int) → Prop} : ∀ {S : List (Int × Int)}, S.Pairwise R → Adj R S
  | [], _ => trivial
  | [_], _ => trivial
  | a :: b :: t, h => by
    rw [List.pairwise_cons] at h
    exact ⟨h.1 b (List.mem_cons_self ..), adj_of_pairwise h.2⟩

theorem adj_imp {R Q : (Int × Int) → (Int × Int) → Prop} (hRQ : ∀ a b, R a b → Q a b) :
    ∀ {S : List (Int × Int)}, Adj R S → Adj Q S
  | [], _ => trivial
  | [_], _ => trivial
  | _ :: b :: t, h => ⟨hRQ _ _ h.1, adj_imp hRQ (S := b :: t) h.2⟩

theorem divsOf_single (a : Int × Int) : divsOf [a] = [a.1, a.2] := rfl

theorem divsOf_cons_cons (a b : Int × Int) (t : List (Int × Int)) : divsOf (a :: b :: t) = a.1 :: divsOf (b :: t) := by
  simp [divsOf, List.getLast?_cons_cons]

theorem divsOf_head (b : Int × Int) (t : List (Int × Int)) : (divsOf (b :: t))[0]? = some b.1 := by
  simp [divsOf]

theorem divsOf_length : ∀ (S : List (Int × Int)), S ≠ [] → (divsOf S).length = S.length + 1
  | [], h => absurd rfl h
  | [a], _ => rfl
  | a :: b :: t, _ => by
    rw [divsOf_cons_cons, List.length_cons, divsOf_length (b :: t) (by simp)]
    simp

/-- sorted divisions: well-formed statistics (min ≤ max) that do not overlap in reading order -/
theorem divsOf_sorted : ∀ (S : List (Int × Int)), (∀ s ∈ S, s.1 ≤ s.2) → Adj (fun a b => a.2 ≤ b.1) S →
    (divsOf S).Pairwise (· ≤ ·) ∧ ∀ a ∈ S.head?, ∀ x ∈ divsOf S, a.1 ≤ x
  | [], _, _ => by simp [divsOf]
  | [a], hwf, _ => by
    have := hwf a (List.mem_cons_self ..)
    simp [divsOf_single, this]
  | a :: b :: t, hwf, hadj => by
    have ⟨hs, hmin⟩ := divsOf_sorted (b :: t) (fun s hs => hwf s (List.mem_cons_of_mem _ hs)) hadj.2
    have hab : a.2 ≤ b.1 := hadj.1
    have ha : a.1 ≤ a.2 := hwf a (List.mem_cons_self ..)
    have hmin' : ∀ x ∈ divsOf (b :: t), a.1 ≤ x := fun x hx => by
      have := hmin b (by simp) x hx
      omega
    rw [divsOf_cons_cons]
    refine ⟨List.pairwise_cons.mpr ⟨hmin', hs⟩, ?_⟩
    intro a' ha' x hx
    simp only [List.head?_cons, Option.mem_def, Option.some.injEq] at ha'
    subst ha'
    rcases List.mem_cons.mp hx with rfl | hx
    · exact Int.le_refl _
    · exact hmin' x hx

theorem within_tail {a : Int × Int} {S : List (Int × Int)} {p : List Int} {ps : List (List Int)}
    (h : Within (a :: S) (p :: ps)) : Within S ps := by
  refine ⟨by have := h.1; simpa using this, ?_⟩
  intro i s f hs hf v hv
  exact h.2 (i + 1) s f (by simpa using hs) (by simpa using hf) v hv

theorem within_head {a : Int × Int} {S : List (Int × Int)} {p : List Int} {ps : List (List Int)}
    (h : Within (a :: S) (p :: ps)) : ∀ v ∈ p, a.1 ≤ v ∧ v ≤ a.2 :=
  fun v hv => h.2 0 a p (by simp) (by simp) v hv

/-- bounds, half-open reading: files strictly separated in reading order -/
theorem divsOf_bounds_strict : ∀ (S : List (Int × Int)) (parts : List (List Int)), Within S parts →
    Adj (fun a b => a.2 < b.1) S →
    ∀ (i : Nat) (lo hi : Int) (p : List Int), (divsOf S)[i]? = some lo → (divsOf S)[i+1]? = some hi → parts[i]? = some p →
      ∀ v ∈ p, lo ≤ v ∧ (v < hi ∨ (i + 2 = (divsOf S).length ∧ v = hi))
  | [], _, _, _ => by intro i lo hi p h; simp [divsOf] at h
  | [a], parts, hw, _ => by
    intro i lo hi p hlo hhi hp v hv
    rw [divsOf_single] at hlo hhi ⊢
    match i, parts, hw with
    | 0, q :: qs, hw =>
      simp only [List.getElem?_cons_zero, Option.some.injEq] at hlo hp
      simp only [List.getElem?_cons_succ, List.getElem?_cons_zero, Option.some.injEq] at hhi
      subst hlo hhi hp
      have := within_head hw v hv
      refine ⟨this.1, ?_⟩
      rcases Int.lt_or_le v a.2 with h | h
      · exact Or.inl h
      · exact Or.inr ⟨rfl, by omega⟩
    | 0, [], hw => simp at hp
    | k + 1, _, _ => simp at hhi
  | a :: b :: t, parts, hw, hadj => by
    intro i lo hi p hlo hhi hp v hv
    rw [divsOf_cons_cons] at hlo hhi ⊢
    match i, parts, hw with
    | 0, q :: qs, hw =>
      simp only [List.getElem?_cons_zero, Option.some.injEq] at hlo hp
      simp only [List.getElem?_cons_succ, divsOf_head, Option.some.injEq] at hhi
      subst hlo hhi hp
      have := within_head hw v hv
      have hab : a.2 < b.1 := hadj.1
      omega
    | 0, [], hw => simp at hp
    | k + 1, [], hw => simp at hp
    | k + 1, q :: qs, hw =>
      simp only [List.getElem?_cons_succ] at hlo hhi hp
      have := divsOf_bounds_strict (b :: t) qs (within_tail hw) hadj.2 k lo hi p hlo hhi hp v hv
      simp only [List.length_cons]
      omega

/-- bounds, closed reading: files may touch (max of a file = min of the next) -/
theorem divsOf_bounds_closed : ∀ (S : List (Int × Int)) (parts : List (List Int)), Within S parts →
    Adj (fun a b => a.2 ≤ b.1) S →
    ∀ (i : Nat) (lo hi : Int) (p : List Int), (divsOf S)[i]? = some lo → (divsOf S)[i+1]? = some hi → parts[i]? = some p →
      ∀ v ∈ p, lo ≤ v ∧ v ≤ hi
  | [], _, _, _ => by intro i lo hi p h; simp [divsOf] at h
  | [a], parts, hw, _ => by
    intro i lo hi p hlo hhi hp v hv
    rw [divsOf_single] at hlo hhi
    match i, parts, hw with
    | 0, q :: qs, hw =>
      simp only [List.getElem?_cons_zero, Option.some.injEq] at hlo hp
      simp only [List.getElem?_cons_succ, List.getElem?_cons_zero, Option.some.injEq] at hhi
      subst hlo hhi hp
      exact within_head hw v hv
    | 0, [], hw => simp at hp
    | k + 1, _, _ => simp at hhi
  | a :: b :: t, parts, hw, hadj => by
    intro i lo hi p hlo hhi hp v hv
    rw [divsOf_cons_cons] at hlo hhi
    match i, parts, hw with
    | 0, q :: qs, hw =>
      simp only [List.getElem?_cons_zero, Option.some.injEq] at hlo hp
      simp only [List.getElem?_cons_succ, divsOf_head, Option.some.injEq] at hhi
      subst hlo hhi hp
      have := within_head hw v hv
      have hab : a.2 ≤ b.1 := hadj.1
      omega
    | 0, [], hw => simp at hp
    | k + 1, [], hw => simp at hp
    | k + 1, q :: qs, hw =>
      simp only [List.getElem?_cons_succ] at hlo hhi hp
      exact divsOf_bounds_closed (b :: t) qs (within_tail hw) hadj.2 k lo hi p hlo hhi hp v hv

theorem truthful_of_strict (S : List (Int × Int)) (parts : List (List Int)) (hne : S ≠ []) (hw : Within S parts)
    (hwf : ∀ s ∈ S, s.1 ≤ s.2) (hadj : Adj (fun a b => a.2 < b.1) S) : Truthful (divsOf S) parts where
  len := by rw [divsOf_length S hne, hw.1]
  sorted := (divsOf_sorted S hwf (adj_imp (fun _ _ h => Int.le_of_lt h) hadj)).1
  bounds := divsOf_bounds_strict S parts hw hadj

theorem truthfulClosed_of_touching (S : List (Int × Int)) (parts : List (List Int)) (hne : S ≠ []) (hw : Within S parts)
    (hwf : ∀ s ∈ S, s.1 ≤ s.2) (hadj : Adj (fun a b => a.2 ≤ b.1) S) : TruthfulClosed (divsOf S) parts where
  len := by rw [divsOf_length S hne, hw.1]
  sorted := (divsOf_sorted S hwf hadj).1
  bounds := divsOf_bounds_closed S parts hw hadj

theorem Truthful.closed {d : List Int} {parts : List (List Int)} (h : Truthful d parts) : TruthfulClosed d parts where
  len := h.len
  sorted := h.sorted
  bounds := fun i lo hi p hlo hhi hp v hv => by
    have := h.bounds i lo hi p hlo hhi hp v hv
    omega

/-- closed truthfulness makes the concatenation sorted across partition borders -/
theorem TruthfulClosed.sortedAcross {d : List Int} {parts : List (List Int)} (h : TruthfulClosed d parts) :
    SortedAcross parts := by
  intro i j p q hij hp hq v hv w hw
  have hi : i < parts.length := (List.getElem?_eq_some_iff.mp hp).1
  have hj : j < parts.length := (List.getElem?_eq_some_iff.mp hq).1
  have hlen := h.len
  have h1 : i + 1 < d.length := by omega
  have h2 : j < d.length := by omega
  have h3 : j + 1 < d.length := by omega
  have h0 : i < d.length := by omega
  have hv' := (h.bounds i d[i] d[i+1] p (List.getElem?_eq_getElem h0) (List.getElem?_eq_getElem h1) hp v hv).2
  have hw' := (h.bounds j d[j] d[j+1] q (List.getElem?_eq_getElem h2) (List.getElem?_eq_getElem h3) hq w hw).1
  have hmid : d[i+1] ≤ d[j] := by
    by_cases he : i + 1 = j
    · subst he; exact Int.le_refl _
    · exact (List.pairwise_iff_getElem.mp h.sorted) (i+1) j h1 h2 (by omega)
  omega

/-! ### 2. positional indexing -/

theorem pick_eq_filterMap {α} (l : List α) : ∀ (σ : List Nat) (r : List α), pick l σ = some r →
    r = σ.filterMap (fun i => l[i]?)
  | [], r, h => by simp [pick] at h; simp [h]
  | i :: t, r, h => by
    simp only [pick] at h
    split at h
    · rename_i x r' hx hr'
      simp only [Option.some.injEq] at h
      subst h
      rw [List.filterMap_cons, hx, pick_eq_filterMap l t r' hr']
    · simp at h

theorem pick_spec {α} (l : List α) : ∀ (σ : List Nat) (r : List α), pick l σ = some r →
    r.length = σ.length ∧ ∀ (k i : Nat), σ[k]? = some i → r[k]? = l[i]?
  | [], r, h => by simp [pick] at h; subst h; simp
  | j :: t, r, h => by
    simp only [pick] at h
    split at h
    · rename_i x r' hx hr'
      simp only [Option.some.injEq] at h
      subst h
      have ⟨hl, hk⟩ := pick_spec l t r' hr'
      refine ⟨by simp [hl], ?_⟩
      intro k i hki
      cases k with
      | zero => simp only [List.getElem?_cons_zero, Option.some.injEq] at hki; subst hki; simp [hx]
      | succ k => simp only [List.getElem?_cons_succ] at hki ⊢; exact hk k i hki
    · simp at h

theorem pick_total {α} (l : List α) : ∀ (σ : List Nat), (∀ i ∈ σ, i < l.length) → ∃ r, pick l σ = some r
  | [], _ => ⟨[], rfl⟩
  | i :: t, h => by
    have ⟨r, hr⟩ := pick_total l t (fun j hj => h j (List.mem_cons_of_mem _ hj))
    have hi : i < l.length := h i (List.mem_cons_self ..)
    exact ⟨l[i] :: r, by simp [pick, hr, List.getElem?_eq_getElem hi]⟩

theorem pick_map {α β} (f : α → β) (l : List α) : ∀ (σ : List Nat), pick (l.map f) σ = (pick l σ).map (List.map f)
  | [] => rfl
  | i :: t => by
    simp only [pick, pick_map f l t, List.getElem?_map]
    cases l[i]? <;> cases pick l t <;> simp

theorem filterMap_range'_getElem? {α} : ∀ (l pre : List α),
    (List.range' pre.length l.length).filterMap (fun i => (pre ++ l)[i]?) = l
  | [], pre => by simp
  | x :: t, pre => by
    rw [List.length_cons, List.range'_succ, List.filterMap_cons]
    have hx : (pre ++ x :: t)[pre.length]? = some x := by simp
    rw [hx]
    have ih := filterMap_range'_getElem? t (pre ++ [x])
    simp only [List.length_append, List.length_singleton, List.append_assoc, List.singleton_append] at ih
    rw [ih]

theorem filterMap_range_getElem? {α} (l : List α) : (List.range l.length).filterMap (fun i => l[i]?) = l := by
  have := filterMap_range'_getElem? l []
  simpa [List.range_eq_range'] using this

theorem pick_perm {α} (l : List α) (σ : List Nat) (r : List α) (hσ : σ.Perm (List.range l.length))
    (h : pick l σ = some r) : r.Perm l := by
  rw [pick_eq_filterMap l σ r h]
  have := hσ.filterMap (fun i => l[i]?)
  rwa [filterMap_range_getElem?] at this

/-! ### 3. the sort index -/

theorem lexLe_iff (a b : Int × Int) : lexLe a b = true ↔ a.1 < b.1 ∨ (a.1 = b.1 ∧ a.2 ≤ b.2) := by
  simp [lexLe]

theorem lexLe_trans (a b c : Int × Int) (h1 : lexLe a b = true) (h2 : lexLe b c = true) : lexLe a c = true := by
  rw [lexLe_iff] at *
  omega

theorem lexLe_total (a b : Int × Int) : (lexLe a b || lexLe b a) = true := by
  rw [Bool.or_eq_true, lexLe_iff, lexLe_iff]
  omega

theorem argsort_perm (mm : List (Int × Int)) : (argsortPairs mm).Perm mm.zipIdx := List.mergeSort_perm _ _

/-- (c) the sort index is a permutation of the file positions: no file lost, none duplicated -/
theorem argsort_idx_perm (mm : List (Int × Int)) : ((argsortPairs mm).map (·.2)).Perm (List.range mm.length) := by
  have := (argsort_perm mm).map (·.2)
  rwa [List.zipIdx_map_snd, ← List.range_eq_range'] at this

theorem argsort_fst_perm (mm : List (Int × Int)) : ((argsortPairs mm).map (·.1)).Perm mm := by
  have := (argsort_perm mm).map (·.1)
  rwa [List.zipIdx_map_fst] at this

theorem argsort_sorted (mm : List (Int × Int)) :
    ((argsortPairs mm).map (·.1)).Pairwise (fun a b => lexLe a b = true) := by
  rw [List.pairwise_map]
  exact List.pairwise_mergeSort (le := fun a b => lexLe a.1 b.1)
    (fun a b c => lexLe_trans a.1 b.1 c.1) (fun a b => lexLe_total a.1 b.1) mm.zipIdx

theorem argsort_mem (mm : List (Int × Int)) : ∀ p ∈ argsortPairs mm, mm[p.2]? = some p.1 := by
  intro p hp
  have hp' : (p.1, p.2) ∈ mm.zipIdx := (argsort_perm mm).mem_iff.mp hp
  have ⟨hlt, he⟩ := List.mem_zipIdx' hp'
  rw [List.getElem?_eq_getElem hlt, he]

/-- the overlap test of the loop as a boolean -/
def okFrom : Option Int → List (Int × Int) → Bool
  | _, [] => true
  | last, (mn, mx) :: t =>
    !(match last with
      | some l => decide (mn < l)
      | none => false) && okFrom (some mx) t

def lastMax (last : Option Int) (S : List (Int × Int)) : Option Int :=
  match S.getLast? with
  | some x => some x.2
  | none => last

theorem lastMax_cons (last : Option Int) (a : Int × Int) (t : List (Int × Int)) :
    lastMax last (a :: t) = lastMax (some a.2) t := by
  cases t with
  | nil => simp [lastMax]
  | cons b t =>
    simp only [lastMax, List.getLast?_cons_cons]
    cases h : (b :: t).getLast? with
    | none => simp at h
    | some x => rfl

theorem divLoop_eq : ∀ (S : List (Int × Int)) (last : Option Int),
    divLoop last S = if okFrom last S then some (S.map (·.1), lastMax last S) else none
  | [], last => by simp [divLoop, okFrom, lastMax]
  | (mn, mx) :: t, last => by
    have ih := divLoop_eq t (some mx)
    have hl : lastMax last ((mn, mx) :: t) = lastMax (some mx) t := lastMax_cons last (mn, mx) t
    rw [hl]
    cases last with
    | none =>
      simp only [divLoop, okFrom, ih, Bool.false_eq_true, ↓reduceIte, Bool.not_false, Bool.true_and]
      cases okFrom (some mx) t <;> simp
    | some l =>
      simp only [divLoop, okFrom, ih]
      by_cases h : mn < l
      · simp [h]
      · simp only [h, decide_false, Bool.false_eq_true, ↓reduceIte, Bool.not_false, Bool.true_and]
        cases okFrom (some mx) t <;> simp

theorem okFrom_some_iff (x : Int) : ∀ (S : List (Int × Int)) (l : Int),
    okFrom (some l) S = true ↔ Adj (fun a b => a.2 ≤ b.1) ((x, l) :: S)
  | [], l => by simp [okFrom, Adj]
  | (mn, mx) :: t, l => by
    have ih := okFrom_some_iff mn t mx
    simp only [okFrom, Bool.and_eq_true, Bool.not_eq_true', decide_eq_false_iff_not, Int.not_lt, Adj, ih]

theorem okFrom_none_iff : ∀ (S : List (Int × Int)), okFrom none S = true ↔ Adj (fun a b => a.2 ≤ b.1) S
  | [] => by simp [okFrom, Adj]
  | (mn, mx) :: t => by
    have := okFrom_some_iff mn t mx
    simp only [okFrom, Bool.not_false, Bool.true_and, this]

theorem divsOf_eq_of_lastMax (S : List (Int × Int)) (l : Int) (h : lastMax none S = some l) :
    S.map (·.1) ++ [l] = divsOf S := by
  unfold lastMax at h
  unfold divsOf
  cases hg : S.getLast? with
  | none => rw [hg] at h; simp at h
  | some x => rw [hg] at h; simp only [Option.some.injEq] at h; simp [h]

/-- `_divisions_from_statistics` on number pairs, characterised: known divisions (every min in sorted order, then the
    last max; reading order = the sort index) exactly when no sorted range starts before the previous one ends -/
theorem divisionsOfMinMax_eq (mm : List (Int × Int)) (hne : mm ≠ []) :
    divisionsOfMinMax mm =
      if okFrom none ((argsortPairs mm).map (·.1)) then
        .known (divsOf ((argsortPairs mm).map (·.1))) ((argsortPairs mm).map (·.2))
      else .unknown mm.length none := by
  unfold divisionsOfMinMax
  simp only [divLoop_eq]
  cases hok : okFrom none ((argsortPairs mm).map (·.1)) with
  | false => simp
  | true =>
    simp only [↓reduceIte]
    have hS : (argsortPairs mm).map (·.1) ≠ [] := by
      intro he
      have := (argsort_fst_perm mm).length_eq
      rw [he] at this
      exact hne (List.length_eq_zero_iff.mp this.symm)
    cases hl : lastMax none ((argsortPairs mm).map (·.1)) with
    | none =>
      exfalso
      unfold lastMax at hl
      cases hg : ((argsortPairs mm).map (·.1)).getLast? with
      | none => exact hS (List.getLast?_eq_none_iff.mp hg)
      | some x => rw [hg] at hl; simp at hl
    | some l => simp only [divsOf_eq_of_lastMax _ l hl]

theorem divisionsOfMinMax_known (mm : List (Int × Int)) (hne : mm ≠ []) (d : List Int) (σ : List Nat)
    (h : divisionsOfMinMax mm = .known d σ) :
    Adj (fun a b => a.2 ≤ b.1) ((argsortPairs mm).map (·.1)) ∧ d = divsOf ((argsortPairs mm).map (·.1)) ∧
      σ = (argsortPairs mm).map (·.2) := by
  rw [divisionsOfMinMax_eq mm hne] at h
  split at h
  · rename_i hok
    simp only [DivOut.known.injEq] at h
    exact ⟨(okFrom_none_iff _).mp hok, h.1.symm, h.2.symm⟩
  · simp at h

/-- consecutive non-overlap of well-formed ranges is non-overlap of all pairs -/
theorem pairwise_of_adj_wf : ∀ (S : List (Int × Int)), (∀ s ∈ S, s.1 ≤ s.2) → Adj (fun a b => a.2 ≤ b.1) S →
    S.Pairwise (fun a b => a.2 ≤ b.1)
  | [], _, _ => List.Pairwise.nil
  | [_], _, _ => by simp
  | a :: b :: t, hwf, hadj => by
    have ih := pairwise_of_adj_wf (b :: t) (fun s hs => hwf s (List.mem_cons_of_mem _ hs)) hadj.2
    refine List.pairwise_cons.mpr ⟨?_, ih⟩
    intro x hx
    have hab : a.2 ≤ b.1 := hadj.1
    rcases List.mem_cons.mp hx with rfl | hx
    · exact hab
    · have hb := hwf b (List.mem_cons_of_mem _ (List.mem_cons_self ..))
      have hbx : b.2 ≤ x.1 := (List.pairwise_cons.mp ih).1 x hx
      show a.2 ≤ x.1
      omega

/-- the statistics, re-read in the order of the sort index, describe the files picked in that order -/
theorem within_sorted (mm : List (Int × Int)) (files : List (List Int)) (hw : Within mm files) (r : List (List Int))
    (hp : pick files ((argsortPairs mm).map (·.2)) = some r) : Within ((argsortPairs mm).map (·.1)) r := by
  have ⟨hl, hk⟩ := pick_spec files _ r hp
  refine ⟨by rw [hl]; simp, ?_⟩
  intro k s f hs hf v hv
  rw [List.getElem?_map] at hs
  cases hsrt : (argsortPairs mm)[k]? with
  | none => rw [hsrt] at hs; simp at hs
  | some p =>
    rw [hsrt] at hs
    simp only [Option.map_some, Option.some.injEq] at hs
    have hmem : p ∈ argsortPairs mm := List.mem_of_getElem? hsrt
    have hmm := argsort_mem mm p hmem
    have hσ : ((argsortPairs mm).map (·.2))[k]? = some p.2 := by rw [List.getElem?_map, hsrt]; rfl
    have hr := hk k p.2 hσ
    rw [hf] at hr
    exact hw.2 p.2 s f (by rw [hmm, hs]) hr.symm v hv

theorem sep_strict_of_lex {a b : Int × Int} (_ha : a.1 ≤ a.2) (hb : b.1 ≤ b.2) (hl : lexLe a b = true)
    (hd : a.2 < b.1 ∨ b.2 < a.1) : a.2 < b.1 := by
  rw [lexLe_iff] at hl
  omega

theorem sep_closed_of_lex {a b : Int × Int} (_ha : a.1 ≤ a.2) (hb : b.1 ≤ b.2) (hl : lexLe a b = true)
    (hd : a.2 ≤ b.1 ∨ b.2 ≤ a.1) : a.2 ≤ b.1 := by
  rw [lexLe_iff] at hl
  omega

/-- pairwise disjoint, well-formed statistics are separated in sorted order -/
theorem adj_sorted_of_disjoint (D : (Int × Int) → (Int × Int) → Prop) (Q : (Int × Int) → (Int × Int) → Prop)
    (hsymm : ∀ {a b}, D a b → D b a)
    (hQ : ∀ a b, a.1 ≤ a.2 → b.1 ≤ b.2 → lexLe a b = true → D a b → Q a b)
    (mm : List (Int × Int)) (hwf : ∀ s ∈ mm, s.1 ≤ s.2) (hd : mm.Pairwise D) :
    Adj Q ((argsortPairs mm).map (·.1)) := by
  apply adj_of_pairwise
  have hperm := argsort_fst_perm mm
  have hd' : ((argsortPairs mm).map (·.1)).Pairwise D := (hperm.pairwise_iff hsymm).mpr hd
  have hs := argsort_sorted mm
  have hboth := hs.and hd'
  refine hboth.imp_of_mem ?_
  intro a b ha hb hab
  exact hQ a b (hwf a (hperm.mem_iff.mp ha)) (hwf b (hperm.mem_iff.mp hb)) hab.1 hab.2

/-! ### 4. fsspec reader: `sorted_columns` -/

theorem scLoop_spec : ∀ (rest : List FStat) (divs : List Int) (mx : Int) (divs' : List Int) (mx' : Int) (x : Int),
    scLoop divs mx rest = some (divs', mx') →
    ∃ T, mmOf rest = some T ∧ divs' = divs ++ T.map (·.1) ∧ Adj (fun a b => a.2 ≤ b.1) ((x, mx) :: T) ∧
      (((x, mx) :: T).getLast?).map (·.2) = some mx'
  | [], divs, mx, divs', mx', x, h => by
    simp only [scLoop, Option.some.injEq, Prod.mk.injEq] at h
    exact ⟨[], rfl, by simp [h.1], trivial, by simp [h.2]⟩
  | c :: t, divs, mx, divs', mx', x, h => by
    simp only [scLoop] at h
    split at h
    · rename_i mn mx1 hc
      split at h
      · rename_i hge
        have ⟨T', hT', hd, hadj, hlast⟩ := scLoop_spec t (divs ++ [mn]) mx1 divs' mx' mn h
        refine ⟨(mn, mx1) :: T', ?_, ?_, ⟨hge, hadj⟩, ?_⟩
        · simp [mmOf, hc, hT']
        · simp [hd]
        · rw [List.getLast?_cons_cons]; exact hlast
      · simp at h
    · simp at h

theorem isSortedInts_pairwise : ∀ (l : List Int), isSortedInts l = true → l.Pairwise (· ≤ ·)
  | [], _ => List.Pairwise.nil
  | [_], _ => by simp
  | a :: b :: t, h => by
    simp only [isSortedInts, Bool.and_eq_true, decide_eq_true_eq] at h
    have ih := isSortedInts_pairwise (b :: t) h.2
    refine List.pairwise_cons.mpr ⟨?_, ih⟩
    intro x hx
    rcases List.mem_cons.mp hx with rfl | hx
    · exact h.1
    · exact Int.le_trans h.1 ((List.pairwise_cons.mp ih).1 x hx)

/-- what a reported divisions list says about the statistics: every part has numbers, consecutive parts do not
    overlap (`min ≥` previous `max`), the divisions are the mins followed by the last max, and they are sorted -/
theorem sortedColumns_known (stats : List FStat) (d : List Int) (h : sortedColumns stats = .ok (some d)) :
    ∃ S, mmOf stats = some S ∧ S ≠ [] ∧ d = divsOf S ∧ Adj (fun a b => a.2 ≤ b.1) S ∧ d.Pairwise (· ≤ ·) := by
  unfold sortedColumns at h
  split at h
  · simp at h
  · rename_i first rest
    split at h
    · simp at h
    · simp at h
    · rename_i v hv
      split at h
      · simp at h
      · split at h
        · split at h <;> simp at h
        · rename_i mn mx
          split at h
          · simp at h
          · rename_i divs mx' hloop
            dsimp only at h
            split at h
            · rename_i hsorted
              simp only [Res.ok.injEq, Option.some.injEq] at h
              have ⟨T, hT, hd, hadj, hlast⟩ := scLoop_spec rest [mn] mx divs mx' mn hloop
              refine ⟨(mn, mx) :: T, ?_, by simp, ?_, hadj, ?_⟩
              · simp [mmOf, hv, hT]
              · rw [← h, hd]
                unfold divsOf
                cases hl : ((mn, mx) :: T).getLast? with
                | none => rw [hl] at hlast; simp at hlast
                | some l =>
                  rw [hl] at hlast
                  simp only [Option.map_some, Option.some.injEq] at hlast
                  simp [hlast]
              · rw [← h]; exact isSortedInts_pairwise _ hsorted
            · simp at h

theorem calculateDivisions_known (stats : List FStat) (g c s : Bool) (n : Nat) (d : List Int) (σ : List Nat)
    (h : calculateDivisions stats g c s n = .known d σ) :
    σ = List.range n ∧ sortedColumns stats = .ok (some d) ∧ g = true ∧ c = true ∧ s = true := by
  unfold calculateDivisions at h
  split at h
  · rename_i hflags
    simp only [Bool.and_eq_true] at hflags
    split at h
    · simp at h
    · rename_i d' hd'
      split at h
      · simp at h
      · simp only [DivOut.known.injEq] at h
        exact ⟨h.2.symm, by rw [hd', h.1], hflags.1.1.2, hflags.1.2, hflags.2⟩
    · simp at h
  · simp at h

theorem mmOf_length : ∀ (stats : List FStat) (S : List (Int × Int)), mmOf stats = some S → S.length = stats.length
  | [], S, h => by simp [mmOf] at h; simp [h]
  | s :: t, S, h => by
    simp only [mmOf] at h
    split at h
    · rename_i v r hc hr
      simp only [Option.some.injEq] at h
      subst h
      simp [mmOf_length t r hr]
    · simp at h

/-! ### 5. lengths -/

theorem arrowGetLengths_eq (agg : List AggFile) (out : DivOut) (sel : Option (List Nat)) :
    arrowGetLengths false agg (sortIndex out) sel =
      (match fragments out agg with
       | none => .raised
       | some frs =>
         match sel with
         | none => .ok (some (frs.map (·.numRows)))
         | some P =>
           match pick frs P with
           | some chosen => .ok (some (chosen.map (·.numRows)))
           | none => .raised) := by
  unfold arrowGetLengths fragments
  cases sortIndex out with
  | none =>
    cases sel with
    | none => simp
    | some P => simp only [Bool.false_eq_true, ↓reduceIte, pick_map]; cases pick agg P <;> simp
  | some σ =>
    simp only [Bool.false_eq_true, ↓reduceIte, pick_map]
    cases pick agg σ with
    | none => simp
    | some frs =>
      cases sel with
      | none => simp
      | some P => simp only [Option.map_some, pick_map]; cases pick frs P <;> simp

theorem le_foldl_max : ∀ (P : List Nat) (a : Nat), a ≤ P.foldl max a ∧ ∀ i ∈ P, i ≤ P.foldl max a
  | [], a => by simp
  | x :: t, a => by
    have ⟨h1, h2⟩ := le_foldl_max t (max a x)
    simp only [List.foldl_cons]
    refine ⟨by omega, ?_⟩
    intro i hi
    rcases List.mem_cons.mp hi with rfl | hi
    · omega
    · exact h2 i hi

theorem lengthStatistics_none (rows : List Nat) : lengthStatistics rows none = rows := by
  unfold lengthStatistics
  have : (fun (p : Nat × Nat) => (some p.1 : Option Nat)) = some ∘ Prod.fst := rfl
  simp only [this, List.filterMap_eq_map, List.zipIdx_map_fst]

theorem lengthStatistics_some_aux (c : Nat → Bool) : ∀ (l pre : List Nat),
    (l.zipIdx pre.length).filterMap (fun p => if c p.2 then some p.1 else none) =
      ((List.range' pre.length l.length).filter c).filterMap (fun i => (pre ++ l)[i]?)
  | [], pre => by simp
  | x :: t, pre => by
    rw [List.zipIdx_cons, List.length_cons, List.range'_succ, List.filterMap_cons, List.filter_cons]
    have ih := lengthStatistics_some_aux c t (pre ++ [x])
    simp only [List.length_append, List.length_singleton, List.append_assoc, List.singleton_append] at ih
    have hx : (pre ++ x :: t)[pre.length]? = some x := by simp
    cases hc : c pre.length with
    | true => simp only [↓reduceIte, List.filterMap_cons, hx, ih]
    | false => simp only [Bool.false_eq_true, ↓reduceIte, ih]

theorem lengthStatistics_some (rows P : List Nat) :
    lengthStatistics rows (some P) =
      ((List.range rows.length).filter (fun i => P.contains i)).filterMap (fun i => rows[i]?) := by
  have := lengthStatistics_some_aux (fun i => P.contains i) rows []
  simpa [lengthStatistics, List.range_eq_range'] using this

theorem sortedSet_split (P : List Nat) (n : Nat) :
    ∃ E, sortedSet P = (List.range n).filter (fun i => P.contains i) ++ E ∧ ∀ e ∈ E, n ≤ e := by
  unfold sortedSet
  have hmax : ∀ i ∈ P, i < P.foldl max 0 + 1 := fun i hi => by
    have := (le_foldl_max P 0).2 i hi
    omega
  generalize P.foldl max 0 + 1 = m at hmax
  by_cases h : n ≤ m
  · obtain ⟨k, rfl⟩ : ∃ k, m = n + k := ⟨m - n, by omega⟩
    rw [List.range_add, List.filter_append]
    refine ⟨_, rfl, ?_⟩
    intro e he
    have := (List.mem_filter.mp he).1
    simp only [List.mem_map, List.mem_range] at this
    obtain ⟨x, _, rfl⟩ := this
    omega
  · obtain ⟨k, rfl⟩ : ∃ k, n = m + k := ⟨n - m, by omega⟩
    refine ⟨[], ?_, by simp⟩
    rw [List.range_add, List.filter_append, List.append_nil]
    have : (List.map (fun x => m + x) (List.range k)).filter (fun i => P.contains i) = [] := by
      rw [List.filter_eq_nil_iff]
      intro e he
      simp only [List.mem_map, List.mem_range] at he
      obtain ⟨x, _, rfl⟩ := he
      intro hc
      have := hmax _ (List.contains_iff_mem.mp hc)
      omega
    rw [this, List.append_nil]

theorem length_filterMap_of_isSome {β} (f : Nat → Option β) : ∀ (K : List Nat), (∀ k ∈ K, (f k).isSome) →
    (K.filterMap f).length = K.length
  | [], _ => rfl
  | k :: K', h => by
    have hk := h k (List.mem_cons_self ..)
    cases hf : f k with
    | none => rw [hf] at hk; simp at hk
    | some y =>
      rw [List.filterMap_cons, hf, List.length_cons, List.length_cons,
        length_filterMap_of_isSome f K' (fun j hj => h j (List.mem_cons_of_mem _ hj))]

theorem lookup_zip_filterMap {β} (f : Nat → Option β) : ∀ (K : List Nat), (∀ k ∈ K, (f k).isSome) →
    ∀ i, (K.zip (K.filterMap f)).lookup i = if i ∈ K then f i else none
  | [], _, i => by simp
  | k :: K', hK, i => by
    have hk := hK k (List.mem_cons_self ..)
    cases hf : f k with
    | none => rw [hf] at hk; simp at hk
    | some y =>
      rw [List.filterMap_cons, hf, List.zip_cons_cons, List.lookup_cons]
      have ih := lookup_zip_filterMap f K' (fun j hj => hK j (List.mem_cons_of_mem _ hj)) i
      by_cases hik : i = k
      · subst hik; simp [hf]
      · have : (i == k) = false := by simp [hik]
        rw [this, ih]
        simp [hik]

theorem lookupAll_eq_pick (tbl : List (Nat × Nat)) (rows : List Nat) : ∀ (Q : List Nat),
    (∀ i ∈ Q, tbl.lookup i = rows[i]?) → lookupAll tbl Q = pick rows Q
  | [], _ => rfl
  | i :: t, h => by
    simp only [lookupAll, pick]
    rw [h i (List.mem_cons_self ..), lookupAll_eq_pick tbl rows t (fun j hj => h j (List.mem_cons_of_mem _ hj))]
    cases rows[i]? <;> cases pick rows t <;> rfl

/-- fsspec `_get_lengths`: the lengths of the selected partitions, in selection order, with repetitions
    (a position beyond the plan's partitions raises) -/
theorem fsspecGetLengths_eq (rows : List Nat) (sel : Option (List Nat)) :
    fsspecGetLengths false rows sel =
      (match sel with
       | none => .ok (some rows)
       | some P =>
         match pick rows P with
         | some r => .ok (some r)
         | none => .raised) := by
  unfold fsspecGetLengths
  cases sel with
  | none => simp [lengthStatistics_none]
  | some P =>
    simp only [Bool.false_eq_true, ↓reduceIte]
    have ⟨E, hE, hEge⟩ := sortedSet_split P rows.length
    let K := (List.range rows.length).filter (fun i => P.contains i)
    have hKlt : ∀ k ∈ K, k < rows.length := fun k hk => List.mem_range.mp (List.mem_filter.mp hk).1
    have hsome : ∀ k ∈ K, (rows[k]?).isSome := fun k hk => by simp [hKlt k hk]
    have hlen : K.length = (K.filterMap (fun i => rows[i]?)).length :=
      (length_filterMap_of_isSome _ K hsome).symm
    have htbl : (sortedSet P).zip (lengthStatistics rows (some P)) = K.zip (K.filterMap (fun i => rows[i]?)) := by
      rw [hE, lengthStatistics_some]
      have := List.zip_append (l₁ := K) (r₁ := E) (l₂ := K.filterMap (fun i => rows[i]?)) (r₂ := []) hlen
      rw [List.append_nil, List.zip_nil_right, List.append_nil] at this
      exact this
    rw [htbl]
    have hlook : ∀ i ∈ P, (K.zip (K.filterMap (fun i => rows[i]?))).lookup i = rows[i]? := by
      intro i hi
      rw [lookup_zip_filterMap _ K hsome i]
      by_cases hin : i < rows.length
      · have : i ∈ K := List.mem_filter.mpr ⟨List.mem_range.mpr hin, List.contains_iff_mem.mpr hi⟩
        simp [this]
      · have : i ∉ K := fun hk => hin (hKlt i hk)
        simp only [this, ↓reduceIte]
        rw [List.getElem?_eq_none (by omega)]
    rw [lookupAll_eq_pick _ rows P hlook]
    cases pick rows P <;> rfl

theorem chunks_map {α β} (f : α → β) (step : Nat) : ∀ (fuel : Nat) (l : List α),
    Parquet.chunks step fuel (l.map f) = (Parquet.chunks step fuel l).map (List.map f)
  | 0, _ => rfl
  | _ + 1, [] => rfl
  | fuel + 1, a :: t => by
    have ih := chunks_map f step fuel ((a :: t).drop step)
    simp only [List.map_cons, Parquet.chunks] at ih ⊢
    rw [← List.map_cons, ← List.map_take, ← List.map_drop, ih]

theorem sum_flatten_nat : ∀ (l : List (List Nat)), l.flatten.sum = (l.map List.sum).sum
  | [] => rfl
  | a :: t => by simp [List.sum_append, sum_flatten_nat t]

/-! ### 6. complete statistics -/

theorem colsOf_length : ∀ (agg : List AggFile) (cs : List (Option (Int × Int))), colsOf agg = some cs → cs.length = agg.length
  | [], cs, h => by simp [colsOf] at h; simp [h]
  | f :: t, cs, h => by
    simp only [colsOf] at h
    split at h
    · rename_i c r hc hr
      simp only [Option.some.injEq] at h
      subst h
      simp [colsOf_length t r hr]
    · simp at h

theorem allPresent_length : ∀ (cs : List (Option (Int × Int))) (mm : List (Int × Int)), allPresent cs = some mm → mm.length = cs.length
  | [], mm, h => by simp [allPresent] at h; simp [h]
  | some a :: t, mm, h => by
    simp only [allPresent] at h
    split at h
    · rename_i r hr
      simp only [Option.some.injEq] at h
      subst h
      simp [allPresent_length t r hr]
    · simp at h
  | none :: t, mm, h => by simp [allPresent] at h

theorem completeStats_length (agg : List AggFile) (mm : List (Int × Int)) (h : completeStats agg = some mm) :
    mm.length = agg.length := by
  unfold completeStats at h
  split at h
  · rename_i cs hcs
    rw [allPresent_length cs mm h, colsOf_length agg cs hcs]
  · simp at h

theorem divisionsFromStatistics_known (agg : List AggFile) (d : List Int) (σ : List Nat)
    (h : divisionsFromStatistics agg = .known d σ) :
    ∃ mm, completeStats agg = some mm ∧ agg ≠ [] ∧ divisionsOfMinMax mm = .known d σ := by
  unfold divisionsFromStatistics at h
  split at h
  · simp at h
  · rename_i a t
    split at h
    · simp at h
    · rename_i cs hcs
      split at h
      · rename_i mm hmm
        exact ⟨mm, by simp [completeStats, hcs, hmm], by simp, h⟩
      · split at h <;> simp at h

theorem divisionsFromStatistics_complete (agg : List AggFile) (mm : List (Int × Int)) (hc : completeStats agg = some mm)
    (hne : agg ≠ []) : divisionsFromStatistics agg = divisionsOfMinMax mm := by
  unfold completeStats at hc
  split at hc
  · rename_i cs hcs
    cases agg with
    | nil => exact absurd rfl hne
    | cons a t => simp only [divisionsFromStatistics, hcs, hc]
  · simp at hc

/-- reading the statistics in the order of the sort index gives the sorted statistics -/
theorem pick_argsort (mm : List (Int × Int)) :
    pick mm ((argsortPairs mm).map (·.2)) = some ((argsortPairs mm).map (·.1)) := by
  have hmem := argsort_mem mm
  generalize argsortPairs mm = srt at hmem
  induction srt with
  | nil => rfl
  | cons p t ih =>
    simp only [List.map_cons, pick, hmem p (List.mem_cons_self ..), ih (fun q hq => hmem q (List.mem_cons_of_mem _ hq))]

end Dx.PqStats
