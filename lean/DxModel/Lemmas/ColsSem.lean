/-
  Lemmas/ColsSem.lean — values of original and rewritten expressions; generic preservation lemmas per operator class
-/
import DxModel.Cols
import DxModel.Lemmas.Cols
import DxModel.Lemmas.ColsRules
namespace Dx.Cols

variable {γ : Type}

@[simp] theorem select_cols (cs : List Name) (F : Frame γ) : (F.select cs).cols = cs := rfl

theorem select_val_mem {cs : List Name} {F : Frame γ} {c : Name} (h : c ∈ cs) : (F.select cs).val c = F.val c := by
  show (if cs.contains c = true then F.val c else none) = F.val c
  rw [if_pos (List.contains_iff_mem.mpr h)]

theorem select_val_not_mem {cs : List Name} {F : Frame γ} {c : Name} (h : c ∉ cs) : (F.select cs).val c = none := by
  show (if cs.contains c = true then F.val c else none) = none
  rw [if_neg (fun hh => h (List.contains_iff_mem.mp hh))]

/-- `op(F)[P]` -/
def evalOrig (op : Frame γ → Frame γ) (P : List Name) (F : Frame γ) : Frame γ := (op F).select P

/-- value of a single-input rewrite: `parent?(op(F[child]))`; a scalar child is the one-column frame -/
def evalRw (op : Frame γ → Frame γ) (P : List Name) (rw : Rw) (F : Frame γ) : Frame γ :=
  let inp := match rw.childs with
    | [some s] => F.select s.toList
    | _ => F
  let r := if rw.gone then inp else op inp
  if rw.keep then r.select P else r

theorem evalRw_keep1 (op : Frame γ → Frame γ) (P : List Name) (rw : Rw) (F : Frame γ) (child : List Name)
    (h : rw.isKeep1 child) : evalRw op P rw F = (op (F.select child)).select P := by
  obtain ⟨h1, h2, h3⟩ := h
  simp [evalRw, h1, h2, h3, Sel.toList]

theorem evalRw_keep (op : Frame γ → Frame γ) (P : List Name) (s : Sel) (F : Frame γ) :
    evalRw op P { childs := [some s], keep := true } F = (op (F.select s.toList)).select P := rfl

theorem evalRw_nokeep (op : Frame γ → Frame γ) (P : List Name) (s : Sel) (F : Frame γ) :
    evalRw op P { childs := [some s], keep := false } F = op (F.select s.toList) := rfl

/-- the two shapes of a `plain` rewrite -/
theorem plain_cases {frame : List Name} {p : Parent} {deps : List Dep} {extra : List Name} {rw : Rw}
    (h : plain frame p deps extra = some rw) :
    (plainSel frame (detProj p deps extra) = p.operand ∧
        rw = { childs := [some (plainSel frame (detProj p deps extra))], keep := false }) ∨
    (plainSel frame (detProj p deps extra) ≠ p.operand ∧
        rw = { childs := [some (plainSel frame (detProj p deps extra))], keep := true }) := by
  obtain ⟨hrw, _⟩ := plain_spec h
  by_cases he : plainSel frame (detProj p deps extra) = p.operand
  · left; refine ⟨he, ?_⟩; rw [hrw]; simp [he]
  · right; refine ⟨he, ?_⟩; rw [hrw]; simp [he]

/-! ### keyed operators -/

/-- output labels react monotonically to pruning: a requested label that survives in the pruned input (or is created
    by the operator) is still an output label -/
def OutMono (K : KeyedOp γ) : Prop :=
  ∀ l l' c, (∀ x, x ∈ l' → x ∈ l) → (c ∈ l' ∨ c ∉ l) → c ∈ K.outCols l → c ∈ K.outCols l'

/-- the heart of every single-input rule: with the key columns present, an operator cannot tell the pruned input
    from the full one on the columns that are still there (nor on the labels it creates itself) -/
theorem keyed_core (K : KeyedOp γ) (F : Frame γ) (child : List Name)
    (hsub : ∀ c, c ∈ child → c ∈ F.cols) (hkeys : ∀ k, k ∈ K.keys → k ∈ child)
    (c : Name) (hc : c ∈ child ∨ c ∉ F.cols) :
    (K.op (F.select child)).val c = (K.op F).val c := by
  rcases hc with hc | hc
  · have hcF : c ∈ F.cols := hsub c hc
    rw [K.op_val (F.select child) c (by simpa using hc), K.op_val F c (List.contains_iff_mem.mpr hcF)]
    rw [select_val_mem hc]
    have : K.T (F.select child).val = K.T F.val := by
      apply K.T_keys
      intro k hk
      exact select_val_mem (hkeys k (List.contains_iff_mem.mp hk))
    rw [this]
  · have hcc : c ∉ child := fun h => hc (hsub c h)
    rw [K.op_fresh (F.select child) c (by simpa using hcc), K.op_fresh F c (by simpa using hc)]

theorem keyed_values (K : KeyedOp γ) (F : Frame γ) (keys' P child : List Name)
    (had : Adequate F.cols keys' P child) (hk : ∀ k, k ∈ K.keys → k ∈ keys' ∧ k ∈ F.cols)
    (c : Name) (hc : c ∈ P) :
    ((K.op (F.select child)).select P).val c = (evalOrig K.op P F).val c := by
  unfold evalOrig
  rw [select_val_mem hc, select_val_mem hc]
  apply keyed_core K F child had.sub (fun k hkk => had.keys k (hk k hkk).1 (hk k hkk).2)
  by_cases hcF : c ∈ F.cols
  · exact Or.inl (had.req c hc hcF)
  · exact Or.inr hcF

theorem keyed_wf (K : KeyedOp γ) (hm : OutMono K) (F : Frame γ) (keys' P child : List Name)
    (had : Adequate F.cols keys' P child) (hk : ∀ k, k ∈ K.keys → k ∈ keys' ∧ k ∈ F.cols)
    (hP : ∀ c, c ∈ P → c ∈ K.outCols F.cols) :
    (∀ k, k ∈ K.keys → k ∈ child) ∧ (∀ c, c ∈ child → c ∈ F.cols) ∧ (F.cols.Nodup → child.Nodup) ∧
    (∀ c, c ∈ P → c ∈ (K.op (F.select child)).cols) := by
  refine ⟨fun k hkk => had.keys k (hk k hkk).1 (hk k hkk).2, had.sub, had.nodup, ?_⟩
  intro c hc
  rw [K.op_cols, select_cols]
  apply hm F.cols child c had.sub _ (hP c hc)
  by_cases hcF : c ∈ F.cols
  · exact Or.inl (had.req c hc hcF)
  · exact Or.inr hcF

/-! ### relabelling operators -/

theorem relabel_values (R : RelabelOp γ) (F : Frame γ) (child : List Name)
    (hsub : ∀ c, c ∈ child → c ∈ F.cols) (c : Name) (hc : c ∈ child)
    (hinj : ∀ c', c' ∈ F.cols → R.f c' = R.f c → c' = c) :
    (R.op (F.select child)).val (R.f c) = (R.op F).val (R.f c) := by
  rw [R.op_val (F.select child) c (by simpa using hc)
        (fun c' hc' he => hinj c' (hsub c' (by simpa using hc')) he),
      R.op_val F c (List.contains_iff_mem.mpr (hsub c hc)) (fun c' hc' he => hinj c' (List.contains_iff_mem.mp hc') he),
      select_val_mem hc]

/-! ### column-wise binary operators -/

/-- an optional projection of an input -/
def selOpt (o : Option Sel) (F : Frame γ) : Frame γ :=
  match o with
  | some s => F.select s.toList
  | none => F

@[simp] theorem selOpt_many (cs : List Name) (F : Frame γ) : selOpt (some (.many cs)) F = F.select cs := rfl
@[simp] theorem selOpt_none (F : Frame γ) : selOpt none F = F := rfl

theorem binop_values' (B : BinOp γ) (X Y X' Y' : Frame γ) (c : Name)
    (hx : X'.cols.contains c = X.cols.contains c) (hxv : X.cols.contains c = true → X'.val c = X.val c)
    (hy : Y'.cols.contains c = Y.cols.contains c) (hyv : Y.cols.contains c = true → Y'.val c = Y.val c) :
    (B.op X' Y').val c = (B.op X Y).val c := by
  rw [B.op_val, B.op_val, hx, hy]
  congr 1
  · by_cases h : X.cols.contains c = true
    · rw [if_pos h, if_pos h]; exact hxv h
    · rw [if_neg h, if_neg h]
  · by_cases h : Y.cols.contains c = true
    · rw [if_pos h, if_pos h]; exact hyv h
    · rw [if_neg h, if_neg h]

theorem binop_values (B : BinOp γ) (X Y : Frame γ) (cx cy : List Name) (c : Name)
    (hx : cx.contains c = X.cols.contains c) (hy : cy.contains c = Y.cols.contains c) :
    (B.op (X.select cx) (Y.select cy)).val c = (B.op X Y).val c :=
  binop_values' B X Y _ _ c hx (fun h => select_val_mem (List.contains_iff_mem.mp (hx ▸ h)))
    hy (fun h => select_val_mem (List.contains_iff_mem.mp (hy ▸ h)))

theorem filter_contains_of_pred {l : List Name} {pred : Name → Bool} {c : Name} (h : pred c = true) :
    (l.filter pred).contains c = l.contains c := by
  by_cases hc : c ∈ l
  · rw [List.contains_iff_mem.mpr hc, List.contains_iff_mem.mpr (List.mem_filter.mpr ⟨hc, h⟩)]
  · have h1 : l.contains c = false := by simpa using hc
    have h2 : (l.filter pred).contains c = false := by
      simp only [List.contains_eq_mem, List.mem_filter, decide_eq_false_iff_not, not_and]
      exact fun hh => absurd hh hc
    rw [h1, h2]

/-! ### squashing projections, sources -/

theorem select_select (F : Frame γ) (a b : List Name) (h : ∀ c, c ∈ b → c ∈ a) (c : Name) :
    ((F.select a).select b).val c = (F.select b).val c := by
  by_cases hc : c ∈ b
  · rw [select_val_mem hc, select_val_mem hc, select_val_mem (h c hc)]
  · rw [select_val_not_mem hc, select_val_not_mem hc]

/-! ### values of the rewritten expressions, per operator class -/

/-- value of the rewritten `reset_index` expression (the new node's `drop` is `rw.drop`) -/
def evalReset (R : ResetOp γ) (P : List Name) (rw : Rw) (F : Frame γ) : Frame γ :=
  let inp := match rw.childs with
    | [some s] => F.select s.toList
    | _ => F
  if rw.keep then (R.op rw.drop inp).select P else R.op rw.drop inp

def evalSource (S : SourceOp γ) (P : List Name) (rw : Rw) : Frame γ :=
  let r := match rw.childs with
    | [some s] => S.read s.toList
    | _ => S.read []
  if rw.keep then r.select P else r

def evalBin (B : BinOp γ) (P : List Name) (rw : Rw) (X Y : Frame γ) : Frame γ :=
  match rw.childs with
  | [l, r] => (B.op (selOpt l X) (selOpt r Y)).select P
  | _ => (B.op X Y).select P

/-- value of the rewritten `astype` expression: the new node's dtype keys are `rw.keys` -/
def evalAsType (A : AsTypeOp γ) (P : List Name) (rw : Rw) (F : Frame γ) : Frame γ :=
  if rw.gone then F.select P
  else
    let inp := match rw.childs with
      | [some s] => F.select s.toList
      | _ => F
    if rw.keep then (A.op rw.keys inp).select P else A.op rw.keys inp

theorem has_filter_iff {sel : Sel} {l : List Name} {c : Name} (h : sel.has c = true) :
    (l.filter sel.has).contains c = l.contains c := filter_contains_of_pred h

def evalMerge (M : MergeOp γ) (P : List Name) (rw : Rw) (X Y : Frame γ) : Frame γ :=
  match rw.childs with
  | [l, r] => (M.op (selOpt l X) (selOpt r Y)).select P
  | _ => (M.op X Y).select P

end Dx.Cols
