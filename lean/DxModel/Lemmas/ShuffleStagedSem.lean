/-
  Lemmas/ShuffleStagedSem.lean — the stage invariant of the staged (digit-routed) task shuffle over
  digit tuples (ported from spikes/StagedShuffleInvariant.lean) and its reading in partition numbers.
  Proof-level definitions only (`tuples`, `stageStep`, `runStages`, `agree`, `sdig`, `cur0`).
-/
import DxModel.Lemmas.ShufflePerm
import DxModel.Lemmas.ShuffleDigits
namespace Dx
open Shuffle

/-- all digit tuples of length t over base k, last position varying slowest -/
def tuples (k : Nat) : Nat → List (List Nat)
  | 0 => [[]]
  | t+1 => (List.range k).flatMap (fun i => (tuples k t).map (fun pre => pre ++ [i]))

/-- one stage, pull formulation, exactly the `_concat_list` of TaskShuffle._layer: output partition
    `out` concatenates, for i in range(k), the group `out[t]` of input partition `insert(out, t, i)` -/
def stageStep (k : Nat) (dig : Row → Nat → Nat) (t : Nat) (cur : List Nat → List Row) (out : List Nat) :
    List Row :=
  (List.range k).flatMap fun i => (cur (out.set t i)).filter fun r => dig r t == out.getD t 0

def runStages (k : Nat) (dig : Row → Nat → Nat) (cur0 : List Nat → List Row) : Nat → List Nat → List Row
  | 0, out => cur0 out
  | t+1, out => stageStep k dig t (runStages k dig cur0 t) out

/-- rows agree with `out` on digits < t -/
def agree (dig : Row → Nat → Nat) (out : List Nat) (t : Nat) (r : Row) : Bool :=
  (List.range t).all fun j => dig r j == out.getD j 0

theorem drop_set_self (l : List Nat) (t i : Nat) (h : t < l.length) :
    (l.set t i).drop t = i :: l.drop (t+1) := by
  induction l generalizing t with
  | nil => simp at h
  | cons a tl ih =>
    cases t with
    | zero => simp
    | succ t => simp at h ⊢; exact ih t h

theorem getD_set_ne (l : List Nat) (t i j : Nat) (h : j ≠ t) : (l.set t i).getD j 0 = l.getD j 0 := by
  simp [List.getD_eq_getElem?_getD, Ne.symm h]

theorem agree_succ (dig : Row → Nat → Nat) (out : List Nat) (t : Nat) (r : Row) :
    agree dig out (t+1) r = (agree dig out t r && dig r t == out.getD t 0) := by
  simp [agree, List.range_succ, List.all_append]

theorem agree_set (dig : Row → Nat → Nat) (out : List Nat) (t i : Nat) (r : Row) :
    agree dig (out.set t i) t r = agree dig out t r := by
  unfold agree
  rw [Bool.eq_iff_iff]
  simp only [List.all_eq_true, List.mem_range]
  constructor
  · intro h j hj; have := h j hj; rwa [getD_set_ne _ _ _ _ (by omega)] at this
  · intro h j hj; have := h j hj; rwa [getD_set_ne _ _ _ _ (by omega)]

/-- after `t` stages partition `out` holds the rows that started in a partition agreeing with `out`
    on the digits `≥ t` and whose own digits agree with `out` on the digits `< t` -/
theorem stage_invariant (k : Nat) (dig : Row → Nat → Nat) (cur0 : List Nat → List Row) :
    ∀ t (out : List Nat), t ≤ out.length →
      (runStages k dig cur0 t out).Perm
        ((tuples k t).flatMap fun pre => (cur0 (pre ++ out.drop t)).filter (agree dig out t)) := by
  intro t
  induction t with
  | zero =>
    intro out _
    simp only [runStages, tuples, List.flatMap_cons, List.flatMap_nil, List.append_nil, List.nil_append,
      List.drop_zero]
    have h2 : (cur0 out).filter (agree dig out 0) = cur0 out := by
      apply List.filter_eq_self.mpr
      intro a _; simp [agree]
    rw [h2]
  | succ t ih =>
    intro out hlen
    have hlt : t < out.length := hlen
    simp only [runStages, stageStep]
    have step1 : ∀ i ∈ List.range k,
        ((runStages k dig cur0 t (out.set t i)).filter fun r => dig r t == out.getD t 0).Perm
        (((tuples k t).flatMap fun pre =>
            (cur0 (pre ++ (out.set t i).drop t)).filter (agree dig (out.set t i) t)).filter
              fun r => dig r t == out.getD t 0) := by
      intro i _
      exact (ih (out.set t i) (by simp; omega)).filter _
    refine (perm_flatMap_congr _ _ _ step1).trans ?_
    apply List.Perm.of_eq
    simp only [tuples, List.flatMap_assoc]
    apply flatMap_congr'
    intro i _
    rw [List.filter_flatMap, List.flatMap_map]
    apply flatMap_congr'
    intro pre _
    rw [drop_set_self _ _ _ hlt, List.filter_filter, List.append_assoc]
    simp only [List.singleton_append]
    apply List.filter_congr
    intro r _
    rw [agree_succ, agree_set, Bool.and_comm]

/-! ### from digit tuples to partition numbers -/

theorem tuples_length (k : Nat) : ∀ t, ∀ pre ∈ tuples k t, pre.length = t := by
  intro t
  induction t with
  | zero => intro pre h; simp [tuples] at h; subst h; rfl
  | succ t ih =>
    intro pre h
    simp only [tuples, List.mem_flatMap, List.mem_map] at h
    obtain ⟨i, _, pre', hp, rfl⟩ := h
    simp [ih pre' hp]

theorem num_append (k : Nat) (i : Nat) : ∀ pre : List Nat, num k (pre ++ [i]) = num k pre + k ^ pre.length * i := by
  intro pre
  induction pre with
  | nil => simp [num]
  | cons a t ih =>
    simp only [List.cons_append, num, ih, List.length_cons, Nat.pow_succ', Nat.mul_add, Nat.mul_assoc, Nat.add_assoc]

theorem range_mul_flatMap {β} (n : Nat) (F : Nat → List β) : ∀ k,
    (List.range (n * k)).flatMap F = (List.range k).flatMap (fun i => (List.range n).flatMap (fun m => F (m + n * i))) := by
  intro k
  induction k with
  | zero => simp
  | succ k ih =>
    rw [Nat.mul_succ, List.range_add, List.flatMap_append, ih, List.range_succ, List.flatMap_append,
      List.flatMap_map]
    simp only [List.flatMap_cons, List.flatMap_nil, List.append_nil]
    congr 1
    apply flatMap_congr'
    intro m _
    rw [Nat.add_comm]

/-- enumerating digit tuples = enumerating partition numbers `0 .. k^t - 1` in order -/
theorem tuples_flatMap {β} (k : Nat) : ∀ t (F : Nat → List β),
    (tuples k t).flatMap (fun pre => F (num k pre)) = (List.range (k ^ t)).flatMap F := by
  intro t
  induction t with
  | zero => intro F; simp [tuples, num]
  | succ t ih =>
    intro F
    simp only [tuples, List.flatMap_assoc, List.flatMap_map]
    rw [Nat.pow_succ, range_mul_flatMap]
    apply flatMap_congr'
    intro i _
    rw [← ih (fun m => F (m + k ^ t * i))]
    apply flatMap_congr'
    intro pre hpre
    rw [num_append, tuples_length k t pre hpre]

/-- stage digit of a row as a function of the stage (the `dig` of the invariant) -/
def sdig (p : Params) (r : Row) (t : Nat) : Nat := stageDigit p.nin p.nsplits t r

/-- contents of the (padded) input partition addressed by a digit tuple: inputs `≥ nin` are empty -/
def cur0 (p : Params) (rows : Nat → List Row) (inp : List Nat) : List Row :=
  if num p.nsplits inp < p.nin then rows (num p.nsplits inp) else []

theorem agree_digits (p : Params) (hk : 0 < p.nsplits) (s q : Nat) (r : Row)
    (hx : r.tgt % p.nin < p.nsplits ^ s) (hq : q < p.nsplits ^ s) :
    agree (sdig p) (digits p.nsplits s q) s r = (r.tgt % p.nin == q) := by
  rw [Bool.eq_iff_iff]
  simp only [agree, List.all_eq_true, List.mem_range, beq_iff_eq]
  constructor
  · intro h
    apply digits_inj p.nsplits hk s _ _ hx hq
    unfold digits
    apply List.map_congr_left
    intro j hj
    have := h j (List.mem_range.mp hj)
    rwa [digits_getD _ _ _ _ (List.mem_range.mp hj)] at this
  · intro h j hj
    rw [digits_getD _ _ _ _ hj, ← h]
    rfl

/-- after all stages, partition number `q` holds (a permutation of) the rows of all real inputs whose
    `tgt % nin` is `q` -/
theorem stages_sem (p : Params) (rows : Nat → List Row) (hk : 0 < p.nsplits) (hnin : 0 < p.nin)
    (hle : p.nin ≤ p.nsplits ^ p.stages) (q : Nat) (hq : q < p.nsplits ^ p.stages) :
    (runStages p.nsplits (sdig p) (cur0 p rows) p.stages (digits p.nsplits p.stages q)).Perm
      ((List.range p.nin).flatMap (fun i => (rows i).filter (fun r => r.tgt % p.nin == q))) := by
  refine (stage_invariant p.nsplits (sdig p) (cur0 p rows) p.stages (digits p.nsplits p.stages q)
    (by rw [digits_length]; exact Nat.le_refl _)).trans (List.Perm.of_eq ?_)
  have hdrop : (digits p.nsplits p.stages q).drop p.stages = [] := by
    apply List.drop_eq_nil_of_le; rw [digits_length]; exact Nat.le_refl _
  simp only [hdrop, List.append_nil]
  have hag : ∀ r : Row, agree (sdig p) (digits p.nsplits p.stages q) p.stages r = (r.tgt % p.nin == q) := by
    intro r
    exact agree_digits p hk p.stages q r (Nat.lt_of_lt_of_le (Nat.mod_lt _ hnin) hle) hq
  have hfun : (agree (sdig p) (digits p.nsplits p.stages q) p.stages) = (fun r => r.tgt % p.nin == q) :=
    funext hag
  rw [hfun]
  have := tuples_flatMap p.nsplits p.stages
    (fun m => (if m < p.nin then rows m else []).filter (fun r => r.tgt % p.nin == q))
  simp only [cur0]
  rw [this]
  obtain ⟨d, hd⟩ : ∃ d, p.nsplits ^ p.stages = p.nin + d := ⟨_, (Nat.add_sub_cancel' hle).symm⟩
  rw [hd, List.range_add, List.flatMap_append, List.flatMap_map]
  rw [flatMap_nil' (List.range d)]
  · rw [List.append_nil]
    apply flatMap_congr'
    intro i hi
    rw [if_pos (List.mem_range.mp hi)]
  · intro a _
    rw [if_neg (by omega)]
    rfl

end Dx
