/-
  Lemmas/FusedIO.lean — `FusedIO._fusion_buckets` is an ordered partition of `_partitions`; its tasks and
  divisions are those of "select `_partitions`, then merge consecutive selected partitions at the bucket
  boundaries" (so that `divInv_sel` + `fewer_divisions_truthful` apply).
-/
import DxModel.Lemmas.FromArray
import DxModel.Lemmas.Partitions
namespace Dx.Parts
open Dx Dx.Repartition

theorem buckets_prefix (P : List Nat) (step : Nat) : ∀ m,
    ((List.range m).map (fun q => (P.drop (q * step)).take step)).flatten = P.take (m * step) := by
  intro m
  induction m with
  | zero => simp
  | succ m ih =>
    rw [List.range_succ, List.map_append, List.flatten_append, ih]
    simp only [List.map_cons, List.map_nil, List.flatten_cons, List.flatten_nil, List.append_nil]
    rw [Nat.add_mul, Nat.one_mul, List.take_add]

/-- the buckets, concatenated in order, are exactly `_partitions` -/
theorem buckets_flatten (P : List Nat) (step : Nat) (hs : 1 ≤ step) : (buckets P step).flatten = P := by
  unfold buckets pyRange
  rw [List.map_map]
  have := buckets_prefix P step ((P.length + step - 1) / step)
  simp only [Function.comp_def]
  rw [this]
  by_cases hP : P.length = 0
  · simp [List.length_eq_zero_iff.mp hP]
  · have hm : 1 ≤ nChunks P.length step := by
      unfold nChunks
      exact (Nat.le_div_iff_mul_le (by omega)).mpr (by omega)
    have ⟨hA, _⟩ := nChunks_bounds P.length step hs hm
    unfold nChunks at hA
    exact List.take_of_length_le hA

theorem buckets_length (P : List Nat) (step : Nat) : (buckets P step).length = nChunks P.length step := by
  simp [buckets, pyRange, nChunks]

theorem buckets_getElem? (P : List Nat) (step j : Nat) (hj : j < nChunks P.length step) :
    (buckets P step)[j]? = some ((P.drop (j * step)).take step) := by
  unfold buckets pyRange nChunks at *
  simp [hj]

theorem flatMap_sel_range' (P : List Nat) (parts : Nat → List Row) (s : Nat) : ∀ c, s + c ≤ P.length →
    (List.range' s c).flatMap (sel P parts) = ((P.drop s).take c).flatMap parts := by
  intro c
  induction c with
  | zero => intro _; simp
  | succ c ih =>
    intro h
    rw [List.range'_concat, List.flatMap_append, ih (by omega)]
    have hsc : s + c < P.length := by omega
    have : (P.drop s).take (c + 1) = (P.drop s).take c ++ [P[s + c]] := by
      rw [List.take_add_one]
      congr 1
      simp [List.getElem?_drop, List.getElem?_eq_getElem hsc]
    rw [this, List.flatMap_append]
    simp [sel, List.getElem?_eq_getElem hsc]

theorem bucketBounds_getElem? (n step j : Nat) (hj : j < nChunks n step) : (bucketBounds n step)[j]? = some (j * step) := by
  unfold bucketBounds
  rw [List.getElem?_append_left (by simpa [pyRange_length] using hj)]
  exact pyRange_getElem? n step j hj

theorem bucketBounds_last (n step : Nat) : (bucketBounds n step)[nChunks n step]? = some n := by
  unfold bucketBounds
  rw [List.getElem?_append_right (by simp [pyRange_length])]
  simp [pyRange_length]

/-- **tasks**: bucket `j` of the fused reader is merged output `j` of the selected partitions -/
theorem fusedRows_eq_fewerSem (P : List Nat) (step : Nat) (hs : 1 ≤ step) (parts : Nat → List Row) (j : Nat)
    (hj : j < nChunks P.length step) :
    fusedRows P step parts j = fewerSem (bucketBounds P.length step) (sel P parts) j := by
  have hm : 1 ≤ nChunks P.length step := by omega
  have ⟨hA, hB⟩ := nChunks_bounds P.length step hs hm
  unfold fusedRows fewerSem
  rw [buckets_getElem? P step j hj, bucketBounds_getElem? _ _ j hj]
  have hjs : j * step ≤ (nChunks P.length step - 1) * step := Nat.mul_le_mul_right step (by omega)
  by_cases hlast : j + 1 = nChunks P.length step
  · rw [hlast, bucketBounds_last]
    simp only
    have hmc : nChunks P.length step * step = j * step + step := by rw [← hlast, Nat.add_mul, Nat.one_mul]
    rw [flatMap_sel_range' P parts (j * step) (P.length - j * step) (by omega)]
    congr 1
    rw [List.take_of_length_le (by simp; omega), List.take_of_length_le (by simp)]
  · rw [bucketBounds_getElem? _ _ (j+1) (by omega)]
    simp only
    have hexp : (j + 1) * step = j * step + step := by rw [Nat.add_mul, Nat.one_mul]
    have hmono : (j + 1) * step ≤ (nChunks P.length step - 1) * step := Nat.mul_le_mul_right step (by omega)
    have : (j + 1) * step - j * step = step := by omega
    rw [this, flatMap_sel_range' P parts (j * step) step (by omega)]

theorem bucketHeads_spec (full : List Int) : ∀ (bs : List (List Nat)) (r : List Int), bucketHeads full bs = some r →
    r.length = bs.length ∧ ∀ (j : Nat) (b : List Nat) (h : Nat), bs[j]? = some b → b.head? = some h → r[j]? = full[h]? := by
  intro bs
  induction bs with
  | nil =>
    intro r hr
    simp [bucketHeads] at hr
    subst hr
    exact ⟨rfl, fun j b h hj => by simp at hj⟩
  | cons b0 t ih =>
    intro r hr
    unfold bucketHeads at hr
    cases hh : b0.head? with
    | none => simp [hh] at hr
    | some h0 =>
      cases ht : bucketHeads full t with
      | none => simp [hh, ht] at hr
      | some rt =>
        cases hv : full[h0]? with
        | none => simp [hh, ht, hv] at hr
        | some v =>
          simp only [hh, ht, hv, Option.some.injEq] at hr
          subst hr
          have ⟨hl, hsp⟩ := ih rt ht
          refine ⟨by simp [hl], ?_⟩
          intro j b h hj hb
          cases j with
          | zero =>
            simp at hj; subst hj
            rw [hh] at hb; cases hb
            simp [hv]
          | succ j => simp at hj; simpa using hsp j b h hj hb

theorem bucketHeads_some (full : List Int) : ∀ (bs : List (List Nat)),
    (∀ b ∈ bs, ∃ h, b.head? = some h ∧ h < full.length) → ∃ r, bucketHeads full bs = some r := by
  intro bs
  induction bs with
  | nil => intro _; exact ⟨[], rfl⟩
  | cons b0 t ih =>
    intro h
    obtain ⟨r, hr⟩ := ih (fun b hb => h b (List.mem_cons_of_mem _ hb))
    obtain ⟨h0, hh0, hlt⟩ := h b0 (List.mem_cons_self ..)
    exact ⟨full[h0] :: r, by simp [bucketHeads, hh0, hr, List.getElem?_eq_getElem hlt]⟩

/-- **divisions**: `[divisions[b[0]] for b in buckets] + [divisions[buckets[-1][-1] + 1]]` are the selected
    divisions read at the bucket boundaries -/
theorem fusedDivisions_eq_fewer (full : List Int) (P : List Nat) (step : Nat) (hs : 1 ≤ step) (n : Nat)
    (hfl : full.length = n + 1) (hP : ∀ p ∈ P, p < n) (hne : P ≠ []) (d' d'' : List Int)
    (hd' : selDivisions full P = .ok (some d'))
    (hd'' : fewerDivisions d' (bucketBounds P.length step) = some d'') :
    fusedDivisions full P step = some d'' := by
  have ⟨_, hlen', hsp', hlast'⟩ := selDivisions_spec full P d' hd'
  have hPpos : 0 < P.length := List.length_pos_iff.mpr hne
  have hm : 1 ≤ nChunks P.length step := by
    unfold nChunks
    exact (Nat.le_div_iff_mul_le (by omega)).mpr (by omega)
  have ⟨hA, hB⟩ := nChunks_bounds P.length step hs hm
  obtain ⟨last, hl⟩ : ∃ last, P.getLast? = some last := by
    cases hh : P.getLast? with
    | none => exact absurd (List.getLast?_eq_none_iff.mp hh) hne
    | some l => exact ⟨l, rfl⟩
  have ⟨hdl, hl1⟩ := hlast' last hl
  -- the last bucket ends with the last selected partition
  have hflat := buckets_flatten P step hs
  have hbl := buckets_length P step
  have hlb : (buckets P step).getLast? = some ((P.drop ((nChunks P.length step - 1) * step)).take step) := by
    rw [List.getLast?_eq_getElem?, hbl]
    exact buckets_getElem? P step _ (by omega)
  have hdroplen : ((P.drop ((nChunks P.length step - 1) * step)).take step) = P.drop ((nChunks P.length step - 1) * step) := by
    apply List.take_of_length_le
    have hmc : nChunks P.length step * step = (nChunks P.length step - 1) * step + step := by
      have : nChunks P.length step = (nChunks P.length step - 1) + 1 := by omega
      rw [this, Nat.add_mul, Nat.one_mul]; simp
    simp; omega
  have hlblast : ((P.drop ((nChunks P.length step - 1) * step)).take step).getLast? = some last := by
    rw [hdroplen, List.getLast?_drop]
    simp [hl]; omega
  -- heads of the buckets
  have hheads : ∀ b ∈ buckets P step, ∃ h, b.head? = some h ∧ h < full.length := by
    intro b hb
    obtain ⟨j, hj, rfl⟩ := List.getElem_of_mem hb
    have hj' : j < nChunks P.length step := by omega
    have hbj := buckets_getElem? P step j hj'
    have hbe : (buckets P step)[j] = (P.drop (j * step)).take step := by
      rw [List.getElem?_eq_getElem hj] at hbj
      exact Option.some.inj hbj
    rw [hbe]
    have hj := hj'
    have hjs : j * step ≤ (nChunks P.length step - 1) * step := Nat.mul_le_mul_right step (by omega)
    have hjl : j * step < P.length := by omega
    refine ⟨P[j * step], ?_, ?_⟩
    · rw [List.head?_take, if_neg (by omega), List.head?_drop, List.getElem?_eq_getElem hjl]
    · have := hP _ (List.getElem_mem hjl); omega
  obtain ⟨r, hr⟩ := bucketHeads_some full (buckets P step) hheads
  have ⟨hrl, hrs⟩ := bucketHeads_spec full (buckets P step) r hr
  have ⟨hd2l, hd2s⟩ := fewerDivisions_spec d' (bucketBounds P.length step) d'' hd''
  have hbbl : (bucketBounds P.length step).length = nChunks P.length step + 1 := by
    simp [bucketBounds, pyRange_length]
  unfold fusedDivisions
  simp only [hlb, hlblast, hr, List.getElem?_eq_getElem hl1]
  congr 1
  apply List.ext_getElem?
  intro j
  by_cases hj : j < nChunks P.length step
  · rw [List.getElem?_append_left (by omega)]
    have hjs : j * step ≤ (nChunks P.length step - 1) * step := Nat.mul_le_mul_right step (by omega)
    have hjl : j * step < P.length := by omega
    have hb := buckets_getElem? P step j hj
    have hhd : ((P.drop (j * step)).take step).head? = some P[j * step] := by
      rw [List.head?_take, if_neg (by omega), List.head?_drop, List.getElem?_eq_getElem hjl]
    rw [hrs j _ _ hb hhd, hd2s j (j * step) (bucketBounds_getElem? _ _ j hj),
        hsp' (j * step) P[j * step] (List.getElem?_eq_getElem hjl)]
  · by_cases hje : j = nChunks P.length step
    · subst hje
      rw [List.getElem?_append_right (by omega)]
      simp only [hrl, hbl, Nat.sub_self, List.getElem?_cons_zero]
      rw [hd2s _ P.length (bucketBounds_last _ _), hdl, List.getElem?_eq_getElem hl1]
    · rw [List.getElem?_eq_none (by simp; omega), List.getElem?_eq_none (by omega)]

end Dx.Parts

namespace Dx.Parts
open Dx Dx.Repartition

theorem divInv_congr {d : List Int} {n : Nat} {p q : Nat → List Row} (h : ∀ i, i < n → q i = p i)
    (hinv : DivInv d n p) : DivInv d n q := by
  refine ⟨hinv.len, hinv.sorted, ?_, ?_⟩
  · intro i lo hi hlo hhi r hr
    have hi1 : i + 1 < d.length := (List.getElem?_eq_some_iff.mp hhi).1
    have hin : i < n := by have := hinv.len; omega
    rw [h i hin] at hr
    exact hinv.bounds i lo hi hlo hhi r hr
  · intro i hi
    rw [h i hi]; exact hinv.rowsSorted i hi

theorem strictMono_of_getElem : ∀ (bs : List Nat), (∀ i (h : i + 1 < bs.length), bs[i] < bs[i+1]) → strictMono bs = true := by
  intro bs
  induction bs with
  | nil => intro _; rfl
  | cons a t ih =>
    intro h
    cases t with
    | nil => rfl
    | cons b t' =>
      rw [strictMono_cons]
      refine ⟨?_, ih (fun i hi => ?_)⟩
      · have := h 0 (by simp)
        simpa using this
      · have := h (i + 1) (by simp at hi ⊢; omega)
        simpa using this

theorem mono_of_strictMono : ∀ (bs : List Nat), strictMono bs = true → mono bs = true := by
  intro bs
  induction bs with
  | nil => intro _; rfl
  | cons a t ih =>
    intro h
    cases t with
    | nil => rfl
    | cons b t' =>
      have ⟨h1, h2⟩ := strictMono_cons.mp h
      rw [mono_cons]
      exact ⟨by omega, ih h2⟩

theorem bucketBounds_ok (n step : Nat) (hs : 1 ≤ step) (hn : 1 ≤ n) :
    boundariesOK (bucketBounds n step) n = true ∧ strictMono (bucketBounds n step) = true := by
  have hm : 1 ≤ nChunks n step := by
    unfold nChunks
    exact (Nat.le_div_iff_mul_le (by omega)).mpr (by omega)
  have ⟨hA, hB⟩ := nChunks_bounds n step hs hm
  have hlen : (bucketBounds n step).length = nChunks n step + 1 := by simp [bucketBounds, pyRange_length]
  have hsm : strictMono (bucketBounds n step) = true := by
    apply strictMono_of_getElem
    intro i hi
    rw [hlen] at hi
    have e1 := bucketBounds_getElem? n step i (by omega)
    rw [List.getElem?_eq_getElem (by omega)] at e1
    have e1' := Option.some.inj e1
    by_cases hl : i + 1 = nChunks n step
    · have e2 := bucketBounds_last n step
      rw [← hl, List.getElem?_eq_getElem (by omega)] at e2
      have e2' := Option.some.inj e2
      have : i * step = (nChunks n step - 1) * step := by rw [← hl]; simp
      omega
    · have e2 := bucketBounds_getElem? n step (i+1) (by omega)
      rw [List.getElem?_eq_getElem (by omega)] at e2
      have e2' := Option.some.inj e2
      have hexp : (i + 1) * step = i * step + step := by rw [Nat.add_mul, Nat.one_mul]
      omega
  refine ⟨?_, hsm⟩
  rw [boundariesOK_iff]
  refine ⟨?_, ?_, mono_of_strictMono _ hsm⟩
  · rw [List.head?_eq_getElem?, bucketBounds_getElem? n step 0 (by omega)]; simp
  · rw [List.getLast?_eq_getElem?, hlen]
    exact bucketBounds_last n step

end Dx.Parts
