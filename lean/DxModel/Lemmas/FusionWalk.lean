/-
  Lemmas/FusionWalk.lean — the first half of `_fusion_pass` (global dependents / dependencies maps):
  what the maps contain when the walk ends, and that the walk never runs out of fuel.
-/
import DxModel.Fusion
namespace Dx.Fusion
open Dx

/-- `x` is an operand-descendant of the plan root (what the operand walk of `_fusion_pass` reaches) -/
inductive Reach (dag : Dag) (root : Nat) : Nat → Prop where
  | root : Reach dag root root
  | step {c d : Nat} : Reach dag root c → d ∈ depsOf dag c → Reach dag root d

/-! ### dicts -/

theorem Dict.mem_add_val (d : Dict) (k v x k' : Nat) :
    x ∈ (d.add k v).val k' ↔ x ∈ d.val k' ∨ (k' = k ∧ x = v) := by
  unfold Dict.add
  simp only
  by_cases hk : k' = k
  · subst hk
    by_cases hv : v ∈ d.val k'
    · simp only [hv, if_true]
      constructor
      · intro h; exact Or.inl h
      · rintro (h | ⟨_, h⟩)
        · exact h
        · exact h ▸ hv
    · simp only [hv, if_false, if_true, List.mem_append, List.mem_singleton]
      constructor
      · rintro (h | h)
        · exact Or.inl h
        · exact Or.inr ⟨trivial, h⟩
      · rintro (h | ⟨_, h⟩)
        · exact Or.inl h
        · exact Or.inr h
  · simp only [hk, if_false, false_and, or_false]

theorem Dict.mem_add_keys (d : Dict) (k v k' : Nat) :
    k' ∈ (d.add k v).keys ↔ k' ∈ d.keys ∨ k' = k := by
  unfold Dict.add
  simp only
  by_cases hk : k ∈ d.keys
  · simp only [hk, if_true]
    constructor
    · intro h; exact Or.inl h
    · rintro (h | rfl)
      · exact h
      · exact hk
  · simp only [hk, if_false, List.mem_append, List.mem_singleton]

theorem Dict.add_keys_nodup (d : Dict) (k v : Nat) (h : d.keys.Nodup) : (d.add k v).keys.Nodup := by
  unfold Dict.add
  simp only
  by_cases hk : k ∈ d.keys
  · simp only [hk, if_true]; exact h
  · simp only [hk, if_false]
    rw [List.nodup_append]
    refine ⟨h, by simp, ?_⟩
    intro a ha b hb
    simp only [List.mem_singleton] at hb
    subst hb
    intro hab; subst hab; exact hk ha

theorem Dict.touch_val (d : Dict) (k : Nat) : (d.touch k).val = d.val := by
  unfold Dict.touch
  by_cases hk : k ∈ d.keys <;> simp [hk]

theorem Dict.mem_touch_keys (d : Dict) (k k' : Nat) :
    k' ∈ (d.touch k).keys ↔ k' ∈ d.keys ∨ k' = k := by
  unfold Dict.touch
  by_cases hk : k ∈ d.keys
  · simp only [hk, if_true]
    constructor
    · intro h; exact Or.inl h
    · rintro (h | rfl)
      · exact h
      · exact hk
  · simp only [hk, if_false, List.mem_append, List.mem_singleton]

theorem Dict.touch_keys_nodup (d : Dict) (k : Nat) (h : d.keys.Nodup) : (d.touch k).keys.Nodup := by
  unfold Dict.touch
  by_cases hk : k ∈ d.keys
  · simp only [hk, if_true]; exact h
  · simp only [hk, if_false]
    rw [List.nodup_append]
    refine ⟨h, by simp, ?_⟩
    intro a ha b hb
    simp only [List.mem_singleton] at hb
    subst hb
    intro hab; subst hab; exact hk ha

/-! ### the operand loop -/

theorem visitOps_stack (dag : Dag) (nx : Nat) :
    ∀ (ops st : List Nat) (m : Maps), (visitOps dag nx ops st m).1 = ops.reverse ++ st := by
  intro ops
  induction ops with
  | nil => intro st m; simp [visitOps]
  | cons op ops ih =>
    intro st m
    simp only [visitOps]
    rw [ih]
    simp

theorem visitOps_seen (dag : Dag) (nx : Nat) :
    ∀ (ops st : List Nat) (m : Maps), (visitOps dag nx ops st m).2.seen = m.seen := by
  intro ops
  induction ops with
  | nil => intro st m; simp [visitOps]
  | cons op ops ih =>
    intro st m
    simp only [visitOps]
    rw [ih]
    by_cases hb : isBw dag op = true <;> simp [hb]

theorem visitOps_dependents_val (dag : Dag) (nx : Nat) :
    ∀ (ops st : List Nat) (m : Maps) (k x : Nat),
      x ∈ (visitOps dag nx ops st m).2.dependents.val k ↔
        x ∈ m.dependents.val k ∨ (x = nx ∧ k ∈ ops ∧ isBw dag k = true) := by
  intro ops
  induction ops with
  | nil => intro st m k x; simp [visitOps]
  | cons op ops ih =>
    intro st m k x
    simp only [visitOps]
    rw [ih]
    by_cases hb : isBw dag op = true
    · simp only [hb, if_true, Dict.mem_add_val, List.mem_cons]
      constructor
      · rintro ((h | ⟨rfl, rfl⟩) | ⟨h1, h2, h3⟩)
        · exact Or.inl h
        · exact Or.inr ⟨rfl, Or.inl rfl, hb⟩
        · exact Or.inr ⟨h1, Or.inr h2, h3⟩
      · rintro (h | ⟨h1, (rfl | h2), h3⟩)
        · exact Or.inl (Or.inl h)
        · exact Or.inl (Or.inr ⟨rfl, h1⟩)
        · exact Or.inr ⟨h1, h2, h3⟩
    · simp only [hb, List.mem_cons]
      constructor
      · rintro (h | ⟨h1, h2, h3⟩)
        · exact Or.inl h
        · exact Or.inr ⟨h1, Or.inr h2, h3⟩
      · rintro (h | ⟨h1, (rfl | h2), h3⟩)
        · exact Or.inl h
        · exact absurd h3 hb
        · exact Or.inr ⟨h1, h2, h3⟩

theorem visitOps_dependents_keys (dag : Dag) (nx : Nat) :
    ∀ (ops st : List Nat) (m : Maps) (k : Nat),
      k ∈ (visitOps dag nx ops st m).2.dependents.keys ↔
        k ∈ m.dependents.keys ∨ (k ∈ ops ∧ isBw dag k = true) := by
  intro ops
  induction ops with
  | nil => intro st m k; simp [visitOps]
  | cons op ops ih =>
    intro st m k
    simp only [visitOps]
    rw [ih]
    by_cases hb : isBw dag op = true
    · simp only [hb, if_true, Dict.mem_add_keys, List.mem_cons]
      constructor
      · rintro ((h | rfl) | ⟨h2, h3⟩)
        · exact Or.inl h
        · exact Or.inr ⟨Or.inl rfl, hb⟩
        · exact Or.inr ⟨Or.inr h2, h3⟩
      · rintro (h | ⟨(rfl | h2), h3⟩)
        · exact Or.inl (Or.inl h)
        · exact Or.inl (Or.inr rfl)
        · exact Or.inr ⟨h2, h3⟩
    · simp only [hb, List.mem_cons]
      constructor
      · rintro (h | ⟨h2, h3⟩)
        · exact Or.inl h
        · exact Or.inr ⟨Or.inr h2, h3⟩
      · rintro (h | ⟨(rfl | h2), h3⟩)
        · exact Or.inl h
        · exact absurd h3 hb
        · exact Or.inr ⟨h2, h3⟩

theorem visitOps_dependents_nodup (dag : Dag) (nx : Nat) :
    ∀ (ops st : List Nat) (m : Maps), m.dependents.keys.Nodup →
      (visitOps dag nx ops st m).2.dependents.keys.Nodup := by
  intro ops
  induction ops with
  | nil => intro st m h; simpa [visitOps] using h
  | cons op ops ih =>
    intro st m h
    simp only [visitOps]
    apply ih
    by_cases hb : isBw dag op = true
    · simp only [hb, if_true]
      exact Dict.add_keys_nodup _ _ _ h
    · simp only [hb]
      exact h

theorem visitOps_dependencies_val (dag : Dag) (nx : Nat) :
    ∀ (ops st : List Nat) (m : Maps) (k x : Nat),
      x ∈ (visitOps dag nx ops st m).2.dependencies.val k →
        x ∈ m.dependencies.val k ∨ (k = nx ∧ x ∈ ops ∧ isBw dag x = true) := by
  intro ops
  induction ops with
  | nil => intro st m k x h; simpa [visitOps] using h
  | cons op ops ih =>
    intro st m k x h
    simp only [visitOps] at h
    rcases ih _ _ _ _ h with h | ⟨h1, h2, h3⟩
    · by_cases hb : isBw dag op = true
      · simp only [hb, if_true] at h
        by_cases hk : nx ∈ m.dependencies.keys
        · simp only [hk, if_true, Dict.mem_add_val] at h
          rcases h with h | ⟨rfl, rfl⟩
          · exact Or.inl h
          · exact Or.inr ⟨rfl, by simp, hb⟩
        · simp only [hk, if_false] at h
          exact Or.inl h
      · simp only [hb] at h
        exact Or.inl h
    · exact Or.inr ⟨h1, by simp [h2], h3⟩

/-! ### the walk -/

/-- what holds of the maps while (and after) the operand walk runs; `st` is the stack -/
structure WInv (dag : Dag) (root : Nat) (st : List Nat) (m : Maps) : Prop where
  /-- operands of visited nodes are visited or waiting -/
  closure : ∀ s ∈ m.seen, ∀ d ∈ depsOf dag s, d ∈ m.seen ∨ d ∈ st
  /-- every visited dependent of a blockwise node is recorded -/
  edges : ∀ s ∈ m.seen, ∀ d ∈ depsOf dag s, isBw dag d = true → s ∈ m.dependents.val d
  /-- recorded dependents are visited nodes having the key as an operand -/
  dependents_sound : ∀ k x, x ∈ m.dependents.val k → x ∈ m.seen ∧ k ∈ depsOf dag x ∧ isBw dag k = true
  /-- recorded dependencies are blockwise operands of a blockwise node -/
  dependencies_sound : ∀ k x, x ∈ m.dependencies.val k → isBw dag x = true ∧ x ∈ depsOf dag k ∧ k ∈ m.seen
  /-- the keys of `dependents` are exactly the reached blockwise nodes -/
  keys_bw : ∀ k ∈ m.dependents.keys, isBw dag k = true ∧ (k ∈ m.seen ∨ k ∈ st)
  keys_complete : ∀ s ∈ m.seen, isBw dag s = true → s ∈ m.dependents.keys
  keys_nodup : m.dependents.keys.Nodup
  reach : ∀ x, x ∈ m.seen ∨ x ∈ st → Reach dag root x
  root_in : root ∈ m.seen ∨ root ∈ st

theorem WInv.init (dag : Dag) (root : Nat) : WInv dag root [root] ⟨Dict.empty, Dict.empty, []⟩ := by
  refine ⟨?_, ?_, ?_, ?_, ?_, ?_, ?_, ?_, ?_⟩
  · intro s hs; cases hs
  · intro s hs; cases hs
  · intro k x hx; simp [Dict.empty] at hx
  · intro k x hx; simp [Dict.empty] at hx
  · intro k hk; simp [Dict.empty] at hk
  · intro s hs; cases hs
  · simp [Dict.empty]
  · intro x hx
    rcases hx with hx | hx
    · cases hx
    · simp only [List.mem_singleton] at hx; subst hx; exact Reach.root
  · right; simp

/-- one iteration of the `while stack:` loop on an unvisited node -/
theorem WInv.visit (dag : Dag) (root nx : Nat) (st : List Nat) (m : Maps)
    (h : WInv dag root (nx :: st) m) (hns : nx ∉ m.seen) :
    let m1 : Maps :=
      if isBw dag nx then
        { dependencies := m.dependencies.touch nx, dependents := m.dependents.touch nx, seen := nx :: m.seen }
      else { m with seen := nx :: m.seen }
    let r := visitOps dag nx (depsOf dag nx) st m1
    WInv dag root r.1 r.2 := by
  intro m1 r
  have hm1seen : m1.seen = nx :: m.seen := by
    simp only [m1]; by_cases hb : isBw dag nx = true <;> simp [hb]
  have hm1dv : m1.dependents.val = m.dependents.val := by
    simp only [m1]; by_cases hb : isBw dag nx = true <;> simp [hb, Dict.touch_val]
  have hm1cv : m1.dependencies.val = m.dependencies.val := by
    simp only [m1]; by_cases hb : isBw dag nx = true <;> simp [hb, Dict.touch_val]
  have hm1dk : ∀ k, k ∈ m1.dependents.keys ↔ k ∈ m.dependents.keys ∨ (k = nx ∧ isBw dag nx = true) := by
    intro k
    simp only [m1]
    by_cases hb : isBw dag nx = true
    · simp [hb, Dict.mem_touch_keys]
    · simp [hb]
  have hm1nd : m1.dependents.keys.Nodup := by
    simp only [m1]
    by_cases hb : isBw dag nx = true
    · simp only [hb, if_true]; exact Dict.touch_keys_nodup _ _ h.keys_nodup
    · simp only [hb]; exact h.keys_nodup
  have hst : r.1 = (depsOf dag nx).reverse ++ st := visitOps_stack _ _ _ _ _
  have hseen : r.2.seen = nx :: m.seen := by
    rw [show r.2.seen = m1.seen from visitOps_seen _ _ _ _ _, hm1seen]
  have hdv : ∀ k x, x ∈ r.2.dependents.val k ↔
      x ∈ m.dependents.val k ∨ (x = nx ∧ k ∈ depsOf dag nx ∧ isBw dag k = true) := by
    intro k x
    rw [show r.2 = (visitOps dag nx (depsOf dag nx) st m1).2 from rfl, visitOps_dependents_val, hm1dv]
  refine ⟨?_, ?_, ?_, ?_, ?_, ?_, ?_, ?_, ?_⟩
  · intro s hs d hd
    rw [hseen] at hs ⊢
    rw [hst]
    rcases List.mem_cons.mp hs with rfl | hs
    · right; simp [hd]
    · rcases h.closure s hs d hd with h1 | h1
      · left; exact List.mem_cons_of_mem _ h1
      · rcases List.mem_cons.mp h1 with rfl | h1
        · left; simp
        · right; simp [h1]
  · intro s hs d hd hbw
    rw [hseen] at hs
    rw [hdv]
    rcases List.mem_cons.mp hs with rfl | hs
    · exact Or.inr ⟨rfl, hd, hbw⟩
    · exact Or.inl (h.edges s hs d hd hbw)
  · intro k x hx
    rw [hdv] at hx
    rw [hseen]
    rcases hx with hx | ⟨rfl, hk, hb⟩
    · obtain ⟨a, b, c⟩ := h.dependents_sound k x hx
      exact ⟨List.mem_cons_of_mem _ a, b, c⟩
    · exact ⟨by simp, hk, hb⟩
  · intro k x hx
    rw [hseen]
    rcases visitOps_dependencies_val _ _ _ _ _ _ _ hx with hx | ⟨rfl, hx, hb⟩
    · rw [hm1cv] at hx
      obtain ⟨a, b, c⟩ := h.dependencies_sound k x hx
      exact ⟨a, b, List.mem_cons_of_mem _ c⟩
    · exact ⟨hb, hx, by simp⟩
  · intro k hk
    rw [show r.2 = (visitOps dag nx (depsOf dag nx) st m1).2 from rfl, visitOps_dependents_keys, hm1dk] at hk
    rw [hseen, hst]
    rcases hk with (hk | ⟨rfl, hb⟩) | ⟨hk, hb⟩
    · obtain ⟨a, b⟩ := h.keys_bw k hk
      refine ⟨a, ?_⟩
      rcases b with b | b
      · left; exact List.mem_cons_of_mem _ b
      · rcases List.mem_cons.mp b with rfl | b
        · left; simp
        · right; simp [b]
    · exact ⟨hb, Or.inl (by simp)⟩
    · exact ⟨hb, Or.inr (by simp [hk])⟩
  · intro s hs hb
    rw [hseen] at hs
    rw [show r.2 = (visitOps dag nx (depsOf dag nx) st m1).2 from rfl, visitOps_dependents_keys, hm1dk]
    rcases List.mem_cons.mp hs with rfl | hs
    · exact Or.inl (Or.inr ⟨rfl, hb⟩)
    · exact Or.inl (Or.inl (h.keys_complete s hs hb))
  · exact visitOps_dependents_nodup _ _ _ _ _ hm1nd
  · intro x hx
    rw [hseen, hst] at hx
    have hnx : Reach dag root nx := h.reach nx (Or.inr (by simp))
    rcases hx with hx | hx
    · rcases List.mem_cons.mp hx with rfl | hx
      · exact hnx
      · exact h.reach x (Or.inl hx)
    · rcases List.mem_append.mp hx with hx | hx
      · exact Reach.step hnx (List.mem_reverse.mp hx)
      · exact h.reach x (Or.inr (List.mem_cons_of_mem _ hx))
  · rw [hseen, hst]
    rcases h.root_in with h1 | h1
    · left; exact List.mem_cons_of_mem _ h1
    · rcases List.mem_cons.mp h1 with rfl | h1
      · left; simp
      · right; simp [h1]

/-- popping an already visited node keeps the invariant -/
theorem WInv.skip (dag : Dag) (root nx : Nat) (st : List Nat) (m : Maps)
    (h : WInv dag root (nx :: st) m) (hs : nx ∈ m.seen) : WInv dag root st m := by
  refine ⟨?_, h.edges, h.dependents_sound, h.dependencies_sound, ?_, h.keys_complete, h.keys_nodup, ?_, ?_⟩
  · intro s hs' d hd
    rcases h.closure s hs' d hd with h1 | h1
    · exact Or.inl h1
    · rcases List.mem_cons.mp h1 with rfl | h1
      · exact Or.inl hs
      · exact Or.inr h1
  · intro k hk
    obtain ⟨a, b⟩ := h.keys_bw k hk
    refine ⟨a, ?_⟩
    rcases b with b | b
    · exact Or.inl b
    · rcases List.mem_cons.mp b with rfl | b
      · exact Or.inl hs
      · exact Or.inr b
  · intro x hx
    rcases hx with hx | hx
    · exact h.reach x (Or.inl hx)
    · exact h.reach x (Or.inr (List.mem_cons_of_mem _ hx))
  · rcases h.root_in with h1 | h1
    · exact Or.inl h1
    · rcases List.mem_cons.mp h1 with rfl | h1
      · exact Or.inl hs
      · exact Or.inr h1

theorem walk_inv (dag : Dag) (root : Nat) :
    ∀ (fuel : Nat) (st : List Nat) (m m' : Maps), WInv dag root st m →
      walk dag fuel st m = some m' → WInv dag root [] m' := by
  intro fuel
  induction fuel with
  | zero =>
    intro st m m' h hw
    cases st with
    | nil => simp only [walk] at hw; cases hw; exact h
    | cons a t => simp [walk] at hw
  | succ fuel ih =>
    intro st m m' h hw
    cases st with
    | nil => simp only [walk] at hw; cases hw; exact h
    | cons nx st =>
      simp only [walk] at hw
      by_cases hs : nx ∈ m.seen
      · simp only [hs, if_true] at hw
        exact ih st m m' (h.skip dag root nx st m hs) hw
      · simp only [hs, if_false] at hw
        exact ih _ _ m' (h.visit dag root nx st m hs) hw

/-- the result of the first half of `_fusion_pass` -/
theorem globalMaps_inv (dag : Dag) (root : Nat) (m : Maps) (h : globalMaps dag root = some m) :
    WInv dag root [] m :=
  walk_inv dag root _ _ _ m (WInv.init dag root) h

/-- every operand-descendant of the root is visited -/
theorem reach_seen (dag : Dag) (root : Nat) (m : Maps) (h : WInv dag root [] m) :
    ∀ x, Reach dag root x → x ∈ m.seen := by
  intro x hx
  induction hx with
  | root =>
    rcases h.root_in with h1 | h1
    · exact h1
    · cases h1
  | step _ hd ih =>
    rcases h.closure _ ih _ hd with h1 | h1
    · exact h1
    · cases h1

theorem seen_reach (dag : Dag) (root : Nat) (m : Maps) (h : WInv dag root [] m) :
    ∀ x, x ∈ m.seen → Reach dag root x := fun x hx => h.reach x (Or.inl hx)

/-! ### the walk never runs out of fuel -/

/-- operand slots of the nodes not yet visited -/
def unvisited (dag : Dag) (seen : List Nat) : Nat :=
  ((dag.filter (fun nd => !decide (nd.name ∈ seen))).map (fun nd => nd.deps.length + 1)).sum

theorem unvisited_mono (dag : Dag) (seen : List Nat) (x : Nat) :
    unvisited dag (x :: seen) ≤ unvisited dag seen := by
  unfold unvisited
  induction dag with
  | nil => simp
  | cons nd t ih =>
    simp only [List.filter_cons]
    by_cases h1 : nd.name ∈ seen
    · have h2 : nd.name ∈ x :: seen := List.mem_cons_of_mem _ h1
      simp only [h1, h2, decide_true, Bool.not_true]
      simpa using ih
    · by_cases h2 : nd.name ∈ x :: seen
      · simp only [h1, h2, decide_true, decide_false, Bool.not_true, Bool.not_false, if_true,
          List.map_cons, List.sum_cons]
        have := ih
        simp only [Bool.false_eq_true, if_false]
        omega
      · simp only [h1, h2, decide_false, Bool.not_false, if_true, List.map_cons, List.sum_cons]
        have := ih
        omega

theorem unvisited_visit (dag : Dag) (seen : List Nat) (x : Nat) (nd : Node)
    (hg : getNode dag x = some nd) (hx : x ∉ seen) :
    unvisited dag (x :: seen) + nd.deps.length + 1 ≤ unvisited dag seen := by
  unfold unvisited getNode at *
  induction dag with
  | nil => simp at hg
  | cons n t ih =>
    simp only [List.find?_cons] at hg
    by_cases hn : (n.name == x) = true
    · simp only [hn] at hg
      cases hg
      have hnx : nd.name = x := by simpa using hn
      have h1 : nd.name ∉ seen := hnx ▸ hx
      have h2 : nd.name ∈ x :: seen := by simp [hnx]
      simp only [List.filter_cons, h1, h2, decide_true, decide_false, Bool.not_true, Bool.not_false,
        if_true, List.map_cons, List.sum_cons, Bool.false_eq_true, if_false]
      have := unvisited_mono t seen x
      unfold unvisited at this
      omega
    · simp only [hn] at hg
      have := ih hg
      simp only [List.filter_cons]
      by_cases h1 : n.name ∈ seen
      · have h2 : n.name ∈ x :: seen := List.mem_cons_of_mem _ h1
        simp only [h1, h2, decide_true, Bool.not_true, Bool.false_eq_true, if_false]
        omega
      · have hne : n.name ≠ x := by simpa using hn
        have h2 : n.name ∉ x :: seen := by
          intro hm
          rcases List.mem_cons.mp hm with h | h
          · exact hne h
          · exact h1 h
        simp only [h1, h2, decide_false, Bool.not_false, if_true, List.map_cons, List.sum_cons]
        omega

theorem walk_total (dag : Dag) :
    ∀ (fuel : Nat) (st : List Nat) (m : Maps), st.length + unvisited dag m.seen < fuel →
      (walk dag fuel st m).isSome = true := by
  intro fuel
  induction fuel with
  | zero => intro st m h; omega
  | succ fuel ih =>
    intro st m h
    cases st with
    | nil => simp [walk]
    | cons nx st =>
      simp only [walk]
      by_cases hs : nx ∈ m.seen
      · simp only [hs, if_true]
        apply ih
        simp only [List.length_cons] at h
        omega
      · simp only [hs, if_false]
        apply ih
        rw [visitOps_stack, visitOps_seen]
        have hseen : (if isBw dag nx = true then
            ({ dependencies := m.dependencies.touch nx, dependents := m.dependents.touch nx, seen := nx :: m.seen } : Maps)
            else { m with seen := nx :: m.seen }).seen = nx :: m.seen := by
          by_cases hb : isBw dag nx = true <;> simp [hb]
        rw [hseen]
        simp only [List.length_append, List.length_reverse, List.length_cons] at h ⊢
        unfold depsOf
        cases hg : getNode dag nx with
        | none =>
          simp only [List.length_nil]
          have := unvisited_mono dag m.seen nx
          omega
        | some nd =>
          simp only
          have := unvisited_visit dag m.seen nx nd hg hs
          omega

theorem unvisited_nil (dag : Dag) : unvisited dag [] = totalDeps dag := by
  unfold unvisited totalDeps
  congr 1
  congr 1
  induction dag with
  | nil => rfl
  | cons n t ih => simp

theorem globalMaps_total (dag : Dag) (root : Nat) : (globalMaps dag root).isSome = true := by
  unfold globalMaps
  apply walk_total
  simp only [List.length_singleton, unvisited_nil, walkFuel]
  omega

end Dx.Fusion
