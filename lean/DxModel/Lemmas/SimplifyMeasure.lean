/-
  Lemmas/SimplifyMeasure.lean — every rule shape of DxModel/SimplifyMeasure.lean strictly decreases the
  lexicographic measure; well-foundedness; consequences for the `simplify` loop model of Termination.lean.
  Core Lean only.
-/
import DxModel.SimplifyMeasure
import DxModel.Lemmas.Termination
import DxModel.Drivers
set_option linter.unusedSimpArgs false
namespace Dx.SM
open Tr

@[simp] theorem w_op (w : Nat) (ks : List Tr) : (Tr.op w ks).w = w := rfl
@[simp] theorem w_proj (w : Nat) (x : Tr) : (Tr.proj w x).w = w := rfl
@[simp] theorem w_filt (w : Nat) (x p : Tr) : (Tr.filt w x p).w = w := rfl
@[simp] theorem w_blind (w : Nat) (x : Tr) : (Tr.blind w x).w = w := rfl

/-! ### list sums: append, membership, sublists -/

theorem fsL_append : ∀ a b : List Tr, fsL (a ++ b) = fsL a + fsL b
  | [], b => by simp [fsL]
  | k :: a, b => by simp only [List.cons_append, fsL, fsL_append a b]; omega

theorem cntL_append : ∀ a b : List Tr, cntL (a ++ b) = cntL a + cntL b
  | [], b => by simp [cntL]
  | k :: a, b => by simp only [List.cons_append, cntL, cntL_append a b]; omega

theorem potFL_append : ∀ a b : List Tr, potFL (a ++ b) = potFL a + potFL b
  | [], b => by simp [potFL]
  | k :: a, b => by simp only [List.cons_append, potFL, potFL_append a b]; omega

theorem flowL_append : ∀ a b : List Tr, flowL (a ++ b) = flowL a + flowL b
  | [], b => by simp [flowL]
  | k :: a, b => by simp only [List.cons_append, flowL, flowL_append a b]; omega

theorem potPL_append : ∀ a b : List Tr, potPL (a ++ b) = potPL a + potPL b
  | [], b => by simp [potPL]
  | k :: a, b => by simp only [List.cons_append, potPL, potPL_append a b]; omega

theorem potBL_append : ∀ a b : List Tr, potBL (a ++ b) = potBL a + potBL b
  | [], b => by simp [potBL]
  | k :: a, b => by simp only [List.cons_append, potBL, potBL_append a b]; omega

theorem fs_pos : ∀ t : Tr, 1 ≤ fs t
  | .op _ ks => by simp only [fs]; omega
  | .proj _ x => by simp only [fs]; exact fs_pos x
  | .filt _ x _ => by simp only [fs]; exact fs_pos x
  | .blind _ x => by simp only [fs]; exact fs_pos x

theorem cnt_pos : ∀ t : Tr, 1 ≤ cnt t
  | .op _ ks => by simp only [cnt]; omega
  | .proj _ x => by simp only [cnt]; omega
  | .filt _ x _ => by simp only [cnt]; omega
  | .blind _ x => by simp only [cnt]; exact cnt_pos x

/-- everything a member of a list contributes to the list sums -/
theorem mem_le {k : Tr} : ∀ {ks : List Tr}, k ∈ ks →
    fs k ≤ fsL ks ∧ cnt k ≤ cntL ks ∧ potF k ≤ potFL ks ∧ (k.w + 1) + flow k ≤ flowL ks ∧
    potP k ≤ potPL ks ∧ potB k ≤ potBL ks
  | [], h => by cases h
  | a :: t, h => by
    simp only [fsL, cntL, potFL, flowL, potPL, potBL]
    rcases List.mem_cons.mp h with rfl | h
    · refine ⟨?_, ?_, ?_, ?_, ?_, ?_⟩ <;> omega
    · obtain ⟨h1, h2, h3, h4, h5, h6⟩ := mem_le h
      refine ⟨?_, ?_, ?_, ?_, ?_, ?_⟩ <;> omega

theorem sublist_le {a b : List Tr} (h : List.Sublist a b) :
    fsL a ≤ fsL b ∧ potFL a ≤ potFL b ∧ flowL a ≤ flowL b := by
  induction h with
  | slnil => simp
  | cons k _ ih => simp only [fsL, potFL, flowL]; omega
  | cons_cons k _ ih => simp only [fsL, potFL, flowL]; omega

/-! ### what the list relations do to the sums -/

theorem Nar.facts {b : Bool} {ks ks' : List Tr} (h : Nar b ks ks') :
    fsL ks' ≤ fsL ks ∧ potFL ks' ≤ potFL ks ∧ flowL ks' ≤ flowL ks ∧ (b = true → flowL ks' < flowL ks) := by
  induction h with
  | nil => simp
  | same k _ ih =>
    obtain ⟨h1, h2, h3, h4⟩ := ih
    simp only [fsL, potFL, flowL]
    refine ⟨by omega, by omega, by omega, fun hb => ?_⟩
    have := h4 hb; omega
  | wrapEq k d hd _ ih =>
    obtain ⟨h1, h2, h3, h4⟩ := ih
    simp only [fsL, potFL, flowL, fs, potF, flow, w_op, w_proj, w_filt, w_blind]
    refine ⟨by omega, by omega, by omega, fun hb => ?_⟩
    have := h4 hb; omega
  | wrap k d hd _ ih =>
    obtain ⟨h1, h2, h3, _⟩ := ih
    simp only [fsL, potFL, flowL, fs, potF, flow, w_op, w_proj, w_filt, w_blind]
    refine ⟨by omega, by omega, by omega, fun _ => by omega⟩
  | drop k _ ih =>
    obtain ⟨h1, h2, h3, _⟩ := ih
    simp only [fsL, potFL, flowL]
    refine ⟨by omega, by omega, by omega, fun _ => by omega⟩

theorem Wrap1.facts {ks ks' : List Tr} (h : Wrap1 ks ks') :
    fsL ks' = fsL ks ∧ potFL ks' = potFL ks ∧ flowL ks' ≤ flowL ks ∧ cntL ks' ≤ cntL ks + 1 ∧
    potPL ks' ≤ potPL ks + cntL ks := by
  induction h with
  | refl ks => refine ⟨rfl, rfl, ?_, ?_, ?_⟩ <;> omega
  | here k d ks hd =>
    simp only [fsL, potFL, flowL, cntL, potPL, fs, potF, flow, cnt, potP, w_op, w_proj, w_filt, w_blind]
    refine ⟨?_, ?_, ?_, ?_, ?_⟩ <;> first | trivial | omega
  | there k _ ih =>
    obtain ⟨h1, h2, h3, h4, h5⟩ := ih
    simp only [fsL, potFL, flowL, cntL, potPL]
    refine ⟨?_, ?_, ?_, ?_, ?_⟩ <;> omega

theorem BPush.facts {ks ks' : List Tr} (h : BPush ks ks') :
    fsL ks' = fsL ks ∧ potFL ks' = potFL ks ∧ flowL ks' ≤ flowL ks ∧ cntL ks' = cntL ks ∧
    potPL ks' = potPL ks ∧ potBL ks' ≤ potBL ks + cntL ks := by
  induction h with
  | nil => simp
  | same k _ ih =>
    obtain ⟨h1, h2, h3, h4, h5, h6⟩ := ih
    simp only [fsL, potFL, flowL, cntL, potPL, potBL]
    refine ⟨?_, ?_, ?_, ?_, ?_, ?_⟩ <;> omega
  | push k wk hw _ ih =>
    obtain ⟨h1, h2, h3, h4, h5, h6⟩ := ih
    simp only [fsL, potFL, flowL, cntL, potPL, potBL, fs, potF, flow, cnt, potP, potB, w_op, w_proj, w_filt, w_blind]
    refine ⟨?_, ?_, ?_, ?_, ?_, ?_⟩ <;> omega

/-- substituting something with no more operator nodes and no more filter potential does not increase
    either quantity of the predicate -/
theorem PSub.facts {o x : Tr} (hfs : fs x ≤ fs o) (hpf : potF x ≤ potF o) {t t' : Tr} (h : PSub o x t t') :
    fs t' ≤ fs t ∧ potF t' ≤ potF t := by
  induction h with
  | refl t => exact ⟨Nat.le_refl _, Nat.le_refl _⟩
  | self => exact ⟨hfs, hpf⟩
  | projSelf c => simp only [fs, potF]; exact ⟨hfs, hpf⟩
  | projProj c c' => simp only [fs, potF]; exact ⟨hfs, hpf⟩
  | proj c c' _ ih => simp only [fs, potF]; exact ih
  | filt w w' _ _ iha ihp => simp only [fs, potF]; omega
  | blind w w' _ ih => simp only [fs, potF]; exact ih
  | opNil w w' => simp [fs, potF]
  | opCons w w' _ _ ihk ihr =>
    simp only [fs, potF, fsL, potFL] at ihr ⊢
    omega

theorem FPush.facts {o p : Tr} {c s : Nat} {ks ks' : List Tr} (h : FPush o p c s ks ks')
    (hmem : ∀ k ∈ ks, fs k ≤ fs o ∧ potF k ≤ potF o) :
    fsL ks' = fsL ks ∧ potFL ks' ≤ potFL ks + fsL ks + s ∧ s ≤ c * potF p := by
  induction h with
  | nil => simp
  | same k _ ih =>
    obtain ⟨h1, h2, h3⟩ := ih (fun k' hk' => hmem k' (List.mem_cons_of_mem _ hk'))
    simp only [fsL, potFL]
    refine ⟨by omega, by omega, h3⟩
  | @push c s ks ks' k wk pk hw hsub _ ih =>
    obtain ⟨h1, h2, h3⟩ := ih (fun k' hk' => hmem k' (List.mem_cons_of_mem _ hk'))
    obtain ⟨hk1, hk2⟩ := hmem k (List.mem_cons_self ..)
    have hp := (PSub.facts hk1 hk2 hsub).2
    simp only [fsL, potFL, fs, potF, Nat.add_mul, Nat.one_mul]
    refine ⟨by omega, by omega, by omega⟩

/-! ### every step decreases the measure -/

theorem Good.opKid {t t' : Tr} (g : Good t t') (w : Nat) (pre post : List Tr) :
    Good (.op w (pre ++ t :: post)) (.op w (pre ++ t' :: post)) := by
  obtain ⟨hw, hfs, hd⟩ := g
  refine ⟨Nat.le_refl _, ?_, ?_⟩
  · simp only [fs, fsL_append, fsL]; omega
  · simp only [potF, flow, cnt, potP, potB, potFL_append, flowL_append, cntL_append, potPL_append, potBL_append,
      potFL, flowL, cntL, potPL, potBL]
    omega

theorem Good.projKid {t t' : Tr} (g : Good t t') (c : Nat) : Good (.proj c t) (.proj c t') := by
  obtain ⟨hw, hfs, hd⟩ := g
  refine ⟨Nat.le_refl _, ?_, ?_⟩
  · simp only [fs]; omega
  · simp only [potF, flow, cnt, potP, potB]; omega

theorem Good.filtFrame {t t' : Tr} (g : Good t t') (w : Nat) (p : Tr) : Good (.filt w t p) (.filt w t' p) := by
  obtain ⟨hw, hfs, hd⟩ := g
  refine ⟨Nat.le_refl _, ?_, ?_⟩
  · simp only [fs]; omega
  · simp only [potF, flow, cnt, potP, potB]; omega

theorem Good.filtPred {t t' : Tr} (g : Good t t') (w : Nat) (x : Tr) : Good (.filt w x t) (.filt w x t') := by
  obtain ⟨hw, hfs, hd⟩ := g
  refine ⟨Nat.le_refl _, ?_, ?_⟩
  · simp only [fs]; omega
  · simp only [potF, flow, cnt, potP, potB]; omega

theorem Good.blindKid {t t' : Tr} (g : Good t t') (w : Nat) : Good (.blind w t) (.blind w t') := by
  obtain ⟨hw, hfs, hd⟩ := g
  refine ⟨Nat.le_refl _, ?_, ?_⟩
  · simp only [fs]; omega
  · simp only [potF, flow, cnt, potP, potB]; omega

theorem step_good {t t' : Tr} (h : Step t t') : Good t t' := by
  induction h with
  | @narrow w w' ks ks' hn hw =>
    obtain ⟨h1, h2, h3, h4⟩ := hn.facts
    have h4 := h4 rfl
    refine ⟨hw, ?_, ?_⟩
    · simp only [fs]; omega
    · simp only [potF, flow]; omega
  | @projThrough c w w' ks ks' hn hc hw =>
    obtain ⟨h1, h2, h3, h4⟩ := hn.facts
    have h4 := h4 rfl
    refine ⟨hc, ?_, ?_⟩
    · simp only [fs]; omega
    · simp only [potF, flow]; omega
  | @projSink c w w' ks ks' hn hc hw =>
    obtain ⟨h1, h2, h3, h4, h5⟩ := hn.facts
    refine ⟨hc, ?_, ?_⟩
    · simp only [fs]; omega
    · simp only [potF, flow, cnt, potP]; omega
  | @leafNarrow w w' hw =>
    refine ⟨Nat.le_of_lt hw, ?_, ?_⟩
    · simp [fs]
    · simp only [potF, flow, potFL, flowL]; omega
  | @projFilterKeep w w' d x p hd hw =>
    refine ⟨hw, ?_, ?_⟩
    · simp [fs]
    · simp only [potF, flow, fs, w_op, w_proj, w_filt, w_blind]; omega
  | @projFilter c w w' d x p hd hw =>
    refine ⟨hw, ?_, ?_⟩
    · simp [fs]
    · simp only [potF, flow, cnt, potP, fs, w_op, w_proj, w_filt, w_blind]; omega
  | @projSquash c d x =>
    refine ⟨Nat.le_refl _, ?_, ?_⟩
    · simp [fs]
    · simp only [potF, flow, cnt, potP]; omega
  | @projId c x hw =>
    have := cnt_pos x
    refine ⟨hw, ?_, ?_⟩
    · simp [fs]
    · simp only [potF, flow, cnt, potP]; omega
  | @opSquash w1 w1' w2 pre post ks2 ks2' hs hw =>
    obtain ⟨h1, h2, h3⟩ := sublist_le hs
    refine ⟨hw, ?_, ?_⟩
    · simp only [fs, fsL_append, fsL]; omega
    · simp only [potF, flow, potFL_append, flowL_append, potFL, flowL, w_op, w_proj, w_filt, w_blind]; omega
  | @unwrap w ks k hk hw =>
    obtain ⟨h1, h2, h3, h4, h5, h6⟩ := mem_le hk
    refine ⟨hw, ?_, ?_⟩
    · simp only [fs]; omega
    · simp only [potF, flow]; omega
  | @filtPush w wo wo' ks ks' p c s hp hc hcp hw =>
    have hmem : ∀ k ∈ ks, fs k ≤ fs (Tr.op wo ks) ∧ potF k ≤ potF (Tr.op wo ks) := by
      intro k hk
      obtain ⟨h1, _, h3, _⟩ := mem_le hk
      simp only [fs, potF]; omega
    obtain ⟨h1, h2, h3⟩ := hp.facts hmem
    have hcp' : s ≤ potF p := by
      rcases hcp with hc1 | h0
      · have : c = 1 := by omega
        subst this; omega
      · exact h0
    refine ⟨hw, ?_, ?_⟩
    · simp only [fs]; omega
    · left; simp only [potF, fs]; omega
  | @filtSquash w w' w2 wa x p q q' hs hw =>
    have hq := (PSub.facts (o := .filt w2 x p) (x := x) (by simp [fs]) (by simp only [potF]; omega) hs).2
    have := fs_pos x
    refine ⟨hw, ?_, ?_⟩
    · simp [fs]
    · left; simp only [potF, fs, potFL]; omega
  | @filtAbsorb w wo wo' p hw =>
    refine ⟨hw, ?_, ?_⟩
    · simp [fs]
    · left; simp only [potF, fs, fsL, potFL]; omega
  | @blindPush w wo wo' ks ks' hb hw hwo =>
    obtain ⟨h1, h2, h3, h4, h5, h6⟩ := hb.facts
    refine ⟨hw, ?_, ?_⟩
    · simp only [fs]; omega
    · simp only [potF, flow, cnt, potP, potB]; omega
  | @blindProj w c c' wb x hw =>
    refine ⟨hw, ?_, ?_⟩
    · simp [fs]
    · simp only [potF, flow, cnt, potP, potB]; omega
  | @blindFilt w wf wf' x x' p p' hx hp hw =>
    refine ⟨hw, ?_, ?_⟩
    · rcases hx with rfl | ⟨wb, _, rfl⟩ <;> simp [fs]
    · rcases hx with rfl | ⟨wb, hwb, rfl⟩ <;> rcases hp with rfl | ⟨wp, hwp, rfl⟩ <;>
        simp only [potF, flow, cnt, potP, potB, fs, w_op, w_proj, w_filt, w_blind] <;> omega
  | @blindSquash w w' w2 x hw =>
    have := cnt_pos x
    refine ⟨hw, ?_, ?_⟩
    · simp [fs]
    · simp only [potF, flow, cnt, potP, potB]; omega
  | @lenPassOp w w' wo ks k hk hw =>
    obtain ⟨h1, h2, h3, h4, h5, h6⟩ := mem_le hk
    refine ⟨hw, ?_, ?_⟩
    · simp only [fs]; omega
    · simp only [potF, flow, cnt, potP, potB]; omega
  | @lenPassProj w w' c x hw =>
    refine ⟨hw, ?_, ?_⟩
    · simp [fs]
    · simp only [potF, flow, cnt, potP, potB]; omega
  | opKid _ ih => exact ih.opKid _ _ _
  | projKid _ ih => exact ih.projKid _
  | filtFrame _ ih => exact ih.filtFrame _ _
  | filtPred _ ih => exact ih.filtPred _ _
  | blindKid _ ih => exact ih.blindKid _


/-! ### the order on measures -/

/-- `LtQ` spelled out -/
def LtQ' (a b : Nat × Nat × Nat × Nat) : Prop :=
  a.1 < b.1 ∨ (a.1 = b.1 ∧ (a.2.1 < b.2.1 ∨ (a.2.1 = b.2.1 ∧ (a.2.2.1 < b.2.2.1 ∨ (a.2.2.1 = b.2.2.1 ∧ a.2.2.2 < b.2.2.2)))))

theorem ltQ_iff' (a b : Nat × Nat × Nat × Nat) : LtQ a b ↔ LtQ' a b := by
  obtain ⟨a1, a2, a3, a4⟩ := a
  obtain ⟨b1, b2, b3, b4⟩ := b
  unfold LtQ LtQ'
  constructor
  · intro h
    cases h with
    | left _ _ h => exact Or.inl h
    | right _ h =>
      refine Or.inr ⟨rfl, ?_⟩
      cases h with
      | left _ _ h => exact Or.inl h
      | right _ h =>
        refine Or.inr ⟨rfl, ?_⟩
        cases h with
        | left _ _ h => exact Or.inl h
        | right _ h => exact Or.inr ⟨rfl, h⟩
  · intro h
    rcases h with h | ⟨h1, h⟩
    · exact Prod.Lex.left _ _ h
    · simp only at h1; subst h1
      refine Prod.Lex.right _ ?_
      rcases h with h | ⟨h2, h⟩
      · exact Prod.Lex.left _ _ h
      · simp only at h2; subst h2
        refine Prod.Lex.right _ ?_
        rcases h with h | ⟨h3, h⟩
        · exact Prod.Lex.left _ _ h
        · simp only at h3; subst h3
          exact Prod.Lex.right _ h

/-- the executable comparison used by the driver decides the order -/
theorem ltQ_eq_true (a b : Nat × Nat × Nat × Nat) : ltQ a b = true ↔ LtQ a b := by
  rw [ltQ_iff']
  simp only [ltQ, LtQ', Bool.or_eq_true, Bool.and_eq_true, decide_eq_true_eq, beq_iff_eq]

theorem ltQ_wf : WellFounded LtQ :=
  (Prod.lex Nat.lt_wfRel (Prod.lex Nat.lt_wfRel (Prod.lex Nat.lt_wfRel Nat.lt_wfRel))).wf

theorem ltQ_trans {a b c : Nat × Nat × Nat × Nat} (h1 : LtQ a b) (h2 : LtQ b c) : LtQ a c := by
  rw [ltQ_iff'] at *
  unfold LtQ' at *
  omega

theorem ltQ_irrefl (a : Nat × Nat × Nat × Nat) : ¬ LtQ a a := by
  rw [ltQ_iff']
  unfold LtQ'
  omega

theorem Good.ltQ {t t' : Tr} (g : Good t t') : LtQ (msr t') (msr t) := by
  rw [ltQ_iff']
  obtain ⟨_, _, hd⟩ := g
  simp only [LtQ', msr]
  omega

theorem step_ltQ {t t' : Tr} (h : Step t t') : LtQ (msr t') (msr t) := (step_good h).ltQ

theorem transGen_ltQ {t t' : Tr} (h : Relation.TransGen Step t t') : LtQ (msr t') (msr t) := by
  induction h with
  | single h => exact step_ltQ h
  | tail _ h ih => exact ltQ_trans (step_ltQ h) ih

theorem step_wf : WellFounded (flip Step) :=
  Subrelation.wf (r := InvImage LtQ msr) (fun {a b} (h : flip Step a b) => step_ltQ h) (InvImage.wf msr ltQ_wf)

/-! ### the `simplify` loop when every pass that changes the expression decreases the measure -/

open Dx.Term in
/-- invariant of the loop: everything in `seen` is the current expression or has a larger measure -/
theorem simplifyLoop_converges (step : Nat → Nat) (tree : Nat → Tr)
    (hpass : ∀ e, step e ≠ e → LtQ (msr (tree (step e))) (msr (tree e))) :
    ∀ e seen, (∀ x ∈ seen, x = e ∨ LtQ (msr (tree e)) (msr (tree x))) →
      ∃ n r, step r = r ∧ (∃ k, r = iter step k e) ∧
        ∀ fuel, n ≤ fuel → Term.simplifyLoop step fuel e seen = some (.ok r) := by
  intro e
  induction e using (InvImage.wf (fun e => msr (tree e)) ltQ_wf).induction with
  | _ e ih =>
    intro seen hseen
    by_cases h1 : step e = e
    · refine ⟨1, e, h1, ⟨0, rfl⟩, ?_⟩
      intro fuel hf
      obtain ⟨f, rfl⟩ : ∃ f, fuel = f + 1 := ⟨fuel - 1, by omega⟩
      simp [Term.simplifyLoop, h1]
    · have hlt := hpass e h1
      have h2 : step e ∉ seen := by
        intro hm
        rcases hseen _ hm with he | hl
        · exact h1 he
        · exact ltQ_irrefl _ (ltQ_trans hl hlt)
      obtain ⟨n, r, hr, ⟨k, hk⟩, hfuel⟩ := ih (step e) hlt (step e :: seen) (by
        intro x hx
        rcases List.mem_cons.mp hx with rfl | hx
        · exact Or.inl rfl
        · rcases hseen x hx with rfl | hl
          · exact Or.inr hlt
          · exact Or.inr (ltQ_trans hlt hl))
      refine ⟨n + 1, r, hr, ⟨k + 1, by rw [hk]; rfl⟩, ?_⟩
      intro fuel hf
      obtain ⟨f, rfl⟩ : ∃ f, fuel = f + 1 := ⟨fuel - 1, by omega⟩
      simp only [Term.simplifyLoop, h1, h2, if_false]
      exact hfuel f (by omega)

/-- the same for the loop of Drivers.lean (`Expr.simplify` over expression trees with the ghost trace), for the
    expressions of a set `S` that the pass does not leave (e.g. "small enough for the per-pass fuel `m`") -/
theorem driver_simplifyLoop_converges (R : Rules) (m : Nat) (abs : Expr → Tr) (S : Expr → Prop)
    (hpass : ∀ e tr, S e → (simplifyOnce R m e ⟨collectDependents e, [], tr, false⟩).2.exhausted = false ∧
      S (simplifyOnce R m e ⟨collectDependents e, [], tr, false⟩).1 ∧
      ((simplifyOnce R m e ⟨collectDependents e, [], tr, false⟩).1 ≠ e →
        LtQ (msr (abs (simplifyOnce R m e ⟨collectDependents e, [], tr, false⟩).1)) (msr (abs e)))) :
    ∀ e seen tr, S e → (∀ x ∈ seen, x = e ∨ LtQ (msr (abs e)) (msr (abs x))) →
      ∃ n, ∀ fuel, n ≤ fuel → (Dx.simplifyLoop R m fuel e seen tr).1.st = .ok := by
  intro e
  induction e using (InvImage.wf (fun e => msr (abs e)) ltQ_wf).induction with
  | _ e ih =>
    intro seen tr hS hseen
    obtain ⟨hex, hS', hlt⟩ := hpass e tr hS
    by_cases h1 : (simplifyOnce R m e ⟨collectDependents e, [], tr, false⟩).1 = e
    · refine ⟨1, ?_⟩
      intro fuel hf
      obtain ⟨f, rfl⟩ : ∃ f, fuel = f + 1 := ⟨fuel - 1, by omega⟩
      simp [Dx.simplifyLoop, hex, h1]
    · have hlt := hlt h1
      have h2 : (simplifyOnce R m e ⟨collectDependents e, [], tr, false⟩).1 ∉ seen := by
        intro hm
        rcases hseen _ hm with he | hl
        · exact h1 he
        · exact ltQ_irrefl _ (ltQ_trans hl hlt)
      obtain ⟨n, hn⟩ := ih _ hlt ((simplifyOnce R m e ⟨collectDependents e, [], tr, false⟩).1 :: seen)
        (simplifyOnce R m e ⟨collectDependents e, [], tr, false⟩).2.trace hS' (by
        intro x hx
        rcases List.mem_cons.mp hx with rfl | hx
        · exact Or.inl rfl
        · rcases hseen x hx with rfl | hl
          · exact Or.inr hlt
          · exact Or.inr (ltQ_trans hlt hl))
      refine ⟨n + 1, ?_⟩
      intro fuel hf
      obtain ⟨f, rfl⟩ : ∃ f, fuel = f + 1 := ⟨fuel - 1, by omega⟩
      simp only [Dx.simplifyLoop, hex, Bool.false_eq_true, if_false, beq_iff_eq, h1, List.contains_iff_mem, h2]
      exact hn f (by omega)

/-! ### soundness of the executable recogniser: what the driver calls a step is a `Step` -/

theorem narB_sound : ∀ (ks ks' : List Tr) (b : Bool), narB ks ks' = some b → Nar b ks ks'
  | [], [], b, h => by
    simp only [narB, Option.some.injEq] at h
    subst h; exact Nar.nil
  | [], _ :: _, b, h => by simp [narB] at h
  | k :: ks, [], b, h => by
    simp only [narB, Option.map_eq_some_iff] at h
    obtain ⟨a, ha, rfl⟩ := h
    exact Nar.drop k (narB_sound ks [] a ha)
  | k :: ks, k' :: rest, b, h => by
    simp only [narB] at h
    split at h
    · next heq => subst heq; exact Nar.same _ (narB_sound ks rest b h)
    · next hne =>
      split at h
      · next d y =>
        split at h
        · next hc =>
          obtain ⟨rfl, hd⟩ := hc
          simp only [Option.map_eq_some_iff] at h
          obtain ⟨a, ha, rfl⟩ := h
          by_cases hlt : d < y.w
          · simp only [hlt, decide_true, Bool.or_true]
            exact Nar.wrap _ _ hlt (narB_sound ks rest a ha)
          · simp only [hlt, decide_false, Bool.or_false]
            exact Nar.wrapEq _ _ hd (narB_sound ks rest a ha)
        · simp only [Option.map_eq_some_iff] at h
          obtain ⟨a, ha, rfl⟩ := h
          exact Nar.drop k (narB_sound ks _ a ha)
      · simp only [Option.map_eq_some_iff] at h
        obtain ⟨a, ha, rfl⟩ := h
        exact Nar.drop k (narB_sound ks _ a ha)

theorem wrap1B_sound : ∀ (ks ks' : List Tr), wrap1B ks ks' = true → Wrap1 ks ks'
  | [], [], _ => Wrap1.refl _
  | [], _ :: _, h => by simp [wrap1B] at h
  | _ :: _, [], h => by simp [wrap1B] at h
  | k :: ks, k' :: ks', h => by
    simp only [wrap1B] at h
    split at h
    · next heq => subst heq; exact Wrap1.there _ (wrap1B_sound ks ks' h)
    · next hne =>
      split at h
      · next d y =>
        simp only [decide_eq_true_eq] at h
        obtain ⟨rfl, hd, rfl⟩ := h
        exact Wrap1.here _ _ _ hd
      · simp at h

theorem bpushB_sound : ∀ (ks ks' : List Tr), bpushB ks ks' = true → BPush ks ks'
  | [], [], _ => BPush.nil
  | [], _ :: _, h => by simp [bpushB] at h
  | _ :: _, [], h => by simp [bpushB] at h
  | k :: ks, k' :: ks', h => by
    simp only [bpushB, Bool.and_eq_true, Bool.or_eq_true, decide_eq_true_eq] at h
    obtain ⟨h1, h2⟩ := h
    have ih := bpushB_sound ks ks' h2
    rcases h1 with rfl | h1
    · exact BPush.same _ ih
    · split at h1
      · next wk y =>
        simp only [decide_eq_true_eq] at h1
        obtain ⟨rfl, hw⟩ := h1
        exact BPush.push _ _ hw ih
      · simp at h1

theorem isProjOf_eq {o t : Tr} (h : isProjOf o t = true) : ∃ c, t = .proj c o := by
  unfold isProjOf at h
  split at h
  · next c y => simp only [decide_eq_true_eq] at h; subst h; exact ⟨c, rfl⟩
  · simp at h

mutual
theorem psubB_sound (o x : Tr) : ∀ (t t' : Tr), psubB o x t t' = true → PSub o x t t'
  | t, t', h => by
    unfold psubB at h
    simp only [Bool.or_eq_true, decide_eq_true_eq, Bool.and_eq_true] at h
    rcases h with ((h | h) | h) | h
    · subst h; exact PSub.refl _
    · obtain ⟨rfl, rfl⟩ := h; exact PSub.self
    · obtain ⟨h1, h2⟩ := h
      obtain ⟨c, rfl⟩ := isProjOf_eq h1
      rcases h2 with rfl | h2
      · exact PSub.projSelf c
      · obtain ⟨c', rfl⟩ := isProjOf_eq h2
        exact PSub.projProj c c'
    · split at h
      · next w ks w' ks' => exact psubLB_sound o x ks ks' h w w'
      · next c a c' a' => exact PSub.proj c c' (psubB_sound o x a a' h)
      · next w a p w' a' p' =>
        simp only [Bool.and_eq_true] at h
        exact PSub.filt w w' (psubB_sound o x a a' h.1) (psubB_sound o x p p' h.2)
      · next w a w' a' => exact PSub.blind w w' (psubB_sound o x a a' h)
      · simp at h
theorem psubLB_sound (o x : Tr) : ∀ (ks ks' : List Tr), psubLB o x ks ks' = true →
    ∀ w w', PSub o x (.op w ks) (.op w' ks')
  | [], [], _ => fun w w' => PSub.opNil w w'
  | [], _ :: _, h => by simp [psubLB] at h
  | _ :: _, [], h => by simp [psubLB] at h
  | k :: ks, k' :: ks', h => by
    simp only [psubLB, Bool.and_eq_true] at h
    intro w w'
    exact PSub.opCons w w' (psubB_sound o x k k' h.1) (psubLB_sound o x ks ks' h.2 w w')
end

theorem fpushB_sound (o p : Tr) : ∀ (ks ks' : List Tr) (c s : Nat), fpushB o p ks ks' = some (c, s) → FPush o p c s ks ks'
  | [], [], c, s, h => by
    simp only [fpushB, Option.some.injEq, Prod.mk.injEq] at h
    obtain ⟨rfl, rfl⟩ := h; exact FPush.nil
  | [], _ :: _, c, s, h => by simp [fpushB] at h
  | _ :: _, [], c, s, h => by simp [fpushB] at h
  | k :: ks, k' :: ks', c, s, h => by
    simp only [fpushB] at h
    split at h
    · next heq => subst heq; exact FPush.same _ (fpushB_sound o p ks ks' c s h)
    · next hne =>
      split at h
      · next wk y pk =>
        split at h
        · next hc =>
          obtain ⟨rfl, hw, hs⟩ := hc
          simp only [Option.map_eq_some_iff, Prod.mk.injEq] at h
          obtain ⟨⟨a, b⟩, ha, rfl, rfl⟩ := h
          exact FPush.push _ _ _ hw (psubB_sound o _ p pk hs) (fpushB_sound o p ks ks' a b ha)
        · simp at h
      · simp at h

theorem maybeBlindB_sound {t t' : Tr} (h : maybeBlindB t t' = true) : MaybeBlind t t' := by
  unfold maybeBlindB at h
  simp only [Bool.or_eq_true, decide_eq_true_eq] at h
  rcases h with h | h
  · exact Or.inl h
  · split at h
    · next wb y =>
      simp only [decide_eq_true_eq] at h
      obtain ⟨rfl, hw⟩ := h
      exact Or.inr ⟨wb, hw, rfl⟩
    · simp at h

theorem squashAt_sound : ∀ (l l' : List Tr), squashAt l l' = true →
    ∃ pre w2 ks2 post ks2', l = pre ++ .op w2 ks2 :: post ∧ l' = pre ++ ks2' ++ post ∧ List.Sublist ks2' ks2
  | [], _, h => by simp [squashAt] at h
  | k :: post, l', h => by
    simp only [squashAt, Bool.or_eq_true] at h
    rcases h with h | h
    · split at h
      · next w2 ks2 =>
        simp only [Bool.and_eq_true, decide_eq_true_eq] at h
        obtain ⟨⟨hlen, hdrop⟩, hsub⟩ := h
        refine ⟨[], w2, ks2, post, l'.take (l'.length - post.length), rfl, ?_, ?_⟩
        · simp only [List.nil_append]
          conv => lhs; rw [← List.take_append_drop (l'.length - post.length) l']
          rw [hdrop]
        · exact List.isSublist_iff_sublist.mp hsub
      · simp at h
    · split at h
      · next k' rest' =>
        simp only [Bool.and_eq_true, decide_eq_true_eq] at h
        obtain ⟨rfl, h2⟩ := h
        obtain ⟨pre, w2, ks2, post', ks2', h1, h2, h3⟩ := squashAt_sound post rest' h2
        exact ⟨k' :: pre, w2, ks2, post', ks2', by rw [h1]; rfl, by rw [h2]; rfl, h3⟩
      · simp at h


theorem rootRule_sound {t t' : Tr} {r : Rule} (h : rootRule t t' = some r) : Step t t' := by
  unfold rootRule at h
  split at h
  · next w ks w' ks' =>
    split at h
    · next hc => exact Step.narrow (narB_sound _ _ _ hc.1) hc.2
    · split at h
      · next hc => obtain ⟨rfl, rfl, hw⟩ := hc; exact Step.leafNarrow hw
      · split at h
        · next hc =>
          obtain ⟨hw, hs⟩ := hc
          obtain ⟨pre, w2, ks2, post, ks2', rfl, rfl, hsub⟩ := squashAt_sound _ _ hs
          exact Step.opSquash hsub hw
        · split at h
          · next hc => exact Step.unwrap hc.1 hc.2
          · simp at h
  · next w ks =>
    split at h
    · next hc => exact Step.unwrap hc.1 hc.2
    · simp at h
  · next c w ks w' ks' =>
    split at h
    · next hc => exact Step.projThrough (narB_sound _ _ _ hc.1) hc.2.1 hc.2.2
    · split at h
      · next hc => exact Step.projSink (wrap1B_sound _ _ hc.1) hc.2.1 hc.2.2
      · split at h
        · next hc => obtain ⟨heq, hw⟩ := hc; rw [heq]; exact Step.projId hw
        · simp at h
  · next c w x p w' d x' p' =>
    split at h
    · next hc => obtain ⟨rfl, rfl, hd, hw⟩ := hc; exact Step.projFilter hd hw
    · split at h
      · next hc => obtain ⟨heq, hw⟩ := hc; rw [heq]; exact Step.projId hw
      · simp at h
  · next c d x c' x' =>
    split at h
    · next hc => obtain ⟨rfl, rfl⟩ := hc; exact Step.projSquash
    · split at h
      · next hc => obtain ⟨heq, hw⟩ := hc; rw [heq]; exact Step.projId hw
      · simp at h
  · next c x =>
    split at h
    · next hc => obtain ⟨rfl, hw⟩ := hc; exact Step.projId hw
    · simp at h
  · next w wo ks p wo' ks' =>
    split at h
    · next n s hn =>
      split at h
      · next hc => exact Step.filtPush (fpushB_sound _ _ _ _ _ _ hn) hc.1 hc.2.1 hc.2.2
      · split at h
        · next hc => obtain ⟨rfl, rfl, hw⟩ := hc; exact Step.filtAbsorb hw
        · simp at h
    · simp at h
  · next w w2 x p q w' x' wa p' q' =>
    split at h
    · next hc => obtain ⟨rfl, rfl, hs, hw⟩ := hc; exact Step.filtSquash (psubB_sound _ _ _ _ hs) hw
    · simp at h
  · next w x p w' d x' p' =>
    split at h
    · next hc => obtain ⟨rfl, rfl, hd, hw⟩ := hc; exact Step.projFilterKeep hd hw
    · simp at h
  · next w wo ks wo' ks' =>
    split at h
    · next hc => exact Step.blindPush (bpushB_sound _ _ hc.1) hc.2.1 hc.2.2
    · simp at h
  · next w wo ks w' k =>
    split at h
    · next hc => exact Step.lenPassOp hc.1 hc.2
    · simp at h
  · next w c x c' wb x' =>
    split at h
    · next hc => obtain ⟨rfl, hw⟩ := hc; exact Step.blindProj hw
    · simp at h
  · next w c x w' x' =>
    split at h
    · next hc => obtain ⟨rfl, hw⟩ := hc; exact Step.lenPassProj hw
    · simp at h
  · next w wf x p wf' x' p' =>
    split at h
    · next hc => exact Step.blindFilt (maybeBlindB_sound hc.1) (maybeBlindB_sound hc.2.1) hc.2.2
    · simp at h
  · next w w2 x w' x' =>
    split at h
    · next hc => obtain ⟨rfl, hw⟩ := hc; exact Step.blindSquash hw
    · simp at h
  · simp at h

mutual
theorem stepB_sound : ∀ (t t' : Tr), stepB t t' = true → Step t t'
  | t, t', h => by
    unfold stepB at h
    simp only [Bool.or_eq_true] at h
    rcases h with h | h
    · obtain ⟨r, hr⟩ := Option.isSome_iff_exists.mp h
      exact rootRule_sound hr
    · split at h
      · next w ks w' ks' =>
        simp only [Bool.and_eq_true, decide_eq_true_eq] at h
        obtain ⟨rfl, hl⟩ := h
        obtain ⟨pre, a, a', post, rfl, rfl, hs⟩ := stepLB_sound ks ks' hl
        exact Step.opKid hs
      · next c x c' x' =>
        simp only [Bool.and_eq_true, decide_eq_true_eq] at h
        obtain ⟨rfl, hx⟩ := h
        exact Step.projKid (stepB_sound x x' hx)
      · next w x p w' x' p' =>
        simp only [Bool.and_eq_true, Bool.or_eq_true, decide_eq_true_eq] at h
        obtain ⟨rfl, hx | hp⟩ := h
        · obtain ⟨rfl, hx⟩ := hx
          exact Step.filtFrame (stepB_sound x x' hx)
        · obtain ⟨rfl, hp⟩ := hp
          exact Step.filtPred (stepB_sound p p' hp)
      · next w x w' x' =>
        simp only [Bool.and_eq_true, decide_eq_true_eq] at h
        obtain ⟨rfl, hx⟩ := h
        exact Step.blindKid (stepB_sound x x' hx)
      · simp at h
theorem stepLB_sound : ∀ (ks ks' : List Tr), stepLB ks ks' = true →
    ∃ pre a a' post, ks = pre ++ a :: post ∧ ks' = pre ++ a' :: post ∧ Step a a'
  | [], _, h => by simp [stepLB] at h
  | _ :: _, [], h => by simp [stepLB] at h
  | k :: ks, k' :: ks', h => by
    simp only [stepLB] at h
    split at h
    · next heq =>
      subst heq
      obtain ⟨pre, a, a', post, h1, h2, hs⟩ := stepLB_sound ks ks' h
      exact ⟨k :: pre, a, a', post, by rw [h1]; rfl, by rw [h2]; rfl, hs⟩
    · next hne =>
      simp only [Bool.and_eq_true, decide_eq_true_eq] at h
      obtain ⟨hs, rfl⟩ := h
      exact ⟨[], k, k', ks, rfl, rfl, stepB_sound k k' hs⟩
end

end Dx.SM
