/-
  Lemmas/Partitions.lean — evaluation of the Partitions / PartitionsFiltered layers, truthfulness of
  `_divisions_of_selection`, preservation of `DivInv` under row-wise sub-selection.
-/
import DxModel.Layers.Partitions
import DxModel.Lemmas.RepartitionDiv
namespace Dx.Parts
open Dx Dx.Repartition

/-! ### graphs -/

theorem run_partitions (I : Interp) (P : List Nat) (parts : Nat → List Row) (j : Nat) (hj : j < P.length)
    (fuel : Nat) :
    run I (partitionsTask P) (inputs parts) (fuel+1) (.out j) = .frame (sel P parts j) := by
  have hg : partitionsTask P (.out j) = some (.alias (.dep P[j])) := by
    simp [partitionsTask, List.getElem?_eq_getElem hj]
  rw [run_defined _ _ _ fuel _ _ hg]
  simp only [evalTsk]
  rw [run_undefined I (partitionsTask P) (inputs parts) (.dep P[j]) rfl]
  simp [inpVal, inputs, sel, List.getElem?_eq_getElem hj]

theorem filteredTask_not_out (ft : Nat → Tsk Key) (P : List Nat) (d : Key) (h : ∀ j, d ≠ Key.out j) :
    filteredTask ft P d = none := by
  cases d with
  | out j => exact absurd rfl (h j)
  | dep i => rfl
  | src t i => rfl

/-- output `j` of the layer filtered to `P` and output `j'` of the layer filtered to `Q` are the same
    value whenever both stand for the same original partition -/
theorem run_filtered (I : Interp) (ft : Nat → Tsk Key) (hleaf : LeafTasks ft) (P Q : List Nat)
    (inp : Key → Option V) (fuel j j' p : Nat) (hj : P[j]? = some p) (hq : Q[j']? = some p) :
    run I (filteredTask ft P) inp (fuel+1) (.out j) = run I (filteredTask ft Q) inp (fuel+1) (.out j') := by
  have hg : filteredTask ft P (.out j) = some (ft p) := by simp [filteredTask, hj]
  have hg' : filteredTask ft Q (.out j') = some (ft p) := by simp [filteredTask, hq]
  rw [run_defined _ _ _ fuel _ _ hg, run_defined _ _ _ fuel _ _ hg']
  apply evalTsk_congr
  intro d hd
  have hno := hleaf p d hd
  rw [run_undefined I _ inp d (filteredTask_not_out ft P d hno),
      run_undefined I _ inp d (filteredTask_not_out ft Q d hno)]

theorem range_getElem? (n p : Nat) (h : p < n) : (List.range n)[p]? = some p := by
  simp [h]

theorem pick_spec (Q : List Nat) : ∀ (P R : List Nat), pick Q P = some R →
    R.length = P.length ∧ ∀ (j p : Nat), P[j]? = some p → R[j]? = Q[p]? := by
  intro P
  induction P with
  | nil =>
    intro R h
    simp [pick] at h
    subst h
    exact ⟨rfl, fun j p hj => by simp at hj⟩
  | cons p0 t ih =>
    intro R h
    unfold pick at h
    cases hx : Q[p0]? with
    | none => simp [hx] at h
    | some x =>
      cases hr : pick Q t with
      | none => simp [hx, hr] at h
      | some r =>
        simp only [hx, hr, Option.some.injEq] at h
        subst h
        have ⟨hl, hsp⟩ := ih r hr
        refine ⟨by simp [hl], ?_⟩
        intro j p hj
        cases j with
        | zero => simp at hj; subst hj; simp [hx]
        | succ j => simp at hj; simpa using hsp j p hj

/-! ### `DivInv` under row-wise sub-selection (Blockwise operators that keep index labels) -/

theorem pairwise_of_map_sublist {f : Row → Int} {l l' : List Row}
    (hs : (l'.map f).Sublist (l.map f)) (hp : l.Pairwise (fun r s => f r ≤ f s)) :
    l'.Pairwise (fun r s => f r ≤ f s) := by
  have h1 : (l.map f).Pairwise (· ≤ ·) := List.pairwise_map.mpr hp
  have h2 : (l'.map f).Pairwise (· ≤ ·) := h1.sublist hs
  exact List.pairwise_map.mp h2

/-- every output partition carries a sub-sequence of the index labels of the corresponding input
    partition (row-local operators, filters, head, tail): the divisions stay truthful -/
theorem divInv_of_idx_sublist {d : List Int} {n : Nat} {parts out : Nat → List Row}
    (hinv : DivInv d n parts)
    (hsub : ∀ i, i < n → ((out i).map (·.idx)).Sublist ((parts i).map (·.idx))) :
    DivInv d n out := by
  refine ⟨hinv.len, hinv.sorted, ?_, ?_⟩
  · intro i lo hi hlo hhi r hr
    have hi1 : i + 1 < d.length := (List.getElem?_eq_some_iff.mp hhi).1
    have hin : i < n := by have := hinv.len; omega
    have hmem : r.idx ∈ (out i).map (·.idx) := List.mem_map.mpr ⟨r, hr, rfl⟩
    obtain ⟨s, hs, hse⟩ := List.mem_map.mp ((hsub i hin).subset hmem)
    have := hinv.bounds i lo hi hlo hhi s hs
    rw [← hse]; exact this
  · intro i hi
    exact pairwise_of_map_sublist (hsub i hi) (hinv.rowsSorted i hi)

/-! ### `_divisions_of_selection` is truthful for strictly ascending selections -/

theorem strictAsc_cons {a b : Nat} {t : List Nat} :
    strictAsc (a :: b :: t) = true ↔ a < b ∧ strictAsc (b :: t) = true := by
  simp [strictAsc]

theorem strictAsc_pairwise : ∀ (P : List Nat), strictAsc P = true → P.Pairwise (· < ·) := by
  intro P
  induction P with
  | nil => intro _; exact List.Pairwise.nil
  | cons a t ih =>
    intro h
    cases t with
    | nil => simp
    | cons b t' =>
      have ⟨hab, ht⟩ := strictAsc_cons.mp h
      have hp := ih ht
      refine List.Pairwise.cons ?_ hp
      intro x hx
      rcases List.mem_cons.mp hx with rfl | hx'
      · exact hab
      · have := (List.pairwise_cons.mp hp).1 x hx'
        omega

theorem selDivisions_unknown (full : List Int) (P : List Nat) (h : strictAsc P = false) :
    selDivisions full P = .ok none := by
  simp [selDivisions, h]

/-- the selected divisions, entry by entry -/
theorem selDivisions_spec (full : List Int) (P : List Nat) (d' : List Int)
    (h : selDivisions full P = .ok (some d')) :
    strictAsc P = true ∧ d'.length = P.length + 1 ∧
    (∀ (j p : Nat), P[j]? = some p → d'[j]? = full[p]?) ∧
    (∀ last, P.getLast? = some last → d'[P.length]? = full[last + 1]? ∧ last + 1 < full.length) := by
  unfold selDivisions at h
  cases hs : strictAsc P with
  | false => simp [hs] at h
  | true =>
    simp only [hs, Bool.true_eq_false, if_false] at h
    cases hl : P.getLast? with
    | none => simp [hl] at h
    | some last =>
      simp only [hl] at h
      cases hf : fewerDivisions full P with
      | none => simp [hf] at h
      | some los =>
        cases hh : full[last + 1]? with
        | none => simp [hf, hh] at h
        | some hi =>
          simp only [hf, hh, Except.ok.injEq, Option.some.injEq] at h
          subst h
          have ⟨hlen, hsp⟩ := fewerDivisions_spec full P los hf
          refine ⟨rfl, by simp [hlen], ?_, ?_⟩
          · intro j p hj
            have hjl : j < P.length := (List.getElem?_eq_some_iff.mp hj).1
            rw [List.getElem?_append_left (by omega)]
            exact hsp j p hj
          · intro last' hl'
            cases hl'
            refine ⟨?_, (List.getElem?_eq_some_iff.mp hh).1⟩
            rw [List.getElem?_append_right (by omega)]
            simp [hlen, hh]

theorem selDivisions_ok (full : List Int) (P : List Nat) (n : Nat) (hlen : full.length = n + 1)
    (hs : strictAsc P = true) (hne : P ≠ []) (hlt : ∀ p ∈ P, p < n) :
    ∃ d', selDivisions full P = .ok (some d') := by
  obtain ⟨last, hl⟩ : ∃ last, P.getLast? = some last := by
    cases h : P.getLast? with
    | none => exact absurd (List.getLast?_eq_none_iff.mp h) hne
    | some l => exact ⟨l, rfl⟩
  have hlm : last ∈ P := List.mem_of_getLast? hl
  obtain ⟨los, hlos⟩ := fewerDivisions_some full P (fun x hx => by have := hlt x hx; omega)
  have hh : last + 1 < full.length := by have := hlt last hlm; omega
  exact ⟨los ++ [full[last + 1]], by simp [selDivisions, hs, hl, hlos, List.getElem?_eq_getElem hh]⟩

/-- **Truthfulness of a strictly ascending selection** (any gaps): lower bounds of the selected
    partitions plus the upper bound of the last one. -/
theorem divInv_sel (full : List Int) (n : Nat) (parts : Nat → List Row) (P : List Nat) (d' : List Int)
    (hinv : DivInv full n parts) (hlt : ∀ p ∈ P, p < n)
    (h : selDivisions full P = .ok (some d')) :
    DivInv d' P.length (sel P parts) := by
  have ⟨hs, hlen, hsp, hlast⟩ := selDivisions_spec full P d' h
  have hpw := strictAsc_pairwise P hs
  have hfl := hinv.len
  have hne : P ≠ [] := by
    intro e; subst e
    simp [selDivisions, strictAsc] at h
  obtain ⟨last, hl⟩ : ∃ last, P.getLast? = some last := by
    cases hh : P.getLast? with
    | none => exact absurd (List.getLast?_eq_none_iff.mp hh) hne
    | some l => exact ⟨l, rfl⟩
  have ⟨hdl, hl1⟩ := hlast last hl
  have hPpos : 0 < P.length := List.length_pos_iff.mpr hne
  have hlastidx : P[P.length - 1]? = some last := by rw [← List.getLast?_eq_getElem?]; exact hl
  have hlastlt : last < n := hlt last (List.mem_of_getLast? hl)
  -- value of d' at any position
  have hval : ∀ j (hj : j < P.length), d'[j]? = full[P[j]]? := fun j hj => hsp j P[j] (List.getElem?_eq_getElem hj)
  have hPle : ∀ j (hj : j < P.length), P[j] ≤ last := by
    intro j hj
    have h2 := List.getElem?_eq_some_iff.mp hlastidx
    by_cases hc : j = P.length - 1
    · subst hc
      omega
    · have h1 : P.length - 1 < P.length := by omega
      have := List.pairwise_iff_getElem.mp hpw j (P.length - 1) hj h1 (by omega)
      omega
  refine ⟨hlen, ?_, ?_, ?_⟩
  · -- sorted
    rw [List.pairwise_iff_getElem]
    intro j1 j2 hj1 hj2 hlt12
    have hj1P : j1 < P.length := by omega
    have hp1 : P[j1] < n := hlt _ (List.getElem_mem hj1P)
    have e1 : full[P[j1]]? = some d'[j1] := by rw [← hval j1 hj1P]; exact List.getElem?_eq_getElem hj1
    by_cases hc : j2 < P.length
    · have hbb : P[j1] < P[j2] := List.pairwise_iff_getElem.mp hpw j1 j2 hj1P hc hlt12
      have e2 : full[P[j2]]? = some d'[j2] := by rw [← hval j2 hc]; exact List.getElem?_eq_getElem hj2
      exact sorted_getElem? hinv.sorted (by omega) e1 e2
    · have hj2e : j2 = P.length := by omega
      subst hj2e
      have e2 : full[last + 1]? = some d'[P.length] := by rw [← hdl]; exact List.getElem?_eq_getElem hj2
      have := hPle j1 hj1P
      exact sorted_getElem? hinv.sorted (by omega) e1 e2
  · -- bounds
    intro j lo hi hlo hhi r hr
    have hj1 : j + 1 < d'.length := (List.getElem?_eq_some_iff.mp hhi).1
    have hjP : j < P.length := by omega
    have hp : P[j] < n := hlt _ (List.getElem_mem hjP)
    have e1 : full[P[j]]? = some lo := by rw [← hval j hjP]; exact hlo
    simp only [sel, List.getElem?_eq_getElem hjP] at hr
    have hp1 : P[j] + 1 < full.length := by omega
    have hb := hinv.bounds P[j] lo full[P[j]+1] e1 (List.getElem?_eq_getElem hp1) r hr
    refine ⟨hb.1, ?_⟩
    by_cases hc : j + 1 < P.length
    · -- the next selected partition starts at or after P[j] + 1
      have e2 : full[P[j+1]]? = some hi := by rw [← hval (j+1) hc]; exact hhi
      have hnext : P[j] < P[j+1] := List.pairwise_iff_getElem.mp hpw j (j+1) hjP hc (by omega)
      have hpn : P[j+1] < n := hlt _ (List.getElem_mem hc)
      have hle : full[P[j]+1] ≤ hi :=
        sorted_getElem? hinv.sorted (by omega) (List.getElem?_eq_getElem hp1) e2
      rcases hb.2 with h2 | ⟨h2a, _⟩
      · exact Or.inl (by omega)
      · omega
    · -- last selected partition
      have hje : j + 1 = P.length := by omega
      have e2 : full[last + 1]? = some hi := by rw [← hdl, ← hje]; exact hhi
      have hjl : P[j] = last := by
        have := List.getElem?_eq_some_iff.mp hlastidx
        have hidx : P.length - 1 = j := by omega
        simp only [hidx] at this
        exact this.2
      have e3 : full[P[j] + 1]? = some hi := by rw [hjl]; exact e2
      rw [List.getElem?_eq_getElem hp1] at e3
      cases e3
      rcases hb.2 with h2 | ⟨h2a, h2b⟩
      · exact Or.inl h2
      · exact Or.inr ⟨by omega, h2b⟩
  · intro j hj
    simp only [sel, List.getElem?_eq_getElem hj]
    exact hinv.rowsSorted _ (hlt _ (List.getElem_mem hj))

end Dx.Parts

namespace Dx.Parts

/-- indexing a list by a list of valid positions never fails -/
theorem pick_valid (Q : List Nat) : ∀ (P : List Nat), (∀ p ∈ P, p < Q.length) →
    pick Q P = some (P.map (fun i => Q.getD i 0)) := by
  intro P
  induction P with
  | nil => intro _; rfl
  | cons p t ih =>
    intro h
    have hp : p < Q.length := h p (List.mem_cons_self ..)
    simp [pick, ih (fun x hx => h x (List.mem_cons_of_mem _ hx)), List.getElem?_eq_getElem hp]

end Dx.Parts
