/-
  Lemmas/FragSound.lean — every rule of the fragment's rule system (`fragRules`, DxModel/Fragment.lean) is sound for the
  fragment's denotation: its output is defined, with the same value, whenever the expression it replaces is.
  Also: the concrete list interpretation satisfies the laws the OR-factoring rule needs.
-/
import DxModel.Lemmas.FragRules
import DxModel.Lemmas.FragPred
import DxModel.Lemmas.FragAssign
import DxModel.Lemmas.FragConcat
import DxModel.Lemmas.FragMerge
namespace Dx.Frag
open Dx Dx.Cols

variable {γ ι : Type}

/-- `child._simplify_up(parent, dependents)`, for ANY dependents map -/
theorem fragUp_sound (I : Interp γ ι) (hI : MaskLaws I) {c p o : Expr} {d : Deps} (h : fragUp c p d = some o) :
    ∀ v, den I p = some v → den I o = some v := by
  unfold fragUp at h
  split at h
  · rename_i l hop hargs; exact upSrc_sound I hop hargs h
  · rename_i op x hop hargs; exact upElem_sound I hop hargs h
  · rename_i op k x hop hargs; exact upBinK_sound I hop hargs h
  · rename_i op a b hop hargs; exact upBin_sound I hop hargs h
  · rename_i keys x vals hop hargs; exact upAssign_sound I hop hargs h
  · rename_i m x hop hargs; exact upRename_sound I hop hargs h
  · rename_i x q hop hargs
    unfold upFilter at h
    cases hor : orRewrite q with
    | some q' =>
      rw [hor] at h
      cases h
      exact upFilterOr_sound I hI hop hargs hor
    | none =>
      rw [hor] at h
      exact upFilterProj_sound I hop hargs h
  · rename_i how m a b hop hargs; exact upMerge_sound I hop hargs h
  · rename_i inner hop; exact upConcat_sound I hop rfl h
  · cases h

/-- `e._simplify_down()` -/
theorem fragDown_sound (I : Interp γ ι) {e o : Expr} (h : fragDown e = some o) :
    ∀ v, den I e = some v → den I o = some v := by
  unfold fragDown at h
  split at h
  · rename_i sel x hop hargs; exact downProj_sound I hop hargs h
  · rename_i keys x vals hop hargs; exact downAssign_sound I hop hargs h
  · cases h

/-! ### the list interpretation -/

theorem padZip_getD (f : Int → Int → Int) (hf : f 0 0 = 0) : ∀ (x y : List Int) (i : Nat),
    (padZip f x y).getD i 0 = f (x.getD i 0) (y.getD i 0)
  | [], [], i => by simp [padZip, hf]
  | [], b :: bs, 0 => by simp [padZip]
  | [], b :: bs, i + 1 => by
    have := padZip_getD f hf [] bs i
    simp only [padZip, List.map_cons, List.getD_cons_succ] at this ⊢
    rw [this]; simp
  | a :: as, [], 0 => by simp [padZip]
  | a :: as, [], i + 1 => by
    simp only [padZip, List.getD_cons_succ]
    rw [padZip_getD f hf as [] i]; simp
  | a :: as, b :: bs, 0 => by simp [padZip]
  | a :: as, b :: bs, i + 1 => by
    simp only [padZip, List.getD_cons_succ]
    exact padZip_getD f hf as bs i

theorem maskL_ext (m m' : List Int) (h : ∀ i, (m.getD i 0 != 0) = (m'.getD i 0 != 0)) :
    ∀ (x : List Int) (k : Nat), maskL k m x = maskL k m' x
  | [], _ => rfl
  | a :: as, k => by
    simp only [maskL, h k, maskL_ext m m' h as (k + 1)]

theorem b2i_ne (b : Bool) : (b2i b != 0) = b := by cases b <;> rfl

theorem listI_laws (tables : Nat → Name → Option (List Int)) : MaskLaws (listI tables) where
  bit_and := by
    intro a b i
    show ((padZip (fun a b => b2i (a != 0 && b != 0)) a b).getD i 0 != 0) = _
    rw [padZip_getD _ (by decide), b2i_ne]
    rfl
  bit_or := by
    intro a b i
    show ((padZip (fun a b => b2i (a != 0 || b != 0)) a b).getD i 0 != 0) = _
    rw [padZip_getD _ (by decide), b2i_ne]
    rfl
  mask_ext := by
    intro m m' h
    funext x
    exact maskL_ext m m' h x 0

end Dx.Frag
