/-
  Lemmas/PredJoin.lean — a filter on the output of a join versus filters on its inputs.
-/
import DxModel.Pred
namespace Dx.Pred

variable {α β γ : Type}

theorem flatMap_congr_mem (l : List α) (f g : α → List γ) (h : ∀ a ∈ l, f a = g a) : l.flatMap f = l.flatMap g := by
  induction l with
  | nil => rfl
  | cons a t ih =>
    simp only [List.flatMap_cons]
    rw [h a List.mem_cons_self, ih (fun x hx => h x (List.mem_cons_of_mem _ hx))]

/-- if every row produced from `a` satisfies `q` exactly when `s a`, filtering the output is filtering the input -/
theorem filter_flatMap_push (L : List α) (g : α → List γ) (q : γ → Bool) (s : α → Bool)
    (h : ∀ a, ∀ x ∈ g a, q x = s a) : (L.flatMap g).filter q = (L.filter s).flatMap g := by
  induction L with
  | nil => rfl
  | cons a t ih =>
    simp only [List.flatMap_cons, List.filter_append, ih, List.filter_cons]
    cases hs : s a with
    | true =>
      simp only [if_true, List.flatMap_cons]
      congr 1
      rw [List.filter_eq_self]
      intro x hx; rw [h a x hx, hs]
    | false =>
      simp only [Bool.false_eq_true, if_false]
      have : (g a).filter q = [] := by
        rw [List.filter_eq_nil_iff]
        intro x hx; rw [h a x hx, hs]; simp
      rw [this, List.nil_append]

theorem leftRows_fst (m : α → β → Bool) (R : List β) (a : α) : ∀ x ∈ leftRows m R a, x.1 = some a := by
  intro x hx
  unfold leftRows at hx
  cases hf : R.filter (m a) with
  | nil => rw [hf] at hx; simp at hx; rw [hx]
  | cons b bs =>
    rw [hf] at hx
    simp only [List.mem_map] at hx
    obtain ⟨b', _, rfl⟩ := hx
    rfl

theorem rightRows_snd (m : α → β → Bool) (L : List α) (b : β) : ∀ x ∈ rightRows m L b, x.2 = some b := by
  intro x hx
  unfold rightRows at hx
  cases hf : L.filter (fun a => m a b) with
  | nil => rw [hf] at hx; simp at hx; rw [hx]
  | cons a as =>
    rw [hf] at hx
    simp only [List.mem_map] at hx
    obtain ⟨a', _, rfl⟩ := hx
    rfl

/-! #### predicate over left columns: inner, left, leftsemi -/

theorem join_left_push (how : How) (hh : how = .inner ∨ how = .left ∨ how = .leftsemi)
    (m : α → β → Bool) (L : List α) (R : List β) (p : Option α → Bool) :
    (join how m L R).filter (fun jr => p jr.1) = join how m (L.filter (fun a => p (some a))) R := by
  rcases hh with h | h | h <;> subst h <;> simp only [join]
  · -- inner
    unfold joinInner
    apply filter_flatMap_push
    intro a x hx
    simp only [List.mem_map] at hx
    obtain ⟨b, _, rfl⟩ := hx
    rfl
  · -- left
    unfold joinLeft
    apply filter_flatMap_push
    intro a x hx
    rw [leftRows_fst m R a x hx]
  · -- leftsemi
    unfold joinSemi
    rw [List.filter_map, List.filter_filter, List.filter_filter]
    congr 1
    apply List.filter_congr
    intro a _
    simp [Function.comp, Bool.and_comm]

/-! #### predicate over right columns: inner, right -/

theorem join_right_push (how : How) (hh : how = .inner ∨ how = .right)
    (m : α → β → Bool) (L : List α) (R : List β) (q : Option β → Bool) :
    (join how m L R).filter (fun jr => q jr.2) = join how m L (R.filter (fun b => q (some b))) := by
  rcases hh with h | h <;> subst h <;> simp only [join]
  · -- inner: pointwise in the left row
    unfold joinInner
    rw [List.filter_flatMap]
    apply flatMap_congr_mem
    intro a _
    rw [List.filter_map, List.filter_filter, List.filter_filter]
    congr 1
    apply List.filter_congr
    intro b _
    simp [Function.comp, Bool.and_comm]
  · unfold joinRight
    apply filter_flatMap_push
    intro b x hx
    rw [rightRows_snd m L b x hx]

/-! #### predicate over a key column present in both inputs: both inputs may be filtered -/

theorem join_restrict_right (how : How) (hh : how = .inner ∨ how = .left ∨ how = .leftsemi)
    (m : α → β → Bool) (L : List α) (R : List β) (sR : β → Bool)
    (h : ∀ a ∈ L, ∀ b, m a b = true → sR b = true) :
    join how m L (R.filter sR) = join how m L R := by
  have hfilt : ∀ a ∈ L, (R.filter sR).filter (m a) = R.filter (m a) := by
    intro a ha
    rw [List.filter_filter]
    apply List.filter_congr
    intro b _
    cases hm : m a b with
    | false => rfl
    | true => simp [h a ha b hm]
  rcases hh with hq | hq | hq <;> subst hq <;> simp only [join]
  · unfold joinInner
    apply flatMap_congr_mem
    intro a ha; rw [hfilt a ha]
  · unfold joinLeft
    apply flatMap_congr_mem
    intro a ha; unfold leftRows; rw [hfilt a ha]
  · unfold joinSemi
    congr 1
    apply List.filter_congr
    intro a ha
    have := hfilt a ha
    rw [Bool.eq_iff_iff]
    simp only [List.any_eq_true, List.mem_filter]
    constructor
    · rintro ⟨b, ⟨hb, _⟩, hm⟩; exact ⟨b, hb, hm⟩
    · rintro ⟨b, hb, hm⟩; exact ⟨b, ⟨hb, h a ha b hm⟩, hm⟩

theorem join_both_push (how : How) (hh : how = .inner ∨ how = .left ∨ how = .leftsemi)
    (m : α → β → Bool) (L : List α) (R : List β) (p : Option α → Bool) (sR : β → Bool)
    (hagree : ∀ a b, m a b = true → sR b = p (some a)) :
    (join how m L R).filter (fun jr => p jr.1) =
      join how m (L.filter (fun a => p (some a))) (R.filter sR) := by
  rw [join_left_push how hh, join_restrict_right how hh]
  intro a ha b hm
  rw [hagree a b hm]
  exact (List.mem_filter.mp ha).2

end Dx.Pred
