/-
  Lemmas/LayerMergeTree.lean — `LayerWF` of `RepartitionQuantiles._layer` (Layers/MergeTree.lean) for every number of
  input partitions and every tree shape accepted by `levelsOK`.
-/
import DxModel.LayerOK
import DxModel.Layers.MergeTree
namespace Dx
namespace RQ

theorem spansFrom_length : ∀ (gs : List Nat) (s : Nat), (spansFrom s gs).length = gs.length := by
  intro gs
  induction gs with
  | nil => intro s; rfl
  | cons c t ih => intro s; simp [spansFrom, ih]

theorem spansFrom_bounds : ∀ (gs : List Nat) (s i a c : Nat), (spansFrom s gs)[i]? = some (a, c) →
    s ≤ a ∧ a + c ≤ s + total gs := by
  intro gs
  induction gs with
  | nil => intro s i a c h; simp [spansFrom] at h
  | cons c0 t ih =>
    intro s i a c h
    cases i with
    | zero =>
      simp only [spansFrom, List.getElem?_cons_zero, Option.some.injEq, Prod.mk.injEq] at h
      obtain ⟨rfl, rfl⟩ := h
      simp [total]
    | succ i =>
      simp only [spansFrom, List.getElem?_cons_succ] at h
      have := ih (s + c0) i a c h
      simp only [total]; omega

theorem spans_some (gs : List Nat) (i : Nat) (hi : i < gs.length) : ∃ sc, (spans gs)[i]? = some sc := by
  have : i < (spans gs).length := by simpa [spans, spansFrom_length] using hi
  exact ⟨_, List.getElem?_eq_getElem this⟩

theorem spans_lt (gs : List Nat) (i : Nat) (sc : Nat × Nat) (h : (spans gs)[i]? = some sc) : i < gs.length := by
  have := (List.getElem?_eq_some_iff.mp h).1
  simpa [spans, spansFrom_length] using this

/-- width of the level below level `l` -/
def widthBelow (p : Params) : Nat → Nat
  | 0 => p.n
  | l + 1 => match p.levels[l]? with
      | some gs => gs.length
      | none => 0

theorem levelsOKFrom_spec : ∀ (levels : List (List Nat)) (w l : Nat) (gs : List Nat),
    levelsOKFrom w levels = true → levels[l]? = some gs →
    total gs ≤ (match l with
      | 0 => w
      | l' + 1 => match levels[l']? with
          | some g' => g'.length
          | none => 0) ∧ 1 ≤ gs.length := by
  intro levels
  induction levels with
  | nil => intro w l gs _ h; simp at h
  | cons g0 t ih =>
    intro w l gs hok h
    simp only [levelsOKFrom, Bool.and_eq_true, decide_eq_true_eq] at hok
    obtain ⟨⟨h1, h2⟩, h3⟩ := hok
    cases l with
    | zero =>
      simp only [List.getElem?_cons_zero, Option.some.injEq] at h
      subst h
      exact ⟨h1, h2⟩
    | succ l =>
      simp only [List.getElem?_cons_succ] at h
      have := ih g0.length l gs h3 h
      cases l with
      | zero => simpa using this
      | succ l' => simpa using this

theorem levels_spec (p : Params) (hok : levelsOK p = true) (l : Nat) (gs : List Nat) (h : p.levels[l]? = some gs) :
    total gs ≤ widthBelow p l ∧ 1 ≤ gs.length := by
  simp only [levelsOK, Bool.and_eq_true, decide_eq_true_eq] at hok
  have := levelsOKFrom_spec p.levels p.n l gs hok.2 h
  cases l with
  | zero => simpa [widthBelow] using this
  | succ l' => simpa [widthBelow] using this

def spec (p : Params) : LSpec Key :=
  { task := layer p
    nout := 1
    out := fun _ => .out
    outIdx := fun k => match k with | .out => some 0 | _ => none
    depOf := fun k => match k with | .dep i => some (0, i) | _ => none
    rank := fun k => match k with
      | .dep _ => 0 | .summ _ => 1 | .dtype => 1 | .node l _ => l + 2 | .out => p.levels.length + 3
    bound := p.levels.length + 3 }

theorem node_isSome (p : Params) (hne : p.levels.isEmpty = false) (l i : Nat) (gs : List Nat)
    (h : p.levels[l]? = some gs) (hi : i < gs.length) : (layer p (.node l i)).isSome := by
  obtain ⟨sc, hsc⟩ := spans_some gs i hi
  obtain ⟨s, c⟩ := sc
  simp [layer, hne, h, hsc]

theorem prevKey_isSome (p : Params) (hne : p.levels.isEmpty = false) (l j : Nat)
    (hj : j < widthBelow p l) : (layer p (prevKey l j)).isSome := by
  cases l with
  | zero =>
    simp only [widthBelow] at hj
    simp [prevKey, layer, hj]
  | succ l =>
    simp only [widthBelow] at hj
    cases h : p.levels[l]? with
    | none => simp [h] at hj
    | some gs =>
      simp only [h] at hj
      exact node_isSome p hne l j gs h hj

theorem rq_wf (p : Params) (hok : levelsOK p = true) : LayerWF (spec p) [p.n] := by
  have hn : 1 ≤ p.n := by
    simp only [levelsOK, Bool.and_eq_true, decide_eq_true_eq] at hok; exact hok.1
  have hmerged : (layer p (mergedKey p)).isSome ∧ (spec p).rank (mergedKey p) < p.levels.length + 3 := by
    unfold mergedKey
    cases hl : p.levels.getLast? with
    | none =>
      have : p.levels = [] := List.getLast?_eq_none_iff.mp hl
      simp [layer, this, spec]
    | some gs =>
      have hne : p.levels ≠ [] := by intro h; simp [h] at hl
      have hne' : p.levels.isEmpty = false := by simpa using hne
      have hlen : 0 < p.levels.length := List.length_pos_iff.mpr hne
      have hget : p.levels[p.levels.length - 1]? = some gs := by
        rw [List.getLast?_eq_getElem?] at hl; exact hl
      have := (levels_spec p hok _ gs hget).2
      exact ⟨node_isSome p hne' _ _ gs hget (by omega), by simp only [spec]; omega⟩
  exact {
    out_idx := by
      intro i hi
      have : i = 0 := by simp only [spec] at hi; omega
      subst this; rfl
    outs_defined := by intro i _; simp [spec, layer]
    outs_exact := by
      intro k i _ hidx
      cases k <;> simp [spec] at hidx
      subst hidx
      exact ⟨by simp [spec], rfl⟩
    own := by intro k hk; cases k <;> simp [spec, layer] at hk ⊢
    closed := by
      intro k t hk r hr
      cases k with
      | dep i => simp [spec, layer] at hk
      | dtype =>
        simp only [spec, layer, Option.some.injEq] at hk
        subst hk
        simp only [Tsk.refs, List.mem_singleton] at hr
        subst hr
        right; exact ⟨0, 0, p.n, rfl, rfl, by omega⟩
      | summ i =>
        simp only [spec, layer] at hk
        split at hk
        · rename_i hi
          cases hk
          simp only [Tsk.refs, List.mem_singleton] at hr
          subst hr
          right; exact ⟨0, i, p.n, rfl, rfl, hi⟩
        · cases hk
      | out =>
        simp only [spec, layer, Option.some.injEq] at hk
        subst hk
        simp only [Tsk.refs, List.mem_cons, List.mem_nil_iff, or_false] at hr
        rcases hr with rfl | rfl
        · left; exact hmerged.1
        · left; simp [spec, layer]
      | node l i =>
        simp only [spec, layer] at hk
        split at hk
        · split at hk
          · cases hk
            simp only [Tsk.refs, List.mem_singleton] at hr
            subst hr
            left; simp [spec, layer]; omega
          · cases hk
        · rename_i hne
          have hne' : p.levels.isEmpty = false := by simpa using hne
          cases hg : p.levels[l]? with
          | none => simp [hg] at hk
          | some gs =>
            simp only [hg] at hk
            cases hs : (spans gs)[i]? with
            | none => simp [hs] at hk
            | some sc =>
              obtain ⟨s, c⟩ := sc
              simp only [hs, Option.some.injEq] at hk
              subst hk
              simp only [Tsk.refs, List.mem_map] at hr
              obtain ⟨j, hj, rfl⟩ := hr
              have hb := spansFrom_bounds gs 0 i s c hs
              have hw := (levels_spec p hok l gs hg).1
              have hjr : s ≤ j ∧ j < s + c := by
                simp only [List.mem_range'] at hj
                obtain ⟨q, hq, rfl⟩ := hj
                omega
              left
              exact prevKey_isSome p hne' l j (by omega)
    ranked := by
      intro k t hk r hr _
      cases k with
      | dep i => simp [spec, layer] at hk
      | dtype =>
        simp only [spec, layer, Option.some.injEq] at hk
        subst hk
        simp only [Tsk.refs, List.mem_singleton] at hr
        subst hr; simp [spec]
      | summ i =>
        simp only [spec, layer] at hk
        split at hk
        · cases hk
          simp only [Tsk.refs, List.mem_singleton] at hr
          subst hr; simp [spec]
        · cases hk
      | out =>
        simp only [spec, layer, Option.some.injEq] at hk
        subst hk
        simp only [Tsk.refs, List.mem_cons, List.mem_nil_iff, or_false] at hr
        rcases hr with rfl | rfl
        · exact hmerged.2
        · simp [spec]
      | node l i =>
        simp only [spec, layer] at hk
        split at hk
        · split at hk
          · cases hk
            simp only [Tsk.refs, List.mem_singleton] at hr
            subst hr; simp [spec]
          · cases hk
        · cases hg : p.levels[l]? with
          | none => simp [hg] at hk
          | some gs =>
            simp only [hg] at hk
            cases hs : (spans gs)[i]? with
            | none => simp [hs] at hk
            | some sc =>
              obtain ⟨s, c⟩ := sc
              simp only [hs, Option.some.injEq] at hk
              subst hk
              simp only [Tsk.refs, List.mem_map] at hr
              obtain ⟨j, _, rfl⟩ := hr
              cases l <;> simp [spec, prevKey]
    bounded := by
      intro k hk
      cases k with
      | dep i => simp [spec, layer] at hk
      | dtype => simp [spec]
      | summ i => simp [spec]
      | out => simp [spec]
      | node l i =>
        simp only [spec, layer] at hk ⊢
        split at hk
        · split at hk
          · rename_i h; omega
          · cases hk
        · cases hg : p.levels[l]? with
          | none => simp [hg] at hk
          | some gs =>
            have := (List.getElem?_eq_some_iff.mp hg).1
            omega }

end RQ
end Dx
