/-
  Lemmas/Pred.lean — truth preservation of OR-factoring (`rewrite_filters`), all trees, all valuations.
-/
import DxModel.Pred
namespace Dx.Pred

variable {α : Type}

theorem eval_getComponents_or (v : α → Bool) (p : T α) :
    (getComponents .or p).any (eval2 v) = eval2 v p := by
  induction p with
  | atom n => simp [getComponents]
  | and a b _ _ => simp [getComponents]
  | not a _ => simp [getComponents]
  | or a b iha ihb => simp [getComponents, eval2, List.any_append, iha, ihb]

theorem eval_getComponents_and (v : α → Bool) (p : T α) :
    (getComponents .and p).all (eval2 v) = eval2 v p := by
  induction p with
  | atom n => simp [getComponents]
  | or a b _ _ => simp [getComponents]
  | not a _ => simp [getComponents]
  | and a b iha ihb => simp [getComponents, eval2, List.all_append, iha, ihb]

theorem eval_mkAnd (v : α → Bool) : ∀ l acc, eval2 v (mkAnd acc l) = (eval2 v acc && l.all (eval2 v)) := by
  intro l; induction l with
  | nil => intro acc; simp [mkAnd]
  | cons c t ih => intro acc; simp [mkAnd, ih, eval2, Bool.and_assoc]

theorem eval_mkOr (v : α → Bool) : ∀ l acc, eval2 v (mkOr acc l) = (eval2 v acc || l.any (eval2 v)) := by
  intro l; induction l with
  | nil => intro acc; simp [mkOr]
  | cons c t ih => intro acc; simp [mkOr, ih, eval2, Bool.or_assoc]

variable [DecidableEq α]

theorem mem_convertMapping (l : List (T α)) (x : T α) : x ∈ convertMapping l ↔ x ∈ l := by
  induction l with
  | nil => simp [convertMapping]
  | cons a t ih =>
    simp only [convertMapping, List.mem_cons, List.mem_filter, ih]
    constructor
    · rintro (h | ⟨h, _⟩)
      · exact Or.inl h
      · exact Or.inr h
    · intro h
      by_cases hxa : x = a
      · exact Or.inl hxa
      · rcases h with h | h
        · exact Or.inl h
        · exact Or.inr ⟨h, by simpa using hxa⟩

/-- `all` only depends on the set of members -/
theorem all_congr_mem {β} (f : β → Bool) (l₁ l₂ : List β) (h : ∀ x, x ∈ l₁ ↔ x ∈ l₂) :
    l₁.all f = l₂.all f := by
  rw [Bool.eq_iff_iff]
  simp only [List.all_eq_true]
  constructor
  · intro h1 x hx; exact h1 x ((h x).mpr hx)
  · intro h1 x hx; exact h1 x ((h x).mp hx)

theorem all_convertMapping (v : α → Bool) (l : List (T α)) :
    (convertMapping l).all (eval2 v) = l.all (eval2 v) :=
  all_congr_mem _ _ _ (mem_convertMapping l)

/-- a component list splits into the replacements and what is kept, when every replacement is a member -/
theorem all_split (v : α → Bool) (repl comp : List (T α)) (hsub : ∀ x ∈ repl, x ∈ comp) :
    comp.all (eval2 v) = (repl.all (eval2 v) && (comp.filter (fun c => !repl.contains c)).all (eval2 v)) := by
  rw [Bool.eq_iff_iff]
  simp only [Bool.and_eq_true, List.all_eq_true, List.mem_filter]
  constructor
  · intro h
    refine ⟨?_, ?_⟩
    · intro x hx; exact h x (hsub x hx)
    · intro x hx; exact h x hx.1
  · rintro ⟨h1, h2⟩ x hx
    by_cases hr : x ∈ repl
    · exact h1 x hr
    · exact h2 x ⟨hx, by simpa using hr⟩

/-- the loop over the components: either a branch is consumed, or each kept conjunction has the meaning
    of its kept members -/
theorem keepComponents_spec (v : α → Bool) (repl : List (T α)) :
    ∀ (comps : List (List (T α))),
      (∀ comp ∈ comps, ∀ x ∈ repl, x ∈ comp) →
      match keepComponents repl comps with
      | none => comps.any (fun comp => comp.all (eval2 v)) = repl.all (eval2 v)
      | some rs => rs.any (eval2 v) = comps.any (fun comp => (comp.filter (fun c => !repl.contains c)).all (eval2 v))
                   ∧ rs.length = comps.length := by
  intro comps
  induction comps with
  | nil => intro _; simp [keepComponents]
  | cons comp rest ih =>
    intro hsub
    have hrest : ∀ comp ∈ rest, ∀ x ∈ repl, x ∈ comp := fun c hc => hsub c (List.mem_cons_of_mem _ hc)
    have hcomp := all_split v repl comp (hsub comp (List.mem_cons_self))
    have ih' := ih hrest
    -- every branch implies the replacements
    have himp : rest.any (fun comp => comp.all (eval2 v)) = true → repl.all (eval2 v) = true := by
      intro hany
      simp only [List.any_eq_true] at hany
      obtain ⟨c, hc, hcall⟩ := hany
      have := all_split v repl c (hrest c hc)
      rw [this, Bool.and_eq_true] at hcall
      exact hcall.1
    simp only [keepComponents]
    cases hk : comp.filter (fun c => !repl.contains c) with
    | nil =>
      simp only
      rw [hk] at hcomp
      simp only [List.any_cons, hcomp, List.all_nil, Bool.and_true]
      cases hR : repl.all (eval2 v) with
      | true => simp
      | false =>
        simp only [Bool.false_or]
        rw [Bool.eq_false_iff]
        intro hany
        rw [himp hany] at hR
        cases hR
    | cons k ks =>
      simp only
      cases hrec : keepComponents repl rest with
      | none =>
        rw [hrec] at ih'
        simp only at ih' ⊢
        simp only [List.any_cons, ih', hcomp]
        cases repl.all (eval2 v) <;> simp
      | some rs =>
        rw [hrec] at ih'
        simp only at ih' ⊢
        obtain ⟨ih1, ih2⟩ := ih'
        refine ⟨?_, by simp [ih2]⟩
        simp only [List.any_cons, ih1, eval_mkAnd, hk, List.all_cons]

theorem any_congr_mem {β} (f g : β → Bool) (l : List β) (h : ∀ x ∈ l, f x = g x) : l.any f = l.any g := by
  induction l with
  | nil => rfl
  | cons a t ih =>
    simp only [List.any_cons]
    rw [h a List.mem_cons_self, ih (fun x hx => h x (List.mem_cons_of_mem _ hx))]

theorem any_and_left {β} (R : Bool) (g : β → Bool) (l : List β) :
    l.any (fun c => R && g c) = (R && l.any g) := by
  induction l with
  | nil => simp
  | cons a t ih => simp only [List.any_cons, ih]; cases R <;> simp

theorem replaceCommonOr_sound (v : α → Bool) (first : T α) (rest : List (T α)) (r : T α)
    (h : replaceCommonOr first rest = some r) :
    eval2 v r = (first :: rest).any (eval2 v) := by
  unfold replaceCommonOr at h
  simp only at h
  generalize hm : convertMapping (getComponents .and first) = mapping at h
  generalize hms : rest.map (fun c => convertMapping (getComponents .and c)) = andComponents at h
  generalize hrepl : mapping.filter (fun c => andComponents.all (fun comp => comp.contains c)) = repl at h
  -- meaning of the component lists
  have evalAll : (first :: rest).any (eval2 v) = (mapping :: andComponents).any (fun comp => comp.all (eval2 v)) := by
    subst hm hms
    simp only [List.any_cons, all_convertMapping, eval_getComponents_and, List.any_map]
    congr 1
    apply List.any_congr rfl  -- pointwise
    intro c
    simp [all_convertMapping, eval_getComponents_and]
  -- every replacement belongs to every component list
  have hsub : ∀ comp ∈ mapping :: andComponents, ∀ x ∈ repl, x ∈ comp := by
    intro comp hcomp x hx
    rw [← hrepl, List.mem_filter] at hx
    rcases List.mem_cons.mp hcomp with hc | hc
    · rw [hc]; exact hx.1
    · have := List.all_eq_true.mp hx.2 comp hc
      simpa using this
  have split : ∀ comp ∈ mapping :: andComponents,
      comp.all (eval2 v) = (repl.all (eval2 v) && (comp.filter (fun c => !repl.contains c)).all (eval2 v)) :=
    fun comp hc => all_split v repl comp (hsub comp hc)
  cases hr : repl with
  | nil => rw [hr] at h; simp at h
  | cons r0 rs =>
    rw [hr] at h
    simp only at h
    have houter : eval2 v (mkAnd r0 rs) = repl.all (eval2 v) := by rw [hr, eval_mkAnd]; simp
    have spec := keepComponents_spec v repl (mapping :: andComponents) hsub
    rw [hr] at spec
    cases hk : keepComponents (r0 :: rs) (mapping :: andComponents) with
    | none =>
      rw [hk] at h spec
      simp only at h spec
      injection h with h
      rw [← h, houter, evalAll, spec, hr]
    | some comps =>
      rw [hk] at h spec
      simp only at spec
      obtain ⟨s1, s2⟩ := spec
      cases comps with
      | nil => simp at s2
      | cons c cs =>
        simp only at h
        injection h with h
        rw [← h]
        simp only [eval2, eval_mkOr, houter]
        have e1 : (eval2 v c || cs.any (eval2 v)) = (c :: cs).any (eval2 v) := by simp
        rw [e1, s1, evalAll, ← hr, ← any_and_left]
        apply any_congr_mem
        intro comp hc
        exact (split comp hc).symm

end Dx.Pred
