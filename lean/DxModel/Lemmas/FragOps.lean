/-
  Lemmas/FragOps.lean — per class: when a node of the fragment is defined and what it denotes, and the operator
  structures of DxModel/Cols.lean (`KeyedOp`, `SourceOp`, `BinOp`, `AssignOp`, `RelabelOp`, `ConcatOp`) instantiated
  with the frame functions of DxModel/Fragment.lean — the instances to which the C04 theorems are applied.
-/
import DxModel.Lemmas.FragSem
import DxModel.Lemmas.ColsAssign
import DxModel.Lemmas.ColsInst
namespace Dx.Frag
open Dx Dx.Cols

variable {γ ι : Type}

/-! ### normal frames -/

theorem normal_mapFrame (f : γ → γ) (F : Frame γ) : Normal (mapFrame f F) := by
  intro c hc
  have : F.cols.contains c = false := hc
  simp only [mapFrame, this, Bool.false_eq_true, if_false]

theorem normal_srcFrame (I : Interp γ ι) (l : SrcLit) (cs : List Name) : Normal (srcFrame I l cs) := by
  intro c hc
  have : cs.contains c = false := hc
  simp only [srcFrame, this, Bool.false_eq_true, if_false]

theorem normal_binFrame (g : γ → γ → γ) (A B : Frame γ) : Normal (binFrame g A B) := by
  intro c hc
  have : A.cols.contains c = false := hc
  simp only [binFrame, this, Bool.false_eq_true, if_false, bin2]

theorem normal_serFrame (n : Name) (x : γ) : Normal (serFrame n x) := by
  intro c hc
  have : [n].contains c = false := hc
  simp only [serFrame, this, Bool.false_eq_true, if_false]

theorem normal_assignFrame (kv : List (Name × γ)) (F : Frame γ) : Normal (assignFrame kv F) := by
  intro c hc
  have : (assignCols (kv.map (·.1)) F.cols).contains c = false := hc
  simp only [assignFrame, this, Bool.false_eq_true, if_false]

theorem normal_renameFrame (m : List (Name × Name)) (F : Frame γ) : Normal (renameFrame m F) := by
  intro c hc
  have hn : c ∉ F.cols.map (renameFwd m) := by
    intro hm
    have : (F.cols.map (renameFwd m)).contains c = false := hc
    rw [List.contains_iff_mem.mpr hm] at this; cases this
  simp only [renameFrame, find?_none_of_not_mem_map (renameFwd m) F.cols c hn]

theorem normal_mergeFrame (I : Interp γ ι) (how : Nat) (m : MergeP) (A B : Frame γ) : Normal (mergeFrame I how m A B) := by
  intro c hc
  have hn : c ∉ mergeLabels m A.cols B.cols := by
    intro hm
    have : (mergeLabels m A.cols B.cols).contains c = false := hc
    rw [List.contains_iff_mem.mpr hm] at this; cases this
  unfold mergeLabels at hn
  rw [List.mem_append] at hn
  have h1 := find?_none_of_not_mem_map (labelL m B.cols) A.cols c (fun h => hn (Or.inl h))
  have h2 := find?_none_of_not_mem_map (labelR m A.cols) (B.cols.filter (fun c => !commonKey m c)) c (fun h => hn (Or.inr h))
  simp only [mergeFrame, h1, h2]

theorem normal_concatFrame (I : Interp γ ι) (inner : Bool) (Fs : List (Frame γ)) : Normal (concatFrame I inner Fs) :=
  normal_select _ _

/-! ### the operator structures -/

/-- elementwise operations (Abs, Neg, `+ k`, `> k`) and Filter for a fixed predicate column -/
def mapK (f : γ → γ) : KeyedOp γ where
  keys := []
  outCols := id
  op := mapFrame f
  T := fun _ _ x => x.map f
  fresh := fun _ => none
  T_keys := fun _ _ _ => rfl
  op_cols := fun _ => rfl
  op_val := by intro F c hc; simp only [mapFrame, hc, if_true]
  op_fresh := by intro F c hc; simp only [mapFrame, hc, Bool.false_eq_true, if_false]

theorem mapK_id (f : γ → γ) (l : List Name) : (mapK f).outCols l = l := rfl

def srcS (I : Interp γ ι) (l : SrcLit) : SourceOp γ where
  read := srcFrame I l
  data := I.data l.tid
  read_cols := fun _ => rfl
  read_val := by intro cs c hc; simp only [srcFrame, hc, if_true]

def binB (g : γ → γ → γ) : BinOp γ where
  op := binFrame g
  g := fun _ => bin2 g
  outCols := fun a _ => a
  op_cols := fun _ _ => rfl
  op_val := fun _ _ _ => rfl

theorem mem_assignCols {keys frame : List Name} {c : Name} : c ∈ assignCols keys frame ↔ c ∈ frame ∨ c ∈ keys :=
  mem_assignLabels

theorem contains_eq_of_mem_iff {a b : List Name} {c : Name} (h : c ∈ a ↔ c ∈ b) : a.contains c = b.contains c := by
  by_cases ha : c ∈ a
  · rw [List.contains_iff_mem.mpr ha, List.contains_iff_mem.mpr (h.mp ha)]
  · have hb : c ∉ b := fun hb => ha (h.mpr hb)
    have e1 : a.contains c = false := by simpa using ha
    have e2 : b.contains c = false := by simpa using hb
    rw [e1, e2]

/-- the assignment as `AssignOp` states it: no restriction of the columns to the labels -/
def assignRaw (kv : List (Name × γ)) (F : Frame γ) : Frame γ :=
  ⟨assignCols (kv.map (·.1)) F.cols, fun c =>
    if (kv.map (·.1)).contains c then (kv.reverse.find? (fun e => e.1 == c)).map (·.2) else F.val c⟩

def assignA : AssignOp γ where
  op := assignRaw
  op_cols := fun _ _ => rfl
  op_key := by intro kv F k hk; simp only [assignRaw, hk, if_true]
  op_other := by intro kv F c hc; simp only [assignRaw, hc, Bool.false_eq_true, if_false]

/-- on its labels the fragment's assignment has the columns of `assignRaw` -/
theorem assignFrame_val (kv : List (Name × γ)) (F : Frame γ) (c : Name) (hc : c ∈ assignCols (kv.map (·.1)) F.cols) :
    (assignFrame kv F).val c = (assignRaw kv F).val c := by
  simp only [assignFrame, assignRaw, List.contains_iff_mem.mpr hc, if_true]

theorem mem_assignRaw_cols (kv : List (Name × γ)) (F : Frame γ) (c : Name) :
    c ∈ (assignRaw kv F).cols ↔ c ∈ assignCols (kv.map (·.1)) F.cols := by
  exact Iff.rfl

/-- relabelling -/
def renameR (m : List (Name × Name)) : RelabelOp γ where
  f := renameFwd m
  op := renameFrame m
  op_cols := fun _ => rfl
  op_val := by
    intro F c hc hinj
    have hcm : c ∈ F.cols := List.contains_iff_mem.mp hc
    cases hf : F.cols.find? (fun c' => renameFwd m c' == renameFwd m c) with
    | none =>
      rw [List.find?_eq_none] at hf
      exact absurd (by simp) (hf c hcm)
    | some c' =>
      have h1 := List.find?_some hf
      have h2 := List.mem_of_find?_eq_some hf
      have : c' = c := hinj c' (List.contains_iff_mem.mpr h2) (by simpa using h1)
      subst this
      simp only [renameFrame, hf]

/-- row-wise concatenation with a fixed label list: every label's stacked column -/
def concatC (I : Interp γ ι) (cols : List Name) : ConcatOp γ where
  op := concatRaw I cols
  C := I.stack
  op_val := fun _ _ => rfl

/-- the fragment's join is the `MergeOp` of its row matching -/
def mergeM (I : Interp γ ι) (how : Nat) (m : MergeP) : MergeOp γ := MergeOp.ofJoin m (I.joinL how) (I.joinR how)

theorem mergeM_op (I : Interp γ ι) (how : Nat) (m : MergeP) : (mergeM I how m).op = mergeFrame I how m := rfl
theorem mergeM_m (I : Interp γ ι) (how : Nat) (m : MergeP) : (mergeM I how m).m = m := rfl

/-! ### what the nodes denote -/

theorem semOp_eq {I : Interp γ ι} {o : Op} {vs : List (FVal γ)} {s : Schema}
    (h : schOp o (vs.map FVal.sch) = some s) (hc : (frameOp I o vs).cols = s.cols) (hn : Normal (frameOp I o vs)) :
    semOp I o vs = some ⟨frameOp I o vs, s.ser⟩ := by
  rw [semOp_of_sch h, ← hc, select_self hn]

theorem semOp_elem (I : Interp γ ι) (op : Nat) (F : FVal γ) :
    semOp I (.elem op) [F] = some ⟨mapFrame (I.un op) F.fr, F.ser⟩ :=
  semOp_eq (s := F.sch) rfl rfl (normal_mapFrame _ _)

theorem semOp_bink (I : Interp γ ι) (op k : Nat) (F : FVal γ) :
    semOp I (.bink op k) [F] = some ⟨mapFrame (I.bink op k) F.fr, F.ser⟩ :=
  semOp_eq (s := F.sch) rfl rfl (normal_mapFrame _ _)

theorem semOp_filter (I : Interp γ ι) (F P : FVal γ) (hP : P.ser = true) :
    semOp I .filter [F, P] = some ⟨mapFrame (I.mask (P.col I)) F.fr, F.ser⟩ := by
  have h : schOp .filter ([F, P].map FVal.sch) = some F.sch := by
    show (if P.sch.ser = true then some F.sch else none) = _
    have hP' : P.sch.ser = true := hP
    rw [if_pos hP']
  exact semOp_eq h rfl (normal_mapFrame _ _)

theorem semOp_filter_some {I : Interp γ ι} {F P v : FVal γ} (h : semOp I .filter [F, P] = some v) :
    P.ser = true ∧ v = ⟨mapFrame (I.mask (P.col I)) F.fr, F.ser⟩ := by
  obtain ⟨s, hs, _⟩ := semOp_some h
  have hP : P.ser = true := by
    have : (if P.sch.ser = true then some F.sch else none) = some s := hs
    exact (ite_some this).1
  rw [semOp_filter I F P hP] at h
  exact ⟨hP, (Option.some.inj h).symm⟩

/-- `Sel.one` gives a Series -/
def Sel.isOne : Sel → Bool
  | .one _ => true
  | .many _ => false

theorem subsetB_iff {a b : List Name} : subsetB a b = true ↔ ∀ c, c ∈ a → c ∈ b := by
  unfold subsetB
  rw [List.all_eq_true]
  constructor
  · intro h c hc; exact List.contains_iff_mem.mp (h c hc)
  · intro h c hc; exact List.contains_iff_mem.mpr (h c hc)

theorem schOp_proj_iff (sel : Sel) (s t : Schema) :
    schOp (.proj sel) [s] = some t ↔
      s.ser = false ∧ sel.toList.Nodup ∧ (∀ c, c ∈ sel.toList → c ∈ s.cols) ∧ t = ⟨sel.toList, Sel.isOne sel⟩ := by
  cases sel with
  | many cs =>
    show (if (!s.ser && decide cs.Nodup && subsetB cs s.cols) = true then some ⟨cs, false⟩ else none) = some t ↔ _
    constructor
    · intro h
      obtain ⟨hc, he⟩ := ite_some h
      simp only [Bool.and_eq_true, Bool.not_eq_true', decide_eq_true_eq] at hc
      exact ⟨hc.1.1, hc.1.2, subsetB_iff.mp hc.2, he.symm⟩
    · rintro ⟨h1, h2, h3, h4⟩
      have : (!s.ser && decide cs.Nodup && subsetB cs s.cols) = true := by
        simp only [Bool.and_eq_true, Bool.not_eq_true', decide_eq_true_eq]
        exact ⟨⟨h1, h2⟩, subsetB_iff.mpr h3⟩
      rw [if_pos this, h4]; rfl
  | one c =>
    show (if (!s.ser && s.cols.contains c) = true then some ⟨[c], true⟩ else none) = some t ↔ _
    constructor
    · intro h
      obtain ⟨hc, he⟩ := ite_some h
      simp only [Bool.and_eq_true, Bool.not_eq_true'] at hc
      refine ⟨hc.1, by simp [Sel.toList], ?_, he.symm⟩
      intro c' hc'
      have : c' = c := by simpa [Sel.toList] using hc'
      subst this
      exact List.contains_iff_mem.mp hc.2
    · rintro ⟨h1, _, h3, h4⟩
      have : (!s.ser && s.cols.contains c) = true := by
        simp only [Bool.and_eq_true, Bool.not_eq_true']
        exact ⟨h1, List.contains_iff_mem.mpr (h3 c (by simp [Sel.toList]))⟩
      rw [if_pos this, h4]; rfl

/-- a projection is defined iff it selects duplicate-free existing labels of a frame; it denotes the selection -/
theorem semOp_proj_iff (I : Interp γ ι) (sel : Sel) (F v : FVal γ) :
    semOp I (.proj sel) [F] = some v ↔
      F.ser = false ∧ sel.toList.Nodup ∧ (∀ c, c ∈ sel.toList → c ∈ F.fr.cols) ∧
        v = ⟨F.fr.select sel.toList, Sel.isOne sel⟩ := by
  constructor
  · intro h
    obtain ⟨s, hs, hv⟩ := semOp_some h
    obtain ⟨h1, h2, h3, h4⟩ := (schOp_proj_iff sel F.sch s).mp hs
    refine ⟨h1, h2, h3, ?_⟩
    rw [hv, h4]
    show (⟨(F.fr.select sel.toList).select sel.toList, _⟩ : FVal γ) = _
    have e : (F.fr.select sel.toList).select sel.toList = F.fr.select sel.toList := select_self (normal_select _ _)
    rw [e]
  · rintro ⟨h1, h2, h3, h4⟩
    have hs : schOp (.proj sel) ([F].map FVal.sch) = some ⟨sel.toList, Sel.isOne sel⟩ :=
      (schOp_proj_iff sel F.sch _).mpr ⟨h1, h2, h3, rfl⟩
    rw [semOp_eq hs rfl (normal_select _ _), h4]
    rfl

end Dx.Frag
