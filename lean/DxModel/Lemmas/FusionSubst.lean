/-
  Lemmas/FusionSubst.lean — the substitution `expr.substitute(group[0], Fused(group, *deps))` of
  `optimize_blockwise_fusion` leaves the value of every key of every other expression unchanged.

  Reference semantics: `refGraph` (Fusion.lean) — every ordinary blockwise node contributes
  `Blockwise._task(i)`, a `Fused` node stands for its first member (`C14_task` proves that the task
  `Fused._task(i)` computes exactly that value).  After the substitution every operand `group[0]`
  has become the new `Fused` node; `_blockwise_arg` of a consumer looks at `npartitions`/`ndim` of the
  operand (`_broadcast_dep`), which `Fused` takes over from `group[0]` (`Fused._meta`,
  `Fused._divisions`): the consumer reads the same partition number, now of the `Fused` node.

  Names: an expression is created after its operands and a `Fused` node after its members
  (`NameRanked`, decidable: `nameRankedB`); the correspondence family numbers the nodes of the real
  plan in creation (topological) order and the driver re-checks `nameRankedB` on each real plan.
-/
import DxModel.Lemmas.FusionMeasure
namespace Dx.Fusion
open Dx

/-- operands and the first member of a `Fused` node have smaller names than the node -/
def RankedBy (dag : Dag) (ρ : Nat → Nat) : Prop :=
  ∀ x nd, getNode dag x = some nd →
    (∀ d ∈ nd.deps, ρ d < ρ x) ∧ (∀ r rs, nd.members = r :: rs → ρ r < ρ x)

/-- the instance used by the correspondence family: the names themselves are a rank -/
def NameRanked (dag : Dag) : Prop := RankedBy dag id

theorem membersKnownB_sound (dag : Dag) (h : membersKnownB dag = true) :
    ∀ x nd, getNode dag x = some nd → ∀ m rs, nd.members = m :: rs → (getNode dag m).isSome = true := by
  intro x nd hg m rs hm
  obtain ⟨hmem, _⟩ := getNode_mem hg
  unfold membersKnownB at h
  rw [List.all_eq_true] at h
  have := h nd hmem
  rw [hm] at this
  exact this


theorem nameRankedB_sound (dag : Dag) (h : nameRankedB dag = true) : NameRanked dag := by
  intro x nd hg
  simp only [id]
  obtain ⟨hm, hn⟩ := getNode_mem hg
  unfold nameRankedB at h
  rw [List.all_eq_true] at h
  have h1 := h nd hm
  rw [Bool.and_eq_true, List.all_eq_true] at h1
  refine ⟨?_, ?_⟩
  · intro d hd
    have := h1.1 d hd
    rw [decide_eq_true_eq] at this
    omega
  · intro r rs hr
    have := h1.2
    unfold headLt at this
    rw [hr] at this
    rw [decide_eq_true_eq] at this
    omega

/-- what the substitution needs to know about the new node: it is a `Fused` node whose first member
    is `old`, reporting `old`'s partition count and dimension under a name above every name of the plan -/
structure FusedFor (dag : Dag) (old : Nat) (f : Node) : Prop where
  bw : f.blockwise = true
  head : ∃ rs, f.members = old :: rs
  npart : f.npart = npartOf dag old
  ndim : ∀ on, getNode dag old = some on → f.ndim = on.ndim
  fresh : ∀ x ∈ allNames dag, x ≠ f.name
  /-- the first member of an existing `Fused` node is not the new name either (members are nodes of the plan) -/
  rfresh : ∀ x nd, getNode dag x = some nd → ∀ r rs, nd.members = r :: rs → r ≠ f.name

theorem getNode_none_of_fresh {dag : Dag} {fr : Nat} (h : ∀ x ∈ allNames dag, x ≠ fr) :
    getNode dag fr = none := by
  cases hg : getNode dag fr with
  | none => rfl
  | some nd =>
    obtain ⟨hm, hn⟩ := getNode_mem hg
    have : fr ∈ allNames dag := by
      unfold allNames; rw [List.mem_flatMap]; exact ⟨nd, hm, by simp [hn]⟩
    exact absurd rfl (h fr this)

theorem node_lt_of_fresh {dag : Dag} {fr x : Nat} {nd : Node} (h : ∀ x ∈ allNames dag, x ≠ fr)
    (hg : getNode dag x = some nd) : x ≠ fr ∧ ∀ d ∈ nd.deps, d ≠ fr := by
  obtain ⟨hm, hn⟩ := getNode_mem hg
  refine ⟨h x ?_, fun d hd => h d ?_⟩
  · unfold allNames; rw [List.mem_flatMap]; exact ⟨nd, hm, by simp [hn]⟩
  · unfold allNames; rw [List.mem_flatMap]; exact ⟨nd, hm, by simp [hd]⟩

/-- the node table after `substitute old f.name` with `f` appended -/
theorem getNode_subst_append (dag : Dag) (old : Nat) (f : Node) (hfr : getNode dag f.name = none) (x : Nat) :
    getNode (substitute dag old f.name ++ [f]) x =
      if x = f.name then some f
      else (getNode dag x).map (fun nd => { nd with deps := nd.deps.map (sub old f.name) }) := by
  have h1 : getNode (substitute dag old f.name ++ [f]) x =
      (getNode (substitute dag old f.name) x).or (getNode [f] x) := by
    unfold getNode; rw [List.find?_append]
  rw [h1, getNode_substitute]
  by_cases hx : x = f.name
  · subst hx
    rw [hfr]
    simp [getNode]
  · have : (f.name == x) = false := by simpa using fun h => hx h.symm
    simp [hx, getNode, this]

def subNode (old new : Nat) (nd : Node) : Node := { nd with deps := nd.deps.map (sub old new) }

/-- `c._blockwise_arg(d', i)` after the substitution is the old argument with the name renamed -/
theorem argKey_subst (dag : Dag) (old : Nat) (f : Node) (hf : FusedFor dag old f)
    (c c' : Node) (hck : c'.kall = c.kall) (hcn : c'.ndim = c.ndim) (i d : Nat) (hd : d ≠ f.name) :
    argKey (substitute dag old f.name ++ [f]) c' i (sub old f.name d) =
      (match argKey dag c i d with
       | .part n j => .part (sub old f.name n) j
       | k => k) := by
  have hfr := getNode_none_of_fresh hf.fresh
  unfold argKey
  rw [getNode_subst_append dag old f hfr]
  by_cases hdo : d = old
  · subst hdo
    have hs : sub d f.name d = f.name := by simp [sub]
    rw [hs]
    simp only [if_true]
    cases hg : getNode dag d with
    | none =>
      have hnp : f.npart = 0 := by rw [hf.npart]; simp [npartOf, hg]
      simp [bcast, hnp, hs, hck, hcn]
    | some on =>
      have hnp : f.npart = on.npart := by rw [hf.npart]; simp [npartOf, hg]
      have hnd := hf.ndim on hg
      simp [bcast, hnp, hnd, hs, hck, hcn]
  · have hs : sub old f.name d = d := by simp [sub, hdo]
    rw [hs]
    have hne : d ≠ f.name := hd
    simp only [hne, if_false]
    cases hg : getNode dag d with
    | none => simp [hs]
    | some dn => simp [bcast, hs, hck, hcn]

theorem refGraph_subst_other (dag : Dag) (old : Nat) (f : Node) (hf : FusedFor dag old f)
    (x i : Nat) (hx : x ≠ f.name) :
    refGraph (substitute dag old f.name ++ [f]) (.part x i) =
      (match getNode dag x with
       | some nd =>
         if nd.blockwise then
           (match nd.members with
            | [] => if i < nd.npart then
                some (plainTask (substitute dag old f.name ++ [f]) (subNode old f.name nd) i) else none
            | r :: _ => some (.alias (.part r i)))
         else none
       | none => none) := by
  have hfr := getNode_none_of_fresh hf.fresh
  simp only [refGraph]
  rw [getNode_subst_append dag old f hfr]
  simp only [hx, if_false]
  cases getNode dag x <;> rfl

theorem refGraph_subst_fused (dag : Dag) (old : Nat) (f : Node) (hf : FusedFor dag old f) (i : Nat) :
    refGraph (substitute dag old f.name ++ [f]) (.part f.name i) = some (.alias (.part old i)) := by
  have hfr := getNode_none_of_fresh hf.fresh
  obtain ⟨rs, hrs⟩ := hf.head
  simp only [refGraph]
  rw [getNode_subst_append dag old f hfr]
  simp [hf.bw, hrs]

/-- **Substitution lemma.**  For every node `x` of the old plan (every name but the new one), every
    partition `i` and all sufficiently large fuels, the key `(x, i)` has the same value in the plan
    after the substitution as before.  `ρ` is any rank of the old plan (expressions are acyclic). -/
theorem subst_value (I : Interp) (dag : Dag) (old : Nat) (f : Node) (hf : FusedFor dag old f)
    (ρ : Nat → Nat) (hr : RankedBy dag ρ) (inp : FKey → Option V) :
    ∀ (k x : Nat), ρ x = k → x ≠ f.name → ∀ (i N N' : Nat), k < N → 2 * k + 2 ≤ N' →
      run I (refGraph (substitute dag old f.name ++ [f])) inp N' (.part x i) =
        run I (refGraph dag) inp N (.part x i) := by
  intro k
  induction k using Nat.strongRecOn with
  | _ k ih =>
    intro x hk hx i N N' hN hN'
    obtain ⟨n, rfl⟩ : ∃ n, N = n + 1 := ⟨N - 1, by omega⟩
    obtain ⟨n', rfl⟩ : ∃ n', N' = n' + 1 := ⟨N' - 1, by omega⟩
    rw [run_succ, run_succ, refGraph_subst_other dag old f hf x i hx]
    have hR : refGraph dag (.part x i) = (match getNode dag x with
        | some nd =>
          if nd.blockwise then
            (match nd.members with
             | [] => if i < nd.npart then some (plainTask dag nd i) else none
             | r :: _ => some (.alias (.part r i)))
          else none
        | none => none) := rfl
    rw [hR]
    cases hg : getNode dag x with
    | none => rfl
    | some nd =>
      simp only
      obtain ⟨hdeps, hmem⟩ := hr x nd hg
      obtain ⟨hxfr, hdfr⟩ := node_lt_of_fresh hf.fresh hg
      by_cases hb : nd.blockwise = true
      · simp only [hb, if_true]
        cases hm : nd.members with
        | cons r rs =>
          simp only [evalTsk]
          have hrx := hmem r rs hm
          have hrfr : r ≠ f.name := by
            intro h
            have := refGraph_subst_fused dag old f hf 0
            have hnone := getNode_none_of_fresh hf.fresh
            exact hf.rfresh x nd hg r rs hm h
          exact ih (ρ r) (by omega) r rfl hrfr i n n' (by omega) (by omega)
        | nil =>
          simp only
          by_cases hi : i < nd.npart
          · simp only [hi, if_true, plainTask, evalTsk]
            show I nd.name (List.map _ (List.map _ (nd.deps.map (sub old f.name)))) = _
            congr 1
            simp only [List.map_map]
            apply List.map_congr_left
            intro d hd
            have hdx := hdeps d hd
            simp only [Function.comp]
            rw [argKey_subst dag old f hf nd (subNode old f.name nd) rfl rfl i d (hdfr d hd)]
            have hak : ∃ j, argKey dag nd i d = .part d j := by
              unfold argKey; cases getNode dag d <;> exact ⟨_, rfl⟩
            obtain ⟨j, hj⟩ := hak
            rw [hj]
            simp only
            by_cases hdo : d = old
            · have hs : sub old f.name d = f.name := by simp [sub, hdo]
              rw [hs]
              obtain ⟨n'', rfl⟩ : ∃ n'', n' = n'' + 1 := ⟨n' - 1, by omega⟩
              rw [run_succ, refGraph_subst_fused dag old f hf j]
              simp only [evalTsk]
              subst hdo
              exact ih (ρ d) (by omega) d rfl (hdfr d hd) j n n'' (by omega) (by omega)
            · have hs : sub old f.name d = d := by simp [sub, hdo]
              rw [hs]
              exact ih (ρ d) (by omega) d rfl (hdfr d hd) j n n' (by omega) (by omega)
          · simp only [hi, if_false]
      · simp only [hb]
        rfl

/-- the new root of the plan (`Fused` if the root itself was `group[0]`) has the old root's value -/
theorem subst_root_value (I : Interp) (dag : Dag) (old : Nat) (f : Node) (hf : FusedFor dag old f)
    (ρ : Nat → Nat) (hr : RankedBy dag ρ) (inp : FKey → Option V) (root : Nat) (hroot : root ≠ f.name)
    (i N N' : Nat) (hN : ρ root < N) (hN' : 2 * ρ root + 3 ≤ N') :
    run I (refGraph (substitute dag old f.name ++ [f])) inp N'
        (.part (if root = old then f.name else root) i) =
      run I (refGraph dag) inp N (.part root i) := by
  by_cases h : root = old
  · simp only [h, if_true]
    obtain ⟨n', rfl⟩ : ∃ n', N' = n' + 1 := ⟨N' - 1, by omega⟩
    rw [run_succ, refGraph_subst_fused dag old f hf i]
    simp only [evalTsk]
    subst h
    exact subst_value I dag root f hf ρ hr inp (ρ root) root rfl hroot i N n' hN (by omega)
  · simp only [h, if_false]
    exact subst_value I dag old f hf ρ hr inp (ρ root) root rfl hroot i N N' hN (by omega)

/-- the node built by a fusion pass satisfies `FusedFor` -/
theorem fusedNode_for (dag : Dag) (G : List Nat) (hG : G ≠ [])
    (hmem : ∀ x nd, getNode dag x = some nd → ∀ r rs, nd.members = r :: rs → r ≠ freshName dag) :
    FusedFor dag (G.headD 0) (fusedNode dag G) := by
  refine ⟨rfl, ?_, rfl, ?_, ?_, hmem⟩
  · cases G with
    | nil => exact absurd rfl hG
    | cons g gs => exact ⟨gs, rfl⟩
  · intro on hon
    show (match getNode dag (G.headD 0) with | some nd => nd.ndim | none => 0) = on.ndim
    rw [hon]
  · intro x hx
    exact Nat.ne_of_lt (lt_freshName dag x hx)

end Dx.Fusion
