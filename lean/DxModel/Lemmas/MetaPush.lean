/-
  Lemmas/MetaPush.lean — the projection push-down rules of `Dx.Cols`, applied to expression trees, keep the
  declared schema of the root (labels, kinds, names, index): per-rule lemmas for Props/C07.lean.
-/
import DxModel.Meta
import DxModel.MetaPush
import DxModel.Lemmas.Meta
import DxModel.Lemmas.MetaConcat
import DxModel.Lemmas.Cols
import DxModel.Lemmas.ColsRules
import DxModel.Lemmas.ColsSem
namespace Dx.Meta
open Dx.Cols (Parent Dep Rw Sel Adequate)

/-! ### selections of a frame -/

theorem selectCols_labels : ∀ {cols : List Col} {cs : List Name} {sub : List Col}, selectCols cols cs = some sub → labels sub = cs
  | _, [], sub, h => by simp [selectCols] at h; subst h; rfl
  | cols, c :: cs, sub, h => by
    simp only [selectCols] at h
    cases hc : cols.lookup c with
    | none => rw [hc] at h; simp at h
    | some k =>
      cases hr : selectCols cols cs with
      | none => rw [hc, hr] at h; simp at h
      | some r =>
        rw [hc, hr] at h
        simp only [Option.some.injEq] at h
        subst h
        simp only [labels, List.map_cons, List.cons.injEq, true_and]
        exact selectCols_labels hr

theorem selectCols_lookup : ∀ {cols : List Col} {cs : List Name} {sub : List Col}, selectCols cols cs = some sub →
    ∀ c, sub.lookup c = if cs.contains c then cols.lookup c else none
  | _, [], sub, h, c => by simp [selectCols] at h; subst h; rfl
  | cols, x :: cs, sub, h, c => by
    simp only [selectCols] at h
    cases hx : cols.lookup x with
    | none => rw [hx] at h; simp at h
    | some k =>
      cases hr : selectCols cols cs with
      | none => rw [hx, hr] at h; simp at h
      | some r =>
        rw [hx, hr] at h
        simp only [Option.some.injEq] at h
        subst h
        simp only [List.lookup_cons, List.contains_cons]
        cases hb : (c == x) with
        | true =>
          have : c = x := by simpa using hb
          subst this
          simp [hx]
        | false =>
          simp only [Bool.false_or]
          exact selectCols_lookup hr c

theorem selectCols_some_of_sub : ∀ (cols : List Col) (cs : List Name), (∀ c, c ∈ cs → c ∈ labels cols) →
    ∃ sub, selectCols cols cs = some sub
  | _, [], _ => ⟨[], rfl⟩
  | cols, c :: cs, h => by
    obtain ⟨r, hr⟩ := selectCols_some_of_sub cols cs (fun x hx => h x (by simp [hx]))
    cases hc : cols.lookup c with
    | none => exact absurd (h c (by simp)) ((lookup_none_iff cols c).mp hc)
    | some k => exact ⟨(c, k) :: r, by simp [selectCols, hc, hr]⟩

theorem selectCols_congr (A B : List Col) : ∀ (P : List Name), (∀ c, c ∈ P → A.lookup c = B.lookup c) →
    selectCols A P = selectCols B P
  | [], _ => rfl
  | c :: cs, h => by
    simp only [selectCols, h c (by simp), selectCols_congr A B cs (fun x hx => h x (by simp [hx]))]

/-- an adequate child: the columns the parent asks for and the operator's keys are found with the kinds they had -/
theorem adequate_lookup {cols : List Col} {keys P child : List Name} {sub : List Col}
    (had : Adequate (labels cols) keys P child) (hs : selectCols cols child = some sub) :
    ∀ c, (c ∈ P ∨ c ∈ keys) → sub.lookup c = cols.lookup c := by
  intro c hc
  rw [selectCols_lookup hs c]
  by_cases hm : child.contains c = true
  · rw [if_pos hm]
  · rw [if_neg hm]
    have hnot : c ∉ labels cols := by
      intro hin
      apply hm
      apply List.contains_iff_mem.mpr
      rcases hc with h | h
      · exact had.req c h hin
      · exact had.keys c h hin
    exact ((lookup_none_iff cols c).mpr hnot).symm

theorem adequate_select {cols : List Col} {keys P child : List Name} (had : Adequate (labels cols) keys P child) :
    ∃ sub, selectCols cols child = some sub := selectCols_some_of_sub cols child had.sub

theorem lookup_mem : ∀ {cols : List Col} {c : Name} {k : Kind}, cols.lookup c = some k → (c, k) ∈ cols
  | [], _, _, h => by simp at h
  | (n, k0) :: t, c, k, h => by
    simp only [List.lookup_cons] at h
    cases hb : (c == n) with
    | true =>
      rw [hb] at h
      have hcn : c = n := by simpa using hb
      simp only [Option.some.injEq] at h
      subst hcn; subst h
      simp
    | false =>
      rw [hb] at h
      exact List.mem_cons_of_mem _ (lookup_mem h)

/-- every entry of a selection is an entry of the frame -/
theorem selectCols_mem : ∀ {cols : List Col} {cs : List Name} {sub : List Col}, selectCols cols cs = some sub →
    ∀ x, x ∈ sub → x ∈ cols
  | _, [], sub, h, x, hx => by simp [selectCols] at h; subst h; cases hx
  | cols, c :: cs, sub, h, x, hx => by
    simp only [selectCols] at h
    cases hc : cols.lookup c with
    | none => rw [hc] at h; simp at h
    | some k =>
      cases hr : selectCols cols cs with
      | none => rw [hc, hr] at h; simp at h
      | some r =>
        rw [hc, hr] at h
        simp only [Option.some.injEq] at h
        subst h
        rcases List.mem_cons.mp hx with rfl | hx'
        · exact lookup_mem hc
        · exact selectCols_mem hr x hx'

/-! ### the parent projection -/

/-- the parent only looks the requested labels up -/
theorem proj_congr {pop : UOp} {p : Parent} (hp : parentOf pop = some p) (rc rc' : List Col) (ri : List Lvl)
    (h : ∀ c, c ∈ p.cols → rc'.lookup c = rc.lookup c) :
    declU pop (.frame rc' ri) = declU pop (.frame rc ri) := by
  cases pop with
  | getCols cs =>
    simp only [parentOf, Option.some.injEq] at hp
    subst hp
    simp only [declU, pGetCols]
    rw [selectCols_congr rc' rc cs (fun c hc => h c (by simpa [Parent.cols] using hc))]
  | getCol c =>
    simp only [parentOf, Option.some.injEq] at hp
    subst hp
    simp only [declU, pGetCol]
    rw [h c (by simp [Parent.cols])]
  | _ => simp [parentOf] at hp

/-- `frame[parent.operand("columns")]` is the parent itself -/
theorem wrap_operand {pop : UOp} {p : Parent} (hp : parentOf pop = some p) (t : Tree) :
    declT (wrap t (some p.operand)) = declU pop (declT t) := by
  cases pop with
  | getCols cs =>
    simp only [parentOf, Option.some.injEq] at hp
    subst hp
    rfl
  | getCol c =>
    simp only [parentOf, Option.some.injEq] at hp
    subst hp
    rfl
  | _ => simp [parentOf] at hp

theorem parent_overFrame {pop : UOp} {p : Parent} (hp : parentOf pop = some p) : p.overFrame := by
  cases pop <;> simp [parentOf] at hp <;> subst hp <;> trivial

theorem declT_wrap_many (t : Tree) (cs : List Name) (cols : List Col) (idx : List Lvl) (hS : declT t = .frame cols idx) :
    declT (wrap t (some (.many cs))) = pGetCols cs (.frame cols idx) := by
  simp only [wrap, declT, declU, hS]

theorem declU_keep (s : Sch) : declU .keep s = s := rfl
theorem declT_un (op : UOp) (rt : Rt) (t : Tree) : declT (.un op rt t) = declU op (declT t) := by simp only [declT]

/-! ### plain_column_projection below a schema-preserving operator -/

theorem push_keep (deps : List Dep) (pop : UOp) (prt rt : Rt) (t t' : Tree) (p : Parent)
    (hp : parentOf pop = some p) (cols : List Col) (idx : List Lvl) (hS : declT t = .frame cols idx)
    (h : pushdown deps (.un pop prt (.un .keep rt t)) = some t') :
    declT t' = declT (.un pop prt (.un .keep rt t)) := by
  simp only [pushdown, hp, hS, frameLabels] at h
  cases hpl : Dx.Cols.plain (labels cols) p deps with
  | none => rw [hpl] at h; cases h
  | some rw =>
    rw [hpl] at h
    simp only [Option.map_some, Option.some.injEq] at h
    subst h
    rcases Dx.Cols.plain_cases hpl with ⟨he, hrw⟩ | ⟨hne, hrw⟩
    · subst hrw
      simp only [child0, List.headD_cons, Bool.false_eq_true, if_false, declT_un, declU_keep, he]
      exact wrap_operand hp t
    · subst hrw
      simp only [child0, List.headD_cons, if_true, declT_un, declU_keep]
      have had := Dx.Cols.plainSel_adequate (labels cols) p deps []
      cases hsel : Dx.Cols.plainSel (labels cols) (Dx.Cols.detProj p deps []) with
      | one c =>
        exfalso
        apply hne
        rw [hsel, Dx.Cols.plain_collapse (parent_overFrame hp) hsel]
        rfl
      | many child =>
        rw [hsel] at had
        simp only [Sel.toList] at had
        rw [declT_wrap_many t child cols idx hS]
        obtain ⟨sub, hs⟩ := adequate_select had
        simp only [pGetCols, hs]
        rw [hS]
        exact proj_congr hp cols sub idx (fun c hc => adequate_lookup had hs c (Or.inl hc))

/-! ### rules that keep the parent and prune the input to the requested columns plus the operator's keys -/

/-- shape of a rewrite by a `keyed` rule -/
theorem keyed_shape {deps : List Dep} {pop : UOp} {prt rt : Rt} {op : UOp} {t t' : Tree} {p : Parent}
    {cols : List Col} {keys : List Name}
    (h : (Dx.Cols.keyed (labels cols) keys p deps).map
        (fun rw => (if rw.keep then Tree.un pop prt (.un op rt (wrap t (child0 rw))) else .un op rt (wrap t (child0 rw)))) = some t') :
    ∃ child, Adequate (labels cols) keys p.cols child ∧ t' = .un pop prt (.un op rt (wrap t (some (.many child)))) := by
  cases hk : Dx.Cols.keyed (labels cols) keys p deps with
  | none => rw [hk] at h; cases h
  | some rw =>
    rw [hk] at h
    simp only [Option.map_some, Option.some.injEq] at h
    obtain ⟨⟨hc, hkeep, _⟩, _⟩ := Dx.Cols.keyed_spec hk
    refine ⟨_, Dx.Cols.adequate_union_contains (labels cols) p deps keys, ?_⟩
    rw [← h]
    simp only [hkeep, if_true, child0, hc, List.headD_cons]

theorem lookup_filter_ne (cols : List Col) (c y : Name) :
    (cols.filter (fun x => x.1 != c)).lookup y = if y == c then none else cols.lookup y := by
  induction cols with
  | nil => simp
  | cons a t ih =>
    obtain ⟨n, k⟩ := a
    by_cases hn : n = c
    · subst hn
      simp only [List.filter_cons, bne_self_eq_false, Bool.false_eq_true, if_false, ih, List.lookup_cons]
      by_cases hy : y = n
      · subst hy; simp
      · have : (y == n) = false := by simpa using hy
        simp [this]
    · have hb : (n != c) = true := by simpa using hn
      simp only [List.filter_cons, hb, if_true, List.lookup_cons, ih]
      by_cases hy : y = n
      · subst hy
        have : (y == c) = false := by simpa using hn
        simp [this]
      · have : (y == n) = false := by simpa using hy
        simp [this]

theorem push_setIndex (deps : List Dep) (pop : UOp) (prt rt : Rt) (c : Name) (d : Bool) (t t' : Tree) (p : Parent)
    (hp : parentOf pop = some p) (cols : List Col) (idx : List Lvl) (hS : declT t = .frame cols idx)
    (h : pushdown deps (.un pop prt (.un (.setIndex c d) rt t)) = some t') :
    declT t' = declT (.un pop prt (.un (.setIndex c d) rt t)) := by
  simp only [pushdown, hp, hS, frameLabels] at h
  obtain ⟨child, had, rfl⟩ := keyed_shape h
  simp only [declT_un]
  rw [declT_wrap_many t child cols idx hS, hS]
  obtain ⟨sub, hs⟩ := adequate_select had
  have hl := adequate_lookup had hs
  simp only [pGetCols, hs, declU, pSetIndex]
  rw [hl c (Or.inr (by simp))]
  cases hk : cols.lookup c with
  | none => rfl
  | some k =>
    simp only
    apply proj_congr hp
    intro y hy
    cases d with
    | true => simp only [if_true, lookup_filter_ne, hl y (Or.inl hy)]
    | false => simp only [Bool.false_eq_true, if_false, hl y (Or.inl hy)]

/-! #### groupby -/

theorem declGroupby_eq (keys : List Name) (sl : Slice) (f : Agg) (s : Sch) (hf : f ≠ .mean) :
    declGroupby keys sl f s = if isGroupAgg f then pGroupby keys sl f s else .bad := by
  unfold declGroupby
  by_cases hg : isGroupAgg f = true
  · simp only [hg, Bool.not_true, Bool.false_eq_true, if_false, hf, if_true]
    unfold acaMeta gbAggregate gbChunk
    simp only [uConcat_single]
    rw [gbLevel_fixed hf (pGroupby_image keys sl f s), gbLevel_fixed hf (pGroupby_image keys sl f s)]
  · simp [hg]

theorem keyLevels_congr (A B : List Col) : ∀ (keys : List Name), (∀ k, k ∈ keys → A.lookup k = B.lookup k) →
    keyLevels A keys = keyLevels B keys
  | [], _ => rfl
  | k :: ks, h => by
    simp only [keyLevels, h k (by simp), keyLevels_congr A B ks (fun x hx => h x (by simp [hx]))]

theorem aggCols_all_some {f : Agg} : ∀ {A r : List Col}, aggCols f A = some r → ∀ x, x ∈ A → ∃ k, aggKind f x.2 = some k
  | [], _, _, x, hx => by cases hx
  | a :: t, r, h, x, hx => by
    simp only [aggCols] at h
    cases ha : aggKind f a.2 with
    | none => rw [ha] at h; simp at h
    | some k =>
      cases ht : aggCols f t with
      | none => rw [ha, ht] at h; simp at h
      | some r' =>
        rcases List.mem_cons.mp hx with rfl | hx'
        · exact ⟨k, ha⟩
        · exact aggCols_all_some ht x hx'

theorem aggCols_of_all_some {f : Agg} : ∀ (A : List Col), (∀ x, x ∈ A → ∃ k, aggKind f x.2 = some k) → ∃ r, aggCols f A = some r
  | [], _ => ⟨[], rfl⟩
  | a :: t, h => by
    obtain ⟨k, hk⟩ := h a (by simp)
    obtain ⟨r, hr⟩ := aggCols_of_all_some t (fun x hx => h x (by simp [hx]))
    exact ⟨(a.1, k) :: r, by simp [aggCols, hk, hr]⟩

theorem aggCols_lookup {f : Agg} : ∀ {A r : List Col}, aggCols f A = some r → ∀ c, r.lookup c = (A.lookup c).bind (aggKind f)
  | [], r, h, c => by simp [aggCols] at h; subst h; rfl
  | (n, k0) :: t, r, h, c => by
    simp only [aggCols] at h
    cases ha : aggKind f k0 with
    | none => rw [ha] at h; simp at h
    | some k =>
      cases ht : aggCols f t with
      | none => rw [ha, ht] at h; simp at h
      | some r' =>
        rw [ha, ht] at h
        simp only [Option.some.injEq] at h
        subst h
        simp only [List.lookup_cons]
        cases hb : (c == n) with
        | true => simp [ha]
        | false => exact aggCols_lookup ht c

theorem lookup_filter_notin (cols : List Col) (keys : List Name) (y : Name) :
    (cols.filter (fun x => !keys.contains x.1)).lookup y = if keys.contains y then none else cols.lookup y := by
  induction cols with
  | nil => simp
  | cons a t ih =>
    obtain ⟨n, k⟩ := a
    by_cases hn : keys.contains n = true
    · have hf : (!keys.contains n) = false := by rw [hn]; rfl
      rw [List.filter_cons, if_neg (by rw [hf]; exact Bool.false_ne_true), ih, List.lookup_cons]
      cases hb : (y == n) with
      | true =>
        have : y = n := by simpa using hb
        subst this
        rw [if_pos hn, if_pos hn]
      | false => rfl
    · have hn' : keys.contains n = false := by simpa using hn
      have hf : (!keys.contains n) = true := by rw [hn']; rfl
      rw [List.filter_cons, if_pos hf, List.lookup_cons, List.lookup_cons, ih]
      cases hb : (y == n) with
      | true =>
        have : y = n := by simpa using hb
        subst this
        simp only [if_neg hn]
      | false => rfl

theorem declU_parent_bad {pop : UOp} {p : Parent} (hp : parentOf pop = some p) : declU pop .bad = .bad := by
  cases pop <;> simp [parentOf] at hp <;> rfl

/-- FULL STATEMENT: for every selection `g[columns]` and every aggregation.  PARTIAL: not for a scalar selection (the
    result is a Series, the parent is not a frame projection) and not for `mean` (its chunk has columns of its own).
    A list selection is kept in the pruned input since D96. -/
theorem push_groupby (deps : List Dep) (pop : UOp) (prt rt : Rt) (keys : List Name) (sl : Slice) (hsl : ∀ c, sl ≠ .one c)
    (f : Agg) (hf : f ≠ .mean) (t t' : Tree) (p : Parent)
    (hp : parentOf pop = some p) (cols : List Col) (idx : List Lvl) (hS : declT t = .frame cols idx)
    (hok : declT (.un pop prt (.un (.gbAgg keys sl f) rt t)) ≠ .bad)
    (h : pushdown deps (.un pop prt (.un (.gbAgg keys sl f) rt t)) = some t') :
    declT t' = declT (.un pop prt (.un (.gbAgg keys sl f) rt t)) := by
  simp only [pushdown, hp, hS, frameLabels] at h
  obtain ⟨child, had, rfl⟩ := keyed_shape h
  simp only [declT_un] at hok ⊢
  rw [declT_wrap_many t child cols idx hS]
  rw [hS] at hok ⊢
  obtain ⟨sub, hs⟩ := adequate_select had
  have hl := adequate_lookup had hs
  have hlk : ∀ k, k ∈ keys → sub.lookup k = cols.lookup k := fun k hk => hl k (Or.inr (List.mem_append_left _ hk))
  simp only [pGetCols, hs]
  simp only [declU, declGroupby_eq _ _ _ _ hf] at hok ⊢
  by_cases hg : isGroupAgg f = true
  · simp only [hg, if_true, pGroupby] at hok ⊢
    by_cases hke : keys.isEmpty = true
    · simp only [hke, if_true]
    · simp only [hke, Bool.false_eq_true, if_false] at hok ⊢
      rw [keyLevels_congr sub cols keys hlk]
      cases hkl : keyLevels cols keys with
      | none => rfl
      | some lv =>
        simp only [hkl] at hok ⊢
        by_cases hsz : f = .size
        · cases sl with
          | all => simp only [hsz, if_true]
          | many cs => simp only [hsz, if_true]
          | one c => exact absurd rfl (hsl c)
        · simp only [hsz, if_false] at hok ⊢
          cases sl with
          | one c => exact absurd rfl (hsl c)
          | many cs =>
            simp only
            rw [selectCols_congr sub cols cs (fun c hc => hl c (Or.inr (List.mem_append_right _ (by simpa [sliceCols] using hc))))]
          | all =>
            simp only at hok ⊢
            cases hr : aggCols f (cols.filter (fun x => !keys.contains x.1)) with
            | none =>
              exfalso
              apply hok
              simp only [hr]
              exact declU_parent_bad hp
            | some r =>
              have hall := aggCols_all_some hr
              obtain ⟨r', hr'⟩ := aggCols_of_all_some (f := f) (sub.filter (fun x => !keys.contains x.1)) (by
                intro x hx
                rw [List.mem_filter] at hx
                exact hall x (List.mem_filter.mpr ⟨selectCols_mem hs x hx.1, hx.2⟩))
              simp only [hr']
              apply proj_congr hp
              intro y hy
              rw [aggCols_lookup hr', aggCols_lookup hr, lookup_filter_notin, lookup_filter_notin, hl y (Or.inl hy)]
  · simp only [hg, Bool.false_eq_true, if_false]

/-! #### reset_index -/

theorem lookup_append (A B : List Col) (c : Name) :
    (A ++ B).lookup c = match A.lookup c with | some k => some k | none => B.lookup c := by
  induction A with
  | nil => rfl
  | cons a t ih =>
    obtain ⟨n, k⟩ := a
    simp only [List.cons_append, List.lookup_cons]
    cases hb : (c == n) with
    | true => rfl
    | false => exact ih

theorem labels_zip (new : List Name) (ks : List Kind) : ∀ c, c ∈ labels (new.zip ks) → c ∈ new := by
  intro c hc
  obtain ⟨x, hx, rfl⟩ := List.mem_map.mp hc
  exact (List.of_mem_zip hx).1

theorem contains_false {l : List Name} {c : Name} : l.contains c = false ↔ c ∉ l := by
  constructor
  · intro h hc
    rw [List.contains_iff_mem.mpr hc] at h
    cases h
  · intro h
    cases hb : l.contains c with
    | false => rfl
    | true => exact absurd (List.contains_iff_mem.mp hb) h

theorem noClash_not_mem {new old : List Name} (h : noClash new old = true) {c : Name} (hc : c ∈ old) : c ∉ new := by
  intro hn
  simp only [noClash, Bool.and_eq_true, List.all_eq_true] at h
  have := h.1 c hn
  simp only [Bool.not_eq_true'] at this
  exact contains_false.mp this hc

theorem noClash_sub {new old old' : List Name} (h : noClash new old = true) (hs : ∀ c, c ∈ old' → c ∈ old) :
    noClash new old' = true := by
  simp only [noClash, Bool.and_eq_true, List.all_eq_true] at h ⊢
  refine ⟨?_, h.2⟩
  intro n hn
  have := h.1 n hn
  simp only [Bool.not_eq_true'] at this ⊢
  exact contains_false.mpr (fun hc => contains_false.mp this (hs n hc))

/-- looking a frame column up in a reset frame goes past the former index -/
theorem lookup_reset {new : List Name} {ks : List Kind} {cols : List Col} (hn : noClash new (labels cols) = true)
    {c : Name} (hc : c ∈ labels cols) : (new.zip ks ++ cols).lookup c = cols.lookup c := by
  rw [lookup_append]
  have : (new.zip ks).lookup c = none := by
    apply (lookup_none_iff _ c).mpr
    intro h
    exact noClash_not_mem hn hc (labels_zip new ks c h)
  rw [this]

/-- the guard of `ResetIndex._simplify_up`: the label of the former index does not depend on the pruned columns -/
theorem resetLabels_sub (idx : List Lvl) (cols sub : List Name) (hs : ∀ c, c ∈ sub → c ∈ cols)
    (hg : indexNamed (.frame [] idx) = true ∨ "index" ∉ cols) : resetLabels idx sub = resetLabels idx cols := by
  cases idx with
  | nil => rfl
  | cons a t =>
    obtain ⟨n, k⟩ := a
    cases t with
    | nil =>
      cases n with
      | none =>
        rcases hg with hg | hg
        · simp [indexNamed] at hg
        · have h1 : cols.contains "index" = false := contains_false.mpr hg
          have h2 : sub.contains "index" = false := contains_false.mpr (fun h => hg (hs _ h))
          simp only [resetLabels, h1, h2]
      | some x => rfl
    | cons b u => cases n <;> rfl

theorem plainSel_many_sub {frame : List Name} {s : Sel} {cs : List Name} (h : Dx.Cols.plainSel frame s = .many cs) :
    ∀ c, c ∈ cs → c ∈ frame := by
  intro c hc
  cases s with
  | many l =>
    simp only [Dx.Cols.plainSel, Sel.many.injEq] at h
    subst h
    exact (List.mem_filter.mp hc).1
  | one x =>
    simp only [Dx.Cols.plainSel] at h
    split at h
    · cases h
    · simp only [Sel.many.injEq] at h
      subst h
      cases hc

theorem plainSel_one_mem {frame : List Name} {s : Sel} {c : Name} (h : Dx.Cols.plainSel frame s = .one c) : c ∈ frame := by
  cases s with
  | many l => simp [Dx.Cols.plainSel] at h
  | one x =>
    simp only [Dx.Cols.plainSel] at h
    split at h
    · rename_i hx
      simp only [Sel.one.injEq] at h
      subst h
      exact List.contains_iff_mem.mp hx
    · cases h

theorem selectCols_reset {new : List Name} {ks : List Kind} {cols : List Col} (hn : noClash new (labels cols) = true) :
    ∀ (P : List Name), (∀ c, c ∈ P → c ∈ labels cols) → selectCols (new.zip ks ++ cols) P = selectCols cols P := by
  intro P hP
  apply selectCols_congr
  intro c hc
  exact lookup_reset hn (hP c hc)

theorem push_resetIndex (deps : List Dep) (pop : UOp) (prt rt : Rt) (d : Bool) (t t' : Tree) (p : Parent)
    (hp : parentOf pop = some p) (cols : List Col) (idx : List Lvl) (hS : declT t = .frame cols idx)
    (hok : declT (.un pop prt (.un (.resetIndex d) rt t)) ≠ .bad)
    (h : pushdown deps (.un pop prt (.un (.resetIndex d) rt t)) = some t') :
    declT t' = declT (.un pop prt (.un (.resetIndex d) rt t)) := by
  simp only [pushdown, hp, hS, frameLabels] at h
  cases hri : Dx.Cols.resetIndex (labels cols) d (indexNamed (.frame cols idx)) p deps with
  | none => rw [hri] at h; cases h
  | some rw =>
    rw [hri] at h
    simp only [Option.map_some, Option.some.injEq] at h
    subst h
    obtain ⟨hguard, rw0, hpl, hrw⟩ := Dx.Cols.resetIndex_spec hri
    -- the original is a frame: the former index does not clash with a column
    have hclash : d = false → noClash (resetLabels idx (labels cols)) (labels cols) = true := by
      intro hd
      subst hd
      by_cases hn : noClash (resetLabels idx (labels cols)) (labels cols) = true
      · exact hn
      · exfalso
        apply hok
        simp only [declT_un, hS]
        simp only [declU, pResetIndex, Bool.false_eq_true, if_false, hn]
        exact declU_parent_bad hp
    have hnamed : indexNamed (.frame cols idx) = indexNamed (.frame [] idx) := by
      cases idx with
      | nil => rfl
      | cons a u => obtain ⟨n, k⟩ := a; cases u <;> cases n <;> rfl
    rcases Dx.Cols.plain_cases hpl with ⟨he, hrw0⟩ | ⟨hne, hrw0⟩
    · -- the parent is dropped: ResetIndex(frame[P], drop=True)
      subst hrw0
      subst hrw
      simp only [child0, List.headD_cons, Bool.false_eq_true, if_false, declT_un, he]
      rw [wrap_operand hp t, hS]
      cases pop with
      | getCols P =>
        simp only [parentOf, Option.some.injEq] at hp
        subst hp
        have hsub : ∀ c, c ∈ P → c ∈ labels cols := by
          intro c hc
          have : Dx.Cols.plainSel (labels cols) (Dx.Cols.detProj (.list P) deps []) = .many P := he
          exact plainSel_many_sub this c hc
        obtain ⟨sel, hsel⟩ := selectCols_some_of_sub cols P hsub
        cases d with
        | true => simp only [declU, pGetCols, pResetIndex, if_true, hsel]
        | false =>
          have hn := hclash rfl
          simp only [declU, pGetCols, pResetIndex, Bool.false_eq_true, if_false, hn, if_true, hsel,
            selectCols_reset hn P hsub]
      | getCol c =>
        simp only [parentOf, Option.some.injEq] at hp
        subst hp
        have hc : c ∈ labels cols := by
          have : Dx.Cols.plainSel (labels cols) (Dx.Cols.detProj (.scalar c) deps []) = .one c := he
          exact plainSel_one_mem this
        cases hk : cols.lookup c with
        | none => exact absurd hc ((lookup_none_iff cols c).mp hk)
        | some k =>
          cases d with
          | true => simp only [declU, pGetCol, pResetIndex, if_true, hk]
          | false =>
            have hn := hclash rfl
            simp only [declU, pGetCol, pResetIndex, Bool.false_eq_true, if_false, hn, if_true, hk, lookup_reset hn hc]
      | _ => simp [parentOf] at hp
    · -- the parent stays: Projection(ResetIndex(frame[child], drop), P)
      subst hrw0
      subst hrw
      simp only [child0, List.headD_cons, if_true, declT_un]
      have had := Dx.Cols.plainSel_adequate (labels cols) p deps []
      cases hsel : Dx.Cols.plainSel (labels cols) (Dx.Cols.detProj p deps []) with
      | one c =>
        exfalso
        apply hne
        rw [hsel, Dx.Cols.plain_collapse (parent_overFrame hp) hsel]
        rfl
      | many child =>
        rw [hsel] at had
        simp only [Sel.toList] at had
        rw [declT_wrap_many t child cols idx hS, hS]
        obtain ⟨sub, hs⟩ := adequate_select had
        have hl := adequate_lookup had hs
        have hlabs : ∀ c, c ∈ labels sub → c ∈ labels cols := by
          rw [selectCols_labels hs]; exact had.sub
        simp only [pGetCols, hs]
        cases d with
        | true =>
          simp only [declU, pResetIndex, if_true]
          exact proj_congr hp cols sub rangeIdx (fun c hc => hl c (Or.inl hc))
        | false =>
          have hn := hclash rfl
          have hlab : resetLabels idx (labels sub) = resetLabels idx (labels cols) := by
            apply resetLabels_sub idx _ _ hlabs
            rcases hguard with hd | hnm | hi
            · cases hd
            · left; rw [← hnamed]; exact hnm
            · right; exact hi
          simp only [declU, pResetIndex, Bool.false_eq_true, if_false, hlab, hn, noClash_sub hn hlabs, if_true]
          apply proj_congr hp
          intro c hc
          rw [lookup_append, lookup_append, hl c (Or.inl hc)]

/-! #### rename / add_prefix / add_suffix -/

theorem lookup_relabel (φ : Name → Name) : ∀ (l : List Col) (y : Name),
    (l.map (fun c => (φ c.1, c.2))).lookup y = (l.find? (fun c => φ c.1 == y)).map (·.2)
  | [], _ => rfl
  | (n, k) :: t, y => by
    simp only [List.map_cons, List.lookup_cons, List.find?_cons]
    by_cases h : φ n = y
    · subst h; simp
    · have h1 : (y == φ n) = false := by simpa using fun e => h e.symm
      have h2 : (φ n == y) = false := by simpa using h
      rw [h1, h2]
      exact lookup_relabel φ t y

/-- relabelling a pruned input: a requested label whose source column is unique and kept is found as before -/
theorem relabel_lookup_sub (φ : Name → Name) (cols sub : List Col) (child : List Name) (y : Name)
    (hs : selectCols cols child = some sub) (hn : (labels cols).Nodup)
    (hsrc : ∀ x, x ∈ labels cols → φ x = y → x ∈ child)
    (huniq : ∀ x x', x ∈ labels cols → x' ∈ labels cols → φ x = y → φ x' = y → x = x') :
    (sub.map (fun c => (φ c.1, c.2))).lookup y = (cols.map (fun c => (φ c.1, c.2))).lookup y := by
  rw [lookup_relabel, lookup_relabel]
  cases hc : cols.find? (fun c => φ c.1 == y) with
  | none =>
    rw [List.find?_eq_none] at hc
    have : sub.find? (fun c => φ c.1 == y) = none := by
      rw [List.find?_eq_none]
      intro x hx
      exact hc x (selectCols_mem hs x hx)
    rw [this]
  | some e =>
    have hec : e ∈ cols := List.mem_of_find?_eq_some hc
    have hey : φ e.1 = y := by simpa using List.find?_some hc
    have hel : e.1 ∈ labels cols := List.mem_map.mpr ⟨e, hec, rfl⟩
    have hin : (e.1, e.2) ∈ sub := by
      apply lookup_mem
      rw [selectCols_lookup hs, if_pos (List.contains_iff_mem.mpr (hsrc e.1 hel hey))]
      exact lookup_of_mem_nodup hn e hec
    cases hsf : sub.find? (fun c => φ c.1 == y) with
    | none =>
      rw [List.find?_eq_none] at hsf
      exact absurd (by simpa using hey) (hsf _ hin)
    | some e' =>
      have he'c : e' ∈ cols := selectCols_mem hs e' (List.mem_of_find?_eq_some hsf)
      have he'y : φ e'.1 = y := by simpa using List.find?_some hsf
      have h1 : e'.1 = e.1 := huniq _ _ (List.mem_map.mpr ⟨e', he'c, rfl⟩) hel he'y hey
      have h2 := lookup_of_mem_nodup hn e' he'c
      have h3 := lookup_of_mem_nodup hn e hec
      rw [h1, h3] at h2
      simp only [Option.map_some]
      exact (Option.some.inj h2).symm ▸ rfl

/-- shape of a rewrite by a rule that keeps the parent and prunes the input to `child` -/
theorem keep1_shape {pop : UOp} {prt rt : Rt} {op : UOp} {t t' : Tree} {orw : Option Rw} {child : List Name}
    (hspec : ∀ rw, orw = some rw → rw.isKeep1 child)
    (h : orw.map (fun rw => (if rw.keep then Tree.un pop prt (.un op rt (wrap t (child0 rw))) else .un op rt (wrap t (child0 rw)))) = some t') :
    t' = .un pop prt (.un op rt (wrap t (some (.many child)))) := by
  cases orw with
  | none => cases h
  | some rw =>
    simp only [Option.map_some, Option.some.injEq] at h
    obtain ⟨hc, hkeep, _⟩ := hspec rw rfl
    rw [← h]
    simp only [hkeep, if_true, child0, hc, List.headD_cons]

theorem renameOne_eq_fwd (m : List (Name × Name)) (c : Name) : renameOne m c = Dx.Cols.renameFwd m c := by
  unfold renameOne Dx.Cols.renameFwd
  induction m with
  | nil => rfl
  | cons kv t ih =>
    obtain ⟨k, v⟩ := kv
    simp only [List.lookup_cons, List.find?_cons]
    by_cases h : c = k
    · subst h; simp
    · have h1 : (c == k) = false := by simpa using h
      have h2 : (k == c) = false := by simpa using fun e => h e.symm
      rw [h1, h2]
      exact ih

/-- generic: a relabelling operator below a projection, input pruned to a sub-list that keeps the unique source of
    every requested label -/
theorem push_relabel_core (φ : Name → Name) {pop : UOp} {p : Parent} (hp : parentOf pop = some p)
    (cols : List Col) (idx : List Lvl) (child : List Name) (hn : (labels cols).Nodup)
    (hsub : ∀ c, c ∈ child → c ∈ labels cols)
    (hsrc : ∀ x, x ∈ labels cols → φ x ∈ p.cols → x ∈ child)
    (huniq : ∀ x x', x ∈ labels cols → x' ∈ labels cols → φ x ∈ p.cols → φ x' = φ x → x' = x) :
    declU pop (pAffix φ (pGetCols child (.frame cols idx))) = declU pop (pAffix φ (.frame cols idx)) := by
  obtain ⟨sub, hs⟩ := selectCols_some_of_sub cols child hsub
  simp only [pGetCols, hs, pAffix]
  apply proj_congr hp
  intro y hy
  exact relabel_lookup_sub φ cols sub child y hs hn (fun x hx hxy => hsrc x hx (hxy ▸ hy))
    (fun x x' hx hx' hxy hx'y => (huniq x x' hx hx' (hxy ▸ hy) (by rw [hx'y, hxy])).symm)

theorem pRename_eq_affix (m : List (Name × Name)) (s : Sch) : pRename m s = pAffix (renameOne m) s := by
  cases s <;> rfl

/-- FULL STATEMENT: without the two hypotheses on the mapping.  `huniq`: two input columns renamed to one requested
    label make the request ambiguous (pandas returns both); `hnd`: python dicts have unique keys. -/
theorem push_rename (deps : List Dep) (pop : UOp) (prt rt : Rt) (m : List (Name × Name)) (t t' : Tree) (p : Parent)
    (hp : parentOf pop = some p) (cols : List Col) (idx : List Lvl) (hS : declT t = .frame cols idx)
    (hn : (labels cols).Nodup) (hnd : (m.map (·.1)).Nodup)
    (huniq : ∀ x x', x ∈ labels cols → x' ∈ labels cols → renameOne m x ∈ p.cols → renameOne m x' = renameOne m x → x' = x)
    (h : pushdown deps (.un pop prt (.un (.rename m) rt t)) = some t') :
    declT t' = declT (.un pop prt (.un (.rename m) rt t)) := by
  simp only [pushdown, hp, hS, frameLabels] at h
  have hshape := keep1_shape (fun rw hrw => Dx.Cols.rename_spec hrw) h
  subst hshape
  simp only [declT_un]
  rw [declT_wrap_many t _ cols idx hS, hS]
  simp only [declU, pRename_eq_affix]
  apply push_relabel_core (renameOne m) hp cols idx _ hn
  · intro c hc; exact (List.mem_filter.mp hc).1
  · intro x hx hreq
    apply Dx.Cols.rename_sources hnd hx
    · intro c' hc' hfwd
      rw [← renameOne_eq_fwd, ← renameOne_eq_fwd] at hfwd
      exact huniq x c' hx hc' hreq hfwd
    · rw [← renameOne_eq_fwd]; exact hreq
  · exact huniq

theorem push_prefix (deps : List Dep) (pop : UOp) (prt rt : Rt) (pre : String) (t t' : Tree) (p : Parent)
    (hp : parentOf pop = some p) (cols : List Col) (idx : List Lvl) (hS : declT t = .frame cols idx)
    (hn : (labels cols).Nodup)
    (h : pushdown deps (.un pop prt (.un (.addPrefix pre) rt t)) = some t') :
    declT t' = declT (.un pop prt (.un (.addPrefix pre) rt t)) := by
  simp only [pushdown, hp, hS, frameLabels] at h
  have hshape := keep1_shape (fun rw hrw => Dx.Cols.affix_spec hrw) h
  subst hshape
  simp only [declT_un]
  rw [declT_wrap_many t _ cols idx hS, hS]
  simp only [declU, Bool.false_eq_true, if_false]
  apply push_relabel_core (fun c => pre ++ c) hp cols idx _ hn
  · intro c hc; exact (List.mem_filter.mp hc).1
  · intro x hx hreq; exact Dx.Cols.prefix_sources hx hreq
  · intro x x' _ _ _ he; exact Dx.Cols.append_left_inj' he

/-- FULL STATEMENT (false on the current tree for the empty suffix, `col[:-0]` is the empty string — C04): any suffix -/
theorem push_suffix_partial (deps : List Dep) (pop : UOp) (prt rt : Rt) (suf : String) (hsuf : suf.length ≠ 0) (t t' : Tree) (p : Parent)
    (hp : parentOf pop = some p) (cols : List Col) (idx : List Lvl) (hS : declT t = .frame cols idx)
    (hn : (labels cols).Nodup)
    (h : pushdown deps (.un pop prt (.un (.addSuffix suf) rt t)) = some t') :
    declT t' = declT (.un pop prt (.un (.addSuffix suf) rt t)) := by
  simp only [pushdown, hp, hS, frameLabels] at h
  have hshape := keep1_shape (fun rw hrw => Dx.Cols.affix_spec hrw) h
  subst hshape
  simp only [declT_un]
  rw [declT_wrap_many t _ cols idx hS, hS]
  simp only [declU, if_true]
  apply push_relabel_core (fun c => c ++ suf) hp cols idx _ hn
  · intro c hc; exact (List.mem_filter.mp hc).1
  · intro x hx hreq; exact Dx.Cols.suffix_sources hx hreq
  · intro x x' _ _ _ he; exact Dx.Cols.append_right_inj' he

end Dx.Meta
