/-
  Lemmas/FragRules.lean — soundness of the rules of the fragment (DxModel/Fragment.lean `fragUp`, `fragDown`),
  one lemma per rule function, each derived from the C04 theorems about the rule function it calls:
  a rule output is defined, with the same value, whenever the expression it replaces is.
  (Assign, Merge, Concat and the OR-factoring of Filter are in their own files.)
-/
import DxModel.Lemmas.FragOps
import DxModel.Props.C04
namespace Dx.Frag
open Dx Dx.Cols

variable {γ ι : Type}

/-! ### small equations -/

theorem den_args1 (I : Interp γ ι) {e x : Expr} (h : e.args = [x]) :
    den I e = (den I x).bind (fun v => semOp I e.op [v]) := by
  rw [den_expr, h]
  simp only [List.map_cons, List.map_nil]
  cases den I x <;> rfl

theorem den_args2 (I : Interp γ ι) {e x y : Expr} (h : e.args = [x, y]) :
    den I e = (den I x).bind (fun v => (den I y).bind (fun w => semOp I e.op [v, w])) := by
  rw [den_expr, h]
  simp only [List.map_cons, List.map_nil]
  cases den I x with
  | none => rfl
  | some v => cases den I y <;> rfl

theorem den_mk1 (I : Interp γ ι) (o : Op) (x : Expr) : den I (mk o [x]) = (den I x).bind (fun v => semOp I o [v]) := by
  rw [den_args1 I (mk_args o [x]), mk_op]

theorem den_mk2 (I : Interp γ ι) (o : Op) (x y : Expr) :
    den I (mk o [x, y]) = (den I x).bind (fun v => (den I y).bind (fun w => semOp I o [v, w])) := by
  rw [den_args2 I (mk_args o [x, y]), mk_op]

theorem den_proj (I : Interp γ ι) (s : Sel) (x : Expr) : den I (proj s x) = (den I x).bind (fun v => semOp I (.proj s) [v]) :=
  den_mk1 I _ x

theorem parentOf_cols (sel : Sel) : (parentOf sel).cols = sel.toList := by cases sel <;> rfl
theorem parentOf_operand (sel : Sel) : (parentOf sel).operand = sel := by cases sel <;> rfl
theorem parentOf_overFrame (sel : Sel) : (parentOf sel).overFrame := by cases sel <;> trivial
theorem parentOf_ndim1 (sel : Sel) : (parentOf sel).ndim1 = Sel.isOne sel := by cases sel <;> rfl

/-- `projOver p c = some sel`: `p` is `Projection(c, sel)` -/
theorem projOver_spec {p c : Expr} {sel : Sel} (h : projOver p c = some sel) : p.op = .proj sel ∧ p.args = [c] := by
  unfold projOver at h
  split at h
  · rename_i sel' x hop hargs
    split at h
    · rename_i hx
      cases h
      have : x = c := by simpa using hx
      subst this
      exact ⟨hop, hargs⟩
    · cases h
  · cases h

/-- a defined Projection parent: its frame is defined, a frame, has the requested labels -/
theorem projOver_den {I : Interp γ ι} {p c : Expr} {sel : Sel} (hp : projOver p c = some sel) {v : FVal γ}
    (hv : den I p = some v) :
    ∃ vc, den I c = some vc ∧ vc.ser = false ∧ sel.toList.Nodup ∧ (∀ x, x ∈ sel.toList → x ∈ vc.fr.cols) ∧
      v = ⟨vc.fr.select sel.toList, Sel.isOne sel⟩ := by
  obtain ⟨hop, hargs⟩ := projOver_spec hp
  rw [den_args1 I hargs, hop] at hv
  cases hc : den I c with
  | none => rw [hc] at hv; cases hv
  | some vc =>
    rw [hc] at hv
    obtain ⟨h1, h2, h3, h4⟩ := (semOp_proj_iff I sel vc v).mp hv
    exact ⟨vc, rfl, h1, h2, h3, h4⟩

theorem den_proj_some {I : Interp γ ι} {s : Sel} {x : Expr} {vx : FVal γ} (hx : den I x = some vx)
    (h1 : vx.ser = false) (h2 : s.toList.Nodup) (h3 : ∀ c, c ∈ s.toList → c ∈ vx.fr.cols) :
    den I (proj s x) = some ⟨vx.fr.select s.toList, Sel.isOne s⟩ := by
  rw [den_proj, hx]
  exact (semOp_proj_iff I s vx _).mpr ⟨h1, h2, h3, rfl⟩

theorem bind_eq_some' {α β : Type} {o : Option α} {f : α → Option β} {b : β} (h : o.bind f = some b) :
    ∃ a, o = some a ∧ f a = some b := by
  cases o with
  | none => cases h
  | some a => exact ⟨a, rfl, h⟩

theorem schema_of_den {I : Interp γ ι} {x : Expr} {vx : FVal γ} {sx : Schema} (hx : den I x = some vx)
    (hs : schemaOf x = some sx) : sx = vx.sch := by
  rw [den_schema hx] at hs
  exact (Option.some.inj hs).symm

/-! ### `plain_column_projection` over an elementwise operator (Abs, Neg, …; Filter with its predicate) -/

theorem evalRw_child (op : Frame γ → Frame γ) (P : List Name) (rw : Rw) (F : Frame γ) (cu : Sel)
    (hch : rw.childs = [some cu]) (hg : rw.gone = false) :
    evalRw op P rw F = if rw.keep then (op (F.select cu.toList)).select P else op (F.select cu.toList) := by
  simp only [evalRw, hch, hg, Bool.false_eq_true, if_false]

/-- what the C04 theorems about `plain` say for an elementwise frame function `mapFrame f` -/
theorem plain_map_sound (f : γ → γ) (F : Frame γ) (hF : F.cols.Nodup) (sel : Sel) (deps : List Dep) (rw : Rw) (cu : Sel)
    (h : plain F.cols (parentOf sel) deps [] = some rw) (hch : rw.childs = [some cu])
    (hsub : ∀ c, c ∈ sel.toList → c ∈ F.cols) :
    cu.toList.Nodup ∧ (∀ c, c ∈ cu.toList → c ∈ F.cols) ∧
    (rw.keep = true → Sel.isOne cu = false ∧ (∀ c, c ∈ sel.toList → c ∈ cu.toList) ∧
      (mapFrame f (F.select cu.toList)).select sel.toList = (mapFrame f F).select sel.toList) ∧
    (rw.keep = false → cu = sel ∧ mapFrame f (F.select sel.toList) = (mapFrame f F).select sel.toList) := by
  obtain ⟨s, hs, hg, had, hnk, hone⟩ := C04_plain_wf F.cols (parentOf sel) (parentOf_overFrame sel) deps [] rw h
  rw [hch] at hs
  have hcu : cu = s := by simpa using hs
  subst hcu
  rw [parentOf_cols] at had
  have hval : ∀ c, c ∈ sel.toList →
      (evalRw (mapK f).op sel.toList rw F).val c = (evalOrig (mapK f).op sel.toList F).val c := by
    intro c hc
    have := C04_plain_values (mapK f) F (parentOf sel) deps [] rw h (fun k hk => by cases hk) c
      (by rw [parentOf_cols]; exact hc)
    rw [parentOf_cols] at this
    exact this
  refine ⟨had.nodup hF, had.sub, ?_, ?_⟩
  · intro hk
    have hone' : Sel.isOne cu = false := by
      cases hcu : cu with
      | many _ => rfl
      | one c0 =>
        have := (hone c0 hcu).2
        rw [hk] at this; cases this
    refine ⟨hone', fun c hc => had.req c hc (hsub c hc), ?_⟩
    apply select_congr
    intro c hc
    have := hval c hc
    rw [evalRw_child _ _ _ _ cu hch hg, hk, if_pos rfl] at this
    unfold evalOrig at this
    rw [select_val_mem hc, select_val_mem hc] at this
    exact this
  · intro hk
    have hcs : cu = sel := by rw [hnk hk, parentOf_operand]
    refine ⟨hcs, ?_⟩
    subst hcs
    refine frame_ext (by rfl) (normal_mapFrame _ _) (normal_select _ _) ?_
    intro c hc
    have hc' : c ∈ cu.toList := hc
    have := hval c hc'
    rw [evalRw_child _ _ _ _ cu hch hg, hk] at this
    unfold evalOrig at this
    rw [select_val_mem hc'] at this
    simp only [Bool.false_eq_true, if_false] at this
    rw [select_val_mem hc']
    exact this

/-- Blockwise/Unaryop: `Projection(Abs(x), sel)` → `[Projection](Abs(x[cu]))` -/
theorem upElem_sound (I : Interp γ ι) {op : Nat} {x c p o : Expr} {d : Deps} (hc : c.op = .elem op) (ha : c.args = [x])
    (h : upElem op x c p d = some o) : ∀ v, den I p = some v → den I o = some v := by
  unfold upElem at h
  cases hpo : projOver p c with
  | none => rw [hpo] at h; cases h
  | some sel =>
    cases hsx : schemaOf x with
    | none => rw [hpo, hsx] at h; cases h
    | some sx =>
      rw [hpo, hsx] at h
      simp only at h
      split at h
      · cases h
      · cases hpl : plain sx.cols (parentOf sel) (depsOf d c) with
        | none => rw [hpl] at h; cases h
        | some rw =>
          rw [hpl] at h
          simp only at h
          split at h
          · rename_i cu hch
            cases h
            intro v hv
            obtain ⟨vc, hvc, _, hnd, hsub, rfl⟩ := projOver_den hpo hv
            rw [den_args1 I ha, hc] at hvc
            obtain ⟨vx, hvx, hvc⟩ := bind_eq_some' hvc
            rw [semOp_elem] at hvc
            cases hvc
            have hsx' := schema_of_den hvx hsx
            subst hsx'
            have hser : vx.ser = false := by
              rename_i hns
              have : vx.sch.ser = false := by simpa using hns
              exact this
            obtain ⟨h1, h2, hk, hnk⟩ := plain_map_sound (I.un op) vx.fr (den_nodup hvx) sel (depsOf d c) rw cu hpl hch hsub
            have hpx := den_proj_some hvx hser h1 h2
            have hel : den I (mk (.elem op) [proj cu x]) = some ⟨mapFrame (I.un op) (vx.fr.select cu.toList), Sel.isOne cu⟩ := by
              rw [den_mk1, hpx]; exact semOp_elem I op _
            by_cases hkeep : rw.keep = true
            · obtain ⟨ho, hreq, heq⟩ := hk hkeep
              simp only [reproj, hkeep, if_true]
              rw [den_proj_some hel ho hnd hreq]
              show some (⟨(mapFrame (I.un op) (vx.fr.select cu.toList)).select sel.toList, _⟩ : FVal γ) = _
              rw [heq]
            · have hkeep' : rw.keep = false := by simpa using hkeep
              obtain ⟨hcs, heq⟩ := hnk hkeep'
              subst hcs
              simp only [reproj, hkeep', Bool.false_eq_true, if_false]
              rw [hel]
              show some (⟨mapFrame (I.un op) (vx.fr.select cu.toList), _⟩ : FVal γ) = _
              rw [heq]
          · cases h

/-- Filter, Projection branch: `Projection(Filter(x, q), sel)` → `[Projection](Filter(x[cu], q))` -/
theorem upFilterProj_sound (I : Interp γ ι) {x q c p o : Expr} {d : Deps} (hc : c.op = .filter) (ha : c.args = [x, q])
    (h : upFilterProj x q c p d = some o) : ∀ v, den I p = some v → den I o = some v := by
  unfold upFilterProj at h
  cases hpo : projOver p c with
  | none => rw [hpo] at h; cases h
  | some sel =>
    cases hsx : schemaOf x with
    | none => rw [hpo, hsx] at h; cases h
    | some sx =>
      rw [hpo, hsx] at h
      simp only at h
      split at h
      · cases h
      · have hfr : filterRule false sx.cols (parentOf sel) (depsOf d c) = plain sx.cols (parentOf sel) (depsOf d c) [] := rfl
        rw [hfr] at h
        cases hpl : plain sx.cols (parentOf sel) (depsOf d c) [] with
        | none => rw [hpl] at h; cases h
        | some rw =>
          rw [hpl] at h
          simp only at h
          split at h
          · rename_i cu hch
            cases h
            intro v hv
            obtain ⟨vc, hvc, hcser, hnd, hsub, rfl⟩ := projOver_den hpo hv
            rw [den_args2 I ha, hc] at hvc
            obtain ⟨vx, hvx, hvc⟩ := bind_eq_some' hvc
            obtain ⟨vq, hvq, hvc⟩ := bind_eq_some' hvc
            obtain ⟨hqser, hvc⟩ := semOp_filter_some hvc
            subst hvc
            have hsx' := schema_of_den hvx hsx
            subst hsx'
            have hser : vx.ser = false := hcser
            obtain ⟨h1, h2, hk, hnk⟩ := plain_map_sound (I.mask (vq.col I)) vx.fr (den_nodup hvx) sel (depsOf d c) rw cu hpl hch hsub
            have hpx := den_proj_some hvx hser h1 h2
            have hel : den I (mk .filter [proj cu x, q]) =
                some ⟨mapFrame (I.mask (vq.col I)) (vx.fr.select cu.toList), Sel.isOne cu⟩ := by
              rw [den_mk2, hpx, hvq]; exact semOp_filter I _ vq hqser
            by_cases hkeep : rw.keep = true
            · obtain ⟨ho, hreq, heq⟩ := hk hkeep
              simp only [reproj, hkeep, if_true]
              rw [den_proj_some hel ho hnd hreq]
              show some (⟨(mapFrame (I.mask (vq.col I)) (vx.fr.select cu.toList)).select sel.toList, _⟩ : FVal γ) = _
              rw [heq]
            · have hkeep' : rw.keep = false := by simpa using hkeep
              obtain ⟨hcs, heq⟩ := hnk hkeep'
              subst hcs
              simp only [reproj, hkeep', Bool.false_eq_true, if_false]
              rw [hel]
              show some (⟨mapFrame (I.mask (vq.col I)) (vx.fr.select cu.toList), _⟩ : FVal γ) = _
              rw [heq]
          · cases h

/-! ### Binop -/

/-- Binop with a python scalar on the right: `Projection(x + k, sel)` → `Projection(x[columns] + k, sel)` -/
theorem upBinK_sound (I : Interp γ ι) {op k : Nat} {x c p o : Expr} {d : Deps} (hc : c.op = .bink op k) (ha : c.args = [x])
    (h : upBinK op k x c p d = some o) : ∀ v, den I p = some v → den I o = some v := by
  unfold upBinK at h
  cases hpo : projOver p c with
  | none => rw [hpo] at h; cases h
  | some sel =>
    cases hsx : schemaOf x with
    | none => rw [hpo, hsx] at h; cases h
    | some sx =>
      rw [hpo, hsx] at h
      simp only at h
      split at h
      · cases h
      · rename_i hns
        cases hb : binop sx.cols (some sx.cols) none (parentOf sel) (depsOf d c) with
        | none => rw [hb] at h; cases h
        | some rw =>
          rw [hb] at h
          have hrw := binop_spec hb
          subst hrw
          simp only at h
          cases h
          intro v hv
          obtain ⟨vc, hvc, _, hnd, hsub, rfl⟩ := projOver_den hpo hv
          rw [den_args1 I ha, hc] at hvc
          obtain ⟨vx, hvx, hvc⟩ := bind_eq_some' hvc
          rw [semOp_bink] at hvc
          cases hvc
          have hsx' := schema_of_den hvx hsx
          subst hsx'
          have hser : vx.ser = false := by
            have : vx.sch.ser = false := by simpa using hns
            exact this
          have had := adequate_union_contains vx.fr.cols (parentOf sel) (depsOf d c) []
          rw [parentOf_cols] at had
          -- the left operand: projected onto `columns`, or already exactly these columns
          cases hside : binopSide (vx.sch.cols.filter ((detProj (parentOf sel) (depsOf d c) []).toList.contains ·)) (some vx.sch.cols) with
          | none =>
            have hcols := binopSide_none_some hside
            simp only [selOpt]
            have hel : den I (mk (.bink op k) [x]) = some ⟨mapFrame (I.bink op k) vx.fr, vx.ser⟩ := by
              rw [den_mk1, hvx]; exact semOp_bink I op k vx
            rw [den_proj_some hel hser hnd hsub]
          | some s =>
            obtain ⟨hs, _⟩ := binopSide_some hside
            subst hs
            simp only [selOpt]
            have hpx := den_proj_some (s := .many (vx.sch.cols.filter ((detProj (parentOf sel) (depsOf d c) []).toList.contains ·)))
              hvx hser (had.nodup (den_nodup hvx)) had.sub
            have hel : den I (mk (.bink op k) [proj (.many (vx.sch.cols.filter ((detProj (parentOf sel) (depsOf d c) []).toList.contains ·))) x]) =
                some ⟨mapFrame (I.bink op k) (vx.fr.select (vx.sch.cols.filter ((detProj (parentOf sel) (depsOf d c) []).toList.contains ·))), false⟩ := by
              rw [den_mk1, hpx]; exact semOp_bink I op k _
            rw [den_proj_some hel rfl hnd (fun c hc => had.req c hc (hsub c hc))]
            congr 2
            apply select_congr
            intro c hc
            have := keyed_values (mapK (I.bink op k)) vx.fr [] sel.toList _ had (fun k hk => by cases hk) c hc
            unfold evalOrig at this
            rw [select_val_mem hc, select_val_mem hc] at this
            exact this

theorem binFrame_cols (g : γ → γ → γ) (A B : Frame γ) : (binFrame g A B).cols = A.cols := rfl

theorem semOp_bin_frames (I : Interp γ ι) (op : Nat) (A B : FVal γ) (hA : A.ser = false) (hB : B.ser = false)
    (hc : A.fr.cols = B.fr.cols) : semOp I (.bin op) [A, B] = some ⟨binFrame (I.bin op) A.fr B.fr, false⟩ := by
  have hs : schOp (.bin op) ([A, B].map FVal.sch) = some ⟨A.fr.cols, false⟩ := by
    have h1 : A.sch.ser = false := hA
    have h2 : B.sch.ser = false := hB
    have h3 : A.sch.cols = B.sch.cols := hc
    simp only [List.map_cons, List.map_nil, schOp, h1, h2, h3, Bool.false_and, Bool.false_eq_true, if_false,
      Bool.not_false, Bool.true_and, decide_true, if_true]
    rw [← h3]; rfl
  have hf : frameOp I (.bin op) [A, B] = binFrame (I.bin op) A.fr B.fr := by
    simp only [frameOp, hA, Bool.false_eq_true, if_false]
  rw [semOp_eq hs (by rw [hf]; rfl) (by rw [hf]; exact normal_binFrame _ _ _), hf]

theorem semOp_bin_some {I : Interp γ ι} {op : Nat} {A B v : FVal γ} (h : semOp I (.bin op) [A, B] = some v)
    (hv : v.ser = false) : A.ser = false ∧ B.ser = false ∧ A.fr.cols = B.fr.cols ∧
      v = ⟨binFrame (I.bin op) A.fr B.fr, false⟩ := by
  obtain ⟨s, hs, hvs⟩ := semOp_some h
  have hs' : (if (A.sch.ser && B.sch.ser) = true then some (⟨[if A.sch.name = B.sch.name then A.sch.name else ""], true⟩ : Schema) else
      if (!A.sch.ser && !B.sch.ser && decide (A.sch.cols = B.sch.cols)) = true then some ⟨A.sch.cols, false⟩ else none) = some s := hs
  split at hs'
  · cases hs'
    rw [hvs] at hv
    cases hv
  · obtain ⟨hcnd, _⟩ := ite_some hs'
    simp only [Bool.and_eq_true, Bool.not_eq_true', decide_eq_true_eq] at hcnd
    have hA : A.ser = false := hcnd.1.1
    have hB : B.ser = false := hcnd.1.2
    have hc : A.fr.cols = B.fr.cols := hcnd.2
    rw [semOp_bin_frames I op A B hA hB hc] at h
    exact ⟨hA, hB, hc, (Option.some.inj h).symm⟩

/-- Binop of two frames with the same labels: both operands are projected onto `columns` -/
theorem upBin_sound (I : Interp γ ι) {op : Nat} {a b c p o : Expr} {d : Deps} (hc : c.op = .bin op) (ha : c.args = [a, b])
    (h : upBin op a b c p d = some o) : ∀ v, den I p = some v → den I o = some v := by
  unfold upBin at h
  cases hpo : projOver p c with
  | none => rw [hpo] at h; cases h
  | some sel =>
    cases hsa : schemaOf a with
    | none => rw [hpo, hsa] at h; cases h
    | some sa =>
      cases hsb : schemaOf b with
      | none => rw [hpo, hsa, hsb] at h; cases h
      | some sb =>
        cases hsc : schemaOf c with
        | none => rw [hpo, hsa, hsb, hsc] at h; cases h
        | some sc =>
          rw [hpo, hsa, hsb, hsc] at h
          simp only at h
          split at h
          · cases h
          · cases hb : binop sc.cols (if sa.ser then none else some sa.cols) (if sb.ser then none else some sb.cols)
                (parentOf sel) (depsOf d c) with
            | none => rw [hb] at h; cases h
            | some rw =>
              rw [hb] at h
              have hrw := binop_spec hb
              subst hrw
              simp only at h
              cases h
              intro v hv
              obtain ⟨vc, hvc, hcser, hnd, hsub, rfl⟩ := projOver_den hpo hv
              have hsc' := schema_of_den hvc hsc
              rw [den_args2 I ha, hc] at hvc
              obtain ⟨va, hva, hvc⟩ := bind_eq_some' hvc
              obtain ⟨vb, hvb, hvc⟩ := bind_eq_some' hvc
              obtain ⟨hA, hB, hAB, hvc⟩ := semOp_bin_some hvc hcser
              subst hvc
              have hsa' := schema_of_den hva hsa
              have hsb' := schema_of_den hvb hsb
              subst hsa'; subst hsb'; subst hsc'
              have hA' : va.sch.ser = false := hA
              have hB' : vb.sch.ser = false := hB
              simp only [hA', hB', Bool.false_eq_true, if_false]
              have hsc1 : (⟨binFrame (I.bin op) va.fr vb.fr, false⟩ : FVal γ).sch.cols = va.fr.cols := rfl
              rw [hsc1]
              have had := adequate_union_contains va.fr.cols (parentOf sel) (depsOf d c) []
              rw [parentOf_cols] at had
              -- both operands denote frames over `columns` afterwards
              have side : ∀ (y : Expr) (vy : FVal γ), den I y = some vy → vy.ser = false → vy.fr.cols = va.fr.cols →
                  ∃ F', den I (selOpt (binopSide (va.fr.cols.filter ((detProj (parentOf sel) (depsOf d c) []).toList.contains ·))
                      (some vy.sch.cols)) y) = some ⟨F', false⟩ ∧
                    F'.cols = va.fr.cols.filter ((detProj (parentOf sel) (depsOf d c) []).toList.contains ·) ∧
                    ∀ c, c ∈ sel.toList → F'.val c = vy.fr.val c := by
                intro y vy hy hys hyc
                cases hside : binopSide (va.fr.cols.filter ((detProj (parentOf sel) (depsOf d c) []).toList.contains ·)) (some vy.sch.cols) with
                | none =>
                  have := binopSide_none_some hside
                  simp only [selOpt]
                  refine ⟨vy.fr, ?_, this, fun _ _ => rfl⟩
                  rw [hy]
                  congr 1
                  cases vy; simp only at hys; subst hys; rfl
                | some s =>
                  obtain ⟨hs, _⟩ := binopSide_some hside
                  subst hs
                  simp only [selOpt]
                  refine ⟨vy.fr.select _, ?_, rfl, ?_⟩
                  · exact den_proj_some hy hys (had.nodup (den_nodup hva)) (fun c hc => by rw [hyc]; exact had.sub c hc)
                  · intro x hx
                    exact select_val_mem (had.req x hx (hsub x hx))
              obtain ⟨Fa, hFa, hFac, hFav⟩ := side a va hva hA rfl
              obtain ⟨Fb, hFb, hFbc, hFbv⟩ := side b vb hvb hB hAB.symm
              have hel : den I (mk (.bin op) [selOpt (binopSide (va.fr.cols.filter ((detProj (parentOf sel) (depsOf d c) []).toList.contains ·)) (some va.sch.cols)) a,
                  selOpt (binopSide (va.fr.cols.filter ((detProj (parentOf sel) (depsOf d c) []).toList.contains ·)) (some vb.sch.cols)) b]) =
                  some ⟨binFrame (I.bin op) Fa Fb, false⟩ := by
                rw [den_mk2, hFa, hFb]
                exact semOp_bin_frames I op ⟨Fa, false⟩ ⟨Fb, false⟩ rfl rfl (by rw [hFac, hFbc])
              rw [den_proj_some hel rfl hnd (fun x hx => by
                show x ∈ Fa.cols
                rw [hFac]; exact had.req x hx (hsub x hx))]
              congr 2
              apply select_congr
              intro x hx
              have hcA : x ∈ va.fr.cols := hsub x hx
              have hcB : x ∈ vb.fr.cols := by rw [← hAB]; exact hcA
              have hcF : x ∈ va.fr.cols.filter ((detProj (parentOf sel) (depsOf d c) []).toList.contains ·) := had.req x hx hcA
              show bin2 _ (if Fa.cols.contains x then Fa.val x else none) (if Fb.cols.contains x then Fb.val x else none) =
                bin2 _ (if va.fr.cols.contains x then va.fr.val x else none) (if vb.fr.cols.contains x then vb.fr.val x else none)
              rw [hFac, hFbc, List.contains_iff_mem.mpr hcF, List.contains_iff_mem.mpr hcA, List.contains_iff_mem.mpr hcB,
                hFav x hx, hFbv x hx]

/-! ### FromPandas absorbs the projection -/

theorem semOp_src_iff (I : Interp γ ι) (l : SrcLit) (v : FVal γ) :
    semOp I (.src l) [] = some v ↔
      l.full.Nodup ∧ (l.cols.getD l.full).Nodup ∧ (∀ c, c ∈ l.cols.getD l.full → c ∈ l.full) ∧
        v = ⟨srcFrame I l (l.cols.getD l.full), false⟩ := by
  have hsch : schOp (.src l) (([] : List (FVal γ)).map FVal.sch) =
      if (decide l.full.Nodup && decide (l.cols.getD l.full).Nodup && subsetB (l.cols.getD l.full) l.full) = true
        then some ⟨l.cols.getD l.full, false⟩ else none := rfl
  constructor
  · intro h
    obtain ⟨s, hs, hv⟩ := semOp_some h
    rw [hsch] at hs
    obtain ⟨hc, he⟩ := ite_some hs
    simp only [Bool.and_eq_true, decide_eq_true_eq] at hc
    have hs' : schOp (.src l) (([] : List (FVal γ)).map FVal.sch) = some ⟨l.cols.getD l.full, false⟩ := by
      rw [hsch, if_pos (by simp only [Bool.and_eq_true, decide_eq_true_eq]; exact hc)]
    rw [semOp_eq hs' rfl (normal_srcFrame _ _ _)] at h
    exact ⟨hc.1.1, hc.1.2, subsetB_iff.mp hc.2, (Option.some.inj h).symm⟩
  · rintro ⟨h1, h2, h3, h4⟩
    have hs' : schOp (.src l) (([] : List (FVal γ)).map FVal.sch) = some ⟨l.cols.getD l.full, false⟩ := by
      rw [hsch, if_pos (by simp only [Bool.and_eq_true, decide_eq_true_eq]; exact ⟨⟨h1, h2⟩, subsetB_iff.mpr h3⟩)]
    rw [semOp_eq hs' rfl (normal_srcFrame _ _ _), h4]
    rfl

theorem den_args0 (I : Interp γ ι) {e : Expr} (h : e.args = []) : den I e = semOp I e.op [] := by
  rw [den_expr, h]; rfl

/-- BlockwiseIO: `Projection(FromPandas(columns=cs), sel)` → `[Projection](FromPandas(columns=proposed))` -/
theorem upSrc_sound (I : Interp γ ι) {l : SrcLit} {c p o : Expr} {d : Deps} (hc : c.op = .src l) (ha : c.args = [])
    (h : upSrc l c p d = some o) : ∀ v, den I p = some v → den I o = some v := by
  unfold upSrc at h
  cases hpo : projOver p c with
  | none => rw [hpo] at h; cases h
  | some sel =>
    cases hsc : schemaOf c with
    | none => rw [hpo, hsc] at h; cases h
    | some sc =>
      rw [hpo, hsc] at h
      simp only at h
      split at h
      · cases h
      · cases hio : ioAbsorb sc.cols (parentOf sel) (depsOf d c) with
        | none => rw [hio] at h; cases h
        | some rw =>
          rw [hio] at h
          obtain ⟨hch, hkeep, _⟩ := ioAbsorb_spec hio
          simp only at h
          rw [hch] at h
          simp only at h
          cases h
          intro v hv
          obtain ⟨vc, hvc, _, hnd, hsub, rfl⟩ := projOver_den hpo hv
          have hsc' := schema_of_den hvc hsc
          rw [den_args0 I ha, hc] at hvc
          obtain ⟨hfull, hcnd, hcsub, hvc⟩ := (semOp_src_iff I l vc).mp hvc
          subst hvc
          subst hsc'
          have hcols : (⟨srcFrame I l (l.cols.getD l.full), false⟩ : FVal γ).sch.cols = l.cols.getD l.full := rfl
          rw [hcols] at hio hch hkeep ⊢
          have had := adequate_union_contains (l.cols.getD l.full) (parentOf sel) (depsOf d c) []
          rw [parentOf_cols] at had
          have hsub' : ∀ x, x ∈ sel.toList → x ∈ l.cols.getD l.full := hsub
          -- the new source
          have hnew : den I (mk (.src { l with cols := some ((l.cols.getD l.full).filter ((detProj (parentOf sel) (depsOf d c) []).toList.contains ·)) }) []) =
              some ⟨srcFrame I l ((l.cols.getD l.full).filter ((detProj (parentOf sel) (depsOf d c) []).toList.contains ·)), false⟩ := by
            rw [den_args0 I (mk_args _ _), mk_op]
            exact (semOp_src_iff I _ _).mpr ⟨hfull, had.nodup hcnd, fun x hx => hcsub x (had.sub x hx), rfl⟩
          have hlab := C04_io_labels (srcS I l) (l.cols.getD l.full) (parentOf sel) (depsOf d c) rw hio
          have hval := C04_io_values (srcS I l) (l.cols.getD l.full) (parentOf sel) (depsOf d c) rw hio
          rw [parentOf_cols] at hlab hval
          by_cases hk : rw.keep = true
          · simp only [reproj, hk, if_true]
            rw [den_proj_some hnew rfl hnd (fun x hx => had.req x hx (hsub' x hx))]
            congr 2
            apply select_congr
            intro x hx
            have := hval x hx (hsub' x hx)
            simp only [evalSource, hch, hk, if_true, Sel.toList_many] at this
            rw [select_val_mem hx, select_val_mem hx] at this
            exact this
          · have hk' : rw.keep = false := by simpa using hk
            simp only [reproj, hk', Bool.false_eq_true, if_false]
            rw [hnew]
            have hsel : Sel.many ((l.cols.getD l.full).filter ((detProj (parentOf sel) (depsOf d c) []).toList.contains ·)) = sel := by
              rw [hkeep] at hk'
              have : decide (Sel.many ((l.cols.getD l.full).filter ((detProj (parentOf sel) (depsOf d c) []).toList.contains ·)) = (parentOf sel).operand) = true := by
                simpa using hk'
              rw [parentOf_operand] at this
              exact of_decide_eq_true this
            simp only [evalSource, hch, hk', Bool.false_eq_true, if_false, Sel.toList_many] at hlab hval
            generalize (l.cols.getD l.full).filter ((detProj (parentOf sel) (depsOf d c) []).toList.contains ·) = prop
              at hsel hlab hval
            subst hsel
            congr 2
            refine frame_ext (by rfl) (normal_srcFrame _ _ _) (normal_select _ _) ?_
            intro x hx
            have hx' : x ∈ (Sel.many prop).toList := hx
            have := hval x hx' (hsub' x hx')
            rw [select_val_mem hx'] at this
            rw [select_val_mem hx']
            exact this

/-! ### RenameFrame -/

theorem semOp_rename_iff (I : Interp γ ι) (m : List (Name × Name)) (F v : FVal γ) :
    semOp I (.rename m) [F] = some v ↔
      F.ser = false ∧ (m.map (·.1)).Nodup ∧ (F.fr.cols.map (renameFwd m)).Nodup ∧ v = ⟨renameFrame m F.fr, false⟩ := by
  have hsch : schOp (.rename m) ([F].map FVal.sch) =
      if (!F.ser && decide (m.map (·.1)).Nodup && decide (F.fr.cols.map (renameFwd m)).Nodup) = true
        then some ⟨F.fr.cols.map (renameFwd m), false⟩ else none := rfl
  constructor
  · intro h
    obtain ⟨s, hs, hv⟩ := semOp_some h
    rw [hsch] at hs
    obtain ⟨hc, he⟩ := ite_some hs
    have hs' : schOp (.rename m) ([F].map FVal.sch) = some ⟨F.fr.cols.map (renameFwd m), false⟩ := by
      rw [hsch, if_pos hc]
    rw [semOp_eq hs' rfl (normal_renameFrame _ _)] at h
    simp only [Bool.and_eq_true, Bool.not_eq_true', decide_eq_true_eq] at hc
    exact ⟨hc.1.1, hc.1.2, hc.2, (Option.some.inj h).symm⟩
  · rintro ⟨h1, h2, h3, h4⟩
    have hs' : schOp (.rename m) ([F].map FVal.sch) = some ⟨F.fr.cols.map (renameFwd m), false⟩ := by
      rw [hsch, if_pos (by simp only [Bool.and_eq_true, Bool.not_eq_true', decide_eq_true_eq]; exact ⟨⟨h1, h2⟩, h3⟩)]
    rw [semOp_eq hs' rfl (normal_renameFrame _ _), h4]
    rfl

/-- RenameFrame: `Projection(x.rename(m), sel)` → `Projection(x[child].rename(m), sel)` -/
theorem upRename_sound (I : Interp γ ι) {m : List (Name × Name)} {x c p o : Expr} {d : Deps} (hc : c.op = .rename m)
    (ha : c.args = [x]) (h : upRename m x c p d = some o) : ∀ v, den I p = some v → den I o = some v := by
  unfold upRename at h
  cases hpo : projOver p c with
  | none => rw [hpo] at h; cases h
  | some sel =>
    cases hsx : schemaOf x with
    | none => rw [hpo, hsx] at h; cases h
    | some sx =>
      rw [hpo, hsx] at h
      simp only at h
      cases hr : rename sx.cols m (parentOf sel) (depsOf d c) with
      | none => rw [hr] at h; cases h
      | some rw =>
        rw [hr] at h
        obtain ⟨hch, hkeep, hgone⟩ := rename_spec hr
        simp only at h
        rw [hch] at h
        simp only at h
        cases h
        intro v hv
        obtain ⟨vc, hvc, _, hnd, hsub, rfl⟩ := projOver_den hpo hv
        rw [den_args1 I ha, hc] at hvc
        obtain ⟨vx, hvx, hvc⟩ := bind_eq_some' hvc
        obtain ⟨hser, hkn, hon, hvc⟩ := (semOp_rename_iff I m vx vc).mp hvc
        subst hvc
        have hsx' := schema_of_den hvx hsx
        subst hsx'
        have hxc : vx.sch.cols = vx.fr.cols := rfl
        rw [hxc] at hr hch ⊢
        obtain ⟨child, hk1, hcsub, hcnd, hsrc⟩ := C04_rename_wf vx.fr.cols m hkn (parentOf sel) (depsOf d c) rw hr
        have hchild : child = vx.fr.cols.filter (((detProj (parentOf sel) (depsOf d c) []).toList.map (renameBack vx.fr.cols m)).contains ·) := by
          have := hk1.1
          rw [hch] at this
          simpa using this.symm
        subst hchild
        have hinj := inj_of_nodup_map (renameFwd m) vx.fr.cols hon
        have hpx := den_proj_some (s := .many (vx.fr.cols.filter (((detProj (parentOf sel) (depsOf d c) []).toList.map (renameBack vx.fr.cols m)).contains ·)))
          hvx hser (hcnd (den_nodup hvx)) hcsub
        have hren : den I (mk (.rename m) [proj (.many (vx.fr.cols.filter (((detProj (parentOf sel) (depsOf d c) []).toList.map (renameBack vx.fr.cols m)).contains ·))) x]) =
            some ⟨renameFrame m (vx.fr.select (vx.fr.cols.filter (((detProj (parentOf sel) (depsOf d c) []).toList.map (renameBack vx.fr.cols m)).contains ·))), false⟩ := by
          rw [den_mk1, hpx]
          exact (semOp_rename_iff I m _ _).mpr ⟨rfl, hkn,
            List.Nodup.sublist (List.Sublist.map _ List.filter_sublist) hon, rfl⟩
        -- every requested label has its (unique) source column in the pruned input
        have hsrc' : ∀ l, l ∈ sel.toList → ∃ c0, c0 ∈ vx.fr.cols ∧ renameFwd m c0 = l ∧
            c0 ∈ vx.fr.cols.filter (((detProj (parentOf sel) (depsOf d c) []).toList.map (renameBack vx.fr.cols m)).contains ·) := by
          intro l hl
          have := hsub l hl
          obtain ⟨c0, hc0, hc0l⟩ := List.mem_map.mp this
          refine ⟨c0, hc0, hc0l, hsrc c0 hc0 (fun c' hc' he => hinj c' c0 hc' hc0 he) ?_⟩
          rw [parentOf_cols, hc0l]; exact hl
        rw [den_proj_some hren rfl hnd (fun l hl => by
          obtain ⟨c0, _, hc0l, hc0c⟩ := hsrc' l hl
          exact List.mem_map.mpr ⟨c0, hc0c, hc0l⟩)]
        congr 2
        apply select_congr
        intro l hl
        obtain ⟨c0, hc0, hc0l, _⟩ := hsrc' l hl
        have := C04_rename_values (renameR m) m rfl hkn vx.fr (parentOf sel) (depsOf d c) rw hr c0 hc0
          (fun c' hc' he => hinj c' c0 hc' hc0 he) (by rw [parentOf_cols]; show renameFwd m c0 ∈ _; rw [hc0l]; exact hl)
        rw [evalRw_keep1 _ _ _ _ _ hk1, parentOf_cols] at this
        unfold evalOrig at this
        have hl' : (renameR (γ := γ) m).f c0 ∈ sel.toList := by show renameFwd m c0 ∈ _; rw [hc0l]; exact hl
        rw [select_val_mem hl', select_val_mem hl'] at this
        have e : (renameR (γ := γ) m).f c0 = l := hc0l
        rw [e] at this
        exact this

end Dx.Frag
