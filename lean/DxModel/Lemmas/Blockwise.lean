/-
  Lemmas/Blockwise.lean — evaluation of a Blockwise layer, and the list lemma behind `C02_blockwise`:
  a function of the partitioned operands that distributes over concatenation of co-partitioned
  pieces may be applied partition-wise.
-/
import DxModel.Layers.Blockwise
namespace Dx
open Blockwise

theorem bw_run_dep (I : Interp) (p : Params) (vals : Nat → Nat → V) (F d i : Nat) :
    run I (layer p) (inputs vals) F (.dep d i) = vals d i := by
  rw [run_undefined I (layer p) (inputs vals) (.dep d i) rfl]; rfl

theorem bw_filterMap_run (I : Interp) (p : Params) (vals : Nat → Nat → V) (F i : Nat) (args : List Arg) :
    (args.filterMap (argKey p i)).map (run I (layer p) (inputs vals) F) =
      args.filterMap (argVal p vals i) := by
  induction args with
  | nil => rfl
  | cons a t ih =>
    cases a with
    | expr d np nd => simp [argKey, argVal, bw_run_dep, ih]
    | lit s =>
      simp only [List.filterMap_cons, argKey, argVal]
      exact ih

/-- output partition `i` applies the operation to the `i`-th partition of every partitioned operand
    and to partition 0 of every broadcast operand -/
theorem bw_run_out (I : Interp) (p : Params) (vals : Nat → Nat → V) (F i : Nat) (hi : i < p.n) :
    run I (layer p) (inputs vals) (F+1) (.out i) = I opFn (p.args.filterMap (argVal p vals i)) := by
  have hg : layer p (.out i) = some (.apply opFn (p.args.filterMap (argKey p i))) := by simp [layer, hi]
  rw [run_defined _ _ _ F _ _ hg]
  simp only [evalTsk, bw_filterMap_run]

theorem bw_argVal_eq_argVec (p : Params) (vals : Nat → Nat → V) (rows : Nat → Nat → List Row) (i : Nat)
    (args : List Arg)
    (hv : ∀ d np nd, Arg.expr d np nd ∈ args → broadcastDep p np nd = false → vals d i = .frame (rows d i)) :
    args.filterMap (argVal p vals i) = args.filterMap (argVec p (fun d => vals d 0) (fun d => rows d i)) := by
  induction args with
  | nil => rfl
  | cons a t ih =>
    have iht := ih (fun d np nd h => hv d np nd (List.mem_cons_of_mem _ h))
    cases a with
    | lit s =>
      simp only [List.filterMap_cons, argVal, argVec]
      exact iht
    | expr d np nd =>
      cases hb : broadcastDep p np nd with
      | true => simp [argVal, argVec, hb, iht]
      | false =>
        have := hv d np nd (List.mem_cons_self ..) hb
        simp [argVal, argVec, hb, iht, this]

/-- all operands have partitions of equal length -/
def CoLen (xs : Nat → List Row) : Prop := ∀ d d', (xs d).length = (xs d').length

/-- `G` may be applied piecewise to co-partitioned operands -/
structure Additive (G : (Nat → List Row) → List Row) : Prop where
  nil : G (fun _ => []) = []
  append : ∀ xs ys, CoLen xs → CoLen ys → G (fun d => xs d ++ ys d) = G xs ++ G ys

theorem coLen_flatMap (rows : Nat → Nat → List Row) (h : ∀ i, CoLen (fun d => rows d i)) (n : Nat) :
    CoLen (fun d => (List.range n).flatMap (rows d)) := by
  induction n with
  | zero => intro d d'; rfl
  | succ n ih =>
    intro d d'
    simp only [List.range_succ, List.flatMap_append, List.flatMap_cons, List.flatMap_nil, List.append_nil,
      List.length_append]
    rw [ih d d', h n d d']

theorem additive_concat (G : (Nat → List Row) → List Row) (hG : Additive G) (rows : Nat → Nat → List Row)
    (h : ∀ i, CoLen (fun d => rows d i)) (n : Nat) :
    (List.range n).flatMap (fun i => G (fun d => rows d i)) = G (fun d => (List.range n).flatMap (rows d)) := by
  induction n with
  | zero => exact hG.nil.symm
  | succ n ih =>
    have e : (fun d => (List.range (n+1)).flatMap (rows d)) =
        (fun d => (List.range n).flatMap (rows d) ++ rows d n) := by
      funext d
      simp [List.range_succ, List.flatMap_append]
    rw [e, hG.append _ _ (coLen_flatMap rows h n) (h n), ← ih]
    simp [List.range_succ, List.flatMap_append]

theorem additive_map (g : Row → Row) : Additive (fun xs => (xs 0).map g) :=
  ⟨rfl, fun xs ys _ _ => by simp⟩

theorem additive_zipWith (g : Row → Row → Row) : Additive (fun xs => List.zipWith g (xs 0) (xs 1)) :=
  ⟨rfl, fun xs ys hx _ => by
    show List.zipWith g (xs 0 ++ ys 0) (xs 1 ++ ys 1) = _
    exact List.zipWith_append (hx 0 1)⟩

theorem additive_filter (f : Row → Bool) : Additive (fun xs => (xs 0).filter f) :=
  ⟨rfl, fun xs ys _ _ => by simp⟩

/-! ### well-formedness -/

def bwRank : Key → Nat
  | .dep _ _ => 0
  | .out _ => 1

theorem bw_closed (p : Params) (vals : Nat → Nat → V) : Closed (layer p) (inputs vals) := by
  intro k t h d hd
  cases k with
  | dep _ _ => cases h
  | out i =>
    simp only [layer] at h
    split at h
    · cases h
      simp only [Tsk.refs, List.mem_filterMap] at hd
      obtain ⟨a, _, ha⟩ := hd
      cases a with
      | lit s => cases ha
      | expr d' np nd => simp only [argKey, Option.some.injEq] at ha; subst ha; right; rfl
    · cases h

theorem bw_ranked (p : Params) : Ranked (layer p) bwRank := by
  intro k t h d hd hdef
  cases k with
  | dep _ _ => cases h
  | out i =>
    cases d with
    | dep _ _ => simp [bwRank]
    | out j =>
      simp only [layer] at h
      split at h
      · cases h
        simp only [Tsk.refs, List.mem_filterMap] at hd
        obtain ⟨a, _, ha⟩ := hd
        cases a with
        | lit s => cases ha
        | expr d' np nd => simp [argKey] at ha
      · cases h

end Dx
