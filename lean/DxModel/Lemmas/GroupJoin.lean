/-
  Lemmas/GroupJoin.lean — group aggregation and joins commute with a key-consistent split.
-/
import DxModel.Layers.GroupJoin
import DxModel.Lemmas.ShufflePerm
namespace Dx
open GJ

theorem filter_comm' {α} (p q : α → Bool) (l : List α) : (l.filter p).filter q = (l.filter q).filter p := by
  rw [List.filter_filter, List.filter_filter]
  apply List.filter_congr
  intro x _
  exact Bool.and_comm _ _

theorem keysOf_filter {κ} [DecidableEq κ] (p : κ → Bool) : ∀ l : List κ,
    keysOf (l.filter p) = (keysOf l).filter p := by
  intro l
  induction l with
  | nil => rfl
  | cons k t ih =>
    cases hp : p k with
    | true =>
      simp only [List.filter_cons, hp, if_true, keysOf, ih]
      rw [filter_comm']
    | false =>
      simp only [List.filter_cons, hp, keysOf, ih, Bool.false_eq_true, if_false]
      rw [List.filter_filter]
      apply List.filter_congr
      intro x _
      by_cases hx : x = k
      · subst hx; simp [hp]
      · simp [hx]

/-- group-apply of the rows whose key satisfies `p` = the groups whose key satisfies `p` -/
theorem groupApply_filter {κ β} [DecidableEq κ] (key : Row → κ) (f : κ → List Row → List β)
    (p : κ → Bool) (l : List Row) :
    groupApply key f (l.filter (fun r => p (key r))) =
      ((keysOf (l.map key)).filter p).flatMap (fun k => f k (l.filter (fun r => key r == k))) := by
  unfold groupApply
  have hm : (l.filter (fun r => p (key r))).map key = (l.map key).filter p := by
    rw [List.filter_map]; rfl
  rw [hm, keysOf_filter]
  apply flatMap_congr'
  intro k hk
  have hpk : p k = true := (List.mem_filter.mp hk).2
  rw [List.filter_filter]
  congr 1
  apply List.filter_congr
  intro r _
  by_cases h : key r = k
  · subst h; simp [hpk]
  · simp [h]

/-- splitting the rows by a function of the key, aggregating each piece group-wise and
    concatenating gives the groups of the whole frame, in some order -/
theorem groupApply_split {κ β} [DecidableEq κ] (key : Row → κ) (f : κ → List Row → List β)
    (tgt : κ → Nat) (n : Nat) (hn : ∀ k, tgt k < n) (l : List Row) :
    ((List.range n).flatMap (fun o => groupApply key f (l.filter (fun r => tgt (key r) == o)))).Perm
      (groupApply key f l) := by
  have h1 : (List.range n).flatMap (fun o => groupApply key f (l.filter (fun r => tgt (key r) == o))) =
      ((List.range n).flatMap (fun o => (keysOf (l.map key)).filter (fun k => tgt k == o))).flatMap
        (fun k => f k (l.filter (fun r => key r == k))) := by
    rw [List.flatMap_assoc]
    apply flatMap_congr'
    intro o _
    exact groupApply_filter key f (fun k => tgt k == o) l
  rw [h1]
  exact List.Perm.flatMap_right _ (split_perm _ tgt n (fun k _ => hn k))

/-- partition-wise inner join of two frames split by the same function of the key -/
theorem joinInner_split {κ} [DecidableEq κ] (keyL keyR : Row → κ) (tgt : κ → Nat) (n : Nat)
    (hn : ∀ k, tgt k < n) (L R : List Row) :
    ((List.range n).flatMap (fun o =>
        joinInner keyL keyR (L.filter (fun l => tgt (keyL l) == o)) (R.filter (fun r => tgt (keyR r) == o)))).Perm
      (joinInner keyL keyR L R) := by
  have h1 : (List.range n).flatMap (fun o =>
        joinInner keyL keyR (L.filter (fun l => tgt (keyL l) == o)) (R.filter (fun r => tgt (keyR r) == o))) =
      ((List.range n).flatMap (fun o => L.filter (fun l => tgt (keyL l) == o))).flatMap
        (fun l => (R.filter (fun r => keyR r == keyL l)).map (fun r => (l, r))) := by
    rw [List.flatMap_assoc]
    apply flatMap_congr'
    intro o _
    unfold joinInner
    apply flatMap_congr'
    intro l hl
    have hlo : tgt (keyL l) = o := by simpa using (List.mem_filter.mp hl).2
    rw [List.filter_filter]
    congr 1
    apply List.filter_congr
    intro r _
    by_cases h : keyR r = keyL l
    · simp [h, hlo]
    · simp [h]
  rw [h1]
  exact List.Perm.flatMap_right _ (split_perm _ (fun l => tgt (keyL l)) n (fun l _ => hn _))

theorem joinLeft_split {κ} [DecidableEq κ] (keyL keyR : Row → κ) (tgt : κ → Nat) (n : Nat)
    (hn : ∀ k, tgt k < n) (L R : List Row) :
    ((List.range n).flatMap (fun o =>
        joinLeft keyL keyR (L.filter (fun l => tgt (keyL l) == o)) (R.filter (fun r => tgt (keyR r) == o)))).Perm
      (joinLeft keyL keyR L R) := by
  have h1 : (List.range n).flatMap (fun o =>
        joinLeft keyL keyR (L.filter (fun l => tgt (keyL l) == o)) (R.filter (fun r => tgt (keyR r) == o))) =
      ((List.range n).flatMap (fun o => L.filter (fun l => tgt (keyL l) == o))).flatMap
        (fun l => padLeft l (R.filter (fun r => keyR r == keyL l))) := by
    rw [List.flatMap_assoc]
    apply flatMap_congr'
    intro o _
    unfold joinLeft
    apply flatMap_congr'
    intro l hl
    have hlo : tgt (keyL l) = o := by simpa using (List.mem_filter.mp hl).2
    have : (R.filter (fun r => tgt (keyR r) == o)).filter (fun r => keyR r == keyL l) =
        R.filter (fun r => keyR r == keyL l) := by
      rw [List.filter_filter]
      apply List.filter_congr
      intro r _
      by_cases h : keyR r = keyL l
      · simp [h, hlo]
      · simp [h]
    rw [this]
  rw [h1]
  exact List.Perm.flatMap_right _ (split_perm _ (fun l => tgt (keyL l)) n (fun l _ => hn _))

/-- broadcast join: the small side is replicated to every partition of the large side -/
theorem joinInner_broadcast {κ} [DecidableEq κ] (keyL keyR : Row → κ) (parts : List (List Row)) (R : List Row) :
    parts.flatMap (fun Li => joinInner keyL keyR Li R) = joinInner keyL keyR parts.flatten R := by
  unfold joinInner
  rw [List.flatten_eq_flatMap, List.flatMap_assoc]
  rfl

end Dx
