/-
  Lemmas/Overlap.lean — windowed operations through `CreateOverlappingPartitions` + `overlap_chunk`:
  per-partition result = the operation in the context of the whole frame (under the guard the code
  checks), concatenation lemma, refusal when a neighbour is shorter than the window, Closed / Ranked.
-/
import DxModel.Layers.Overlap
namespace Dx
open Overlap

theorem winAux_length (g : List Row → Row → List Row → Row) (b a : Nat) :
    ∀ (l rpre post : List Row), (winAux g b a rpre l post).length = l.length := by
  intro l
  induction l with
  | nil => intro _ _; rfl
  | cons r t ih => intro rpre post; simp [winAux, ih]

theorem winAux_append (g : List Row → Row → List Row → Row) (b a : Nat) :
    ∀ (l₁ l₂ rpre post : List Row),
      winAux g b a rpre (l₁ ++ l₂) post =
        winAux g b a rpre l₁ (l₂ ++ post) ++ winAux g b a (l₁.reverse ++ rpre) l₂ post := by
  intro l₁
  induction l₁ with
  | nil => intro l₂ rpre post; simp [winAux]
  | cons r t ih =>
    intro l₂ rpre post
    simp only [List.cons_append, winAux, ih, List.append_assoc, List.reverse_cons, List.nil_append]

theorem take_take_le {α} (l : List α) (i j : Nat) (h : i ≤ j) : (l.take j).take i = l.take i := by
  rw [List.take_take, Nat.min_eq_left h]

theorem take_append_congr {α} (t post post' : List α) (a : Nat) (h : post.take a = post'.take a) :
    (t ++ post).take a = (t ++ post').take a := by
  rw [List.take_append, List.take_append]
  congr 1
  rw [← take_take_le post _ a (by omega), ← take_take_le post' _ a (by omega), h]

/-- only the last `b` rows before and the first `a` rows after matter -/
theorem winAux_congr (g : List Row → Row → List Row → Row) (b a : Nat) :
    ∀ (l rpre rpre' post post' : List Row), rpre.take b = rpre'.take b → post.take a = post'.take a →
      winAux g b a rpre l post = winAux g b a rpre' l post' := by
  intro l
  induction l with
  | nil => intro _ _ _ _ _ _; rfl
  | cons r t ih =>
    intro rpre rpre' post post' h1 h2
    simp only [winAux]
    rw [h1, take_append_congr t post post' a h2]
    congr 1
    apply ih _ _ _ _ _ h2
    cases b with
    | zero => simp
    | succ b =>
      simp only [List.take_succ_cons]
      congr 1
      rw [← take_take_le rpre b (b+1) (by omega), ← take_take_le rpre' b (b+1) (by omega), h1]

/-! ### `overlap_chunk ∘ _combined_parts` on one partition -/

theorem mid_drop_take {α} (A B C : List α) :
    ((A ++ B ++ C).take ((A ++ B ++ C).length - C.length)).drop A.length = B := by
  have : (A ++ B ++ C).length - C.length = (A ++ B).length := by simp only [List.length_append]; omega
  rw [this, List.take_left' rfl]
  exact List.drop_left' rfl

theorem overlapChunk_win (g : List Row → Row → List Row → Row) (b a : Nat) (pr cur nx : List Row)
    (hpr : pr = [] ∨ pr.length = b) (hnx : nx = [] ∨ nx.length = a) :
    overlapChunk (win g b a) b a pr cur nx = winAux g b a pr.reverse cur nx := by
  have hb : (if pr.length = 0 then 0 else b) = pr.length := by
    rcases hpr with rfl | h
    · rfl
    · by_cases h0 : pr.length = 0
      · simp [h0]
      · simp only [h0, if_false]; exact h.symm
  have hout : win g b a (pr ++ cur ++ nx) =
      winAux g b a [] pr (cur ++ nx) ++ winAux g b a pr.reverse cur nx ++
        winAux g b a ((pr ++ cur).reverse) nx [] := by
    unfold win
    rw [winAux_append, winAux_append]
    simp only [List.append_nil]
  have l1 : (winAux g b a [] pr (cur ++ nx)).length = pr.length := winAux_length ..
  have l3 : (winAux g b a ((pr ++ cur).reverse) nx []).length = nx.length := winAux_length ..
  unfold overlapChunk
  simp only [hb, hout]
  by_cases h0 : nx.length = 0
  · have : nx = [] := List.length_eq_zero_iff.mp h0
    subst this
    simp only [List.length_nil, if_true, winAux, List.append_nil] at l1 ⊢
    exact List.drop_left' l1
  · have ha : a = nx.length := by
      rcases hnx with rfl | h
      · exact absurd rfl h0
      · exact h.symm
    simp only [h0, if_false]
    generalize winAux g b a pr.reverse cur nx = B
    generalize winAux g b a [] pr (cur ++ nx) = A at l1
    generalize winAux g b a ((pr ++ cur).reverse) nx [] = C at l3
    rw [show a = C.length by omega, ← l1]
    exact mid_drop_take _ _ _

theorem tailN_length (n : Nat) (l : List Row) (h : n ≤ l.length) : (tailN n l).length = n := by
  simp [tailN, Nat.min_eq_left h]

theorem tailN_length_lt (n : Nat) (l : List Row) (h : l.length < n) : (tailN n l).length ≠ n := by
  simp [tailN]; omega

/-! ### evaluation of the layer -/

theorem ov_run_dep (I : Interp) (p : Params) (parts : Nat → List Row) (F i : Nat) :
    run I (layer p) (inputs parts) F (.dep i) = .frame (parts i) := by
  rw [run_undefined I (layer p) (inputs parts) (.dep i) rfl]; rfl

theorem ov_run_prep (p : Params) (func : List Row → List Row) (parts : Nat → List Row) (F i : Nat)
    (hb : p.before ≠ 0) (hi : i + 1 < p.n) :
    run (interp p func) (layer p) (inputs parts) (F+1) (.prep i) = .frame (tailN p.before (parts i)) := by
  have hg : layer p (.prep i) = some (.apply tailFn [.dep i]) := by simp [layer, hb, hi]
  rw [run_defined _ _ _ F _ _ hg]
  simp only [evalTsk, List.map_cons, List.map_nil, ov_run_dep, tailFn, interp]

theorem ov_run_app (p : Params) (func : List Row → List Row) (parts : Nat → List Row) (F i : Nat)
    (ha : p.after ≠ 0) (h1 : 1 ≤ i) (hi : i < p.n) :
    run (interp p func) (layer p) (inputs parts) (F+1) (.app i) = .frame ((parts i).take p.after) := by
  have hg : layer p (.app i) = some (.apply headFn [.dep i]) := by simp [layer, ha, hi, h1]
  rw [run_defined _ _ _ F _ _ hg]
  simp only [evalTsk, List.map_cons, List.map_nil, ov_run_dep, headFn, interp]

/-- the value of `prevs[i]` / `nexts[i]` -/
def prevRows (p : Params) (parts : Nat → List Row) (i : Nat) : Option (List Row) :=
  if p.before ≠ 0 then (match i with | 0 => none | i+1 => some (tailN p.before (parts i))) else none

def nextRows (p : Params) (parts : Nat → List Row) (i : Nat) : Option (List Row) :=
  if p.after ≠ 0 then (if i + 1 < p.n then some ((parts (i+1)).take p.after) else none) else none

theorem lenPrevs_eq (p : Params) (hn : 1 ≤ p.n) : lenPrevs p = p.n := by
  unfold lenPrevs; split <;> omega

theorem lenNexts_eq (p : Params) (hn : 1 ≤ p.n) : lenNexts p = p.n := by
  unfold lenNexts; split <;> omega

/-- the `_combined_parts` task of partition `i` -/
theorem ov_run_out (p : Params) (func : List Row → List Row) (parts : Nat → List Row) (F i : Nat)
    (hi : i < p.n) :
    run (interp p func) (layer p) (inputs parts) (F+2) (.out i) =
      combV (combinedParts p.before p.after (prevRows p parts i) (parts i) (nextRows p parts i)) := by
  have hn : 1 ≤ p.n := by omega
  have hg : layer p (.out i) = some (.apply (combFn (prevKey p i).isSome (nextKey p i).isSome)
        (optKey (prevKey p i) ++ [.dep i] ++ optKey (nextKey p i))) := by
    simp [layer, lenPrevs_eq p hn, lenNexts_eq p hn, hi]
  rw [run_defined _ _ _ (F+1) _ _ hg]
  simp only [evalTsk, List.map_append, List.map_cons, List.map_nil, ov_run_dep]
  by_cases hb : p.before ≠ 0
  · by_cases ha : p.after ≠ 0
    · cases i with
      | zero =>
        by_cases hl : 0 + 1 < p.n
        · simp [prevKey, nextKey, prevRows, nextRows, hb, ha, hl, optKey, combFn, interp,
            ov_run_app p func parts F 1 ha (by omega) hl]
        · simp [prevKey, nextKey, prevRows, nextRows, hb, ha, hl, optKey, combFn, interp]
      | succ i =>
        by_cases hl : i + 1 + 1 < p.n
        · simp [prevKey, nextKey, prevRows, nextRows, hb, ha, hl, optKey, combFn, interp,
            ov_run_app p func parts F (i+2) ha (by omega) hl, ov_run_prep p func parts F i hb hi]
        · simp [prevKey, nextKey, prevRows, nextRows, hb, ha, hl, optKey, combFn, interp,
            ov_run_prep p func parts F i hb hi]
    · cases i with
      | zero => simp [prevKey, nextKey, prevRows, nextRows, hb, ha, optKey, combFn, interp]
      | succ i =>
        simp [prevKey, nextKey, prevRows, nextRows, hb, ha, optKey, combFn, interp,
          ov_run_prep p func parts F i hb hi]
  · by_cases ha : p.after ≠ 0
    · by_cases hl : i + 1 < p.n
      · simp [prevKey, nextKey, prevRows, nextRows, hb, ha, hl, optKey, combFn, interp,
          ov_run_app p func parts F (i+1) ha (by omega) hl]
      · simp [prevKey, nextKey, prevRows, nextRows, hb, ha, hl, optKey, combFn, interp]
    · simp [prevKey, nextKey, prevRows, nextRows, hb, ha, optKey, combFn, interp]

theorem beforeRows_succ (parts : Nat → List Row) (i : Nat) :
    beforeRows parts (i+1) = beforeRows parts i ++ parts i := by
  simp [beforeRows, List.range_succ, List.flatMap_append]

theorem afterRows_cons (parts : Nat → List Row) (n i : Nat) (h : i + 1 < n) :
    afterRows parts n i = parts (i+1) ++ afterRows parts n (i+1) := by
  unfold afterRows
  rw [List.drop_eq_getElem_cons (by simpa using h)]
  simp

theorem afterRows_last (parts : Nat → List Row) (n i : Nat) (h : ¬ i + 1 < n) : afterRows parts n i = [] := by
  unfold afterRows
  rw [List.drop_eq_nil_of_le (by simp; omega)]
  rfl

theorem afterRows_succ (parts : Nat → List Row) (n i : Nat) (h : i < n) :
    afterRows parts (n+1) i = afterRows parts n i ++ parts n := by
  unfold afterRows
  rw [List.range_succ, List.drop_append_of_le_length (by simp; omega)]
  simp [List.flatMap_append]

/-- under the guard `_combined_parts` succeeds and the pieces are the window context -/
theorem combined_ok (p : Params) (parts : Nat → List Row) (i : Nat) (hg : guardOK p parts) (hi : i < p.n) :
    ∃ pr nx, combinedParts p.before p.after (prevRows p parts i) (parts i) (nextRows p parts i) =
        some (pr, parts i, nx) ∧
      (pr = [] ∨ pr.length = p.before) ∧ (nx = [] ∨ nx.length = p.after) ∧
      pr.reverse.take p.before = (beforeRows parts i).reverse.take p.before ∧
      nx.take p.after = (afterRows parts p.n i).take p.after := by
  obtain ⟨g1, g2⟩ := hg
  -- previous side
  have hprev : (prevRows p parts i = none ∧ [].reverse.take p.before = (beforeRows parts i).reverse.take p.before) ∨
      ∃ pr, prevRows p parts i = some pr ∧ pr.length = p.before ∧
        pr.reverse.take p.before = (beforeRows parts i).reverse.take p.before := by
    unfold prevRows
    by_cases hb : p.before ≠ 0
    · cases i with
      | zero => left; simp [hb, beforeRows]
      | succ j =>
        right
        have hl := g1 hb j hi
        refine ⟨_, by simp [hb], tailN_length _ _ hl, ?_⟩
        rw [beforeRows_succ, List.reverse_append, List.take_append_of_le_length (by simpa using hl)]
        simp [tailN, List.take_take]
    · left
      have : p.before = 0 := by omega
      simp [this]
  have hnext : (nextRows p parts i = none ∧ [].take p.after = (afterRows parts p.n i).take p.after) ∨
      ∃ nx, nextRows p parts i = some nx ∧ nx.length = p.after ∧
        nx.take p.after = (afterRows parts p.n i).take p.after := by
    unfold nextRows
    by_cases ha : p.after ≠ 0
    · by_cases hl : i + 1 < p.n
      · right
        have hlen := g2 ha (i+1) (by omega) hl
        refine ⟨(parts (i+1)).take p.after, by simp [ha, hl], by simp [Nat.min_eq_left hlen], ?_⟩
        rw [afterRows_cons parts p.n i hl, List.take_append_of_le_length hlen, List.take_take, Nat.min_self]
      · left; simp [ha, hl, afterRows_last parts p.n i hl]
    · left
      have : p.after = 0 := by omega
      simp [this]
  rcases hprev with ⟨e1, c1⟩ | ⟨pr, e1, l1, c1⟩ <;> rcases hnext with ⟨e2, c2⟩ | ⟨nx, e2, l2, c2⟩
  · exact ⟨[], [], by simp [e1, e2, combinedParts], Or.inl rfl, Or.inl rfl, c1, c2⟩
  · exact ⟨[], nx, by simp [e1, e2, combinedParts, l2], Or.inl rfl, Or.inr l2, c1, c2⟩
  · exact ⟨pr, [], by simp [e1, e2, combinedParts, l1], Or.inr l1, Or.inl rfl, c1, c2⟩
  · exact ⟨pr, nx, by simp [e1, e2, combinedParts, l1, l2], Or.inr l1, Or.inr l2, c1, c2⟩

/-- under the guard, output partition `i` of the map-overlap is the windowed operation on partition
    `i` in the context of the *whole* frame -/
theorem ov_run_res (p : Params) (g : List Row → Row → List Row → Row) (parts : Nat → List Row)
    (hg : guardOK p parts) (F i : Nat) (hi : i < p.n) :
    run (interp p (win g p.before p.after)) (layer p) (inputs parts) (F+3) (.res i) =
      .frame (winAux g p.before p.after (beforeRows parts i).reverse (parts i) (afterRows parts p.n i)) := by
  have hl : layer p (.res i) = some (.apply chunkFn [.out i]) := by simp [layer, hi]
  rw [run_defined _ _ _ (F+2) _ _ hl]
  simp only [evalTsk, List.map_cons, List.map_nil, ov_run_out p _ parts F i hi]
  obtain ⟨pr, nx, e, hpr, hnx, c1, c2⟩ := combined_ok p parts i hg hi
  rw [e]
  simp only [combV, chunkFn, interp]
  rw [overlapChunk_win g p.before p.after pr (parts i) nx hpr hnx]
  congr 1
  exact winAux_congr g p.before p.after (parts i) _ _ _ _ c1 c2

theorem ov_flatMap_congr {α β} {l : List α} {f g : α → List β} (h : ∀ a ∈ l, f a = g a) :
    l.flatMap f = l.flatMap g := by
  induction l with
  | nil => rfl
  | cons a t ih =>
    simp only [List.flatMap_cons]
    rw [h a (by simp), ih (fun b hb => h b (by simp [hb]))]

/-- the per-partition pieces concatenate to the windowed operation on the concatenation -/
theorem win_concat (g : List Row → Row → List Row → Row) (b a : Nat) (parts : Nat → List Row) :
    ∀ (n : Nat) (post : List Row),
      (List.range n).flatMap (fun i =>
          winAux g b a (beforeRows parts i).reverse (parts i) (afterRows parts n i ++ post)) =
        winAux g b a [] (beforeRows parts n) post := by
  intro n
  induction n with
  | zero => intro post; rfl
  | succ n ih =>
    intro post
    rw [List.range_succ, List.flatMap_append, beforeRows_succ, winAux_append]
    simp only [List.flatMap_cons, List.flatMap_nil, List.append_nil]
    congr 1
    · rw [← ih (parts n ++ post)]
      apply ov_flatMap_congr
      intro i hi
      rw [afterRows_succ parts n i (List.mem_range.mp hi), List.append_assoc]
    · rw [afterRows_last parts (n+1) n (by omega)]
      rfl

/-! ### refusal -/

theorem ov_refuse_before (p : Params) (func : List Row → List Row) (parts : Nat → List Row) (F j : Nat)
    (hb : p.before ≠ 0) (hj : j + 1 < p.n) (hlen : (parts j).length < p.before) :
    combinedParts p.before p.after (prevRows p parts (j+1)) (parts (j+1)) (nextRows p parts (j+1)) = none ∧
    run (interp p func) (layer p) (inputs parts) (F+3) (.res (j+1)) = .err := by
  have hc : combinedParts p.before p.after (prevRows p parts (j+1)) (parts (j+1)) (nextRows p parts (j+1)) = none := by
    simp [prevRows, hb, combinedParts, tailN_length_lt _ _ hlen]
  refine ⟨hc, ?_⟩
  have hl : layer p (.res (j+1)) = some (.apply chunkFn [.out (j+1)]) := by simp [layer, hj]
  rw [run_defined _ _ _ (F+2) _ _ hl]
  simp only [evalTsk, List.map_cons, List.map_nil, ov_run_out p _ parts F (j+1) hj, hc]
  rfl

theorem ov_refuse_after (p : Params) (func : List Row → List Row) (parts : Nat → List Row) (F j : Nat)
    (ha : p.after ≠ 0) (hj : j + 1 < p.n) (hlen : (parts (j+1)).length < p.after) :
    combinedParts p.before p.after (prevRows p parts j) (parts j) (nextRows p parts j) = none ∧
    run (interp p func) (layer p) (inputs parts) (F+3) (.res j) = .err := by
  have hne : ((parts (j+1)).take p.after).length ≠ p.after := by simp; omega
  have hc : combinedParts p.before p.after (prevRows p parts j) (parts j) (nextRows p parts j) = none := by
    unfold combinedParts
    simp only [nextRows, ha, hj, ne_eq, not_false_eq_true, if_true, hne]
    cases prevRows p parts j with
    | none => rfl
    | some pr => simp only; split <;> rfl
  refine ⟨hc, ?_⟩
  have hl : layer p (.res j) = some (.apply chunkFn [.out j]) := by simp [layer]; omega
  rw [run_defined _ _ _ (F+2) _ _ hl]
  simp only [evalTsk, List.map_cons, List.map_nil, ov_run_out p _ parts F j (by omega), hc]
  rfl

/-! ### well-formedness -/

def ovRank : Key → Nat
  | .dep _ => 0
  | .prep _ => 1
  | .app _ => 1
  | .out _ => 2
  | .res _ => 3

theorem mem_optKey (o : Option Key) (d : Key) : d ∈ optKey o ↔ o = some d := by
  cases o <;> simp [optKey, eq_comm]

theorem ov_ranked (p : Params) : Ranked (layer p) ovRank := by
  intro k t h d hd _
  cases k with
  | dep i => cases h
  | prep i =>
    simp only [layer] at h
    split at h
    · cases h; simp only [Tsk.refs, List.mem_singleton] at hd; subst hd; simp [ovRank]
    · cases h
  | app i =>
    simp only [layer] at h
    split at h
    · cases h; simp only [Tsk.refs, List.mem_singleton] at hd; subst hd; simp [ovRank]
    · cases h
  | res i =>
    simp only [layer] at h
    split at h
    · cases h; simp only [Tsk.refs, List.mem_singleton] at hd; subst hd; simp [ovRank]
    · cases h
  | out i =>
    simp only [layer] at h
    split at h
    · cases h
      simp only [Tsk.refs, List.mem_append, List.mem_singleton, mem_optKey] at hd
      rcases hd with (hd | rfl) | hd
      · unfold prevKey at hd
        split at hd
        · cases i with
          | zero => cases hd
          | succ i => cases hd; simp [ovRank]
        · cases hd
      · simp [ovRank]
      · unfold nextKey at hd
        split at hd
        · split at hd
          · cases hd; simp [ovRank]
          · cases hd
        · cases hd
    · cases h

theorem ov_closed (p : Params) (parts : Nat → List Row) : Closed (layer p) (inputs parts) := by
  intro k t h d hd
  cases k with
  | dep i => cases h
  | prep i =>
    simp only [layer] at h
    split at h
    · cases h; simp only [Tsk.refs, List.mem_singleton] at hd; subst hd; right; rfl
    · cases h
  | app i =>
    simp only [layer] at h
    split at h
    · cases h; simp only [Tsk.refs, List.mem_singleton] at hd; subst hd; right; rfl
    · cases h
  | res i =>
    simp only [layer] at h
    split at h
    · rename_i hi
      cases h; simp only [Tsk.refs, List.mem_singleton] at hd; subst hd
      left
      have hn : 1 ≤ p.n := by omega
      simp [layer, lenPrevs_eq p hn, lenNexts_eq p hn, hi]
    · cases h
  | out i =>
    simp only [layer] at h
    split at h
    · rename_i hi
      cases h
      simp only [Tsk.refs, List.mem_append, List.mem_singleton, mem_optKey] at hd
      rcases hd with (hd | rfl) | hd
      · unfold prevKey at hd
        split at hd
        · rename_i hb
          cases i with
          | zero => cases hd
          | succ i =>
            cases hd
            left
            have : i + 1 < p.n := by
              have := hi.1
              unfold lenPrevs at this
              rw [if_pos hb] at this
              omega
            simp [layer, hb, this]
        · cases hd
      · right; rfl
      · unfold nextKey at hd
        split at hd
        · rename_i ha
          split at hd
          · rename_i hl
            cases hd
            left
            simp [layer, ha, hl]
          · cases hd
        · cases hd
    · cases h

end Dx
