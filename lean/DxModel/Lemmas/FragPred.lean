/-
  Lemmas/FragPred.lean — the OR-factoring rule of Filter in the fragment: `parent.substitute(self, Filter(frame,
  rewrite_filters(predicate)))` denotes what the parent denoted.  From `C03_or_factoring` (the rewritten predicate has
  the same truth value for every valuation of its components) and the laws `MaskLaws` of the interpretation.
-/
import DxModel.Lemmas.FragRules
import DxModel.Props.C03
namespace Dx.Frag
open Dx Dx.Cols Dx.Pred

variable {γ ι : Type}

/-! ### substitution of an equivalent sub-expression -/

mutual
theorem subst_ref {V : Type} (S : Sem V) (old new : Expr) (h : Ref S new old) : ∀ e : Expr, Ref S (subst old new e) e
  | .node c l as => by
    rw [subst]
    by_cases he : (Expr.node c l as == old) = true
    · rw [if_pos he]
      have : Expr.node c l as = old := by simpa using he
      rw [this]; exact h
    · rw [if_neg he]
      exact Ref.rebuild S c l (substL_ref S old new h as)
theorem substL_ref {V : Type} (S : Sem V) (old new : Expr) (h : Ref S new old) :
    ∀ as : List Expr, Forall2 (Ref S) (substL old new as) as
  | [] => .nil
  | a :: t => .cons (subst_ref S old new h a) (substL_ref S old new h t)
end

/-! ### predicate trees -/

/-- what the interpretation must satisfy for OR-factoring: `&` and `|` act row by row on the truth values, and a mask
    is determined by its truth values -/
structure MaskLaws (I : Interp γ ι) : Prop where
  bit_and : ∀ a b i, I.bit (I.bin 0 a b) i = (I.bit a i && I.bit b i)
  bit_or : ∀ a b i, I.bit (I.bin 1 a b) i = (I.bit a i || I.bit b i)
  mask_ext : ∀ m m', (∀ i, I.bit m i = I.bit m' i) → I.mask m = I.mask m'

/-- every component of the tree satisfies `P`, and there is no negation node -/
def Good {α : Type} (P : α → Prop) : T α → Prop
  | .atom a => P a
  | .and a b => Good P a ∧ Good P b
  | .or a b => Good P a ∧ Good P b
  | .not _ => False

theorem good_getComponents {α : Type} (P : α → Prop) (k : Kind) : ∀ t : T α, Good P t → ∀ x, x ∈ getComponents k t → Good P x
  | .atom a, h, x, hx => by
    simp only [getComponents, List.mem_singleton] at hx
    rw [hx]; exact h
  | .not a, h, x, hx => by cases h
  | .or a b, h, x, hx => by
    simp only [getComponents] at hx
    split at hx
    · rcases List.mem_append.mp hx with h1 | h1
      · exact good_getComponents P k a h.1 x h1
      · exact good_getComponents P k b h.2 x h1
    · simp only [List.mem_singleton] at hx
      rw [hx]; exact h
  | .and a b, h, x, hx => by
    simp only [getComponents] at hx
    split at hx
    · rcases List.mem_append.mp hx with h1 | h1
      · exact good_getComponents P k a h.1 x h1
      · exact good_getComponents P k b h.2 x h1
    · simp only [List.mem_singleton] at hx
      rw [hx]; exact h

theorem good_mkAnd {α : Type} (P : α → Prop) : ∀ (l : List (T α)) (acc : T α), Good P acc → (∀ x, x ∈ l → Good P x) →
    Good P (mkAnd acc l)
  | [], acc, h, _ => h
  | c :: t, acc, h, hl => good_mkAnd P t (.and acc c) ⟨h, hl c (by simp)⟩ (fun x hx => hl x (by simp [hx]))

theorem good_mkOr {α : Type} (P : α → Prop) : ∀ (l : List (T α)) (acc : T α), Good P acc → (∀ x, x ∈ l → Good P x) →
    Good P (mkOr acc l)
  | [], acc, h, _ => h
  | c :: t, acc, h, hl => good_mkOr P t (.or acc c) ⟨h, hl c (by simp)⟩ (fun x hx => hl x (by simp [hx]))

theorem good_keepComponents {α : Type} [DecidableEq α] (P : α → Prop) (repl : List (T α)) :
    ∀ (comps : List (List (T α))) (rs : List (T α)), (∀ comp, comp ∈ comps → ∀ x, x ∈ comp → Good P x) →
      keepComponents repl comps = some rs → ∀ r, r ∈ rs → Good P r
  | [], rs, _, h, r, hr => by
    simp only [keepComponents, Option.some.injEq] at h
    subst h; cases hr
  | comp :: rest, rs, hc, h, r, hr => by
    simp only [keepComponents] at h
    split at h
    · cases h
    · rename_i k ks hk
      cases hrest : keepComponents repl rest with
      | none => rw [hrest] at h; cases h
      | some rs' =>
        rw [hrest] at h
        simp only [Option.some.injEq] at h
        subst h
        have hsub : ∀ x, x ∈ k :: ks → Good P x := by
          intro x hx
          rw [← hk] at hx
          exact hc comp (by simp) x (List.mem_filter.mp hx).1
        rcases List.mem_cons.mp hr with rfl | hr'
        · exact good_mkAnd P ks k (hsub k (by simp)) (fun x hx => hsub x (by simp [hx]))
        · exact good_keepComponents P repl rest rs' (fun comp' hc' => hc comp' (by simp [hc'])) hrest r hr'

theorem good_replaceCommonOr {α : Type} [DecidableEq α] (P : α → Prop) (first : T α) (rest : List (T α)) (r : T α)
    (hf : Good P first) (hr : ∀ x, x ∈ rest → Good P x) (h : replaceCommonOr first rest = some r) : Good P r := by
  unfold replaceCommonOr at h
  simp only at h
  have hmap : ∀ x, x ∈ convertMapping (getComponents .and first) → Good P x := by
    intro x hx
    exact good_getComponents P .and first hf x ((mem_convertMapping _ x).mp hx)
  have hands : ∀ comp, comp ∈ rest.map (fun c => convertMapping (getComponents .and c)) → ∀ x, x ∈ comp → Good P x := by
    intro comp hcomp x hx
    obtain ⟨c, hc, rfl⟩ := List.mem_map.mp hcomp
    exact good_getComponents P .and c (hr c hc) x ((mem_convertMapping _ x).mp hx)
  split at h
  · cases h
  · rename_i r0 rs hrepl
    have hrg : ∀ x, x ∈ r0 :: rs → Good P x := by
      intro x hx
      rw [← hrepl] at hx
      exact hmap x (List.mem_filter.mp hx).1
    have hout : Good P (mkAnd r0 rs) := good_mkAnd P rs r0 (hrg r0 (by simp)) (fun x hx => hrg x (by simp [hx]))
    split at h
    · cases h; exact hout
    · cases h
    · rename_i c cs hkeep
      cases h
      have hk := good_keepComponents P _ _ _ (by
        intro comp hcomp x hx
        rcases List.mem_cons.mp hcomp with rfl | h'
        · exact hmap x hx
        · exact hands comp h' x hx) hkeep
      exact ⟨hout, good_mkOr P cs c (hk c (by simp)) (fun x hx => hk x (by simp [hx]))⟩

theorem good_rewriteFilters {α : Type} [DecidableEq α] (P : α → Prop) (t : T α) (h : Good P t) :
    Good P (rewriteFilters t) := by
  unfold rewriteFilters
  have hcomp := good_getComponents P .or t h
  split
  · exact h
  · exact h
  · rename_i f rest _ hg
    split
    · exact h
    · rename_i r hr
      rw [hg] at hcomp
      exact good_replaceCommonOr P f rest r (hcomp f (by simp)) (fun x hx => hcomp x (by simp [hx])) hr

/-! ### what predicate expressions denote -/

/-- a defined Series expression -/
def SerDef (I : Interp γ ι) (a : Expr) : Prop := ∃ v, den I a = some v ∧ v.ser = true

/-- truth value of a predicate component at a row -/
def bitOf (I : Interp γ ι) (a : Expr) (i : ι) : Bool :=
  match den I a with
  | some v => I.bit (v.col I) i
  | none => false

theorem col_serFrame (I : Interp γ ι) (n : Name) (x : γ) (b : Bool) : FVal.col I ⟨serFrame n x, b⟩ = x := by
  simp [FVal.col, serFrame]

theorem semOp_bin_series (I : Interp γ ι) (op : Nat) (A B : FVal γ) (hA : A.ser = true) (hB : B.ser = true) :
    semOp I (.bin op) [A, B] =
      some ⟨serFrame (if A.sch.name = B.sch.name then A.sch.name else "") (I.bin op (A.col I) (B.col I)), true⟩ := by
  have hs : schOp (.bin op) ([A, B].map FVal.sch) = some ⟨[if A.sch.name = B.sch.name then A.sch.name else ""], true⟩ := by
    have h1 : A.sch.ser = true := hA
    have h2 : B.sch.ser = true := hB
    simp only [List.map_cons, List.map_nil, schOp, h1, h2, Bool.and_self, if_true]
  have hf : frameOp I (.bin op) [A, B] =
      serFrame (if A.sch.name = B.sch.name then A.sch.name else "") (I.bin op (A.col I) (B.col I)) := by
    simp only [frameOp, hA, if_true]
  rw [semOp_eq hs (by rw [hf]; rfl) (by rw [hf]; exact normal_serFrame _ _), hf]

theorem semOp_bin_ser {I : Interp γ ι} {op : Nat} {A B v : FVal γ} (h : semOp I (.bin op) [A, B] = some v)
    (hv : v.ser = true) : A.ser = true ∧ B.ser = true := by
  obtain ⟨s, hs, hvs⟩ := semOp_some h
  have hs' : (if (A.sch.ser && B.sch.ser) = true then some (⟨[if A.sch.name = B.sch.name then A.sch.name else ""], true⟩ : Schema) else
      if (!A.sch.ser && !B.sch.ser && decide (A.sch.cols = B.sch.cols)) = true then some ⟨A.sch.cols, false⟩ else none) = some s := hs
  split at hs'
  · rename_i hc
    simp only [Bool.and_eq_true] at hc
    exact hc
  · obtain ⟨_, he⟩ := ite_some hs'
    rw [hvs, ← he] at hv
    cases hv

/-- the rebuilt predicate denotes a Series whose truth values are those of the tree -/
theorem ofT_den (I : Interp γ ι) (hI : MaskLaws I) : ∀ t : T Expr, Good (SerDef I) t →
    ∃ v, den I (ofT t) = some v ∧ v.ser = true ∧ ∀ i, I.bit (v.col I) i = eval2 (fun a => bitOf I a i) t
  | .atom a, h => by
    obtain ⟨v, hv, hs⟩ := h
    refine ⟨v, hv, hs, ?_⟩
    intro i
    simp only [eval2, bitOf, hv]
  | .not a, h => by cases h
  | .and a b, h => by
    obtain ⟨va, hva, hsa, hba⟩ := ofT_den I hI a h.1
    obtain ⟨vb, hvb, hsb, hbb⟩ := ofT_den I hI b h.2
    refine ⟨⟨serFrame (if va.sch.name = vb.sch.name then va.sch.name else "") (I.bin opAnd (va.col I) (vb.col I)), true⟩, ?_, rfl, ?_⟩
    · show den I (mk (.bin opAnd) [ofT a, ofT b]) = _
      rw [den_mk2, hva, hvb]
      exact semOp_bin_series I opAnd va vb hsa hsb
    · intro i
      rw [col_serFrame]
      show I.bit (I.bin 0 _ _) i = _
      rw [hI.bit_and, hba, hbb]
      rfl
  | .or a b, h => by
    obtain ⟨va, hva, hsa, hba⟩ := ofT_den I hI a h.1
    obtain ⟨vb, hvb, hsb, hbb⟩ := ofT_den I hI b h.2
    refine ⟨⟨serFrame (if va.sch.name = vb.sch.name then va.sch.name else "") (I.bin opOr (va.col I) (vb.col I)), true⟩, ?_, rfl, ?_⟩
    · show den I (mk (.bin opOr) [ofT a, ofT b]) = _
      rw [den_mk2, hva, hvb]
      exact semOp_bin_series I opOr va vb hsa hsb
    · intro i
      rw [col_serFrame]
      show I.bit (I.bin 1 _ _) i = _
      rw [hI.bit_or, hba, hbb]
      rfl

/-- `toT` of a node that is not an `And` / `Or` of two operands is a component -/
theorem toT_atom_or (c l : Nat) (as : List Expr) :
    (∃ a b, as = [a, b] ∧ opOf c l = .bin 0 ∧ toT (.node c l as) = .and (toT a) (toT b)) ∨
    (∃ a b, as = [a, b] ∧ opOf c l = .bin 1 ∧ toT (.node c l as) = .or (toT a) (toT b)) ∨
    toT (.node c l as) = .atom (.node c l as) := by
  rw [toT]
  split
  · rename_i ta tb hop hts
    left
    match as, hts with
    | [a, b], hts =>
      simp only [toTs, List.cons.injEq, and_true] at hts
      exact ⟨a, b, rfl, hop, by rw [hts.1, hts.2]⟩
    | [], hts => simp [toTs] at hts
    | [_], hts => simp [toTs] at hts
    | _ :: _ :: _ :: _, hts => simp [toTs] at hts
  · rename_i ta tb hop hts
    right; left
    match as, hts with
    | [a, b], hts =>
      simp only [toTs, List.cons.injEq, and_true] at hts
      exact ⟨a, b, rfl, hop, by rw [hts.1, hts.2]⟩
    | [], hts => simp [toTs] at hts
    | [_], hts => simp [toTs] at hts
    | _ :: _ :: _ :: _, hts => simp [toTs] at hts
  · right; right; rfl

/-- what `toT` has to say about a defined Series expression -/
def ToTOk (I : Interp γ ι) (e : Expr) : Prop :=
  ∀ v, den I e = some v → v.ser = true →
    Good (SerDef I) (toT e) ∧ ∀ i, I.bit (v.col I) i = eval2 (fun a => bitOf I a i) (toT e)

mutual
theorem toT_den (I : Interp γ ι) (hI : MaskLaws I) : ∀ e : Expr, ToTOk I e
  | .node c l as => by
    intro v hv hs
    have hL := toT_denL I hI as
    rcases toT_atom_or c l as with ⟨a, b, has, hop, ht⟩ | ⟨a, b, has, hop, ht⟩ | ht
    · subst has
      rw [ht]
      rw [den_node, hop] at hv
      simp only [List.map_cons, List.map_nil] at hv
      cases hva : den I a with
      | none => rw [hva] at hv; cases hv
      | some va =>
        cases hvb : den I b with
        | none => rw [hva, hvb] at hv; cases hv
        | some vb =>
          rw [hva, hvb] at hv
          have hv' : semOp I (.bin 0) [va, vb] = some v := hv
          obtain ⟨hsa, hsb⟩ := semOp_bin_ser hv' hs
          rw [semOp_bin_series I 0 va vb hsa hsb] at hv'
          cases hv'
          obtain ⟨ga, ba⟩ := hL a (by simp) va hva hsa
          obtain ⟨gb, bb⟩ := hL b (by simp) vb hvb hsb
          refine ⟨⟨ga, gb⟩, ?_⟩
          intro i
          rw [col_serFrame, hI.bit_and, ba, bb]
          rfl
    · subst has
      rw [ht]
      rw [den_node, hop] at hv
      simp only [List.map_cons, List.map_nil] at hv
      cases hva : den I a with
      | none => rw [hva] at hv; cases hv
      | some va =>
        cases hvb : den I b with
        | none => rw [hva, hvb] at hv; cases hv
        | some vb =>
          rw [hva, hvb] at hv
          have hv' : semOp I (.bin 1) [va, vb] = some v := hv
          obtain ⟨hsa, hsb⟩ := semOp_bin_ser hv' hs
          rw [semOp_bin_series I 1 va vb hsa hsb] at hv'
          cases hv'
          obtain ⟨ga, ba⟩ := hL a (by simp) va hva hsa
          obtain ⟨gb, bb⟩ := hL b (by simp) vb hvb hsb
          refine ⟨⟨ga, gb⟩, ?_⟩
          intro i
          rw [col_serFrame, hI.bit_or, ba, bb]
          rfl
    · rw [ht]
      refine ⟨⟨v, hv, hs⟩, ?_⟩
      intro i
      simp only [eval2, bitOf, hv]
theorem toT_denL (I : Interp γ ι) (hI : MaskLaws I) : ∀ as : List Expr, ∀ a, a ∈ as → ToTOk I a
  | [], a, h => by cases h
  | x :: t, a, h => by
    rcases List.mem_cons.mp h with h1 | h'
    · rw [h1]; exact toT_den I hI x
    · exact toT_denL I hI t a h'
end

/-- the OR-factored predicate is a defined Series selecting the same rows -/
theorem orRewrite_sound (I : Interp γ ι) (hI : MaskLaws I) {q q' : Expr} (h : orRewrite q = some q') {vq : FVal γ}
    (hq : den I q = some vq) (hs : vq.ser = true) :
    ∃ vq', den I q' = some vq' ∧ vq'.ser = true ∧ I.mask (vq'.col I) = I.mask (vq.col I) := by
  unfold orRewrite at h
  split at h
  · simp only at h
    split at h
    · cases h
      obtain ⟨hg, hb⟩ := toT_den I hI q vq hq hs
      obtain ⟨v', hv', hs', hb'⟩ := ofT_den I hI _ (good_rewriteFilters _ _ hg)
      refine ⟨v', hv', hs', hI.mask_ext _ _ ?_⟩
      intro i
      rw [hb', hb, C03_or_factoring]
    · cases h
  · cases h

/-- Filter, OR-factoring branch: the parent with the filter replaced by `Filter(frame, rewritten)` -/
theorem upFilterOr_sound (I : Interp γ ι) (hI : MaskLaws I) {x q q' c p : Expr} (hc : c.op = .filter) (ha : c.args = [x, q])
    (h : orRewrite q = some q') : ∀ v, den I p = some v → den I (subst c (mk .filter [x, q']) p) = some v := by
  have hRef : Ref (fragP I).toSem (mk .filter [x, q']) c := by
    intro v hv
    have hv' : den I c = some v := hv
    rw [den_args2 I ha, hc] at hv'
    obtain ⟨vx, hvx, hv'⟩ := bind_eq_some' hv'
    obtain ⟨vq, hvq, hv'⟩ := bind_eq_some' hv'
    obtain ⟨hqs, hv'⟩ := semOp_filter_some hv'
    obtain ⟨vq', hvq', hqs', hm⟩ := orRewrite_sound I hI h hvq hqs
    refine ⟨v, ?_, rfl⟩
    show den I (mk .filter [x, q']) = some v
    rw [den_mk2, hvx, hvq']
    show semOp I .filter [vx, vq'] = some v
    rw [semOp_filter I vx vq' hqs', hm, hv']
  intro v hv
  obtain ⟨v', hv', he⟩ := subst_ref (fragP I).toSem c (mk .filter [x, q']) hRef p v hv
  have he' : v' = v := he
  rw [← he']
  exact hv'

end Dx.Frag
