import DxModel.Layers.Shuffle
namespace Dx
open Shuffle

theorem concatV_frames {α} (l : List α) (f : α → List Row) :
    concatV (l.map (fun a => V.frame (f a))) = .frame (l.flatMap f) := by
  induction l with
  | nil => rfl
  | cons a t ih => simp [concatV, ih]

theorem lookup_map (F : Nat → List Row) (ks : List Nat) (o : Nat) (h : o ∈ ks) :
    lookupG (ks.map (fun k => (k, F k))) o = .frame (F o) := by
  induction ks with
  | nil => cases h
  | cons a t ih =>
    simp only [List.map_cons, lookupG]
    by_cases hao : a = o
    · simp [hao]
    · simp only [hao, if_false]
      cases h with
      | head => exact absurd rfl hao
      | tail _ h => exact ih h

theorem lookup_spec (rows : List Row) (f : Option (List Nat)) (stage k nin c : Nat) (hc : c < k)
    (hf : ∀ l, f = some l → c ∈ l) :
    lookupG (shuffleGroupSpec rows f stage k nin) c =
      .frame (rows.filter (fun r => stageDigit nin k stage r == c)) := by
  unfold shuffleGroupSpec
  apply lookup_map (fun c => rows.filter (fun r => stageDigit nin k stage r == c))
  rw [List.mem_filter]
  refine ⟨List.mem_range.mpr hc, ?_⟩
  cases f with
  | none => rfl
  | some l => simpa using hf l rfl

theorem run_dep (I : Interp) (g : Graph Key) (hg : ∀ i, g (.dep i) = none) (rows : Nat → List Row) (n i : Nat) :
    run I g (inputs rows) n (.dep i) = .frame (rows i) := by
  rw [run_undefined I g (inputs rows) (.dep i) (hg i)]; rfl

theorem run_sgroup (I : Interp) (p : Params) (rows : Nat → List Row) (n i : Nat) (hi : i < p.nin)
    (hne : p.parts ≠ []) :
    run I (simpleTask p) (inputs rows) (n+1) (.sgroup i) =
      .groups (shuffleGroupSpec (rows i) (if p.filtered then some p.parts else none) 0 p.nout p.nout) := by
  have hd := run_dep I (simpleTask p) (fun _ => rfl) rows n i
  simp only [run, simpleTask, hi, hne, ne_eq, not_false_eq_true, and_self, if_true, evalTsk, hd]

theorem run_ssplit (I : Interp) (p : Params) (rows : Nat → List Row) (n o i : Nat) (hi : i < p.nin)
    (ho : o ∈ p.parts) (hon : o < p.nout) (hrows : ∀ r ∈ rows i, r.tgt < p.nout) :
    run I (simpleTask p) (inputs rows) (n+2) (.ssplit o i) =
      .frame ((rows i).filter (fun r => r.tgt == o)) := by
  have hne : p.parts ≠ [] := by intro h; rw [h] at ho; cases ho
  have hg := run_sgroup I p rows n i hi hne
  simp only [run, simpleTask, hi, ho, and_self, if_true, evalTsk] at hg ⊢
  rw [hg]
  simp only
  rw [lookup_spec _ _ _ _ _ _ hon]
  · congr 1
    apply List.filter_congr
    intro r hr
    have := hrows r hr
    simp [stageDigit, Nat.mod_eq_of_lt this]
  · intro l hl
    by_cases hf : p.filtered <;> simp [hf] at hl
    subst hl; exact ho

theorem run_simple (I : Interp) (p : Params) (rows : Nat → List Row) (j : Nat) (hj : j < p.parts.length)
    (hparts : ∀ o ∈ p.parts, o < p.nout) (hrows : ∀ i, ∀ r ∈ rows i, r.tgt < p.nout) :
    run I (simpleTask p) (inputs rows) 3 (.out .self j) = .frame (sem p rows p.parts[j]) := by
  have ho : p.parts[j] ∈ p.parts := List.getElem_mem hj
  have hm : (List.range p.nin).map (fun i => run I (simpleTask p) (inputs rows) 2 (Key.ssplit p.parts[j] i)) =
      (List.range p.nin).map (fun i => V.frame ((rows i).filter (fun r => r.tgt == p.parts[j]))) := by
    apply List.map_congr_left
    intro i hi
    exact run_ssplit I p rows 0 _ i (List.mem_range.mp hi) ho (hparts _ ho) (hrows i)
  rw [run_succ]
  simp only [simpleTask, hj, dite_true, evalTsk, List.map_map, Function.comp_def]
  rw [hm, concatV_frames]
  rfl

end Dx
