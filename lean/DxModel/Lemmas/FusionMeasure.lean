/-
  Lemmas/FusionMeasure.lean — a successful `_fusion_pass` strictly decreases the number of blockwise
  expressions reachable from the plan's root (the members of the group are no longer reachable once
  the first member has been replaced by the `Fused` expression), hence the outer `while True` loop of
  `optimize_blockwise_fusion` stops.
-/
import DxModel.Lemmas.FusionPass
namespace Dx.Fusion
open Dx

/-! ### counting -/

theorem nodup_subset_length : ∀ (l₁ l₂ : List Nat), l₁.Nodup → (∀ x ∈ l₁, x ∈ l₂) → l₁.length ≤ l₂.length := by
  intro l₁
  induction l₁ with
  | nil => intro l₂ _ _; simp
  | cons a t ih =>
    intro l₂ hnd hsub
    rw [List.nodup_cons] at hnd
    have ha : a ∈ l₂ := hsub a (by simp)
    have hsub' : ∀ x ∈ t, x ∈ l₂.erase a := by
      intro x hx
      have hne : x ≠ a := fun h => hnd.1 (h ▸ hx)
      exact (List.mem_erase_of_ne hne).mpr (hsub x (List.mem_cons_of_mem _ hx))
    have := ih (l₂.erase a) hnd.2 hsub'
    rw [List.length_erase_of_mem ha] at this
    have hpos : 0 < l₂.length := List.length_pos_of_mem ha
    simp only [List.length_cons]
    omega

theorem filter_split_length (l : List Nat) (p : Nat → Bool) :
    (l.filter p).length + (l.filter (fun x => !p x)).length = l.length := by
  induction l with
  | nil => simp
  | cons a t ih =>
    simp only [List.filter_cons]
    by_cases h : p a = true
    · simp only [h, if_true, Bool.not_true, List.length_cons]
      simp only [Bool.false_eq_true, if_false]
      omega
    · have h' : p a = false := by simpa using h
      simp only [h', Bool.not_false, if_true, List.length_cons]
      simp only [Bool.false_eq_true, if_false]
      omega

/-- replacing ≥ 2 distinct elements `G` of a duplicate-free list by one new element shortens it -/
theorem shrink_length (K K' G : List Nat) (fr : Nat) (hK' : K'.Nodup) (hG : G.Nodup)
    (hGK : ∀ g ∈ G, g ∈ K) (hlen : 2 ≤ G.length)
    (hsub : ∀ k ∈ K', k = fr ∨ (k ∈ K ∧ k ∉ G)) : K'.length < K.length := by
  have h1 : K'.length ≤ (fr :: K.filter (fun x => !decide (x ∈ G))).length := by
    apply nodup_subset_length _ _ hK'
    intro k hk
    rcases hsub k hk with rfl | ⟨h1, h2⟩
    · simp
    · apply List.mem_cons_of_mem
      rw [List.mem_filter]
      exact ⟨h1, by simp [h2]⟩
  have h2 : G.length ≤ (K.filter (fun x => decide (x ∈ G))).length := by
    apply nodup_subset_length _ _ hG
    intro g hg
    rw [List.mem_filter]
    exact ⟨hGK g hg, by simp [hg]⟩
  have h3 := filter_split_length K (fun x => decide (x ∈ G))
  simp only [List.length_cons] at h1
  omega

/-! ### fresh names -/

theorem foldl_max_ge : ∀ (l : List Nat) (a : Nat), a ≤ l.foldl max a ∧ ∀ x ∈ l, x ≤ l.foldl max a := by
  intro l
  induction l with
  | nil => intro a; simp
  | cons b t ih =>
    intro a
    simp only [List.foldl_cons]
    obtain ⟨h1, h2⟩ := ih (max a b)
    refine ⟨by omega, ?_⟩
    intro x hx
    rcases List.mem_cons.mp hx with rfl | hx
    · omega
    · exact h2 x hx

theorem lt_freshName (dag : Dag) (x : Nat) (hx : x ∈ allNames dag) : x < freshName dag := by
  unfold freshName
  have := (foldl_max_ge (allNames dag) 0).2 x hx
  omega

theorem getNode_mem {dag : Dag} {x : Nat} {nd : Node} (h : getNode dag x = some nd) :
    nd ∈ dag ∧ nd.name = x := by
  unfold getNode at h
  exact ⟨List.mem_of_find?_eq_some h, by simpa using List.find?_some h⟩

theorem name_lt_fresh {dag : Dag} {x : Nat} {nd : Node} (h : getNode dag x = some nd) :
    x < freshName dag := by
  obtain ⟨hm, hn⟩ := getNode_mem h
  apply lt_freshName
  unfold allNames
  rw [List.mem_flatMap]
  exact ⟨nd, hm, by simp [hn]⟩

theorem dep_lt_fresh {dag : Dag} {x d : Nat} (h : d ∈ depsOf dag x) : d < freshName dag := by
  unfold depsOf at h
  cases hg : getNode dag x with
  | none => simp [hg] at h
  | some nd =>
    simp only [hg] at h
    obtain ⟨hm, _⟩ := getNode_mem hg
    apply lt_freshName
    unfold allNames
    rw [List.mem_flatMap]
    exact ⟨nd, hm, by simp [h]⟩

theorem getNode_fresh (dag : Dag) : getNode dag (freshName dag) = none := by
  cases hg : getNode dag (freshName dag) with
  | none => rfl
  | some nd => exact absurd (name_lt_fresh hg) (Nat.lt_irrefl _)

/-! ### the plan after the substitution -/

/-- `σ d`: the operand `d` after `substitute old new` -/
def sub (old new d : Nat) : Nat := if d = old then new else d

theorem getNode_substitute (dag : Dag) (old new x : Nat) :
    getNode (substitute dag old new) x =
      (getNode dag x).map (fun nd => { nd with deps := nd.deps.map (sub old new) }) := by
  unfold getNode substitute
  rw [List.find?_map]
  rfl

/-- the plan returned by a successful pass, seen from the old one -/
structure NewPlan (dag dag' : Dag) (G : List Nat) (fr : Nat) : Prop where
  deps_fresh : depsOf dag' fr = groupDeps dag G
  deps_old : ∀ x, x ≠ fr → depsOf dag' x = (depsOf dag x).map (sub (G.headD 0) fr)
  bw_fresh : isBw dag' fr = true
  bw_old : ∀ x, x ≠ fr → isBw dag' x = isBw dag x
  node_old : ∀ x, x ≠ fr → (getNode dag' x).isSome = (getNode dag x).isSome

theorem newPlan (dag : Dag) (G : List Nat) :
    NewPlan dag (substitute dag (G.headD 0) (fusedNode dag G).name ++ [fusedNode dag G]) G (freshName dag) := by
  have hname : (fusedNode dag G).name = freshName dag := rfl
  have hget : ∀ x, getNode (substitute dag (G.headD 0) (freshName dag) ++ [fusedNode dag G]) x =
      ((getNode dag x).map (fun nd => { nd with deps := nd.deps.map (sub (G.headD 0) (freshName dag)) })).or
        (if x = freshName dag then some (fusedNode dag G) else none) := by
    intro x
    have : getNode (substitute dag (G.headD 0) (freshName dag) ++ [fusedNode dag G]) x =
        (getNode (substitute dag (G.headD 0) (freshName dag)) x).or (getNode [fusedNode dag G] x) := by
      unfold getNode; rw [List.find?_append]
    rw [this, getNode_substitute]
    congr 1
    unfold getNode
    simp only [List.find?_cons, List.find?_nil, hname]
    by_cases hx : x = freshName dag
    · simp [hx]
    · have : (freshName dag == x) = false := by simpa using fun h => hx h.symm
      simp [this, hx]
  rw [hname]
  refine ⟨?_, ?_, ?_, ?_, ?_⟩
  · unfold depsOf
    rw [hget, getNode_fresh]
    simp [fusedNode]
  · intro x hx
    unfold depsOf
    rw [hget]
    simp only [hx, if_false]
    cases getNode dag x <;> simp
  · unfold isBw
    rw [hget, getNode_fresh]
    simp [fusedNode]
  · intro x hx
    unfold isBw
    rw [hget]
    simp only [hx, if_false]
    cases getNode dag x <;> simp
  · intro x hx
    rw [hget]
    simp only [hx, if_false]
    cases getNode dag x <;> simp

/-! ### reachability after the substitution -/

/-- well-formedness of the plan's root: it names a node and nothing reachable has it as an operand
    (expressions are acyclic; the root of the plan is nobody's operand) -/
structure PlanOK (dag : Dag) (root : Nat) : Prop where
  root_node : (getNode dag root).isSome = true
  root_free : ∀ c, Reach dag root c → root ∉ depsOf dag c

theorem mem_groupDeps {dag : Dag} {G : List Nat} {d : Nat} (h : d ∈ groupDeps dag G) :
    ∃ g ∈ G, d ∈ depsOf dag g ∧ d ∉ G := by
  unfold groupDeps at h
  rw [List.mem_flatMap] at h
  obtain ⟨g, hg, hd⟩ := h
  rw [List.mem_filter] at hd
  exact ⟨g, hg, hd.1, by simpa using hd.2⟩

theorem head_mem_of_ne {G : List Nat} (h : G ≠ []) : G.headD 0 ∈ G := by
  cases G with
  | nil => exact absurd rfl h
  | cons a t => simp

theorem mem_tail_of_ne_head {G : List Nat} {g : Nat} (hg : g ∈ G) (hne : g ≠ G.headD 0) : g ∈ G.tail := by
  cases G with
  | nil => cases hg
  | cons a t =>
    rcases List.mem_cons.mp hg with rfl | h
    · exact absurd rfl hne
    · exact h

/-- everything reachable in the new plan is the new node or an old reachable non-member -/
theorem reach_new (dag dag' : Dag) (root : Nat) (G : List Nat) (fr : Nat)
    (hnp : NewPlan dag dag' G fr) (hok : GroupOK dag root G) (hplan : PlanOK dag root) :
    ∀ x, Reach dag' (if root = G.headD 0 then fr else root) x →
      x = fr ∨ (Reach dag root x ∧ x ∉ G) := by
  intro x hx
  induction hx with
  | root =>
    by_cases hr : root = G.headD 0
    · simp [hr]
    · simp only [hr, if_false]
      right
      refine ⟨Reach.root, ?_⟩
      intro hin
      obtain ⟨c, hc, hdep⟩ := hok.parent root (mem_tail_of_ne_head hin hr)
      exact hplan.root_free c (hok.reach c hc) hdep
  | step hc hd ih =>
    rename_i c d
    rcases ih with rfl | ⟨hcr, hcg⟩
    · rw [hnp.deps_fresh] at hd
      obtain ⟨g, hg, hdg, hdn⟩ := mem_groupDeps hd
      exact Or.inr ⟨Reach.step (hok.reach g hg) hdg, hdn⟩
    · by_cases hcf : c = fr
      · subst hcf
        rw [hnp.deps_fresh] at hd
        obtain ⟨g, hg, hdg, hdn⟩ := mem_groupDeps hd
        exact Or.inr ⟨Reach.step (hok.reach g hg) hdg, hdn⟩
      · rw [hnp.deps_old c hcf, List.mem_map] at hd
        obtain ⟨d0, hd0, rfl⟩ := hd
        unfold sub
        by_cases h0 : d0 = G.headD 0
        · simp [h0]
        · simp only [h0, if_false]
          right
          refine ⟨Reach.step hcr hd0, ?_⟩
          intro hin
          exact hcg (hok.closed d0 (mem_tail_of_ne_head hin h0) c hcr hd0)

/-! ### the measure -/

/-- number of blockwise expressions reachable from the root (the keys of `dependents`) -/
def measure (dag : Dag) (root : Nat) : Nat :=
  match globalMaps dag root with
  | some m => m.dependents.keys.length
  | none => 0

theorem keys_spec (dag : Dag) (root : Nat) (m : Maps) (hm : WInv dag root [] m) (k : Nat) :
    k ∈ m.dependents.keys ↔ Reach dag root k ∧ isBw dag k = true := by
  constructor
  · intro hk
    obtain ⟨hb, hs⟩ := hm.keys_bw k hk
    rcases hs with hs | hs
    · exact ⟨hm.reach k (Or.inl hs), hb⟩
    · cases hs
  · rintro ⟨hr, hb⟩
    exact hm.keys_complete k (reach_seen dag root m hm k hr) hb

theorem measure_decreases (dag dag' : Dag) (root : Nat) (G : List Nat) (fr : Nat)
    (hnp : NewPlan dag dag' G fr) (hok : GroupOK dag root G) (hlen : 2 ≤ G.length)
    (hplan : PlanOK dag root) (hfr : getNode dag fr = none) :
    measure dag' (if root = G.headD 0 then fr else root) < measure dag root := by
  unfold measure
  have h1 := globalMaps_total dag root
  have h2 := globalMaps_total dag' (if root = G.headD 0 then fr else root)
  cases hm : globalMaps dag root with
  | none => rw [hm] at h1; cases h1
  | some m =>
    cases hm' : globalMaps dag' (if root = G.headD 0 then fr else root) with
    | none => rw [hm'] at h2; cases h2
    | some m' =>
      simp only
      have hw := globalMaps_inv dag root m hm
      have hw' := globalMaps_inv dag' _ m' hm'
      apply shrink_length m.dependents.keys m'.dependents.keys G fr hw'.keys_nodup hok.nodup
      · intro g hg
        exact (keys_spec dag root m hw g).mpr ⟨hok.reach g hg, hok.blockwise g hg⟩
      · exact hlen
      · intro k hk
        obtain ⟨hr, hb⟩ := (keys_spec dag' _ m' hw' k).mp hk
        rcases reach_new dag dag' root G fr hnp hok hplan k hr with rfl | ⟨hr0, hng⟩
        · exact Or.inl rfl
        · by_cases hkf : k = fr
          · exact Or.inl hkf
          · rw [hnp.bw_old k hkf] at hb
            exact Or.inr ⟨(keys_spec dag root m hw k).mpr ⟨hr0, hb⟩, hng⟩

theorem planOK_preserved (dag dag' : Dag) (root : Nat) (G : List Nat) (fr : Nat)
    (hnp : NewPlan dag dag' G fr) (hok : GroupOK dag root G) (hplan : PlanOK dag root)
    (hfr : ∀ x, (getNode dag x).isSome = true → x < fr) (hfd : ∀ x d, d ∈ depsOf dag x → d < fr)
    (hnode : (getNode dag' fr).isSome = true) :
    PlanOK dag' (if root = G.headD 0 then fr else root) := by
  have hrootlt : root < fr := hfr root hplan.root_node
  refine ⟨?_, ?_⟩
  · by_cases hr : root = G.headD 0
    · simpa [hr] using hnode
    · simp only [hr, if_false]
      rw [hnp.node_old root (Nat.ne_of_lt hrootlt)]
      exact hplan.root_node
  · intro c hc hin
    -- an operand of `c` in the new plan equal to the new root
    have key : ∀ g, Reach dag root g → ∀ d0 ∈ depsOf dag g,
        (if root = G.headD 0 then fr else root) ≠ sub (G.headD 0) fr d0 := by
      intro g hg d0 hd0 heq
      unfold sub at heq
      by_cases hr : root = G.headD 0
      · simp only [hr, if_true] at heq
        by_cases h0 : d0 = G.headD 0
        · exact hplan.root_free g hg (hr ▸ h0 ▸ hd0)
        · simp only [h0, if_false] at heq
          exact absurd (hfd g d0 hd0) (by omega)
      · simp only [hr, if_false] at heq
        by_cases h0 : d0 = G.headD 0
        · simp only [h0, if_true] at heq
          omega
        · simp only [h0, if_false] at heq
          exact hplan.root_free g hg (heq ▸ hd0)
    have keyG : ∀ d ∈ groupDeps dag G, (if root = G.headD 0 then fr else root) ≠ d := by
      intro d hd heq
      obtain ⟨g, hg, hdg, _⟩ := mem_groupDeps hd
      by_cases hr : root = G.headD 0
      · simp only [hr, if_true] at heq
        exact absurd (hfd g d hdg) (by omega)
      · simp only [hr, if_false] at heq
        exact hplan.root_free g (hok.reach g hg) (heq ▸ hdg)
    rcases reach_new dag dag' root G fr hnp hok hplan c hc with rfl | ⟨hcr, _⟩
    · rw [hnp.deps_fresh] at hin
      exact keyG _ hin rfl
    · by_cases hcf : c = fr
      · subst hcf
        rw [hnp.deps_fresh] at hin
        exact keyG _ hin rfl
      · rw [hnp.deps_old c hcf, List.mem_map] at hin
        obtain ⟨d0, hd0, heq⟩ := hin
        exact key c hcr d0 hd0 heq.symm

/-- a successful pass: fewer reachable blockwise nodes, and the plan stays well formed -/
theorem pass_decreases (ord : Nat → List Nat → List Nat) (hord : OrdOK ord) (dag : Dag) (root : Nat)
    (hplan : PlanOK dag root) (r : PassResult) (G : List Nat)
    (h : fusionPass ord dag root = some r) (hg : r.group = some G) :
    measure r.dag r.root < measure dag root ∧ PlanOK r.dag r.root := by
  obtain ⟨hok, hlen⟩ := fusionPass_groupOK ord hord dag root r G h hg
  obtain ⟨m, s, _, _, _, hdag, hroot⟩ := fusionPass_some ord dag root r G h hg
  have hnp := newPlan dag G
  rw [hdag, hroot]
  have hname : (fusedNode dag G).name = freshName dag := rfl
  rw [hname] at hnp ⊢
  refine ⟨measure_decreases dag _ root G _ hnp hok hlen hplan (getNode_fresh dag), ?_⟩
  apply planOK_preserved dag _ root G _ hnp hok hplan
  · intro x hx
    cases hgx : getNode dag x with
    | none => simp [hgx] at hx
    | some nd => exact name_lt_fresh hgx
  · intro x d hd
    exact dep_lt_fresh hd
  · unfold getNode
    rw [List.find?_append]
    have : List.find? (fun nd => nd.name == freshName dag) (substitute dag (G.headD 0) (freshName dag)) = none := by
      have := getNode_substitute dag (G.headD 0) (freshName dag) (freshName dag)
      unfold getNode at this
      rw [this]
      have := getNode_fresh dag
      unfold getNode at this
      rw [this]; rfl
    rw [this]
    simp [fusedNode]

/-- The outer loop of `optimize_blockwise_fusion` stops: with more fuel than reachable blockwise
    nodes, the only way `fuseLoop` fails to return is an inner loop of some pass running out of its
    own fuel (which the driver reports as `FUEL`; never observed). -/
theorem fuseLoop_terminates (ord : Nat → List Nat → List Nat) (hord : OrdOK ord) :
    ∀ (fuel : Nat) (dag : Dag) (root n : Nat), PlanOK dag root → measure dag root < fuel →
      fuseLoop ord fuel dag root n = none → ∃ dag' root', fusionPass ord dag' root' = none := by
  intro fuel
  induction fuel with
  | zero => intro dag root n _ h; omega
  | succ fuel ih =>
    intro dag root n hplan hlt hnone
    simp only [fuseLoop] at hnone
    cases hp : fusionPass ord dag root with
    | none => exact ⟨dag, root, hp⟩
    | some r =>
      simp only [hp] at hnone
      cases hg : r.group with
      | none => simp [hg] at hnone
      | some G =>
        simp only [hg] at hnone
        by_cases hd : r.done = true
        · simp [hd] at hnone
        · simp only [hd] at hnone
          obtain ⟨hdec, hplan'⟩ := pass_decreases ord hord dag root hplan r G hp hg
          exact ih r.dag r.root (n + 1) hplan' (by omega) (by simpa using hnone)

end Dx.Fusion
