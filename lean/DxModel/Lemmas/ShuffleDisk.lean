/-
  Lemmas/ShuffleDisk.lean — `run (diskTask p) = sem` (barrier / collect structure of DiskShuffle).
-/
import DxModel.Lemmas.ShufflePerm
namespace Dx
open Shuffle

theorem run_dwrite (I : Interp) (p : Params) (rows : Nat → List Row) (n i : Nat) (hi : i < p.nin) :
    run I (diskTask p) (inputs rows) (n+1) (.dwrite i) = .unit := by
  have hd := run_dep I (diskTask p) (fun _ => rfl) rows n i
  rw [run_defined I _ _ n _ (.diskWrite (.dep i) p.parts) (by simp [diskTask, hi])]
  simp only [evalTsk, hd]

theorem run_barrier (I : Interp) (p : Params) (rows : Nat → List Row) (n : Nat) :
    run I (diskTask p) (inputs rows) (n+2) .barrier = .unit := by
  rw [run_defined I _ _ (n+1) _ (.barrier ((List.range p.nin).map Key.dwrite)) rfl]
  simp only [evalTsk, List.map_map]
  rw [if_pos]
  rw [List.all_eq_true]
  intro v hv
  obtain ⟨i, hi, rfl⟩ := List.mem_map.mp hv
  simp only [Function.comp]
  rw [run_dwrite I p rows n i (List.mem_range.mp hi)]
  rfl

theorem run_disk (I : Interp) (p : Params) (rows : Nat → List Row) (j : Nat) (hj : j < p.parts.length)
    (n : Nat) :
    run I (diskTask p) (inputs rows) (n+3) (.out .self j) = .frame (sem p rows p.parts[j]) := by
  rw [run_defined I _ _ (n+2) _ (.collect ((List.range p.nin).map Key.dep) p.parts[j] .barrier)
    (by simp [diskTask, hj])]
  simp only [evalTsk, run_barrier, List.map_map]
  have hm : concatV ((List.range p.nin).map
      ((fun k => run I (diskTask p) (inputs rows) (n+2) k) ∘ Key.dep)) =
      .frame ((List.range p.nin).flatMap rows) := by
    apply concatV_map_frames
    intro i _
    exact run_dep I (diskTask p) (fun _ => rfl) rows (n+2) i
  rw [hm]
  simp only [group2Get, sem_eq_filter]

end Dx
