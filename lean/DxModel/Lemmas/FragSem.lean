/-
  Lemmas/FragSem.lean — the denotation of the fragment (DxModel/Fragment.lean): equations of `denoteP (fragP I)`,
  labels of a value = `schemaOf`, values are normal (no column outside the labels) and duplicate-free, and the
  operator structures of DxModel/Cols.lean instantiated with the fragment's frame functions.
-/
import DxModel.Lemmas.FragCode
import DxModel.Lemmas.ColsSem
namespace Dx.Frag
open Dx Dx.Cols

variable {γ ι : Type}

/-- the denotation of an expression of the fragment -/
abbrev den (I : Interp γ ι) (e : Expr) : Option (FVal γ) := denoteP (fragP I) e

/-! ### equations -/

theorem den_node (I : Interp γ ι) (c l : Nat) (as : List Expr) :
    den I (.node c l as) = (allSome (as.map (den I))).bind (semOp I (opOf c l)) := by
  show denoteP (fragP I) _ = _
  rw [denoteP_node]
  cases allSome (as.map (den I)) <;> rfl

theorem den_expr (I : Interp γ ι) (e : Expr) : den I e = (allSome (e.args.map (den I))).bind (semOp I e.op) := by
  cases e with
  | node c l as => exact den_node I c l as

theorem den_mk (I : Interp γ ι) (o : Op) (as : List Expr) :
    den I (mk o as) = (allSome (as.map (den I))).bind (semOp I o) := by
  rw [den_expr, mk_op, mk_args]

theorem schemaOf_node (c l : Nat) (as : List Expr) :
    schemaOf (.node c l as) = (allSome (as.map schemaOf)).bind (schOp (opOf c l)) := by
  show denoteP schP _ = _
  rw [denoteP_node]
  have : as.map schemaOf = as.map (denoteP schP) := rfl
  rw [this]
  cases allSome (as.map (denoteP schP)) <;> rfl

theorem schemaOf_expr (e : Expr) : schemaOf e = (allSome (e.args.map schemaOf)).bind (schOp e.op) := by
  cases e with
  | node c l as => exact schemaOf_node c l as

theorem schemaOf_mk (o : Op) (as : List Expr) :
    schemaOf (mk o as) = (allSome (as.map schemaOf)).bind (schOp o) := by
  rw [schemaOf_expr, mk_op, mk_args]

theorem allSome_eq_some {α : Type} : ∀ {l : List (Option α)} {vs : List α}, allSome l = some vs → l = vs.map some
  | [], vs, h => by
    simp only [allSome, Option.some.injEq] at h
    subst h; rfl
  | none :: t, vs, h => by simp [allSome] at h
  | some a :: t, vs, h => by
    simp only [allSome] at h
    cases hr : allSome t with
    | none => rw [hr] at h; cases h
    | some r =>
      rw [hr] at h
      simp only [Option.some.injEq] at h
      subst h
      rw [allSome_eq_some hr]; rfl

theorem allSome_map_some {α : Type} : ∀ vs : List α, allSome (vs.map some) = some vs
  | [] => rfl
  | a :: t => by simp only [List.map_cons, allSome, allSome_map_some t]

theorem allSome_map {α β : Type} (f : α → β) : ∀ l : List (Option α),
    allSome (l.map (Option.map f)) = (allSome l).map (List.map f)
  | [] => rfl
  | none :: t => rfl
  | some a :: t => by
    simp only [List.map_cons, Option.map_some, allSome, allSome_map f t]
    cases allSome t <;> rfl

/-- the operands of a defined node are defined -/
theorem den_some {I : Interp γ ι} {e : Expr} {v : FVal γ} (h : den I e = some v) :
    ∃ vs, e.args.map (den I) = vs.map some ∧ semOp I e.op vs = some v := by
  rw [den_expr] at h
  cases ha : allSome (e.args.map (den I)) with
  | none => rw [ha] at h; cases h
  | some vs =>
    rw [ha] at h
    exact ⟨vs, allSome_eq_some ha, h⟩

theorem den_of_args {I : Interp γ ι} {e : Expr} {vs : List (FVal γ)} (h : e.args.map (den I) = vs.map some) :
    den I e = semOp I e.op vs := by
  rw [den_expr, h, allSome_map_some]; rfl

/-! ### labels of a value -/

theorem semOp_sch (I : Interp γ ι) (o : Op) (vs : List (FVal γ)) :
    (semOp I o vs).map FVal.sch = schOp o (vs.map FVal.sch) := by
  unfold semOp
  cases schOp o (vs.map FVal.sch) with
  | none => rfl
  | some s => rfl

mutual
theorem den_sch (I : Interp γ ι) : ∀ e : Expr, (den I e).map FVal.sch = schemaOf e
  | .node c l as => by
    rw [den_node, schemaOf_node, ← den_schL I as]
    cases allSome (as.map (den I)) with
    | none => rfl
    | some vs => exact semOp_sch I (opOf c l) vs
theorem den_schL (I : Interp γ ι) : ∀ as : List Expr,
    (allSome (as.map (den I))).map (List.map FVal.sch) = allSome (as.map schemaOf)
  | [] => rfl
  | a :: t => by
    have h1 := den_sch I a
    have h2 := den_schL I t
    simp only [List.map_cons]
    rw [← h1]
    cases den I a with
    | none => rfl
    | some v =>
      simp only [Option.map_some, allSome]
      rw [← h2]
      cases allSome (t.map (den I)) <;> rfl
end

theorem den_schema {I : Interp γ ι} {e : Expr} {v : FVal γ} (h : den I e = some v) : schemaOf e = some v.sch := by
  rw [← den_sch I e, h]; rfl

/-- `schemaOf` decides definedness -/
theorem den_isSome (I : Interp γ ι) (e : Expr) : (den I e).isSome = (schemaOf e).isSome := by
  rw [← den_sch I e]
  cases den I e <;> rfl

/-! ### normal frames -/

/-- no column outside the labels -/
def Normal (F : Frame γ) : Prop := ∀ c, F.cols.contains c = false → F.val c = none

theorem normal_select (cs : List Name) (F : Frame γ) : Normal (F.select cs) := by
  intro c hc
  show (if cs.contains c = true then F.val c else none) = none
  have : cs.contains c = false := hc
  rw [this]; rfl

theorem frame_ext {A B : Frame γ} (hc : A.cols = B.cols) (hA : Normal A) (hB : Normal B)
    (hv : ∀ c, c ∈ A.cols → A.val c = B.val c) : A = B := by
  obtain ⟨ac, av⟩ := A
  obtain ⟨bc, bv⟩ := B
  simp only at hc
  subst hc
  congr
  funext c
  by_cases h : c ∈ ac
  · exact hv c h
  · have h' : ac.contains c = false := by simpa using h
    have e1 := hA c h'
    have e2 := hB c h'
    simp only at e1 e2
    rw [e1, e2]

theorem select_self {F : Frame γ} (h : Normal F) : F.select F.cols = F :=
  frame_ext rfl (normal_select _ _) h (fun _ hc => select_val_mem hc)

theorem select_congr {A B : Frame γ} (P : List Name) (h : ∀ c, c ∈ P → A.val c = B.val c) :
    A.select P = B.select P :=
  frame_ext rfl (normal_select _ _) (normal_select _ _)
    (fun c hc => by
      have hc' : c ∈ P := hc
      rw [select_val_mem hc', select_val_mem hc']; exact h c hc')

theorem semOp_normal {I : Interp γ ι} {o : Op} {vs : List (FVal γ)} {v : FVal γ} (h : semOp I o vs = some v) :
    Normal v.fr := by
  unfold semOp at h
  cases hs : schOp o (vs.map FVal.sch) with
  | none => rw [hs] at h; cases h
  | some s =>
    rw [hs] at h
    cases h
    exact normal_select _ _

theorem den_normal {I : Interp γ ι} {e : Expr} {v : FVal γ} (h : den I e = some v) : Normal v.fr := by
  obtain ⟨vs, _, hs⟩ := den_some h
  exact semOp_normal hs

/-- what `semOp` returns when the labels are accepted -/
theorem semOp_of_sch {I : Interp γ ι} {o : Op} {vs : List (FVal γ)} {s : Schema}
    (h : schOp o (vs.map FVal.sch) = some s) : semOp I o vs = some ⟨(frameOp I o vs).select s.cols, s.ser⟩ := by
  unfold semOp; rw [h]

theorem semOp_some {I : Interp γ ι} {o : Op} {vs : List (FVal γ)} {v : FVal γ} (h : semOp I o vs = some v) :
    ∃ s, schOp o (vs.map FVal.sch) = some s ∧ v = ⟨(frameOp I o vs).select s.cols, s.ser⟩ := by
  unfold semOp at h
  cases hs : schOp o (vs.map FVal.sch) with
  | none => rw [hs] at h; cases h
  | some s => rw [hs] at h; cases h; exact ⟨s, rfl, rfl⟩

end Dx.Frag

namespace Dx.Frag
open Dx Dx.Cols

variable {γ ι : Type}

/-! ### labels are duplicate-free -/

theorem nodup_assignCols (keys frame : List Name) (h : frame.Nodup) : (assignCols keys frame).Nodup := by
  unfold assignCols assignLabels
  rw [List.nodup_append]
  refine ⟨h, List.Nodup.sublist List.filter_sublist (nodup_dedupFirst keys), ?_⟩
  intro a ha b hb hab
  subst hab
  have := (List.mem_filter.mp hb).2
  simp only [Bool.not_eq_true', List.contains_eq_mem, decide_eq_false_iff_not] at this
  exact this ha

theorem nodup_foldl_union : ∀ (l acc : List Name), acc.Nodup →
    (l.foldl (fun acc c => if acc.contains c then acc else acc ++ [c]) acc).Nodup
  | [], acc, h => h
  | c :: t, acc, h => by
    simp only [List.foldl_cons]
    apply nodup_foldl_union t
    by_cases hc : acc.contains c = true
    · rw [if_pos hc]; exact h
    · rw [if_neg hc, List.nodup_append]
      refine ⟨h, by simp, ?_⟩
      intro a ha b hb hab
      simp only [List.mem_singleton] at hb
      subst hab; subst hb
      exact hc (List.contains_iff_mem.mpr ha)

theorem nodup_concatCols (inner : Bool) : ∀ (fs : List (List Name)), (∀ f ∈ fs, f.Nodup) →
    (concatCols false inner fs).Nodup
  | [], _ => List.nodup_nil
  | f :: fs, h => by
    simp only [concatCols, Bool.false_eq_true, if_false]
    cases inner with
    | true =>
      simp only [if_true]
      exact List.Nodup.sublist List.filter_sublist (h f (by simp))
    | false =>
      simp only [Bool.false_eq_true, if_false]
      exact nodup_foldl_union _ [] List.nodup_nil

theorem ite_some {α : Type} {c : Prop} [Decidable c] {a s : α} (h : (if c then some a else none) = some s) :
    c ∧ a = s := by
  by_cases hc : c
  · rw [if_pos hc] at h; exact ⟨hc, Option.some.inj h⟩
  · rw [if_neg hc] at h; cases h

theorem schOp_nodup {o : Op} {ss : List Schema} {s : Schema} (h : schOp o ss = some s)
    (hs : ∀ t, t ∈ ss → t.cols.Nodup) : s.cols.Nodup := by
  unfold schOp at h
  split at h
  · obtain ⟨hc, he⟩ := ite_some h
    subst he
    simp only [Bool.and_eq_true, decide_eq_true_eq] at hc
    exact hc.1.2
  · obtain ⟨hc, he⟩ := ite_some h
    subst he
    simp only [Bool.and_eq_true, decide_eq_true_eq] at hc
    exact hc.1.2
  · obtain ⟨_, he⟩ := ite_some h
    subst he
    simp
  · cases h; exact hs _ (by simp)
  · cases h; exact hs _ (by simp)
  · split at h
    · cases h; simp
    · rename_i a b _
      obtain ⟨_, he⟩ := ite_some h
      subst he
      exact hs a (List.mem_cons_self ..)
  · obtain ⟨_, he⟩ := ite_some h
    subst he
    exact nodup_assignCols _ _ (hs _ (by simp))
  · obtain ⟨hc, he⟩ := ite_some h
    subst he
    simp only [Bool.and_eq_true, decide_eq_true_eq] at hc
    exact hc.2
  · obtain ⟨_, he⟩ := ite_some h
    subst he
    exact hs _ (by simp)
  · obtain ⟨hc, he⟩ := ite_some h
    subst he
    simp only [mergeOK, Bool.and_eq_true, decide_eq_true_eq] at hc
    exact hc.2.2
  · obtain ⟨_, he⟩ := ite_some h
    subst he
    dsimp only
    apply nodup_concatCols
    intro f hf
    rw [List.mem_map] at hf
    obtain ⟨t, ht, rfl⟩ := hf
    exact hs t ht
  · cases h

mutual
theorem schemaOf_nodup : ∀ (e : Expr) (s : Schema), schemaOf e = some s → s.cols.Nodup
  | .node c l as, s, h => by
    rw [schemaOf_node] at h
    cases ha : allSome (as.map schemaOf) with
    | none => rw [ha] at h; cases h
    | some ss =>
      rw [ha] at h
      exact schOp_nodup h (schemaOf_nodupL as ss ha)
theorem schemaOf_nodupL : ∀ (as : List Expr) (ss : List Schema), allSome (as.map schemaOf) = some ss →
    ∀ t, t ∈ ss → t.cols.Nodup
  | [], ss, h, t, ht => by
    simp only [List.map_nil, allSome, Option.some.injEq] at h
    subst h; cases ht
  | a :: as, ss, h, t, ht => by
    simp only [List.map_cons] at h
    cases ha : schemaOf a with
    | none => rw [ha] at h; simp [allSome] at h
    | some sa =>
      rw [ha] at h
      simp only [allSome] at h
      cases hr : allSome (as.map schemaOf) with
      | none => rw [hr] at h; cases h
      | some r =>
        rw [hr] at h
        simp only [Option.some.injEq] at h
        subst h
        rcases List.mem_cons.mp ht with rfl | ht'
        · exact schemaOf_nodup a _ ha
        · exact schemaOf_nodupL as r hr t ht'
end

theorem den_nodup {I : Interp γ ι} {e : Expr} {v : FVal γ} (h : den I e = some v) : v.fr.cols.Nodup :=
  schemaOf_nodup e _ (den_schema h)

end Dx.Frag
