/-
  Lemmas/ShuffleDigits.lean — base-k digit tuples (`digits`, `num`) used by the staged shuffle.
-/
import DxModel.Layers.Shuffle
namespace Dx
open Shuffle

theorem digits_length (k s i : Nat) : (digits k s i).length = s := by
  simp [digits]

theorem digits_getD (k s i j : Nat) (hj : j < s) : (digits k s i).getD j 0 = i / k ^ j % k := by
  simp [digits, List.getD_eq_getElem?_getD, hj]

theorem digits_succ (k s i : Nat) : digits k (s+1) i = (i % k) :: digits k s (i / k) := by
  unfold digits
  rw [List.range_succ_eq_map]
  simp only [List.map_cons, List.map_map, Nat.pow_zero, Nat.div_one]
  congr 1
  apply List.map_congr_left
  intro j _
  simp only [Function.comp, Nat.succ_eq_add_one]
  rw [Nat.pow_succ', Nat.div_div_eq_div_mul]

theorem digits_lt (k s i : Nat) (hk : 0 < k) : ∀ d ∈ digits k s i, d < k := by
  intro d hd
  unfold digits at hd
  obtain ⟨j, _, rfl⟩ := List.mem_map.mp hd
  exact Nat.mod_lt _ hk

/-- `inp_part_map[inputs[i]] = i` -/
theorem num_digits (k : Nat) (hk : 0 < k) : ∀ s i, i < k ^ s → num k (digits k s i) = i := by
  intro s
  induction s with
  | zero => intro i hi; simp at hi; subst hi; rfl
  | succ s ih =>
    intro i hi
    rw [digits_succ]
    simp only [num]
    rw [ih (i / k) ((Nat.div_lt_iff_lt_mul hk).mpr (by rwa [Nat.pow_succ] at hi))]
    exact Nat.mod_add_div i k

/-- `inputs[inp_part_map[d]] = d` for digit tuples -/
theorem digits_num (k : Nat) (hk : 0 < k) : ∀ (d : List Nat) s, d.length = s → (∀ x ∈ d, x < k) →
    digits k s (num k d) = d := by
  intro d
  induction d with
  | nil => intro s hs _; subst hs; rfl
  | cons a t ih =>
    intro s hs hv
    subst hs
    simp only [List.length_cons]
    rw [digits_succ]
    have ha : a < k := hv a (by simp)
    simp only [num]
    have h1 : (a + k * num k t) % k = a := by
      rw [Nat.add_mul_mod_self_left]; exact Nat.mod_eq_of_lt ha
    have h2 : (a + k * num k t) / k = num k t := by
      rw [Nat.add_mul_div_left _ _ hk, Nat.div_eq_of_lt ha, Nat.zero_add]
    rw [h1, h2, ih t.length rfl (fun x hx => hv x (by simp [hx]))]

theorem num_lt (k : Nat) : ∀ (d : List Nat) s, d.length = s → (∀ x ∈ d, x < k) → num k d < k ^ s := by
  intro d
  induction d with
  | nil => intro s hs _; subst hs; simp [num]
  | cons a t ih =>
    intro s hs hv
    subst hs
    have ha : a < k := hv a (by simp)
    have := ih t.length rfl (fun x hx => hv x (by simp [hx]))
    simp only [num, List.length_cons, Nat.pow_succ']
    have h3 : k * (num k t + 1) ≤ k * k ^ t.length := Nat.mul_le_mul_left k this
    rw [Nat.mul_add, Nat.mul_one] at h3
    omega

theorem digits_inj (k : Nat) (hk : 0 < k) (s x q : Nat) (hx : x < k ^ s) (hq : q < k ^ s)
    (h : digits k s x = digits k s q) : x = q := by
  rw [← num_digits k hk s x hx, ← num_digits k hk s q hq, h]

/-- replacing one digit keeps a digit tuple valid -/
theorem set_valid (k : Nat) (d : List Nat) (t i : Nat) (hi : i < k) (hv : ∀ x ∈ d, x < k) :
    ∀ x ∈ d.set t i, x < k := by
  intro x hx
  rcases List.mem_or_eq_of_mem_set hx with h | h
  · exact hv x h
  · subst h; exact hi

end Dx
