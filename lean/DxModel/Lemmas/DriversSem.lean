/-
  Lemmas/DriversSem.lean — what an expression computes (compositional denotation), the relation
  "may replace" between values, and what it means for a rule system to be sound.

  The relation is a *preorder* `le` that `sem` is monotone in (`Sem`).  Two instances matter:
    * a congruence `≈` (`Congruence`: refl/symm/trans + `sem` respects it) — results equal up to row
      order / index labels where the query leaves them unspecified;
    * the definedness refinement on `Option U` (`PSem.toSem`): `a ⊒ b` iff whenever `b` is defined,
      `a` is defined with an equivalent value — "an optimized query never fails where the
      unoptimized one succeeds".
-/
import DxModel.Drivers
namespace Dx

/-- pointwise relation of two lists of the same length (core has no `List.Forall₂`) -/
inductive Forall2 {α β : Type} (r : α → β → Prop) : List α → List β → Prop where
  | nil : Forall2 r [] []
  | cons {a b l l'} : r a b → Forall2 r l l' → Forall2 r (a :: l) (b :: l')

structure Sem (V : Type) where
  /-- meaning of a node from its class, its non-expression operands and its operands' meanings -/
  sem : Nat → Nat → List V → V
  /-- `le a b`: `a` is an acceptable replacement of `b` -/
  le : V → V → Prop
  refl : ∀ a, le a a
  trans : ∀ {a b c}, le a b → le b c → le a c
  mono : ∀ c l vs ws, Forall2 le vs ws → le (sem c l vs) (sem c l ws)

variable {V : Type}

mutual
def denote (S : Sem V) : Expr → V
  | .node c l as => S.sem c l (denoteList S as)
def denoteList (S : Sem V) : List Expr → List V
  | [] => []
  | a :: t => denote S a :: denoteList S t
end

theorem denoteList_eq_map (S : Sem V) : ∀ as, denoteList S as = as.map (denote S)
  | [] => rfl
  | a :: t => by simp [denoteList, denoteList_eq_map S t]

/-- `Ref S a b`: expression `a` may replace expression `b` -/
def Ref (S : Sem V) (a b : Expr) : Prop := S.le (denote S a) (denote S b)

theorem Ref.refl (S : Sem V) (a : Expr) : Ref S a a := S.refl _
theorem Ref.trans {S : Sem V} {a b c : Expr} (h1 : Ref S a b) (h2 : Ref S b c) : Ref S a c :=
  S.trans h1 h2

theorem denoteList_forall2 (S : Sem V) : ∀ {new old : List Expr}, Forall2 (Ref S) new old →
    Forall2 S.le (denoteList S new) (denoteList S old)
  | _, _, .nil => .nil
  | _, _, .cons h t => .cons h (denoteList_forall2 S t)

/-- rebuilding a node from replaced operands: `type(expr)(*new_operands)` -/
theorem Ref.rebuild (S : Sem V) (c l : Nat) {new old : List Expr} (h : Forall2 (Ref S) new old) :
    Ref S (.node c l new) (.node c l old) := by
  unfold Ref
  simp only [denote]
  exact S.mono c l _ _ (denoteList_forall2 S h)

theorem Ref.rebuild' (S : Sem V) (e : Expr) {new : List Expr} (h : Forall2 (Ref S) new e.args) :
    Ref S (.node e.cls e.lit new) e := by
  cases e with
  | node c l as => exact Ref.rebuild S c l h

theorem forall2_map_ref (S : Sem V) (f : Expr → Expr) : ∀ as : List Expr, (∀ a, Ref S (f a) a) →
    Forall2 (Ref S) (as.map f) as
  | [], _ => .nil
  | a :: t, h => .cons (h a) (forall2_map_ref S f t h)

theorem forall2_refl (S : Sem V) : ∀ as : List Expr, Forall2 (Ref S) as as
  | [] => .nil
  | a :: t => .cons (Ref.refl S a) (forall2_refl S t)

/-- Every rule output may replace the expression the driver replaces by it: for `down`, `tuneDown`,
    `lower` the node itself, for `up`/`tuneUp` the *parent*.  `up` is sound for every dependents map
    that satisfies the side condition `P child parent deps`. -/
structure RulesSoundUnder (S : Sem V) (R : Rules) (P : Expr → Expr → Deps → Prop) : Prop where
  down_ok : ∀ e o, R.down e = some o → Ref S o e
  up_ok : ∀ c p d o, P c p d → R.up c p d = some o → Ref S o p
  tuneDown_ok : ∀ e o, R.tuneDown e = some o → Ref S o e
  tuneUp_ok : ∀ c p o, R.tuneUp c p = some o → Ref S o p
  lower_ok : ∀ e o, R.lower e = some o → Ref S o e
  fuse_ok : ∀ e, Ref S (R.fuse e) e

/-- soundness for an ARBITRARY dependents map (stale, incomplete, thinned by dead weak references) -/
def RulesSound (S : Sem V) (R : Rules) : Prop := RulesSoundUnder S R (fun _ _ _ => True)

/-- `simplified` only ever maps an expression to something that may replace it -/
def CacheSound (S : Sem V) (c : Cache) : Prop := ∀ k v, (k, v) ∈ c → Ref S v k

/-- every recorded `_simplify_up` firing saw a dependents map satisfying the side condition -/
def TraceGood (P : Expr → Expr → Deps → Prop) (tr : List Firing) : Prop :=
  ∀ f, f ∈ tr → P f.child f.parent f.deps

theorem TraceGood.trivial (tr : List Firing) : TraceGood (fun _ _ _ => True) tr := fun _ _ => True.intro

/-! ### congruences -/

/-- an equivalence on values that every operator respects -/
structure Congruence (V : Type) where
  sem : Nat → Nat → List V → V
  r : V → V → Prop
  refl : ∀ a, r a a
  symm : ∀ {a b}, r a b → r b a
  trans : ∀ {a b c}, r a b → r b c → r a c
  congr : ∀ c l vs ws, Forall2 r vs ws → r (sem c l vs) (sem c l ws)

def Congruence.toSem (C : Congruence V) : Sem V :=
  { sem := C.sem, le := C.r, refl := C.refl, trans := C.trans, mono := C.congr }

/-- equality is a congruence for every interpretation -/
def Congruence.ofEq (sem : Nat → Nat → List V → V) : Congruence V where
  sem := sem
  r := Eq
  refl := fun _ => rfl
  symm := Eq.symm
  trans := Eq.trans
  congr := by
    intro c l vs ws h
    have : vs = ws := by
      induction h with
      | nil => rfl
      | cons h _ ih => rw [h, ih]
    rw [this]

/-! ### partial semantics -/

/-- operators may fail (`none`); `eqv` is an equivalence on defined values that the operators respect
    wherever they are defined -/
structure PSem (U : Type) where
  psem : Nat → Nat → List U → Option U
  eqv : U → U → Prop
  refl : ∀ a, eqv a a
  symm : ∀ {a b}, eqv a b → eqv b a
  trans : ∀ {a b c}, eqv a b → eqv b c → eqv a c
  congr : ∀ c l vs ws v, Forall2 eqv vs ws → psem c l ws = some v →
            ∃ v', psem c l vs = some v' ∧ eqv v' v

variable {U : Type}

/-- all operands defined -/
def allSome : List (Option U) → Option (List U)
  | [] => some []
  | none :: _ => none
  | some a :: t => match allSome t with
    | some r => some (a :: r)
    | none => none

/-- `a ⊒ b`: whenever `b` is defined, `a` is defined with an equivalent value -/
def PSem.le (P : PSem U) (a b : Option U) : Prop := ∀ v, b = some v → ∃ v', a = some v' ∧ P.eqv v' v

/-- strict lifting: a node fails when an operand fails -/
def PSem.lift (P : PSem U) (c l : Nat) (ovs : List (Option U)) : Option U :=
  match allSome ovs with
  | some vs => P.psem c l vs
  | none => none

theorem allSome_le (P : PSem U) : ∀ {ovs ows : List (Option U)}, Forall2 P.le ovs ows →
    ∀ ws, allSome ows = some ws → ∃ vs, allSome ovs = some vs ∧ Forall2 P.eqv vs ws
  | _, _, .nil, ws, h => by
    simp only [allSome, Option.some.injEq] at h
    subst h
    exact ⟨[], rfl, .nil⟩
  | oa :: ot, ob :: ot', .cons hab ht, ws, h => by
    cases ob with
    | none => simp [allSome] at h
    | some b =>
      simp only [allSome] at h
      cases hr : allSome ot' with
      | none => rw [hr] at h; cases h
      | some r =>
        rw [hr] at h
        simp only [Option.some.injEq] at h
        subst h
        obtain ⟨a, ha, hav⟩ := hab b rfl
        obtain ⟨vs, hvs, hf⟩ := allSome_le P ht r hr
        subst ha
        exact ⟨a :: vs, by simp [allSome, hvs], .cons hav hf⟩

def PSem.toSem (P : PSem U) : Sem (Option U) where
  sem := P.lift
  le := P.le
  refl := fun a v h => ⟨v, h, P.refl v⟩
  trans := by
    intro a b c hab hbc v hv
    obtain ⟨v', hv', e1⟩ := hbc v hv
    obtain ⟨v'', hv'', e2⟩ := hab v' hv'
    exact ⟨v'', hv'', P.trans e2 e1⟩
  mono := by
    intro c l ovs ows h v hv
    unfold PSem.lift at hv ⊢
    cases hw : allSome ows with
    | none => rw [hw] at hv; cases hv
    | some ws =>
      rw [hw] at hv
      obtain ⟨vs, hvs, hf⟩ := allSome_le P h ws hw
      rw [hvs]
      exact P.congr c l vs ws v hf hv

/-- denotation of a query that may fail -/
def denoteP (P : PSem U) (e : Expr) : Option U := denote P.toSem e

theorem denoteP_node (P : PSem U) (c l : Nat) (as : List Expr) :
    denoteP P (.node c l as) = match allSome (as.map (denoteP P)) with
      | some vs => P.psem c l vs
      | none => none := by
  unfold denoteP
  simp only [denote, denoteList_eq_map]
  rfl

end Dx
