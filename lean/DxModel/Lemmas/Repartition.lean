/-
  Lemmas/Repartition.lean — helper lemmas for C13: boundary-merging (ToFewer), splitting (ToMore), Size.
-/
import DxModel.Layers.Repartition
namespace Dx.Repartition
open Dx

/-! ### generic list facts -/

theorem flatMap_congr' {α β} {l : List α} {f g : α → List β} (h : ∀ a ∈ l, f a = g a) :
    l.flatMap f = l.flatMap g := by
  induction l with
  | nil => rfl
  | cons a t ih =>
    simp only [List.flatMap_cons]
    rw [h a (by simp), ih (fun b hb => h b (by simp [hb]))]

theorem concatV_frames' {α} (l : List α) (f : α → List Row) :
    concatV (l.map (fun a => V.frame (f a))) = .frame (l.flatMap f) := by
  induction l with
  | nil => rfl
  | cons a t ih => simp [concatV, ih]

theorem run_dep (I : Interp) (g : Graph Key) (hg : ∀ i, g (.dep i) = none) (parts : Nat → List Row) (n i : Nat) :
    run I g (inputs parts) n (.dep i) = .frame (parts i) := by
  rw [run_undefined I g (inputs parts) (.dep i) (hg i)]; rfl

/-- a concat task over keys whose values are known frames -/
theorem eval_concat {κ} (I : Interp) (ev : κ → V) (ks : List Nat) (mk : Nat → κ) (F : Nat → List Row)
    (h : ∀ i ∈ ks, ev (mk i) = .frame (F i)) (ii : Bool) :
    evalTsk I ev (.concat (ks.map mk) ii) = .frame (ks.flatMap F) := by
  simp only [evalTsk, List.map_map]
  have : ks.map (ev ∘ mk) = ks.map (fun i => V.frame (F i)) :=
    List.map_congr_left (fun i hi => h i hi)
  rw [this, concatV_frames']

/-! ### monotone boundary lists -/

theorem mono_cons {a b : Nat} {t : List Nat} : mono (a :: b :: t) = true ↔ a ≤ b ∧ mono (b :: t) = true := by
  simp [mono]

theorem mono_le_last : ∀ (bs : List Nat) (n : Nat), mono bs = true → bs.getLast? = some n → ∀ x ∈ bs, x ≤ n := by
  intro bs
  induction bs with
  | nil => intro n _ _ x hx; cases hx
  | cons a t ih =>
    intro n hm hl x hx
    cases t with
    | nil =>
      simp at hl hx
      omega
    | cons b t' =>
      rw [List.getLast?_cons_cons] at hl
      have ⟨hab, hm'⟩ := mono_cons.mp hm
      have hb : b ≤ n := ih n hm' hl b (by simp)
      cases hx with
      | head => omega
      | tail _ hx' => exact ih n hm' hl x hx'

theorem boundariesOK_iff {bs : List Nat} {nin : Nat} :
    boundariesOK bs nin = true ↔ bs.head? = some 0 ∧ bs.getLast? = some nin ∧ mono bs = true := by
  simp [boundariesOK, and_assoc]

/-! ### RepartitionToFewer -/

theorem fewerSem_succ (s b : Nat) (t : List Nat) (parts : Nat → List Row) (j : Nat) :
    fewerSem (s :: b :: t) parts (j+1) = fewerSem (b :: t) parts j := by
  simp [fewerSem]

/-- consecutive boundary ranges concatenate to the whole range -/
theorem fewer_concat_aux (parts : Nat → List Row) :
    ∀ (bs : List Nat) (s e : Nat), bs.head? = some s → bs.getLast? = some e → mono bs = true →
      s ≤ e ∧ (List.range (bs.length - 1)).flatMap (fewerSem bs parts) = (List.range' s (e - s)).flatMap parts := by
  intro bs
  induction bs with
  | nil => intro s e hs; cases hs
  | cons x t ih =>
    intro s e hs he hm
    simp at hs
    subst hs
    cases t with
    | nil =>
      simp at he
      subst he
      simp
    | cons y t' =>
      rw [List.getLast?_cons_cons] at he
      have ⟨hxy, hm'⟩ := mono_cons.mp hm
      have ⟨hye, ih'⟩ := ih y e (by simp) he hm'
      refine ⟨by omega, ?_⟩
      have hlen : (x :: y :: t').length - 1 = t'.length + 1 := by simp
      rw [hlen, List.range_succ_eq_map, List.flatMap_cons, List.flatMap_map]
      have h0 : fewerSem (x :: y :: t') parts 0 = (List.range' x (y - x)).flatMap parts := by simp [fewerSem]
      rw [h0]
      have hrest : (List.range t'.length).flatMap (fun a => fewerSem (x :: y :: t') parts a.succ) =
          (List.range' y (e - y)).flatMap parts := by
        have : (fun a => fewerSem (x :: y :: t') parts (Nat.succ a)) = fewerSem (y :: t') parts := by
          funext a; exact fewerSem_succ x y t' parts a
        rw [this]
        simpa using ih'
      rw [hrest, ← List.flatMap_append]
      congr 1
      have := @List.range'_append x (y - x) (e - y) 1
      have h1 : x + 1 * (y - x) = y := by omega
      have h2 : y - x + (e - y) = e - x := by omega
      rw [h1, h2] at this
      exact this

theorem fewer_concat (parts : Nat → List Row) (bs : List Nat) (nin : Nat) (h : boundariesOK bs nin = true) :
    (List.range (bs.length - 1)).flatMap (fewerSem bs parts) = (List.range nin).flatMap parts := by
  have ⟨h0, hl, hm⟩ := boundariesOK_iff.mp h
  have := (fewer_concat_aux parts bs 0 nin h0 hl hm).2
  rw [this, List.range_eq_range']
  simp

theorem run_fewer (I : Interp) (bs : List Nat) (parts : Nat → List Row) (j : Nat) (hj : j + 1 < bs.length) :
    run I (fewerTask bs) (inputs parts) 1 (.out j) = .frame (fewerSem bs parts j) := by
  have hs : bs[j]? = some bs[j] := List.getElem?_eq_getElem (by omega)
  have he : bs[j+1]? = some bs[j+1] := List.getElem?_eq_getElem hj
  rw [run_succ]
  simp only [fewerTask, fewerSem, hs, he]
  exact eval_concat I _ _ Key.dep parts (fun i _ => run_dep I _ (fun _ => rfl) parts 0 i) false


/-! ### `_divisions` of RepartitionToFewer, `_nsplits` of RepartitionToMore -/

theorem fewerDivisions_spec (din : List Int) : ∀ (bs : List Nat) (d : List Int), fewerDivisions din bs = some d →
    d.length = bs.length ∧ ∀ (j i : Nat), bs[j]? = some i → d[j]? = din[i]? := by
  intro bs
  induction bs with
  | nil =>
    intro d h
    simp [fewerDivisions] at h
    subst h
    exact ⟨rfl, fun j i hj => by simp at hj⟩
  | cons i0 t ih =>
    intro d h
    unfold fewerDivisions at h
    cases hx : din[i0]? with
    | none => simp [hx] at h
    | some x =>
      cases hr : fewerDivisions din t with
      | none => simp [hx, hr] at h
      | some r =>
        simp only [hx, hr, Option.some.injEq] at h
        subst h
        have ⟨hl, hsp⟩ := ih r hr
        refine ⟨by simp [hl], ?_⟩
        intro j i hj
        cases j with
        | zero => simp at hj; subst hj; simp [hx]
        | succ j => simp at hj; simpa using hsp j i hj

theorem fewerDivisions_some (din : List Int) : ∀ (bs : List Nat), (∀ x ∈ bs, x < din.length) →
    ∃ d, fewerDivisions din bs = some d := by
  intro bs
  induction bs with
  | nil => intro _; exact ⟨[], rfl⟩
  | cons i0 t ih =>
    intro h
    obtain ⟨r, hr⟩ := ih (fun x hx => h x (by simp [hx]))
    have hi0 : i0 < din.length := h i0 (by simp)
    exact ⟨din[i0] :: r, by simp [fewerDivisions, List.getElem?_eq_getElem hi0, hr]⟩

theorem sum_append (l1 l2 : List Nat) : sum (l1 ++ l2) = sum l1 + sum l2 := by
  induction l1 with
  | nil => simp [sum]
  | cons a t ih => simp [sum, ih]; omega

theorem sum_replicate (m d : Nat) : sum (List.replicate m d) = m * d := by
  induction m with
  | zero => simp [sum]
  | succ m ih => simp [List.replicate_succ, sum, ih, Nat.succ_mul]; omega

theorem nsplits_spec (nout nin : Nat) (h1 : 1 ≤ nin) (h2 : nin ≤ nout) :
    ∃ ns, nsplits nout nin = .ok ns ∧ (∀ k ∈ ns, 1 ≤ k) ∧ ns.length = nin ∧ sum ns = nout := by
  have hq : 1 ≤ nout / nin := Nat.div_pos h2 h1
  refine ⟨List.replicate (nin - 1) (nout / nin) ++ [nout / nin + nout % nin], ?_, ?_, ?_, ?_⟩
  · have : nin ≠ 0 := by omega
    simp [nsplits, this]
  · intro k hk
    simp only [List.mem_append, List.mem_replicate, List.mem_singleton] at hk
    rcases hk with ⟨_, rfl⟩ | rfl <;> omega
  · simp; omega
  · rw [sum_append, sum_replicate]
    simp only [sum]
    obtain ⟨m, rfl⟩ : ∃ m, nin = m + 1 := ⟨nin - 1, by omega⟩
    have := Nat.div_add_mod nout (m + 1)
    rw [Nat.succ_mul] at this
    simp only [Nat.add_sub_cancel]
    omega

theorem strictMono_cons {a b : Nat} {t : List Nat} :
    strictMono (a :: b :: t) = true ↔ a < b ∧ strictMono (b :: t) = true := by
  simp [strictMono]

theorem strictMono_pairwise : ∀ (bs : List Nat), strictMono bs = true → bs.Pairwise (· < ·) := by
  intro bs
  induction bs with
  | nil => intro _; exact List.Pairwise.nil
  | cons a t ih =>
    intro h
    cases t with
    | nil => simp
    | cons b t' =>
      have ⟨hab, h'⟩ := strictMono_cons.mp h
      have ht := ih h'
      rw [List.pairwise_cons]
      refine ⟨?_, ht⟩
      intro c hc
      cases hc with
      | head => exact hab
      | tail _ hc' =>
        have := (List.pairwise_cons.mp ht).1 c hc'
        omega

/-! ### split_evenly: pieces cover the input -/

theorem take_take_drop {α} (l : List α) (a b : Nat) (h : a ≤ b) :
    l.take a ++ (l.drop a).take (b - a) = l.take b := by
  have := @List.take_add α l a (b - a)
  rw [← this]
  congr 1
  omega

theorem even_prefix (rows : List Row) (k : Nat) :
    ∀ m, (List.range m).flatMap (evenPiece rows k) = rows.take (rows.length * m / k) := by
  intro m
  induction m with
  | zero => simp
  | succ m ih =>
    rw [List.range_succ, List.flatMap_append, ih, List.flatMap_singleton]
    unfold evenPiece
    apply take_take_drop
    apply Nat.div_le_div_right
    apply Nat.mul_le_mul_left
    omega

/-- `(splitEvenlySpec rows k).flatten = rows`: the only fact about `split_evenly` the theorems use -/
theorem even_cover (rows : List Row) (k : Nat) (hk : 1 ≤ k) :
    (List.range k).flatMap (evenPiece rows k) = rows := by
  rw [even_prefix rows k k]
  have : rows.length * k / k = rows.length := Nat.mul_div_cancel _ (by omega)
  rw [this, List.take_length]

theorem splitEvenlySpec_eq (rows : List Row) (k : Nat) :
    splitEvenlySpec rows k = (List.range k).map (evenPiece rows k) := rfl

theorem splitEvenly_flatten (rows : List Row) (k : Nat) (hk : 1 ≤ k) :
    (splitEvenlySpec rows k).flatten = rows := by
  rw [splitEvenlySpec_eq, List.flatten_eq_flatMap, List.flatMap_map]
  exact even_cover rows k hk

theorem evenPiece_one (rows : List Row) : evenPiece rows 1 0 = rows := by
  simp [evenPiece]

theorem nthPiece_getElem? : ∀ (l : List (List Row)) (i : Nat),
    nthPiece l i = (match l[i]? with | some p => .frame p | none => .err) := by
  intro l
  induction l with
  | nil => intro i; simp [nthPiece]
  | cons p t ih =>
    intro i
    cases i with
    | zero => simp [nthPiece]
    | succ i => simp [nthPiece, ih i]

theorem nthPiece_spec (rows : List Row) (k jj : Nat) (h : jj < k) :
    nthPiece (splitEvenlySpec rows k) jj = .frame (evenPiece rows k jj) := by
  rw [nthPiece_getElem?, splitEvenlySpec_eq]
  simp [h]

/-- arbitrary monotone cut points (what the real `split_evenly` is checked against): segment `j` -/
def seg (cuts : List Nat) (rows : List Row) (j : Nat) : List Row :=
  match cuts[j]?, cuts[j+1]? with
  | some s, some e => (rows.drop s).take (e - s)
  | _, _ => []

theorem seg_cover_aux (rows : List Row) :
    ∀ (cuts : List Nat) (s e : Nat), cuts.head? = some s → cuts.getLast? = some e → mono cuts = true →
      s ≤ e ∧ (List.range (cuts.length - 1)).flatMap (seg cuts rows) = (rows.drop s).take (e - s) := by
  intro cuts
  induction cuts with
  | nil => intro s e hs; cases hs
  | cons x t ih =>
    intro s e hs he hm
    simp at hs
    subst hs
    cases t with
    | nil =>
      simp at he
      subst he
      simp
    | cons y t' =>
      rw [List.getLast?_cons_cons] at he
      have ⟨hxy, hm'⟩ := mono_cons.mp hm
      have ⟨hye, ih'⟩ := ih y e (by simp) he hm'
      refine ⟨by omega, ?_⟩
      have hlen : (x :: y :: t').length - 1 = t'.length + 1 := by simp
      rw [hlen, List.range_succ_eq_map, List.flatMap_cons, List.flatMap_map]
      have h0 : seg (x :: y :: t') rows 0 = (rows.drop x).take (y - x) := by simp [seg]
      rw [h0]
      have hrest : (List.range t'.length).flatMap (fun a => seg (x :: y :: t') rows a.succ) =
          (rows.drop y).take (e - y) := by
        have : (fun a => seg (x :: y :: t') rows (Nat.succ a)) = seg (y :: t') rows := by
          funext a; simp [seg]
        rw [this]
        simpa using ih'
      rw [hrest]
      have := @List.take_add Row (rows.drop x) (y - x) (e - y)
      rw [List.drop_drop] at this
      have h1 : x + (y - x) = y := by omega
      have h2 : y - x + (e - y) = e - x := by omega
      rw [h1, h2] at this
      exact this.symm

/-- pieces cut at any monotone list from 0 to `len` concatenate to the input -/
theorem seg_cover (rows : List Row) (cuts : List Nat) (h : boundariesOK cuts rows.length = true) :
    (List.range (cuts.length - 1)).flatMap (seg cuts rows) = rows := by
  have ⟨h0, hl, hm⟩ := boundariesOK_iff.mp h
  have := (seg_cover_aux rows cuts 0 rows.length h0 hl hm).2
  rw [this]
  simp

/-! ### RepartitionToMore -/

theorem locate_lt (k : Nat) (ks : List Nat) (i j : Nat) (h : j < k) : locate (k :: ks) i j = some (i, j, k) := by
  simp [locate, h]

theorem locate_ge (k : Nat) (ks : List Nat) (i j : Nat) : locate (k :: ks) i (k + j) = locate ks (i+1) j := by
  have : ¬ (k + j < k) := by omega
  simp [locate, this]

theorem locate_spec : ∀ (ns : List Nat) (i0 j i jj k : Nat), locate ns i0 j = some (i, jj, k) →
    i0 ≤ i ∧ ns[i - i0]? = some k ∧ jj < k := by
  intro ns
  induction ns with
  | nil => intro i0 j i jj k h; simp [locate] at h
  | cons k' ks ih =>
    intro i0 j i jj k h
    by_cases hj : j < k'
    · rw [locate_lt k' ks i0 j hj] at h
      simp at h
      obtain ⟨rfl, rfl, rfl⟩ := h
      simp [hj]
    · have : j = k' + (j - k') := by omega
      rw [this, locate_ge] at h
      have ⟨h1, h2, h3⟩ := ih (i0+1) (j - k') i jj k h
      refine ⟨by omega, ?_, h3⟩
      have : i - i0 = (i - (i0 + 1)) + 1 := by omega
      rw [this, List.getElem?_cons_succ]
      exact h2

theorem locate_some_of_lt : ∀ (ns : List Nat) (i0 j : Nat), j < sum ns → ∃ loc, locate ns i0 j = some loc := by
  intro ns
  induction ns with
  | nil => intro i0 j h; simp [sum] at h
  | cons k ks ih =>
    intro i0 j h
    by_cases hj : j < k
    · exact ⟨_, locate_lt k ks i0 j hj⟩
    · have hj' : j = k + (j - k) := by omega
      rw [hj', locate_ge]
      apply ih
      simp [sum] at h
      omega

/-- abstract version of the splitting semantics: `pc i k jj` is piece `jj` of the `k` pieces of input `i` -/
def moreSemP (pc : Nat → Nat → Nat → List Row) (ns : List Nat) (i0 : Nat) (j : Nat) : List Row :=
  match locate ns i0 j with
  | some (i, jj, k) => pc i k jj
  | none => []

/-- Outputs of a splitting layer concatenate to the inputs, for *any* piece function whose pieces cover
    their input (this is all that is used of `split_evenly`). -/
theorem more_concat_P (pc : Nat → Nat → Nat → List Row) (parts : Nat → List Row)
    (hcover : ∀ i k, 1 ≤ k → (List.range k).flatMap (pc i k) = parts i) :
    ∀ (ns : List Nat) (i0 : Nat), (∀ k ∈ ns, 1 ≤ k) →
      (List.range (sum ns)).flatMap (moreSemP pc ns i0) = (List.range' i0 ns.length).flatMap parts := by
  intro ns
  induction ns with
  | nil => intro i0 _; simp [sum]
  | cons k ks ih =>
    intro i0 hk
    have hk1 : 1 ≤ k := hk k (by simp)
    simp only [sum]
    rw [List.range_add, List.flatMap_append, List.flatMap_map]
    have hfirst : (List.range k).flatMap (moreSemP pc (k :: ks) i0) = parts i0 := by
      rw [← hcover i0 k hk1]
      apply flatMap_congr'
      intro j hj
      simp [moreSemP, locate_lt k ks i0 j (List.mem_range.mp hj)]
    have hsecond : (List.range (sum ks)).flatMap (fun a => moreSemP pc (k :: ks) i0 (k + a)) =
        (List.range' (i0+1) ks.length).flatMap parts := by
      rw [← ih (i0+1) (fun k' hk' => hk k' (by simp [hk']))]
      apply flatMap_congr'
      intro j _
      simp [moreSemP, locate_ge]
    rw [hfirst, hsecond]
    simp [List.range'_succ]

theorem moreSemFrom_eq (ns : List Nat) (i0 : Nat) (parts : Nat → List Row) :
    moreSemFrom ns i0 parts = moreSemP (fun i k jj => evenPiece (parts i) k jj) ns i0 := by
  funext j
  unfold moreSemFrom moreSemP
  cases locate ns i0 j with
  | none => rfl
  | some p => obtain ⟨i, jj, k⟩ := p; rfl

theorem more_concat (parts : Nat → List Row) (ns : List Nat) (h : ∀ k ∈ ns, 1 ≤ k) :
    (List.range (sum ns)).flatMap (moreSem ns parts) = (List.range ns.length).flatMap parts := by
  unfold moreSem
  rw [moreSemFrom_eq, more_concat_P _ parts (fun i k hk => even_cover (parts i) k hk) ns 0 h,
    List.range_eq_range']

theorem run_more (I : Interp) (ns : List Nat) (parts : Nat → List Row) (j : Nat) (hj : j < sum ns) :
    run I (moreTask ns) (inputs parts) 2 (.out j) = .frame (moreSem ns parts j) := by
  obtain ⟨⟨i, jj, k⟩, hloc⟩ := locate_some_of_lt ns 0 j hj
  have ⟨_, hns, hjj⟩ := locate_spec ns 0 j i jj k hloc
  simp only [Nat.sub_zero] at hns
  have hdep : ∀ n i, run I (moreTask ns) (inputs parts) n (.dep i) = .frame (parts i) :=
    fun n i => run_dep I _ (fun _ => rfl) parts n i
  rw [run_succ]
  simp only [moreTask, moreSem, moreSemFrom, hloc]
  by_cases hk : k = 1
  · subst hk
    have : jj = 0 := by omega
    subst this
    simp only [if_true, evalTsk, hdep, evenPiece_one]
  · simp only [hk, if_false, evalTsk]
    have hsplit : run I (moreTask ns) (inputs parts) 1 (.split i) = .pieces (splitEvenlySpec (parts i) k) := by
      rw [run_succ]
      simp only [moreTask, hns, hk, if_false, evalTsk, hdep]
    rw [hsplit]
    exact nthPiece_spec (parts i) k jj hjj

/-! ### RepartitionSize -/

theorem run_size_piece (I : Interp) (ns bs : List Nat) (parts : Nat → List Row) (ha : anySplit ns = true)
    (j : Nat) (hj : j < sum ns) (n : Nat) :
    run I (sizeTask ns bs) (inputs parts) (n+2) (.piece j) = .frame (moreSem ns parts j) := by
  obtain ⟨⟨i, jj, k⟩, hloc⟩ := locate_some_of_lt ns 0 j hj
  have ⟨_, hns, hjj⟩ := locate_spec ns 0 j i jj k hloc
  simp only [Nat.sub_zero] at hns
  have hdep : ∀ n i, run I (sizeTask ns bs) (inputs parts) n (.dep i) = .frame (parts i) :=
    fun n i => run_dep I _ (fun _ => rfl) parts n i
  rw [run_succ]
  simp only [sizeTask, ha, if_true, moreSem, moreSemFrom, hloc]
  by_cases hk : k = 1
  · subst hk
    have : jj = 0 := by omega
    subst this
    simp only [if_true, evalTsk, hdep, evenPiece_one]
  · simp only [hk, if_false, evalTsk]
    have hsplit : run I (sizeTask ns bs) (inputs parts) (n+1) (.split i) = .pieces (splitEvenlySpec (parts i) k) := by
      rw [run_succ]
      simp only [sizeTask, ha, if_true, hns, hk, if_false, evalTsk, hdep]
    rw [hsplit]
    exact nthPiece_spec (parts i) k jj hjj

theorem run_size (I : Interp) (ns bs : List Nat) (parts : Nat → List Row) (j : Nat) (hj : j + 1 < bs.length)
    (hb : ∀ x ∈ bs, anySplit ns = true → x ≤ sum ns) :
    run I (sizeTask ns bs) (inputs parts) 3 (.out j) = .frame (fewerSem bs (sizeMid ns parts) j) := by
  have hs : bs[j]? = some bs[j] := List.getElem?_eq_getElem (by omega)
  have he : bs[j+1]? = some bs[j+1] := List.getElem?_eq_getElem hj
  rw [run_succ]
  simp only [sizeTask, fewerSem, hs, he, sizeMid]
  by_cases ha : anySplit ns = true
  · simp only [ha, if_true]
    apply eval_concat
    intro i hi
    have hlt := List.mem_range'_1.mp hi
    have hle : bs[j+1] ≤ sum ns := hb _ (List.getElem_mem hj) ha
    exact run_size_piece I ns bs parts ha i (by omega) 0
  · simp only [ha]
    apply eval_concat
    intro i _
    exact run_dep I _ (fun _ => rfl) parts 2 i

end Dx.Repartition
