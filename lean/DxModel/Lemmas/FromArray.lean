/-
  Lemmas/FromArray.lean — `FromArray._divisions` / `_filtered_task` for every array length, chunk size
  and partition number: the index range built from the UNFILTERED divisions has exactly the length of the
  data slice, and row at array position `p` gets index label `p`.
-/
import DxModel.Layers.Partitions
import DxModel.Lemmas.RepartitionDiv
namespace Dx.Parts
open Dx Dx.Repartition

/-- number of chunks: `len(range(0, len, cs))` -/
def nChunks (len cs : Nat) : Nat := (len + cs - 1) / cs

theorem nChunks_bounds (len cs : Nat) (hcs : 1 ≤ cs) (hm : 1 ≤ nChunks len cs) :
    len ≤ nChunks len cs * cs ∧ (nChunks len cs - 1) * cs < len := by
  unfold nChunks at *
  have h1 := Nat.div_add_mod (len + cs - 1) cs
  have h2 := Nat.mod_lt (len + cs - 1) (by omega : cs > 0)
  generalize hq : (len + cs - 1) / cs = q at *
  generalize hr : (len + cs - 1) % cs = r at *
  have hc : cs * q = q * cs := Nat.mul_comm _ _
  have hsub : (q - 1) * cs = q * cs - cs := by
    rw [Nat.sub_mul, Nat.one_mul]
  have hqc : cs ≤ q * cs := by
    calc cs = 1 * cs := (Nat.one_mul cs).symm
      _ ≤ q * cs := Nat.mul_le_mul_right cs hm
  constructor
  · omega
  · omega

theorem pyRange_length (len cs : Nat) : (pyRange len cs).length = nChunks len cs := by
  simp [pyRange, nChunks]

theorem pyRange_getElem? (len cs i : Nat) (hi : i < nChunks len cs) : (pyRange len cs)[i]? = some (i * cs) := by
  unfold pyRange nChunks at *
  simp [hi]

theorem faDivisions_length (len cs : Nat) : (faDivisions len cs).length = nChunks len cs + 1 := by
  simp [faDivisions, pyRange_length]

theorem faDivisions_lo (len cs i : Nat) (hi : i < nChunks len cs) :
    (faDivisions len cs)[i]? = some ((i * cs : Nat) : Int) := by
  unfold faDivisions
  rw [List.getElem?_append_left (by simpa [pyRange_length] using hi)]
  simp [pyRange_getElem? len cs i hi]

theorem faDivisions_last (len cs : Nat) :
    (faDivisions len cs)[nChunks len cs]? = some ((len : Int) - 1) := by
  unfold faDivisions
  rw [List.getElem?_append_right (by simp [pyRange_length])]
  simp [pyRange_length]

/-- number of rows of chunk `i` -/
def chunkLen (len cs i : Nat) : Nat := min cs (len - i * cs)

theorem faIdx_spec (len cs i : Nat) (hcs : 1 ≤ cs) (hi : i < nChunks len cs) :
    faIdx len cs i = some ((List.range (chunkLen len cs i)).map (fun (t : Nat) => ((i * cs : Nat) : Int) + (t : Int))) := by
  have ⟨hA, hB⟩ := nChunks_bounds len cs hcs (by omega)
  unfold faIdx
  simp only [faDivisions_lo len cs i hi, faDivisions_length]
  by_cases hlast : i + 1 = nChunks len cs
  · -- last chunk: stop = (len - 1) + 1
    have hd : (faDivisions len cs)[i + 1]? = some ((len : Int) - 1) := by rw [hlast]; exact faDivisions_last len cs
    have h2 : i + 2 = nChunks len cs + 1 := by omega
    simp only [hd, h2, if_true]
    have hic : i * cs = (nChunks len cs - 1) * cs := by rw [← hlast]; simp
    have hle : i * cs < len := by omega
    have hmc : nChunks len cs * cs = i * cs + cs := by rw [← hlast, Nat.add_mul, Nat.one_mul]
    have : ((len : Int) - 1 + 1 - ((i * cs : Nat) : Int)).toNat = chunkLen len cs i := by
      unfold chunkLen; omega
    rw [this]
  · have hlt : i + 1 < nChunks len cs := by omega
    have hd : (faDivisions len cs)[i + 1]? = some (((i + 1) * cs : Nat) : Int) := faDivisions_lo len cs (i+1) hlt
    have h2 : ¬ (i + 2 = nChunks len cs + 1) := by omega
    simp only [hd, h2, if_false]
    have hmono : (i + 1) * cs ≤ (nChunks len cs - 1) * cs := Nat.mul_le_mul_right cs (by omega)
    have hexp : (i + 1) * cs = i * cs + cs := by rw [Nat.add_mul, Nat.one_mul]
    have : ((((i + 1) * cs : Nat) : Int) - ((i * cs : Nat) : Int)).toNat = chunkLen len cs i := by
      unfold chunkLen; omega
    rw [this]

theorem faData_spec (len cs i : Nat) : faData len cs i = (List.range (chunkLen len cs i)).map (fun t => i * cs + t) := by
  unfold faData chunkLen
  apply List.ext_getElem?
  intro t
  simp only [List.getElem?_take, List.getElem?_drop, List.getElem?_map]
  by_cases h1 : t < cs
  · by_cases h2 : i * cs + t < len
    · have : t < min cs (len - i * cs) := by omega
      simp [h1, h2, this]
    · have : ¬ t < min cs (len - i * cs) := by omega
      simp [h1, h2, this]
  · have : ¬ t < min cs (len - i * cs) := by omega
    simp [h1, this]

/-- **FromArray**: partition `i` (an index of the UNFILTERED collection) holds the array positions
    `[i*cs, i*cs + chunkLen)`, each labelled with its own position; the constructor never fails. -/
theorem faRows_spec (len cs i : Nat) (hcs : 1 ≤ cs) (hi : i < nChunks len cs) :
    faRows len cs i = some ((List.range (chunkLen len cs i)).map
      (fun t => ({ idx := ((i * cs + t : Nat) : Int), tgt := 0, pay := i * cs + t } : Row))) := by
  unfold faRows
  rw [faIdx_spec len cs i hcs hi, faData_spec]
  simp only [List.length_map, List.length_range, if_true]
  congr 1
  rw [List.zip_map', List.map_map]
  apply List.map_congr_left
  intro t _
  simp

/-- the reported divisions are truthful for the rows the tasks build -/
theorem faDivInv (len cs : Nat) (hcs : 1 ≤ cs) (hlen : 1 ≤ len) :
    DivInv (faDivisions len cs) (nChunks len cs) (fun i => (faRows len cs i).getD []) := by
  have hm : 1 ≤ nChunks len cs := by
    unfold nChunks
    exact (Nat.le_div_iff_mul_le (by omega)).mpr (by omega)
  have ⟨hA, hB⟩ := nChunks_bounds len cs hcs hm
  have hval : ∀ i, i ≤ nChunks len cs → ∃ v, (faDivisions len cs)[i]? = some v ∧
      (i < nChunks len cs → v = ((i * cs : Nat) : Int)) ∧ (i = nChunks len cs → v = (len : Int) - 1) := by
    intro i hi
    by_cases h : i < nChunks len cs
    · exact ⟨_, faDivisions_lo len cs i h, fun _ => rfl, fun e => by omega⟩
    · have e : i = nChunks len cs := by omega
      subst e
      exact ⟨_, faDivisions_last len cs, fun h' => by omega, fun _ => rfl⟩
  refine ⟨faDivisions_length len cs, ?_, ?_, ?_⟩
  · rw [List.pairwise_iff_getElem]
    intro a b ha hb hab
    rw [faDivisions_length] at ha hb
    obtain ⟨va, hva, hva1, _⟩ := hval a (by omega)
    obtain ⟨vb, hvb, hvb1, hvb2⟩ := hval b (by omega)
    rw [List.getElem?_eq_getElem (by rw [faDivisions_length]; omega)] at hva hvb
    cases hva; cases hvb
    have e1 := hva1 (by omega)
    have hac : a * cs ≤ (nChunks len cs - 1) * cs := Nat.mul_le_mul_right cs (by omega)
    by_cases hbl : b < nChunks len cs
    · have e2 := hvb1 hbl
      have : a * cs ≤ b * cs := Nat.mul_le_mul_right cs (by omega)
      omega
    · have e2 := hvb2 (by omega)
      omega
  · intro i lo hi hlo hhi r hr
    have hi1 : i + 1 < (faDivisions len cs).length := (List.getElem?_eq_some_iff.mp hhi).1
    rw [faDivisions_length] at hi1
    have hil : i < nChunks len cs := by omega
    rw [faDivisions_lo len cs i hil] at hlo
    cases hlo
    simp only [faRows_spec len cs i hcs hil, Option.getD_some, List.mem_map, List.mem_range] at hr
    obtain ⟨t, ht, rfl⟩ := hr
    simp only
    unfold chunkLen at ht
    refine ⟨by omega, ?_⟩
    by_cases hlast : i + 1 = nChunks len cs
    · rw [hlast, faDivisions_last] at hhi
      cases hhi
      rw [faDivisions_length]
      by_cases he : i * cs + t + 1 = len
      · right; exact ⟨by omega, by omega⟩
      · left; omega
    · rw [faDivisions_lo len cs (i+1) (by omega)] at hhi
      cases hhi
      left
      have hexp : (i + 1) * cs = i * cs + cs := by rw [Nat.add_mul, Nat.one_mul]
      omega
  · intro i hi
    simp only [faRows_spec len cs i hcs hi, Option.getD_some]
    rw [List.pairwise_map, List.pairwise_iff_getElem]
    intro a b ha hb hab
    simp only [List.getElem_range]
    omega

end Dx.Parts
