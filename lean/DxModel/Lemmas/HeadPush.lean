/-
  Lemmas/HeadPush.lean — semantic core of the push-down rules:
    Head / Tail through an elementwise operation (all row-aligned operands wrapped with the same (n, k)),
    Partitions through a Blockwise operation with broadcast operands (graph level).
-/
import DxModel.Lemmas.Blockwise
import DxModel.Lemmas.Head
namespace Dx
open Blockwise

/-- `G` commutes with taking a common prefix of co-partitioned (equally long) operands — the defining
    property of a row-local (elementwise) operation with respect to `head` -/
def TakeCommutes (G : (Nat → List Row) → List Row) : Prop :=
  ∀ xs n, CoLen xs → G (fun d => (xs d).take n) = (G xs).take n

/-- the last `n` rows -/
def lastN {α} (n : Nat) (l : List α) : List α := l.drop (l.length - n)

def LastCommutes (G : (Nat → List Row) → List Row) : Prop :=
  ∀ xs n, CoLen xs → G (fun d => lastN n (xs d)) = lastN n (G xs)

theorem takeCommutes_map (g : Row → Row) : TakeCommutes (fun xs => (xs 0).map g) := by
  intro xs n _
  simp [List.map_take]

theorem takeCommutes_zipWith (g : Row → Row → Row) : TakeCommutes (fun xs => List.zipWith g (xs 0) (xs 1)) := by
  intro xs n _
  simp [List.take_zipWith]

theorem lastCommutes_map (g : Row → Row) : LastCommutes (fun xs => (xs 0).map g) := by
  intro xs n _
  simp [lastN, List.map_drop]

theorem lastCommutes_zipWith (g : Row → Row → Row) : LastCommutes (fun xs => List.zipWith g (xs 0) (xs 1)) := by
  intro xs n h
  have h01 := h 0 1
  simp only [lastN, List.drop_zipWith, List.length_zipWith, h01, Nat.min_self]

/-- **Head through an elementwise operation**: applying the operation to the heads (`n` rows of the `k`
    leading partitions) of all row-aligned operands gives the head of the operation's result. -/
theorem head_push_sem (G : (Nat → List Row) → List Row) (hA : Additive G) (hT : TakeCommutes G)
    (rows : Nat → Nat → List Row) (hco : ∀ i, CoLen (fun d => rows d i)) (n k : Nat) :
    G (fun d => ((List.range k).flatMap (rows d)).take n) =
      ((List.range k).flatMap (fun i => G (fun d => rows d i))).take n := by
  rw [hT _ n (coLen_flatMap rows hco k), ← additive_concat G hA rows hco k]

/-- **Tail through an elementwise operation** -/
theorem tail_push_sem (G : (Nat → List Row) → List Row) (hL : LastCommutes G)
    (rows : Nat → Nat → List Row) (hco : ∀ i, CoLen (fun d => rows d i)) (n last : Nat) :
    G (fun d => lastN n (rows d last)) = lastN n (G (fun d => rows d last)) :=
  hL _ n (hco last)

/-! ### Partitions through Blockwise (graph level) -/

/-- the operands after `Partitions._simplify_down`: the non-broadcast dependencies now have `m` partitions -/
def wrapArg (p : Params) (m : Nat) : Arg → Arg
  | .expr d np nd => if broadcastDep p np nd then .expr d np nd else .expr d m nd
  | .lit s => .lit s

def pushed (p : Params) (m : Nat) : Params := { p with n := m, args := p.args.map (wrapArg p m) }

/-- values of the dependencies of the pushed node: `Partitions(dep, P)` for the wrapped ones -/
def selVals (bc : Nat → Bool) (P : List Nat) (vals : Nat → Nat → V) : Nat → Nat → V :=
  fun d i => if bc d then vals d i else match P[i]? with
    | some q => vals d q
    | none => .err

theorem pushed_argVal (p : Params) (P : List Nat) (bc : Nat → Bool) (vals : Nat → Nat → V) (j : Nat)
    (hj : j < P.length) (a : Arg)
    (hbc : ∀ d np nd, a = Arg.expr d np nd → bc d = broadcastDep p np nd) :
    argVal (pushed p P.length) (selVals bc P vals) j (wrapArg p P.length a) = argVal p vals P[j] a := by
  cases a with
  | lit s => rfl
  | expr d np nd =>
    have hb := hbc d np nd rfl
    cases hbd : broadcastDep p np nd with
    | true =>
      have hbd' : broadcastDep (pushed p P.length) np nd = true := hbd
      simp [wrapArg, hbd, argVal, hbd', selVals, hb]
    | false =>
      simp only [wrapArg, hbd, Bool.false_eq_true, if_false, argVal, selVals, hb]
      by_cases hb1 : broadcastDep (pushed p P.length) P.length nd = true
      · -- the selection has a single partition: j = 0
        have hP1 : P.length = 1 := by
          simp only [broadcastDep, Bool.and_eq_true, beq_iff_eq] at hb1
          exact hb1.1
        have hj0 : j = 0 := by omega
        subst hj0
        simp [hb1, List.getElem?_eq_getElem hj]
      · simp [hb1, List.getElem?_eq_getElem hj]

theorem filterMap_congr' {α β} {f g : α → Option β} : ∀ {l : List α}, (∀ a ∈ l, f a = g a) →
    l.filterMap f = l.filterMap g := by
  intro l
  induction l with
  | nil => intro _; rfl
  | cons a t ih =>
    intro h
    rw [List.filterMap_cons, List.filterMap_cons, h a (List.mem_cons_self ..),
      ih (fun x hx => h x (List.mem_cons_of_mem _ hx))]

/-- **Partitions through Blockwise**: output `j` of the operation applied to the selected partitions of
    its non-broadcast operands is output `P[j]` of the operation itself. -/
theorem partitions_blockwise (I : Interp) (p : Params) (P : List Nat) (bc : Nat → Bool) (vals : Nat → Nat → V)
    (hbc : ∀ d np nd, Arg.expr d np nd ∈ p.args → bc d = broadcastDep p np nd)
    (hP : ∀ q ∈ P, q < p.n) (F j : Nat) (hj : j < P.length) :
    run I (layer (pushed p P.length)) (inputs (selVals bc P vals)) (F+1) (.out j) =
      run I (layer p) (inputs vals) (F+1) (.out P[j]) := by
  rw [bw_run_out I (pushed p P.length) _ F j (by simpa [pushed] using hj),
      bw_run_out I p vals F P[j] (hP _ (List.getElem_mem hj))]
  congr 1
  show (p.args.map (wrapArg p P.length)).filterMap _ = _
  rw [List.filterMap_map]
  apply filterMap_congr'
  intro a ha
  exact pushed_argVal p P bc vals j hj a (fun d np nd e => hbc d np nd (e ▸ ha))

end Dx
