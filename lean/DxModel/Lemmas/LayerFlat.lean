/-
  Lemmas/LayerFlat.lean — `LayerWF` of every flat generator of Layers/Flat.lean, for all parameters.
  One generic theorem (`flat_wf`: a flat layer is well formed iff its references are in bounds) plus, per
  generator, the proof that its references ARE in bounds (under the guard the class relies on, if any).
-/
import DxModel.LayerOK
import DxModel.Layers.Flat
namespace Dx
namespace Flat

/-- the classification of the keys of a flat layer -/
def spec (ents : List Ent) : LSpec Key :=
  { task := layer ents
    nout := ents.length
    out := Key.out
    outIdx := fun k => match k with | .out j => some j | .dep _ _ => none
    depOf := fun k => match k with | .dep d i => some (d, i) | .out _ => none
    rank := fun _ => 0
    bound := 0 }

theorem layer_out_isSome (ents : List Ent) (j : Nat) : (layer ents (.out j)).isSome ↔ j < ents.length := by
  simp only [layer]
  cases h : ents[j]? with
  | none => simp only [Option.isSome_none, Bool.false_eq_true, false_iff]; exact fun hj => by
              rw [List.getElem?_eq_getElem hj] at h; cases h
  | some e => simp only [Option.isSome_some, true_iff]; exact (List.getElem?_eq_some_iff.mp h).1

theorem mem_refs_task (e : Ent) (r : Key) (h : r ∈ e.task.refs) : ∃ p ∈ e.refs, r = Key.dep p.1 p.2 := by
  cases e with
  | alias d i =>
    simp only [Ent.task, Tsk.refs, List.mem_singleton] at h
    exact ⟨(d, i), by simp [Ent.refs], h⟩
  | fn f refs =>
    simp only [Ent.task, Tsk.refs, refKeys, List.mem_map] at h
    obtain ⟨p, hp, rfl⟩ := h
    exact ⟨p, by simpa [Ent.refs] using hp, rfl⟩
  | lit s => simp [Ent.task, Tsk.refs] at h

/-- **flat layers**: in-bounds references are all that is needed -/
theorem flat_wf (ents : List Ent) (depN : List Nat) (h : RefsOK ents depN) : LayerWF (spec ents) depN where
  out_idx := by intro i _; rfl
  outs_defined := by intro i hi; exact (layer_out_isSome ents i).mpr hi
  outs_exact := by
    intro k i hk hidx
    cases k with
    | dep d j => simp [spec] at hidx
    | out j =>
      simp only [spec, Option.some.injEq] at hidx
      subst hidx
      exact ⟨(layer_out_isSome ents j).mp hk, rfl⟩
  own := by
    intro k hk
    cases k with
    | dep d i => simp [spec, layer] at hk
    | out j => rfl
  closed := by
    intro k t hk r hr
    cases k with
    | dep d i => simp [spec, layer] at hk
    | out j =>
      simp only [spec, layer] at hk
      cases he : ents[j]? with
      | none => simp [he] at hk
      | some e =>
        simp only [he, Option.some.injEq] at hk
        subst hk
        obtain ⟨p, hp, rfl⟩ := mem_refs_task e r hr
        obtain ⟨nd, hn, hlt⟩ := h e (List.mem_of_getElem? he) p hp
        right
        exact ⟨p.1, p.2, nd, rfl, hn, hlt⟩
  ranked := by
    intro k t hk r hr hdef
    cases k with
    | dep d i => simp [spec, layer] at hk
    | out j =>
      simp only [spec, layer] at hk
      cases he : ents[j]? with
      | none => simp [he] at hk
      | some e =>
        simp only [he, Option.some.injEq] at hk
        subst hk
        obtain ⟨p, _, rfl⟩ := mem_refs_task e r hr
        simp [spec, layer] at hdef
  bounded := by intro k _; exact Nat.le_refl 0

/-- the dict listing is exactly the domain of the layer -/
theorem flat_listed (ents : List Ent) : Listed (spec ents) (keys ents) := by
  intro k
  cases k with
  | dep d i => simp [spec, layer, keys]
  | out j =>
    show (layer ents (.out j)).isSome ↔ _
    rw [layer_out_isSome]
    simp [keys]

/-- the Bool checker of the hypothesis (run by the driver on real parameters) is sound -/
theorem refsOKb_sound (ents : List Ent) (depN : List Nat) (h : refsOKb ents depN = true) : RefsOK ents depN := by
  intro e he r hr
  simp only [refsOKb, List.all_eq_true] at h
  have := h e he r hr
  cases hd : depN[r.1]? with
  | none => simp [hd] at this
  | some nd => exact ⟨nd, rfl, by simpa [hd] using this⟩

/-! ### StackPartition: references are always in bounds (`depN` = the frames' partition counts) -/

theorem stackFrame_refs (d np : Nat) (mat : Bool) (e : Ent) (he : e ∈ stackFrame d np mat) :
    ∀ r ∈ e.refs, r.1 = d ∧ r.2 < np := by
  simp only [stackFrame, List.mem_map, List.mem_range] at he
  obtain ⟨i, hi, rfl⟩ := he
  intro r hr
  cases mat <;> simp [Ent.refs] at hr <;> subst hr <;> exact ⟨rfl, hi⟩

theorem stackFrom_refs : ∀ (nps : List Nat) (d : Nat) (mat : List Bool) (e : Ent), e ∈ stackFrom d nps mat →
    ∀ r ∈ e.refs, d ≤ r.1 ∧ ∃ nd, nps[r.1 - d]? = some nd ∧ r.2 < nd := by
  intro nps
  induction nps with
  | nil => intro d mat e he; simp [stackFrom] at he
  | cons np nps ih =>
    intro d mat e he r hr
    simp only [stackFrom, List.mem_append] at he
    rcases he with he | he
    · obtain ⟨h1, h2⟩ := stackFrame_refs d np _ e he r hr
      exact ⟨by omega, np, by simp [h1], h2⟩
    · obtain ⟨h1, nd, h2, h3⟩ := ih (d + 1) mat.tail e he r hr
      refine ⟨by omega, nd, ?_, h3⟩
      have : r.1 - d = (r.1 - (d + 1)) + 1 := by omega
      rw [this, List.getElem?_cons_succ]; exact h2

theorem stack_refsOK (nps : List Nat) (mat : List Bool) : RefsOK (stackEnts nps mat) nps := by
  intro e he r hr
  obtain ⟨_, nd, h2, h3⟩ := stackFrom_refs nps 0 mat e he r hr
  exact ⟨nd, by simpa using h2, h3⟩

theorem stackFrom_length : ∀ (nps : List Nat) (d : Nat) (mat : List Bool), (stackFrom d nps mat).length = total nps := by
  intro nps
  induction nps with
  | nil => intro d mat; rfl
  | cons np nps ih => intro d mat; simp [stackFrom, stackFrame, total, ih]

/-- `npartitions = sum(df.npartitions for df in dfs)` outputs -/
theorem stack_length (nps : List Nat) (mat : List Bool) : (stackEnts nps mat).length = total nps :=
  stackFrom_length nps 0 mat

/-! ### StackPartitionInterleaved: in bounds iff no frame has fewer partitions than the first -/

theorem interleaved_refsOK (nps : List Nat) (h : ∀ nd ∈ nps, nps.headD 0 ≤ nd) : RefsOK (interleavedEnts nps) nps := by
  intro e he r hr
  simp only [interleavedEnts, List.mem_map, List.mem_range] at he
  obtain ⟨i, hi, rfl⟩ := he
  simp only [Ent.refs, List.mem_map, List.mem_range] at hr
  obtain ⟨d, hd, rfl⟩ := hr
  refine ⟨nps[d], List.getElem?_eq_getElem hd, ?_⟩
  have := h nps[d] (List.getElem_mem hd)
  simp only at this ⊢
  omega

/-! ### Partitions, filtered sources, FusedIO, FromDelayed -/

theorem partitions_refsOK (P : List Nat) (n : Nat) (h : ∀ p ∈ P, p < n) : RefsOK (partitionsEnts P) [n] := by
  intro e he r hr
  simp only [partitionsEnts, List.mem_map] at he
  obtain ⟨p, hp, rfl⟩ := he
  simp only [Ent.refs, List.mem_singleton] at hr
  subst hr
  exact ⟨n, rfl, h p hp⟩

theorem filtered_refsOK (P : List Nat) (depN : List Nat) : RefsOK (filteredEnts P) depN := by
  intro e he r hr
  simp only [filteredEnts, List.mem_map] at he
  obtain ⟨p, _, rfl⟩ := he
  simp [Ent.refs] at hr

theorem fused_refsOK (P : List Nat) (step : Nat) (depN : List Nat) : RefsOK (fusedEnts P step) depN := by
  intro e he r hr
  simp only [fusedEnts, List.mem_map] at he
  obtain ⟨b, _, rfl⟩ := he
  simp [Ent.refs] at hr

/-- every selected Delayed is one of `dfs` (`ndfs` of them, one partition each) -/
theorem fromDelayed_refsOK (P : List Nat) (ndfs : Nat) (h : ∀ p ∈ P, p < ndfs) :
    RefsOK (fromDelayedEnts P) (List.replicate ndfs 1) := by
  intro e he r hr
  simp only [fromDelayedEnts, List.mem_map] at he
  obtain ⟨p, hp, rfl⟩ := he
  simp only [Ent.refs, List.mem_singleton] at hr
  subst hr
  exact ⟨1, by simp [h p hp], by omega⟩

/-! ### gathers -/

theorem barrier_refsOK (n : Nat) : RefsOK (barrierEnts n) [n] := by
  intro e he r hr
  simp only [barrierEnts, List.mem_singleton] at he
  subst he
  simp only [Ent.refs, List.mem_map, List.mem_range] at hr
  obtain ⟨i, hi, rfl⟩ := hr
  exact ⟨n, rfl, hi⟩

theorem scalars_refsOK (m : Nat) : RefsOK (scalarsEnts m) (List.replicate m 1) := by
  intro e he r hr
  simp only [scalarsEnts, List.mem_singleton] at he
  subst he
  simp only [Ent.refs, List.mem_map, List.mem_range] at hr
  obtain ⟨d, hd, rfl⟩ := hr
  exact ⟨1, by simp [hd], by omega⟩

/-! ### Loc* -/

theorem locElement_refsOK (part n : Nat) (h : part < n) : RefsOK (locElementEnts part) [n] := by
  intro e he r hr
  simp only [locElementEnts, List.mem_singleton] at he
  subst he
  simp only [Ent.refs, List.mem_singleton] at hr
  subst hr
  exact ⟨n, rfl, h⟩

theorem locList_refsOK (parts : List Nat) (n : Nat) (h : ∀ p ∈ parts, p < n) : RefsOK (locListEnts parts) [n] := by
  intro e he r hr
  unfold locListEnts at he
  split at he
  · simp only [List.mem_singleton] at he; subst he; simp [Ent.refs] at hr
  · simp only [List.mem_map] at he
    obtain ⟨p, hp, rfl⟩ := he
    simp only [Ent.refs, List.mem_singleton] at hr
    subst hr
    exact ⟨n, rfl, h p hp⟩

theorem locSlice_refsOK (start stop n : Nat) (cnone : Bool) (h1 : start ≤ stop) (h2 : stop < n) :
    RefsOK (locSliceEnts start stop cnone) [n] := by
  intro e he r hr
  unfold locSliceEnts at he
  split at he
  · rename_i heq
    simp only [List.mem_singleton] at he; subst he
    simp only [Ent.refs, List.mem_singleton] at hr; subst hr
    exact ⟨n, rfl, by simp only; omega⟩
  · simp only [List.mem_cons, List.mem_append, List.mem_map, List.mem_range, List.mem_nil_iff, or_false] at he
    rcases he with rfl | ⟨t, ht, rfl⟩ | rfl
    · simp only [Ent.refs, List.mem_singleton] at hr; subst hr
      exact ⟨n, rfl, by simp only; omega⟩
    · cases cnone <;> simp [Ent.refs] at hr <;> subst hr <;> exact ⟨n, rfl, by simp only; omega⟩
    · simp only [Ent.refs, List.mem_singleton] at hr; subst hr
      exact ⟨n, rfl, h2⟩

/-- a slice over partitions `start..stop` has `stop - start + 1` outputs -/
theorem locSlice_length (start stop : Nat) (cnone : Bool) (h : start ≤ stop) :
    (locSliceEnts start stop cnone).length = stop - start + 1 := by
  unfold locSliceEnts
  split
  · rename_i heq; simp [heq]
  · simp; omega

/-! ### ResolveOverlappingDivisions: every reference is a non-empty partition of the frame -/

/-- all references of an entry list / a pending `frames` list point below `n` in dependency 0 -/
def InB (n : Nat) (refs : List (Nat × Nat)) : Prop := ∀ r ∈ refs, r.1 = 0 ∧ r.2 < n

theorem getD_lt (ne : List Nat) (n i : Nat) (hne : ∀ p ∈ ne, p < n) (hn : 1 ≤ n) : ne.getD i 0 < n := by
  simp only [List.getD_eq_getElem?_getD]
  cases h : ne[i]? with
  | none => simp; omega
  | some p => simpa using hne p (List.mem_of_getElem? h)

theorem wrapDrop_inB (n : Nat) (ents : List Ent) (j : Nat) (h : ∀ e ∈ ents, InB n e.refs) :
    ∀ e ∈ wrapDrop ents j, InB n e.refs := by
  unfold wrapDrop
  cases hj : ents[j]? with
  | none => exact h
  | some e0 =>
    intro e he
    rcases List.mem_or_eq_of_mem_set he with he | rfl
    · exact h e he
    · exact h e0 (List.mem_of_getElem? hj)

theorem resolveLoop_inB (ne : List Nat) (ov eqNext : Nat → Bool) (n : Nat) (hne : ∀ p ∈ ne, p < n) (hn : 1 ≤ n) :
    ∀ (l : List Nat) (frames : List (Nat × Nat)) (ents : List Ent), InB n frames → (∀ e ∈ ents, InB n e.refs) →
      ∀ e ∈ resolveLoop ne ov eqNext l frames ents, InB n e.refs := by
  intro l
  induction l with
  | nil => intro frames ents _ he; exact he
  | cons i rest ih =>
    intro frames ents hf he
    have hf1 : InB n (frames ++ [(0, ne.getD (i - 1) 0)]) := by
      intro r hr
      rcases List.mem_append.mp hr with hr | hr
      · exact hf r hr
      · simp only [List.mem_singleton] at hr; subst hr; exact ⟨rfl, getD_lt ne n _ hne hn⟩
    have he1 := wrapDrop_inB n ents (i - 1) he
    simp only [resolveLoop]
    split
    · exact ih _ _ hf1 he1
    · apply ih
      · intro r hr; cases hr
      · intro e hmem
        rcases List.mem_or_eq_of_mem_set hmem with hmem | rfl
        · exact he1 e hmem
        · intro r hr
          simp only [Ent.refs] at hr
          rcases List.mem_append.mp hr with hr | hr
          · exact hf1 r hr
          · simp only [List.mem_singleton] at hr; subst hr; exact ⟨rfl, getD_lt ne n _ hne hn⟩

theorem resolve_refsOK (ne overlapIdx : List Nat) (eqNext : Nat → Bool) (n : Nat) (hne : ∀ p ∈ ne, p < n)
    (hn : 1 ≤ n) : RefsOK (resolveEnts ne overlapIdx eqNext) [n] := by
  have key : ∀ e ∈ resolveEnts ne overlapIdx eqNext, InB n e.refs := by
    unfold resolveEnts
    split
    · intro e he
      simp only [List.mem_singleton] at he; subst he
      intro r hr; simp only [Ent.refs, List.mem_singleton] at hr; subst hr; exact ⟨rfl, hn⟩
    · apply resolveLoop_inB ne _ eqNext n hne hn
      · intro r hr; cases hr
      · intro e he
        simp only [List.mem_map] at he
        obtain ⟨p, hp, rfl⟩ := he
        intro r hr; simp only [Ent.refs, List.mem_singleton] at hr; subst hr; exact ⟨rfl, hne p hp⟩
  intro e he r hr
  obtain ⟨h1, h2⟩ := key e he r hr
  exact ⟨n, by rw [h1]; rfl, h2⟩

end Flat
end Dx
