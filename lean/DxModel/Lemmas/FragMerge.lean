/-
  Lemmas/FragMerge.lean — soundness of `Merge._simplify_up` (Projection parent) in the fragment, under the side
  condition that is part of the node's definedness (`mergeOK`: the join keys are columns, a key of one side does not
  collide with a non-key column of the other — `KeysDoNotCollide`, open finding D34 — and the result labels are
  duplicate-free).  From `C04_merge_wf` (both pushed lists are duplicate-free sub-schemas that keep the keys),
  `C04_merge_labels_partial` (every requested label is still produced) and the lemmas behind
  `C04_merge_values_{left,right}_partial` (`merge_left_source`, `merge_right_source`, `labelL_pruned`, `labelR_pruned`).
  The value theorems themselves are stated over `MergeOp`, whose laws quantify over frames with colliding labels and
  are only satisfiable by degenerate joins; here the same argument is carried out for `mergeFrame` directly.
-/
import DxModel.Lemmas.FragRules
namespace Dx.Frag
open Dx Dx.Cols

variable {γ ι : Type}

/-! ### why `MergeOp` is not instantiated -/

theorem labelL_twin_a : labelL ⟨[], [], "_x", "_y"⟩ ["a"] "a" = "a_x" := by decide
theorem labelL_twin_ax : labelL ⟨[], [], "_x", "_y"⟩ ["a"] "a_x" = "a_x" := by decide

/-- `MergeOp.op_left` is asked for ALL frames, also when two left columns get the same result label (`a` suffixed to
    `a_x` next to a column `a_x`): a `MergeOp` (here: no keys, suffix `_x`) cannot let a result column depend on the data
    of the left column it carries.  The fragment's join `mergeFrame` is therefore treated directly, under the
    duplicate-free result labels that are part of `mergeOK`. -/
theorem mergeOp_degenerate (M : MergeOp γ) (hm : M.m = ⟨[], [], "_x", "_y"⟩)
    (l r : Name → Option γ) (x y : Option γ) : M.TL l r x = M.TL l r y := by
  let A : Frame γ := ⟨["a", "a_x"], fun c => if c = "a" then x else y⟩
  let B : Frame γ := ⟨["a"], r⟩
  have h1 := M.op_left A B "a" rfl
  have h2 := M.op_left A B "a_x" rfl
  have e1 : labelL M.m B.cols "a" = "a_x" := by rw [hm]; exact labelL_twin_a
  have e2 : labelL M.m B.cols "a_x" = "a_x" := by rw [hm]; exact labelL_twin_ax
  rw [e1] at h1
  rw [e2] at h2
  have hk := (M.T_keys l A.val r B.val (by rw [hm]; intro k hk; cases hk) (by rw [hm]; intro k hk; cases hk)).1
  rw [hk]
  have : M.TL A.val B.val (A.val "a") = M.TL A.val B.val (A.val "a_x") := by rw [← h1, ← h2]
  simpa [A] using this

/-! ### labels -/

theorem all_iff {l : List Name} {q : Name → Bool} : l.all q = true ↔ ∀ c, c ∈ l → q c = true := List.all_eq_true

theorem mergeOK_iff (m : MergeP) (L R : List Name) :
    mergeOK m L R = true ↔ (∀ k, k ∈ m.leftOn → k ∈ L) ∧ (∀ k, k ∈ m.rightOn → k ∈ R) ∧
      KeysDoNotCollide m L R ∧ (mergeLabels m L R).Nodup := by
  unfold mergeOK KeysDoNotCollide
  simp only [Bool.and_eq_true, subsetB_iff, all_iff, Bool.or_eq_true, Bool.not_eq_true', decide_eq_true_eq]
  constructor
  · rintro ⟨⟨⟨⟨h1, h2⟩, h3⟩, h4⟩, h5⟩
    refine ⟨h1, h2, ⟨?_, ?_⟩, h5⟩
    · intro c hc hR
      rcases h3 c hc with h | h
      · rw [List.contains_iff_mem.mpr hR] at h; cases h
      · exact h
    · intro c hc hL
      rcases h4 c hc with h | h
      · rw [List.contains_iff_mem.mpr hL] at h; cases h
      · exact h
  · rintro ⟨h1, h2, ⟨h3, h4⟩, h5⟩
    refine ⟨⟨⟨⟨h1, h2⟩, ?_⟩, ?_⟩, h5⟩
    · intro c hc
      by_cases hR : c ∈ R
      · exact Or.inr (h3 c hc hR)
      · exact Or.inl (by simpa using hR)
    · intro c hc
      by_cases hL : c ∈ L
      · exact Or.inr (h4 c hc hL)
      · exact Or.inl (by simpa using hL)

theorem nodup_map_of_inj {α : Type} (f : α → Name) : ∀ (l : List α), l.Nodup →
    (∀ a b, a ∈ l → b ∈ l → f a = f b → a = b) → (l.map f).Nodup
  | [], _, _ => List.nodup_nil
  | x :: t, h, hinj => by
    simp only [List.nodup_cons] at h
    simp only [List.map_cons, List.nodup_cons, List.mem_map, not_exists, not_and]
    refine ⟨?_, nodup_map_of_inj f t h.2 (fun a b ha hb => hinj a b (by simp [ha]) (by simp [hb]))⟩
    intro y hy hfy
    have := hinj y x (by simp [hy]) (by simp) hfy
    subst this
    exact h.1 hy

/-- the collision partner of every kept left column is kept on the right -/
theorem merge_left_twin {m : MergeP} {L R proj : List Name} (hR : R.Nodup) (hk : KeysDoNotCollide m L R) {c : Name}
    (hc : c ∈ (mergeLists m L R proj).1) (h : (R.contains c && !commonKey m c) = true) :
    c ∈ (mergeLists m L R proj).2 := by
  simp only [Bool.and_eq_true, Bool.not_eq_true'] at h
  obtain ⟨hcR, hck⟩ := h
  have hcRm : c ∈ R := List.contains_iff_mem.mp hcR
  rw [mergeLists_eq m L R proj hR] at hc ⊢
  rcases List.mem_append.mp hc with h1 | h1
  · -- kept by the left loop
    have hA := (List.mem_filter.mp h1).2
    have hcL := (List.mem_filter.mp h1).1
    simp only [mA, Bool.or_eq_true] at hA
    rcases hA with (hkey | hp) | hs
    · have := hk.1 c (List.contains_iff_mem.mp hkey) hcRm
      rw [hck] at this; cases this
    · have := merge_right_of_proj m L R proj hR hcRm hp
      rw [mergeLists_eq m L R proj hR] at this
      exact this
    · by_cases hkp : (m.leftOn.contains c || proj.contains c) = true
      · rcases Bool.or_eq_true _ _ ▸ hkp with hkey | hp
        · have := hk.1 c (List.contains_iff_mem.mp hkey) hcRm
          rw [hck] at this; cases this
        · have := merge_right_of_proj m L R proj hR hcRm hp
          rw [mergeLists_eq m L R proj hR] at this
          exact this
      · apply List.mem_append_left
        rw [List.mem_filter]
        refine ⟨hcL, ?_⟩
        have hkp' : (m.leftOn.contains c || proj.contains c) = false := by simpa using hkp
        simp only [mB, hkp', Bool.not_false, hs, hcR, Bool.and_self]
  · -- appended by the right loop as the partner of a suffixed right column
    have hG := (List.mem_filter.mp h1).2
    simp only [mG, Bool.and_eq_true, Bool.not_eq_true'] at hG
    obtain ⟨⟨⟨⟨hnpr, hnk⟩, hs⟩, _⟩, _⟩ := hG
    apply List.mem_append_right
    rw [List.mem_filter]
    refine ⟨hcRm, ?_⟩
    simp only [mH, hnpr, Bool.not_false, Bool.true_and, hs, Bool.or_true]

/-- … and symmetrically -/
theorem merge_right_twin {m : MergeP} {L R proj : List Name} (hR : R.Nodup) (hk : KeysDoNotCollide m L R) {c : Name}
    (hc : c ∈ (mergeLists m L R proj).2) (h : (L.contains c && !commonKey m c) = true) :
    c ∈ (mergeLists m L R proj).1 := by
  simp only [Bool.and_eq_true, Bool.not_eq_true'] at h
  obtain ⟨hcL, hck⟩ := h
  have hcLm : c ∈ L := List.contains_iff_mem.mp hcL
  rw [mergeLists_eq m L R proj hR] at hc ⊢
  rcases List.mem_append.mp hc with h1 | h1
  · exact List.mem_append_left _ (List.mem_filter.mpr ⟨hcLm, mB_imp_mA m R proj (List.mem_filter.mp h1).2⟩)
  · have hH := (List.mem_filter.mp h1).2
    have hcR := (List.mem_filter.mp h1).1
    simp only [mH, Bool.and_eq_true, Bool.not_eq_true', Bool.or_eq_true] at hH
    obtain ⟨hnpr, hcase⟩ := hH
    rcases hcase with (hkey | hp) | hs
    · have := hk.2 c (List.contains_iff_mem.mp hkey) hcLm
      rw [hck] at this; cases this
    · apply List.mem_append_left
      rw [List.mem_filter]
      exact ⟨hcLm, by simp only [mA, hp, Bool.or_true, Bool.true_or]⟩
    · by_cases hkp : (m.rightOn.contains c || proj.contains c) = true
      · rcases Bool.or_eq_true _ _ ▸ hkp with hkey | hp
        · have := hk.2 c (List.contains_iff_mem.mp hkey) hcLm
          rw [hck] at this; cases this
        · apply List.mem_append_left
          rw [List.mem_filter]
          exact ⟨hcLm, by simp only [mA, hp, Bool.or_true, Bool.true_or]⟩
      · have hkp' : (m.rightOn.contains c || proj.contains c) = false := by simpa using hkp
        by_cases hpl : (L.filter (mA m proj)).contains c = true
        · exact List.mem_append_left _ (List.contains_iff_mem.mp hpl)
        · have hpl' : (L.filter (mA m proj)).contains c = false := by simpa using hpl
          apply List.mem_append_right
          rw [List.mem_filter]
          refine ⟨hcR, ?_⟩
          simp only [mG, hnpr, Bool.not_false, hkp', hs, hcL, hpl', Bool.and_self]

/-! ### columns of the joined frame -/

theorem find?_eq_of_inj {α : Type} (f : α → Name) (l : List α) (hn : (l.map f).Nodup) {c : α} (hc : c ∈ l) :
    l.find? (fun x => f x == f c) = some c := by
  cases hf : l.find? (fun x => f x == f c) with
  | none =>
    rw [List.find?_eq_none] at hf
    exact absurd (by simp) (hf c hc)
  | some c' =>
    have h1 := List.find?_some hf
    have h2 := List.mem_of_find?_eq_some hf
    have := inj_of_nodup_map f l hn c' c h2 hc (by simpa using h1)
    rw [this]

theorem mergeFrame_val_left (I : Interp γ ι) (how : Nat) (m : MergeP) (A B : Frame γ)
    (hnd : (mergeLabels m A.cols B.cols).Nodup) {c : Name} (hc : c ∈ A.cols) :
    (mergeFrame I how m A B).val (labelL m B.cols c) =
      (A.val c).map (I.joinL how (m.leftOn.map A.val) (m.rightOn.map B.val)) := by
  unfold mergeLabels at hnd
  rw [List.nodup_append] at hnd
  simp only [mergeFrame, find?_eq_of_inj (labelL m B.cols) A.cols hnd.1 hc]

theorem mergeFrame_val_right (I : Interp γ ι) (how : Nat) (m : MergeP) (A B : Frame γ)
    (hnd : (mergeLabels m A.cols B.cols).Nodup) {c : Name} (hc : c ∈ B.cols) (hck : commonKey m c = false) :
    (mergeFrame I how m A B).val (labelR m A.cols c) =
      (B.val c).map (I.joinR how (m.leftOn.map A.val) (m.rightOn.map B.val)) := by
  unfold mergeLabels at hnd
  rw [List.nodup_append] at hnd
  have hcf : c ∈ B.cols.filter (fun c => !commonKey m c) := List.mem_filter.mpr ⟨hc, by simp [hck]⟩
  have hnone : A.cols.find? (fun x => labelL m B.cols x == labelR m A.cols c) = none := by
    apply find?_none_of_not_mem_map
    intro hm
    exact hnd.2.2 _ hm _ (List.mem_map.mpr ⟨c, hcf, rfl⟩) rfl
  simp only [mergeFrame, hnone, find?_eq_of_inj (labelR m A.cols) _ hnd.2.1 hcf]

theorem semOp_merge_iff (I : Interp γ ι) (how : Nat) (m : MergeP) (A B v : FVal γ) :
    semOp I (.merge how m) [A, B] = some v ↔
      A.ser = false ∧ B.ser = false ∧ how < 4 ∧ mergeOK m A.fr.cols B.fr.cols = true ∧
        v = ⟨mergeFrame I how m A.fr B.fr, false⟩ := by
  have hsch : schOp (.merge how m) ([A, B].map FVal.sch) =
      if (!A.ser && !B.ser && decide (how < 4) && mergeOK m A.fr.cols B.fr.cols) = true
        then some ⟨mergeLabels m A.fr.cols B.fr.cols, false⟩ else none := rfl
  have hcond : (!A.ser && !B.ser && decide (how < 4) && mergeOK m A.fr.cols B.fr.cols) = true ↔
      A.ser = false ∧ B.ser = false ∧ how < 4 ∧ mergeOK m A.fr.cols B.fr.cols = true := by
    simp only [Bool.and_eq_true, Bool.not_eq_true', decide_eq_true_eq, and_assoc]
  have hval : schOp (.merge how m) ([A, B].map FVal.sch) = some ⟨mergeLabels m A.fr.cols B.fr.cols, false⟩ →
      semOp I (.merge how m) [A, B] = some ⟨mergeFrame I how m A.fr B.fr, false⟩ :=
    fun hs => semOp_eq hs rfl (normal_mergeFrame _ _ _ _ _)
  constructor
  · intro h
    obtain ⟨s, hs, _⟩ := semOp_some h
    rw [hsch] at hs
    obtain ⟨hc, _⟩ := ite_some hs
    have hs' := hsch
    rw [if_pos hc] at hs'
    rw [hval hs'] at h
    obtain ⟨h1, h2, h3, h4⟩ := hcond.mp hc
    exact ⟨h1, h2, h3, h4, (Option.some.inj h).symm⟩
  · rintro ⟨h1, h2, h3, h4, h5⟩
    have hs' := hsch
    rw [if_pos (hcond.mpr ⟨h1, h2, h3, h4⟩)] at hs'
    rw [hval hs', h5]

/-! ### the rule -/

/-- Merge: `Projection(merge(a, b), sel)` → `Projection(merge(a[pl], b[pr]), sel)` -/
theorem upMerge_sound (I : Interp γ ι) {how : Nat} {m : MergeP} {a b c p o : Expr} {d : Deps}
    (hc : c.op = .merge how m) (ha : c.args = [a, b]) (h : upMerge how m a b c p d = some o) :
    ∀ v, den I p = some v → den I o = some v := by
  unfold upMerge at h
  cases hpo : projOver p c with
  | none => rw [hpo] at h; cases h
  | some sel =>
    cases hsa : schemaOf a with
    | none => rw [hpo, hsa] at h; cases h
    | some sa =>
      cases hsb : schemaOf b with
      | none => rw [hpo, hsa, hsb] at h; cases h
      | some sb =>
        rw [hpo, hsa, hsb] at h
        simp only at h
        cases hr : merge m sa.cols sb.cols (parentOf sel) (depsOf d c) with
        | none => rw [hr] at h; cases h
        | some rw =>
          rw [hr] at h
          have hrw := merge_spec hr
          subst hrw
          simp only at h
          cases h
          intro v hv
          obtain ⟨vc, hvc, _, hnd, hsub, rfl⟩ := projOver_den hpo hv
          rw [den_args2 I ha, hc] at hvc
          obtain ⟨va, hva, hvc⟩ := bind_eq_some' hvc
          obtain ⟨vb, hvb, hvc⟩ := bind_eq_some' hvc
          obtain ⟨hA, hB, hhow, hok, hvc⟩ := (semOp_merge_iff I how m va vb vc).mp hvc
          subst hvc
          have hsa' := schema_of_den hva hsa
          have hsb' := schema_of_den hvb hsb
          subst hsa'; subst hsb'
          have hLc : va.sch.cols = va.fr.cols := rfl
          have hRc : vb.sch.cols = vb.fr.cols := rfl
          rw [hLc, hRc] at hr ⊢
          obtain ⟨hlo, hro, hkeys, hlnd⟩ := (mergeOK_iff m va.fr.cols vb.fr.cols).mp hok
          have hLn := den_nodup hva
          have hRn := den_nodup hvb
          generalize hproj : (detProj (parentOf sel) (depsOf d c) []).toList = pj at hr ⊢
          -- the two pushed lists
          have hplsub := merge_left_sub m va.fr.cols vb.fr.cols pj hRn
          have hprsub := merge_right_sub m va.fr.cols vb.fr.cols pj hRn
          have hplnd := merge_left_nodup m va.fr.cols vb.fr.cols pj hLn hRn
          have hprnd := merge_right_nodup m va.fr.cols vb.fr.cols pj hLn hRn
          have hplk : ∀ k, k ∈ m.leftOn → k ∈ (mergeLists m va.fr.cols vb.fr.cols pj).1 :=
            fun k hk => merge_left_keys m va.fr.cols vb.fr.cols pj hRn hk (hlo k hk)
          have hprk : ∀ k, k ∈ m.rightOn → k ∈ (mergeLists m va.fr.cols vb.fr.cols pj).2 :=
            fun k hk => merge_right_keys m va.fr.cols vb.fr.cols pj hRn hk (hro k hk)
          -- labels are stable on the kept columns
          have hlabL : ∀ x, x ∈ (mergeLists m va.fr.cols vb.fr.cols pj).1 →
              labelL m (mergeLists m va.fr.cols vb.fr.cols pj).2 x = labelL m vb.fr.cols x :=
            fun x hx => labelL_pruned m _ _ x hprsub (merge_left_twin hRn hkeys hx)
          have hlabR : ∀ x, x ∈ (mergeLists m va.fr.cols vb.fr.cols pj).2 →
              labelR m (mergeLists m va.fr.cols vb.fr.cols pj).1 x = labelR m va.fr.cols x :=
            fun x hx => labelR_pruned m _ _ x hplsub (merge_right_twin hRn hkeys hx)
          -- the pruned merge is well-formed
          have hlnd0 := hlnd
          unfold mergeLabels at hlnd0
          rw [List.nodup_append] at hlnd0
          have hlnd' : (mergeLabels m (mergeLists m va.fr.cols vb.fr.cols pj).1 (mergeLists m va.fr.cols vb.fr.cols pj).2).Nodup := by
            unfold mergeLabels
            rw [List.map_congr_left hlabL,
              List.map_congr_left (fun x hx => hlabR x (List.mem_filter.mp hx).1), List.nodup_append]
            refine ⟨?_, ?_, ?_⟩
            · exact nodup_map_of_inj _ _ hplnd (fun x y hx hy he =>
                inj_of_nodup_map _ _ hlnd0.1 x y (hplsub x hx) (hplsub y hy) he)
            · exact nodup_map_of_inj _ _ (List.Nodup.sublist List.filter_sublist hprnd) (fun x y hx hy he =>
                inj_of_nodup_map _ _ hlnd0.2.1 x y
                  (List.mem_filter.mpr ⟨hprsub x (List.mem_filter.mp hx).1, (List.mem_filter.mp hx).2⟩)
                  (List.mem_filter.mpr ⟨hprsub y (List.mem_filter.mp hy).1, (List.mem_filter.mp hy).2⟩) he)
            · intro x hx y hy hxy
              obtain ⟨x0, hx0, rfl⟩ := List.mem_map.mp hx
              obtain ⟨y0, hy0, rfl⟩ := List.mem_map.mp hy
              exact hlnd0.2.2 _ (List.mem_map.mpr ⟨x0, hplsub x0 hx0, rfl⟩) _
                (List.mem_map.mpr ⟨y0, List.mem_filter.mpr ⟨hprsub y0 (List.mem_filter.mp hy0).1, (List.mem_filter.mp hy0).2⟩, rfl⟩) hxy
          have hok' : mergeOK m (mergeLists m va.fr.cols vb.fr.cols pj).1 (mergeLists m va.fr.cols vb.fr.cols pj).2 = true := by
            rw [mergeOK_iff]
            exact ⟨hplk, hprk, ⟨fun x hx hxr => hkeys.1 x hx (hprsub x hxr), fun x hx hxl => hkeys.2 x hx (hplsub x hxl)⟩, hlnd'⟩
          have hpa := den_proj_some (s := .many (mergeLists m va.fr.cols vb.fr.cols pj).1) hva hA hplnd hplsub
          have hpb := den_proj_some (s := .many (mergeLists m va.fr.cols vb.fr.cols pj).2) hvb hB hprnd hprsub
          have hnew : den I (mk (.merge how m) [proj (.many (mergeLists m va.fr.cols vb.fr.cols pj).1) a,
              proj (.many (mergeLists m va.fr.cols vb.fr.cols pj).2) b]) =
              some ⟨mergeFrame I how m (va.fr.select (mergeLists m va.fr.cols vb.fr.cols pj).1)
                (vb.fr.select (mergeLists m va.fr.cols vb.fr.cols pj).2), false⟩ := by
            rw [den_mk2, hpa, hpb]
            exact (semOp_merge_iff I how m _ _ _).mpr ⟨rfl, rfl, hhow, hok', rfl⟩
          -- every requested label is still produced
          obtain ⟨pl', pr', hch', hlabels⟩ := C04_merge_labels_partial m va.fr.cols vb.fr.cols hRn hkeys (parentOf sel) (depsOf d c) _ hr
          
          simp only [List.cons.injEq, Option.some.injEq, Sel.many.injEq, and_true] at hch'
          obtain ⟨hpl', hpr'⟩ := hch'
          subst hpl'; subst hpr'
          rw [parentOf_cols] at hlabels
          have hsub' : ∀ l, l ∈ sel.toList → l ∈ mergeLabels m va.fr.cols vb.fr.cols := hsub
          rw [den_proj_some hnew rfl hnd (fun l hl => hlabels l hl (hsub' l hl))]
          congr 2
          apply select_congr
          intro l hl
          have hlp : pj.contains l = true := by
            rw [← hproj]
            exact detProj_contains.mpr (parent_mem_union (by rw [parentOf_cols]; exact hl))
          have hkl : m.leftOn.map (va.fr.select (mergeLists m va.fr.cols vb.fr.cols pj).1).val = m.leftOn.map va.fr.val :=
            List.map_congr_left (fun k hk => select_val_mem (hplk k hk))
          have hkr : m.rightOn.map (vb.fr.select (mergeLists m va.fr.cols vb.fr.cols pj).2).val = m.rightOn.map vb.fr.val :=
            List.map_congr_left (fun k hk => select_val_mem (hprk k hk))
          have hml := hsub' l hl
          unfold mergeLabels at hml
          rcases List.mem_append.mp hml with hm | hm
          · obtain ⟨c0, hc0, rfl⟩ := List.mem_map.mp hm
            have hsrc := merge_left_source m va.fr.cols vb.fr.cols pj hRn hkeys.1 hc0 hlp
            rw [mergeFrame_val_left I how m va.fr vb.fr hlnd hc0, ← hlabL c0 hsrc.1]
            have := mergeFrame_val_left I how m (va.fr.select (mergeLists m va.fr.cols vb.fr.cols pj).1)
              (vb.fr.select (mergeLists m va.fr.cols vb.fr.cols pj).2) hlnd' (c := c0) hsrc.1
            rw [select_cols] at this
            rw [this, hkl, hkr, select_val_mem hsrc.1]
          · obtain ⟨c0, hc0, rfl⟩ := List.mem_map.mp hm
            have hc0R := (List.mem_filter.mp hc0).1
            have hck : commonKey m c0 = false := by simpa using (List.mem_filter.mp hc0).2
            have hsrc := merge_right_source m va.fr.cols vb.fr.cols pj hRn hkeys.2 hc0R hlp
            rw [mergeFrame_val_right I how m va.fr vb.fr hlnd hc0R hck, ← hlabR c0 hsrc.1]
            have := mergeFrame_val_right I how m (va.fr.select (mergeLists m va.fr.cols vb.fr.cols pj).1)
              (vb.fr.select (mergeLists m va.fr.cols vb.fr.cols pj).2) hlnd' (c := c0) hsrc.1 hck
            rw [select_cols] at this
            rw [this, hkl, hkr, select_val_mem hsrc.1]

end Dx.Frag
