/-
  Lemmas/FragMerge.lean — soundness of `Merge._simplify_up` (Projection parent) in the fragment, under the side
  condition that is part of the node's definedness (`mergeOK`: the join keys are columns, a key of one side does not
  collide with a non-key column of the other — `KeysDoNotCollide`, open finding D34 — and the result labels are
  duplicate-free).  From `C04_merge_wf` (both pushed lists are duplicate-free sub-schemas that keep the keys),
  `C04_merge_pruned_wf` (the pruned join has duplicate-free labels again), `C04_merge_labels_partial` (every requested
  label is still produced) and `C04_merge_values_{left,right}_partial` applied to the fragment's join `mergeM`.
-/
import DxModel.Lemmas.FragRules
namespace Dx.Frag
open Dx Dx.Cols

variable {γ ι : Type}

/-! ### labels -/

theorem all_iff {l : List Name} {q : Name → Bool} : l.all q = true ↔ ∀ c, c ∈ l → q c = true := List.all_eq_true

theorem mergeOK_iff (m : MergeP) (L R : List Name) :
    mergeOK m L R = true ↔ (∀ k, k ∈ m.leftOn → k ∈ L) ∧ (∀ k, k ∈ m.rightOn → k ∈ R) ∧
      KeysDoNotCollide m L R ∧ (mergeLabels m L R).Nodup := by
  unfold mergeOK KeysDoNotCollide
  simp only [Bool.and_eq_true, subsetB_iff, all_iff, Bool.or_eq_true, Bool.not_eq_true', decide_eq_true_eq]
  constructor
  · rintro ⟨⟨⟨⟨h1, h2⟩, h3⟩, h4⟩, h5⟩
    refine ⟨h1, h2, ⟨?_, ?_⟩, h5⟩
    · intro c hc hR
      rcases h3 c hc with h | h
      · rw [List.contains_iff_mem.mpr hR] at h; cases h
      · exact h
    · intro c hc hL
      rcases h4 c hc with h | h
      · rw [List.contains_iff_mem.mpr hL] at h; cases h
      · exact h
  · rintro ⟨h1, h2, ⟨h3, h4⟩, h5⟩
    refine ⟨⟨⟨⟨h1, h2⟩, ?_⟩, ?_⟩, h5⟩
    · intro c hc
      by_cases hR : c ∈ R
      · exact Or.inr (h3 c hc hR)
      · exact Or.inl (by simpa using hR)
    · intro c hc
      by_cases hL : c ∈ L
      · exact Or.inr (h4 c hc hL)
      · exact Or.inl (by simpa using hL)

/-! ### columns of the joined frame -/

theorem semOp_merge_iff (I : Interp γ ι) (how : Nat) (m : MergeP) (A B v : FVal γ) :
    semOp I (.merge how m) [A, B] = some v ↔
      A.ser = false ∧ B.ser = false ∧ how < 4 ∧ mergeOK m A.fr.cols B.fr.cols = true ∧
        v = ⟨mergeFrame I how m A.fr B.fr, false⟩ := by
  have hsch : schOp (.merge how m) ([A, B].map FVal.sch) =
      if (!A.ser && !B.ser && decide (how < 4) && mergeOK m A.fr.cols B.fr.cols) = true
        then some ⟨mergeLabels m A.fr.cols B.fr.cols, false⟩ else none := rfl
  have hcond : (!A.ser && !B.ser && decide (how < 4) && mergeOK m A.fr.cols B.fr.cols) = true ↔
      A.ser = false ∧ B.ser = false ∧ how < 4 ∧ mergeOK m A.fr.cols B.fr.cols = true := by
    simp only [Bool.and_eq_true, Bool.not_eq_true', decide_eq_true_eq, and_assoc]
  have hval : schOp (.merge how m) ([A, B].map FVal.sch) = some ⟨mergeLabels m A.fr.cols B.fr.cols, false⟩ →
      semOp I (.merge how m) [A, B] = some ⟨mergeFrame I how m A.fr B.fr, false⟩ :=
    fun hs => semOp_eq hs rfl (normal_mergeFrame _ _ _ _ _)
  constructor
  · intro h
    obtain ⟨s, hs, _⟩ := semOp_some h
    rw [hsch] at hs
    obtain ⟨hc, _⟩ := ite_some hs
    have hs' := hsch
    rw [if_pos hc] at hs'
    rw [hval hs'] at h
    obtain ⟨h1, h2, h3, h4⟩ := hcond.mp hc
    exact ⟨h1, h2, h3, h4, (Option.some.inj h).symm⟩
  · rintro ⟨h1, h2, h3, h4, h5⟩
    have hs' := hsch
    rw [if_pos (hcond.mpr ⟨h1, h2, h3, h4⟩)] at hs'
    rw [hval hs', h5]

/-! ### the rule -/

/-- Merge: `Projection(merge(a, b), sel)` → `Projection(merge(a[pl], b[pr]), sel)` -/
theorem upMerge_sound (I : Interp γ ι) {how : Nat} {m : MergeP} {a b c p o : Expr} {d : Deps}
    (hc : c.op = .merge how m) (ha : c.args = [a, b]) (h : upMerge how m a b c p d = some o) :
    ∀ v, den I p = some v → den I o = some v := by
  unfold upMerge at h
  cases hpo : projOver p c with
  | none => rw [hpo] at h; cases h
  | some sel =>
    cases hsa : schemaOf a with
    | none => rw [hpo, hsa] at h; cases h
    | some sa =>
      cases hsb : schemaOf b with
      | none => rw [hpo, hsa, hsb] at h; cases h
      | some sb =>
        rw [hpo, hsa, hsb] at h
        simp only at h
        cases hr : merge m sa.cols sb.cols (parentOf sel) (depsOf d c) with
        | none => rw [hr] at h; cases h
        | some rw =>
          rw [hr] at h
          have hrw := merge_spec hr
          subst hrw
          simp only at h
          cases h
          intro v hv
          obtain ⟨vc, hvc, _, hnd, hsub, rfl⟩ := projOver_den hpo hv
          rw [den_args2 I ha, hc] at hvc
          obtain ⟨va, hva, hvc⟩ := bind_eq_some' hvc
          obtain ⟨vb, hvb, hvc⟩ := bind_eq_some' hvc
          obtain ⟨hA, hB, hhow, hok, hvc⟩ := (semOp_merge_iff I how m va vb vc).mp hvc
          subst hvc
          have hsa' := schema_of_den hva hsa
          have hsb' := schema_of_den hvb hsb
          subst hsa'; subst hsb'
          have hLc : va.sch.cols = va.fr.cols := rfl
          have hRc : vb.sch.cols = vb.fr.cols := rfl
          rw [hLc, hRc] at hr ⊢
          obtain ⟨hlo, hro, hkeys, hlnd⟩ := (mergeOK_iff m va.fr.cols vb.fr.cols).mp hok
          have hLn := den_nodup hva
          have hRn := den_nodup hvb
          generalize hproj : (detProj (parentOf sel) (depsOf d c) []).toList = pj at hr ⊢
          -- the two pushed lists
          have hplsub := merge_left_sub m va.fr.cols vb.fr.cols pj hRn
          have hprsub := merge_right_sub m va.fr.cols vb.fr.cols pj hRn
          have hplnd := merge_left_nodup m va.fr.cols vb.fr.cols pj hLn hRn
          have hprnd := merge_right_nodup m va.fr.cols vb.fr.cols pj hLn hRn
          have hplk : ∀ k, k ∈ m.leftOn → k ∈ (mergeLists m va.fr.cols vb.fr.cols pj).1 :=
            fun k hk => merge_left_keys m va.fr.cols vb.fr.cols pj hRn hk (hlo k hk)
          have hprk : ∀ k, k ∈ m.rightOn → k ∈ (mergeLists m va.fr.cols vb.fr.cols pj).2 :=
            fun k hk => merge_right_keys m va.fr.cols vb.fr.cols pj hRn hk (hro k hk)
          -- the pruned merge is well-formed
          obtain ⟨hlnd', hkeys'⟩ := C04_merge_pruned_wf m va.fr.cols vb.fr.cols hLn hRn hkeys hlnd pj
          have hok' : mergeOK m (mergeLists m va.fr.cols vb.fr.cols pj).1 (mergeLists m va.fr.cols vb.fr.cols pj).2 = true := by
            rw [mergeOK_iff]
            exact ⟨hplk, hprk, hkeys', hlnd'⟩
          have hpa := den_proj_some (s := .many (mergeLists m va.fr.cols vb.fr.cols pj).1) hva hA hplnd hplsub
          have hpb := den_proj_some (s := .many (mergeLists m va.fr.cols vb.fr.cols pj).2) hvb hB hprnd hprsub
          have hnew : den I (mk (.merge how m) [proj (.many (mergeLists m va.fr.cols vb.fr.cols pj).1) a,
              proj (.many (mergeLists m va.fr.cols vb.fr.cols pj).2) b]) =
              some ⟨mergeFrame I how m (va.fr.select (mergeLists m va.fr.cols vb.fr.cols pj).1)
                (vb.fr.select (mergeLists m va.fr.cols vb.fr.cols pj).2), false⟩ := by
            rw [den_mk2, hpa, hpb]
            exact (semOp_merge_iff I how m _ _ _).mpr ⟨rfl, rfl, hhow, hok', rfl⟩
          -- every requested label is still produced
          obtain ⟨pl', pr', hch', hlabels⟩ := C04_merge_labels_partial m va.fr.cols vb.fr.cols hRn hkeys (parentOf sel) (depsOf d c) _ hr
          
          simp only [List.cons.injEq, Option.some.injEq, Sel.many.injEq, and_true] at hch'
          obtain ⟨hpl', hpr'⟩ := hch'
          subst hpl'; subst hpr'
          rw [parentOf_cols] at hlabels
          have hsub' : ∀ l, l ∈ sel.toList → l ∈ mergeLabels m va.fr.cols vb.fr.cols := hsub
          rw [den_proj_some hnew rfl hnd (fun l hl => hlabels l hl (hsub' l hl))]
          congr 2
          apply select_congr
          intro l hl
          have hml := hsub' l hl
          have hr0 := hr
          rw [← hproj] at hr0
          have hlo' : ∀ k, k ∈ (mergeM I how m).m.leftOn → k ∈ va.fr.cols := hlo
          have hro' : ∀ k, k ∈ (mergeM I how m).m.rightOn → k ∈ vb.fr.cols := hro
          unfold mergeLabels at hml
          rcases List.mem_append.mp hml with hm | hm
          · obtain ⟨c0, hc0, rfl⟩ := List.mem_map.mp hm
            have := C04_merge_values_left_partial (mergeM I how m) va.fr vb.fr hLn hRn hlnd hkeys hlo' hro'
              (parentOf sel) (depsOf d c) _ hr0 c0 hc0 (by rw [parentOf_cols]; exact hl)
            rw [parentOf_cols, hproj] at this
            simp only [evalMerge, selOpt_many, mergeM_m, mergeM_op] at this
            rw [select_val_mem hl, select_val_mem hl] at this
            exact this
          · obtain ⟨c0, hc0, rfl⟩ := List.mem_map.mp hm
            have hc0R := (List.mem_filter.mp hc0).1
            have hck : commonKey m c0 = false := by simpa using (List.mem_filter.mp hc0).2
            have := C04_merge_values_right_partial (mergeM I how m) va.fr vb.fr hLn hRn hlnd hkeys hlo' hro'
              (parentOf sel) (depsOf d c) _ hr0 c0 hc0R hck (by rw [parentOf_cols]; exact hl)
            rw [parentOf_cols, hproj] at this
            simp only [evalMerge, selOpt_many, mergeM_m, mergeM_op] at this
            rw [select_val_mem hl, select_val_mem hl] at this
            exact this

end Dx.Frag
