/-
  Lemmas/Head.lean — evaluation of the lowered head / tail graphs, list facts about `take`,
  truthful divisions of Head / Tail.
-/
import DxModel.Layers.Head
import DxModel.Lemmas.Partitions
import DxModel.Lemmas.Blockwise
namespace Dx.Head
open Dx Dx.Parts Dx.Repartition

/-! ### list facts -/

theorem take_append_take {α} (n : Nat) (a b : List α) : (a.take n ++ b).take n = (a ++ b).take n := by
  rw [List.take_append, List.take_append, List.take_take, Nat.min_self, List.length_take]
  congr 2
  omega

theorem take_append_take_right {α} (n : Nat) (a b : List α) : (a ++ b.take n).take n = (a ++ b).take n := by
  rw [List.take_append, List.take_append, List.take_take]
  congr 2
  omega

/-- taking `n` rows of the concatenation of per-partition `n`-heads is taking `n` rows of the concatenation -/
theorem take_flatMap_take {α β} (n : Nat) (f : α → List β) :
    ∀ (l : List α), (l.flatMap (fun x => (f x).take n)).take n = (l.flatMap f).take n := by
  intro l
  induction l with
  | nil => rfl
  | cons x t ih =>
    simp only [List.flatMap_cons]
    rw [take_append_take, ← take_append_take_right, ih, take_append_take_right]

theorem take_take_min {α} (m n : Nat) (l : List α) : (l.take n).take m = l.take (min m n) := by
  rw [List.take_take]

/-! ### the lowered head graph -/

theorem run_head_dep (I : Interp) (pl : HeadPlan) (n : Nat) (parts : Nat → List Row) (F i : Nat) :
    run I (headTask pl n) (inputs parts) F (.dep i) = .frame (parts i) := by
  rw [run_undefined I (headTask pl n) (inputs parts) (.dep i) rfl]; rfl

theorem run_head_sel (I : Interp) (pl : HeadPlan) (n : Nat) (parts : Nat → List Row) (F j : Nat)
    (hj : j < pl.parts.length) :
    run I (headTask pl n) (inputs parts) (F+1) (.sel j) = .frame (sel pl.parts parts j) := by
  have hg : headTask pl n (.sel j) = some (.alias (.dep pl.parts[j])) := by
    simp [headTask, List.getElem?_eq_getElem hj]
  rw [run_defined _ _ _ F _ _ hg]
  simp only [evalTsk, run_head_dep, sel, List.getElem?_eq_getElem hj]

theorem run_head_bh (I : Interp) (hI : HeadInterp I) (pl : HeadPlan) (n : Nat) (parts : Nat → List Row) (F j : Nat)
    (hj : j < pl.parts.length) :
    run I (headTask pl n) (inputs parts) (F+2) (.bh j) = .frame ((sel pl.parts parts j).take n) := by
  have hg : headTask pl n (.bh j) = some (.apply (headFn n pl.safe1) [.sel j]) := by
    simp [headTask, hj]
  rw [run_defined _ _ _ (F+1) _ _ hg]
  simp only [evalTsk, List.map_cons, List.map_nil, run_head_sel I pl n parts F j hj, hI.head]

theorem run_head_rep (I : Interp) (hI : HeadInterp I) (pl : HeadPlan) (n : Nat) (parts : Nat → List Row) (F : Nat)
    (h2 : pl.second.isSome) (hne : pl.parts.length ≠ 1) :
    run I (headTask pl n) (inputs parts) (F+3) .rep =
      .frame ((List.range pl.parts.length).flatMap (fun j => (sel pl.parts parts j).take n)) := by
  have hg : headTask pl n .rep = some (.concat ((List.range pl.parts.length).map Key.bh) false) := by
    simp [headTask, h2, hne]
  rw [run_defined _ _ _ (F+2) _ _ hg]
  simp only [evalTsk]
  apply eval_concat I _ (List.range pl.parts.length) Key.bh _ _ false
  intro j hj
  have hjl := List.mem_range.mp hj
  rw [run_head_bh I hI pl n parts F j hjl]

theorem flatMap_sel (P : List Nat) (parts : Nat → List Row) :
    (List.range P.length).flatMap (sel P parts) = P.flatMap parts := by
  induction P with
  | nil => rfl
  | cons a t ih =>
    rw [List.length_cons, List.range_succ_eq_map, List.flatMap_cons, List.flatMap_map, List.flatMap_cons, ← ih]
    congr 1

/-- The lowered head graph: the single output is `take n` of the concatenation of the selected partitions. -/
theorem run_head (I : Interp) (hI : HeadInterp I) (pl : HeadPlan) (n : Nat) (parts : Nat → List Row)
    (hpos : pl.second = none → pl.parts.length = 1) (hne : pl.parts ≠ []) (F : Nat) :
    run I (headTask pl n) (inputs parts) (F+4) (outKey pl) = .frame ((pl.parts.flatMap parts).take n) := by
  have hlen : 0 < pl.parts.length := List.length_pos_iff.mpr hne
  cases h2 : pl.second with
  | none =>
    have h1 := hpos h2
    have hout : outKey pl = .bh 0 := by simp [outKey, h2]
    rw [hout, run_head_bh I hI pl n parts (F+2) 0 hlen]
    congr 2
    obtain ⟨a, ha⟩ := List.length_eq_one_iff.mp h1
    simp [sel, ha]
  | some safe2 =>
    have hout : outKey pl = .out := by simp [outKey, h2]
    rw [hout]
    by_cases h1 : pl.parts.length = 1
    · have hg : headTask pl n .out = some (.apply (headFn n safe2) [.bh 0]) := by simp [headTask, h2, h1]
      rw [run_defined _ _ _ (F+3) _ _ hg]
      simp only [evalTsk, List.map_cons, List.map_nil, run_head_bh I hI pl n parts (F+1) 0 hlen, hI.head]
      rw [List.take_take, Nat.min_self]
      congr 2
      obtain ⟨a, ha⟩ := List.length_eq_one_iff.mp h1
      simp [sel, ha]
    · have hg : headTask pl n .out = some (.apply (headFn n safe2) [.rep]) := by simp [headTask, h2, h1]
      rw [run_defined _ _ _ (F+3) _ _ hg]
      simp only [evalTsk, List.map_cons, List.map_nil,
        run_head_rep I hI pl n parts F (by simp [h2]) h1, hI.head]
      rw [take_flatMap_take n (sel pl.parts parts), flatMap_sel]

/-- The lowered tail graph: the last `n` rows of the last partition. -/
theorem run_tail (I : Interp) (hI : HeadInterp I) (np n : Nat) (parts : Nat → List Row) (F : Nat) :
    run I (tailTask np n) (inputs parts) (F+2) (.bh 0) =
      .frame ((parts (np - 1)).drop ((parts (np - 1)).length - n)) := by
  have hg : tailTask np n (.bh 0) = some (.apply (tailFn n) [.sel 0]) := rfl
  rw [run_defined _ _ _ (F+1) _ _ hg]
  have hs : tailTask np n (.sel 0) = some (.alias (.dep (np - 1))) := rfl
  simp only [evalTsk, List.map_cons, List.map_nil]
  rw [run_defined _ _ _ F _ _ hs]
  simp only [evalTsk]
  rw [run_undefined I (tailTask np n) (inputs parts) (.dep (np - 1)) rfl]
  simp [inpVal, inputs, hI.tail]

theorem I0_headInterp : HeadInterp I0 := by
  refine ⟨?_, ?_⟩
  · intro n safe rows
    have h1 : (headFn n safe) % 4 ≠ 1 := by unfold headFn; split <;> omega
    have h2 : (headFn n safe) / 4 = n := by unfold headFn; split <;> omega
    simp [I0, h1, h2]
  · intro n rows
    have h1 : (tailFn n) % 4 = 1 := by unfold tailFn; omega
    have h2 : (tailFn n) / 4 = n := by unfold tailFn; omega
    simp [I0, h1, h2]

/-! ### `lowerHead` -/

theorem headPartitions_eq (np : Nat) (k : Int) :
    headPartitions np k = List.range (if k > -1 then min k.toNat np else np) := by
  unfold headPartitions
  split
  · rw [List.take_range]
  · rfl

theorem lowerHead_error_iff (np : Nat) (k : Int) : (∃ e, lowerHead np k = .error e) ↔ k > (np : Int) := by
  unfold lowerHead
  split
  · exact ⟨fun _ => by assumption, fun _ => ⟨.value, rfl⟩⟩
  · rename_i hk
    constructor
    · intro h
      obtain ⟨e, he⟩ := h
      cases he
    · intro h
      exact absurd h hk

theorem lowerHead_ok (np : Nat) (k : Int) (pl : HeadPlan) (h : lowerHead np k = .ok pl) :
    pl.parts = headPartitions np k ∧ (pl.second = none → k = 1) := by
  unfold lowerHead at h
  split at h
  · cases h
  · cases h
    refine ⟨rfl, ?_⟩
    intro hs
    by_cases hk : k = 1
    · exact hk
    · simp [hk] at hs

/-! ### truthful divisions of Head and Tail -/

theorem mem_take_flatMap_range {parts : Nat → List Row} {k n : Nat} {r : Row}
    (hr : r ∈ (((List.range k).flatMap parts).take n)) : ∃ i, i < k ∧ r ∈ parts i := by
  obtain ⟨i, hi, hri⟩ := List.mem_flatMap.mp (List.mem_of_mem_take hr)
  exact ⟨i, List.mem_range.mp hi, hri⟩

theorem range_flatMap_sublist (parts : Nat → List Row) {k n : Nat} (h : k ≤ n) :
    ((List.range k).flatMap parts).Sublist ((List.range n).flatMap parts) := by
  obtain ⟨m, rfl⟩ : ∃ m, n = k + m := ⟨n - k, by omega⟩
  rw [List.range_add, List.flatMap_append]
  exact List.sublist_append_left _ _

/-- `Head._divisions` (`k` leading partitions, `1 ≤ k ≤ n`): `(d[0], d[k])` bounds the head. -/
theorem divInv_head (d : List Int) (np : Nat) (parts : Nat → List Row) (k n : Nat) (lo hi : Int)
    (hinv : DivInv d np parts) (hk : k ≤ np) (hlo : d[0]? = some lo) (hhi : d[k]? = some hi) :
    DivInv [lo, hi] 1 (fun _ => ((List.range k).flatMap parts).take n) := by
  have hlen := hinv.len
  refine ⟨rfl, ?_, ?_, ?_⟩
  · have := sorted_getElem? hinv.sorted (Nat.zero_le k) hlo hhi
    simp [this]
  · intro i lo' hi' hlo' hhi' r hr
    have hi0 : i = 0 := by
      have := (List.getElem?_eq_some_iff.mp hhi').1
      simp at this; omega
    subst hi0
    simp at hlo' hhi'
    subst hlo' hhi'
    obtain ⟨i, hik, hri⟩ := mem_take_flatMap_range hr
    have hi0 : i < d.length := by omega
    have hi1 : i + 1 < d.length := by omega
    have hb := hinv.bounds i d[i] d[i+1] (List.getElem?_eq_getElem hi0) (List.getElem?_eq_getElem hi1) r hri
    have h1 : lo ≤ d[i] := sorted_getElem? hinv.sorted (Nat.zero_le i) hlo (List.getElem?_eq_getElem hi0)
    have h2 : d[i+1] ≤ hi := sorted_getElem? hinv.sorted (by omega) (List.getElem?_eq_getElem hi1) hhi
    refine ⟨by omega, ?_⟩
    rcases hb.2 with h3 | ⟨h3a, h3b⟩
    · exact Or.inl (by omega)
    · -- i is the last partition of the frame, so k = np and hi = d[np]
      have hik' : i + 1 = k := by omega
      have : d[i+1]? = some hi := by rw [hik']; exact hhi
      rw [List.getElem?_eq_getElem hi1] at this
      cases this
      exact Or.inr ⟨rfl, h3b⟩
  · intro i _
    have hs := allRows_sorted hinv
    unfold allRows at hs
    exact (hs.sublist (range_flatMap_sublist parts hk)).sublist (List.take_sublist _ _)

/-- `Tail._divisions`: `d[-2:]` bounds the last `n` rows of the last partition. -/
theorem divInv_tail (d : List Int) (np : Nat) (parts : Nat → List Row) (n : Nat)
    (hinv : DivInv d np parts) (hnp : 1 ≤ np) :
    DivInv (tailDivisions d) 1 (fun _ => (parts (np - 1)).drop ((parts (np - 1)).length - n)) := by
  have hlen := hinv.len
  have hd : tailDivisions d = [d[np - 1]'(by omega), d[np]'(by omega)] := by
    unfold tailDivisions
    apply List.ext_getElem
    · simp; omega
    · intro i h1 h2
      simp at h2
      have hdl : d.length - 2 = np - 1 := by omega
      match i with
      | 0 => simp [hdl]
      | 1 => simp [hdl]; congr 1; omega
      | i+2 => omega
  rw [hd]
  have h0 : np - 1 < d.length := by omega
  have h1 : np - 1 + 1 < d.length := by omega
  refine ⟨rfl, ?_, ?_, ?_⟩
  · have := sorted_getElem? hinv.sorted (by omega : np - 1 ≤ np) (List.getElem?_eq_getElem h0)
      (List.getElem?_eq_getElem (by omega : np < d.length))
    simp [this]
  · intro i lo' hi' hlo' hhi' r hr
    have hi0 : i = 0 := by
      have := (List.getElem?_eq_some_iff.mp hhi').1
      simp at this; omega
    subst hi0
    simp at hlo' hhi'
    subst hlo' hhi'
    have hb := hinv.bounds (np - 1) d[np - 1] d[np - 1 + 1] (List.getElem?_eq_getElem h0)
      (List.getElem?_eq_getElem h1) r (List.mem_of_mem_drop hr)
    have e : d[np - 1 + 1] = d[np]'(by omega) := by congr 1; omega
    rw [e] at hb
    refine ⟨hb.1, ?_⟩
    rcases hb.2 with h3 | ⟨_, h3b⟩
    · exact Or.inl h3
    · exact Or.inr ⟨rfl, h3b⟩
  · intro i _
    exact (hinv.rowsSorted (np - 1) (by omega)).sublist (List.drop_sublist _ _)

end Dx.Head
