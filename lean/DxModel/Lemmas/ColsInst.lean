/-
  Lemmas/ColsInst.lean — the operator structures of DxModel/Cols.lean (`KeyedOp`, `RelabelOp`, `AssignOp`, `BinOp`,
  `MergeOp`, `ConcatOp`, `ResetOp`, `SourceOp`, `AsTypeOp`, `DropOp`) are inhabited by real operators: for each
  structure a constructor from the column-level functions an operator is made of, with all laws PROVEN, so that no
  theorem of Props/C04.lean quantifies over an empty or degenerate class.  The concrete list-valued instances and the
  non-degeneracy examples are in Props/C04.lean (section 17).
-/
import DxModel.Cols
import DxModel.Lemmas.Cols
import DxModel.Lemmas.ColsRules
import DxModel.Lemmas.ColsSem
import DxModel.Lemmas.ColsMerge
namespace Dx.Cols

variable {γ : Type}

/-! ### single-input operators -/

/-- an operator that treats every column by `f`, given the key columns (elementwise operators: no keys; a filter on
    key columns; a sort by key columns …) -/
def KeyedOp.ofFun (keys : List Name) (f : List (Option γ) → γ → γ) : KeyedOp γ where
  keys := keys
  outCols := id
  op := fun F => ⟨F.cols, fun c => if F.cols.contains c then (F.val c).map (f (keys.map F.val)) else none⟩
  T := fun v _ x => x.map (f (keys.map v))
  fresh := fun _ => none
  T_keys := by
    intro v v' h
    have : keys.map v = keys.map v' := List.map_congr_left (fun k hk => h k (List.contains_iff_mem.mpr hk))
    funext c x
    rw [this]
  op_cols := fun _ => rfl
  op_val := by intro F c hc; simp only [hc, if_true]
  op_fresh := by intro F c hc; simp only [hc, Bool.false_eq_true, if_false]

/-- relabelling by any label function: an output label carries the first input column mapped to it -/
def RelabelOp.ofFun (f : Name → Name) : RelabelOp γ where
  f := f
  op := fun F => ⟨F.cols.map f, fun c' => match F.cols.find? (fun c => f c == c') with
    | some c => F.val c
    | none => none⟩
  op_cols := fun _ => rfl
  op_val := by
    intro F c hc hinj
    have hcm : c ∈ F.cols := List.contains_iff_mem.mp hc
    cases hf : F.cols.find? (fun c' => f c' == f c) with
    | none =>
      rw [List.find?_eq_none] at hf
      exact absurd (by simp) (hf c hcm)
    | some c' =>
      have h1 := List.find?_some hf
      have h2 := List.mem_of_find?_eq_some hf
      have : c' = c := hinj c' (List.contains_iff_mem.mpr h2) (by simpa using h1)
      subst this
      simp only [hf]

/-- `methods.assign`: the last pair of a key wins, every other column is passed through -/
def AssignOp.std : AssignOp γ where
  op := fun kv F => ⟨assignLabels F.cols (kv.map (·.1)), fun c =>
    if (kv.map (·.1)).contains c then (kv.reverse.find? (fun e => e.1 == c)).map (·.2) else F.val c⟩
  op_cols := fun _ _ => rfl
  op_key := by intro kv F k hk; simp only [hk, if_true]
  op_other := by intro kv F c hc; simp only [hc, Bool.false_eq_true, if_false]

/-- column-wise binary operator -/
def BinOp.ofFun (g : γ → γ → γ) : BinOp γ where
  op := fun A B => ⟨A.cols, fun c =>
    match (if A.cols.contains c then A.val c else none), (if B.cols.contains c then B.val c else none) with
    | some x, some y => some (g x y)
    | _, _ => none⟩
  g := fun _ x y => match x, y with
    | some x, some y => some (g x y)
    | _, _ => none
  outCols := fun a _ => a
  op_cols := fun _ _ => rfl
  op_val := fun _ _ _ => rfl

/-- row-wise concatenation from a stacking function of the per-input blocks -/
def ConcatOp.ofStack (labels : List (List Name) → List Name) (stack : List (Option γ) → Option γ) : ConcatOp γ where
  op := fun Fs => ⟨labels (Fs.map (·.cols)), fun c => stack (Fs.map (fun F => if F.cols.contains c then F.val c else none))⟩
  C := stack
  op_val := fun _ _ => rfl

/-- reset_index with a given former index column -/
def ResetOp.ofIndex (idx : Option γ) (label : List Name → Name) : ResetOp γ where
  op := fun d F => ⟨if d then F.cols else label F.cols :: F.cols, fun c =>
    if F.cols.contains c then F.val c else if c = label F.cols && !d then idx else none⟩
  idx := idx
  label := label
  op_cols := fun _ _ => rfl
  op_val := by intro d F c hc; simp only [hc, if_true]
  op_idx := by intro F h; simp only [h, Bool.false_eq_true, if_false, Bool.not_false, Bool.and_true, decide_true, if_true]

/-- a source reading the listed columns of a table -/
def SourceOp.ofData (data : Name → Option γ) : SourceOp γ where
  read := fun cs => ⟨cs, fun c => if cs.contains c then data c else none⟩
  data := data
  read_cols := fun _ => rfl
  read_val := by intro cs c hc; simp only [hc, if_true]

/-- astype: the flagged columns are cast -/
def AsTypeOp.ofCast (cast : γ → γ) : AsTypeOp γ where
  op := fun dk F => ⟨F.cols, fun c => if F.cols.contains c then (if castFlag dk c then (F.val c).map cast else F.val c) else none⟩
  cast := fun b _ x => if b then x.map cast else x
  op_cols := fun _ _ => rfl
  op_val := by intro dk F c hc; simp only [hc, if_true]
  cast_false := fun _ _ => rfl

def DropOp.std : DropOp γ where
  op := fun cs F => ⟨F.cols.filter (fun c => !cs.contains c), fun c =>
    if (F.cols.filter (fun c => !cs.contains c)).contains c then F.val c else none⟩
  op_cols := fun _ _ => rfl
  op_val := by
    intro cs F c hc hn
    have : c ∈ F.cols.filter (fun c => !cs.contains c) :=
      List.mem_filter.mpr ⟨List.contains_iff_mem.mp hc, by rw [hn]; rfl⟩
    simp only [List.contains_iff_mem.mpr this, if_true]

/-! ### joins -/

/-- the frame a join computes: result label ↦ the input column that carries it, re-indexed by the row matching that
    `jl` / `jr` compute from the key columns of both sides -/
def joinFrame (m : MergeP) (jl jr : List (Option γ) → List (Option γ) → γ → γ) (A B : Frame γ) : Frame γ :=
  ⟨mergeLabels m A.cols B.cols, fun l =>
    match A.cols.find? (fun c => labelL m B.cols c == l) with
    | some c => (A.val c).map (jl (m.leftOn.map A.val) (m.rightOn.map B.val))
    | none => match (B.cols.filter (fun c => !commonKey m c)).find? (fun c => labelR m A.cols c == l) with
      | some c => (B.val c).map (jr (m.leftOn.map A.val) (m.rightOn.map B.val))
      | none => none⟩

theorem joinFrame_val_left (m : MergeP) (jl jr : List (Option γ) → List (Option γ) → γ → γ) (A B : Frame γ)
    (hnd : (mergeLabels m A.cols B.cols).Nodup) {c : Name} (hc : c ∈ A.cols) :
    (joinFrame m jl jr A B).val (labelL m B.cols c) = (A.val c).map (jl (m.leftOn.map A.val) (m.rightOn.map B.val)) := by
  unfold mergeLabels at hnd
  rw [List.nodup_append] at hnd
  simp only [joinFrame, find?_eq_of_inj (labelL m B.cols) A.cols hnd.1 hc]

theorem joinFrame_val_right (m : MergeP) (jl jr : List (Option γ) → List (Option γ) → γ → γ) (A B : Frame γ)
    (hnd : (mergeLabels m A.cols B.cols).Nodup) {c : Name} (hc : c ∈ B.cols) (hck : commonKey m c = false) :
    (joinFrame m jl jr A B).val (labelR m A.cols c) = (B.val c).map (jr (m.leftOn.map A.val) (m.rightOn.map B.val)) := by
  unfold mergeLabels at hnd
  rw [List.nodup_append] at hnd
  have hcf : c ∈ B.cols.filter (fun c => !commonKey m c) := List.mem_filter.mpr ⟨hc, by simp [hck]⟩
  have hnone : A.cols.find? (fun x => labelL m B.cols x == labelR m A.cols c) = none := by
    apply find?_none_of_not_mem_map
    intro hm
    exact hnd.2.2 _ hm _ (List.mem_map.mpr ⟨c, hcf, rfl⟩) rfl
  simp only [joinFrame, hnone, find?_eq_of_inj (labelR m A.cols) _ hnd.2.1 hcf]

/-- **every join given by a row matching on the key columns is a `MergeOp`** -/
def MergeOp.ofJoin (m : MergeP) (jl jr : List (Option γ) → List (Option γ) → γ → γ) : MergeOp γ where
  m := m
  op := joinFrame m jl jr
  TL := fun l r x => x.map (jl (m.leftOn.map l) (m.rightOn.map r))
  TR := fun l r x => x.map (jr (m.leftOn.map l) (m.rightOn.map r))
  T_keys := by
    intro l l' r r' hl hr
    have e1 : m.leftOn.map l = m.leftOn.map l' := List.map_congr_left (fun k hk => hl k (List.contains_iff_mem.mpr hk))
    have e2 : m.rightOn.map r = m.rightOn.map r' := List.map_congr_left (fun k hk => hr k (List.contains_iff_mem.mpr hk))
    rw [e1, e2]
    exact ⟨rfl, rfl⟩
  op_cols := fun _ _ => rfl
  op_left := fun A B _ hnd hc => joinFrame_val_left m jl jr A B hnd (List.contains_iff_mem.mp hc)
  op_right := fun A B _ hnd hc hck => joinFrame_val_right m jl jr A B hnd (List.contains_iff_mem.mp hc) hck

/-! ### a real join on list-valued columns (cells are `Option Int`, `none` = null) -/

abbrev LCol := List (Option Int)

/-- the key of row `i`: its cells in the key columns -/
def keyAt (keys : List (Option LCol)) (i : Nat) : List (Option Int) :=
  keys.map (fun col => match col with
    | some c => c.getD i none
    | none => none)

def nRows (keys : List (Option LCol)) : Nat :=
  match keys with
  | some c :: _ => c.length
  | _ => 0

/-- rows match when their keys are equal and contain no null -/
def keyMatch (lk rk : List (Option LCol)) (i j : Nat) : Bool :=
  keyAt lk i == keyAt rk j && (keyAt lk i).all Option.isSome

/-- the (left row, right row) pairs of an inner (`left = false`) or left (`left = true`) join, in left order;
    an unmatched left row of a left join is paired with no right row -/
def joinPairs (left : Bool) (lk rk : List (Option LCol)) : List (Nat × Option Nat) :=
  (List.range (nRows lk)).flatMap (fun i =>
    match (List.range (nRows rk)).filter (keyMatch lk rk i) with
    | [] => if left then [(i, none)] else []
    | js => js.map (fun j => (i, some j)))

def takeLeft (left : Bool) (lk rk : List (Option LCol)) (x : LCol) : LCol :=
  (joinPairs left lk rk).map (fun ij => x.getD ij.1 none)

def takeRight (left : Bool) (lk rk : List (Option LCol)) (x : LCol) : LCol :=
  (joinPairs left lk rk).map (fun ij => match ij.2 with
    | some j => x.getD j none
    | none => none)

/-- inner / left join of list-valued frames on the columns `m.leftOn` / `m.rightOn` -/
def listMerge (left : Bool) (m : MergeP) : MergeOp LCol := MergeOp.ofJoin m (takeLeft left) (takeRight left)

end Dx.Cols
