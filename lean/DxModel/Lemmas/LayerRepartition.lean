/-
  Lemmas/LayerRepartition.lean — `LayerWF` of the four repartition layers (Layers/Repartition.lean) for all
  parameters.  The float-computed parameters (boundaries, split counts) enter through exactly the hypotheses
  the harness checks on the real values (T3): boundaries do not exceed the number of available partitions /
  pieces; for RepartitionDivisions the emitted plan refers to existing pieces and input partitions
  (`divStateOK`, decidable, checked on every enumerated real plan).
-/
import DxModel.LayerOK
import DxModel.Lemmas.Repartition
import DxModel.Layers.LayerChecks
namespace Dx
namespace Repartition

def outIdx : Key → Option Nat
  | .out j => some j
  | _ => none

def depOf : Key → Option (Nat × Nat)
  | .dep i => some (0, i)
  | _ => none

def rank : Key → Nat
  | .dep _ => 0
  | .split _ => 1
  | .piece _ => 2
  | .out _ => 3

theorem mem_range' {s n x : Nat} : x ∈ List.range' s n ↔ s ≤ x ∧ x < s + n := by
  simp [List.mem_range']
  constructor
  · rintro ⟨i, hi, rfl⟩; omega
  · intro h; exact ⟨x - s, by omega, by omega⟩

/-! ### RepartitionToFewer -/

def fewerSpec (bs : List Nat) : LSpec Key :=
  { task := fewerTask bs, nout := bs.length - 1, out := Key.out, outIdx := outIdx, depOf := depOf
    rank := rank, bound := 3 }

theorem fewer_isSome (bs : List Nat) (i : Nat) : (fewerTask bs (.out i)).isSome ↔ i + 1 < bs.length := by
  simp only [fewerTask]
  constructor
  · intro h
    cases h1 : bs[i+1]? with
    | none => cases h0 : bs[i]? <;> simp [h0, h1] at h
    | some e => exact (List.getElem?_eq_some_iff.mp h1).1
  · intro h
    have h0 : i < bs.length := by omega
    simp [List.getElem?_eq_getElem h, List.getElem?_eq_getElem h0]

theorem fewer_wf (bs : List Nat) (nin : Nat) (hb : ∀ x ∈ bs, x ≤ nin) : LayerWF (fewerSpec bs) [nin] where
  out_idx := by intro i _; rfl
  outs_defined := by intro i hi; exact (fewer_isSome bs i).mpr (by simp only [fewerSpec] at hi; omega)
  outs_exact := by
    intro k i hk hidx
    cases k <;> simp [fewerSpec, outIdx] at hidx
    subst hidx
    have := (fewer_isSome bs _).mp hk
    exact ⟨by simp only [fewerSpec]; omega, rfl⟩
  own := by intro k hk; cases k <;> simp [fewerSpec, fewerTask, depOf] at hk ⊢
  closed := by
    intro k t hk r hr
    cases k with
    | out i =>
      simp only [fewerSpec, fewerTask] at hk
      cases h0 : bs[i]? with
      | none => simp [h0] at hk
      | some s =>
        cases h1 : bs[i+1]? with
        | none => simp [h0, h1] at hk
        | some e =>
          simp only [h0, h1, Option.some.injEq] at hk
          subst hk
          simp only [Tsk.refs, List.mem_map] at hr
          obtain ⟨j, hj, rfl⟩ := hr
          have := mem_range'.mp hj
          have he := hb e (List.mem_of_getElem? h1)
          right; exact ⟨0, j, nin, rfl, rfl, by omega⟩
    | _ => simp [fewerSpec, fewerTask] at hk
  ranked := by
    intro k t hk r hr hdef
    cases k with
    | out i =>
      simp only [fewerSpec, fewerTask] at hk
      cases h0 : bs[i]? with
      | none => simp [h0] at hk
      | some s =>
        cases h1 : bs[i+1]? with
        | none => simp [h0, h1] at hk
        | some e =>
          simp only [h0, h1, Option.some.injEq] at hk
          subst hk
          simp only [Tsk.refs, List.mem_map] at hr
          obtain ⟨j, _, rfl⟩ := hr
          simp [fewerSpec, rank]
    | _ => simp [fewerSpec, fewerTask] at hk
  bounded := by intro k _; cases k <;> simp [fewerSpec, rank]

/-- the hypothesis of `fewer_wf` follows from the one of `C13_fewer` -/
theorem boundariesOK_le (bs : List Nat) (nin : Nat) (h : boundariesOK bs nin = true) : ∀ x ∈ bs, x ≤ nin := by
  obtain ⟨_, hl, hm⟩ := boundariesOK_iff.mp h
  exact mono_le_last bs nin hm hl

theorem fewer_wf_of_check (bs : List Nat) (nin : Nat) (h : fewerBoundsOK bs nin = true) :
    LayerWF (fewerSpec bs) [nin] := by
  apply fewer_wf
  simpa [fewerBoundsOK] using h

/-! ### RepartitionToMore -/

theorem locate_lt_sum : ∀ (ns : List Nat) (i0 j : Nat) (loc : Nat × Nat × Nat), locate ns i0 j = some loc → j < sum ns := by
  intro ns
  induction ns with
  | nil => intro i0 j loc h; simp [locate] at h
  | cons k ks ih =>
    intro i0 j loc h
    by_cases hj : j < k
    · simp [sum]; omega
    · have : j = k + (j - k) := by omega
      rw [this, locate_ge] at h
      have := ih _ _ _ h
      simp [sum]; omega

def moreSpec (ns : List Nat) : LSpec Key :=
  { task := moreTask ns, nout := sum ns, out := Key.out, outIdx := outIdx, depOf := depOf
    rank := rank, bound := 3 }

theorem more_out_isSome (ns : List Nat) (j : Nat) : (moreTask ns (.out j)).isSome ↔ j < sum ns := by
  simp only [moreTask]
  constructor
  · intro h
    cases hl : locate ns 0 j with
    | none => simp [hl] at h
    | some loc => exact locate_lt_sum ns 0 j loc hl
  · intro h
    obtain ⟨⟨i, jj, k⟩, hl⟩ := locate_some_of_lt ns 0 j h
    simp only [hl]
    split <;> simp

theorem more_wf (ns : List Nat) : LayerWF (moreSpec ns) [ns.length] where
  out_idx := by intro i _; rfl
  outs_defined := by intro i hi; exact (more_out_isSome ns i).mpr hi
  outs_exact := by
    intro k i hk hidx
    cases k <;> simp [moreSpec, outIdx] at hidx
    subst hidx
    exact ⟨(more_out_isSome ns _).mp hk, rfl⟩
  own := by intro k hk; cases k <;> simp [moreSpec, moreTask, depOf] at hk ⊢
  closed := by
    intro k t hk r hr
    cases k with
    | out j =>
      simp only [moreSpec, moreTask] at hk
      cases hl : locate ns 0 j with
      | none => simp [hl] at hk
      | some loc =>
        obtain ⟨i, jj, kk⟩ := loc
        obtain ⟨_, h2, _⟩ := locate_spec ns 0 j i jj kk hl
        simp only [Nat.sub_zero] at h2
        have hi : i < ns.length := (List.getElem?_eq_some_iff.mp h2).1
        simp only [hl] at hk
        split at hk
        · cases hk
          simp only [Tsk.refs, List.mem_singleton] at hr
          subst hr
          right; exact ⟨0, i, ns.length, rfl, rfl, hi⟩
        · rename_i hne
          cases hk
          simp only [Tsk.refs, List.mem_singleton] at hr
          subst hr
          left; simp [moreSpec, moreTask, h2, hne]
    | split i =>
      simp only [moreSpec, moreTask] at hk
      cases h2 : ns[i]? with
      | none => simp [h2] at hk
      | some kk =>
        simp only [h2] at hk
        split at hk
        · cases hk
        · cases hk
          simp only [Tsk.refs, List.mem_singleton] at hr
          subst hr
          right; exact ⟨0, i, ns.length, rfl, rfl, (List.getElem?_eq_some_iff.mp h2).1⟩
    | _ => simp [moreSpec, moreTask] at hk
  ranked := by
    intro k t hk r hr hdef
    cases k with
    | out j =>
      simp only [moreSpec, moreTask] at hk
      cases hl : locate ns 0 j with
      | none => simp [hl] at hk
      | some loc =>
        obtain ⟨i, jj, kk⟩ := loc
        simp only [hl] at hk
        split at hk <;> cases hk <;> simp only [Tsk.refs, List.mem_singleton] at hr <;> subst hr <;>
          simp [moreSpec, rank]
    | split i =>
      simp only [moreSpec, moreTask] at hk
      cases h2 : ns[i]? with
      | none => simp [h2] at hk
      | some kk =>
        simp only [h2] at hk
        split at hk
        · cases hk
        · cases hk
          simp only [Tsk.refs, List.mem_singleton] at hr
          subst hr; simp [moreSpec, rank]
    | _ => simp [moreSpec, moreTask] at hk
  bounded := by intro k _; cases k <;> simp [moreSpec, rank]

/-! ### RepartitionSize -/

def sizeSpec (ns bs : List Nat) : LSpec Key :=
  { task := sizeTask ns bs, nout := bs.length - 1, out := Key.out, outIdx := outIdx, depOf := depOf
    rank := rank, bound := 3 }

theorem size_out_isSome (ns bs : List Nat) (i : Nat) : (sizeTask ns bs (.out i)).isSome ↔ i + 1 < bs.length := by
  simp only [sizeTask]
  constructor
  · intro h
    cases h1 : bs[i+1]? with
    | none => cases h0 : bs[i]? <;> simp [h0, h1] at h
    | some e => exact (List.getElem?_eq_some_iff.mp h1).1
  · intro h
    have h0 : i < bs.length := by omega
    simp [List.getElem?_eq_getElem h, List.getElem?_eq_getElem h0]

theorem size_piece_isSome (ns bs : List Nat) (ha : anySplit ns = true) (j : Nat) (hj : j < sum ns) :
    (sizeTask ns bs (.piece j)).isSome := by
  simp only [sizeTask, ha, if_true]
  obtain ⟨⟨i, jj, k⟩, hl⟩ := locate_some_of_lt ns 0 j hj
  simp only [hl]
  split <;> simp

/-- the boundaries count the pieces (when some partition is split) or the input partitions (T3-checked) -/
theorem size_wf (ns bs : List Nat)
    (hb : ∀ x ∈ bs, x ≤ (if anySplit ns then sum ns else ns.length)) : LayerWF (sizeSpec ns bs) [ns.length] where
  out_idx := by intro i _; rfl
  outs_defined := by intro i hi; exact (size_out_isSome ns bs i).mpr (by simp only [sizeSpec] at hi; omega)
  outs_exact := by
    intro k i hk hidx
    cases k <;> simp [sizeSpec, outIdx] at hidx
    subst hidx
    have := (size_out_isSome ns bs _).mp hk
    exact ⟨by simp only [sizeSpec]; omega, rfl⟩
  own := by intro k hk; cases k <;> simp [sizeSpec, sizeTask, depOf] at hk ⊢
  closed := by
    intro k t hk r hr
    cases k with
    | out i =>
      simp only [sizeSpec, sizeTask] at hk
      cases h0 : bs[i]? with
      | none => simp [h0] at hk
      | some s =>
        cases h1 : bs[i+1]? with
        | none => simp [h0, h1] at hk
        | some e =>
          simp only [h0, h1, Option.some.injEq] at hk
          subst hk
          simp only [Tsk.refs, List.mem_map] at hr
          obtain ⟨j, hj, rfl⟩ := hr
          have hjr := mem_range'.mp hj
          have he := hb e (List.mem_of_getElem? h1)
          cases ha : anySplit ns with
          | true =>
            simp only [ha, if_true] at he ⊢
            left; exact size_piece_isSome ns bs ha j (by omega)
          | false =>
            simp only [ha, Bool.false_eq_true, if_false] at he ⊢
            right; exact ⟨0, j, ns.length, rfl, rfl, by omega⟩
    | piece j =>
      simp only [sizeSpec, sizeTask] at hk
      split at hk
      · rename_i ha
        cases hl : locate ns 0 j with
        | none => simp [hl] at hk
        | some loc =>
          obtain ⟨i, jj, kk⟩ := loc
          obtain ⟨_, h2, _⟩ := locate_spec ns 0 j i jj kk hl
          simp only [Nat.sub_zero] at h2
          have hi : i < ns.length := (List.getElem?_eq_some_iff.mp h2).1
          simp only [hl] at hk
          split at hk
          · cases hk
            simp only [Tsk.refs, List.mem_singleton] at hr
            subst hr
            right; exact ⟨0, i, ns.length, rfl, rfl, hi⟩
          · rename_i hne
            cases hk
            simp only [Tsk.refs, List.mem_singleton] at hr
            subst hr
            left; simp [sizeSpec, sizeTask, ha, h2, hne]
      · cases hk
    | split i =>
      simp only [sizeSpec, sizeTask] at hk
      split at hk
      · cases h2 : ns[i]? with
        | none => simp [h2] at hk
        | some kk =>
          simp only [h2] at hk
          split at hk
          · cases hk
          · cases hk
            simp only [Tsk.refs, List.mem_singleton] at hr
            subst hr
            right; exact ⟨0, i, ns.length, rfl, rfl, (List.getElem?_eq_some_iff.mp h2).1⟩
      · cases hk
    | dep _ => simp [sizeSpec, sizeTask] at hk
  ranked := by
    intro k t hk r hr hdef
    cases k with
    | out i =>
      simp only [sizeSpec, sizeTask] at hk
      cases h0 : bs[i]? with
      | none => simp [h0] at hk
      | some s =>
        cases h1 : bs[i+1]? with
        | none => simp [h0, h1] at hk
        | some e =>
          simp only [h0, h1, Option.some.injEq] at hk
          subst hk
          simp only [Tsk.refs, List.mem_map] at hr
          obtain ⟨j, _, rfl⟩ := hr
          split <;> simp [sizeSpec, rank]
    | piece j =>
      simp only [sizeSpec, sizeTask] at hk
      split at hk
      · cases hl : locate ns 0 j with
        | none => simp [hl] at hk
        | some loc =>
          obtain ⟨i, jj, kk⟩ := loc
          simp only [hl] at hk
          split at hk <;> cases hk <;> simp only [Tsk.refs, List.mem_singleton] at hr <;> subst hr <;>
            simp [sizeSpec, rank]
      · cases hk
    | split i =>
      simp only [sizeSpec, sizeTask] at hk
      split at hk
      · cases h2 : ns[i]? with
        | none => simp [h2] at hk
        | some kk =>
          simp only [h2] at hk
          split at hk
          · cases hk
          · cases hk
            simp only [Tsk.refs, List.mem_singleton] at hr
            subst hr; simp [sizeSpec, rank]
      · cases hk
    | dep _ => simp [sizeSpec, sizeTask] at hk
  bounded := by intro k _; cases k <;> simp [sizeSpec, rank]

theorem size_wf_of_check (ns bs : List Nat) (h : sizeBoundsOK ns bs = true) : LayerWF (sizeSpec ns bs) [ns.length] := by
  apply size_wf
  simpa [sizeBoundsOK] using h

/-! ### RepartitionDivisions -/

def divSpec (st : DivState) : LSpec Key :=
  { task := divTask st, nout := st.outs.length, out := Key.out, outIdx := outIdx, depOf := depOf
    rank := rank, bound := 3 }

theorem div_out_isSome (st : DivState) (j : Nat) : (divTask st (.out j)).isSome ↔ j < st.outs.length := by
  simp only [divTask]
  constructor
  · intro h
    cases h0 : st.outs[j]? with
    | none => simp [h0] at h
    | some tmp => exact (List.getElem?_eq_some_iff.mp h0).1
  · intro h
    rw [List.getElem?_eq_getElem h]
    split <;> simp_all

theorem div_wf (st : DivState) (nin : Nat) (hok : divStateOK st nin = true) : LayerWF (divSpec st) [nin] := by
  simp only [divStateOK, Bool.and_eq_true, List.all_eq_true, decide_eq_true_eq] at hok
  obtain ⟨⟨hc, hp⟩, hn⟩ := hok
  simp only [closedOK, List.all_eq_true, decide_eq_true_eq] at hc
  have piece_some : ∀ k, k < st.pieces.length → (divTask st (.piece k)).isSome := by
    intro k hk; simp [divTask, List.getElem?_eq_getElem hk]
  exact {
    out_idx := by intro i _; rfl
    outs_defined := by intro i hi; exact (div_out_isSome st i).mpr hi
    outs_exact := by
      intro k i hk hidx
      cases k <;> simp [divSpec, outIdx] at hidx
      subst hidx
      exact ⟨(div_out_isSome st _).mp hk, rfl⟩
    own := by intro k hk; cases k <;> simp [divSpec, divTask, depOf] at hk ⊢
    closed := by
      intro k t hk r hr
      cases k with
      | piece q =>
        simp only [divSpec, divTask] at hk
        cases h0 : st.pieces[q]? with
        | none => simp [h0] at hk
        | some s =>
          simp only [h0, Option.some.injEq] at hk
          subst hk
          simp only [Tsk.refs, List.mem_singleton] at hr
          subst hr
          right; exact ⟨0, s.i, nin, rfl, rfl, hp s (List.mem_of_getElem? h0)⟩
      | out j =>
        simp only [divSpec, divTask] at hk
        cases h0 : st.outs[j]? with
        | none => simp [h0] at hk
        | some tmp =>
          have hmem := List.mem_of_getElem? h0
          simp only [h0] at hk
          split at hk
          · cases hk
            simp only [Tsk.refs, List.mem_singleton] at hr
            subst hr
            right; exact ⟨0, 0, nin, rfl, rfl, by omega⟩
          · rename_i q heq
            cases hk
            simp only [Tsk.refs, List.mem_singleton] at hr
            subst hr
            simp only [Option.some.injEq] at heq
            subst heq
            left; exact piece_some q (hc _ hmem q (by simp))
          · rename_i tmp' _ _ heq
            cases heq
            cases hk
            simp only [Tsk.refs, List.mem_map] at hr
            obtain ⟨q, hq, rfl⟩ := hr
            left; exact piece_some q (hc _ hmem q hq)
          · rename_i heq; cases heq
      | _ => simp [divSpec, divTask] at hk
    ranked := by
      intro k t hk r hr hdef
      cases k with
      | piece q =>
        simp only [divSpec, divTask] at hk
        cases h0 : st.pieces[q]? with
        | none => simp [h0] at hk
        | some s =>
          simp only [h0, Option.some.injEq] at hk
          subst hk
          simp only [Tsk.refs, List.mem_singleton] at hr
          subst hr; simp [divSpec, rank]
      | out j =>
        simp only [divSpec, divTask] at hk
        cases h0 : st.outs[j]? with
        | none => simp [h0] at hk
        | some tmp =>
          simp only [h0] at hk
          split at hk
          · cases hk
            simp only [Tsk.refs, List.mem_singleton] at hr
            subst hr; simp [divSpec, rank]
          · cases hk
            simp only [Tsk.refs, List.mem_singleton] at hr
            subst hr; simp [divSpec, rank]
          · cases hk
            simp only [Tsk.refs, List.mem_map] at hr
            obtain ⟨q, _, rfl⟩ := hr
            simp [divSpec, rank]
          · rename_i heq; cases heq
      | _ => simp [divSpec, divTask] at hk
    bounded := by intro k _; cases k <;> simp [divSpec, rank] }

end Repartition
end Dx
