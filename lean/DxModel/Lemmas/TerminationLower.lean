/-
  Lemmas/TerminationLower.lean — repeated lowering terminates when the class-level "may construct"
  relation of the `_lower` methods has a strictly decreasing rank.

  Abstraction of a `_lower` method (`Respects`): applied to a node of class `c` it returns a tree whose
  nodes are either (copies of) subterms of the node's operands or new nodes of classes `c'` with
  `MayConstruct c c'`.  Copies are allowed any number of times (`Mean` lowers to
  `Sum(frame) / Count(frame)`), the result may depend on the operands in any way (guards).
  Under a rank that strictly decreases along `MayConstruct` the rewrite relation "apply `_lower`
  somewhere" is strongly normalizing (recursive-path-order argument: induction on the rank of the root
  class, then on the operands), so `lower_once` is defined and `lower_completely` reaches a fixpoint.
-/
import DxModel.Termination
namespace Dx.Term

/-- one application of `_lower` somewhere in the tree -/
inductive Rew (low : T → Option T) : T → T → Prop where
  | root {t t' : T} : low t = some t' → Rew low t t'
  | kid {c : Nat} {pre post : List T} {k k' : T} :
      Rew low k k' → Rew low (.node c (pre ++ k :: post)) (.node c (pre ++ k' :: post))

/-- `Sub s t`: `s` is a subterm of `t` (reflexive) -/
inductive Sub : T → T → Prop where
  | refl (t : T) : Sub t t
  | step {s k : T} {c : Nat} {ks : List T} : Sub s k → k ∈ ks → Sub s (.node c ks)

/-- what `_lower` of a node of class `c` with operands `ks` may return -/
inductive Built (E : Nat → Nat → Prop) (c : Nat) (ks : List T) : T → Prop where
  | old {s k : T} : Sub s k → k ∈ ks → Built E c ks s
  | new {c' : Nat} {ss : List T} : E c c' → (∀ s ∈ ss, Built E c ks s) → Built E c ks (.node c' ss)

def Respects (E : Nat → Nat → Prop) (low : T → Option T) : Prop :=
  ∀ c ks t', low (.node c ks) = some t' → Built E c ks t'

/-- strongly normalizing: no infinite sequence of `_lower` applications starts at `t` -/
def SN (low : T → Option T) (t : T) : Prop := Acc (fun a b => Rew low b a) t

theorem Sub.lift {low : T → Option T} {s t : T} (h : Sub s t) :
    ∀ s', Rew low s s' → ∃ t', Rew low t t' ∧ Sub s' t' := by
  induction h with
  | refl => intro s' hr; exact ⟨s', hr, Sub.refl _⟩
  | @step k c ks _ hk ih =>
    intro s' hr
    obtain ⟨k', hk', hsub⟩ := ih s' hr
    obtain ⟨pre, post, rfl⟩ := List.append_of_mem hk
    exact ⟨.node c (pre ++ k' :: post), Rew.kid hk', Sub.step hsub (by simp)⟩

theorem SN.sub {low : T → Option T} {t : T} (h : SN low t) : ∀ s, Sub s t → SN low s := by
  unfold SN at h
  induction h with
  | intro t _ ih =>
    intro s hs
    constructor
    intro s' hr
    obtain ⟨t', ht', hsub⟩ := hs.lift s' hr
    exact ih t' ht' s' hsub

/-- `RL a b`: the list `a` is `b` with one element rewritten -/
def RL (low : T → Option T) (a b : List T) : Prop :=
  ∃ pre k k' post, b = pre ++ k :: post ∧ a = pre ++ k' :: post ∧ Rew low k k'

theorem acc_cons {low : T → Option T} : ∀ k, SN low k → ∀ ks, Acc (RL low) ks → Acc (RL low) (k :: ks) := by
  intro k hk
  unfold SN at hk
  induction hk with
  | intro k hkacc ih1 =>
    intro ks hks
    induction hks with
    | intro ks hksacc ih2 =>
      constructor
      intro y hy
      obtain ⟨pre, x, x', post, hb, ha, hr⟩ := hy
      cases pre with
      | nil =>
        simp only [List.nil_append, List.cons.injEq] at hb
        obtain ⟨rfl, rfl⟩ := hb
        subst ha
        exact ih1 x' hr ks (Acc.intro ks hksacc)
      | cons p pre' =>
        simp only [List.cons_append, List.cons.injEq] at hb
        obtain ⟨rfl, rfl⟩ := hb
        subst ha
        exact ih2 (pre' ++ x' :: post) ⟨pre', x, x', post, rfl, rfl, hr⟩

theorem acc_list {low : T → Option T} : ∀ ks, (∀ k ∈ ks, SN low k) → Acc (RL low) ks := by
  intro ks
  induction ks with
  | nil =>
    intro _
    constructor
    intro y hy
    obtain ⟨pre, x, x', post, hb, _, _⟩ := hy
    cases pre <;> simp at hb
  | cons k ks ih =>
    intro h
    exact acc_cons k (h k (by simp)) ks (ih (fun x hx => h x (List.mem_cons_of_mem _ hx)))

theorem sn_node_core {low : T → Option T} {E : Nat → Nat → Prop} {rk : Nat → Nat}
    (hresp : Respects E low) (hrank : ∀ c c', E c c' → rk c' < rk c) (r : Nat)
    (hlow : ∀ c', rk c' < r → ∀ ss, (∀ s ∈ ss, SN low s) → SN low (.node c' ss)) :
    ∀ c, rk c ≤ r → ∀ ks, (∀ k ∈ ks, SN low k) → SN low (.node c ks) := by
  intro c hc ks hks
  have hacc := acc_list ks hks
  induction hacc with
  | intro ks _ ih =>
    constructor
    intro u hu
    have built_sn : ∀ u, Built E c ks u → SN low u := by
      intro u hb
      induction hb with
      | old hs hk => exact (hks _ hk).sub _ hs
      | @new c' ss he _ ih' =>
        exact hlow c' (by have := hrank c c' he; omega) ss ih'
    generalize hnode : T.node c ks = t at hu
    cases hu with
    | root h =>
      subst hnode
      exact built_sn _ (hresp c ks _ h)
    | @kid c' pre post k k' hr =>
      simp only [T.node.injEq] at hnode
      obtain ⟨rfl, rfl⟩ := hnode
      apply ih (pre ++ k' :: post) ⟨pre, k, k', post, rfl, rfl, hr⟩
      intro x hx
      rcases List.mem_append.mp hx with hx | hx
      · exact hks x (by simp [hx])
      · rcases List.mem_cons.mp hx with rfl | hx
        · exact Acc.inv (hks k (by simp)) hr
        · exact hks x (by simp [hx])

theorem sn_node {low : T → Option T} {E : Nat → Nat → Prop} {rk : Nat → Nat}
    (hresp : Respects E low) (hrank : ∀ c c', E c c' → rk c' < rk c) :
    ∀ r c, rk c ≤ r → ∀ ks, (∀ k ∈ ks, SN low k) → SN low (.node c ks) := by
  intro r
  induction r with
  | zero =>
    exact sn_node_core hresp hrank 0 (fun c' h => by omega)
  | succ r ih =>
    exact sn_node_core hresp hrank (r+1) (fun c' h => ih c' (by omega))

theorem sizeOf_kid_lt {c : Nat} {ks : List T} {k : T} (hk : k ∈ ks) : sizeOf k < sizeOf (T.node c ks) := by
  have := List.sizeOf_lt_of_mem hk
  simp only [T.node.sizeOf_spec]
  omega

/-- every expression tree is strongly normalizing -/
theorem all_sn {low : T → Option T} {E : Nat → Nat → Prop} {rk : Nat → Nat}
    (hresp : Respects E low) (hrank : ∀ c c', E c c' → rk c' < rk c) : ∀ t, SN low t := by
  have key : ∀ n t, sizeOf t ≤ n → SN low t := by
    intro n
    induction n with
    | zero =>
      intro t ht
      cases t with
      | node c ks => simp only [T.node.sizeOf_spec] at ht; omega
    | succ n ih =>
      intro t ht
      cases t with
      | node c ks =>
        apply sn_node hresp hrank (rk c) c (Nat.le_refl _)
        intro k hk
        exact ih k (by have := sizeOf_kid_lt (c := c) hk; omega)
  exact fun t => key (sizeOf t) t (Nat.le_refl _)

/-! ### structural equality test used by `lower_completely` (`new._name == expr._name`) -/

mutual
theorem T.beq_iff : ∀ (a b : T), T.beq a b = true ↔ a = b
  | .node c ks, .node c' ks' => by
    simp only [T.beq, Bool.and_eq_true, beq_iff_eq, T.node.injEq, T.beqList_iff ks ks']
theorem T.beqList_iff : ∀ (as bs : List T), T.beqList as bs = true ↔ as = bs
  | [], [] => by simp [T.beqList]
  | a :: as, b :: bs => by
    simp only [T.beqList, Bool.and_eq_true, List.cons.injEq, T.beq_iff a b, T.beqList_iff as bs]
  | [], _ :: _ => by simp [T.beqList]
  | _ :: _, [] => by simp [T.beqList]
end

/-! ### `lower_once` is defined (enough fuel exists) -/

theorem Sub.trans {a b c : T} (h1 : Sub a b) (h2 : Sub b c) : Sub a c := by
  induction h2 with
  | refl => exact h1
  | step _ hk ih => exact Sub.step ih hk

/-- `Desc a b`: `a` is obtained from `b` by one `_lower` application somewhere, or is an operand of `b` -/
def Desc (low : T → Option T) (a b : T) : Prop := Rew low b a ∨ a ∈ b.kids

theorem acc_desc_sub {low : T → Option T} {t : T} (h : SN low t) : ∀ s, Sub s t → Acc (Desc low) s := by
  unfold SN at h
  induction h with
  | intro t _ ihO =>
    have key : ∀ n s, sizeOf s ≤ n → Sub s t → Acc (Desc low) s := by
      intro n
      induction n with
      | zero =>
        intro s hs
        cases s with
        | node c ks => simp only [T.node.sizeOf_spec] at hs; omega
      | succ n ihn =>
        intro s hsz hs
        constructor
        intro y hy
        rcases hy with hr | hmem
        · obtain ⟨t', ht', hsub⟩ := hs.lift y hr
          exact ihO t' ht' y hsub
        · cases s with
          | node c ks =>
            simp only [T.kids] at hmem
            apply ihn y
            · have := sizeOf_kid_lt (c := c) hmem; omega
            · exact Sub.trans (Sub.step (Sub.refl y) hmem) hs
    exact fun s hs => key (sizeOf s) s (Nat.le_refl _) hs

theorem mapOpt_mono {α β} (f g : α → Option β) : ∀ (l : List α) (bs : List β),
    (∀ a ∈ l, ∀ b, f a = some b → g a = some b) → mapOpt f l = some bs → mapOpt g l = some bs := by
  intro l
  induction l with
  | nil => intro bs _ h; simpa [mapOpt] using h
  | cons a as ih =>
    intro bs hfg h
    simp only [mapOpt] at h ⊢
    cases hfa : f a with
    | none => simp [hfa] at h
    | some b =>
      cases hfas : mapOpt f as with
      | none => simp [hfa, hfas] at h
      | some bs' =>
        simp only [hfa, hfas, Option.some.injEq] at h
        rw [hfg a (by simp) b hfa, ih bs' (fun x hx => hfg x (List.mem_cons_of_mem _ hx)) hfas]
        simpa using h

theorem lowerOnce_succ {low : T → Option T} : ∀ (f : Nat) (t u : T),
    lowerOnce low f t = some u → lowerOnce low (f+1) t = some u := by
  intro f
  induction f with
  | zero => intro t u h; rw [lowerOnce] at h; cases h
  | succ f ih =>
    intro t u h
    rw [lowerOnce] at h ⊢
    obtain ⟨ks, hm, rfl⟩ := Option.map_eq_some_iff.mp h
    rw [mapOpt_mono _ (lowerOnce low (f+1)) _ ks (fun a _ b hb => ih a b hb) hm]
    rfl

theorem lowerOnce_mono {low : T → Option T} {f f' : Nat} {t u : T} (h : lowerOnce low f t = some u)
    (hle : f ≤ f') : lowerOnce low f' t = some u := by
  induction hle with
  | refl => exact h
  | step _ ih => exact lowerOnce_succ _ _ _ ih

/-- a common fuel for all operands -/
theorem kids_fuel {low : T → Option T} : ∀ (ks : List T), (∀ k ∈ ks, ∃ f u, lowerOnce low f k = some u) →
    ∃ F l, mapOpt (lowerOnce low F) ks = some l := by
  intro ks
  induction ks with
  | nil => intro _; exact ⟨0, [], rfl⟩
  | cons k ks ih =>
    intro h
    obtain ⟨f, u, hu⟩ := h k (by simp)
    obtain ⟨F, l, hl⟩ := ih (fun x hx => h x (List.mem_cons_of_mem _ hx))
    refine ⟨max f F, u :: l, ?_⟩
    simp only [mapOpt]
    rw [lowerOnce_mono hu (Nat.le_max_left f F),
      mapOpt_mono _ (lowerOnce low (max f F)) ks l (fun a _ b hb => lowerOnce_mono hb (Nat.le_max_right f F)) hl]

theorem outOf_cases (low : T → Option T) (t : T) :
    (low t = none ∧ outOf low t = t) ∨ (∃ o, low t = some o ∧ outOf low t = o) := by
  unfold outOf
  cases hl : low t with
  | none => exact Or.inl ⟨rfl, rfl⟩
  | some o => exact Or.inr ⟨o, rfl, rfl⟩

theorem lowerOnce_total {low : T → Option T} (t : T) (h : Acc (Desc low) t) :
    (∃ f u, lowerOnce low f t = some u) ∧ ∀ k ∈ t.kids, ∃ f u, lowerOnce low f k = some u := by
  induction h with
  | intro t _ ih =>
    have hkids : ∀ k ∈ t.kids, ∃ f u, lowerOnce low f k = some u :=
      fun k hk => (ih k (Or.inr hk)).1
    refine ⟨?_, hkids⟩
    have hout : ∀ k ∈ (outOf low t).kids, ∃ f u, lowerOnce low f k = some u := by
      rcases outOf_cases low t with ⟨_, ho⟩ | ⟨o, hl, ho⟩
      · rw [ho]; exact hkids
      · rw [ho]; exact (ih o (Or.inl (Rew.root hl))).2
    obtain ⟨F, l, hF⟩ := kids_fuel (outOf low t).kids hout
    exact ⟨F + 1, .node (outOf low t).cls l, by rw [lowerOnce, hF]; rfl⟩

/-! ### what `lower_once` computes is reachable by `_lower` applications -/

inductive RewStar (low : T → Option T) : T → T → Prop where
  | refl (t : T) : RewStar low t t
  | head {a b c : T} : Rew low a b → RewStar low b c → RewStar low a c

theorem RewStar.trans {low : T → Option T} {a b c : T} (h1 : RewStar low a b) (h2 : RewStar low b c) :
    RewStar low a c := by
  induction h1 with
  | refl => exact h2
  | head r _ ih => exact RewStar.head r (ih h2)

theorem RewStar.ctx {low : T → Option T} {k v : T} (h : RewStar low k v) (c : Nat) (pre post : List T) :
    RewStar low (.node c (pre ++ k :: post)) (.node c (pre ++ v :: post)) := by
  induction h with
  | refl => exact RewStar.refl _
  | head r _ ih => exact RewStar.head (Rew.kid r) ih

theorem RewStar.kids {low : T → Option T} (g : T → Option T) (c : Nat) : ∀ (ks l pre : List T),
    mapOpt g ks = some l → (∀ k ∈ ks, ∀ v, g k = some v → RewStar low k v) →
    RewStar low (.node c (pre ++ ks)) (.node c (pre ++ l)) := by
  intro ks
  induction ks with
  | nil =>
    intro l pre h _
    simp only [mapOpt, Option.some.injEq] at h
    subst h
    exact RewStar.refl _
  | cons k ks ih =>
    intro l pre h hg
    simp only [mapOpt] at h
    cases hk : g k with
    | none => simp [hk] at h
    | some v =>
      cases hks : mapOpt g ks with
      | none => simp [hk, hks] at h
      | some l' =>
        simp only [hk, hks, Option.some.injEq] at h
        subst h
        have h1 := (hg k (by simp) v hk).ctx c pre ks
        have h2 := ih l' (pre ++ [v]) hks (fun x hx => hg x (List.mem_cons_of_mem _ hx))
        simp only [List.append_assoc, List.singleton_append] at h2
        exact h1.trans h2

theorem lowerOnce_rewStar {low : T → Option T} : ∀ (f : Nat) (t u : T),
    lowerOnce low f t = some u → RewStar low t u := by
  intro f
  induction f with
  | zero => intro t u h; rw [lowerOnce] at h; cases h
  | succ f ih =>
    intro t u h
    rw [lowerOnce] at h
    obtain ⟨ks, hm, rfl⟩ := Option.map_eq_some_iff.mp h
    have hout : RewStar low t (outOf low t) := by
      rcases outOf_cases low t with ⟨_, ho⟩ | ⟨o, hl, ho⟩
      · rw [ho]; exact RewStar.refl _
      · rw [ho]; exact RewStar.head (Rew.root hl) (RewStar.refl _)
    refine hout.trans ?_
    generalize outOf low t = out at hm
    cases out with
    | node c oks =>
      have := RewStar.kids (low := low) (lowerOnce low f) c oks ks [] hm (fun k _ v hv => ih k v hv)
      simpa [T.cls, T.kids] using this

theorem RewStar.sn {low : T → Option T} {a b : T} (h : RewStar low a b) : SN low a → SN low b := by
  induction h with
  | refl => exact id
  | head r _ ih => exact fun ha => ih (Acc.inv ha r)

/-! ### `lower_completely` reaches a fixpoint -/

/-- `lower_completely` started at `u` returns `r` after `k` calls of `lower_once`, for all
    sufficiently large fuels, and `r` is a fixpoint of `lower_once` -/
def Converges (low : T → Option T) (u : T) : Prop :=
  ∃ F P r k, ∀ F', F ≤ F' → ∀ P', P ≤ P' → ∀ n,
    lowerCompletely low F' P' u n = some (r, n + k) ∧ lowerOnce low F' r = some r

theorem converges_all {low : T → Option T} (htot : ∀ t, ∃ f u, lowerOnce low f t = some u) :
    ∀ t, SN low t → ∀ u, RewStar low t u → Converges low u := by
  intro t ht
  unfold SN at ht
  induction ht with
  | intro t _ ih =>
    intro u hu
    cases hu with
    | head r rest => exact ih _ r u rest
    | refl =>
      obtain ⟨F0, u1, hu1⟩ := htot t
      by_cases hb : T.beq u1 t = true
      · have heq : u1 = t := (T.beq_iff u1 t).mp hb
        subst heq
        refine ⟨F0, 1, u1, 1, ?_⟩
        intro F' hF P' hP n
        obtain ⟨P'', rfl⟩ : ∃ P'', P' = P'' + 1 := ⟨P' - 1, by omega⟩
        have h1 := lowerOnce_mono hu1 hF
        exact ⟨by simp only [lowerCompletely, h1, hb, if_true], h1⟩
      · have hstar := lowerOnce_rewStar F0 t u1 hu1
        cases hstar with
        | refl => exact absurd ((T.beq_iff t t).mpr rfl) hb
        | head r rest =>
          obtain ⟨F1, P1, res, k, hres⟩ := ih _ r u1 rest
          refine ⟨max F0 F1, P1 + 1, res, k + 1, ?_⟩
          intro F' hF P' hP n
          obtain ⟨P'', rfl⟩ : ∃ P'', P' = P'' + 1 := ⟨P' - 1, by omega⟩
          have h1 := lowerOnce_mono hu1 (Nat.le_trans (Nat.le_max_left F0 F1) hF)
          obtain ⟨h2, h3⟩ := hres F' (Nat.le_trans (Nat.le_max_right F0 F1) hF) P'' (by omega) (n + 1)
          refine ⟨?_, h3⟩
          simp only [lowerCompletely, h1, hb]
          rw [h2]
          have : n + 1 + k = n + (k + 1) := by omega
          rw [this]
          simp

/-- **Termination of `lower_completely`**: if every `_lower` only builds new nodes of classes it may
    construct (`Respects`) and a rank strictly decreases along "may construct", then from every tree
    `lower_completely` returns — for all sufficiently large fuels — a tree that `lower_once` leaves
    unchanged, after a number `k` of `lower_once` calls that does not depend on the fuels. -/
theorem lower_terminates {low : T → Option T} {E : Nat → Nat → Prop} {rk : Nat → Nat}
    (hresp : Respects E low) (hrank : ∀ c c', E c c' → rk c' < rk c) (t : T) : Converges low t := by
  have hsn := all_sn hresp hrank
  have htot : ∀ t, ∃ f u, lowerOnce low f t = some u :=
    fun t => (lowerOnce_total t (acc_desc_sub (hsn t) t (Sub.refl t))).1
  exact converges_all htot t (hsn t) t (RewStar.refl t)

/-- a returned tree is a fixpoint of `lower_once` -/
theorem lowerCompletely_fixpoint {low : T → Option T} (F : Nat) : ∀ (P : Nat) (t r : T) (n m : Nat),
    lowerCompletely low F P t n = some (r, m) → lowerOnce low F r = some r := by
  intro P
  induction P with
  | zero => intro t r n m h; simp [lowerCompletely] at h
  | succ P ih =>
    intro t r n m h
    simp only [lowerCompletely] at h
    cases hl : lowerOnce low F t with
    | none => simp [hl] at h
    | some t' =>
      simp only [hl] at h
      by_cases hb : T.beq t' t = true
      · simp only [hb, if_true, Option.some.injEq, Prod.mk.injEq] at h
        have heq : t' = t := (T.beq_iff t' t).mp hb
        rw [← h.1, ← heq]
        rw [heq]; rw [heq] at hl; exact hl
      · simp only [hb] at h
        exact ih t' r (n + 1) m h

end Dx.Term
