/-
  Lemmas/PredDNF.lean — `_DNF.normalize/combine/extract_pq_filters` keep the meaning of a filter;
  Kleene evaluation of negation-free filters; agreement with pandas on null-compatible atoms.
-/
import DxModel.Pred
namespace Dx.Pred

variable {α : Type}

theorem evalDNF_append (t : α → Bool) (a b : DNF α) : evalDNF t (a ++ b) = (evalDNF t a || evalDNF t b) := by
  simp [evalDNF, List.any_append]

theorem evalDNF_flatten (t : α → Bool) (ds : List (DNF α)) :
    evalDNF t ds.flatten = ds.any (evalDNF t) := by
  induction ds with
  | nil => rfl
  | cons d ds ih => simp only [List.flatten_cons, evalDNF_append, ih, List.any_cons]

theorem evalDNF_map_append (t : α → Bool) (c : List α) (d : DNF α) :
    evalDNF t (d.map (fun c' => c ++ c')) = (c.all t && evalDNF t d) := by
  induction d with
  | nil => simp [evalDNF]
  | cons x xs ih =>
    simp only [evalDNF, List.map_cons, List.any_cons, List.all_append] at ih ⊢
    rw [ih]
    cases c.all t <;> simp

theorem evalDNF_flatMap (t : α → Bool) (d : DNF α) (g : List α → DNF α) :
    evalDNF t (d.flatMap g) = d.any (fun c => evalDNF t (g c)) := by
  induction d with
  | nil => rfl
  | cons x xs ih => simp only [List.flatMap_cons, evalDNF_append, ih, List.any_cons]

theorem evalDNF_product (t : α → Bool) (ds : List (DNF α)) :
    evalDNF t (dnfProduct ds) = ds.all (evalDNF t) := by
  induction ds with
  | nil => simp [dnfProduct, evalDNF]
  | cons d ds ih =>
    simp only [dnfProduct, evalDNF_flatMap, evalDNF_map_append, ih, List.all_cons]
    generalize ds.all (evalDNF t) = B
    induction d with
    | nil => simp [evalDNF]
    | cons c cs ihc =>
      simp only [List.any_cons, ihc, evalDNF]
      cases B <;> simp

mutual
theorem eval_dnfNormalize (t : α → Bool) : ∀ f : Filt α, evalDNF t (dnfNormalize f) = evalFilt t f
  | .tup a => by simp [dnfNormalize, evalFilt, evalDNF]
  | .lst l => by simp [dnfNormalize, evalFilt]
  | .orS fs => by
      simp only [dnfNormalize, evalFilt, evalDNF_flatten]
      exact eval_dnfNormalizeList_any t fs
  | .andS fs => by
      simp only [dnfNormalize, evalFilt, evalDNF_product]
      exact eval_dnfNormalizeList_all t fs
theorem eval_dnfNormalizeList_any (t : α → Bool) : ∀ fs : List (Filt α),
    (dnfNormalizeList fs).any (evalDNF t) = evalFiltAny t fs
  | [] => by simp [dnfNormalizeList, evalFiltAny]
  | f :: fs => by
      simp only [dnfNormalizeList, evalFiltAny, List.any_cons]
      rw [eval_dnfNormalize t f, eval_dnfNormalizeList_any t fs]
theorem eval_dnfNormalizeList_all (t : α → Bool) : ∀ fs : List (Filt α),
    (dnfNormalizeList fs).all (evalDNF t) = evalFiltAll t fs
  | [] => by simp [dnfNormalizeList, evalFiltAll]
  | f :: fs => by
      simp only [dnfNormalizeList, evalFiltAll, List.all_cons]
      rw [eval_dnfNormalize t f, eval_dnfNormalizeList_all t fs]
end

/-! #### normalised values are fixed points -/

theorem dnfNormalizeList_map_tup (c : List α) : dnfNormalizeList (c.map Filt.tup) = c.map (fun a => [[a]]) := by
  induction c with
  | nil => rfl
  | cons a t ih => simp [dnfNormalizeList, dnfNormalize, ih]

theorem dnfProduct_singletons (c : List α) : dnfProduct (c.map (fun a => [[a]])) = [c] := by
  induction c with
  | nil => rfl
  | cons a t ih => simp [dnfProduct, ih]

theorem dnfNormalize_conj (c : List α) : dnfNormalize (.andS (c.map .tup)) = [c] := by
  simp [dnfNormalize, dnfNormalizeList_map_tup, dnfProduct_singletons]

theorem dnfNormalizeList_conjs (d : DNF α) :
    dnfNormalizeList (d.map (fun c => Filt.andS (c.map .tup))) = d.map (fun c => [c]) := by
  induction d with
  | nil => rfl
  | cons c t ih => simp [dnfNormalizeList, dnfNormalize_conj, ih]

theorem dnfNormalize_ofDNF (d : DNF α) : dnfNormalize (Filt.ofDNF d) = d := by
  simp only [Filt.ofDNF, dnfNormalize, dnfNormalizeList_conjs]
  induction d with
  | nil => rfl
  | cons c t ih => simp [ih]

theorem evalFilt_ofDNF (t : α → Bool) (d : DNF α) : evalFilt t (Filt.ofDNF d) = evalDNF t d := by
  rw [← eval_dnfNormalize, dnfNormalize_ofDNF]

theorem ofDNF_truthy (d : DNF α) : (Filt.ofDNF d).truthy = !d.isEmpty := by
  cases d <;> simp [Filt.ofDNF, Filt.truthy]

/-! #### frozenset equality of normalised values -/

theorem conjSubset_all [DecidableEq α] (t : α → Bool) (c1 c2 : List α) (h : conjSubset c1 c2 = true)
    (h2 : c2.all t = true) : c1.all t = true := by
  simp only [conjSubset, List.all_eq_true, List.contains_iff_mem] at h h2 ⊢
  intro a ha
  exact h2 a (by simpa using h a ha)

theorem conjSetEq_all [DecidableEq α] (t : α → Bool) (c1 c2 : List α) (h : conjSetEq c1 c2 = true) :
    c1.all t = c2.all t := by
  simp only [conjSetEq, Bool.and_eq_true] at h
  rw [Bool.eq_iff_iff]
  exact ⟨conjSubset_all t c2 c1 h.2, conjSubset_all t c1 c2 h.1⟩

theorem dnfSubset_eval [DecidableEq α] (t : α → Bool) (d1 d2 : DNF α) (h : dnfSubset d1 d2 = true)
    (h1 : evalDNF t d1 = true) : evalDNF t d2 = true := by
  simp only [dnfSubset, List.all_eq_true, List.any_eq_true] at h
  simp only [evalDNF, List.any_eq_true] at h1 ⊢
  obtain ⟨c, hc, hct⟩ := h1
  obtain ⟨c', hc', heq⟩ := h c hc
  exact ⟨c', hc', by rw [← conjSetEq_all t c c' heq]; exact hct⟩

theorem dnfSetEq_eval [DecidableEq α] (t : α → Bool) (d1 d2 : DNF α) (h : dnfSetEq d1 d2 = true) :
    evalDNF t d1 = evalDNF t d2 := by
  simp only [dnfSetEq, Bool.and_eq_true] at h
  rw [Bool.eq_iff_iff]
  exact ⟨dnfSubset_eval t d1 d2 h.1, dnfSubset_eval t d2 d1 h.2⟩

theorem evalAll_pairSet [DecidableEq α] (t : α → Bool) (l r : DNF α) :
    evalFiltAll t (pairSet l r) = (evalDNF t l && evalDNF t r) := by
  unfold pairSet
  cases h : dnfSetEq l r with
  | true => simp [evalFiltAll, evalFilt_ofDNF, ← dnfSetEq_eval t l r h]
  | false => simp [evalFiltAll, evalFilt_ofDNF]

theorem evalAny_pairSet [DecidableEq α] (t : α → Bool) (l r : DNF α) :
    evalFiltAny t (pairSet l r) = (evalDNF t l || evalDNF t r) := by
  unfold pairSet
  cases h : dnfSetEq l r with
  | true => simp [evalFiltAny, evalFilt_ofDNF, ← dnfSetEq_eval t l r h]
  | false => simp [evalFiltAny, evalFilt_ofDNF]

theorem pairSet_ne_nil [DecidableEq α] (l r : DNF α) : (pairSet l r).isEmpty = false := by
  unfold pairSet; cases dnfSetEq l r <;> rfl

/-- a product / union of non-empty normalised factors is non-empty -/
theorem normalize_and_pairSet_ne_nil [DecidableEq α] (l r : DNF α) (hl : l ≠ []) (hr : r ≠ []) :
    dnfNormalize (.andS (pairSet l r)) ≠ [] := by
  unfold pairSet
  cases l with
  | nil => exact absurd rfl hl
  | cons cl _ =>
    cases r with
    | nil => exact absurd rfl hr
    | cons cr _ =>
      cases dnfSetEq (cl :: _) (cr :: _) <;>
        simp [dnfNormalize, dnfNormalizeList, dnfNormalize_ofDNF, dnfProduct]

theorem normalize_or_pairSet_ne_nil [DecidableEq α] (l r : DNF α) (hl : l ≠ []) :
    dnfNormalize (.orS (pairSet l r)) ≠ [] := by
  unfold pairSet
  cases l with
  | nil => exact absurd rfl hl
  | cons cl _ =>
    cases dnfSetEq (cl :: _) r <;> simp [dnfNormalize, dnfNormalizeList, dnfNormalize_ofDNF]

/-! #### combine -/

theorem eval_dnfCombine [DecidableEq α] (t : α → Bool) (a b : Option (DNF α))
    (ha : ∀ d, a = some d → d ≠ []) (hb : ∀ d, b = some d → d ≠ []) :
    evalODNF t (dnfCombine a b) = (evalODNF t a && evalODNF t b) := by
  cases a with
  | none =>
    cases b with
    | none => simp [dnfCombine, dnfNormalizeTop, evalODNF]
    | some b =>
      have hb' := hb b rfl
      cases b with
      | nil => exact absurd rfl hb'
      | cons c cs =>
        simp only [dnfCombine, Option.map, dnfNormalizeTop, ofDNF_truthy, List.isEmpty_cons, Bool.not_false,
          if_true, evalODNF, dnfNormalize_ofDNF, Bool.true_and]
  | some a =>
    have ha' := ha a rfl
    cases a with
    | nil => exact absurd rfl ha'
    | cons c cs =>
      cases b with
      | none =>
        simp only [dnfCombine, dnfNormalizeTop, ofDNF_truthy, List.isEmpty_cons, Bool.not_false,
          if_true, evalODNF, dnfNormalize_ofDNF, Bool.and_true]
      | some b =>
        simp only [dnfCombine, dnfNormalizeTop, Filt.truthy, pairSet_ne_nil, Bool.not_false, if_true, evalODNF]
        rw [eval_dnfNormalize]
        simp only [evalFilt, evalAll_pairSet]

/-! #### extract_pq_filters -/

theorem extractPq_sound : ∀ (p : T Atom) (d : DNF Atom), extractPq p = some d →
    d ≠ [] ∧ p.negFree = true ∧ ∀ t : Atom → Bool, evalDNF t d = eval2 t p := by
  intro p
  induction p with
  | atom a =>
    intro d h
    cases a with
    | cmp col op c =>
      simp only [extractPq] at h
      by_cases hop : op = .ne
      · simp [hop] at h
      · simp only [hop, if_false, Option.some.injEq] at h
        subst h
        refine ⟨by simp, rfl, ?_⟩
        intro t; simp [evalDNF, eval2]
    | isin _ _ _ => simp [extractPq] at h
    | isna _ _ => simp [extractPq] at h
    | colcmp _ _ _ => simp [extractPq] at h
  | not a _ => intro d h; simp [extractPq] at h
  | and l r ihl ihr =>
    intro d h
    simp only [extractPq] at h
    cases hl : extractPq l with
    | none => rw [hl] at h; simp at h
    | some dl =>
      cases hr : extractPq r with
      | none => rw [hl, hr] at h; simp at h
      | some dr =>
        rw [hl, hr] at h
        obtain ⟨nl, fl, el⟩ := ihl dl hl
        obtain ⟨nr, fr, er⟩ := ihr dr hr
        have hle : dl.isEmpty = false := by cases dl <;> simp_all
        have hre : dr.isEmpty = false := by cases dr <;> simp_all
        simp only [hle, hre, Bool.not_false, Bool.and_self, if_true, dnfNormalizeTop, Filt.truthy,
          pairSet_ne_nil, Option.some.injEq] at h
        subst h
        have ev : ∀ t : Atom → Bool, evalDNF t (dnfNormalize (.andS (pairSet dl dr))) = eval2 t (.and l r) := by
          intro t
          rw [eval_dnfNormalize]
          simp only [evalFilt, evalAll_pairSet, el, er, eval2]
        exact ⟨normalize_and_pairSet_ne_nil dl dr nl nr, by simp [T.negFree, fl, fr], ev⟩
  | or l r ihl ihr =>
    intro d h
    simp only [extractPq] at h
    cases hl : extractPq l with
    | none => rw [hl] at h; simp at h
    | some dl =>
      cases hr : extractPq r with
      | none => rw [hl, hr] at h; simp at h
      | some dr =>
        rw [hl, hr] at h
        obtain ⟨nl, fl, el⟩ := ihl dl hl
        obtain ⟨nr, fr, er⟩ := ihr dr hr
        have hle : dl.isEmpty = false := by cases dl <;> simp_all
        have hre : dr.isEmpty = false := by cases dr <;> simp_all
        simp only [hle, hre, Bool.not_false, Bool.and_self, if_true, dnfNormalizeTop, Filt.truthy,
          pairSet_ne_nil, Option.some.injEq] at h
        subst h
        have ev : ∀ t : Atom → Bool, evalDNF t (dnfNormalize (.orS (pairSet dl dr))) = eval2 t (.or l r) := by
          intro t
          rw [eval_dnfNormalize]
          simp only [evalFilt, evalAny_pairSet, el, er, eval2]
        exact ⟨normalize_or_pairSet_ne_nil dl dr nl, by simp [T.negFree, fl, fr], ev⟩

/-! #### Kleene evaluation of negation-free trees is a Boolean homomorphism on "is (non-null) true" -/

theorem and3_true (x y : Option Bool) : (and3 x y == some true) = ((x == some true) && (y == some true)) := by
  cases x with
  | none => cases y with
    | none => rfl
    | some b => cases b <;> rfl
  | some a => cases a <;> cases y with
    | none => rfl
    | some b => cases b <;> rfl

theorem or3_true (x y : Option Bool) : (or3 x y == some true) = ((x == some true) || (y == some true)) := by
  cases x with
  | none => cases y with
    | none => rfl
    | some b => cases b <;> rfl
  | some a => cases a <;> cases y with
    | none => rfl
    | some b => cases b <;> rfl

theorem keep3_negFree (v : Cells) : ∀ p : T Atom, p.negFree = true →
    keep3 v p = eval2 (fun a => a.eval3 v == some true) p := by
  intro p
  induction p with
  | atom a => intro _; rfl
  | not a _ => intro h; simp [T.negFree] at h
  | and l r ihl ihr =>
    intro h
    simp only [T.negFree, Bool.and_eq_true] at h
    have hl := ihl h.1; have hr := ihr h.2
    simp only [keep3] at hl hr ⊢
    simp only [eval3, eval2, and3_true, hl, hr]
  | or l r ihl ihr =>
    intro h
    simp only [T.negFree, Bool.and_eq_true] at h
    have hl := ihl h.1; have hr := ihr h.2
    simp only [keep3] at hl hr ⊢
    simp only [eval3, eval2, or3_true, hl, hr]

theorem atom_nullCompatible (v : Cells) (a : Atom) (h : a.NullCompatible = true) :
    (a.eval3 v == some true) = a.eval2 v := by
  cases a with
  | cmp col op c =>
    simp only [Atom.eval3, Atom.eval2]
    cases v col with
    | none => cases op <;> simp_all [Atom.NullCompatible]
    | some x => simp
  | isin col neg cs =>
    simp only [Atom.eval3, Atom.eval2]
    cases v col with
    | none => simp_all [Atom.NullCompatible]
    | some x => simp
  | isna col neg =>
    simp only [Atom.eval3, Atom.eval2]
    cases v col <;> simp
  | colcmp col op col2 =>
    simp only [Atom.eval3, Atom.eval2]
    cases v col with
    | none => cases op <;> simp_all [Atom.NullCompatible]
    | some x =>
      cases v col2 with
      | none => cases op <;> simp_all [Atom.NullCompatible]
      | some y => simp

theorem eval2_congr_atoms (t₁ t₂ : α → Bool) : ∀ p : T α, (∀ a ∈ p.atoms, t₁ a = t₂ a) → eval2 t₁ p = eval2 t₂ p := by
  intro p
  induction p with
  | atom a => intro h; exact h a (by simp [T.atoms])
  | not a ih => intro h; simp only [eval2]; rw [ih (fun a ha => h a (by simpa [T.atoms] using ha))]
  | and l r ihl ihr =>
    intro h
    simp only [eval2]
    rw [ihl (fun a ha => h a (by simp [T.atoms, ha])), ihr (fun a ha => h a (by simp [T.atoms, ha]))]
  | or l r ihl ihr =>
    intro h
    simp only [eval2]
    rw [ihl (fun a ha => h a (by simp [T.atoms, ha])), ihr (fun a ha => h a (by simp [T.atoms, ha]))]

theorem evalDNF_congr (t₁ t₂ : α → Bool) (d : DNF α) (h : ∀ c ∈ d, ∀ a ∈ c, t₁ a = t₂ a) :
    evalDNF t₁ d = evalDNF t₂ d := by
  induction d with
  | nil => rfl
  | cons c cs ih =>
    simp only [evalDNF, List.any_cons] at ih ⊢
    rw [ih (fun c' hc' => h c' (List.mem_cons_of_mem _ hc'))]
    congr 1
    have hc := h c List.mem_cons_self
    clear h ih
    induction c with
    | nil => rfl
    | cons a as iha =>
      simp only [List.all_cons]
      rw [hc a List.mem_cons_self, iha (fun a' ha' => hc a' (List.mem_cons_of_mem _ ha'))]

/-- everything `extract_pq_filters` accepts is built from atoms on which the reader agrees with pandas -/
theorem extractPq_nullCompatible : ∀ (p : T Atom) (d : DNF Atom), extractPq p = some d →
    ∀ a ∈ p.atoms, a.NullCompatible = true := by
  intro p
  induction p with
  | atom a =>
    intro d h b hb
    simp only [T.atoms, List.mem_singleton] at hb
    subst hb
    cases b with
    | cmp col op c =>
      simp only [extractPq] at h
      by_cases hop : op = .ne
      · simp [hop] at h
      · simp [Atom.NullCompatible, hop]
    | isin _ _ _ => simp [extractPq] at h
    | isna _ _ => simp [extractPq] at h
    | colcmp _ _ _ => simp [extractPq] at h
  | not a _ => intro d h; simp [extractPq] at h
  | and l r ihl ihr =>
    intro d h a ha
    simp only [extractPq] at h
    cases hl : extractPq l with
    | none => rw [hl] at h; simp at h
    | some dl =>
      cases hr : extractPq r with
      | none => rw [hl, hr] at h; simp at h
      | some dr =>
        simp only [T.atoms, List.mem_append] at ha
        rcases ha with ha | ha
        · exact ihl dl hl a ha
        · exact ihr dr hr a ha
  | or l r ihl ihr =>
    intro d h a ha
    simp only [extractPq] at h
    cases hl : extractPq l with
    | none => rw [hl] at h; simp at h
    | some dl =>
      cases hr : extractPq r with
      | none => rw [hl, hr] at h; simp at h
      | some dr =>
        simp only [T.atoms, List.mem_append] at ha
        rcases ha with ha | ha
        · exact ihl dl hl a ha
        · exact ihr dr hr a ha

end Dx.Pred
